#!/bin/sh
# Evaluate the C17 mutants: each patch is applied to a scratch copy of the repository (on top of
# fixes/C17-glyph-cache-last-null-slot.patch unless /repo already contains it) and `bin/check C17 --tier quick`
# must report a VIOLATION (exit 1).  Usage: selftest/glyph/run_mutants.sh [scratch-dir]
set -u
V=$(cd "$(dirname "$0")/../.." && pwd)
S=${1:-/tmp/glyph-selftest}
rm -rf "$S"; mkdir -p "$S"
cp -r /repo "$S/base"; rm -rf "$S/base/_build"
if ! grep -q 'n_glyphs + cache->n_tombstones >= HASH_SIZE - 1' "$S/base/pixman/pixman-glyph.c"; then
    (cd "$S/base" && patch -p1 -s < "$V/fixes/C17-glyph-cache-last-null-slot.patch") || exit 2
fi
for p in "$V"/selftest/glyph/m*.patch; do   # equiv-*.patch: behaviour-preserving, see RESULTS.txt
    n=$(basename "$p" .patch)
    rm -rf "$S/mut"; cp -r "$S/base" "$S/mut"
    (cd "$S/mut" && patch -p1 -s < "$p") || { echo "$n: patch does not apply"; continue; }
    VERIF_GLYPH_SKIP_MC=1 VERIF_REPO="$S/mut" "$V/bin/check" C17 --tier quick > "$S/$n.log" 2>&1
    rc=$?
    echo "$n: exit=$rc violations=$(grep -c '^VIOLATION' "$S/$n.log") first: $(grep -A1 '^VIOLATION' "$S/$n.log" | sed -n 2p | cut -c1-260)"
done
rm -rf "$S/mut" "$S/base"
