------------------------------- MODULE Image -------------------------------
(* pixman images as the public API shows them, in two parts.                              *)
(*                                                                                        *)
(*   Part 1  LIFETIME (property C20): reference counts, what an image owns, alpha-map     *)
(*           attachment, destroy callbacks, glyph-cache copies.                           *)
(*   Part 2  PROPERTIES (property C14): the record of everything a setter can change,     *)
(*           the dirty flag and the state _pixman_image_validate derives from it.         *)
(*                                                                                        *)
(* The module declares no variables: a state is a record, an API call is a record         *)
(* [op, i, j, v], and LifeStep / PropStep map a state and a call to the SET of states     *)
(* the specification allows after the call.  spec/mc/LifeMC and ImagePropMC explore       *)
(* them exhaustively, spec/gen/LifeGen and ImageGen print behaviours that the drivers     *)
(* replay on the real library, spec/trace/LifeTrace and ImageTrace check recorded calls   *)
(* against the same operators.                                                            *)
(*                                                                                        *)
(* Bugs is the set of deliberately wrong design decisions switched on (negative           *)
(* configurations that TLC must reject); the specification is Bugs = {}.                  *)
EXTENDS Naturals, FiniteSets, Sequences, TLC

CONSTANTS Img,       \* image slots of the pool: a finite set of positive integers
          GKeys,     \* glyph-cache keys: a finite set of positive integers
          MaxHeld,   \* bound on the references the client holds on one image
          Bugs

None == 0

(* ====================================================================================== *)
(* Part 1: lifetime                                                                       *)
(* ====================================================================================== *)
(* State record S:                                                                        *)
(*   kind[i]   "free" (slot empty) or the type the image was created with                 *)
(*   refs[i]   common.ref_count                                                           *)
(*   held[i]   references owned by the client (one from create, one per ref)              *)
(*   amap[i]   the image attached as alpha map of i, or None                              *)
(*   stale[i]  TRUE when an image died while i was attached to it: pixman-image.c does    *)
(*             not decrement alpha_count in _pixman_image_fini, so from then on the code  *)
(*             believes that i is still used as an alpha map (DESIGN.md 6 #8)             *)
(*   dfn[i]    0 = no destroy function, d > 0 = destroy function set with user data d     *)
(*   heap      live allocations <<owner, what>>; owner i = image slot i, 100 + k = the    *)
(*             glyph-cache entry with key k                                               *)
(*   cache     whether the glyph cache exists (created and frozen); it is allocation       *)
(*             <<99, "cache">> and owns one private COPY of every image inserted: the       *)
(*             argument image of insert is only read, no reference on it is taken or dropped *)
(*   glyphs    keys present in the glyph cache                                            *)
(* and the output of the last call:                                                       *)
(*   ev        micro events in program order  M/F (malloc/free), R/U (ref/unref with the  *)
(*             count after it and whether the image was freed), D (destroy callback)      *)
(*   ret       value returned by pixman_image_unref                                       *)
(*   died      <<image, user data of its destroy function>> of every image released       *)
(*   err       "" or the first memory error the call committed                            *)
(*   dev       "" or the name of a tolerated deviation the call took                      *)
KindName == <<"bits", "bitsx", "solid", "linear", "radial", "conical">>
    \* bits: pixel buffer allocated by pixman; bitsx: buffer supplied (and owned) by the caller
IsBits(k) == k \in {"bits", "bitsx"}
IsGrad(k) == k \in {"linear", "radial", "conical"}
GOwner(k) == 100 + k

LifeInit ==
    [kind |-> [i \in Img |-> "free"], refs |-> [i \in Img |-> 0], held |-> [i \in Img |-> 0],
     amap |-> [i \in Img |-> None], stale |-> [i \in Img |-> FALSE], dfn |-> [i \in Img |-> 0],
     heap |-> {}, glyphs |-> {}, cache |-> FALSE,
     ev |-> <<>>, ret |-> FALSE, died |-> <<>>, err |-> "", dev |-> ""]

Alive(S, i)   == S.kind[i] # "free"
OwnedBy(S, o) == {a \in S.heap : a[1] = o}
Owns(S, o, w) == <<o, w>> \in S.heap
Holders(S, m) == {h \in Img : Alive(S, h) /\ S.amap[h] = m}

Ev(k, a, b, c) == [k |-> k, a |-> a, b |-> b, c |-> c]
Emit(S, e)   == [S EXCEPT !.ev = Append(@, e)]
Fail(S, msg) == IF S.err = "" THEN [S EXCEPT !.err = msg] ELSE S
Begin(S)     == [S EXCEPT !.ev = <<>>, !.ret = FALSE, !.died = <<>>, !.dev = ""]

Alloc(S, o, w) ==
    IF S.err # "" THEN S
    ELSE IF Owns(S, o, w) THEN Fail(S, "leak: owning pointer overwritten without free")
    ELSE Emit([S EXCEPT !.heap = @ \cup {<<o, w>>}], Ev("M", o, w, 0))
Free(S, o, w) ==
    IF S.err # "" THEN S
    ELSE IF ~Owns(S, o, w) THEN Fail(S, "double free")
    ELSE Emit([S EXCEPT !.heap = @ \ {<<o, w>>}], Ev("F", o, w, 0))
FreeIf(S, o, w) == IF Owns(S, o, w) THEN Free(S, o, w) ELSE S        \* free (NULL) does nothing
Touch(S, i) == IF Owns(S, i, "struct") THEN S ELSE Fail(S, "use after free")

RefS(S0, i) ==
    LET S == Touch(S0, i) IN
    IF S.err # "" THEN S
    ELSE Emit([S EXCEPT !.refs[i] = @ + 1], Ev("R", i, S.refs[i] + 1, 0))

(* pixman_image_unref / _pixman_image_fini *)
RECURSIVE UnrefS(_, _)
UnrefS(S0, i) ==
    LET S == Touch(S0, i) IN
    IF S.err # "" THEN S ELSE
    LET rc == S.refs[i] - 1
        S1 == [S EXCEPT !.refs[i] = rc]
    IN
    IF rc > 0 THEN Emit(S1, Ev("U", i, rc, 0))
    ELSE
      LET d  == S1.dfn[i]
          Cb(T) == IF d # 0 /\ T.err = "" THEN Emit(T, Ev("D", i, d, 0)) ELSE T
          A1 == IF "cb_after_frees" \in Bugs THEN S1 ELSE Cb(S1)
          A2 == FreeIf(FreeIf(FreeIf(A1, i, "clip"), i, "transform"), i, "filter")
          m  == A2.amap[i]
          A3 == IF m # None /\ A2.err = "" /\ "fini_keeps_map" \notin Bugs
                THEN UnrefS([A2 EXCEPT !.stale[m] = TRUE], m)      \* alpha_count is not decremented
                ELSE A2
          A4 == FreeIf(A3, i, "stops")
          A5 == IF "no_free_bits" \in Bugs THEN A4 ELSE FreeIf(A4, i, "bits")
          A6 == IF "cb_after_frees" \in Bugs THEN Cb(A5) ELSE A5
          A7 == IF "cb_twice" \in Bugs THEN Cb(A6) ELSE A6
          A8 == Free(Emit(A7, Ev("U", i, 0, 1)), i, "struct")
      IN [A8 EXCEPT !.kind[i] = "free", !.amap[i] = None, !.dfn[i] = 0, !.stale[i] = FALSE,
                    !.died = Append(@, <<i, d>>)]

(* pixman_image_set_alpha_map.  The code documents two refusals: "If this image is being    *)
(* used as an alpha map itself, then you can't give it an alpha map of its own" and "If the *)
(* image has an alpha map of its own, then it can't be used as an alpha map itself".  An    *)
(* image attached to itself is both at once, so it is a chain and must be refused as well   *)
(* (the code as written does not: Bugs = {"selfattach"} is the code, and TLC rejects it).   *)
MustRefuse(S, i, j) ==
    /\ j # None
    /\ \/ j = i /\ "selfattach" \notin Bugs
       \/ Holders(S, i) # {}
       \/ S.amap[j] # None
MayRefuse(S, i, j) == j # None /\ S.stale[i]      \* over-refusal of the code, not forbidden by the statement

Attach(S0, i, j) ==
    LET S == IF j # None THEN Touch(Touch(S0, i), j) ELSE Touch(S0, i)
        o == S.amap[i]
    IN
    IF S.err # "" \/ o = j THEN S
    ELSE LET S1 == IF o # None /\ "leak_old_map" \notin Bugs THEN UnrefS(S, o) ELSE S
             S2 == IF j # None /\ "no_ref_new" \notin Bugs THEN RefS(S1, j) ELSE S1
         IN IF S2.err # "" THEN S2 ELSE [S2 EXCEPT !.amap[i] = j]

SetAlphaSucc(S, i, j) ==
    IF MustRefuse(S, i, j) THEN {Touch(S, i)}
    ELSE IF MayRefuse(S, i, j) THEN {[Touch(S, i) EXCEPT !.dev = "alpha_count_stale"], Attach(S, i, j)}
    ELSE {Attach(S, i, j)}

CreateS(S, i, k) ==
    LET S1 == Alloc(S, i, "struct")
        S2 == IF k = "bits" THEN Alloc(S1, i, "bits") ELSE IF IsGrad(k) THEN Alloc(S1, i, "stops") ELSE S1
    IN [S2 EXCEPT !.kind[i] = k, !.refs[i] = 1, !.held[i] = 1]

(* setters that replace buffers the image owns *)
SetTransformS(S0, i, on) ==       \* on: a matrix other than the identity; off: NULL or the identity
    LET S == Touch(S0, i) IN
    IF on THEN (IF Owns(S, i, "transform") THEN S ELSE Alloc(S, i, "transform"))
    ELSE IF "transform_leak" \in Bugs /\ Owns(S, i, "transform")              \* pointer dropped, buffer not freed
         THEN [S EXCEPT !.heap = (@ \ {<<i, "transform">>}) \cup {<<i, "lost">>}]
    ELSE FreeIf(S, i, "transform")
SetFilterS(S0, i, p) ==           \* p: parameters given (copied); otherwise NULL
    LET S  == Touch(S0, i)
        S1 == IF "filter_leak" \in Bugs THEN S ELSE FreeIf(S, i, "filter")
    IN IF p THEN Alloc(S1, i, "filter") ELSE S1
SetClipS(S0, i, c) ==             \* 0: NULL (the copy is kept), 1: a region without rectangle list, 2: with list
    LET S == Touch(S0, i) IN
    IF c = 0 THEN S
    ELSE IF c = 1 THEN FreeIf(S, i, "clip")
    ELSE IF Owns(S, i, "clip") THEN S ELSE Alloc(S, i, "clip")

GInsertS(S0, k, i) ==             \* the cache stores a copy; the argument image is only read
    LET S  == IF S0.amap[i] # None THEN Touch(Touch(S0, i), S0.amap[i]) ELSE Touch(S0, i)
        S1 == Alloc(Alloc(Alloc(S, GOwner(k), "glyph"), GOwner(k), "struct"), GOwner(k), "bits")
    IN [S1 EXCEPT !.glyphs = @ \cup {k}]
GDrop(S, k) ==                    \* free_glyph: the copy is unreferenced (and released), then the entry
    LET S1 == IF "glyph_leak" \in Bugs THEN S       \* free_glyph forgets pixman_image_unref
              ELSE Free(Emit(Free(S, GOwner(k), "bits"), Ev("U", 0, 0, 1)), GOwner(k), "struct")
    IN [Free(S1, GOwner(k), "glyph") EXCEPT !.glyphs = @ \ {k}]
GRemoveS(S, k) == IF k \notin S.glyphs THEN S ELSE GDrop(S, k)
RECURSIVE GDropAll(_, _)
GDropAll(S, ks) == IF ks = {} THEN S
                   ELSE LET k == CHOOSE x \in ks : \A y \in ks : x <= y IN GDropAll(GDrop(S, k), ks \ {k})
COwner == 99
GCreateS(S) == [Alloc(S, COwner, "cache") EXCEPT !.cache = TRUE]       \* create + freeze
(* thaw (+ freeze again): when the table is fuller than its high-water mark the least recently used glyphs *)
(* are evicted.  Which ones is property C17's business; here any subset may go, each completely.          *)
GThawSucc(S) == {GDropAll(S, E) : E \in SUBSET S.glyphs}
(* The thresholds an outermost thaw compares the table with (g live glyphs, t tombstones, high- and low-water   *)
(* mark H, L): the situations in which it releases nothing, evicts down to L, dumps / rebuilds a table in which *)
(* tombstones dominate -- with few or with many live glyphs.  Whatever it does in each of them, every copy it    *)
(* lets go is released exactly once and completely (GThawSucc); the generator (LifeGen, pressure mode) walks    *)
(* all of them and the trace specification reports which one every recorded thaw was in.                        *)
GPressureClasses == {"below", "evict", "settled", "dump", "dump_over"}
GPressure(g, t, H, L) ==
    IF g + t <= H THEN "below"
    ELSE IF t > H THEN (IF g > L THEN "dump_over" ELSE "dump")
    ELSE IF g > L THEN "evict" ELSE "settled"
GDestroyS(S) ==                   \* thaw + destroy: every copy and the cache itself are released
    LET S1 == GDropAll(S, IF "cache_destroy_leaks_glyphs" \in Bugs THEN {} ELSE S.glyphs) IN
    [Free(S1, COwner, "cache") EXCEPT !.cache = FALSE, !.glyphs = {}]
(* an insert whose private copy cannot be made (an image too wide to allocate): the entry allocated for it *)
(* is released again, NULL is returned and the cache is as before                                         *)
GBadInsertS(S, k) ==
    IF "bad_insert_keeps_entry" \in Bugs THEN Alloc(S, GOwner(k), "glyph")
    ELSE Free(Alloc(S, GOwner(k), "glyph"), GOwner(k), "glyph")
UseS(S, i) == IF S.amap[i] # None THEN Touch(Touch(S, i), S.amap[i]) ELSE Touch(S, i)

(* An API call is [op, i, j, v]:  i the image (or 0), j a second image / glyph key (or 0), v a small integer *)
Call(op, i, j, v) == [op |-> op, i |-> i, j |-> j, v |-> v]

LifeStep(S0, c) ==
    LET S == Begin(S0)  i == c.i IN
    CASE c.op = "create"    -> {CreateS(S, i, KindName[c.v])}
      [] c.op = "ref"       -> {[RefS(S, i) EXCEPT !.held[i] = @ + 1]}
      [] c.op = "unref"     -> LET T == UnrefS(S, i) IN {[T EXCEPT !.held[i] = @ - 1, !.ret = (T.kind[i] = "free")]}
      [] c.op = "alpha"     -> SetAlphaSucc(S, i, c.j)
      [] c.op = "transform" -> {SetTransformS(S, i, c.v = 1)}
      [] c.op = "filter"    -> {SetFilterS(S, i, c.v = 1)}
      [] c.op = "clip"      -> {SetClipS(S, i, c.v)}
      [] c.op = "destroyfn" -> {[Touch(S, i) EXCEPT !.dfn[i] = c.v]}
      [] c.op = "use"       -> {UseS(S, i)}
      [] c.op = "ginsert"   -> {GInsertS(S, c.j, i)}
      [] c.op = "gremove"   -> {GRemoveS(S, c.j)}
      [] c.op = "gcreate"   -> {GCreateS(S)}
      [] c.op = "gdestroy"  -> {GDestroyS(S)}
      [] c.op = "gthaw"     -> GThawSucc(S)
      [] c.op = "gbad"      -> {GBadInsertS(S, c.j)}
      [] c.op = "glookup"   -> {[S EXCEPT !.ret = (c.j \in S.glyphs)]}
      [] c.op = "gcomp"     -> {S}          \* composite_glyphs (v = 0) / _no_mask (v = 1) with every present glyph

(* the calls a client may make in state S (it never passes a pointer to a released image and only *)
(* drops references it owns)                                                                      *)
LifeCalls(S) ==
    LET A == {i \in Img : Alive(S, i)} IN
         {Call("create", i, 0, v) : i \in {x \in Img : ~Alive(S, x)}, v \in DOMAIN KindName}
    \cup {Call("ref", i, 0, 0) : i \in {x \in A : S.held[x] < MaxHeld}}
    \cup {Call("unref", i, 0, 0) : i \in {x \in A : S.held[x] > 0}}
    \cup {Call("alpha", i, j, 0) : i \in A, j \in {None} \cup {x \in A : IsBits(S.kind[x])}}
    \cup {Call("transform", i, 0, v) : i \in A, v \in 0..1}
    \cup {Call("filter", i, 0, v) : i \in A, v \in 0..1}
    \cup {Call("clip", i, 0, v) : i \in A, v \in 0..2}
    \cup {Call("destroyfn", i, 0, v) : i \in A, v \in 0..2}
    \cup {Call("use", i, 0, 0) : i \in A}
    \cup (IF ~S.cache THEN {Call("gcreate", 0, 0, v) : v \in 0..1}      \* v: how the driver picks concrete keys
          ELSE      {Call("ginsert", i, k, 0) : i \in {x \in A : IsBits(S.kind[x])}, k \in GKeys \ S.glyphs}
               \cup {Call("gbad", 0, k, 0) : k \in GKeys \ S.glyphs}
               \cup {Call("gremove", 0, k, 0) : k \in GKeys}
               \cup {Call("glookup", 0, k, 0) : k \in GKeys}
               \cup {Call("gcomp", 0, 0, v) : v \in 0..1}
               \cup {Call("gthaw", 0, 0, 0), Call("gdestroy", 0, 0, 0)})

(* the call whose outcome the statement leaves open (see MayRefuse) *)
Ambiguous(S, c) == c.op = "alpha" /\ ~MustRefuse(S, c.i, c.j) /\ MayRefuse(S, c.i, c.j)

Quiescent(S) == (\A i \in Img : S.held[i] = 0) /\ ~S.cache

(* ---- what C20 states, as state predicates ---- *)
RefsAccounted(S) ==     \* every reference has an owner: the client or an image the map is attached to
    \A i \in Img : S.refs[i] = S.held[i] + Cardinality(Holders(S, i))
AliveIffRefs(S)   == \A i \in Img : Alive(S, i) <=> S.refs[i] > 0
AliveIffStruct(S) == \A i \in Img : /\ Alive(S, i) <=> Owns(S, i, "struct")
                                    /\ ~Alive(S, i) => OwnedBy(S, i) = {}
AttachedAlive(S)  == \A h \in Img : Alive(S, h) /\ S.amap[h] # None =>
                                       Alive(S, S.amap[h]) /\ IsBits(S.kind[S.amap[h]])
NoChains(S)       == \A h \in Img : Alive(S, h) /\ S.amap[h] # None => S.amap[S.amap[h]] = None
NoMemoryError(S)  == S.err = ""
OwnedShape(S)     == /\ \A i \in Img : Alive(S, i) =>
                           /\ Owns(S, i, "bits") <=> S.kind[i] = "bits"
                           /\ Owns(S, i, "stops") <=> IsGrad(S.kind[i])
                     /\ \A k \in GKeys : (k \in S.glyphs) <=> OwnedBy(S, GOwner(k)) # {}
                     /\ S.cache <=> Owns(S, COwner, "cache")
                     /\ S.glyphs # {} => S.cache
NothingLeftBehind(S) == Quiescent(S) => S.heap = {} /\ \A i \in Img : ~Alive(S, i)

(* the output of one call *)
EvPos(S, P(_)) == {n \in DOMAIN S.ev : P(S.ev[n])}
DiedSet(S) == {S.died[n][1] : n \in DOMAIN S.died}
CallbackOnce(S) ==      \* one callback per released image that has a destroy function, none otherwise
    /\ \A n \in DOMAIN S.died :
          Cardinality(EvPos(S, LAMBDA e : e.k = "D" /\ e.a = S.died[n][1])) = IF S.died[n][2] # 0 THEN 1 ELSE 0
    /\ \A n \in EvPos(S, LAMBDA e : e.k = "D") : S.ev[n].a \in DiedSet(S)
    /\ \A n, m \in DOMAIN S.died : S.died[n][1] = S.died[m][1] => n = m
CallbackBeforeFrees(S) ==
    \A n \in EvPos(S, LAMBDA e : e.k = "D") :
       \A m \in EvPos(S, LAMBDA e : e.k = "F") : S.ev[m].a = S.ev[n].a => n < m
ReleasedCompletely(S) == \A i \in DiedSet(S) : OwnedBy(S, i) = {}
UnrefReturn(S, c) ==    \* c: the call that led to S
    IF c.op = "glookup" THEN TRUE ELSE S.ret <=> (c.op = "unref" /\ c.i \in DiedSet(S))
FreesOnlyOf(S, c) ==    \* a call frees only what the image it is applied to, or an image it releases, owns
    \A m \in EvPos(S, LAMBDA e : e.k = "F") :
       S.ev[m].a \in DiedSet(S) \cup (IF c.op \in {"transform", "filter", "clip"} THEN {c.i} ELSE {})
                              \cup (IF c.op \in {"gremove", "gbad"} THEN {GOwner(c.j)} ELSE {})
                              \cup (IF c.op \in {"gthaw", "gdestroy"} THEN {GOwner(k) : k \in GKeys} \cup {COwner} ELSE {})

LifeStateOK(S) ==
    /\ NoMemoryError(S) /\ RefsAccounted(S) /\ AliveIffRefs(S) /\ AliveIffStruct(S)
    /\ AttachedAlive(S) /\ NoChains(S) /\ OwnedShape(S) /\ NothingLeftBehind(S)
LifeOutputOK(S, c) ==
    /\ CallbackOnce(S) /\ CallbackBeforeFrees(S) /\ ReleasedCompletely(S)
    /\ UnrefReturn(S, c) /\ FreesOnlyOf(S, c)


(* ====================================================================================== *)
(* Part 2: properties, the dirty flag and derived state (C14)                             *)
(* ====================================================================================== *)
(* State record P of one long-lived image:                                                *)
(*   type     "bits", "indexed" (a bits image with a palette format), "gradient", "solid" *)
(*   want     what the client has asked for: the value last passed to every setter.  A    *)
(*            freshly created image given want is the reference C14 compares with.        *)
(*   stored   what the image holds (common.transform, common.filter, ... bits.dither)     *)
(*   dirty    common.dirty                                                                *)
(*   cached   what _pixman_image_validate derived from stored the last time it ran        *)
(*   mdirty, mcached   the same two for alpha-map image A (only its accessors are varied)  *)
(* Abstract values (the drivers map them to concrete arguments).  Where a setter's early-return  *)
(* guard compares a compound value (a matrix, a parameter array, a pair of offsets), the value    *)
(* set contains a base value and values that differ from it in ONE field only, for every field:   *)
(* a guard that compares fewer fields than there are keeps a stale value for one of them.         *)
(* ... and "coinciding" values, in which a field takes the value ANOTHER field has in the base     *)
(* value, or two fields are exchanged: a guard that compares the wrong pair of fields is exposed    *)
(* only by those.  Fields(n, v) gives the fields symbolically, in memory order.                     *)
(*   t   transform  0 NULL, 1 identity matrix passed by value, 2 a base matrix M = <<1..9>>,          *)
(*                  2 + k (k = 1..9) M with only its k-th entry (row-major) changed,                  *)
(*                  12 / 13 / 14 M with m00<->m11 / tx<->ty / m01<->m10 exchanged,                    *)
(*                  15 m11 := m00, 16 ty := tx, 17 m00 := m11, 18 tx := ty,                           *)
(*                  19 an integer translation, 20 a rotation by 180, 21 by 90 degrees (matrices of    *)
(*                  other classes: the flags validate derives depend on the class)                    *)
(*   f   filter     0 nearest, 1 bilinear,                                                        *)
(*                  2 convolution kernel K (3x3), 3 K passed from another buffer, 4 / 5 / 6 K     *)
(*                  with only its first / a middle / its last coefficient changed, 7 a 3x1 kernel,*)
(*                  8 separable convolution S, 9 / 10 / 11 S with only its first / a middle / its *)
(*                  last tap changed (same header, same size), 12 K with last := first, 13 K with *)
(*                  first <-> middle, 14 the 3x1 kernel as 1x3 (width <-> height), 15 S with      *)
(*                  first <-> last tap, 16 GOOD (bilinear class), 17 FAST (nearest class)         *)
(*   r   repeat     0 none, 1 normal, 2 pad, 3 reflect                                            *)
(*   c   clip       0 NULL, 1 one rectangle, 2 two rectangles, 3 / 4 the same two with only the   *)
(*                  last / the first rectangle changed, 5 the two with x2 <-> y2 of the first,    *)
(*                  6 the one rectangle with x1 <-> y1, 7 the EMPTY region;  8 + k: the region k  *)
(*                  passed through pixman_image_set_clip_region (region16) instead of             *)
(*                  pixman_image_set_clip_region32 -- two ways of asking for the same clip        *)
(*   sc  source clipping, cc has_client_clip, ca component alpha, acc accessors: 0 / 1            *)
(*   am  alpha map  0 none, 1 image A (a8), 2 B (a8r8g8b8 / a4), 3 C (a wide format: the owner's  *)
(*                  NARROW_FORMAT flag depends on it), 4 D (a8 like A, other pixels);              *)
(*                  ao its origin (x, y) = (v % 3, v / 3), both                                   *)
(*                  coordinates over the same three values, so that new y = old x etc. occur      *)
(*   pal palette    0 none, 1, 2, 3 = the contents of 1 at another address (indexed formats)      *)
(*   d   dither     0 none, 1, 2;  dof dither offset (x, y) = (v % 3, v / 3), as for ao           *)
(*   ma  accessors of alpha-map image A: 0 / 1 (a property of the attached image that the         *)
(*       holder's validate must pick up)                                                          *)
(* CALLER-OWNED STORAGE the image refers to but does not copy.  These are not setters: the client *)
(* writes into its own memory, the library is not told.  The contents are part of what the image  *)
(* currently is ("current properties and pixels"), so a fresh replica referring to the same      *)
(* contents is the reference; nothing the library derived earlier may depend on the old contents. *)
(*   pe  contents of the client's palettes (pixman_image_set_indexed stores the pointer only):    *)
(*       0 every entry opaque, 1 one USED entry translucent, 2 that entry another opaque colour,  *)
(*       3 every entry translucent                                                                *)
(*   px  contents of the client's pixel buffer: 0 the initial (arbitrary) pixels, 1 the same with *)
(*       every alpha opaque, 2 as 1 with the first pixels translucent, 3 all zero (transparent),  *)
(*       4 all opaque, other colours (the colour change of a 1x1 repeating image)                 *)
(* (Matrices, filter parameters and gradient stops ARE copied by their setters; the drivers       *)
(* overwrite the arrays they passed right after the call returned, which must have no effect.)    *)
PropNames == {"t", "f", "r", "c", "sc", "cc", "am", "ao", "ca", "acc", "pal", "d", "dof", "ma", "pe", "px"}
MemNames == {"pe", "px"}            \* client memory edited in place: no library call is involved
PropRange(n) ==
    CASE n = "t" -> 0..21 [] n = "f" -> 0..17 [] n = "r" -> 0..3 [] n = "c" -> 0..15
      [] n = "am" -> 0..4 [] n = "ao" -> 0..8 [] n = "pal" -> 1..3 [] n = "d" -> 0..2 [] n = "dof" -> 0..8
      [] n = "pe" -> 0..3 [] n = "px" -> 0..4
      [] OTHER -> 0..1
Defaults == [t |-> 0, f |-> 0, r |-> 0, c |-> 0, sc |-> 0, cc |-> 0, am |-> 0, ao |-> 0, ca |-> 0, acc |-> 0,
             pal |-> 0, d |-> 0, dof |-> 0, ma |-> 0, pe |-> 0, px |-> 0]

(* the fields of a compound value, in the order in which they lie in memory *)
FilterFields(v) ==      \* kind, width, height, first / a middle / last coefficient (symbols)
    CASE v = 0 -> <<"nearest">> [] v = 1 -> <<"bilinear">>
      [] v \in {2, 3} -> <<"conv", 3, 3, 1, 2, 3>> [] v = 4 -> <<"conv", 3, 3, 9, 2, 3>>
      [] v = 5 -> <<"conv", 3, 3, 1, 9, 3>> [] v = 6 -> <<"conv", 3, 3, 1, 2, 9>>
      [] v = 7 -> <<"conv", 3, 1, 1, 2, 3>>
      [] v = 8 -> <<"sep", 2, 1, 1, 2, 3>> [] v = 9 -> <<"sep", 2, 1, 9, 2, 3>>
      [] v = 10 -> <<"sep", 2, 1, 1, 9, 3>> [] v = 11 -> <<"sep", 2, 1, 1, 2, 9>>
      [] v = 12 -> <<"conv", 3, 3, 1, 2, 1>> [] v = 13 -> <<"conv", 3, 3, 2, 1, 3>>
      [] v = 14 -> <<"conv", 1, 3, 1, 2, 3>> [] v = 15 -> <<"sep", 2, 1, 3, 2, 1>>
      [] v = 16 -> <<"good">> [] v = 17 -> <<"fast">>
ClipFields(v) ==
    CASE v = 0 -> <<>> [] v = 1 -> <<"r">> [] v = 2 -> <<"a", "b">> [] v = 3 -> <<"a", "b2">> [] v = 4 -> <<"a2", "b">>
      [] v = 5 -> <<"a swapped", "b">> [] v = 6 -> <<"r swapped">> [] v = 7 -> <<"empty">>
Exchange(q, i, j) == [q EXCEPT ![i] = q[j], ![j] = q[i]]
MatrixFields(v) ==
    LET M == <<1, 2, 3, 4, 5, 6, 7, 8, 9>> IN
    CASE v <= 1 -> <<"none">> [] v = 2 -> M
      [] v \in 3..11 -> [M EXCEPT ![v - 2] = 10]
      [] v = 12 -> Exchange(M, 1, 5) [] v = 13 -> Exchange(M, 3, 6) [] v = 14 -> Exchange(M, 2, 4)
      [] v = 15 -> [M EXCEPT ![5] = 1] [] v = 16 -> [M EXCEPT ![6] = 3]
      [] v = 17 -> [M EXCEPT ![1] = 5] [] v = 18 -> [M EXCEPT ![3] = 6]
      [] v = 19 -> <<"translation">> [] v = 20 -> <<"rotate180">> [] v = 21 -> <<"rotate90">>
Fields(n, v) ==
    CASE n = "t" -> MatrixFields(v)
      [] n = "f" -> FilterFields(v)
      [] n = "c" -> ClipFields(v % 8)
      [] n \in {"ao", "dof"} -> <<v % 3, v \div 3>>
      [] OTHER -> <<v>>

(* the value a property has once v was set: an identity matrix is no transform; kernel K is kernel K  *)
(* whatever buffer it was passed in.  (ASSUME: Norm identifies exactly the values with equal fields.) *)
Norm(n, v) == IF n = "t" /\ v = 1 THEN 0 ELSE IF n = "f" /\ v = 3 THEN 2 ELSE IF n = "c" THEN v % 8 ELSE v
ASSUME \A n \in PropNames : \A u, v \in PropRange(n) \cup {0} :
          (Fields(n, u) = Fields(n, v)) <=> (Norm(n, u) = Norm(n, v))
NormAll(w) == [n \in DOMAIN w |-> Norm(n, w[n])]
(* two palettes with the same contents render alike although the image stores a different pointer *)
Canon(n, v) == IF n = "pal" /\ v = 3 THEN 1 ELSE Norm(n, v)
CanonAll(w) == [n \in DOMAIN w |-> Canon(n, w[n])]

FilterKind(f) == Fields("f", f)[1]
(* what validate computes: compute_image_info (flags, extended format code) depends on the      *)
(* transform, the filter kind, repeat, component alpha, accessors, presence and format class of  *)
(* the alpha map;                                                                               *)
(* property_changed sets up the accessor functions (bits) or the sentinel stops (gradients,     *)
(* from repeat); validate recurses into the alpha map.                                          *)
(* Nothing validate derives may be computed from memory the image does not own (the client can   *)
(* change it without a call).  The two wrong designs: "an indexed image whose palette is opaque   *)
(* has opaque samples" / "an image whose pixels are all opaque is opaque", remembered in flags.   *)
PalOpaque(pe) == pe \in {0, 2}
PixOpaque(px) == px \in {1, 4}
MemDerived(type, st) ==
    IF "derive_reads_palette" \in Bugs /\ type = "indexed" THEN (IF PalOpaque(st.pe) THEN 1 ELSE 0)
    ELSE IF "derive_reads_pixels" \in Bugs /\ type \in {"bits", "indexed"} THEN (IF PixOpaque(st.px) THEN 1 ELSE 0)
    ELSE 0
MapClass(am) == IF am = 0 THEN 0 ELSE IF am = 3 THEN 2 ELSE 1     \* none / narrow format / wide format
Derive(type, st) ==
    [t |-> st.t, fk |-> FilterKind(st.f), r |-> st.r, ca |-> st.ca,
     acc |-> IF type \in {"bits", "indexed"} THEN st.acc ELSE 0,
     am |-> MapClass(st.am),
     mem |-> MemDerived(type, st),
     sentinel |-> IF type = "gradient" THEN st.r ELSE 0]

PropInit(type) ==
    LET w == IF type = "indexed" THEN [Defaults EXCEPT !.pal = 1] ELSE Defaults IN
    [type |-> type, want |-> w, stored |-> w, dirty |-> TRUE, cached |-> Derive(type, Defaults),
     mdirty |-> TRUE, mcached |-> 0]        \* image A's own dirty flag and accessor set-up

(* the early-return guards of the setters, as in pixman-image.c *)
Prefix(q, k) == SubSeq(q, 1, IF k < Len(q) THEN k ELSE Len(q))
EarlyReturn(P, n, v) ==
    LET cur == P.stored[n] IN
    CASE n = "t" ->   \* pointer equality (both NULL), or memcmp of the whole matrix with the stored copy
              \/ v = 0 /\ cur = 0
              \/ /\ Norm(n, v) # 0 /\ cur # 0
                 /\ IF "guard_transform_class" \in Bugs THEN TRUE
                    ELSE IF "guard_transform_prefix" \in Bugs THEN Prefix(Fields(n, v), 6) = Prefix(Fields(n, cur), 6)
                    ELSE IF "guard_transform_wrong_pair" \in Bugs      \* new m11 compared with the stored m00
                    THEN \A k \in 1..9 : Fields(n, v)[k] = Fields(n, cur)[IF k = 5 THEN 1 ELSE k]
                    ELSE Fields(n, v) = Fields(n, cur)
      [] n = "f" ->   \* params == common->filter_params && filter == common->filter: only NULL params can be equal
              IF "guard_filter_kind" \in Bugs THEN FilterKind(v) = FilterKind(cur)
              ELSE IF "guard_filter_prefix" \in Bugs      \* "already in effect", comparing kind, size, first coefficient
              THEN Prefix(Fields(n, v), 4) = Prefix(Fields(n, cur), 4)
              ELSE v \in {0, 1} /\ cur = v
      [] n = "dof" -> IF "guard_dof_x_only" \in Bugs THEN Fields(n, v)[1] = Fields(n, cur)[1] ELSE cur = v
      [] n = "ao" ->    \* no early return in pixman-image.c; the wrong design: "same map, same x, and y unchanged"
                      \* written with the stored x where the stored y belongs
              /\ "guard_ao_wrong_pair" \in Bugs
              /\ Fields(n, v)[1] = Fields(n, cur)[1] /\ Fields(n, v)[2] = Fields(n, cur)[1]
      [] n = "pal" -> cur = v                 \* the pointer is compared (and stored), not the contents
      [] n \in {"r", "sc", "ca", "d"} -> cur = v
      [] n = "ma" -> FALSE
      [] OTHER -> FALSE          \* clip, has_client_clip, alpha map and its origin, accessors: never return early

MarksDirty(P, n) ==
    /\ n # "cc"                          \* set_has_client_clip: nothing derived depends on it
    /\ n \notin MemNames                 \* the client wrote into its own memory: the image cannot know
    /\ ("nodirty_" \o n) \notin Bugs

Applicable(type, n) ==
    CASE n \in {"acc", "d", "dof"} -> type \in {"bits", "indexed"}    \* no-ops on other types: not generated
      [] n \in {"pal", "pe"} -> type = "indexed"
      [] n = "px" -> type \in {"bits", "indexed"}
      [] OTHER -> TRUE

(* a setter call: [op |-> "set", i |-> 0, j |-> name, v |-> value] (Call("set", 0, name, v)) *)
SetProp(P, n, v) ==
    LET w == [P.want EXCEPT ![n] = v] IN
    IF EarlyReturn(P, n, v) THEN [P EXCEPT !.want = w]
    ELSE IF "clip16_empty_keeps_old" \in Bugs /\ n = "c" /\ v = 15       \* the region16 path skips an empty source
    THEN [P EXCEPT !.want = w, !.dirty = TRUE]
    ELSE IF n = "ma"                     \* pixman_image_set_accessors (A, ...): marks A dirty, not the holder
    THEN [P EXCEPT !.want = w, !.stored[n] = v, !.mdirty = IF "nodirty_ma" \in Bugs THEN @ ELSE TRUE]
    ELSE [P EXCEPT !.want = w,
                   !.stored[n] = Norm(n, v),
                   !.dirty = IF MarksDirty(P, n) /\ ~("dirty_am_presence_only" \in Bugs /\ n = "am"
                                                        /\ (P.stored.am = 0) = (v = 0))
                             THEN TRUE ELSE @]

(* _pixman_image_validate: the image recomputes iff dirty; then the attached alpha map is validated *)
(* in the same way, whether or not the holder was dirty                                            *)
ValidateP(P) ==
    LET D  == Derive(P.type, P.stored)
        P1 == IF P.dirty
              THEN [P EXCEPT !.dirty = FALSE,
                             !.cached = IF "gradient_no_refresh" \in Bugs THEN [D EXCEPT !.sentinel = P.cached.sentinel] ELSE D]
              ELSE P
    IN IF P1.stored.am = 1 /\ P1.mdirty /\ "map_not_validated" \notin Bugs
       THEN [P1 EXCEPT !.mdirty = FALSE, !.mcached = P1.stored.ma]
       ELSE P1

PropStep(P, c) ==
    CASE c.op = "set" -> {SetProp(P, c.j, c.v)}
      [] c.op = "render" -> {ValidateP(P)}

SetCalls(type) ==
    UNION {{Call("set", 0, n, v) : v \in PropRange(n)} : n \in {x \in PropNames : Applicable(type, x)}}
PropCalls(P) == SetCalls(P.type) \cup {Call("render", 0, "", 0)}

(* ---- what C14 states ---- *)
Faithful(P)  == P.stored = NormAll(P.want)                    \* no setter drops or mangles a value
Refreshed(P) == /\ ~P.dirty => P.cached = Derive(P.type, P.stored)    \* no stale derived state
                /\ ~P.mdirty => P.mcached = P.stored.ma
(* what a rendering depends on: the stored properties and the derived state after validation *)
RenderState(P) == LET V == ValidateP(P) IN <<V.stored, V.cached, IF V.stored.am = 1 THEN V.mcached ELSE 0>>
FreshRenderState(type, w) == LET n == NormAll(w) IN <<n, Derive(type, n), IF n.am = 1 THEN n.ma ELSE 0>>
HistoryIndependent(P) == RenderState(P) = FreshRenderState(P.type, P.want)

=============================================================================
