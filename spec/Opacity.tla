------------------------------- MODULE Opacity -------------------------------
(***************************************************************************)
(* Opacity-based simplifications (property C09).                           *)
(*                                                                         *)
(* pixman replaces the requested operator by a cheaper one when it knows   *)
(* that the source (with its mask) and/or the destination are opaque, and  *)
(* it promotes images to "opaque" from their format, repeat mode and the   *)
(* part of them a request can sample.  The property: neither may change    *)
(* the picture.  This module states                                        *)
(*   - the exact Porter-Duff rule on 8-bit channels (the same rule as      *)
(*     property C01's exact class), from which the set of VALID operator   *)
(*     reductions per opacity cell is *derived* (Equivalent), so that the  *)
(*     trace check does not depend on pixman's particular table;           *)
(*   - pixman's table as it stands (CodeTable), checked by TLC to be a     *)
(*     subset of the valid reductions (mc/OpacityMC);                      *)
(*   - when an image may be called opaque (TrulyOpaque).                   *)
(***************************************************************************)
EXTENDS Integers, Sequences, FiniteSets, TLC

MulUn8(a, b) == LET t == a * b + 128 IN (t + (t \div 256)) \div 256
Sat(v) == IF v > 255 THEN 255 ELSE v

(* operator numbers as in pixman.h *)
Op_CLEAR == 0  Op_SRC == 1  Op_DST == 2  Op_OVER == 3  Op_OVER_REVERSE == 4  Op_IN == 5  Op_IN_REVERSE == 6
Op_OUT == 7  Op_OUT_REVERSE == 8  Op_ATOP == 9  Op_ATOP_REVERSE == 10  Op_XOR == 11  Op_ADD == 12  Op_SATURATE == 13
ExactOps == 0..12

(* Porter-Duff factors in units of 1/255 from source alpha sa and destination alpha da *)
Fa(op, sa, da) ==
    CASE op = Op_CLEAR -> 0   [] op = Op_SRC -> 255 [] op = Op_DST -> 0 [] op = Op_OVER -> 255
      [] op = Op_OVER_REVERSE -> 255 - da [] op = Op_IN -> da [] op = Op_IN_REVERSE -> 0 [] op = Op_OUT -> 255 - da
      [] op = Op_OUT_REVERSE -> 0 [] op = Op_ATOP -> da [] op = Op_ATOP_REVERSE -> 255 - da [] op = Op_XOR -> 255 - da
      [] op = Op_ADD -> 255
Fb(op, sa, da) ==
    CASE op = Op_CLEAR -> 0   [] op = Op_SRC -> 0 [] op = Op_DST -> 255 [] op = Op_OVER -> 255 - sa
      [] op = Op_OVER_REVERSE -> 255 [] op = Op_IN -> 0 [] op = Op_IN_REVERSE -> sa [] op = Op_OUT -> 0
      [] op = Op_OUT_REVERSE -> 255 - sa [] op = Op_ATOP -> 255 - sa [] op = Op_ATOP_REVERSE -> sa [] op = Op_XOR -> 255 - sa
      [] op = Op_ADD -> 255

(* one channel: s, d channel values; sa the source alpha that applies to this channel; da destination alpha *)
PD(op, s, sa, d, da) == Sat(MulUn8(s, Fa(op, sa, da)) + MulUn8(d, Fb(op, sa, da)))

(* opacity cells: <<source (and mask) opaque, destination opaque>> *)
Cells == BOOLEAN \X BOOLEAN

(* op2 may replace op1 in a cell iff they agree on every channel for all values consistent with the cell.    *)
(* Vals is the set of channel values quantified over (the model checker uses a boundary-rich set).          *)
(* The colour channels and the alpha channel are covered by one formula: for the alpha channel s = sa, d = da *)
Equivalent(op1, op2, cell, Vals) ==
    \A sa \in (IF cell[1] THEN {255} ELSE Vals), da \in (IF cell[2] THEN {255} ELSE Vals) :
        /\ PD(op1, sa, sa, da, da) = PD(op2, sa, sa, da, da)
        /\ \A s \in Vals, d \in Vals : PD(op1, s, sa, d, da) = PD(op2, s, sa, d, da)

(* pixman's strength-reduction table as it stands: op -> <<neither, src, dst, both>> *)
CodeTable ==
    [op \in 0..13 |->
        CASE op = Op_CLEAR -> <<Op_CLEAR, Op_CLEAR, Op_CLEAR, Op_CLEAR>>
          [] op = Op_SRC -> <<Op_SRC, Op_SRC, Op_SRC, Op_SRC>>
          [] op = Op_DST -> <<Op_DST, Op_DST, Op_DST, Op_DST>>
          [] op = Op_OVER -> <<Op_OVER, Op_SRC, Op_OVER, Op_SRC>>
          [] op = Op_OVER_REVERSE -> <<Op_OVER_REVERSE, Op_OVER_REVERSE, Op_DST, Op_DST>>
          [] op = Op_IN -> <<Op_IN, Op_IN, Op_SRC, Op_SRC>>
          [] op = Op_IN_REVERSE -> <<Op_IN_REVERSE, Op_DST, Op_IN_REVERSE, Op_DST>>
          [] op = Op_OUT -> <<Op_OUT, Op_OUT, Op_CLEAR, Op_CLEAR>>
          [] op = Op_OUT_REVERSE -> <<Op_OUT_REVERSE, Op_CLEAR, Op_OUT_REVERSE, Op_CLEAR>>
          [] op = Op_ATOP -> <<Op_ATOP, Op_IN, Op_OVER, Op_SRC>>
          [] op = Op_ATOP_REVERSE -> <<Op_ATOP_REVERSE, Op_OVER_REVERSE, Op_IN_REVERSE, Op_DST>>
          [] op = Op_XOR -> <<Op_XOR, Op_OUT, Op_OUT_REVERSE, Op_CLEAR>>
          [] op = Op_ADD -> <<Op_ADD, Op_ADD, Op_ADD, Op_ADD>>
          [] op = Op_SATURATE -> <<Op_SATURATE, Op_OVER_REVERSE, Op_DST, Op_DST>>]

CellIndex(cell) == IF cell[1] THEN (IF cell[2] THEN 4 ELSE 2) ELSE (IF cell[2] THEN 3 ELSE 1)

(* Op_SATURATE is evaluated in real arithmetic: Fa = min(1, (1 - da) / sa), Fb = 1.  With sa = 1 the factor is   *)
(* 1 - da (Op_OVER_REVERSE); with da = 1 it is 0 (Op_DST).  In units of 1/255:                                      *)
SaturateFa(sa, da) == IF sa = 0 THEN 255 ELSE LET q == ((255 - da) * 255) \div sa IN IF q > 255 THEN 255 ELSE q
SaturateReductionsOK ==
    /\ \A da \in 0..255 : SaturateFa(255, da) = Fa(Op_OVER_REVERSE, 255, da)
    \* (sa = 0: the premultiplied source is 0 in every channel and the factor is immaterial)
    /\ \A sa \in 1..255 : SaturateFa(sa, 255) = 0

(* The reductions the trace check accepts: every semantically valid one among the exact operators           *)
(* (ValidExact, computed by TLC once per run from Equivalent), the two Op_SATURATE reductions justified above,   *)
(* and the identity.                                                                                         *)
ValidReduction(op1, op2, cell, validExact) ==
    \/ op1 = op2
    \* DISJOINT_/CONJOINT_ CLEAR, SRC, DST have the factor pairs (0,0), (1,0), (0,1) of the plain operators
    \/ op1 \in {16, 32} /\ op2 = Op_CLEAR
    \/ op1 \in {17, 33} /\ op2 = Op_SRC
    \/ op1 \in {18, 34} /\ op2 = Op_DST
    \/ <<op1, op2, cell>> \in validExact
    \/ op1 = Op_SATURATE /\ ((cell[2] /\ op2 = Op_DST) \/ (cell[1] /\ ~cell[2] /\ op2 = Op_OVER_REVERSE)
                          \/ (cell[1] /\ cell[2] /\ op2 \in {Op_DST, Op_OVER_REVERSE}))
=============================================================================
