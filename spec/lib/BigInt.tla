------------------------------- MODULE BigInt -------------------------------
(***************************************************************************)
(* Signed arbitrary-precision integers for TLC (whose integers are 32-bit  *)
(* and whose overflow is an error).  TRUSTED CORE of the numeric checks    *)
(* (C11 and others): model-checked against native arithmetic by            *)
(* mc/BigIntMC.tla, exhaustively on small values with a small limb size    *)
(* (so that multi-limb carries are exercised), and by algebraic identities *)
(* at the production limb size.                                            *)
(*                                                                         *)
(* A natural number is a little-endian sequence of limbs in 0..BigBase-1   *)
(* without a most significant zero limb; zero is <<>>.                     *)
(* An integer is a record [neg |-> BOOLEAN, mag |-> natural]; zero is      *)
(* never negative, hence equal integers are equal TLA+ values.             *)
(*                                                                         *)
(* With BigBase = 2^15 every intermediate stays below 2^31:                *)
(*   limb * limb + limb + carry <= (2^15-1)^2 + 2 (2^15-1) = 2^30 - 1.     *)
(*                                                                         *)
(* There is no general division.  Properties are phrased as postconditions *)
(* that need multiplication and comparison only, e.g. "q is n/d rounded to *)
(* nearest"  <=>  2 |q d - n| <= |d|  (RoundedQuot).  DivFloor exists for  *)
(* the few places where a candidate value has to be produced; it is a      *)
(* binary search over multiplication and its result is characterised by    *)
(* q d <= n < (q+1) d, which BigIntMC checks.                              *)
(***************************************************************************)
EXTENDS Integers, Sequences

LimbBits == 15                    \* overridden (<-) by BigIntMC with 3 to exercise carries on small numbers
BigBase  == 2 ^ LimbBits

-----------------------------------------------------------------------------
(* naturals *)

RECURSIVE NTrim(_)
NTrim(a) == IF a = <<>> THEN a
            ELSE IF a[Len(a)] = 0 THEN NTrim(SubSeq(a, 1, Len(a) - 1)) ELSE a

NLimb(a, i) == IF i <= Len(a) THEN a[i] ELSE 0

RECURSIVE NFromInt(_)
NFromInt(n) == IF n = 0 THEN <<>> ELSE <<n % BigBase>> \o NFromInt(n \div BigBase)      \* n >= 0

RECURSIVE NToIntAt(_, _)
NToIntAt(a, i) == IF i > Len(a) THEN 0 ELSE a[i] + BigBase * NToIntAt(a, i + 1)
NToInt(a) == NToIntAt(a, 1)                                    \* only for values < 2^31

RECURSIVE NAddC(_, _, _, _)
NAddC(a, b, i, c) ==
    IF i > Len(a) /\ i > Len(b) THEN (IF c = 0 THEN <<>> ELSE <<c>>)
    ELSE LET s == NLimb(a, i) + NLimb(b, i) + c IN <<s % BigBase>> \o NAddC(a, b, i + 1, s \div BigBase)
NAdd(a, b) == NAddC(a, b, 1, 0)

RECURSIVE NSubB(_, _, _, _)
NSubB(a, b, i, br) ==
    IF i > Len(a) THEN <<>>
    ELSE LET d == a[i] - NLimb(b, i) - br IN
         IF d < 0 THEN <<d + BigBase>> \o NSubB(a, b, i + 1, 1) ELSE <<d>> \o NSubB(a, b, i + 1, 0)
NSub(a, b) == NTrim(NSubB(a, b, 1, 0))                          \* requires a >= b

RECURSIVE NCmpAt(_, _, _)
NCmpAt(a, b, i) == IF i = 0 THEN 0
                   ELSE IF a[i] < b[i] THEN -1 ELSE IF a[i] > b[i] THEN 1 ELSE NCmpAt(a, b, i - 1)
NCmp(a, b) == IF Len(a) < Len(b) THEN -1 ELSE IF Len(a) > Len(b) THEN 1 ELSE NCmpAt(a, b, Len(a))

RECURSIVE NMulL(_, _, _, _)
NMulL(a, m, i, c) ==                                           \* a * m + c, m a single non-zero limb
    IF i > Len(a) THEN (IF c = 0 THEN <<>> ELSE <<c>>)
    ELSE LET p == a[i] * m + c IN <<p % BigBase>> \o NMulL(a, m, i + 1, p \div BigBase)

NShlLimbs(a, k) == IF a = <<>> THEN a ELSE [i \in 1..k |-> 0] \o a

RECURSIVE NMulAcc(_, _, _)
NMulAcc(a, b, j) ==
    IF j > Len(b) THEN <<>>
    ELSE IF b[j] = 0 THEN NMulAcc(a, b, j + 1)
    ELSE NAdd(NShlLimbs(NMulL(a, b[j], 1, 0), j - 1), NMulAcc(a, b, j + 1))
NMul(a, b) == IF a = <<>> \/ b = <<>> THEN <<>> ELSE NMulAcc(a, b, 1)

NPow2(k) == [i \in 1..(k \div LimbBits) |-> 0] \o <<2 ^ (k % LimbBits)>>          \* k >= 0

NShr(a, k) ==                                                  \* floor (a / 2^k), k >= 0
    LET q == k \div LimbBits
        r == k % LimbBits
        n == Len(a) - q
    IN IF n <= 0 THEN <<>>
       ELSE NTrim([i \in 1..n |-> (a[i + q] \div (2 ^ r)) + (NLimb(a, i + q + 1) % (2 ^ r)) * (2 ^ (LimbBits - r))])

NBits(a) == LimbBits * Len(a)                                  \* an upper bound of the bit length

RECURSIVE NDivSearch(_, _, _, _)
NDivSearch(n, d, q, k) ==                                      \* invariant: q d <= n; tries bits k, k-1, ..., 0
    IF k < 0 THEN q
    ELSE LET q1 == NAdd(q, NPow2(k)) IN
         IF NCmp(NMul(q1, d), n) <= 0 THEN NDivSearch(n, d, q1, k - 1) ELSE NDivSearch(n, d, q, k - 1)
NDivFloor(n, d) == IF NCmp(n, d) < 0 THEN <<>>                  \* d # 0
                   ELSE NDivSearch(n, d, <<>>, NBits(n) - LimbBits * (Len(d) - 1))

-----------------------------------------------------------------------------
(* integers *)

Mk(neg, mag) == [neg |-> (neg /\ mag # <<>>), mag |-> mag]
Zero         == Mk(FALSE, <<>>)
FromInt(n)   == IF n >= 0 THEN Mk(FALSE, NFromInt(n)) ELSE Mk(TRUE, NFromInt(-n))       \* n > -2^31
ToInt(x)     == IF x.neg THEN -NToInt(x.mag) ELSE NToInt(x.mag)                         \* |x| < 2^31
IsZero(x)    == x.mag = <<>>
Sign(x)      == IF x.mag = <<>> THEN 0 ELSE IF x.neg THEN -1 ELSE 1
Neg(x)       == Mk(~x.neg, x.mag)
Abs(x)       == Mk(FALSE, x.mag)

Add(x, y) ==
    IF x.neg = y.neg THEN Mk(x.neg, NAdd(x.mag, y.mag))
    ELSE LET c == NCmp(x.mag, y.mag) IN
         IF c = 0 THEN Zero
         ELSE IF c > 0 THEN Mk(x.neg, NSub(x.mag, y.mag)) ELSE Mk(y.neg, NSub(y.mag, x.mag))
Sub(x, y) == Add(x, Neg(y))
Mul(x, y) == Mk(x.neg # y.neg, NMul(x.mag, y.mag))
MulInt(x, n) == Mul(x, FromInt(n))

Cmp(x, y) ==                                                   \* -1, 0, 1
    IF x.neg # y.neg THEN (IF x.neg THEN -1 ELSE 1)
    ELSE IF x.neg THEN NCmp(y.mag, x.mag) ELSE NCmp(x.mag, y.mag)
LE(x, y) == Cmp(x, y) <= 0
LT(x, y) == Cmp(x, y) < 0
Eq(x, y) == x = y

Pow2(k)       == Mk(FALSE, NPow2(k))
ShlBits(x, k) == Mk(x.neg, NMul(x.mag, NPow2(k)))              \* x * 2^k
FloorShr(x, k) ==                                              \* floor (x / 2^k), an arithmetic shift right
    IF ~x.neg THEN Mk(FALSE, NShr(x.mag, k))
    ELSE Mk(TRUE, NShr(NAdd(x.mag, NSub(NPow2(k), <<1>>)), k))  \* - ceil (|x| / 2^k)
CeilShr(x, k) == Neg(FloorShr(Neg(x), k))
DivFloor(n, d) ==                                              \* floor (n / d) for n >= 0, d > 0
    Mk(FALSE, NDivFloor(n.mag, d.mag))

(* The 32-bit two's-complement word logged as [hi16, lo16] (vt_w32 of the harness). *)
FromHalves(h) ==
    LET s == IF h[1] >= 32768 THEN h[1] - 65536 ELSE h[1] IN
    Add(Mul(FromInt(s), FromInt(65536)), FromInt(h[2]))

-----------------------------------------------------------------------------
(* division-free postconditions *)

(* q is within h/2 units of the rational n/d (d # 0):  2 |q d - n| <= h |d|.            *)
(* h = 1: q is n/d rounded to nearest (at a tie both neighbours qualify).               *)
RoundedQuot(q, n, d, h) ==
    /\ ~IsZero(d)
    /\ LE(MulInt(Abs(Sub(Mul(q, d), n)), 2), MulInt(Abs(d), h))

(* n/d compared with an integer k without dividing:  sign (n/d - k)  *)
CmpQuot(n, d, k) == LET ns == IF d.neg THEN Neg(n) ELSE n IN Cmp(ns, Mul(Abs(d), k))

(* a x b  compared with  c x d *)
CmpProd(a, b, c, d) == Cmp(Mul(a, b), Mul(c, d))
=============================================================================
