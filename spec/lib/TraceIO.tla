---------------------------- MODULE TraceIO ----------------------------
(* Reading an NDJSON trace recorded from the real library and deciding acceptance.       *)
(* The trace file is named by the environment variable TRACE.  A trace specification     *)
(* declares a position variable l (1-based index of the next line to consume), starts    *)
(* with l = 1 and consumes exactly one line per step; when no action of the trace        *)
(* specification explains line l there is no successor state and exploration stops.      *)
(* The verdict is the POSTCONDITION TraceAccepted: the deepest level reached by TLC's    *)
(* breadth-first search (diameter) minus the initial state is the longest explained      *)
(* prefix.  It is printed so that the orchestrator can locate the first unexplained      *)
(* event.                                                                                *)
EXTENDS Naturals, Sequences, TLC, Json, IOUtils

TraceLog == ndJsonDeserialize(IOEnv.TRACE)

TraceLen == Len(TraceLog)

TraceAccepted ==
    LET d == TLCGet("stats").diameter - 1 IN
    /\ PrintT(<<"VF:accepted", d, TraceLen>>)
    /\ d = TraceLen

(* A named deviation action taken (known finding): reported to the orchestrator. *)
Deviation(id, line) == PrintT(<<"VF:deviation", id, line>>)

Has(rec, f) == f \in DOMAIN rec
=============================================================================
