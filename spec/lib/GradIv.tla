------------------------------- MODULE GradIv -------------------------------
(* Outward-rounded interval arithmetic on fixed-point integers for the gradient            *)
(* specification (C13), inside TLC's 32-bit integers.  An interval is a pair <<lo, hi>> of  *)
(* integers in some fixed-point scale with lo <= hi; every operator returns an interval     *)
(* that CONTAINS the exact real result (never tighter), so that a check                     *)
(* "observed in [lo - tol, hi + tol]" can only be too lenient, never a false alarm.         *)
(* Gradient parameters t use the scale TS = 2^18; angles are fractions of a turn in the     *)
(* same scale.  Every operator states the magnitudes it assumes; callers guard them.        *)
EXTENDS Integers, Sequences

TS == 262144                     \* 2^18: fixed-point scale of the gradient parameter t
TSBits == 18

IvAbs(x) == IF x < 0 THEN -x ELSE x
IvMin(a, b) == IF a <= b THEN a ELSE b
IvMax(a, b) == IF a >= b THEN a ELSE b
Hull(i, j) == <<IvMin(i[1], j[1]), IvMax(i[2], j[2])>>
Widen(i, d) == <<i[1] - d, i[2] + d>>

RECURSIVE Gcd(_, _)
Gcd(a, b) == IF b = 0 THEN IvAbs(a) ELSE Gcd(b, a % IvAbs(b))
Gcd3(a, b, c) == Gcd(Gcd(a, b), c)

P2(k) == LET p[i \in 0..k] == IF i = 0 THEN 1 ELSE 2 * p[i - 1] IN p[k]       \* 2^k, 0 <= k <= 30

(* ---- division:  N / D  as an interval in scale 2^bits ---------------------------------- *)
(* FracBits(r, D, bits) = floor(r * 2^bits / D) for 0 <= r < D < 2^30, by long division     *)
RECURSIVE FracBits(_, _, _)
FracBits(r, D, bits) ==
    IF bits = 0 THEN 0
    ELSE LET r2 == 2 * r IN
         IF r2 >= D THEN P2(bits - 1) + FracBits(r2 - D, D, bits - 1)
         ELSE FracBits(r2, D, bits - 1)

(* floor(N * TS / D) for D > 0, |N| < 2^31, D < 2^30, |N / D| < 2^12                         *)
FloorDivTS(N, D) ==
    LET q == N \div D  r == N % D IN         \* TLA+ \div floors, % is non-negative for D > 0
    q * TS + (IF D <= 8191 THEN (r * TS) \div D ELSE FracBits(r, D, TSBits))

(* interval containing N / D in scale TS (D # 0)                                            *)
DivIv(N, D) == LET n == IF D < 0 THEN -N ELSE N  d == IvAbs(D)  f == FloorDivTS(n, d) IN
               IF (n % d) = 0 THEN <<f, f>> ELSE <<f, f + 1>>
DivFits(N, D) == D # 0 /\ IvAbs(D) < 1073741824 /\ IvAbs(N \div IvAbs(D)) < 4000

(* ---- square root ----------------------------------------------------------------------- *)
RECURSIVE ISqrtB(_, _, _)
ISqrtB(n, s, b) ==                 \* greedy bits from b down: largest s' >= s with s'^2 <= n; n < 2^30, b <= 14
    IF b < 0 THEN s
    ELSE LET c == s + P2(b) IN ISqrtB(n, IF c * c <= n THEN c ELSE s, b - 1)
ISqrt(n) == ISqrtB(n, 0, 14)       \* floor(sqrt(n)) for 0 <= n < 2^30

(* k more binary digits: from s = floor(sqrt(n) * 2^j), r = n * 4^j - s^2  to  j + k          *)
RECURSIVE SqrtMore(_, _, _)
SqrtMore(s, r, k) ==
    IF k = 0 THEN <<s, r>>
    ELSE LET r4 == 4 * r  trial == 4 * s + 1 IN
         IF r4 >= trial THEN SqrtMore(2 * s + 1, r4 - trial, k - 1)
         ELSE SqrtMore(2 * s, r4, k - 1)

(* <<s, exact>>: s = floor(sqrt(n) * 2^k), exact = (s^2 = n * 4^k).  Needs n < 2^30 and sqrt(n) * 2^k < 2^27 *)
SqrtScaled(n, k) == LET s0 == ISqrt(n)  p == SqrtMore(s0, n - s0 * s0, k) IN <<p[1], p[2] = 0>>

(* the largest k <= kmax with ISqrt(n) * 2^k < 2^26 *)
RECURSIVE SqrtDigits(_, _, _)
SqrtDigits(s0, k, kmax) == IF k >= kmax \/ (s0 + 1) * P2(k + 1) >= 67108864 THEN k ELSE SqrtDigits(s0, k + 1, kmax)

(* ---- arctangent: direction (x, y) -> angle as a fraction of a turn, scale TS --------- *)
(* TanTab[k + 1] = tan(k * 2 pi / 4096) * 2^19 rounded to nearest, k = 0..512 (one octant).   *)
(* Used only through TanTab[k] - 1 < tan(..) * 2^19 < TanTab[k] + 1 (exact at k = 0, 512).    *)
(* TanTabOK (checked once by TLC, see spec/mc/GradientMC) ties the table to the addition      *)
(* formula tan(a + d) (1 - tan a tan d) = tan a + tan d, to the end points tan 0 = 0,         *)
(* tan(pi/4) = 1, to the complement identity and to 3.1415 < pi < 3.1416 (TanTab[2] = 804).   *)
TanS == 524288
TanTab == <<
    0, 804, 1609, 2413, 3217, 4021, 4826, 5630, 6434, 7239, 8043, 8848,
    9652, 10457, 11261, 12066, 12871, 13675, 14480, 15285, 16090, 16895, 17700, 18505,
    19311, 20116, 20922, 21727, 22533, 23339, 24144, 24950, 25757, 26563, 27369, 28176,
    28982, 29789, 30596, 31403, 32210, 33018, 33825, 34633, 35441, 36249, 37057, 37865,
    38674, 39483, 40291, 41101, 41910, 42719, 43529, 44339, 45149, 45959, 46770, 47581,
    48392, 49203, 50014, 50826, 51638, 52450, 53262, 54075, 54888, 55701, 56515, 57328,
    58142, 58957, 59771, 60586, 61401, 62217, 63032, 63848, 64665, 65481, 66298, 67116,
    67933, 68751, 69569, 70388, 71207, 72026, 72846, 73666, 74486, 75307, 76128, 76949,
    77771, 78593, 79415, 80238, 81062, 81885, 82709, 83534, 84359, 85184, 86010, 86836,
    87662, 88489, 89317, 90144, 90973, 91801, 92630, 93460, 94290, 95121, 95951, 96783,
    97615, 98447, 99280, 100113, 100947, 101781, 102616, 103452, 104287, 105124, 105961, 106798,
    107636, 108474, 109313, 110153, 110993, 111833, 112674, 113516, 114358, 115201, 116044, 116888,
    117733, 118578, 119424, 120270, 121117, 121964, 122812, 123661, 124510, 125360, 126211, 127062,
    127914, 128766, 129619, 130473, 131327, 132182, 133038, 133894, 134751, 135609, 136468, 137327,
    138186, 139047, 139908, 140770, 141632, 142496, 143360, 144225, 145090, 145956, 146823, 147691,
    148559, 149429, 150298, 151169, 152041, 152913, 153786, 154660, 155534, 156410, 157286, 158163,
    159041, 159920, 160799, 161679, 162561, 163443, 164325, 165209, 166094, 166979, 167865, 168752,
    169640, 170529, 171419, 172310, 173201, 174094, 174987, 175882, 176777, 177673, 178570, 179468,
    180367, 181267, 182168, 183070, 183972, 184876, 185781, 186687, 187593, 188501, 189410, 190319,
    191230, 192142, 193055, 193968, 194883, 195799, 196716, 197634, 198553, 199473, 200395, 201317,
    202240, 203165, 204090, 205017, 205945, 206874, 207804, 208735, 209667, 210601, 211535, 212471,
    213408, 214346, 215285, 216226, 217167, 218110, 219054, 219999, 220946, 221893, 222842, 223793,
    224744, 225697, 226651, 227606, 228562, 229520, 230479, 231439, 232401, 233364, 234328, 235294,
    236261, 237229, 238198, 239169, 240142, 241115, 242090, 243067, 244044, 245024, 246004, 246986,
    247970, 248955, 249941, 250929, 251918, 252909, 253901, 254894, 255889, 256886, 257884, 258884,
    259885, 260887, 261891, 262897, 263904, 264913, 265924, 266936, 267949, 268964, 269981, 270999,
    272019, 273041, 274064, 275089, 276115, 277143, 278173, 279205, 280238, 281273, 282309, 283348,
    284388, 285429, 286473, 287518, 288565, 289614, 290664, 291717, 292771, 293827, 294884, 295944,
    297005, 298069, 299134, 300201, 301270, 302340, 303413, 304488, 305564, 306643, 307723, 308805,
    309889, 310976, 312064, 313154, 314246, 315340, 316437, 317535, 318635, 319737, 320842, 321948,
    323057, 324167, 325280, 326395, 327512, 328631, 329753, 330876, 332002, 333130, 334260, 335392,
    336526, 337663, 338802, 339943, 341087, 342233, 343381, 344531, 345684, 346839, 347996, 349156,
    350318, 351483, 352649, 353819, 354991, 356165, 357341, 358520, 359702, 360886, 362073, 363262,
    364453, 365647, 366844, 368043, 369245, 370450, 371657, 372867, 374079, 375294, 376512, 377732,
    378955, 380181, 381409, 382641, 383875, 385111, 386351, 387593, 388838, 390087, 391337, 392591,
    393848, 395107, 396370, 397635, 398904, 400175, 401449, 402726, 404007, 405290, 406576, 407866,
    409158, 410454, 411753, 413055, 414360, 415668, 416979, 418294, 419612, 420933, 422257, 423584,
    424915, 426249, 427587, 428928, 430272, 431620, 432971, 434325, 435683, 437044, 438409, 439778,
    441149, 442525, 443904, 445287, 446673, 448063, 449456, 450853, 452254, 453658, 455067, 456479,
    457895, 459314, 460738, 462165, 463596, 465031, 466470, 467913, 469360, 470810, 472265, 473724,
    475187, 476654, 478125, 479600, 481079, 482563, 484051, 485542, 487039, 488539, 490044, 491553,
    493066, 494584, 496106, 497633, 499164, 500699, 502239, 503784, 505333, 506887, 508445, 510008,
    511575, 513148, 514725, 516307, 517893, 519485, 521081, 522682, 524288
>>
OctSteps == 512
StepTS == 64                      \* TS / 4096: one table step as a fraction of a turn in scale TS

(* exact product of a, b in 0..2^20 as <<hi, lo>> = hi * 2^20 + lo, 0 <= lo < 2^20 *)
Mul40(a, b) ==
    LET a1 == a \div 1024  a0 == a % 1024  b1 == b \div 1024  b0 == b % 1024
        m == a1 * b0 + a0 * b1
        l == (m % 1024) * 1024 + a0 * b0
    IN  <<a1 * b1 + (m \div 1024) + (l \div 1048576), l % 1048576>>
(* |a*b - c*d| <= tol  for tol < 2^20 * 8 *)
Near40(a, b, c, d, tol) ==
    LET p == Mul40(a, b)  q == Mul40(c, d)  dh == p[1] - q[1] IN
    /\ IvAbs(dh) <= 16
    /\ IvAbs(dh * 1048576 + (p[2] - q[2])) <= tol

TanTabOK ==
    /\ Len(TanTab) = OctSteps + 1
    /\ TanTab[1] = 0 /\ TanTab[OctSteps + 1] = TanS /\ TanTab[2] = 804
    /\ \A k \in 1..OctSteps : TanTab[k] < TanTab[k + 1]
    \* convex on the octant
    /\ \A k \in 2..OctSteps : TanTab[k + 1] - TanTab[k] >= TanTab[k] - TanTab[k - 1] - 1
    \* addition formula, one table step: T[k+1] * (S - T[k] T[1] / S) = S * (T[k] + T[1])
    /\ \A k \in 1..OctSteps :
          Near40(TanTab[k + 1], TanS - ((TanTab[k] * TanTab[2]) \div TanS), TanS, TanTab[k] + TanTab[2], 4 * TanS)
    \* complement: tan(pi/4 - x) (1 + tan x) = 1 - tan x
    /\ \A k \in 1..(OctSteps + 1) :
          Near40(TanTab[OctSteps + 2 - k], TanS + TanTab[k], TanS, TanS - TanTab[k], 2 * TanS + 1)

(* first-octant bracket: 0 <= y <= x, x > 0, x <= 2048.  Returns <<klo, khi>> with            *)
(* klo * step <= atan(y/x) <= khi * step                                                     *)
RECURSIVE OctLo(_, _, _, _), OctHi(_, _, _, _)
OctLo(x, y, lo, hi) ==        \* largest k in lo..hi with y*S >= x*(T[k]+1) (known true at lo, or lo = 0)
    IF lo >= hi THEN lo
    ELSE LET mid == (lo + hi + 1) \div 2 IN
         IF y * TanS >= x * (TanTab[mid + 1] + 1) THEN OctLo(x, y, mid, hi) ELSE OctLo(x, y, lo, mid - 1)
OctHi(x, y, lo, hi) ==        \* smallest k in lo..hi with y*S <= x*(T[k]-1) (known true at hi, or hi = 512)
    IF lo >= hi THEN hi
    ELSE LET mid == (lo + hi) \div 2 IN
         IF y * TanS <= x * (TanTab[mid + 1] - 1) THEN OctHi(x, y, lo, mid) ELSE OctHi(x, y, mid + 1, hi)

OctBracket(x, y) ==
    IF y = 0 THEN <<0, 0>> ELSE IF y = x THEN <<OctSteps, OctSteps>>
    ELSE <<OctLo(x, y, 0, OctSteps), OctHi(x, y, 0, OctSteps)>>

(* angle of direction (dx, dy) # (0, 0), |dx|, |dy| <= 2048, counter-clockwise from +x,       *)
(* as an interval of fractions of a turn in scale TS, within [0, TS]                          *)
AngleIv(dx, dy) ==
    LET ax == IvAbs(dx)  ay == IvAbs(dy)
        b == IF ay <= ax THEN OctBracket(ax, ay) ELSE OctBracket(ay, ax)
        q == TS \div 4
        phi == IF ay <= ax THEN <<b[1] * StepTS, b[2] * StepTS>>            \* angle in the first quadrant
               ELSE <<q - b[2] * StepTS, q - b[1] * StepTS>>
    IN  IF dx >= 0 /\ dy >= 0 THEN phi
        ELSE IF dx < 0 /\ dy >= 0 THEN <<2 * q - phi[2], 2 * q - phi[1]>>
        ELSE IF dx < 0 /\ dy < 0 THEN <<2 * q + phi[1], 2 * q + phi[2]>>
        ELSE <<TS - phi[2], TS - phi[1]>>
=============================================================================
