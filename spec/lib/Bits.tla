------------------------------- MODULE Bits -------------------------------
(* Bit-field arithmetic with div/mod only (TLC integers are 32 bit, overflow is an error).  *)
(* A 32-bit word is a pair <<hi16, lo16>>.  Fields are at most 16 bits wide.                *)
EXTENDS Naturals, Sequences

P2(n) == 2 ^ n                      \* n <= 30

WZero == <<0, 0>>
WAdd(u, v) == <<u[1] + v[1], u[2] + v[2]>>        \* OR of words with disjoint fields
WLe(u, v) == u[1] < v[1] \/ (u[1] = v[1] /\ u[2] <= v[2])

(* the n-bit field of word w starting at bit s (bit 0 = least significant) *)
FieldW(w, s, n) ==
    IF n = 0 THEN 0
    ELSE IF s >= 16 THEN (w[1] \div P2(s - 16)) % P2(n)
    ELSE LET lowpart == w[2] \div P2(s)            \* the 16 - s upper bits of the low half
             need    == s + n - 16                 \* bits still needed from the high half
         IN  IF need <= 0 THEN lowpart % P2(n)
             ELSE lowpart + (w[1] % P2(need)) * P2(16 - s)

(* the word holding the n-bit value v at bit s, zero elsewhere *)
PutW(v, s, n) ==
    IF n = 0 THEN WZero
    ELSE IF s >= 16 THEN <<v * P2(s - 16), 0>>
    ELSE LET lowbits == 16 - s IN
         IF n <= lowbits THEN <<0, v * P2(s)>>
         ELSE <<v \div P2(lowbits), (v % P2(lowbits)) * P2(s)>>

(* the word with ones in the n-bit field at s *)
MaskW(s, n) == IF n = 0 THEN WZero ELSE PutW(P2(n) - 1, s, n)

(* Bit replication: the t-bit number whose bits, read from the top, are the bits of the      *)
(* f-bit number v repeated as often as needed (the last copy cut short).  For t <= f this    *)
(* is truncation to the t most significant bits.                                             *)
RECURSIVE Replicate(_, _, _)
Replicate(v, f, t) ==
    IF t <= f THEN v \div P2(f - t)
    ELSE v * P2(t - f) + Replicate(v, f, t - f)

Truncate(v, f, t) == v \div P2(f - t)              \* t <= f : keep the t most significant bits

Widen(v, f, t) == IF f = 0 THEN 0 ELSE IF t <= f THEN Truncate(v, f, t) ELSE Replicate(v, f, t)

MaxOf(n) == P2(n) - 1

(* ----- byte buffers (sequences of 0..255, index 1 = lowest address), little-endian host ----- *)
Byte(buf, k) == buf[k + 1]                          \* 0-based offset

(* raw pixel x (0-based) of a row of pixels of bpp bits, as a word *)
RawAt(buf, bpp, x) ==
    CASE bpp = 1  -> <<0, (Byte(buf, x \div 8) \div P2(x % 8)) % 2>>
      [] bpp = 4  -> <<0, IF x % 2 = 0 THEN Byte(buf, x \div 2) % 16 ELSE Byte(buf, x \div 2) \div 16>>
      [] bpp = 8  -> <<0, Byte(buf, x)>>
      [] bpp = 16 -> <<0, Byte(buf, 2 * x) + 256 * Byte(buf, 2 * x + 1)>>
      [] bpp = 24 -> <<Byte(buf, 3 * x + 2), Byte(buf, 3 * x) + 256 * Byte(buf, 3 * x + 1)>>
      [] bpp = 32 -> <<Byte(buf, 4 * x + 2) + 256 * Byte(buf, 4 * x + 3),
                       Byte(buf, 4 * x) + 256 * Byte(buf, 4 * x + 1)>>

(* 32-bit little-endian word at byte offset k *)
Word32At(buf, k) == <<Byte(buf, k + 2) + 256 * Byte(buf, k + 3), Byte(buf, k) + 256 * Byte(buf, k + 1)>>

(* the buffer with pixel x replaced by the raw value w -- nothing else changes (frame) *)
WithRaw(buf, bpp, x, w) ==
    IF bpp = 1 THEN
         LET k == x \div 8
             sh == x % 8
             old == Byte(buf, k)
             cleared == old - ((old \div P2(sh)) % 2) * P2(sh)
         IN  [buf EXCEPT ![k + 1] = cleared + (w[2] % 2) * P2(sh)]
    ELSE IF bpp = 4 THEN
         LET k == x \div 2
             old == Byte(buf, k)
         IN  [buf EXCEPT ![k + 1] = IF x % 2 = 0 THEN (old \div 16) * 16 + (w[2] % 16)
                                                 ELSE (w[2] % 16) * 16 + (old % 16)]
    ELSE IF bpp = 8 THEN [buf EXCEPT ![x + 1] = w[2] % 256]
    ELSE IF bpp = 16 THEN [buf EXCEPT ![2 * x + 1] = w[2] % 256, ![2 * x + 2] = w[2] \div 256]
    ELSE IF bpp = 24 THEN [buf EXCEPT ![3 * x + 1] = w[2] % 256, ![3 * x + 2] = w[2] \div 256, ![3 * x + 3] = w[1] % 256]
    ELSE [buf EXCEPT ![4 * x + 1] = w[2] % 256, ![4 * x + 2] = w[2] \div 256,
                     ![4 * x + 3] = w[1] % 256, ![4 * x + 4] = w[1] \div 256]

(* Frame condition: a and b (same length) agree on every bit outside the bit range           *)
(* [bit0, bit1) counted from the start of the buffer.                                        *)
SameOutside(a, b, bit0, bit1) ==
    /\ Len(a) = Len(b)
    /\ \A k \in 0..(Len(a) - 1) :
          LET lo == bit0 - 8 * k     \* first changed bit within this byte (may be < 0 or >= 8)
              hi == bit1 - 8 * k
          IN  IF hi <= 0 \/ lo >= 8 \/ bit1 <= bit0 THEN Byte(a, k) = Byte(b, k)
              ELSE /\ (lo > 0) => (Byte(a, k) % P2(lo) = Byte(b, k) % P2(lo))
                   /\ (hi < 8) => (Byte(a, k) \div P2(hi) = Byte(b, k) \div P2(hi))
=============================================================================
