------------------------------ MODULE RealIv ------------------------------
(* Outward-rounded interval arithmetic on fixed-point integers, for the real-valued         *)
(* references of properties that pixman evaluates in floating point (C01 tolerance class).   *)
(*                                                                                           *)
(* A real x is represented by an interval <<lo, hi>> of integers with lo <= x * ONE <= hi,   *)
(* ONE = 2^20.  Every operation returns an interval that contains the exact result for every *)
(* choice of the operands inside their intervals (soundness), rounding lo down and hi up.    *)
(* TLC integers are 32 bit and overflow is an error, so operands are limited to |x| <= 16    *)
(* (|lo|, |hi| <= 2^24); products are computed from 10-bit split operands and stay < 2^31.   *)
(* Quotients are only needed where the exact quotient is known to lie in [0, 1] (factors of  *)
(* the disjoint / conjoint operators, the ratios of the PDF blend functions on premultiplied *)
(* operands): DivClamp01.  Comparisons are three-valued; an undecided comparison makes the   *)
(* result the hull of both branches (IvIf).                                                  *)
EXTENDS Integers

ONE == 1048576                  \* 2^20
LIMIT == 16777216               \* 2^24 : |value| <= 16

Iv(lo, hi) == <<lo, hi>>
IvPt(x) == <<x, x>>
IvZero == <<0, 0>>
IvOne == <<ONE, ONE>>
IvInt(k) == <<k * ONE, k * ONE>>             \* small integer constant, |k| <= 16

IMin(a, b) == IF a <= b THEN a ELSE b
IMax(a, b) == IF a >= b THEN a ELSE b
IAbs(a) == IF a < 0 THEN -a ELSE a

(* n / m for integers 0 <= n <= m, m <= 1023 or m = 65535 (exact rational, tight interval) *)
IvFromUnorm(n, m) ==
    IF n = 0 THEN IvZero ELSE IF n = m THEN IvOne
    ELSE IF m = 65535                      \* 16-bit colours: n 2^20 / 65535 = 16 n + 16 n / 65535 (no 32-bit overflow)
    THEN LET q == 16 * n + (16 * n) \div 65535 IN IF (16 * n) % 65535 = 0 THEN <<q, q>> ELSE <<q, q + 1>>
    ELSE LET q == (n * ONE) \div m IN IF q * m = n * ONE THEN <<q, q>> ELSE <<q, q + 1>>

IvAdd(a, b) == <<a[1] + b[1], a[2] + b[2]>>
IvSub(a, b) == <<a[1] - b[2], a[2] - b[1]>>
IvNeg(a) == <<-a[2], -a[1]>>
IvHull(a, b) == <<IMin(a[1], b[1]), IMax(a[2], b[2])>>
IvMin(a, b) == <<IMin(a[1], b[1]), IMin(a[2], b[2])>>
IvMax(a, b) == <<IMax(a[1], b[1]), IMax(a[2], b[2])>>
IvClamp01(a) == <<IMax(0, IMin(ONE, a[1])), IMax(0, IMin(ONE, a[2]))>>
IvMulK(a, k) == IF k >= 0 THEN <<a[1] * k, a[2] * k>> ELSE <<a[2] * k, a[1] * k>>     \* small integer k
IvWidth(a) == a[2] - a[1]
IvOK(a) == a[1] <= a[2] /\ -LIMIT <= a[1] /\ a[2] <= LIMIT

(* |x| * |y| / ONE for non-negative x, y <= 2^24: lower bound (the exact value is < lower + 2) *)
MulDown(x, y) ==
    LET xh == x \div 1024  xl == x % 1024  yh == y \div 1024  yl == y % 1024
    IN  xh * yh + (xh * yl + xl * yh) \div 1024
MulUp(x, y) == IF x = 0 \/ y = 0 THEN 0 ELSE MulDown(x, y) + 2

(* signed point products rounded down / up *)
PMulLo(x, y) ==
    IF (x >= 0) = (y >= 0) THEN MulDown(IAbs(x), IAbs(y)) ELSE -MulUp(IAbs(x), IAbs(y))
PMulHi(x, y) ==
    IF (x >= 0) = (y >= 0) THEN MulUp(IAbs(x), IAbs(y)) ELSE -MulDown(IAbs(x), IAbs(y))

Min4(a, b, c, d) == IMin(IMin(a, b), IMin(c, d))
Max4(a, b, c, d) == IMax(IMax(a, b), IMax(c, d))

IvMul(a, b) ==
    IF a[1] >= 0 /\ b[1] >= 0 THEN <<PMulLo(a[1], b[1]), PMulHi(a[2], b[2])>>          \* the common case
    ELSE <<Min4(PMulLo(a[1], b[1]), PMulLo(a[1], b[2]), PMulLo(a[2], b[1]), PMulLo(a[2], b[2])),
           Max4(PMulHi(a[1], b[1]), PMulHi(a[1], b[2]), PMulHi(a[2], b[1]), PMulHi(a[2], b[2]))>>

(* floor (p * ONE / q) for integers 0 <= p < q <= 2^21 (long division, 10 bits at a time) *)
QuotDown(p, q) ==
    LET q1 == (p * 1024) \div q
        r1 == (p * 1024) % q
        q2 == (r1 * 1024) \div q
    IN  q1 * 1024 + q2

(* lower / upper bounds of p * ONE / q for 0 <= p < q <= 2^24: denominators above 2^21 are     *)
(* first scaled down by 16, numerator and denominator rounded in the safe direction           *)
QuotLo(p, q) == IF q <= 2097152 THEN QuotDown(p, q)
                ELSE LET p2 == p \div 16  q2 == (q + 15) \div 16 IN IF p2 >= q2 THEN ONE ELSE QuotDown(p2, q2)
QuotHi(p, q) == IF q <= 2097152 THEN QuotDown(p, q) + 1
                ELSE LET p2 == (p + 15) \div 16  q2 == q \div 16 IN IF p2 >= q2 THEN ONE ELSE QuotDown(p2, q2) + 1

(* clamp (a / b, 0, 1) for b >= 0; where b may be 0 the quotient may be anything in [0, 1]  *)
(* (the caller decides separately what the equation says for b = 0)                           *)
IvDivClamp01(a, b) ==
    LET lo == IF a[1] <= 0 THEN 0
              ELSE IF b[2] <= 0 THEN ONE                       \* b = 0 exactly, a > 0
              ELSE IF a[1] >= b[2] THEN ONE
              ELSE QuotLo(a[1], b[2])
        hi == IF a[2] <= 0 THEN 0
              ELSE IF b[1] <= 0 THEN ONE
              ELSE IF a[2] >= b[1] THEN ONE
              ELSE IMin(ONE, QuotHi(a[2], b[1]))
    IN  <<lo, hi>>

(* three-valued comparisons: "T", "F" or "U" (undecided) *)
IvLt(a, b) == IF a[2] < b[1] THEN "T" ELSE IF a[1] >= b[2] THEN "F" ELSE "U"
IvLe(a, b) == IF a[2] <= b[1] THEN "T" ELSE IF a[1] > b[2] THEN "F" ELSE "U"
IvIsZero(a) == IF a[1] = 0 /\ a[2] = 0 THEN "T" ELSE IF a[1] > 0 \/ a[2] < 0 THEN "F" ELSE "U"
IvNot(t) == IF t = "T" THEN "F" ELSE IF t = "F" THEN "T" ELSE "U"

(* if-then-else on a three-valued condition: the hull of both branches when undecided *)
IvIf(t, x, y) == IF t = "T" THEN x ELSE IF t = "F" THEN y ELSE IvHull(x, y)

(* square root on [0, 1]: binary search for the largest r with r*r/ONE <= x (lower bound)    *)
(* and the smallest r with r*r/ONE >= x (upper bound), using the outward-rounded products     *)
RECURSIVE SqrtLoSearch(_, _, _)
SqrtLoSearch(x, lo, hi) ==          \* invariant: MulUp(lo, lo) <= x, answer in lo..hi
    IF lo >= hi THEN lo
    ELSE LET mid == (lo + hi + 1) \div 2 IN
         IF MulUp(mid, mid) <= x THEN SqrtLoSearch(x, mid, hi) ELSE SqrtLoSearch(x, lo, mid - 1)
RECURSIVE SqrtHiSearch(_, _, _)
SqrtHiSearch(x, lo, hi) ==          \* invariant: MulDown(hi, hi) >= x, answer in lo..hi
    IF lo >= hi THEN hi
    ELSE LET mid == (lo + hi) \div 2 IN
         IF MulDown(mid, mid) >= x THEN SqrtHiSearch(x, lo, mid) ELSE SqrtHiSearch(x, mid + 1, hi)

IvSqrt01(a) ==
    LET l == IMax(0, IMin(ONE, a[1]))  h == IMax(0, IMin(ONE, a[2])) IN
    <<SqrtLoSearch(l, 0, ONE), SqrtHiSearch(h, 0, ONE + 2)>>

(* membership of the unorm value v / m in the interval widened by k steps of 1 / m:         *)
(*    lo - k/m <= v/m <= hi + k/m    (v, m <= 1023, a inside [0, 1])                         *)
InBandUnorm(v, m, a, k) ==
    /\ v * ONE >= a[1] * m - k * ONE
    /\ v * ONE <= a[2] * m + k * ONE
=============================================================================
