------------------------------- MODULE Matrix -------------------------------
(***************************************************************************)
(* Property C11: pixman's fixed-point transform arithmetic                 *)
(* (pixman/pixman-matrix.c).                                               *)
(*                                                                         *)
(* THE STATE MACHINE IS TRIVIAL.  The statement is about pure functions:   *)
(* the only state is the record of the last call, and every API entry      *)
(* point is one action  Call(c, devs)  whose enabling condition is the     *)
(* POSTCONDITION  Post(c, devs)  relating the inputs of the call record c  *)
(* to its return value and outputs.  The value of the specification is the *)
(* exactness of these postconditions: they are the mathematical statements *)
(* (rational matrix-vector products, quotients, roundings, range checks)   *)
(* evaluated over arbitrary-precision integers (lib/BigInt.tla) without    *)
(* any division:  "q is n/d rounded to nearest"  is  2 |q d - n| <= |d|.   *)
(*                                                                         *)
(* Numbers.  A fixed-point value is an integer of raw units: FB fraction    *)
(* bits in a WB-bit two's-complement word (pixman_fixed_t: FB = 16,        *)
(* WB = 32; the model checker uses a scaled-down format).  A matrix is a    *)
(* 3-tuple of rows of BigInt raw values, a vector a 3-tuple.               *)
(*                                                                         *)
(* Readings of the statement that are fixed here (and nowhere else):        *)
(*  R1 "rounded to the nearest 1/65536": at an exact tie BOTH neighbours   *)
(*     are accepted (the code rounds half up on the affine path and half   *)
(*     away from zero on the projective path; the statement names neither).*)
(*  R2 transform_point: with P = M v (exact, P_i in units 2^-2FB), the      *)
(*     homogeneous coordinate is w = P_3 / 2^2FB and the result in raw     *)
(*     units is the rational  P_i 2^FB / P_3.  "|w| < 65536" is            *)
(*     |P_3| < 2^(WB+FB): exactly the case in which the code keeps every   *)
(*     bit of the 49-bit divisor; otherwise it shifts divisor and dividend *)
(*     right and the result may be off by "one unit" from the rounded      *)
(*     value, i.e. up to 3/2 units from the rational.                      *)
(*  R3 "FALSE when the result is not representable": FALSE is correct iff  *)
(*     w = 0 or SOME admissible rounding of some coordinate lies outside   *)
(*     the word; TRUE is correct iff the returned coordinates are          *)
(*     admissible roundings (they are words, hence representable).  The    *)
(*     contents of the output on FALSE are not constrained.                *)
(*  R4 scale/rotate/translate are compositions: forward' = X * forward,    *)
(*     reverse' = reverse * X^-1, each product judged like multiply.  The  *)
(*     reciprocal scale factor is an intermediate whose rounding the       *)
(*     statement does not fix: either 16.16 neighbour of 1/s is accepted   *)
(*     (as is the correctly rounded exact quotient reverse_ij / s).        *)
(*     When the factor matrix itself (1/s, -s, -tx) is not representable   *)
(*     both FALSE ("overflow") and the correctly rounded exact product     *)
(*     are accepted.                                                       *)
(*  R5 invert, "well-conditioned": see WellCond.  Accuracy demanded there: *)
(*     one unit ("the 16.16 resolution") from the exact rational inverse.  *)
(*                                                                         *)
(* Deviations.  devs is the set of NAMED DEVIATIONS (known findings) the   *)
(* caller is willing to accept; Post(c, {}) is the statement.  Each        *)
(* deviation admits exactly the value the defective computation produces   *)
(* (see the individual comments), so anything else remains a violation.    *)
(***************************************************************************)
EXTENDS BigInt

CONSTANTS FB,      \* fraction bits   (16)
          WB       \* word bits       (32)

VARIABLE last      \* [fn, ret] of the most recent call -- the whole state

I3 == 1..3

DevPerTerm   == "C11-multiply-per-term-rounding"
DevBounds    == "C11-bounds-ceil-overflow"
DevFromF     == "C11-from-f-transform-range"
DevInvSing   == "C11-invert-singular-accepted"
DevRecip     == "C11-scale-reciprocal-wrap"
DevNegMin    == "C11-negate-min-wrap"

-----------------------------------------------------------------------------
(* words *)
BOne  == FromInt(1)
WOne  == Pow2(FB)                             \* 1.0
WHalf == Pow2(FB - 1)
WMax  == Sub(Pow2(WB - 1), BOne)
WMin  == Neg(Pow2(WB - 1))
InWord(x) == LE(WMin, x) /\ LE(x, WMax)

\* x reduced modulo 2^WB into the word range (what a C cast to the word type does)
WrapWord(x) ==
    LET m == Sub(x, ShlBits(FloorShr(x, WB), WB)) IN             \* 0 <= m < 2^WB
    IF LE(m, WMax) THEN m ELSE Sub(m, Pow2(WB))

(* Some integer q OUTSIDE the word range satisfies 2 |q d - n| <= h |d|, i.e. a rounding of n/d   *)
(* admissible with tolerance h/2 is not representable.  With e = n/d, T = 2^(WB-1):               *)
(*    e >= T - h/2   or   e <= -T - 1 + h/2.                                                       *)
NonRep(n, d, h) ==
    LET ns == IF d.neg THEN Neg(n) ELSE n
        ad == Abs(d)
        n2 == MulInt(ns, 2)
    IN \/ LE(Mul(ad, Sub(Pow2(WB), FromInt(h))), n2)
       \/ LE(n2, Neg(Mul(ad, Add(Pow2(WB), FromInt(2 - h)))))

Dot3(r, v) == Add(Add(Mul(r[1], v[1]), Mul(r[2], v[2])), Mul(r[3], v[3]))
Col(M, j)  == <<M[1][j], M[2][j], M[3][j]>>
MatVec(M, v) == [i \in I3 |-> Dot3(M[i], v)]

IdMat            == <<<<WOne, Zero, Zero>>, <<Zero, WOne, Zero>>, <<Zero, Zero, WOne>>>>
ScaleMat(sx, sy) == <<<<sx, Zero, Zero>>, <<Zero, sy, Zero>>, <<Zero, Zero, WOne>>>>
RotMat(c, s, n)  == <<<<c, n, Zero>>, <<s, c, Zero>>, <<Zero, Zero, WOne>>>>       \* n stands for -s
TransMat(tx, ty) == <<<<WOne, Zero, tx>>, <<Zero, WOne, ty>>, <<Zero, Zero, WOne>>>>

-----------------------------------------------------------------------------
(* pixman_transform_point, pixman_transform_point_3d *)

BigW == Pow2(WB + FB)                          \* |P_3| < BigW  <=>  |w| < 2^(WB-FB) = 65536
PointTol(D) == IF LT(Abs(D), BigW) THEN 1 ELSE 3

PointPost(M, v, ret, out) ==
    LET P == MatVec(M, v)
        D == P[3]
        h == PointTol(D)
    IN IF IsZero(D) THEN ret = FALSE
       ELSE IF ret
            THEN /\ \A i \in 1..2 : RoundedQuot(out[i], ShlBits(P[i], FB), D, h)
                 /\ out[3] = WOne
            ELSE \E i \in 1..2 : NonRep(ShlBits(P[i], FB), D, h)

Point3dPost(M, v, ret, out) ==
    LET P == MatVec(M, v) IN
    IF ret THEN \A i \in I3 : RoundedQuot(out[i], P[i], WOne, 1)
    ELSE \E i \in I3 : NonRep(P[i], WOne, 1)

-----------------------------------------------------------------------------
(* pixman_transform_multiply *)

MulPost(L, R, ret, D) ==
    IF ret THEN \A i \in I3, j \in I3 : RoundedQuot(D[i][j], Dot3(L[i], Col(R, j)), WOne, 1)
    ELSE \E i \in I3, j \in I3 : NonRep(Dot3(L[i], Col(R, j)), WOne, 1)

(* DEVIATION C11-multiply-per-term-rounding (suspected defect 6, reproduced): the code rounds each  *)
(* of the three products of an entry separately, (p + 2^(FB-1)) >> FB, and adds the rounded terms:  *)
(* up to 3/2 units from the exact sum.  Accepted only if the result is EXACTLY that value           *)
(* (and FALSE exactly when that value leaves the word range).                                      *)
PerTerm(x, y) == FloorShr(Add(Mul(x, y), WHalf), FB)
PerTermEntry(r, c) == Add(Add(PerTerm(r[1], c[1]), PerTerm(r[2], c[2])), PerTerm(r[3], c[3]))
MulPerTerm(L, R, ret, D) ==
    LET E == [i \in I3 |-> [j \in I3 |-> PerTermEntry(L[i], Col(R, j))]]
        fits == \A i \in I3, j \in I3 : InWord(E[i][j])
    IN /\ ret = fits
       /\ ret => \A i \in I3, j \in I3 : D[i][j] = E[i][j]

MulRel(devs, L, R, ret, D) ==
    \/ MulPost(L, R, ret, D)
    \/ DevPerTerm \in devs /\ MulPerTerm(L, R, ret, D)

-----------------------------------------------------------------------------
(* pixman_transform_scale / rotate / translate  (reading R4)                 *)
(* c: [hf, hr : BOOLEAN, p, q : the two scalar arguments, fin, rin, ret, fout, rout] *)

(* admissible 16.16 reciprocals of s # 0: r with |r s - 2^2FB| < |s| (either neighbour), in the word *)
RecipTrunc(s) ==                                  \* 2^2FB / s truncated toward zero, as the code computes it
    LET t == DivFloor(Pow2(2 * FB), Abs(s)) IN IF s.neg THEN Neg(t) ELSE t
RecipOK(s) ==
    LET t == RecipTrunc(s)
        t2 == IF s.neg THEN Sub(t, BOne) ELSE Add(t, BOne)
    IN {r \in {t, t2} : InWord(r) /\ LT(Abs(Sub(Mul(r, s), Pow2(2 * FB))), Abs(s))}
(* DEVIATION C11-scale-reciprocal-wrap (reproduced; REPAIRED in /repo 7c01373, hence no longer an    *)
(* open finding and never enabled by the trace specification): for |s| <= 2 raw units the truncated reciprocal  *)
(* (2^32, 2^31) does not fit the word and the code's cast wraps it (to 0, INT32_MIN) instead of       *)
(* reporting overflow.  Accepted: exactly the wrapped value.                                         *)
Recips(devs, s) ==
    RecipOK(s) \cup (IF DevRecip \in devs /\ ~InWord(RecipTrunc(s)) THEN {WrapWord(RecipTrunc(s))} ELSE {})

(* DEVIATION C11-negate-min-wrap (reproduced; REPAIRED in /repo 7c01373, no longer enabled): -x for x = INT32_MIN wraps to INT32_MIN (C undefined    *)
(* behaviour) in rotate (-s) and translate (-tx, -ty).  Mathematically -x = 2^31 is used.            *)
Negs(devs, x) == {Neg(x)} \cup (IF DevNegMin \in devs /\ x = WMin THEN {WMin} ELSE {})

ExactScaleRev(c) ==
    \A i \in I3 : /\ RoundedQuot(c.rout[i][1], ShlBits(c.rin[i][1], FB), c.p, 1)
                  /\ RoundedQuot(c.rout[i][2], ShlBits(c.rin[i][2], FB), c.q, 1)
                  /\ c.rout[i][3] = c.rin[i][3]

ScalePost(devs, c) ==
    LET fwdOK == MulRel(devs, ScaleMat(c.p, c.q), c.fin, TRUE, c.fout)
        zero == IsZero(c.p) \/ IsZero(c.q)
    IN IF zero THEN (~c.ret \/ (~c.hr /\ fwdOK))          \* no reciprocal: FALSE (forward alone may also succeed)
       ELSE IF c.ret
            THEN /\ c.hf => fwdOK
                 /\ c.hr => \/ \E rx \in Recips(devs, c.p), ry \in Recips(devs, c.q) :
                                   MulRel(devs, c.rin, ScaleMat(rx, ry), TRUE, c.rout)
                            \/ ExactScaleRev(c)
            ELSE \/ c.hf /\ MulRel(devs, ScaleMat(c.p, c.q), c.fin, FALSE, c.fin)
                 \/ c.hr /\ (\/ RecipOK(c.p) = {} \/ RecipOK(c.q) = {}
                             \/ \E rx \in Recips(devs, c.p), ry \in Recips(devs, c.q) :
                                   MulRel(devs, c.rin, ScaleMat(rx, ry), FALSE, c.rin))

RotatePost(devs, c) ==                                        \* p = cos, q = sin
    \E n \in Negs(devs, c.q) :
       IF c.ret
       THEN /\ c.hf => MulRel(devs, RotMat(c.p, c.q, n), c.fin, TRUE, c.fout)
            /\ c.hr => MulRel(devs, c.rin, RotMat(c.p, n, c.q), TRUE, c.rout)
       ELSE \/ c.hf /\ MulRel(devs, RotMat(c.p, c.q, n), c.fin, FALSE, c.fin)
            \/ c.hr /\ MulRel(devs, c.rin, RotMat(c.p, n, c.q), FALSE, c.rin)
            \/ ~InWord(Neg(c.q))       \* the rotation (c, s) itself is not representable (whichever outputs are requested)

TranslatePost(devs, c) ==                                     \* p = tx, q = ty
    \E nx \in Negs(devs, c.p), ny \in Negs(devs, c.q) :
       IF c.ret
       THEN /\ c.hf => MulRel(devs, TransMat(c.p, c.q), c.fin, TRUE, c.fout)
            /\ c.hr => MulRel(devs, c.rin, TransMat(nx, ny), TRUE, c.rout)
       ELSE \/ c.hf /\ MulRel(devs, TransMat(c.p, c.q), c.fin, FALSE, c.fin)
            \/ c.hr /\ MulRel(devs, c.rin, TransMat(nx, ny), FALSE, c.rin)
            \/ c.hr /\ (~InWord(Neg(c.p)) \/ ~InWord(Neg(c.q)))   \* the reverse translation is not representable

-----------------------------------------------------------------------------
(* pixman_transform_init_identity / _scale / _rotate / _translate: the matrix itself.                 *)
(* init_rotate negates s and returns void: when -s is not a word the function cannot report it and    *)
(* the call is outside the domain (not judged).                                                      *)
InitPost(c) ==
    CASE c.kind = "identity"  -> c.o = IdMat
      [] c.kind = "scale"     -> c.o = ScaleMat(c.p, c.q)
      [] c.kind = "rotate"    -> (InWord(Neg(c.q)) => c.o = RotMat(c.p, c.q, Neg(c.q)))
      [] c.kind = "translate" -> c.o = TransMat(c.p, c.q)

-----------------------------------------------------------------------------
(* pixman_transform_bounds.  box = <<x1, y1, x2, y2>> integers (pixman_box16: WB-FB bits).             *)
(* "a box containing all four transformed corners": the corners are the rationals of R2; the box must *)
(* contain each of them up to the rounding transform_point is allowed (h/2 units), since the box is   *)
(* computed from the rounded points.                                                                  *)
BoxMax == Sub(Pow2(WB - FB - 1), BOne)
BoxMin == Neg(Pow2(WB - FB - 1))
Corners(b) == <<<<b[1], b[2]>>, <<b[3], b[2]>>, <<b[3], b[4]>>, <<b[1], b[4]>>>>
CornerVec(p) == <<ShlBits(p[1], FB), ShlBits(p[2], FB), WOne>>

\* lo <= n/d + h/2 units  and  n/d - h/2 units <= hi   (lo, hi integers, in units of WOne)
Contains(lo, hi, n, d, h) ==
    LET ns == IF d.neg THEN Neg(n) ELSE n
        ad == Abs(d)
        n2 == MulInt(ns, 2)
        t  == MulInt(ad, h)
    IN /\ LE(MulInt(Mul(ShlBits(lo, FB), ad), 2), Add(n2, t))
       /\ LE(Sub(n2, t), MulInt(Mul(ShlBits(hi, FB), ad), 2))

BoundsOrdinary(M, bin, ret, bout) ==
    LET Pk(k) == MatVec(M, CornerVec(Corners(bin)[k])) IN
    IF ret
    THEN \A k \in 1..4 :
            LET P == Pk(k)  D == P[3]  h == PointTol(D) IN
            /\ ~IsZero(D)
            /\ Contains(bout[1], bout[3], ShlBits(P[1], FB), D, h)
            /\ Contains(bout[2], bout[4], ShlBits(P[2], FB), D, h)
    ELSE \E k \in 1..4 :
            LET P == Pk(k)  D == P[3]  h == PointTol(D) IN
            \/ IsZero(D)
            \/ \E i \in 1..2 :
                  \/ NonRep(ShlBits(P[i], FB), D, h)
                  \* an admissible rounding exceeds BoxMax.0: the box would need BoxMax + 1
                  \/ ~Contains(BoxMin, BoxMax, ShlBits(P[i], FB), D, -h)

(* DEVIATION C11-bounds-ceil-overflow (suspected defect 6, reproduced): for a transformed corner     *)
(* coordinate q > 32767.0 the code's pixman_fixed_ceil (q + 0xffff) overflows and yields -32768, so   *)
(* the box returned with TRUE misses that corner.  Accepted: exactly the box the code's formula gives *)
(* from the four corner points pts (observed through pixman_transform_point and judged here by       *)
(* PointPost), provided some coordinate is in that range.                                            *)
RECURSIVE BigFold(_, _, _)
BigFold(s, i, least) ==     \* least/greatest element of a non-empty sequence of BigInt
    IF i = Len(s) THEN s[i]
    ELSE LET r == BigFold(s, i + 1, least) IN
         IF least THEN (IF LE(s[i], r) THEN s[i] ELSE r) ELSE (IF LE(r, s[i]) THEN s[i] ELSE r)
CeilOverflows(q) == LT(Sub(WMax, Sub(WOne, BOne)), q)
CeilWrapped(q) == IF CeilOverflows(q) THEN BoxMin ELSE CeilShr(q, FB)
BoundsDev(M, bin, ret, bout, pts) ==
    /\ ret
    /\ \A k \in 1..4 : pts[k].ret /\ PointPost(M, CornerVec(Corners(bin)[k]), TRUE, pts[k].o)
    /\ \E k \in 1..4, i \in 1..2 : CeilOverflows(pts[k].o[i])
    /\ bout[1] = BigFold([k \in 1..4 |-> FloorShr(pts[k].o[1], FB)], 1, TRUE)
    /\ bout[2] = BigFold([k \in 1..4 |-> FloorShr(pts[k].o[2], FB)], 1, TRUE)
    /\ bout[3] = BigFold([k \in 1..4 |-> CeilWrapped(pts[k].o[1])], 1, FALSE)
    /\ bout[4] = BigFold([k \in 1..4 |-> CeilWrapped(pts[k].o[2])], 1, FALSE)

BoundsPost(devs, c) ==
    \/ BoundsOrdinary(c.m, c.bin, c.ret, c.bout)
    \/ DevBounds \in devs /\ BoundsDev(c.m, c.bin, c.ret, c.bout, c.pts)

-----------------------------------------------------------------------------
(* pixman_transform_invert  (reading R5) *)
Others(i) == IF i = 1 THEN <<2, 3>> ELSE IF i = 2 THEN <<1, 3>> ELSE <<1, 2>>
Minor(M, i, j) == LET r == Others(i)  k == Others(j) IN
                  Sub(Mul(M[r[1]][k[1]], M[r[2]][k[2]]), Mul(M[r[1]][k[2]], M[r[2]][k[1]]))
MinorAbs(M, i, j) == LET r == Others(i)  k == Others(j) IN
                  Add(Abs(Mul(M[r[1]][k[1]], M[r[2]][k[2]])), Abs(Mul(M[r[1]][k[2]], M[r[2]][k[1]])))
Cof(M, i, j) == IF (i + j) % 2 = 0 THEN Minor(M, i, j) ELSE Neg(Minor(M, i, j))
Det(M)    == Add(Add(Mul(M[1][1], Cof(M, 1, 1)), Mul(M[1][2], Cof(M, 1, 2))), Mul(M[1][3], Cof(M, 1, 3)))
DetAbs(M) == Add(Add(Mul(Abs(M[1][1]), MinorAbs(M, 1, 1)), Mul(Abs(M[1][2]), MinorAbs(M, 1, 2))),
                 Mul(Abs(M[1][3]), MinorAbs(M, 1, 3)))
(* The exact inverse in raw units is X_ij = 2^2FB Cof(M, j, i) / Det(M).                                *)
(* WELL-CONDITIONED (the bound of R5).  The code inverts in IEEE double.  With S = DetAbs (the sum of   *)
(* the absolute values of the six triple products) and T_ij = MinorAbs, cancellation makes the relative *)
(* error of the computed determinant about 2^-51 S/|det| and the absolute error of a cofactor 2^-52 T;  *)
(* an entry of at most 2^(WB-1) raw units then carries an error of at most                              *)
(*      2^(WB-52) S / |det|  +  2^(2FB-52) T / |det|     raw units.                                     *)
(* M is called well-conditioned when both terms are <= 2^-6, i.e.                                       *)
(*      2^WB S <= 2^46 |det|   and   2^2FB T_ij <= 2^46 |det|  for all i, j.                             *)
(* (e.g. every scale-rotate-translate matrix with |scale| in [2^-7, 2^7] qualifies).  For such M the    *)
(* result must be within ONE unit of X (correct rounding of a value known to 2^-5 units); for other    *)
(* non-singular M the statement promises nothing and the call is not judged.                           *)
CondBits == 46
WellCond(M) ==
    LET ad == ShlBits(Abs(Det(M)), CondBits) IN
    /\ LE(ShlBits(DetAbs(M), WB), ad)
    /\ \A i \in I3, j \in I3 : LE(ShlBits(MinorAbs(M, i, j), 2 * FB), ad)
RangeF == ShlBits(BoxMax, FB)                                 \* 32767.0
(* DEVIATION C11-invert-singular-accepted (reproduced): the determinant is evaluated in double; for    *)
(* a singular matrix whose triple products are not all exact in 53 bits (S >= 2^53) the rounded         *)
(* determinant can be non-zero and the function returns TRUE with a meaningless matrix.                *)
(* DEVIATION C11-from-f-transform-range (suspected defect 6, reproduced): the conversion back to       *)
(* fixed point refuses |x| > 32767.0 although values up to 32767.99998 and down to -32768.0 are         *)
(* representable; invert then returns FALSE for a representable inverse.  Accepted: FALSE when some     *)
(* entry of the exact inverse exceeds 32767.0 in magnitude (up to the unit of tolerance of R5).        *)
InvertPost(devs, M, ret, out) ==
    LET det == Det(M) IN
    IF IsZero(det)
    THEN \/ ~ret
         \/ DevInvSing \in devs /\ LE(Pow2(53), DetAbs(M))
    ELSE IF ~WellCond(M) THEN TRUE
    ELSE IF ret THEN \A i \in I3, j \in I3 : RoundedQuot(out[i][j], ShlBits(Cof(M, j, i), 2 * FB), det, 2)
    ELSE \/ \E i \in I3, j \in I3 : NonRep(ShlBits(Cof(M, j, i), 2 * FB), det, 2)
         \/ /\ DevFromF \in devs
            /\ \E i \in I3, j \in I3 :
                  LT(Mul(Abs(det), RangeF), Add(Abs(ShlBits(Cof(M, j, i), 2 * FB)), Abs(det)))
InvertJudged(M) == IsZero(Det(M)) \/ WellCond(M)

-----------------------------------------------------------------------------
(* IEEE doubles, logged as four 16-bit quarters <<h3, h2, h1, h0>> (most significant first).           *)
(* A decoded double is [fin, neg, m, e]: value = (-1)^neg m 2^e with m a natural below 2^53.            *)
Dbl(q) ==
    LET ex == (q[1] % 32768) \div 16
        hi == FromInt((q[1] % 16) * 65536 + q[2])
        fr == Add(ShlBits(hi, 32), Add(ShlBits(FromInt(q[3]), 16), FromInt(q[4])))
    IN [fin |-> ex # 2047, neg |-> q[1] >= 32768,
        m |-> IF ex = 0 THEN fr ELSE Add(fr, Pow2(52)),
        e |-> IF ex = 0 THEN -1074 ELSE ex - 1075]
DblMat(Q) == [i \in I3 |-> [j \in I3 |-> Dbl(Q[i][j])]]
DblVec(Q) == [i \in I3 |-> Dbl(Q[i])]
Signed(neg, x) == IF neg THEN Neg(x) ELSE x
(* value * 2^k as a fraction <<N, D>>, D > 0.  Exponents beyond +-200 are clamped: the value is then    *)
(* astronomically large (not representable whatever the clamp) or negligibly small (rounds to 0).       *)
Clamp200(n) == IF n > 200 THEN 200 ELSE n
DblFrac(d, k) ==
    LET sh == d.e + k IN
    IF sh >= 0 THEN <<Signed(d.neg, ShlBits(d.m, Clamp200(sh))), BOne>>
    ELSE <<Signed(d.neg, d.m), Pow2(Clamp200(-sh))>>
(* value * 2^k = n exactly *)
DblEq(d, k, n) == d.fin /\ LET f == DblFrac(d, k) IN
                  ((d.e + k <= 200 /\ d.e + k >= -200) \/ IsZero(d.m)) /\ f[1] = Mul(n, f[2])
(* value * 2^k is an integer: [ok, n] *)
DblInt(d, k) ==
    LET sh == d.e + k IN
    IF ~d.fin THEN [ok |-> FALSE, n |-> Zero]
    ELSE IF IsZero(d.m) THEN [ok |-> TRUE, n |-> Zero]
    ELSE IF sh >= 0 THEN [ok |-> sh <= 200, n |-> Signed(d.neg, ShlBits(d.m, Clamp200(sh)))]
    ELSE IF -sh > 60 THEN [ok |-> FALSE, n |-> Zero]
    ELSE LET q == FloorShr(d.m, -sh) IN [ok |-> ShlBits(q, -sh) = d.m, n |-> Signed(d.neg, q)]

(* pixman_transform_from_pixman_f_transform: every entry x 2^FB rounded to nearest, FALSE iff some      *)
(* rounding is not a word.  NaN/infinite input: not judged.                                            *)
FromFPost(devs, F, ret, out) ==
    IF \E i \in I3, j \in I3 : ~F[i][j].fin THEN TRUE
    ELSE LET fr(i, j) == DblFrac(F[i][j], FB) IN
         IF ret THEN \A i \in I3, j \in I3 : RoundedQuot(out[i][j], fr(i, j)[1], fr(i, j)[2], 1)
         ELSE \/ \E i \in I3, j \in I3 : NonRep(fr(i, j)[1], fr(i, j)[2], 1)
              \/ /\ DevFromF \in devs            \* exact witness: |value| > 32767.0
                 /\ \E i \in I3, j \in I3 : LT(Mul(RangeF, fr(i, j)[2]), Abs(fr(i, j)[1]))

(* pixman_f_transform_from_pixman_transform: exact *)
ToFPost(M, F) == \A i \in I3, j \in I3 : DblEq(F[i][j], FB, M[i][j])

-----------------------------------------------------------------------------
(* The pixman_f_transform_* family is judged on EXACT facts only: when every input is on the grid       *)
(* n / 2^G with |n| <= 2^15 (G = 8), every sum of products of two or three inputs is exact in double    *)
(* whatever the evaluation order, so the result is determined; divisions are IEEE-correctly rounded      *)
(* (relative error 2^-53 each).  Inputs off the grid: not judged.                                       *)
G == 8
GridInt(d) == DblInt(d, G)
OnGrid(d) == GridInt(d).ok /\ LE(Abs(GridInt(d).n), Pow2(15))
GridMatOK(F) == \A i \in I3, j \in I3 : OnGrid(F[i][j])
GridVecOK(V) == \A i \in I3 : OnGrid(V[i])
GridMat(F) == [i \in I3 |-> [j \in I3 |-> GridInt(F[i][j]).n]]
GridVec(V) == [i \in I3 |-> GridInt(V[i]).n]
MatMulExact(A, B) == [i \in I3 |-> [j \in I3 |-> Dot3(A[i], Col(B, j))]]
\* value of output double d times 2^k equals n
OutEq(d, k, n) == DblEq(d, k, n)
\* |value(d) * den - num| <= 2^-r |num|   (d approximates num/den with relative error 2^-r)
OutNear(d, num, den, r) ==
    d.fin /\ LET f == DblFrac(d, 0) IN
             ((d.e <= 200 /\ d.e >= -200) \/ IsZero(d.m)) /\
             LE(ShlBits(Abs(Sub(Mul(f[1], den), Mul(num, f[2]))), r), Mul(Abs(num), f[2]))

FMulPost(A, B, O) ==
    (GridMatOK(A) /\ GridMatOK(B)) =>
        LET E == MatMulExact(GridMat(A), GridMat(B)) IN \A i \in I3, j \in I3 : OutEq(O[i][j], 2 * G, E[i][j])
FPoint3dPost(A, V, O) ==
    (GridMatOK(A) /\ GridVecOK(V)) =>
        LET E == MatVec(GridMat(A), GridVec(V)) IN \A i \in I3 : OutEq(O[i], 2 * G, E[i])
FPointPost(A, V, ret, O) ==
    (GridMatOK(A) /\ GridVecOK(V)) =>
        LET E == MatVec(GridMat(A), GridVec(V)) IN
        /\ ret = ~IsZero(E[3])
        /\ ret => /\ \A i \in 1..2 : OutNear(O[i], E[i], E[3], 52)
                  /\ OutEq(O[3], 0, BOne)
\* the generic scalar-argument calls: kind in {"scale", "rotate", "translate"}, p, q decoded doubles
FUnit == Pow2(G)
PowerOfTwo(n) == \E k \in 0..15 : Abs(n) = Pow2(k)
FXformPost(c) ==
    LET ok == OnGrid(c.p) /\ OnGrid(c.q) /\ (c.hf => GridMatOK(c.fin)) /\ (c.hr => GridMatOK(c.rin))
        p == GridInt(c.p).n  q == GridInt(c.q).n
        U == FUnit  Z == Zero
        Same(O, E, k) == \A i \in I3, j \in I3 : OutEq(O[i][j], k, E[i][j])
    IN ok =>
       CASE c.kind = "translate" ->
               /\ c.ret
               /\ c.hf => Same(c.fout, MatMulExact(<<<<U, Z, p>>, <<Z, U, q>>, <<Z, Z, U>>>>, GridMat(c.fin)), 2 * G)
               /\ c.hr => Same(c.rout, MatMulExact(GridMat(c.rin), <<<<U, Z, Neg(p)>>, <<Z, U, Neg(q)>>, <<Z, Z, U>>>>), 2 * G)
         [] c.kind = "rotate" ->
               /\ c.ret
               /\ c.hf => Same(c.fout, MatMulExact(<<<<p, Neg(q), Z>>, <<q, p, Z>>, <<Z, Z, U>>>>, GridMat(c.fin)), 2 * G)
               /\ c.hr => Same(c.rout, MatMulExact(GridMat(c.rin), <<<<p, q, Z>>, <<Neg(q), p, Z>>, <<Z, Z, U>>>>), 2 * G)
         [] c.kind = "scale" ->
               IF IsZero(p) \/ IsZero(q) THEN ~c.ret
               ELSE /\ c.ret
                    /\ c.hf => Same(c.fout, MatMulExact(<<<<p, Z, Z>>, <<Z, q, Z>>, <<Z, Z, U>>>>, GridMat(c.fin)), 2 * G)
                    \* 1/s is exact when s is a power of two: 1/(p/2^G) = 2^2G/p / 2^G
                    /\ (c.hr /\ PowerOfTwo(p) /\ PowerOfTwo(q)) =>
                          LET ip == Signed(p.neg, DivFloor(Pow2(2 * G), Abs(p)))
                              iq == Signed(q.neg, DivFloor(Pow2(2 * G), Abs(q)))
                          IN Same(c.rout, MatMulExact(GridMat(c.rin), <<<<ip, Z, Z>>, <<Z, iq, Z>>, <<Z, Z, U>>>>), 2 * G)
FInitPost(c) ==      \* outputs are copies of the arguments / constants: compared as exact values on the grid
    LET ok == c.kind = "identity" \/ (OnGrid(c.p) /\ OnGrid(c.q))
        p == GridInt(c.p).n  q == GridInt(c.q).n  U == FUnit  Z == Zero
        E == CASE c.kind = "identity"  -> <<<<U, Z, Z>>, <<Z, U, Z>>, <<Z, Z, U>>>>
               [] c.kind = "scale"     -> <<<<p, Z, Z>>, <<Z, q, Z>>, <<Z, Z, U>>>>
               [] c.kind = "rotate"    -> <<<<p, Neg(q), Z>>, <<q, p, Z>>, <<Z, Z, U>>>>
               [] c.kind = "translate" -> <<<<U, Z, p>>, <<Z, U, q>>, <<Z, Z, U>>>>
    IN ok => \A i \in I3, j \in I3 : OutEq(c.o[i][j], G, E[i][j])
FInvertPost(A, ret, O) ==
    GridMatOK(A) =>
        LET M == GridMat(A)  det == Det(M) IN         \* det in units 2^-3G, cofactors in units 2^-2G: all exact
        /\ ret = ~IsZero(det)
        \* 1/det and det * cofactor are rounded once each: relative error below 2^-51
        /\ ret => \A i \in I3, j \in I3 : OutNear(O[i][j], ShlBits(Cof(M, j, i), G), det, 51)
FBoundsPost(A, bin, ret, bout) ==
    GridMatOK(A) =>
        LET M == GridMat(A)
            Pk(k) == MatVec(M, <<ShlBits(Corners(bin)[k][1], G), ShlBits(Corners(bin)[k][2], G), FUnit>>)
            \* contains n/d up to 2^-20 (the quotient is rounded to double before floor/ceil)
            In(lo, hi, n, d) ==
               LET ns == IF d.neg THEN Neg(n) ELSE n  ad == Abs(d) IN
               /\ LE(Sub(ShlBits(Mul(lo, ad), 20), ad), ShlBits(ns, 20))
               /\ LE(ShlBits(ns, 20), Add(ShlBits(Mul(hi, ad), 20), ad))
        IN /\ ret = \A k \in 1..4 : ~IsZero(Pk(k)[3])
           /\ ret => \A k \in 1..4 : /\ In(bout[1], bout[3], Pk(k)[1], Pk(k)[3])
                                     /\ In(bout[2], bout[4], Pk(k)[2], Pk(k)[3])

-----------------------------------------------------------------------------
(* pixman_transform_is_identity / is_scale / is_int_translate / is_inverse.  The statement of C11 does   *)
(* not define these predicates (the code uses an epsilon of 2 raw units); only the unambiguous cases    *)
(* are judged: TRUE is required on exact members whose entries are clear of zero by 2^(FB/2) units, FALSE *)
(* when an entry is off by at least that much.                                                          *)
Far == Pow2(FB \div 2)
IsFar(x) == LE(Far, Abs(x))
OffDiagZero(M) == \A i \in I3, j \in I3 : i # j => IsZero(M[i][j])
OffDiagFar(M) == \E i \in I3, j \in I3 : i # j /\ IsFar(M[i][j])
PredPost(c) ==
    LET M == c.m IN
    CASE c.kind = "identity" ->
            /\ (OffDiagZero(M) /\ M[1][1] = M[2][2] /\ M[1][1] = M[3][3] /\ IsFar(M[1][1])) => c.ret
            /\ (OffDiagFar(M) \/ IsFar(Sub(M[1][1], M[2][2])) \/ IsFar(Sub(M[1][1], M[3][3])) \/ IsZero(M[1][1])) => ~c.ret
      [] c.kind = "scale" ->
            /\ (OffDiagZero(M) /\ \A i \in I3 : IsFar(M[i][i])) => c.ret
            /\ (OffDiagFar(M) \/ \E i \in I3 : IsZero(M[i][i])) => ~c.ret
      [] c.kind = "int_translate" ->
            LET fx == Sub(M[1][3], ShlBits(FloorShr(M[1][3], FB), FB))
                fy == Sub(M[2][3], ShlBits(FloorShr(M[2][3], FB), FB))
                lin == <<M[1][2], M[2][1], M[3][1], M[3][2]>>
            IN /\ ((\A i \in I3 : M[i][i] = WOne) /\ (\A k \in 1..4 : IsZero(lin[k])) /\ IsZero(fx) /\ IsZero(fy)) => c.ret
               /\ ((\E i \in I3 : IsFar(Sub(M[i][i], WOne))) \/ (\E k \in 1..4 : IsFar(lin[k]))
                   \/ (IsFar(fx) /\ IsFar(Sub(WOne, fx))) \/ (IsFar(fy) /\ IsFar(Sub(WOne, fy)))) => ~c.ret
      [] c.kind = "inverse" ->
            LET S == MatMulExact(c.m, c.m2)                       \* units 2^-2FB
                one2 == Pow2(2 * FB)
                margin == ShlBits(Add(Far, FromInt(4)), FB)       \* Far + 4 units (per-term rounding: < 2 units)
            IN /\ (\A i \in I3, j \in I3 : S[i][j] = (IF i = j THEN one2 ELSE Zero)) => c.ret
               /\ ((\E i \in I3, j \in I3 : i # j /\ LE(margin, Abs(S[i][j])))
                   \/ LE(margin, Abs(Sub(S[1][1], S[2][2]))) \/ LE(margin, Abs(Sub(S[1][1], S[3][3])))
                   \/ IsZero(S[1][1])
                   \/ \E i \in I3, j \in I3 : LE(ShlBits(Add(Pow2(WB - 1), FromInt(4)), FB), Abs(S[i][j]))) => ~c.ret

-----------------------------------------------------------------------------
(* The postcondition of a call record, and the (trivial) state machine *)
Post(c, devs) ==
    CASE c.fn = "point"      -> PointPost(c.m, c.v, c.ret, c.o)
      [] c.fn = "point3d"    -> Point3dPost(c.m, c.v, c.ret, c.o)
      [] c.fn = "multiply"   -> MulRel(devs, c.m, c.m2, c.ret, c.o)
      [] c.fn = "scale"      -> ScalePost(devs, c)
      [] c.fn = "rotate"     -> RotatePost(devs, c)
      [] c.fn = "translate"  -> TranslatePost(devs, c)
      [] c.fn = "init"       -> InitPost(c)
      [] c.fn = "bounds"     -> BoundsPost(devs, c)
      [] c.fn = "invert"     -> InvertPost(devs, c.m, c.ret, c.o)
      [] c.fn = "from_f"     -> FromFPost(devs, c.f, c.ret, c.o)
      [] c.fn = "to_f"       -> ToFPost(c.m, c.fo)
      [] c.fn = "is"         -> PredPost(c)
      [] c.fn = "f_multiply" -> FMulPost(c.f, c.f2, c.fo)
      [] c.fn = "f_point3d"  -> FPoint3dPost(c.f, c.fv, c.fo)
      [] c.fn = "f_point"    -> FPointPost(c.f, c.fv, c.ret, c.fo)
      [] c.fn = "f_xform"    -> FXformPost(c)
      [] c.fn = "f_init"     -> FInitPost(c)
      [] c.fn = "f_invert"   -> FInvertPost(c.f, c.ret, c.fo)
      [] c.fn = "f_bounds"   -> FBoundsPost(c.f, c.bin, c.ret, c.bout)

Fns == {"point", "point3d", "multiply", "scale", "rotate", "translate", "init", "bounds", "invert", "from_f",
        "to_f", "is", "f_multiply", "f_point3d", "f_point", "f_xform", "f_init", "f_invert", "f_bounds"}

(* calls whose inputs lie outside what the statement covers (accepted without judgement) *)
Judged(c) ==
    CASE c.fn = "invert"     -> InvertJudged(c.m)
      [] c.fn = "from_f"     -> \A i \in I3, j \in I3 : c.f[i][j].fin
      [] c.fn = "init"       -> c.kind # "rotate" \/ InWord(Neg(c.q))
      [] c.fn = "f_multiply" -> GridMatOK(c.f) /\ GridMatOK(c.f2)
      [] c.fn \in {"f_point3d", "f_point"} -> GridMatOK(c.f) /\ GridVecOK(c.fv)
      [] c.fn \in {"f_invert", "f_bounds"} -> GridMatOK(c.f)
      [] c.fn = "f_xform"    -> OnGrid(c.p) /\ OnGrid(c.q) /\ (c.hf => GridMatOK(c.fin)) /\ (c.hr => GridMatOK(c.rin))
      [] c.fn = "f_init"     -> c.kind = "identity" \/ (OnGrid(c.p) /\ OnGrid(c.q))
      [] OTHER -> TRUE

HasRet(c) == "ret" \in DOMAIN c

LastOf(c) == [fn |-> c.fn, ret |-> IF HasRet(c) THEN c.ret ELSE TRUE]

Call(c, devs) ==
    /\ c.fn \in Fns
    /\ Post(c, devs)
    /\ last' = LastOf(c)

Init == last = [fn |-> "none", ret |-> TRUE]
=============================================================================
