----------------------------- MODULE Composite -----------------------------
(***************************************************************************)
(* Where a drawing request may write (C03) and what blt / fill /           *)
(* fill_boxes write (C19).                                                 *)
(*                                                                         *)
(* STATE                                                                   *)
(*   reg  : role -> Region value   clip region of the image in that role   *)
(*                                 ("dst", "src", "mask"); Region.tla      *)
(*   img  : role -> record         the other image properties the          *)
(*                                 statement of C03 talks about            *)
(*   mem  : buffer -> byte seq     the *whole allocation* that holds the   *)
(*                                 destination pixels ("dst"), its alpha   *)
(*                                 map ("alpha") and, for blt, the source  *)
(*                                 ("src"): guard bytes before/after the   *)
(*                                 image and the row padding are part of   *)
(*                                 it, so that "every other bit is         *)
(*                                 unchanged" is a statement about mem.    *)
(*                                                                         *)
(* STORAGE MODEL (little-endian host, as pixman's STORE_1/4/8/24 macros    *)
(* and the uint16/uint32 stores define it for !WORDS_BIGENDIAN): number    *)
(* the bits of the allocation LSB first, bit address p = 8 * byte + bit.   *)
(* Row y of a pixel array with geometry g = [bpp, stride, off] starts at   *)
(* bit RowBit0(g, y) = 8 * (off + y * stride) (stride in bytes, may be     *)
(* negative); pixel x of that row is the bpp bits starting at              *)
(* RowBit0 + x * bpp, least significant bit first.  This holds for         *)
(* bpp in {1, 4, 8, 16, 24, 32, 64, 96, 128}.                              *)
(***************************************************************************)
EXTENDS Region

VARIABLES img, mem

Bit(v, k) == (v \div (2 ^ k)) % 2

(* TLC: evaluate P as a Boolean value.  Inside an action TLC's successor enumeration otherwise   *)
(* descends into P and treats every disjunction under a universal quantifier as a separate way  *)
(* of taking the step (exponentially many identical successors).                                *)
AsValue(P) == IF P THEN TRUE ELSE FALSE

(* a 32-bit word is logged as <<hi16, lo16>> (TLC integers are 32-bit signed) *)
W32Bit(v, k) == IF k < 16 THEN Bit(v[2], k) ELSE Bit(v[1], k - 16)

BufBit(buf, p) == Bit(buf[(p \div 8) + 1], p % 8)

ByteOfBits(f) == f[0] + 2 * f[1] + 4 * f[2] + 8 * f[3] + 16 * f[4] + 32 * f[5] + 64 * f[6] + 128 * f[7]

RowBit0(g, y) == 8 * (g.off + y * g.stride)

-----------------------------------------------------------------------------
(* Pixel formats: bits per pixel and which bits of a pixel carry a channel.  *)
(* type/a/r/g/b exactly as PIXMAN_FORMAT(bpp, type, a, r, g, b) encodes them; *)
(* the layout per type is the one pixman-access.c implements.                *)

Fmt(bpp, type, a, r, g, b) == [bpp |-> bpp, type |-> type, a |-> a, r |-> r, g |-> g, b |-> b]

FormatInfo(name) ==
    CASE name = "a8r8g8b8" -> Fmt(32, "ARGB", 8, 8, 8, 8)
      [] name = "x8r8g8b8" -> Fmt(32, "ARGB", 0, 8, 8, 8)
      [] name = "a8b8g8r8" -> Fmt(32, "ABGR", 8, 8, 8, 8)
      [] name = "x8b8g8r8" -> Fmt(32, "ABGR", 0, 8, 8, 8)
      [] name = "b8g8r8a8" -> Fmt(32, "BGRA", 8, 8, 8, 8)
      [] name = "b8g8r8x8" -> Fmt(32, "BGRA", 0, 8, 8, 8)
      [] name = "r8g8b8a8" -> Fmt(32, "RGBA", 8, 8, 8, 8)
      [] name = "r8g8b8x8" -> Fmt(32, "RGBA", 0, 8, 8, 8)
      [] name = "x14r6g6b6" -> Fmt(32, "ARGB", 0, 6, 6, 6)
      [] name = "a2r10g10b10" -> Fmt(32, "ARGB", 2, 10, 10, 10)
      [] name = "x2r10g10b10" -> Fmt(32, "ARGB", 0, 10, 10, 10)
      [] name = "a2b10g10r10" -> Fmt(32, "ABGR", 2, 10, 10, 10)
      [] name = "x2b10g10r10" -> Fmt(32, "ABGR", 0, 10, 10, 10)
      [] name = "r8g8b8" -> Fmt(24, "ARGB", 0, 8, 8, 8)
      [] name = "b8g8r8" -> Fmt(24, "ABGR", 0, 8, 8, 8)
      [] name = "r5g6b5" -> Fmt(16, "ARGB", 0, 5, 6, 5)
      [] name = "b5g6r5" -> Fmt(16, "ABGR", 0, 5, 6, 5)
      [] name = "a1r5g5b5" -> Fmt(16, "ARGB", 1, 5, 5, 5)
      [] name = "x1r5g5b5" -> Fmt(16, "ARGB", 0, 5, 5, 5)
      [] name = "a4r4g4b4" -> Fmt(16, "ARGB", 4, 4, 4, 4)
      [] name = "x4b4g4r4" -> Fmt(16, "ABGR", 0, 4, 4, 4)
      [] name = "a8" -> Fmt(8, "A", 8, 0, 0, 0)
      [] name = "r3g3b2" -> Fmt(8, "ARGB", 0, 3, 3, 2)
      [] name = "a2r2g2b2" -> Fmt(8, "ARGB", 2, 2, 2, 2)
      [] name = "x4a4" -> Fmt(8, "A", 4, 0, 0, 0)
      [] name = "a4" -> Fmt(4, "A", 4, 0, 0, 0)
      [] name = "r1g2b1" -> Fmt(4, "ARGB", 0, 1, 2, 1)
      [] name = "a1r1g1b1" -> Fmt(4, "ARGB", 1, 1, 1, 1)
      [] name = "a1" -> Fmt(1, "A", 1, 0, 0, 0)
      [] name = "a8r8g8b8_sRGB" -> Fmt(32, "ARGB", 8, 8, 8, 8)       \* same layout; the colour -> pixel rule does not apply
      [] name = "a1b5g5r5" -> Fmt(16, "ABGR", 1, 5, 5, 5)
      [] name = "x1b5g5r5" -> Fmt(16, "ABGR", 0, 5, 5, 5)
      [] name = "x4r4g4b4" -> Fmt(16, "ARGB", 0, 4, 4, 4)
      [] name = "a4b4g4r4" -> Fmt(16, "ABGR", 4, 4, 4, 4)
      [] name = "b2g3r3" -> Fmt(8, "ABGR", 0, 3, 3, 2)
      [] name = "a2b2g2r2" -> Fmt(8, "ABGR", 2, 2, 2, 2)
      [] name = "b1g2r1" -> Fmt(4, "ABGR", 0, 1, 2, 1)
      [] name = "a1b1g1r1" -> Fmt(4, "ABGR", 1, 1, 1, 1)
      \* palette formats: the pixel is an index, every bit of it is significant
      [] name = "c8" -> Fmt(8, "INDEX", 0, 0, 0, 0)
      [] name = "g8" -> Fmt(8, "INDEX", 0, 0, 0, 0)
      [] name = "c4" -> Fmt(4, "INDEX", 0, 0, 0, 0)
      [] name = "g4" -> Fmt(4, "INDEX", 0, 0, 0, 0)
      [] name = "g1" -> Fmt(1, "INDEX", 0, 0, 0, 0)
      \* floating point formats: every bit of the pixel is significant
      [] name = "rgba_float" -> Fmt(128, "FLOAT", 32, 32, 32, 32)
      [] name = "rgb_float" -> Fmt(96, "FLOAT", 0, 32, 32, 32)

(* position (shift) of each channel inside the pixel, LSB = 0 *)
ChanShift(f, c) ==
    CASE f.type = "ARGB" -> (CASE c = "b" -> 0 [] c = "g" -> f.b [] c = "r" -> f.b + f.g [] c = "a" -> f.b + f.g + f.r)
      [] f.type = "ABGR" -> (CASE c = "r" -> 0 [] c = "g" -> f.r [] c = "b" -> f.r + f.g [] c = "a" -> f.r + f.g + f.b)
      [] f.type = "BGRA" -> (CASE c = "b" -> f.bpp - f.b [] c = "g" -> f.bpp - f.b - f.g
                               [] c = "r" -> f.bpp - f.b - f.g - f.r [] c = "a" -> f.bpp - f.b - f.g - f.r - f.a)
      [] f.type = "RGBA" -> (CASE c = "r" -> f.bpp - f.r [] c = "g" -> f.bpp - f.r - f.g
                               [] c = "b" -> f.bpp - f.r - f.g - f.b [] c = "a" -> f.bpp - f.r - f.g - f.b - f.a)
      [] f.type = "A"    -> 0
      [] OTHER -> 0
ChanWidth(f, c) == CASE c = "a" -> f.a [] c = "r" -> f.r [] c = "g" -> f.g [] c = "b" -> f.b

Chans(f) == IF f.type = "A" THEN {"a"} ELSE {"a", "r", "g", "b"}

(* the channel that owns bit k of a pixel, or "" for an unused (x) bit *)
ChanOfBit(f, k) ==
    LET cs == {c \in Chans(f) : ChanShift(f, c) <= k /\ k < ChanShift(f, c) + ChanWidth(f, c)} IN
    IF f.type \in {"FLOAT", "INDEX"} THEN "f" ELSE IF cs = {} THEN "" ELSE CHOOSE c \in cs : TRUE

(* colour -> pixel (color_to_pixel in pixman.c, restated): each channel takes the most     *)
(* significant bits of the HIGH BYTE of the 16-bit colour component.  col = [r, g, b, a].  *)
ColourComp(col, c) == CASE c = "r" -> col.r [] c = "g" -> col.g [] c = "b" -> col.b [] c = "a" -> col.a
ColourPixelBit(f, col, k) ==          \* defined for channel bits only, channel width <= 8
    LET c == ChanOfBit(f, k)
        n == ChanWidth(f, c)
        hi == ColourComp(col, c) \div 256
    IN  Bit(hi, (8 - n) + (k - ChanShift(f, c)))

(* formats for which pixman defines the colour -> pixel shortcut (color_to_pixel succeeds) *)
DirectFillFormats == {"a8r8g8b8", "x8r8g8b8", "a8b8g8r8", "x8b8g8r8", "b8g8r8a8", "b8g8r8x8",
                      "r8g8b8a8", "r8g8b8x8", "r5g6b5", "b5g6r5", "a8", "a1"}

-----------------------------------------------------------------------------
(* Raw rectangles of pixels (pixman_fill / pixman_blt): no image, no width.  *)

(* bit address ranges [lo, hi) of the h rows of the rectangle *)
RectSpans(g, x, y, w, h) ==
    [j \in 1..h |-> <<RowBit0(g, y + j - 1) + x * g.bpp, RowBit0(g, y + j - 1) + (x + w) * g.bpp>>]

SpansDisjoint(s) == \A j, k \in DOMAIN s : j < k => (s[j][2] <= s[k][1] \/ s[k][2] <= s[j][1])
SpansInside(s, buf) == \A j \in DOMAIN s : 0 <= s[j][1] /\ s[j][1] <= s[j][2] /\ s[j][2] <= 8 * Len(buf)

HitSpan(spans, i0) == {j \in DOMAIN spans : spans[j][1] < 8 * i0 + 8 /\ spans[j][2] > 8 * i0}

(* byte i0 (0-based) of the buffer after the rectangle has been set to the low bpp bits of v *)
FillByte(old, i0, spans, bpp, v) ==
    LET hit == HitSpan(spans, i0) IN
    IF hit = {} THEN old
    ELSE LET s == spans[CHOOSE j \in hit : TRUE] IN
         ByteOfBits([b \in 0..7 |-> LET p == 8 * i0 + b IN
                                    IF s[1] <= p /\ p < s[2] THEN W32Bit(v, (p - s[1]) % bpp) ELSE Bit(old, b)])

FillResult(buf, g, x, y, w, h, v) ==
    LET spans == RectSpans(g, x, y, w, h) IN
    [i \in DOMAIN buf |-> FillByte(buf[i], i - 1, spans, g.bpp, v)]

(* byte i0 of the destination after the rectangle has been copied from src *)
BltByte(old, i0, dspans, sspans, src) ==
    LET hit == HitSpan(dspans, i0) IN
    IF hit = {} THEN old
    ELSE LET j == CHOOSE k \in hit : TRUE
             d == dspans[j] IN
         ByteOfBits([b \in 0..7 |-> LET p == 8 * i0 + b IN
                                    IF d[1] <= p /\ p < d[2] THEN BufBit(src, sspans[j][1] + (p - d[1])) ELSE Bit(old, b)])

BltResult(dst, src, gd, gs, sx, sy, dx, dy, w, h) ==
    LET dspans == RectSpans(gd, dx, dy, w, h)
        sspans == RectSpans(gs, sx, sy, w, h) IN
    [i \in DOMAIN dst |-> BltByte(dst[i], i - 1, dspans, sspans, src)]

(* pixman_fill: TRUE and exactly the rectangle holds the low bpp bits of v, or FALSE and nothing changed. *)
(* Precondition (the caller's): w, h >= 0, the rows of the rectangle lie inside the buffer and do not overlap. *)
FillPre(g, x, y, w, h) ==
    LET s == RectSpans(g, x, y, w, h) IN AsValue(w >= 0 /\ h >= 0 /\ SpansInside(s, mem.dst) /\ SpansDisjoint(s))

Fill(g, x, y, w, h, v, ret) ==
    /\ FillPre(g, x, y, w, h)
    /\ mem' = [mem EXCEPT !.dst = IF ret THEN FillResult(@, g, x, y, w, h, v) ELSE @]
    /\ UNCHANGED <<img, reg>>

(* pixman_blt: TRUE (only possible when both depths agree) and exactly the rectangle is copied, or FALSE. *)
(* Source and destination are different buffers.                                                         *)
Blt(gs, gd, sx, sy, dx, dy, w, h, ret) ==
    /\ AsValue(w >= 0 /\ h >= 0 /\ SpansInside(RectSpans(gd, dx, dy, w, h), mem.dst)
                /\ SpansDisjoint(RectSpans(gd, dx, dy, w, h)))
    /\ AsValue(ret => (gs.bpp = gd.bpp /\ SpansInside(RectSpans(gs, sx, sy, w, h), mem.src)))
    /\ mem' = [mem EXCEPT !.dst = IF ret THEN BltResult(@, mem.src, gd, gs, sx, sy, dx, dy, w, h) ELSE @]
    /\ UNCHANGED <<img, reg>>

(* pixman_blt within ONE buffer (scrolling, packing or spreading the lines of a frame, flipping it about a line):  *)
(* source and destination rows are described over the same storage.  Precondition (the caller's): a source row is  *)
(* either the very destination row it is copied to, or touches no destination row at all - then the order in which *)
(* rows and bytes are copied cannot matter and "copies exactly the rectangle" has one meaning: every destination   *)
(* row holds what its source row held before the call.  TRUE with that effect, or FALSE and nothing changed.       *)
SpanApart(a, b) == a[2] <= b[1] \/ b[2] <= a[1] \/ a[1] = a[2] \/ b[1] = b[2]
BltInPlacePre(gs, gd, sx, sy, dx, dy, w, h) ==
    LET ds == RectSpans(gd, dx, dy, w, h)
        ss == RectSpans(gs, sx, sy, w, h) IN
    AsValue(/\ w >= 0 /\ h >= 0 /\ SpansInside(ds, mem.dst) /\ SpansDisjoint(ds) /\ SpansInside(ss, mem.dst)
            /\ \A j, k \in DOMAIN ds : (j = k /\ ss[j] = ds[k]) \/ SpanApart(ss[j], ds[k]))

BltInPlace(gs, gd, sx, sy, dx, dy, w, h, ret) ==
    /\ BltInPlacePre(gs, gd, sx, sy, dx, dy, w, h)
    /\ AsValue(ret => gs.bpp = gd.bpp)
    /\ mem' = [mem EXCEPT !.dst = IF ret THEN BltResult(@, mem.dst, gd, gs, sx, sy, dx, dy, w, h) ELSE @]
    /\ UNCHANGED <<img, reg>>

-----------------------------------------------------------------------------
(* Images: which bits of the allocation belong to which pixel.               *)
(* geometry of an image: g = [bpp, stride, off, w, h]                        *)

(* the row that owns byte i0 (a byte holding at least one pixel bit), or -1 (guard bytes, row padding) *)
RowOf(g, i0) ==
    LET ys == {y \in 0..(g.h - 1) : RowBit0(g, y) <= 8 * i0 /\ 8 * i0 < RowBit0(g, y) + g.w * g.bpp} IN
    IF ys = {} THEN -1 ELSE CHOOSE y \in ys : TRUE

(* bit b of byte i0 belongs to a pixel of the region R (list of rectangles) *)
BitInRegion(g, R, i0, b) ==
    LET y == RowOf(g, i0) IN
    /\ y >= 0
    /\ LET x == (8 * i0 + b - RowBit0(g, y)) \div g.bpp IN x < g.w /\ PointIn(R, x, y)

(* some pixel of R has a bit in byte i0 *)
ByteTouchesRegion(g, R, i0) ==
    LET y == RowOf(g, i0) IN
    /\ y >= 0
    /\ LET q == 8 * i0 - RowBit0(g, y) IN
       \E x \in (q \div g.bpp)..((q + 7) \div g.bpp) : x < g.w /\ PointIn(R, x, y)

(* FRAME CONDITION: every bit that differs between the two buffers belongs to a pixel of R. *)
FrameOK(before, after, g, R) ==
    /\ Len(before) = Len(after)
    /\ \A i \in DOMAIN before :
          \/ before[i] = after[i]
          \/ \A b \in 0..7 : Bit(before[i], b) = Bit(after[i], b) \/ BitInRegion(g, R, i - 1, b)

(* nothing may change at all *)
Untouched(before, after) == before = after

(* two buffers hold the same picture on R: they agree on every bit except unused (x) bits of pixels of R *)
SamePicture(p, q, g, f, R) ==
    /\ Len(p) = Len(q)
    /\ \A i \in DOMAIN p :
          \/ p[i] = q[i]
          \/ \A b \in 0..7 :
                \/ Bit(p[i], b) = Bit(q[i], b)
                \/ /\ BitInRegion(g, R, i - 1, b)
                   /\ ChanOfBit(f, (8 * (i - 1) + b - RowBit0(g, RowOf(g, i - 1))) % g.bpp) = ""

(* every pixel of R holds the pixel value of colour col (channel bits only) *)
HoldsColour(buf, g, f, R, col) ==
    \A i \in DOMAIN R : \A y \in R[i][2]..(R[i][4] - 1) : \A x \in R[i][1]..(R[i][3] - 1) :
        \A k \in 0..(g.bpp - 1) :
            ChanOfBit(f, k) = "" \/ BufBit(buf, RowBit0(g, y) + x * g.bpp + k) = ColourPixelBit(f, col, k)

-----------------------------------------------------------------------------
(* The composite region.                                                     *)

Inter(A, B) == BandOp("intersect", A, B)

RectOf(x, y, w, h) == IF w > 0 /\ h > 0 THEN <<(<<x, y, x + w, y + h>>)>> ELSE <<>>

Shift(L, tx, ty) == [i \in DOMAIN L |-> <<L[i][1] + tx, L[i][2] + ty, L[i][3] + tx, L[i][4] + ty>>]

(* image record: [present, w, h, hc (clip region set), cs (clip_sources), cc (client clip),      *)
(*                am (<<>> or <<[w, h, ox, oy]>>: alpha map and its origin)]                     *)
Bounds(im) == RectOf(0, 0, im.w, im.h)

(* a source's clip takes part only if it is set, enabled for sources and was set by a client *)
SourceClipOn(im) == im.present /\ im.hc /\ im.cs /\ im.cc

(* destination side of the intersection: bounds, clip, alpha-map bounds placed at the alpha origin *)
DestPart(im, clip) ==
    LET r0 == Bounds(im)
        r1 == IF im.hc THEN Inter(r0, clip) ELSE r0
    IN  IF im.am = <<>> THEN r1
        ELSE Inter(r1, RectOf(im.am[1].ox, im.am[1].oy, im.am[1].w, im.am[1].h))

(* source side, translated to destination space: (tx, ty) = (dest_x - src_x, dest_y - src_y) *)
ClipBySource(R, im, clip, tx, ty) == IF SourceClipOn(im) THEN Inter(R, Shift(clip, tx, ty)) ELSE R

(* The alpha map of a source or mask is part of that source: when the alpha-map image carries a clip that is itself *)
(* enabled for sources (set, clip_sources, client clip - all on the alpha-map image), it clips too, placed at the   *)
(* alpha origin.  amc = <<>> or <<[ox, oy, r]>> (records built without the field have none).                         *)
(* pixman consults the clip of a MASK's alpha map only when the mask has a clip region of its own (whatever its      *)
(* flags); the cases generated keep to that, so that nothing is demanded of the combination the statement leaves out. *)
AmClip(im) == IF "amc" \in DOMAIN im THEN im.amc ELSE <<>>
ClipByAlphaMap(R, im, tx, ty) ==
    IF im.present /\ AmClip(im) # <<>>
    THEN Inter(R, Shift(AmClip(im)[1].r, tx + AmClip(im)[1].ox, ty + AmClip(im)[1].oy))
    ELSE R

(* rq = [sx, sy, mx, my, dx, dy, w, h] *)
CompositeRegionOf(im, rg, rq) ==
    LET d  == Inter(RectOf(rq.dx, rq.dy, rq.w, rq.h), DestPart(im.dst, rg.dst.r))
        s  == ClipBySource(d, im.src, rg.src.r, rq.dx - rq.sx, rq.dy - rq.sy)
        s2 == ClipByAlphaMap(s, im.src, rq.dx - rq.sx, rq.dy - rq.sy)
        m  == ClipBySource(s2, im.mask, rg.mask.r, rq.dx - rq.mx, rq.dy - rq.my)
    IN  IF im.mask.hc THEN ClipByAlphaMap(m, im.mask, rq.dx - rq.mx, rq.dy - rq.my) ELSE m

CompositeRegion(rq) == CompositeRegionOf(img, reg, rq)

(* requests without a rectangle (glyphs without mask, trapezoids): the whole destination *)
WholeDest(sx, sy, dx, dy) ==
    [sx |-> sx - dx, sy |-> sy - dy, mx |-> 0, my |-> 0, dx |-> 0, dy |-> 0, w |-> img.dst.w, h |-> img.dst.h]

(* union of the per-box composite regions of fill_boxes (solid source: no source clip) *)
FillRegion(boxes) == Inter(Canon(boxes), DestPart(img.dst, reg.dst.r))

-----------------------------------------------------------------------------
(* Actions.  A drawing request may change mem.dst (and mem.alpha) only on R. *)

DstGeom == img.dst.g
AlphaGeom == img.dst.am[1].g

DrawsWithin(R) ==
    /\ AsValue(FrameOK(mem.dst, mem'.dst, DstGeom, R))
    /\ IF img.dst.am = <<>> THEN mem'.alpha = mem.alpha
       ELSE AsValue(FrameOK(mem.alpha, mem'.alpha, AlphaGeom, Shift(R, -img.dst.am[1].ox, -img.dst.am[1].oy)))
    /\ mem'.src = mem.src
    /\ UNCHANGED <<img, reg>>

Composite32(rq) == DrawsWithin(CompositeRegion(rq))

(* pixman_compute_composite_region: the region reported, and its return value *)
ComputeCompositeRegion(rq, ret, reported) ==
    /\ ret = (CompositeRegion(rq) # <<>>)
    /\ Canon(reported) = CompositeRegion(rq)
    /\ UNCHANGED <<img, reg, mem>>

(* The boxes may have ANY int32 coordinates (beyond what a composite request can carry, empty, inverted):   *)
(* FillRegion only compares coordinates, never subtracts them, so the region boxes /\ clip /\ image is    *)
(* exact for all of them; those pixels get op(colour, dest), nothing else changes.                        *)
(* pixman_image_fill_boxes(op, dest, colour, boxes): the result of compositing a solid image of that    *)
(* colour over each box; `ref' is the buffer obtained on a copy of the destination by that other route *)
FillBoxes(op, col, boxes, ref) ==
    LET R == FillRegion(boxes)
        f == FormatInfo(img.dst.fmt)
        opaque == col.a = 65535
        zero == [r |-> 0, g |-> 0, b |-> 0, a |-> 0]
    IN
    /\ DrawsWithin(R)
    /\ AsValue(FrameOK(mem.dst, ref, DstGeom, R))
    /\ AsValue(SamePicture(mem'.dst, ref, DstGeom, f, R))
    /\ AsValue((img.dst.fmt \in DirectFillFormats /\ op = "CLEAR") => HoldsColour(mem'.dst, DstGeom, f, R, zero))
    /\ AsValue((img.dst.fmt \in DirectFillFormats /\ op \in {"SRC", "OVER"} /\ opaque)
                   => HoldsColour(mem'.dst, DstGeom, f, R, col))

(* (re)configuration of the images: anything *)
Setup(newimg, newreg, newmem) == img' = newimg /\ reg' = newreg /\ mem' = newmem
=============================================================================
