------------------------------- MODULE Bounds -------------------------------
(***************************************************************************)
(* Memory footprint of a request (property C04).                           *)
(*                                                                         *)
(* What a TLA+ state can say about memory safety is which bytes a request  *)
(* is entitled to touch: the pixel storage of the participating images,    *)
(* [0, |stride| * height) relative to the lowest address of each.  The     *)
(* state is the set of images taking part in the request in progress and   *)
(* the accesses observed; the invariant is that every access lies inside   *)
(* the storage of the image it belongs to.                                 *)
(*                                                                         *)
(* The second half of the property is arithmetic: the library skips the    *)
(* per-sample bounds tests when it has established that every sample of    *)
(* the request falls inside the source ("samples cover clip").  Cover*     *)
(* transcribe that test (analyze_extent) and Footprint* give the pointwise *)
(* meaning; the model checker compares them on a scaled fixed-point grid   *)
(* (mc/BoundsMC), the trace specification evaluates the pointwise meaning  *)
(* at full resolution for the flags the library actually raised.           *)
(***************************************************************************)
EXTENDS Integers, Sequences, FiniteSets, TLC

(* ---- storage ---- *)
(* The caller describes rows: row r occupies the rb bytes (its pixels, rounded up to whole 32-bit words) starting  *)
(* at r * stride from the lowest address; the padding between rows and after the last row is NOT part of the      *)
(* image (it may belong to a larger surface of which the image is a window).  An accessed interval [lo, hi) is    *)
(* inside the storage iff it lies within the rows: with contiguous rows (stride = rb) anywhere below the end,     *)
(* otherwise within a single row's bytes.                                                                        *)
InsideStorage(iv, im) ==
    /\ 0 <= iv[1] /\ iv[1] <= iv[2] /\ iv[2] <= im.size
    /\ \/ iv[1] = iv[2]
       \/ im.stride = im.rb
       \/ /\ iv[1] \div im.stride = (iv[2] - 1) \div im.stride
          /\ (iv[2] - 1) % im.stride < im.rb

(* ---- positions: fixed point with One units per pixel (65536 in the library; small in the model) ---- *)
(* source position of the centre of destination pixel (x, y) under the affine part of matrix m,       *)
(* rounded to nearest unit exactly as the library does (one rounding of the half-pixel contribution)  *)
FloorDiv2(a) == a \div 2
PosX(m, x, y) == m[1] * x + m[2] * y + m[3] + FloorDiv2(m[1] + m[2] + 1)
PosY(m, x, y) == m[4] * x + m[5] * y + m[6] + FloorDiv2(m[4] + m[5] + 1)

NearestIndex(p, One) == (p - 1) \div One                 \* floor ((p - e) / 1.0)
BilinearLow(p, One)  == (p - One \div 2) \div One        \* floor ((p - 1/2) / 1.0); the other neighbour is + 1

NearestInside(p, size, One)  == LET i == NearestIndex(p, One) IN 0 <= i /\ i < size
BilinearInside(p, size, One) == LET i == BilinearLow(p, One) IN 0 <= i /\ i + 1 < size

(* an affine map takes its extreme values at the corners of a rectangle *)
Corners(x1, y1, x2, y2) == {<<x1, y1>>, <<x2 - 1, y1>>, <<x1, y2 - 1>>, <<x2 - 1, y2 - 1>>}

AllNearestInside(m, ext, sw, sh, One) ==
    \A c \in Corners(ext[1], ext[2], ext[3], ext[4]) :
        NearestInside(PosX(m, c[1], c[2]), sw, One) /\ NearestInside(PosY(m, c[1], c[2]), sh, One)
AllBilinearInside(m, ext, sw, sh, One) ==
    \A c \in Corners(ext[1], ext[2], ext[3], ext[4]) :
        BilinearInside(PosX(m, c[1], c[2]), sw, One) /\ BilinearInside(PosY(m, c[1], c[2]), sh, One)

(* ---- the same at full 16.16 resolution for coordinates beyond what a 32-bit product can hold ---- *)
(* TLC's integers are 32 bits wide; m * x with |m| <= 16.0 (2^20) and |x| up to 2^17 pixels needs up to 38.  The   *)
(* pixel index floor ((m1 * x + m2 * y + m3 + half + off) / 65536) is therefore evaluated in split form:           *)
(* x = 256 * xh + xl, y = 256 * yh + yl (0 <= xl, yl < 256), A = m1 * xh + m2 * yh, B = m1 * xl + m2 * yl:          *)
(*   sum = 256 * A + B + m3 + half + off                                                                           *)
(*       = 65536 * (A \div 256 + m3 \div 65536) + (A % 256) * 256 + B + m3 % 65536 + half + off                    *)
(* every intermediate value stays below 2^31 for |m1|, |m2| <= 2^20, |x|, |y| <= 2^17, any 32-bit m3.               *)
(* (mc/BoundsMC!SplitExact compares it with the direct evaluation wherever the latter fits.)                        *)
WideIndex(m1, m2, m3, x, y, off) ==
    LET xh == x \div 256   xl == x % 256
        yh == y \div 256   yl == y % 256
        A  == m1 * xh + m2 * yh
        B  == m1 * xl + m2 * yl
        half == FloorDiv2(m1 + m2 + 1)
    IN  (A \div 256) + (m3 \div 65536) + (((A % 256) * 256 + B + (m3 % 65536) + half + off) \div 65536)
WFits(m1, m2, x, y) ==
    LET abs(v) == IF v < 0 THEN -v ELSE v IN
    abs(m1) <= 1048576 /\ abs(m2) <= 1048576 /\ abs(x) <= 131072 /\ abs(y) <= 131072

(* nearest: floor ((p - e) / 1.0) inside; bilinear: floor ((p - 1/2) / 1.0) and its successor inside *)
WNearestInside(m1, m2, m3, x, y, size) ==
    LET i == WideIndex(m1, m2, m3, x, y, -1) IN 0 <= i /\ i < size
WBilinearInside(m1, m2, m3, x, y, size) ==
    LET i == WideIndex(m1, m2, m3, x, y, -32768) IN 0 <= i /\ i + 1 < size
WAllNearestInside(m, ext, sw, sh) ==
    \A c \in Corners(ext[1], ext[2], ext[3], ext[4]) :
        WNearestInside(m[1], m[2], m[3], c[1], c[2], sw) /\ WNearestInside(m[4], m[5], m[6], c[1], c[2], sh)
WAllBilinearInside(m, ext, sw, sh) ==
    \A c \in Corners(ext[1], ext[2], ext[3], ext[4]) :
        WBilinearInside(m[1], m[2], m[3], c[1], c[2], sw) /\ WBilinearInside(m[4], m[5], m[6], c[1], c[2], sh)

(* ---- dimensions converted to fixed point ---- *)
(* The library's scanline walkers convert the width / height of an image to fixed point (repeat arithmetic; the     *)
(* scaled main loops hand the scanline routine the END of the row and the position minus the width in fixed point,  *)
(* for every repeat mode).  In a word of 2 * Half units that conversion wraps for sizes >= Half / One pixels, which  *)
(* is why every request on a BITS image of >= Half / One - 1 pixels is refused, whatever its repeat mode.  The       *)
(* operators below state that addressing scheme on a word of arbitrary size (mc/BoundsMC checks it on a small one).  *)
WrapWord(v, Half) == ((v + Half) % (2 * Half)) - Half
IntToFixedW(i, One, Half) == WrapWord(i * One, Half)
(* pixel addressed for position vx (units) in a row of w pixels: row end + floor ((vx - fixed (w)) / 1.0) *)
EndRelativeIndex(w, vx, One, Half) == w + (WrapWord(vx - IntToFixedW(w, One, Half), Half) \div One)
=============================================================================
