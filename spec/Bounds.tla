------------------------------- MODULE Bounds -------------------------------
(***************************************************************************)
(* Memory footprint of a request (property C04).                           *)
(*                                                                         *)
(* What a TLA+ state can say about memory safety is which bytes a request  *)
(* is entitled to touch: the pixel storage of the participating images,    *)
(* [0, |stride| * height) relative to the lowest address of each.  The     *)
(* state is the set of images taking part in the request in progress and   *)
(* the accesses observed; the invariant is that every access lies inside   *)
(* the storage of the image it belongs to.                                 *)
(*                                                                         *)
(* The second half of the property is arithmetic: the library skips the    *)
(* per-sample bounds tests when it has established that every sample of    *)
(* the request falls inside the source ("samples cover clip").  Cover*     *)
(* transcribe that test (analyze_extent) and Footprint* give the pointwise *)
(* meaning; the model checker compares them on a scaled fixed-point grid   *)
(* (mc/BoundsMC), the trace specification evaluates the pointwise meaning  *)
(* at full resolution for the flags the library actually raised.           *)
(***************************************************************************)
EXTENDS Integers, Sequences, FiniteSets, TLC

(* ---- storage ---- *)
(* The caller describes rows: row r occupies the rb bytes (its pixels, rounded up to whole 32-bit words) starting  *)
(* at r * stride from the lowest address; the padding between rows and after the last row is NOT part of the      *)
(* image (it may belong to a larger surface of which the image is a window).  An accessed interval [lo, hi) is    *)
(* inside the storage iff it lies within the rows: with contiguous rows (stride = rb) anywhere below the end,     *)
(* otherwise within a single row's bytes.                                                                        *)
InsideStorage(iv, im) ==
    /\ 0 <= iv[1] /\ iv[1] <= iv[2] /\ iv[2] <= im.size
    /\ \/ iv[1] = iv[2]
       \/ im.stride = im.rb
       \/ /\ iv[1] \div im.stride = (iv[2] - 1) \div im.stride
          /\ (iv[2] - 1) % im.stride < im.rb

(* ---- positions: fixed point with One units per pixel (65536 in the library; small in the model) ---- *)
(* source position of the centre of destination pixel (x, y) under the affine part of matrix m,       *)
(* rounded to nearest unit exactly as the library does (one rounding of the half-pixel contribution)  *)
FloorDiv2(a) == a \div 2
PosX(m, x, y) == m[1] * x + m[2] * y + m[3] + FloorDiv2(m[1] + m[2] + 1)
PosY(m, x, y) == m[4] * x + m[5] * y + m[6] + FloorDiv2(m[4] + m[5] + 1)

NearestIndex(p, One) == (p - 1) \div One                 \* floor ((p - e) / 1.0)
BilinearLow(p, One)  == (p - One \div 2) \div One        \* floor ((p - 1/2) / 1.0); the other neighbour is + 1

NearestInside(p, size, One)  == LET i == NearestIndex(p, One) IN 0 <= i /\ i < size
BilinearInside(p, size, One) == LET i == BilinearLow(p, One) IN 0 <= i /\ i + 1 < size

(* an affine map takes its extreme values at the corners of a rectangle *)
Corners(x1, y1, x2, y2) == {<<x1, y1>>, <<x2 - 1, y1>>, <<x1, y2 - 1>>, <<x2 - 1, y2 - 1>>}

AllNearestInside(m, ext, sw, sh, One) ==
    \A c \in Corners(ext[1], ext[2], ext[3], ext[4]) :
        NearestInside(PosX(m, c[1], c[2]), sw, One) /\ NearestInside(PosY(m, c[1], c[2]), sh, One)
AllBilinearInside(m, ext, sw, sh, One) ==
    \A c \in Corners(ext[1], ext[2], ext[3], ext[4]) :
        BilinearInside(PosX(m, c[1], c[2]), sw, One) /\ BilinearInside(PosY(m, c[1], c[2]), sh, One)
=============================================================================
