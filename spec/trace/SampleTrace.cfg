SPECIFICATION TSpec
CONSTANT Deviations = {}
POSTCONDITION TraceAccepted
