SPECIFICATION TSpec
CONSTANT Deviations = {"C08-solid-ignores-kernel-gain"}
POSTCONDITION TraceAccepted
