SPECIFICATION TSpec
CONSTANTS
  Fixed1 = 65536
  EnabledDeviations = {"stale", "exact0", "backstep", "wrap"}
POSTCONDITION TraceAccepted
