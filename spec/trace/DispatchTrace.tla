---------------------------- MODULE DispatchTrace ----------------------------
(* Trace specification for fast path selection and cross-implementation agreement (C02, C16).  *)
(* Events (harness/drv_dispatch.c; Lookup/Dispatch/Validate come from the hooks in the library): *)
(*   Reset                new process / configuration: caches empty, tables unknown              *)
(*   Tables imps any_op any_fmt   the chain and fast path tables of the running library          *)
(*   Spawn tid / Join tid                                                                        *)
(*   Shared imgs          addresses of the source images shared by all threads (already used once) *)
(*   Lookup tid cache hit imp func op sf mf df sfl mfl dfl                                        *)
(*   Validate tid img dirty                                                                      *)
(*   Dispatch ...         (not judged here; C09 reads it)                                        *)
(*   Res req kind ret bytes [before]   result of request number req                              *)
(* Obligations:                                                                                  *)
(*   Lookup   the chosen (implementation, function) is an entry of the dumped tables that        *)
(*            matches the key; a cache address belongs to exactly one thread.  Whether the        *)
(*            answer is the first match and the hit index the one of the MRU policy of           *)
(*            Dispatch.tla is reported, not required.                                            *)
(*   Validate a worker thread never finds a shared image dirty (it would write it).              *)
(*   RefShared a worker thread never changes the reference count of a shared image.              *)
(*   Res      every execution of request req -- under any configuration, from any thread -- leaves *)
(*            the same bytes (ref persists across Reset); pixman_fill / pixman_blt: the same      *)
(*            bytes as every other successful execution, or FALSE and the buffer untouched.      *)
EXTENDS Dispatch, Threads, TraceIO, SequencesExt

VARIABLES l, tables, anyOp, anyFmt,
          caches,     \* cache address -> cache contents under the most-recently-used policy of Dispatch.tla
          mru,        \* TRUE while every lookup so far is the one the policy of Dispatch.tla predicts (informational)
          owner,      \* cache address -> tid
          shared,     \* set of shared image addresses
          livethr,    \* set of live worker threads
          acc,        \* Threads.tla access log of the worker threads (all alive side by side): cache cells, and the
                      \* dirty / derived / refs cells of the shared images
          ref         \* req -> bytes of the first execution seen (persists across configurations)

tvars == <<l, tables, anyOp, anyFmt, caches, mru, owner, shared, livethr, acc, ref>>

Ev == TraceLog[l]
Is(e) == l <= TraceLen /\ TraceLog[l].e = e
Adv == l' = l + 1
SetOf(s) == {s[i] : i \in DOMAIN s}

Entry(e) == [op |-> e.op, sf |-> e.sf, mf |-> e.mf, df |-> e.df,
             sfl |-> SetOf(e.sfl), mfl |-> SetOf(e.mfl), dfl |-> SetOf(e.dfl), func |-> e.func]
KeyOf(e) == [op |-> e.op, sf |-> e.sf, mf |-> e.mf, df |-> e.df,
             sfl |-> SetOf(e.sfl), mfl |-> SetOf(e.mfl), dfl |-> SetOf(e.dfl)]

TReset == /\ Is("Reset")
          /\ tables' = <<>> /\ anyOp' = 0 /\ anyFmt' = <<>> /\ caches' = <<>> /\ mru' = mru /\ owner' = <<>>
          /\ shared' = {} /\ livethr' = {} /\ acc' = NoAccess /\ UNCHANGED ref /\ Adv

TTables == /\ Is("Tables")
           /\ tables' = [i \in DOMAIN Ev.imps |-> [j \in DOMAIN Ev.imps[i] |-> Entry(Ev.imps[i][j])]]
           /\ anyOp' = Ev.any_op /\ anyFmt' = Ev.any_fmt
           /\ UNCHANGED <<caches, mru, owner, shared, livethr, acc, ref>> /\ Adv

TSpawn == /\ Is("Spawn") /\ livethr' = livethr \cup {Ev.tid}
          /\ UNCHANGED <<tables, anyOp, anyFmt, caches, mru, owner, shared, acc, ref>> /\ Adv
TJoin  == /\ Is("Join") /\ livethr' = livethr \ {Ev.tid}
          /\ UNCHANGED <<tables, anyOp, anyFmt, caches, mru, owner, shared, acc, ref>> /\ Adv
TShared == /\ Is("Shared") /\ shared' = SetOf(Ev.imgs)
           /\ UNCHANGED <<tables, anyOp, anyFmt, caches, mru, owner, livethr, acc, ref>> /\ Adv

(* The fast-path cache is judged at the level the properties state (C02: the same pixels whichever implementation *)
(* serves; C16: no interference between threads).  Every table entry must be correct for every key it matches - the  *)
(* order of the tables and the cache only decide which of the correct routines is preferred - so, whatever the size, *)
(* layout, replacement policy and key comparison of the cache:                                                       *)
(*   - the routine returned for a key is that of an entry, in the implementation returned, which MATCHES the key     *)
(*     (a routine handed a request its entry does not describe is what changes pixels);                              *)
(*   - a cache belongs to one thread and a thread has one cache.                                                     *)
(* That the pixels do not depend on the choice is judged on the Res events.  The policy of the current code          *)
(* (Dispatch.tla: first match in chain order behind a most-recently-used cache compared by key equality) is tracked  *)
(* next to it and a departure from it is reported, not rejected: `mru` = every hit index so far is the one that      *)
(* policy predicts and every answer the first match.                                                                 *)
ServedBy(imp, func, key) ==
    /\ imp \in DOMAIN tables
    /\ \E j \in DOMAIN tables[imp] : tables[imp][j].func = func /\ Matches(tables[imp][j], key, anyOp, anyFmt)

TLookup ==
    /\ Is("Lookup")
    /\ LET a == Ev.cache
           c == IF a \in DOMAIN caches THEN caches[a] ELSE <<>>
           key == KeyOf(Ev)
           exact == /\ mru
                    /\ Ev.hit = HitIndex(c, key) - 1
                    /\ <<Ev.imp, Ev.func>> = TableWalk(tables, key, anyOp, anyFmt)
       IN  /\ (a \in DOMAIN owner) => owner[a] = Ev.tid                    \* one cache per thread ...
           /\ \A b \in DOMAIN owner : owner[b] = Ev.tid => b = a             \* ... and one thread per cache
           /\ Ev.imp # 0
           /\ ServedBy(Ev.imp, Ev.func, key)
           /\ mru' = exact
           /\ (mru /\ ~exact) => PrintT(<<"VF:policy", "first-match/MRU", l>>)
           /\ caches' = IF exact THEN (a :> LookupCache(c, tables, key, anyOp, anyFmt)) @@ caches ELSE caches
           /\ owner' = (a :> Ev.tid) @@ owner
           /\ acc' = IF Ev.tid # 0 THEN LogLookup(acc, Ev.tid, a) ELSE acc
           /\ ~RacedCell(acc', <<"cache", a>>)               \* Threads.tla: no cache cell is touched by two workers
    /\ UNCHANGED <<tables, anyOp, anyFmt, shared, livethr, ref>> /\ Adv

TValidate == /\ Is("Validate")
             /\ (Ev.tid # 0 /\ Ev.img \in shared) => ~Ev.dirty
             /\ acc' = IF Ev.tid # 0 /\ Ev.img \in shared THEN LogValidate(acc, Ev.tid, Ev.img, Ev.dirty) ELSE acc
             /\ ~RacedCell(acc', <<"dirty", Ev.img>>) /\ ~RacedCell(acc', <<"derived", Ev.img>>)
             /\ UNCHANGED <<tables, anyOp, anyFmt, caches, mru, owner, shared, livethr, ref>> /\ Adv

(* a change of the reference count of a shared image (hook H4, reported for shared images only) is a write to  *)
(* that image: only the main thread may do it                                                                  *)
TRefShared == /\ Is("RefShared") /\ Ev.tid = 0
              /\ acc' = IF Ev.tid # 0 THEN LogRef(acc, Ev.tid, Ev.img) ELSE acc
              /\ ~RacedCell(acc', <<"refs", Ev.img>>)
              /\ UNCHANGED <<tables, anyOp, anyFmt, caches, mru, owner, shared, livethr, ref>> /\ Adv

TDispatch == /\ Is("Dispatch")
             /\ UNCHANGED <<tables, anyOp, anyFmt, caches, mru, owner, shared, livethr, acc, ref>> /\ Adv

TRes ==
    /\ Is("Res")
    /\ LET r == Ev.req IN
       IF Ev.kind = "C"
       THEN /\ (r \in DOMAIN ref) => Ev.bytes = ref[r]
            /\ ref' = IF r \in DOMAIN ref THEN ref ELSE (r :> Ev.bytes) @@ ref
       ELSE \* pixman_fill / pixman_blt
            IF Ev.ret
            THEN /\ (r \in DOMAIN ref) => Ev.bytes = ref[r]
                 /\ ref' = IF r \in DOMAIN ref THEN ref ELSE (r :> Ev.bytes) @@ ref
            ELSE /\ Ev.bytes = Ev.before
                 /\ UNCHANGED ref
    /\ UNCHANGED <<tables, anyOp, anyFmt, caches, mru, owner, shared, livethr, acc>> /\ Adv

TInit == /\ l = 1 /\ tables = <<>> /\ anyOp = 0 /\ anyFmt = <<>> /\ caches = <<>> /\ mru = TRUE /\ owner = <<>>
         /\ shared = {} /\ livethr = {} /\ acc = NoAccess /\ ref = <<>>
TNext == TReset \/ TTables \/ TSpawn \/ TJoin \/ TShared \/ TLookup \/ TValidate \/ TRefShared \/ TDispatch \/ TRes
TSpec == TInit /\ [][TNext]_tvars
=============================================================================
