SPECIFICATION TSpec
CONSTANTS
  Img = {1}
  GKeys = {1}
  MaxHeld = 1
  Bugs = {}
POSTCONDITION ImageAccepted
