SPECIFICATION TSpec
CONSTANT CHECKS = {"c19"}
CONSTANT Deviations = {}
POSTCONDITION TraceAccepted
