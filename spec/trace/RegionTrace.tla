---------------------------- MODULE RegionTrace ----------------------------
(* Trace specification for pixman_region16_* / pixman_region32_* (C05, C06, C07, and  *)
(* the region part of C15).  One NDJSON line per API call, logged by harness/          *)
(* drv_region.c after the call returned:                                               *)
(*   Reset                         new execution: every pool variable is pixman_region_init'ed *)
(*   Op  w op d a b box boxes dx dy rows ret nfail st                                   *)
(*        st = state of all six pool variables after the call (1..3: 16 bit, 4..6: 32) *)
(*        each [r |-> rectangles(), x |-> extents(), sc |-> selfcheck(), ne |-> not_empty(), n |-> n_rects()] *)
(*   Q   w q a b x y box ret rbox                                                       *)
(* CHECKS selects which property's conjuncts are judged; where an observation is not   *)
(* judged it is adopted as the new abstract state, so that each property is attributed *)
(* only its own failures:                                                              *)
(*   "set"   C05  results of the algebra operations denote the required point set; ret *)
(*   "canon" C06  every region returned is canonical, extents tight, equal() is set equality *)
(*   "query" C07  contains_point/rectangle, not_empty, n_rects, extents, translate, init_from_image *)
(*   "fault" C15  calls during which an allocation failed: correct result or Broken+FALSE *)
EXTENDS Region, TraceIO

CONSTANTS CHECKS,        \* which property's conjuncts are judged
          Deviations     \* ids of known findings (named deviation actions) that are tolerated and reported

VARIABLE l

Vars == 1..6
WidthOf(v) == IF v <= 3 THEN 16 ELSE 32

Rect(b) == <<b[1], b[2], b[3], b[4]>>
RectList(bs) == [i \in DOMAIN bs |-> Rect(bs[i])]

ObsBroken(o) == o.n = 0 /\ ~o.sc
ObsVal(o) == IF ObsBroken(o) THEN Broken ELSE Val(Canon(RectList(o.r)))
ObsState(ev) == [v \in Vars |-> ObsVal(ev.st[v])]

AlgebraOps == {"union", "intersect", "subtract", "inverse", "union_rect", "intersect_rect", "copy",
               "reset", "clear", "init_rects", "init_rect", "init", "init_with_extents", "conv"}
MoveOps == {"translate", "from_image"}
VoidOps == {"translate", "from_image", "reset", "clear", "init", "init_rect", "init_with_extents"}

(* the specification's result of the call described by event ev, as a next-state relation on reg *)
Apply(ev) ==
    LET op == ev.op  d == ev.d  w == ev.w IN
    CASE op = "union"          -> RgUnion(d, ev.a, ev.b)
      [] op = "intersect"      -> RgIntersect(d, ev.a, ev.b)
      [] op = "subtract"       -> RgSubtract(d, ev.a, ev.b)
      [] op = "inverse"        -> RgInverse(d, ev.a, Rect(ev.box))
      [] op = "union_rect"     -> RgUnionRect(d, ev.a, Rect(ev.box))
      [] op = "intersect_rect" -> RgIntersectRect(d, ev.a, Rect(ev.box))
      [] op = "copy"           -> RgCopy(d, ev.a)
      [] op = "conv"           -> RgCopy(d, ev.a)       \* 16 <-> 32 conversion, coordinates in range
      [] op = "reset"          -> RgReset(d, Rect(ev.box))
      [] op = "clear"          -> RgClear(d)
      [] op = "init"           -> RgClear(d)
      [] op = "init_rect"      -> RgInitRects(d, <<Rect(ev.box)>>)
      [] op = "init_with_extents" -> RgInitRects(d, <<Rect(ev.box)>>)
      [] op = "init_rects"     -> RgInitRects(d, RectList(ev.boxes))
      [] op = "translate"      -> RgTranslate(d, ev.dx, ev.dy, w)
      [] op = "from_image"     -> RgInitFromImage(d, ev.rows)

CanonOK(o) ==
    ObsBroken(o) \/
    LET L == RectList(o.r) IN
    /\ IsCanonical(L)
    /\ IsCanonStruct(L)
    /\ ExtentsOK(L, Rect(o.x))
    /\ o.sc                      \* includes: a single rectangle is stored without a list
    /\ o.n = Len(L)

DescribeOK(o, val) ==           \* not_empty, n_rects, extents describe the set
    val.b \/ (/\ o.ne = (val.r # <<>>)
              /\ o.n = Len(val.r)
              /\ ExtentsOK(val.r, Rect(o.x)))

TReset ==
    /\ l <= TraceLen /\ TraceLog[l].e = "Reset"
    /\ reg' = [v \in Vars |-> Empty]
    /\ l' = l + 1

TOp ==
    /\ l <= TraceLen /\ TraceLog[l].e = "Op"
    /\ LET ev == TraceLog[l]
           obs == ObsState(ev)
           faulty == ev.nfail > 0
           judged == ~faulty /\ (\/ ("set" \in CHECKS /\ ev.op \in AlgebraOps)
                                 \/ ("query" \in CHECKS /\ ev.op \in MoveOps))
       IN
       /\ reg' = obs                  \* adopt what the library holds (as a point set) ...
       \* ... which, where judged, must be what the specification requires (Apply is evaluated
       \* with reg' already fixed, i.e. as a comparison), every other variable unchanged
       /\ IF judged THEN ev.ret /\ Apply(ev) ELSE TRUE
       /\ IF "fault" \in CHECKS
          THEN IF faulty
               THEN \/ ev.ret /\ Apply(ev)                                 \* completed correctly
                    \* reported (functions returning void cannot report); result is the broken region
                    \/ (~ev.ret \/ ev.op \in VoidOps) /\ obs = [reg EXCEPT ![ev.d] = Broken]
                    \* known finding C15-conv-nomem-dst-untouched: a 16<->32 conversion that cannot allocate its
                    \* temporary array reports failure but leaves the destination as it was
                    \/ /\ ev.op = "conv" /\ ~ev.ret /\ obs = reg
                       /\ "C15-conv-nomem-dst-untouched" \in Deviations
                       /\ Deviation("C15-conv-nomem-dst-untouched", l)
               ELSE \* no failure inside this call: the specification's result, broken operands propagate
                    \/ Apply(ev) /\ (ev.ret \/ \E v \in {ev.d, ev.a, ev.b} \ {0} : reg[v].b)
                    \* known finding C15-conv-drops-broken: converting a broken region yields an empty one
                    \/ /\ ev.op = "conv" /\ reg[ev.a].b /\ ev.ret /\ obs = [reg EXCEPT ![ev.d] = Empty]
                       /\ "C15-conv-drops-broken" \in Deviations
                       /\ Deviation("C15-conv-drops-broken", l)
          ELSE TRUE
       \* "= TRUE": evaluated as state predicates (in action mode TLC splits disjunctions under quantifiers)
       /\ (("canon" \in CHECKS) => \A v \in Vars : CanonOK(ev.st[v])) = TRUE
       /\ (("query" \in CHECKS /\ ~faulty) => \A v \in Vars : DescribeOK(ev.st[v], obs[v])) = TRUE
       \* Broken appears only through an allocation failure or a broken operand
       /\ (~faulty /\ ~(\E v \in Vars : reg[v].b)) => ~(\E v \in Vars : obs[v].b)
    /\ l' = l + 1

ClassName(n) == CASE n = 0 -> "OUT" [] n = 1 -> "IN" [] n = 2 -> "PART" [] OTHER -> "?"

TQuery ==
    /\ l <= TraceLen /\ TraceLog[l].e = "Q"
    /\ LET ev == TraceLog[l]  A == reg[ev.a] IN
       \/ A.b                                 \* queries on a broken region are not judged
       \/ ~A.b /\
          CASE ev.q = "equal" ->
                  ("canon" \in CHECKS /\ ~reg[ev.b].b) => (ev.ret = (A.r = reg[ev.b].r))
            [] ev.q = "cpoint" ->
                  ("query" \in CHECKS) =>
                     /\ ev.ret = PointIn(A.r, ev.x, ev.y)
                     /\ ev.ret => Rect(ev.rbox) = MemberBox(A.r, ev.x, ev.y)
            [] ev.q = "crect" ->
                  ("query" \in CHECKS) => ClassName(ev.ret) = RectClass(A.r, Rect(ev.box))
            [] OTHER -> FALSE
    /\ UNCHANGED reg
    /\ l' = l + 1

TInit == reg = [v \in Vars |-> Empty] /\ l = 1
TNext == TReset \/ TOp \/ TQuery
TSpec == TInit /\ [][TNext]_<<reg, l>>
=============================================================================
