SPECIFICATION TSpec
CONSTANTS
  Img = {1, 2, 3}
  GKeys = {1, 2}
  MaxHeld = 3
  Bugs = {}
POSTCONDITION LifeAccepted
