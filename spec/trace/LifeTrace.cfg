SPECIFICATION TSpec
CONSTANTS
  Img = {1, 2, 3}
  GKeys = {1, 2, 3, 4, 5, 6}
  MaxHeld = 3
  Bugs = {}
POSTCONDITION LifeAccepted
