SPECIFICATION TSpec
CONSTANTS
  Img = {1, 2, 3}
  GKeys = {1, 2, 3, 4, 5, 6, 7, 8, 9, 10, 11, 12, 13, 14, 15}
  MaxHeld = 3
  Bugs = {}
POSTCONDITION LifeAccepted
