----------------------------- MODULE PixmanTrace -----------------------------
(* Trace specification of the root module.  Events (harness/drv_pipeline.c): Reset, RegOp v rects (the region   *)
(* variable after a region call: adopted -- the algebra itself is judged by C05-C07), Img id w h fmt px,         *)
(* Solid id col, SetClip id v, SrcClip id on, SetRepeat id rep, SetTranslation id tx ty, SetCA id on, Ref id,    *)
(* SetAlphaMap id a ax ay, Unref id gone, Comp op s m d sx sy mx my dx dy w h after, Fill op d col boxes after.                          *)
(* Obligations: after a composite / fill the destination holds, on the bits its format defines,                 *)
(* CompositeResult / FillResult pixel for pixel - the request reaches exactly the composite region with         *)
(* exactly the operator's value, sampled where translation, repeat and format say; pixman_image_unref reports    *)
(* "gone" exactly when the count the specification keeps reaches zero.                                           *)
EXTENDS Pixman, TraceIO

VARIABLE l
tvars == <<l, reg, img>>
Ev == TraceLog[l]
Is(e) == l <= TraceLen /\ TraceLog[l].e = e
Adv == l' = l + 1
RectList(bs) == [i \in DOMAIN bs |-> <<bs[i][1], bs[i][2], bs[i][3], bs[i][4]>>]
Pixels(px) == [i \in DOMAIN px |-> <<px[i][1], px[i][2], px[i][3], px[i][4]>>]
Drop(i) == [j \in DOMAIN img \ {i} |-> img[j]]
SamePicture(fmt, a, b) == \A i \in DOMAIN a : Defined(fmt, a[i]) = Defined(fmt, b[i])

TReset == /\ Is("Reset") /\ reg' = [v \in 0..3 |-> Empty] /\ img' = <<>> /\ Adv
TRegOp == /\ Is("RegOp") /\ reg' = [reg EXCEPT ![Ev.v] = Val(Canon(RectList(Ev.rects)))] /\ UNCHANGED img /\ Adv
TImg == /\ Is("Img")
        /\ img' = (Ev.id :> Bits(Ev.fmt, Ev.w, Ev.h, Pixels(Ev.px))) @@ Drop(Ev.id)
        /\ UNCHANGED reg /\ Adv
TSolid == /\ Is("Solid")
          /\ img' = (Ev.id :> Solid(<<Ev.col[1], Ev.col[2], Ev.col[3], Ev.col[4]>>)) @@ Drop(Ev.id)
          /\ UNCHANGED reg /\ Adv
TSetClip == /\ Is("SetClip") /\ (IF Ev.v = 0 THEN ClearClip(Ev.id) ELSE SetClip(Ev.id, Ev.v)) /\ Adv
TSrcClip == /\ Is("SrcClip") /\ SetSourceClipping(Ev.id, Ev.on) /\ Adv
TSetRepeat == /\ Is("SetRepeat") /\ SetRepeat(Ev.id, Ev.rep) /\ Adv
TSetTranslation == /\ Is("SetTranslation") /\ SetTranslation(Ev.id, Ev.tx, Ev.ty) /\ Adv
TSetCA == /\ Is("SetCA") /\ SetComponentAlpha(Ev.id, Ev.on) /\ Adv
TRef == /\ Is("Ref") /\ Ref(Ev.id) /\ Adv
TSetAlphaMap == /\ Is("SetAlphaMap") /\ SetAlphaMap(Ev.id, Ev.a, Ev.ax, Ev.ay) /\ Adv
TUnref == /\ Is("Unref") /\ Unref(Ev.id, Ev.gone) /\ Adv
TComp == /\ Is("Comp")
         /\ Live(Ev.s) /\ Live(Ev.d) /\ (Ev.m = 0 \/ Live(Ev.m))
         /\ img' = [img EXCEPT ![Ev.d].px = Pixels(Ev.after)]            \* what the library left ...
         /\ (SamePicture(img[Ev.d].fmt, Pixels(Ev.after),                  \* ... is what the specification requires
                         CompositeResult(Ev.op, img[Ev.s], MaskOf(Ev.m), img[Ev.d], Ev.sx, Ev.sy, Ev.mx, Ev.my,
                                         Ev.dx, Ev.dy, Ev.w, Ev.h))) = TRUE
         /\ UNCHANGED reg /\ Adv
TFill == /\ Is("Fill")
         /\ Live(Ev.d)
         /\ img' = [img EXCEPT ![Ev.d].px = Pixels(Ev.after)]
         /\ (SamePicture(img[Ev.d].fmt, Pixels(Ev.after),
                         FillResult(Ev.op, <<Ev.col[1], Ev.col[2], Ev.col[3], Ev.col[4]>>, img[Ev.d], RectList(Ev.boxes)))) = TRUE
         /\ UNCHANGED reg /\ Adv

TInit == l = 1 /\ reg = [v \in 0..3 |-> Empty] /\ img = <<>>
TNext == TReset \/ TRegOp \/ TImg \/ TSolid \/ TSetClip \/ TSrcClip \/ TSetRepeat \/ TSetTranslation \/ TSetCA
         \/ TRef \/ TUnref \/ TSetAlphaMap \/ TComp \/ TFill
TSpec == TInit /\ [][TNext]_tvars
=============================================================================
