----------------------------- MODULE PixmanTrace -----------------------------
(* Trace specification of the root module: a region built by region calls, attached as a clip, consumed by a  *)
(* composite.  Events (harness/drv_pipeline.c): Reset, RegOp v rects (the region variable after a region      *)
(* call: adopted -- the algebra itself is judged by C05-C07), Img id w h px, SetClip id v, SrcClip id on,      *)
(* Comp op s d sx sy dx dy w h after.  Obligation: after = CompositeResult(...) pixel for pixel, i.e. the      *)
(* request reaches exactly the composite region with exactly the operator's value.                            *)
EXTENDS Pixman, TraceIO

VARIABLE l
tvars == <<l, reg, img>>
Ev == TraceLog[l]
Is(e) == l <= TraceLen /\ TraceLog[l].e = e
Adv == l' = l + 1
RectList(bs) == [i \in DOMAIN bs |-> <<bs[i][1], bs[i][2], bs[i][3], bs[i][4]>>]
Pixels(px) == [i \in DOMAIN px |-> <<px[i][1], px[i][2], px[i][3], px[i][4]>>]

TReset == /\ Is("Reset") /\ reg' = [v \in 0..3 |-> Empty] /\ img' = <<>> /\ Adv
TRegOp == /\ Is("RegOp") /\ reg' = [reg EXCEPT ![Ev.v] = Val(Canon(RectList(Ev.rects)))] /\ UNCHANGED img /\ Adv
TImg == /\ Is("Img")
        /\ img' = (Ev.id :> [w |-> Ev.w, h |-> Ev.h, px |-> Pixels(Ev.px), clip |-> NoClip, srcclip |-> FALSE]) @@ img
        /\ UNCHANGED reg /\ Adv
TSetClip == /\ Is("SetClip") /\ (IF Ev.v = 0 THEN ClearClip(Ev.id) ELSE SetClip(Ev.id, Ev.v)) /\ Adv
TSrcClip == /\ Is("SrcClip") /\ SetSourceClipping(Ev.id, Ev.on) /\ Adv
TComp == /\ Is("Comp")
         /\ img' = [img EXCEPT ![Ev.d].px = Pixels(Ev.after)]            \* what the library left ...
         /\ Composite(Ev.op, Ev.s, Ev.d, Ev.sx, Ev.sy, Ev.dx, Ev.dy, Ev.w, Ev.h)   \* ... is what the specification requires
         /\ Adv

TInit == l = 1 /\ reg = [v \in 0..3 |-> Empty] /\ img = <<>>
TNext == TReset \/ TRegOp \/ TImg \/ TSetClip \/ TSrcClip \/ TComp
TSpec == TInit /\ [][TNext]_tvars
=============================================================================
