SPECIFICATION TSpec
CONSTANT CacheSize = 8
POSTCONDITION TraceAccepted
