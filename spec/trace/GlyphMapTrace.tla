---------------------------- MODULE GlyphMapTrace ----------------------------
(* Trace specification for the library with its real constants (C17; HIGH = 16384,         *)
(* LOW = 8192, 32768 slots): traces of harness/drv_glyph.c without table dumps are         *)
(* validated against GlyphMap.tla -- the statement's map + LRU order -- and glyph drawing  *)
(* against the fold the statement names.  Events as in GlyphTrace.tla; long runs use       *)
(* batched events, each the n-fold sequential composition of the single call:              *)
(*   InsB [from, n, ret, hd0, o, pix, ctr]  n inserts of keys from..from+n-1, all returned *)
(*                                          ret (a new event when the return value changes) *)
(*   LookB [from, n, hits, o, hd]           n lookups; the keys found, their origins/handles *)
(*   RemB [from, n, step]                   n removes                                      *)
(*   UseB [from, n, step, nmissing, o, pix] n drawing calls of one glyph each              *)
(*   Glyphs [...]                           one drawing through the glyph API and through  *)
(*                                          the route the statement equates it with        *)
(* Two levels, as in GlyphTrace.tla.                                                       *)
(* (A) mandatory, at the level the property states.  The map and the LRU order evolve as   *)
(*     the calls say; the logged n_glyphs is the size of the map; lookups return the map's *)
(*     entries.  An insert that returns non-NULL is always fine.  A refusal is acceptable  *)
(*     only if the cache COULD be full under some table organisation: live + dub >=        *)
(*     capacity - 1, dub = entries removed or evicted so far in the execution (no          *)
(*     organisation has more dead positions than that).  At the outermost thaw not         *)
(*     evicting is fine when live <= HIGH; evicting -- least recently used first down to   *)
(*     LOW, or everything -- is fine when live + dub > HIGH; where both hold both are      *)
(*     accepted.  Nothing else ever disappears.  The logged n_tombstones lies in 0..dub.   *)
(* (B) tracked only: the tombstone bookkeeping of pixman-glyph.c on the logged counters    *)
(*     (insert reuses at most one tombstone and refuses iff n_glyphs + n_tombstones >=     *)
(*     HASH_SIZE - 1; remove adds at most one; lookups change nothing; thaw evicts iff     *)
(*     n_glyphs + n_tombstones > HIGH, everything iff n_tombstones > HIGH).  A departure   *)
(*     prints a VF:policy note once and is not a violation.                                *)
EXTENDS GlyphMap, TraceIO

VARIABLES l, lruExact,     \* lruExact: FALSE once drawing calls that may leave glyphs untouched were made
          dub, exact

KeysEv == TraceLog[2]
TH     == KeysEv.H
THigh  == KeysEv.HIGH
TCap   == KeysEv.H - 1
TLow   == KeysEv.LOW
TKeys  == 1..KeysEv.n
TVals  == {}

tvars == <<live, val, lru, freeze, dead, ret, l, lruExact, dub, exact>>

Ev(name) == l <= TraceLen /\ TraceLog[l].e = name

(* (A) what the hook shows after the call agrees with the abstract state; gone = entries removed/evicted by the call *)
Counters(ev, gone) ==
    /\ Cardinality(live') = ev.ctr[1]
    /\ freeze' = ev.ctr[3]
    /\ dead' = ev.ctr[2]
    /\ dub' = dub + gone
    /\ dead' >= 0 /\ dead' <= dub'

(* (B) *)
Track(ex) ==
    /\ exact' = (exact /\ ex)
    /\ (exact /\ ~ex) => PrintT(<<"VF:policy", "tombstones", l>>)   \* (short: TLC wraps long tuples)
    \* "tombstones": n_tombstones / capacity / thaw decisions depart from the tombstone bookkeeping of GlyphCache.tla, first at event l

Enc(o) == (o[1] + 8) + 16 * (o[2] + 8)
Dec(e) == <<(e % 16) - 8, (e \div 16) - 8, 1, 1>>
Rev(s) == [i \in 1..Len(s) |-> s[Len(s) + 1 - i]]
(* x is one of the keys from, from + step, ..., from + (n - 1) * step of a batched event *)
InBatch(ev, x) == x >= ev.from /\ x <= ev.from + (ev.n - 1) * ev.step /\ (x - ev.from) % ev.step = 0

TReset ==
    /\ Ev("Reset")
    /\ live' = {} /\ val' = <<>> /\ lru' = <<>> /\ freeze' = 0 /\ dead' = 0 /\ ret' = Void
    /\ lruExact' = TRUE /\ dub' = 0 /\ exact' = TRUE
    /\ l' = l + 1

TKeysEv ==
    /\ Ev("Keys")
    /\ TraceLog[l] = KeysEv
    /\ UNCHANGED <<live, val, lru, freeze, dead, ret, lruExact, dub, exact>>
    /\ l' = l + 1

TFreeze ==
    /\ Ev("Freeze")
    /\ freeze' = freeze + 1 /\ ret' = Void
    /\ UNCHANGED <<live, val, lru>>
    /\ Counters(TraceLog[l], 0)
    /\ Track(dead' = dead)
    /\ UNCHANGED lruExact
    /\ l' = l + 1

TThaw ==
    /\ Ev("Thaw")
    /\ LET ev == TraceLog[l]
           n  == Len(lru)
           m  == ev.ctr[1]                               \* survivors; which ones is then decided by lookups
           keep == IF n < TLow THEN n ELSE TLow
       IN
       /\ freeze > 0
       /\ freeze' = freeze - 1
       /\ ret' = Void
       /\ \/ /\ m = n /\ UNCHANGED <<live, val, lru>>              \* nothing goes
             /\ freeze > 1 \/ n <= HIGH
          \/ /\ m < n /\ freeze = 1 /\ n + dub > HIGH /\ lruExact     \* may be above the high-water mark
             /\ m \in {keep, 0}
             /\ KeepPrefix(m)                                        \* least recently used first
       /\ Counters(ev, n - m)
       /\ Track(IF freeze = 1 /\ n + dead > HIGH
                THEN m = (IF dead > HIGH THEN 0 ELSE keep) /\ dead' <= dead + (n - m)
                ELSE m = n /\ dead' = dead)
       /\ IF m < n THEN PrintT(<<"VF:evicted", n, m>>) ELSE TRUE
    /\ UNCHANGED lruExact
    /\ l' = l + 1

TInsert ==
    /\ Ev("Insert")
    /\ LET ev == TraceLog[l]
           v  == [o |-> ev.o, pix |-> ev.pix, hd |-> ev.hd]
       IN  /\ freeze > 0 /\ ev.k \notin live
           /\ IF ev.ret
              THEN /\ live' = live \cup {ev.k}
                   /\ val' = [x \in live \cup {ev.k} |-> IF x = ev.k THEN v ELSE val[x]]
                   /\ lru' = <<ev.k>> \o lru
                   /\ ret' = Found(v)
                   /\ ev.ro = ev.o /\ ev.hd > 0
              ELSE /\ Cardinality(live) + dub >= CAP               \* refused: only if the cache could be full
                   /\ ret' = Void
                   /\ UNCHANGED <<live, val, lru>>
           /\ Counters(ev, 0)
           /\ Track(IF ev.ret THEN dead' \in {dead, dead - 1} /\ Cardinality(live') + dead' <= CAP
                    ELSE Occupied >= CAP /\ dead' = dead)
    /\ UNCHANGED lruExact
    /\ l' = l + 1

TLookup ==
    /\ Ev("Lookup")
    /\ LET ev == TraceLog[l] IN
       /\ ret' = IF ev.k \in live THEN Found(val[ev.k]) ELSE Void
       /\ ret'.hit = ev.ret
       /\ ev.ret => /\ val[ev.k].o = ev.ro
                    /\ val[ev.k].hd = ev.hd
       /\ UNCHANGED <<live, val, lru>>
       /\ Counters(ev, 0)
       /\ Track(dead' = dead)
    /\ UNCHANGED lruExact
    /\ l' = l + 1

TRemove ==
    /\ Ev("Remove")
    /\ LET ev == TraceLog[l] IN
       /\ live' = live \ {ev.k}
       /\ val' = [x \in live \ {ev.k} |-> val[x]]
       /\ lru' = Without(lru, ev.k)
       /\ ret' = Void
       /\ Counters(ev, IF ev.k \in live THEN 1 ELSE 0)
       /\ Track(dead' <= dead + 1 /\ (ev.k \notin live => dead' = dead))
    /\ UNCHANGED lruExact
    /\ l' = l + 1

RECURSIVE UseAll(_, _)
UseAll(m, ks) == IF ks = <<>> THEN m ELSE UseAll(<<Head(ks)>> \o Without(m, Head(ks)), Tail(ks))

TUse ==
    /\ Ev("Use")
    /\ LET ev == TraceLog[l] IN
       /\ ~Has(ev, "missing")
       /\ \A i \in DOMAIN ev.ks :
             /\ ev.ks[i] \in live
             /\ ev.got[i].ro = val[ev.ks[i]].o
             /\ (ev.mode = 0) => ev.got[i].pix = val[ev.ks[i]].pix
             /\ (ev.mode \in {2, 3}) => \A j \in DOMAIN ev.got[i].pix : ev.got[i].pix[j] = <<0, 0>>
       /\ lru' = UseAll(lru, ev.ks)                   \* AUse of each, in list order
       /\ ret' = Found(val[ev.ks[Len(ev.ks)]])
       /\ UNCHANGED <<live, val>>
       /\ Counters(ev, 0)
       /\ Track(dead' = dead)
    /\ UNCHANGED lruExact
    /\ l' = l + 1

(* ---- batched events: n-fold compositions ---- *)

TInsB ==
    /\ Ev("InsB")
    /\ LET ev == TraceLog[l]
           R  == ev.from..(ev.from + ev.n - 1)
       IN  /\ freeze > 0
           /\ R \cap live = {}
           /\ IF ev.ret
              THEN /\ live' = live \cup R
                   /\ val' = [k \in live \cup R |->
                                IF k \in live THEN val[k]
                                ELSE [o |-> Dec(ev.o[k - ev.from + 1]), pix |-> <<ev.pix[k - ev.from + 1]>>,
                                      hd |-> ev.hd0 + (k - ev.from)]]
                   /\ lru' = [i \in 1..ev.n |-> ev.from + ev.n - i] \o lru
                   /\ ev.hd0 > 0
                   /\ ret' = Found(val'[ev.from + ev.n - 1])
              ELSE /\ Cardinality(live) + dub >= CAP                    \* refused: only if the cache could be full
                   /\ ret' = Void
                   /\ UNCHANGED <<live, val, lru>>
           /\ Counters(ev, 0)
           /\ Track(IF ev.ret
                    THEN dead' \in (dead - ev.n)..dead /\ Cardinality(live) + ev.n + dead' <= CAP
                    ELSE Occupied >= CAP /\ dead' = dead)
    /\ UNCHANGED lruExact
    /\ l' = l + 1

TLookB ==
    /\ Ev("LookB")
    /\ LET ev == TraceLog[l]
           R  == ev.from..(ev.from + ev.n - 1)
       IN  /\ {ev.hits[i] : i \in DOMAIN ev.hits} = R \cap live          \* found exactly the live ones
           /\ Len(ev.hits) = Cardinality(R \cap live)
           /\ TRUE = \A i \in DOMAIN ev.hits :       \* ("TRUE =": evaluated as an expression; as an action TLC
                 /\ ev.hits[i] \in live               \*  would unfold the quantifier recursively)
                 /\ Enc(val[ev.hits[i]].o) = ev.o[i]
                 /\ val[ev.hits[i]].hd = ev.hd[i]
           /\ PrintT(<<"VF:lookb", ev.n, Len(ev.hits)>>)
           /\ ret' = Void
           /\ UNCHANGED <<live, val, lru>>
           /\ Counters(ev, 0)
           /\ Track(dead' = dead)
    /\ UNCHANGED lruExact
    /\ l' = l + 1

TRemB ==
    /\ Ev("RemB")
    /\ LET ev   == TraceLog[l]
           keep == {x \in live : ~InBatch(ev, x)}
       IN  /\ live' = keep
           /\ val' = [k \in keep |-> val[k]]
           /\ lru' = SelectSeq(lru, LAMBDA x : ~InBatch(ev, x))
           /\ ret' = Void
           /\ Counters(ev, Cardinality(live) - Cardinality(keep))
           /\ Track(dead' <= dead + Cardinality(live) - Cardinality(keep))
    /\ UNCHANGED lruExact
    /\ l' = l + 1

TUseB ==
    /\ Ev("UseB")
    /\ LET ev == TraceLog[l]
           ks == [i \in 1..ev.n |-> ev.from + (i - 1) * ev.step]
       IN  /\ ev.nmissing = 0
           /\ TRUE = \A i \in 1..ev.n : ks[i] \in live
           /\ TRUE = \A i \in 1..ev.n : /\ Enc(val[ks[i]].o) = ev.o[i]
                                        \* drawing mode = (i - 1) % 4: 0 no_mask, 1 mask, 2 outside, 3 clipped away
                                        /\ (i % 4 = 1) => val[ks[i]].pix = <<ev.pix[i]>>
                                        /\ (i % 4 \in {3, 0}) => ev.pix[i] = <<0, 0>>
           /\ lru' = Rev(ks) \o SelectSeq(lru, LAMBDA x : ~InBatch(ev, x))
           /\ ret' = Void
           /\ UNCHANGED <<live, val>>
           /\ Counters(ev, 0)
           /\ Track(dead' = dead)
    /\ UNCHANGED lruExact
    /\ l' = l + 1

(* ---- glyph drawing ---- *)
(* pixman_composite_glyphs_no_mask (op, src, dest, ..., glyphs) = fold over the list of                 *)
(*     Composite32 (op, src, glyph image as mask, dest) at (dest_x + x - origin_x, dest_y + y - origin_y) *)
(* pixman_composite_glyphs (op, src, dest, mask_format, ...) = fold of Composite32 (ADD, white, glyph    *)
(*     image, mask) at (x - origin_x - mask_x, y - origin_y - mask_y) into a cleared mask of the given   *)
(*     format, then one Composite32 (op, src, mask, dest).                                               *)
(* The Composite32 steps are executed by the same library on the driver's own copies of the inserted     *)
(* images (the compositing equations are C01's subject); this action demands that the steps are the      *)
(* ones the fold prescribes -- positions computed from the origins held by the map -- and that both      *)
(* destinations are equal word for word.                                                                 *)
TGlyphs ==
    /\ Ev("Glyphs")
    /\ LET ev == TraceLog[l] IN
       /\ ~Has(ev, "missing")
       /\ Len(ev.steps) = Len(ev.list)
       /\ \A i \in DOMAIN ev.list :
             LET k == ev.list[i][1]  x == ev.list[i][2]  y == ev.list[i][3] IN
             /\ k \in live
             /\ ev.steps[i] = IF ev.mode = 0
                              THEN <<k, x - val[k].o[1], y - val[k].o[2]>>
                              ELSE <<k, x - val[k].o[1] - ev.mask_x, y - val[k].o[2] - ev.mask_y>>
       /\ ev.a = ev.b
    /\ lruExact' = FALSE
    /\ UNCHANGED <<live, val, lru, freeze, dead, ret, dub, exact>>
    /\ l' = l + 1

TInit == /\ live = {} /\ val = <<>> /\ lru = <<>> /\ freeze = 0 /\ dead = 0 /\ ret = Void
         /\ lruExact = TRUE /\ l = 1 /\ dub = 0 /\ exact = TRUE

TNext == \/ TReset \/ TKeysEv \/ TFreeze \/ TThaw \/ TInsert \/ TLookup \/ TRemove \/ TUse
         \/ TInsB \/ TLookB \/ TRemB \/ TUseB \/ TGlyphs

TSpec == TInit /\ [][TNext]_tvars
=============================================================================
