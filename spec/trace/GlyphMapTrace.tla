---------------------------- MODULE GlyphMapTrace ----------------------------
(* Trace specification, abstract level (C17): traces of harness/drv_glyph.c recorded from   *)
(* the library with its real constants (HIGH = 16384, LOW = 8192, HASH_SIZE = 32768) are     *)
(* validated against GlyphMap.tla -- the statement's map + LRU order -- and glyph drawing    *)
(* against the fold the statement names.  Events as in GlyphTrace.tla, without table dumps;  *)
(* long runs use batched events, each the n-fold sequential composition of the single call:  *)
(*   InsB [from, n, ret, hd0, o, pix, ctr]  n inserts of keys from..from+n-1, all returned   *)
(*                                          ret (the driver starts a new event when the      *)
(*                                          return value changes); o/pix per inserted key    *)
(*   LookB [from, n, hits, o, hd]           n lookups; the keys found, their origins/handles *)
(*   RemB [from, n, step]                   n removes                                        *)
(*   UseB [from, n, step, nmissing, o, pix] n drawing calls of one glyph each                *)
(*   Glyphs [mode, op, list, steps, a, b, ...]  one drawing through the glyph API (a) and,   *)
(*                                          on an identical destination, through the route   *)
(*                                          the statement equates it with (b)                *)
(* The counters ctr = [n_glyphs, n_tombstones, freeze_count] come from hook H1; the ghost    *)
(* dead is read from n_tombstones (and must move as the abstract actions allow), the         *)
(* number of survivors of an eviction from n_glyphs (which survivors is then decided by      *)
(* lookups through the public API).                                                          *)
EXTENDS GlyphMap, TraceIO

VARIABLES l, lruExact      \* lruExact: FALSE once drawing calls that may leave glyphs untouched were made

KeysEv == TraceLog[2]
TH     == KeysEv.H
THigh  == KeysEv.HIGH
TCap   == KeysEv.H - 1
TLow   == KeysEv.LOW
TKeys  == 1..KeysEv.n
TVals  == {}

tvars == <<live, val, lru, freeze, dead, ret, l, lruExact>>

Ev(name) == l <= TraceLen /\ TraceLog[l].e = name

Counters(ev) ==            \* what the hook shows after the call agrees with the abstract state
    /\ Cardinality(live') = ev.ctr[1]
    /\ freeze' = ev.ctr[3]

Enc(o) == (o[1] + 8) + 16 * (o[2] + 8)
Dec(e) == <<(e % 16) - 8, (e \div 16) - 8, 1, 1>>
Rev(s) == [i \in 1..Len(s) |-> s[Len(s) + 1 - i]]
(* x is one of the keys from, from + step, ..., from + (n - 1) * step of a batched event *)
InBatch(ev, x) == x >= ev.from /\ x <= ev.from + (ev.n - 1) * ev.step /\ (x - ev.from) % ev.step = 0

TReset ==
    /\ Ev("Reset")
    /\ live' = {} /\ val' = <<>> /\ lru' = <<>> /\ freeze' = 0 /\ dead' = 0 /\ ret' = Void
    /\ lruExact' = TRUE
    /\ l' = l + 1

TKeysEv ==
    /\ Ev("Keys")
    /\ TraceLog[l] = KeysEv
    /\ UNCHANGED <<live, val, lru, freeze, dead, ret, lruExact>>
    /\ l' = l + 1

TFreeze ==
    /\ Ev("Freeze")
    /\ dead' = TraceLog[l].ctr[2]
    /\ AFreeze
    /\ Counters(TraceLog[l])
    /\ UNCHANGED lruExact
    /\ l' = l + 1

(* AThaw with the number of survivors read from the counter: \E m : AEvictTo(m) without enumerating m *)
TThaw ==
    /\ Ev("Thaw")
    /\ LET ev == TraceLog[l] IN
       /\ freeze > 0
       /\ freeze' = freeze - 1
       /\ ret' = Void
       /\ dead' = ev.ctr[2]
       /\ \/ UNCHANGED <<live, val, lru>> /\ dead' = dead
          \/ ev.ctr[1] < Cardinality(live) /\ lruExact /\ AEvictTo(ev.ctr[1])
          \/ ev.ctr[1] = Cardinality(live) /\ dead' # dead /\ AEvictTo(ev.ctr[1])    \* only tombstones changed
       \* the water-mark rule on the logged counters of the pre-state (as in GlyphTrace.tla)
       /\ IF freeze = 1 /\ Occupied > HIGH
          THEN Len(lru') = IF dead > HIGH THEN 0 ELSE IF Len(lru) < TLow THEN Len(lru) ELSE TLow
          ELSE lru' = lru /\ dead' = dead
       /\ Counters(ev)
       /\ IF ev.ctr[1] < Cardinality(live)
          THEN PrintT(<<"VF:evicted", Cardinality(live), ev.ctr[1]>>) ELSE TRUE
    /\ UNCHANGED lruExact
    /\ l' = l + 1

TInsert ==
    /\ Ev("Insert")
    /\ LET ev == TraceLog[l]
           v  == [o |-> ev.o, pix |-> ev.pix, hd |-> ev.hd]
       IN  /\ dead' = ev.ctr[2]
           /\ AInsert(ev.k, v)
           /\ ret'.hit = ev.ret
           /\ ev.ret => ev.ro = ev.o /\ ev.hd > 0
           /\ Counters(ev)
    /\ UNCHANGED lruExact
    /\ l' = l + 1

TLookup ==
    /\ Ev("Lookup")
    /\ LET ev == TraceLog[l] IN
       /\ dead' = ev.ctr[2]
       /\ ALookup(ev.k)
       /\ ret'.hit = ev.ret
       /\ ev.ret => /\ ret'.v[1].o = ev.ro
                    /\ ret'.v[1].hd = ev.hd
       /\ Counters(ev)
    /\ UNCHANGED lruExact
    /\ l' = l + 1

TRemove ==
    /\ Ev("Remove")
    /\ dead' = TraceLog[l].ctr[2]
    /\ ARemove(TraceLog[l].k)
    /\ Counters(TraceLog[l])
    /\ UNCHANGED lruExact
    /\ l' = l + 1

RECURSIVE UseAll(_, _)
UseAll(m, ks) == IF ks = <<>> THEN m ELSE UseAll(<<Head(ks)>> \o Without(m, Head(ks)), Tail(ks))

TUse ==
    /\ Ev("Use")
    /\ LET ev == TraceLog[l] IN
       /\ ~Has(ev, "missing")
       /\ \A i \in DOMAIN ev.ks :
             /\ ev.ks[i] \in live
             /\ ev.got[i].ro = val[ev.ks[i]].o
             /\ (ev.mode = 0) => ev.got[i].pix = val[ev.ks[i]].pix
             /\ (ev.mode \in {2, 3}) => \A j \in DOMAIN ev.got[i].pix : ev.got[i].pix[j] = <<0, 0>>
       /\ lru' = UseAll(lru, ev.ks)                   \* AUse of each, in list order
       /\ ret' = Found(val[ev.ks[Len(ev.ks)]])
       /\ dead' = ev.ctr[2] /\ dead' = dead
       /\ UNCHANGED <<live, val, freeze>>
       /\ Counters(ev)
    /\ UNCHANGED lruExact
    /\ l' = l + 1

(* ---- batched events: n-fold compositions ---- *)

TInsB ==
    /\ Ev("InsB")
    /\ LET ev == TraceLog[l]
           R  == ev.from..(ev.from + ev.n - 1)
       IN  /\ freeze > 0
           /\ R \cap live = {}
           /\ dead' = ev.ctr[2]
           /\ IF ev.ret
              THEN /\ live' = live \cup R
                   /\ val' = [k \in live \cup R |->
                                IF k \in live THEN val[k]
                                ELSE [o |-> Dec(ev.o[k - ev.from + 1]), pix |-> <<ev.pix[k - ev.from + 1]>>,
                                      hd |-> ev.hd0 + (k - ev.from)]]
                   /\ lru' = [i \in 1..ev.n |-> ev.from + ev.n - i] \o lru
                   /\ dead' \in (dead - ev.n)..dead /\ dead' >= 0       \* each insert reuses at most one dead position
                   /\ Cardinality(live) + ev.n + dead' <= CAP           \* hence a free position remained throughout
                   /\ ev.hd0 > 0
                   /\ ret' = Found(val'[ev.from + ev.n - 1])
              ELSE /\ Occupied >= CAP                                   \* refused: only when full
                   /\ ret' = Void
                   /\ dead' = dead
                   /\ UNCHANGED <<live, val, lru>>
           /\ UNCHANGED freeze
           /\ Counters(ev)
    /\ UNCHANGED lruExact
    /\ l' = l + 1

TLookB ==
    /\ Ev("LookB")
    /\ LET ev == TraceLog[l]
           R  == ev.from..(ev.from + ev.n - 1)
       IN  /\ {ev.hits[i] : i \in DOMAIN ev.hits} = R \cap live          \* found exactly the live ones
           /\ Len(ev.hits) = Cardinality(R \cap live)
           /\ TRUE = \A i \in DOMAIN ev.hits :       \* ("TRUE =": evaluated as an expression; as an action TLC
                 /\ ev.hits[i] \in live               \*  would unfold the quantifier recursively)
                 /\ Enc(val[ev.hits[i]].o) = ev.o[i]
                 /\ val[ev.hits[i]].hd = ev.hd[i]
           /\ PrintT(<<"VF:lookb", ev.n, Len(ev.hits)>>)
           /\ dead' = ev.ctr[2] /\ dead' = dead
           /\ ret' = Void
           /\ UNCHANGED <<live, val, lru, freeze>>
           /\ Counters(ev)
    /\ UNCHANGED lruExact
    /\ l' = l + 1

TRemB ==
    /\ Ev("RemB")
    /\ LET ev   == TraceLog[l]
           keep == {x \in live : ~InBatch(ev, x)}
       IN  /\ live' = keep
           /\ val' = [k \in keep |-> val[k]]
           /\ lru' = SelectSeq(lru, LAMBDA x : ~InBatch(ev, x))
           /\ dead' = ev.ctr[2]
           /\ dead' \in 0..(dead + Cardinality(live) - Cardinality(keep))   \* each remove leaves at most one dead position
           /\ ret' = Void
           /\ UNCHANGED freeze
           /\ Counters(ev)
    /\ UNCHANGED lruExact
    /\ l' = l + 1

TUseB ==
    /\ Ev("UseB")
    /\ LET ev == TraceLog[l]
           ks == [i \in 1..ev.n |-> ev.from + (i - 1) * ev.step]
       IN  /\ ev.nmissing = 0
           /\ TRUE = \A i \in 1..ev.n : ks[i] \in live
           /\ TRUE = \A i \in 1..ev.n : /\ Enc(val[ks[i]].o) = ev.o[i]
                                        \* drawing mode = (i - 1) % 4: 0 no_mask, 1 mask, 2 outside, 3 clipped away
                                        /\ (i % 4 = 1) => val[ks[i]].pix = <<ev.pix[i]>>
                                        /\ (i % 4 \in {3, 0}) => ev.pix[i] = <<0, 0>>
           /\ lru' = Rev(ks) \o SelectSeq(lru, LAMBDA x : ~InBatch(ev, x))
           /\ dead' = ev.ctr[2] /\ dead' = dead
           /\ ret' = Void
           /\ UNCHANGED <<live, val, freeze>>
           /\ Counters(ev)
    /\ UNCHANGED lruExact
    /\ l' = l + 1

(* ---- glyph drawing ---- *)
(* pixman_composite_glyphs_no_mask (op, src, dest, ..., glyphs) = fold over the list of                 *)
(*     Composite32 (op, src, glyph image as mask, dest) at (dest_x + x - origin_x, dest_y + y - origin_y) *)
(* pixman_composite_glyphs (op, src, dest, mask_format, ...) = fold of Composite32 (ADD, white, glyph    *)
(*     image, mask) at (x - origin_x - mask_x, y - origin_y - mask_y) into a cleared mask of the given   *)
(*     format, then one Composite32 (op, src, mask, dest).                                               *)
(* The Composite32 steps are executed by the same library on the driver's own copies of the inserted     *)
(* images (the compositing equations are C01's subject); this action demands that the steps are the      *)
(* ones the fold prescribes -- positions computed from the origins held by the map -- and that both      *)
(* destinations are equal word for word.                                                                 *)
TGlyphs ==
    /\ Ev("Glyphs")
    /\ LET ev == TraceLog[l] IN
       /\ ~Has(ev, "missing")
       /\ Len(ev.steps) = Len(ev.list)
       /\ \A i \in DOMAIN ev.list :
             LET k == ev.list[i][1]  x == ev.list[i][2]  y == ev.list[i][3] IN
             /\ k \in live
             /\ ev.steps[i] = IF ev.mode = 0
                              THEN <<k, x - val[k].o[1], y - val[k].o[2]>>
                              ELSE <<k, x - val[k].o[1] - ev.mask_x, y - val[k].o[2] - ev.mask_y>>
       /\ ev.a = ev.b
    /\ lruExact' = FALSE
    /\ UNCHANGED <<live, val, lru, freeze, dead, ret>>
    /\ l' = l + 1

TInit == /\ live = {} /\ val = <<>> /\ lru = <<>> /\ freeze = 0 /\ dead = 0 /\ ret = Void
         /\ lruExact = TRUE /\ l = 1

TNext == \/ TReset \/ TKeysEv \/ TFreeze \/ TThaw \/ TInsert \/ TLookup \/ TRemove \/ TUse
         \/ TInsB \/ TLookB \/ TRemB \/ TUseB \/ TGlyphs

TSpec == TInit /\ [][TNext]_tvars
=============================================================================
