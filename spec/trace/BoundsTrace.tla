----------------------------- MODULE BoundsTrace -----------------------------
(* Trace specification for C04.  Events (harness/drv_bounds.c):                                   *)
(*   Reset                                                                                        *)
(*   Req n kind mode ... m sx sy dx dy w h sw sh dw dh srep sfilt ok     the request as scripted   *)
(*       mw mh (0 0: no mask)  tm (1: m, srep, sfilt belong to the mask, the source is untransformed) *)
(*   Dispatch ext sfl mfl     (hook) composite extents and the flags pixman computed                *)
(*   Stray size               an accessor callback was handed an address outside every image       *)
(*   Done n imgs              imgs[i] = [id, size, overflow, iv]: merged intervals of accessed bytes *)
(*   Crash                    a fault (guard page), abort or timeout: matches no action             *)
(* Obligations: every accessed interval lies in [0, size) of its image; no Stray; every request     *)
(* reaches Done (no Crash); if the library raised SAMPLES_COVER_CLIP_NEAREST / _BILINEAR for the    *)
(* source of a request with an affine transform, then the nearest sample / both bilinear            *)
(* neighbours of every destination pixel of the extents lie inside the source (evaluated at the     *)
(* corner pixels, at full 16.16 resolution, in split arithmetic: extents up to the 16-bit limits);  *)
(* the same for the mask's flags.                                                                   *)
EXTENDS Bounds, TraceIO

VARIABLES l, cur
tvars == <<l, cur>>
Ev == TraceLog[l]
Is(e) == l <= TraceLen /\ TraceLog[l].e = e
Adv == l' = l + 1
SetOf(s) == {s[i] : i \in DOMAIN s}
COVER_NEAREST == 23
COVER_BILINEAR == 24

TReset == Is("Reset") /\ cur' = <<>> /\ Adv
TReq == Is("Req") /\ cur' = Ev /\ Adv

Abs(x) == IF x < 0 THEN -x ELSE x
(* The request's transform m = <<m00, m01, m02, m10, m11, m12, ...>> belongs to the source (tm = 0) or to the mask   *)
(* (tm = 1: requests whose big / transformed image is the mask); the other image is untransformed.  The hook       *)
(* reports the extents after pixman moved them to mask space (ext = region - dest + mask): the pixel (x, y) of ext  *)
(* samples the mask at its transform applied to (x, y) and the source at its transform applied to                  *)
(* (x + sx - mx, y + sy - my).                                                                                      *)
Affine(r) == r.m[7] = 0 /\ r.m[8] = 0 /\ r.m[9] = 65536
IdM == <<65536, 0, 0, 0, 65536, 0>>
M6(r) == <<r.m[1], r.m[2], r.m[3], r.m[4], r.m[5], r.m[6]>>
SrcM(r) == IF r.tm = 1 THEN IdM ELSE M6(r)
MaskM(r) == IF r.tm = 1 THEN M6(r) ELSE IdM
Shifted(ext, r) == <<ext[1] + r.sx - r.mx, ext[2] + r.sy - r.my, ext[3] + r.sx - r.mx, ext[4] + r.sy - r.my>>
(* evaluated at full 16.16 resolution in split form (Bounds!WideIndex) for matrix entries up to 16.0 and   *)
(* coordinates up to 2^17 pixels: everything the library admits (extents are 16 bit) with |scale| <= 16     *)
Fits(m, e) ==
    /\ \A i \in {1, 2, 4, 5} : Abs(m[i]) <= 1048576
    /\ \A i \in 1..4 : Abs(e[i]) <= 131072
Small(r, ext) ==
    /\ \A i \in 1..4 : Abs(ext[i]) <= 65536
    /\ Abs(r.sx) <= 32768 /\ Abs(r.mx) <= 32768 /\ Abs(r.sy) <= 32768 /\ Abs(r.my) <= 32768
CoverSound(fl, m, e, w, h) ==
    Fits(m, e) =>
       /\ (COVER_NEAREST \in fl) => WAllNearestInside(m, e, w, h)
       /\ (COVER_BILINEAR \in fl) => WAllBilinearInside(m, e, w, h)

TDispatch ==
    /\ Is("Dispatch") /\ cur # <<>>
    /\ LET sfl == SetOf(Ev.sfl)  mfl == SetOf(Ev.mfl)  ext == Ev.ext IN
       (cur.kind = "C" /\ Affine(cur) /\ ext[1] < ext[3] /\ ext[2] < ext[4] /\ Small(cur, ext)) =>
          /\ CoverSound(sfl, SrcM(cur), Shifted(ext, cur), cur.sw, cur.sh) = TRUE
          /\ (cur.mw > 0 => CoverSound(mfl, MaskM(cur), ext, cur.mw, cur.mh)) = TRUE
    /\ UNCHANGED cur /\ Adv

TDone ==
    /\ Is("Done") /\ cur # <<>> /\ Ev.n = cur.n
    /\ (\A i \in DOMAIN Ev.imgs :
           /\ \A j \in DOMAIN Ev.imgs[i].iv : InsideStorage(Ev.imgs[i].iv[j], Ev.imgs[i])) = TRUE
    /\ cur' = <<>> /\ Adv

TInit == l = 1 /\ cur = <<>>
TNext == TReset \/ TReq \/ TDispatch \/ TDone
TSpec == TInit /\ [][TNext]_tvars
=============================================================================
