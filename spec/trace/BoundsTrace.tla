----------------------------- MODULE BoundsTrace -----------------------------
(* Trace specification for C04.  Events (harness/drv_bounds.c):                                   *)
(*   Reset                                                                                        *)
(*   Req n kind mode ... m sx sy dx dy w h sw sh dw dh srep sfilt ok     the request as scripted   *)
(*   Dispatch ext sfl mfl     (hook) composite extents and the flags pixman computed                *)
(*   Stray size               an accessor callback was handed an address outside every image       *)
(*   Done n imgs              imgs[i] = [id, size, overflow, iv]: merged intervals of accessed bytes *)
(*   Crash                    a fault (guard page), abort or timeout: matches no action             *)
(* Obligations: every accessed interval lies in [0, size) of its image; no Stray; every request     *)
(* reaches Done (no Crash); if the library raised SAMPLES_COVER_CLIP_NEAREST / _BILINEAR for the    *)
(* source of a request with an affine transform, then the nearest sample / both bilinear            *)
(* neighbours of every destination pixel of the extents lie inside the source (evaluated at the     *)
(* corner pixels, at full 16.16 resolution, whenever the products fit TLC's integers).              *)
EXTENDS Bounds, TraceIO

VARIABLES l, cur
tvars == <<l, cur>>
Ev == TraceLog[l]
Is(e) == l <= TraceLen /\ TraceLog[l].e = e
Adv == l' = l + 1
SetOf(s) == {s[i] : i \in DOMAIN s}
COVER_NEAREST == 23
COVER_BILINEAR == 24

TReset == Is("Reset") /\ cur' = <<>> /\ Adv
TReq == Is("Req") /\ cur' = Ev /\ Adv

Abs(x) == IF x < 0 THEN -x ELSE x
(* the matrix as <<m00, m01, m02, m10, m11, m12>>; the pixel (x, y) of the reported extents samples the   *)
(* source at the transform applied to (x + sx - mx, y + sy - my)                                         *)
Affine(r) == r.m[7] = 0 /\ r.m[8] = 0 /\ r.m[9] = 65536
Fits(r, ext) ==
    /\ \A i \in 1..6 : Abs(r.m[i]) <= 1048576
    /\ \A i \in 1..4 : Abs(ext[i]) <= 500
    /\ Abs(r.sx - r.mx) <= 500 /\ Abs(r.sy - r.my) <= 500
(* the hook reports the extents after pixman moved them to mask space: ext = region - dest + mask *)
Shifted(ext, r) == <<ext[1] + r.sx - r.mx, ext[2] + r.sy - r.my, ext[3] + r.sx - r.mx, ext[4] + r.sy - r.my>>
M6(r) == <<r.m[1], r.m[2], r.m[3], r.m[4], r.m[5], r.m[6]>>

TDispatch ==
    /\ Is("Dispatch") /\ cur # <<>>
    /\ LET sfl == SetOf(Ev.sfl)  ext == Ev.ext IN
       (cur.kind = "C" /\ Affine(cur) /\ Fits(cur, ext) /\ ext[1] < ext[3] /\ ext[2] < ext[4]) =>
          /\ ((COVER_NEAREST \in sfl) => AllNearestInside(M6(cur), Shifted(ext, cur), cur.sw, cur.sh, 65536)) = TRUE
          /\ ((COVER_BILINEAR \in sfl) => AllBilinearInside(M6(cur), Shifted(ext, cur), cur.sw, cur.sh, 65536)) = TRUE
    /\ UNCHANGED cur /\ Adv

TDone ==
    /\ Is("Done") /\ cur # <<>> /\ Ev.n = cur.n
    /\ (\A i \in DOMAIN Ev.imgs :
           /\ \A j \in DOMAIN Ev.imgs[i].iv : InsideStorage(Ev.imgs[i].iv[j], Ev.imgs[i])) = TRUE
    /\ cur' = <<>> /\ Adv

TInit == l = 1 /\ cur = <<>>
TNext == TReset \/ TReq \/ TDispatch \/ TDone
TSpec == TInit /\ [][TNext]_tvars
=============================================================================
