----------------------------- MODULE AllocTrace -----------------------------
(* Trace specification for object-level scenarios under allocation failure (C15).      *)
(* Events (harness/drv_fault.c + harness/common/vfault.c):                              *)
(*   Reset                     new execution (fresh objects, nothing live)              *)
(*   Begin call kind step      an API call starts                                       *)
(*   Malloc ok size addr       an allocation request inside the call (ok = FALSE: refused) *)
(*   Realloc ok size addr old                                                          *)
(*   Free addr                                                                          *)
(*   End ret okret nfail [w h allowed before after okafter]                             *)
(*        okret / okafter = what the same call returned / drew in the fault-free run    *)
(*   Final                     every object has been destroyed                          *)
(*   Crash                     matches nothing: the trace is rejected                   *)
(* Obligations: Alloc's (no double free, constructor protocol, nothing live at Final),  *)
(* plus: a call in an execution without any refused allocation so far behaves exactly   *)
(* as in the fault-free run; a drawing call never changes a pixel outside its permitted *)
(* rectangles, and, when the only refusals so far happened inside this very call, each  *)
(* permitted pixel is either untouched or has its normal value (work was skipped, not   *)
(* done wrongly).                                                                       *)
(*                                                                                      *)
(* Two kinds of earlier refusals are told apart.  A refusal inside a constructor or a   *)
(* status-returning call changes what the rest of the execution works on (an object is  *)
(* missing, a setter did not take effect): "tainted".  A refusal inside a void DRAWING  *)
(* call (an End event that carries pixels) may only have left work undone in that       *)
(* call's destination - a drawing call writes nothing but permitted destination pixels, *)
(* so every other object is exactly what it is in the fault-free run: "soft".  After    *)
(* soft refusals only                                                                   *)
(*   - a later call without refusals still returns its normal result, and               *)
(*   - a later drawing call marked indep = 1 by the generator (its destination was not  *)
(*     written by any earlier call that could fail) must draw exactly what the          *)
(*     fault-free run drew: the images, the glyph cache, the gradient ... that the      *)
(*     interrupted call used are "safe to use afterwards".                              *)
EXTENDS Alloc, TraceIO

VARIABLES l,
          tainted,   \* an allocation was refused earlier inside a constructor / status call (state may differ from the fault-free run)
          soft,      \* an allocation was refused earlier inside a void drawing call (only that call's destination may differ)
          curKind

tvars == <<live, call, made, failed, l, tainted, soft, curKind>>

Ev == TraceLog[l]
Is(e) == l <= TraceLen /\ TraceLog[l].e = e
Adv == l' = l + 1

TReset == /\ Is("Reset") /\ call = ""
          /\ live' = {} /\ call' = "" /\ made' = {} /\ failed' = 0
          /\ tainted' = FALSE /\ soft' = FALSE /\ curKind' = "" /\ Adv

TBegin == /\ Is("Begin") /\ Begin(Ev.call) /\ curKind' = Ev.kind /\ UNCHANGED <<tainted, soft>> /\ Adv

TMalloc == /\ Is("Malloc")
           /\ IF Ev.ok THEN MallocOk(Ev.addr) ELSE MallocRefused
           /\ UNCHANGED <<tainted, soft, curKind>> /\ Adv

TRealloc == /\ Is("Realloc")
            /\ IF ~Ev.ok THEN MallocRefused
               ELSE IF Ev.old = <<0, 0, 0>> THEN MallocOk(Ev.addr) ELSE ReallocOk(Ev.old, Ev.addr)
            /\ UNCHANGED <<tainted, soft, curKind>> /\ Adv

TFree == /\ Is("Free") /\ FreeOk(Ev.addr) /\ UNCHANGED <<tainted, soft, curKind>> /\ Adv

InRects(x, y, rs) == \E k \in 0..((Len(rs) \div 4) - 1) :
                        rs[4 * k + 1] <= x /\ x < rs[4 * k + 3] /\ rs[4 * k + 2] <= y /\ y < rs[4 * k + 4]

Indep(ev) == Has(ev, "indep") /\ ev.indep = 1
\* the state this drawing call works on is that of the fault-free run
Comparable(ev) == ~tainted /\ (~soft \/ Indep(ev))

DrawOK(ev) ==
    \A i \in 1..(ev.w * ev.h) :
        LET x == (i - 1) % ev.w   y == (i - 1) \div ev.w IN
        IF ~InRects(x, y, ev.allowed)
        THEN ev.after[i] = ev.before[i]                              \* frame condition, always
        ELSE Comparable(ev) => (ev.after[i] = ev.okafter[i] \/ (failed > 0 /\ ev.after[i] = ev.before[i]))

TEnd == /\ Is("End")
        /\ End(curKind, Ev.ret)
        /\ Ev.nfail = failed                                         \* the two event sources agree
        /\ (~tainted /\ failed = 0) => Ev.ret = Ev.okret             \* no failure: the normal result
        \* "= TRUE": evaluate as a state predicate; in action mode TLC would split every disjunction
        \* under the quantifier into separate successor computations (exponential)
        /\ (Has(Ev, "after") => DrawOK(Ev)) = TRUE
        /\ tainted' = (tainted \/ (failed > 0 /\ ~Has(Ev, "after")))
        /\ soft' = (soft \/ (failed > 0 /\ Has(Ev, "after")))
        /\ curKind' = "" /\ Adv

TFinal == /\ Is("Final") /\ call = "" /\ NothingLive
          /\ UNCHANGED <<live, call, made, failed, tainted, soft, curKind>> /\ Adv

TInit == AllocInit /\ l = 1 /\ tainted = FALSE /\ soft = FALSE /\ curKind = ""
TNext == TReset \/ TBegin \/ TMalloc \/ TRealloc \/ TFree \/ TEnd \/ TFinal
TSpec == TInit /\ [][TNext]_tvars
=============================================================================
