----------------------------- MODULE AllocTrace -----------------------------
(* Trace specification for object-level scenarios under allocation failure (C15).      *)
(* Events (harness/drv_fault.c + harness/common/vfault.c):                              *)
(*   Reset                     new execution (fresh objects, nothing live)              *)
(*   Begin call kind step      an API call starts                                       *)
(*   Malloc ok size addr       an allocation request inside the call (ok = FALSE: refused) *)
(*   Realloc ok size addr old                                                          *)
(*   Free addr                                                                          *)
(*   End ret okret nfail [w h allowed before after okafter]                             *)
(*        okret / okafter = what the same call returned / drew in the fault-free run    *)
(*   Final                     every object has been destroyed                          *)
(*   Crash                     matches nothing: the trace is rejected                   *)
(* Obligations: Alloc's (no double free, constructor protocol, nothing live at Final),  *)
(* plus: a call in an execution without any refused allocation so far behaves exactly   *)
(* as in the fault-free run; a drawing call never changes a pixel outside its permitted *)
(* rectangles, and, when the only refusals so far happened inside this very call, each  *)
(* permitted pixel is either untouched or has its normal value (work was skipped, not   *)
(* done wrongly).                                                                       *)
EXTENDS Alloc, TraceIO

VARIABLES l,
          tainted,   \* some allocation was refused earlier in this execution (state may differ from the fault-free run)
          curKind

tvars == <<live, call, made, failed, l, tainted, curKind>>

Ev == TraceLog[l]
Is(e) == l <= TraceLen /\ TraceLog[l].e = e
Adv == l' = l + 1

TReset == /\ Is("Reset") /\ call = ""
          /\ live' = {} /\ call' = "" /\ made' = {} /\ failed' = 0
          /\ tainted' = FALSE /\ curKind' = "" /\ Adv

TBegin == /\ Is("Begin") /\ Begin(Ev.call) /\ curKind' = Ev.kind /\ UNCHANGED tainted /\ Adv

TMalloc == /\ Is("Malloc")
           /\ IF Ev.ok THEN MallocOk(Ev.addr) ELSE MallocRefused
           /\ UNCHANGED <<tainted, curKind>> /\ Adv

TRealloc == /\ Is("Realloc")
            /\ IF Ev.ok THEN ReallocOk(IF Ev.old = <<0, 0, 0>> THEN "null" ELSE Ev.old, Ev.addr) ELSE MallocRefused
            /\ UNCHANGED <<tainted, curKind>> /\ Adv

TFree == /\ Is("Free") /\ FreeOk(Ev.addr) /\ UNCHANGED <<tainted, curKind>> /\ Adv

InRects(x, y, rs) == \E k \in 0..((Len(rs) \div 4) - 1) :
                        rs[4 * k + 1] <= x /\ x < rs[4 * k + 3] /\ rs[4 * k + 2] <= y /\ y < rs[4 * k + 4]

DrawOK(ev) ==
    \A i \in 1..(ev.w * ev.h) :
        LET x == (i - 1) % ev.w   y == (i - 1) \div ev.w IN
        IF ~InRects(x, y, ev.allowed)
        THEN ev.after[i] = ev.before[i]                              \* frame condition, always
        ELSE (~tainted) => (ev.after[i] = ev.okafter[i] \/ (failed > 0 /\ ev.after[i] = ev.before[i]))

TEnd == /\ Is("End")
        /\ End(curKind, Ev.ret)
        /\ Ev.nfail = failed                                         \* the two event sources agree
        /\ (~tainted /\ failed = 0) => Ev.ret = Ev.okret             \* no failure: the normal result
        \* "= TRUE": evaluate as a state predicate; in action mode TLC would split every disjunction
        \* under the quantifier into separate successor computations (exponential)
        /\ (Has(Ev, "after") => DrawOK(Ev)) = TRUE
        /\ tainted' = (tainted \/ failed > 0)
        /\ curKind' = "" /\ Adv

TFinal == /\ Is("Final") /\ call = "" /\ NothingLive
          /\ UNCHANGED <<live, call, made, failed, tainted, curKind>> /\ Adv

TInit == AllocInit /\ l = 1 /\ tainted = FALSE /\ curKind = ""
TNext == TReset \/ TBegin \/ TMalloc \/ TRealloc \/ TFree \/ TEnd \/ TFinal
TSpec == TInit /\ [][TNext]_tvars
=============================================================================
