---------------------------- MODULE MatrixTrace ----------------------------
(* Trace specification for C11 (pixman-matrix.c).  One NDJSON line per API call, logged by         *)
(* harness/drv_matrix.c after the call returned:                                                  *)
(*   Reset                      start of a group of calls (no state is carried: pure functions)    *)
(*   Call fn ... ret ...        inputs, return value and outputs; 32-bit words as [hi16, lo16],     *)
(*                              doubles as four 16-bit quarters, boxes as plain integers            *)
(*   Crash sig fn line script   the call did not return (assertion failure, signal)                *)
(* Every Call line must be a step  Matrix!Call(c, devs)  of the specification, c being the call     *)
(* record built from the line.  The statement itself (devs = {}) is tried first; only when it does   *)
(* not explain the line, the named deviations admissible for that entry point are tried, smallest   *)
(* set first, and the ones used are reported (VF:deviation -> KNOWN-FINDING).  A Crash line is       *)
(* explained by no action ("they never abort"): the trace is rejected there.                        *)
EXTENDS Matrix, TraceIO

CONSTANT Deviations     \* ids of the OPEN known findings (KNOWN_FINDINGS.jsonl): the named deviations that may be used

VARIABLE l

W(h)    == FromHalves(h)
Mat(a)  == [i \in I3 |-> [j \in I3 |-> W(a[3 * (i - 1) + j])]]
Vec(a)  == [i \in I3 |-> W(a[i])]
FMat(a) == [i \in I3 |-> [j \in I3 |-> Dbl(a[3 * (i - 1) + j])]]
FVec(a) == [i \in I3 |-> Dbl(a[i])]
Box(a)  == [i \in 1..4 |-> FromInt(a[i])]

Conv(ev) ==
    CASE ev.fn \in {"point", "point3d"} ->
            [fn |-> ev.fn, m |-> Mat(ev.m), v |-> Vec(ev.v), ret |-> ev.ret, o |-> Vec(ev.o)]
      [] ev.fn = "multiply" ->
            [fn |-> ev.fn, m |-> Mat(ev.m), m2 |-> Mat(ev.m2), ret |-> ev.ret, o |-> Mat(ev.o)]
      [] ev.fn \in {"scale", "rotate", "translate"} ->
            [fn |-> ev.fn, hf |-> ev.hf, hr |-> ev.hr, p |-> W(ev.p), q |-> W(ev.q), fin |-> Mat(ev.fin),
             rin |-> Mat(ev.rin), ret |-> ev.ret, fout |-> Mat(ev.fout), rout |-> Mat(ev.rout)]
      [] ev.fn = "init" ->
            [fn |-> ev.fn, kind |-> ev.kind, p |-> W(ev.p), q |-> W(ev.q), o |-> Mat(ev.o)]
      [] ev.fn = "bounds" ->
            [fn |-> ev.fn, m |-> Mat(ev.m), bin |-> Box(ev.bin), ret |-> ev.ret, bout |-> Box(ev.bout),
             pts |-> [k \in 1..4 |-> [ret |-> ev.pts[k].ret, o |-> Vec(ev.pts[k].o)]]]
      [] ev.fn = "invert" ->
            [fn |-> ev.fn, m |-> Mat(ev.m), ret |-> ev.ret, o |-> Mat(ev.o)]
      [] ev.fn = "from_f" ->
            [fn |-> ev.fn, f |-> FMat(ev.f), ret |-> ev.ret, o |-> Mat(ev.o)]
      [] ev.fn = "to_f" ->
            [fn |-> ev.fn, m |-> Mat(ev.m), fo |-> FMat(ev.fo)]
      [] ev.fn = "is" ->
            [fn |-> ev.fn, kind |-> ev.kind, m |-> Mat(ev.m), m2 |-> Mat(ev.m2), ret |-> ev.ret]
      [] ev.fn = "f_multiply" ->
            [fn |-> ev.fn, f |-> FMat(ev.f), f2 |-> FMat(ev.f2), fo |-> FMat(ev.fo)]
      [] ev.fn \in {"f_point", "f_point3d"} ->
            [fn |-> ev.fn, f |-> FMat(ev.f), fv |-> FVec(ev.fv), ret |-> ev.ret, fo |-> FVec(ev.fo)]
      [] ev.fn = "f_xform" ->
            [fn |-> ev.fn, kind |-> ev.kind, hf |-> ev.hf, hr |-> ev.hr, p |-> Dbl(ev.p), q |-> Dbl(ev.q),
             fin |-> FMat(ev.fin), rin |-> FMat(ev.rin), ret |-> ev.ret, fout |-> FMat(ev.fout), rout |-> FMat(ev.rout)]
      [] ev.fn = "f_init" ->
            [fn |-> ev.fn, kind |-> ev.kind, p |-> Dbl(ev.p), q |-> Dbl(ev.q), o |-> FMat(ev.o)]
      [] ev.fn = "f_invert" ->
            [fn |-> ev.fn, f |-> FMat(ev.f), ret |-> ev.ret, fo |-> FMat(ev.fo)]
      [] ev.fn = "f_bounds" ->
            [fn |-> ev.fn, f |-> FMat(ev.f), bin |-> Box(ev.bin), ret |-> ev.ret, bout |-> Box(ev.bout)]

(* the sets of named deviations admissible for an entry point, smallest first; only sets of ids that  *)
(* are open findings are ever tried (C11-scale-reciprocal-wrap and C11-negate-min-wrap were repaired   *)
(* in /repo, commit 7c01373, and are no longer enabled: the wrapped values are violations again)       *)
AllDevSets(fn) ==
    CASE fn = "multiply" -> <<{DevPerTerm}>>
      [] fn = "scale" -> <<{DevPerTerm}, {DevRecip}, {DevPerTerm, DevRecip}>>
      [] fn \in {"rotate", "translate"} -> <<{DevPerTerm}, {DevNegMin}, {DevPerTerm, DevNegMin}>>
      [] fn = "bounds" -> <<{DevBounds}>>
      [] fn = "invert" -> <<{DevFromF}, {DevInvSing}>>
      [] fn = "from_f" -> <<{DevFromF}>>
      [] OTHER -> <<>>

DevSets(fn) == SelectSeq(AllDevSets(fn), LAMBDA d : d \subseteq Deviations)

RECURSIVE FirstExplaining(_, _, _)
FirstExplaining(c, ds, k) ==
    IF k > Len(ds) THEN 0 ELSE IF Post(c, ds[k]) THEN k ELSE FirstExplaining(c, ds, k + 1)

TReset ==
    /\ l <= TraceLen /\ TraceLog[l].e = "Reset"
    /\ UNCHANGED last
    /\ l' = l + 1

(* Matrix!Call(c, devs) is  Post(c, devs) /\ last' = LastOf(c);  it is spelled out so that the       *)
(* statement's postcondition is evaluated once.                                                     *)
TCall ==
    /\ l <= TraceLen /\ TraceLog[l].e = "Call"
    /\ LET ev  == TraceLog[l]
           c   == Conv(ev)
           ord == Post(c, {})
       IN /\ c.fn \in Fns
          /\ \/ ord                                                      \* the statement explains the call
             \/ /\ ~ord                                                  \* ... or a named deviation does
                /\ LET ds == DevSets(c.fn)
                       k  == FirstExplaining(c, ds, 1)
                   IN /\ k > 0
                      /\ \A id \in ds[k] : Deviation(id, l)
          /\ IF Judged(c) THEN TRUE ELSE PrintT(<<"VF:unjudged", c.fn, l>>)
          /\ last' = LastOf(c)
    /\ l' = l + 1

TInit == Init /\ l = 1
TNext == TReset \/ TCall
TSpec == TInit /\ [][TNext]_<<last, l>>
=============================================================================
