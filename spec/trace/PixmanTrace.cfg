SPECIFICATION TSpec
POSTCONDITION TraceAccepted
