---------------------------- MODULE GlyphTrace ----------------------------
(* Trace specification for the small-table build (C17; flavour smallglyph: HIGH = 4,       *)
(* LOW = 2, 8 slots).  One NDJSON line per API call of harness/drv_glyph.c, logged after    *)
(* the call returned:                                                                      *)
(*   Reset, Keys [H, HIGH, LOW, n, hash]   new execution; the REAL hash of every key       *)
(*   Freeze / Thaw / Insert / Lookup / Remove / Use   with                                 *)
(*       ctr = [n_glyphs, n_tombstones, freeze_count], slots = table dump (0 NULL,         *)
(*       -1 tombstone, key id), mru = keys in list order     (hook H1, _pixman_verif_glyph_dump) *)
(*       ret / hd / ro: returned pointer non-NULL, serial of the insert call that returned *)
(*       that pointer, origin+size seen through pixman_glyph_get_extents                   *)
(*       Use: mode 0 no_mask, 1 through a mask, 2 no_mask with every glyph outside the     *)
(*       destination, 3 no_mask with every glyph clipped away; per glyph what the drawing  *)
(*       shows (pix)                                                                       *)
(* Two levels in one trace specification.                                                  *)
(*                                                                                         *)
(* (A) mandatory, independent of where entries sit in the table.  Every event must be an   *)
(*     action of the abstract map GlyphMap.tla under the refinement mapping of             *)
(*     GlyphCache.tla applied to the LOGGED state (live keys = the keys in the logged      *)
(*     slots, lru = logged mru, dead = logged n_tombstones): lookup = map; an entry        *)
(*     vanishes only by Remove of its key or by the outermost Thaw; insert is refused only *)
(*     when the logged counters say full, and an accepted insert leaves a NULL slot.       *)
(*     Moreover the dump is consistent (each live key exactly once, counters = numbers of  *)
(*     glyph / tombstone slots, a NULL slot exists, mru = live keys).  A lookup (and the   *)
(*     lookups a drawing call needs) leaves map and LRU order alone but may reorganise the *)
(*     table; dead positions never exceed dub, the number of entries removed or evicted    *)
(*     since the execution began (an upper bound under ANY table organisation).  Thaw is   *)
(*     judged as the statement puts it: nothing may vanish except at freeze 1 -> 0; there  *)
(*     not evicting is fine when live <= HIGH, evicting -- least recently used first down  *)
(*     to LOW, or everything -- is fine when the cache COULD be above its high-water mark, *)
(*     live + dub > HIGH; where both hold both are accepted.  Drawing a glyph (any of the  *)
(*     four modes) makes it most recently used; mode 0 shows the copy made at insert time, *)
(*     modes 2/3 draw nothing.                                                             *)
(* (B) tracked, not mandatory: the exact layout model of GlyphCache.tla (home slot = real  *)
(*     hash, upward linear probing, first NULL-or-tombstone, backwards tombstone sweep,    *)
(*     lookups that change nothing, thaw decided by n_glyphs + n_tombstones as logged).    *)
(*     exact stays TRUE while every logged state is the one GlyphCache's action yields;    *)
(*     when it first fails a VF:policy note is printed and validation continues with (A)   *)
(*     alone -- another probing order or table organisation is not a violation of C17.     *)
(* A Crash line (signal, or the alarm guarding every call against a probe loop that never  *)
(* ends) is explained by no action.                                                        *)
EXTENDS GlyphCache, TraceIO

VARIABLES l, exact, dub

KeysEv == TraceLog[2]
TKeys  == 1..KeysEv.n
THash  == [k \in TKeys |-> KeysEv.hash[k]]
TH     == KeysEv.H
THigh  == KeysEv.HIGH
TLow   == KeysEv.LOW
TNoVal == [o |-> <<>>, pix |-> <<>>, hd |-> 0]
TVals  == {}

tvars == <<slot, ng, nt, freeze, mru, val, ret, l, exact, dub>>

ObsSlots(ev) == [i \in Slots |-> ev.slots[i + 1]]

Observe(ev) ==
    /\ slot' = ObsSlots(ev)
    /\ ng' = ev.ctr[1]
    /\ nt' = ev.ctr[2]
    /\ freeze' = ev.ctr[3]
    /\ mru' = ev.mru

(* (A) consistency of the logged state -- nothing here depends on Hash or on a probing order *)
DumpOK == /\ CountsMatch /\ NoDuplicate /\ NullExists /\ MruMatches /\ ValMatches
          /\ Abs!ALruIsLive /\ Abs!AFreeExists
          /\ nt <= dub

(* dub after `gone` more entries were removed or evicted; never more than the table can hold beside the live ones *)
Cap(n) == IF n > H - 1 - ng' THEN H - 1 - ng' ELSE n
Dub(gone) == dub' = Cap(dub + gone)

(* (B) bookkeeping: ex = "the layout model explains this step" *)
Track(ex) ==
    /\ exact' = (exact /\ ex)
    /\ (exact /\ ~ex) => PrintT(<<"VF:policy", "layout", l>>)   \* (short: TLC wraps long tuples)
    \* "layout": the glyph table layout departs from the linear-probing model of GlyphCache.tla, first at event l

Ev(name) == l <= TraceLen /\ TraceLog[l].e = name

TReset ==
    /\ Ev("Reset")
    /\ slot' = [i \in Slots |-> NULLV] /\ ng' = 0 /\ nt' = 0 /\ freeze' = 0 /\ mru' = <<>>
    /\ val' = [k \in Keys |-> NoVal] /\ ret' = Void
    /\ exact' = TRUE /\ dub' = 0
    /\ l' = l + 1

TKeysEv ==
    /\ Ev("Keys")
    /\ TraceLog[l] = KeysEv            \* one key table per trace file: the constants above are the right ones
    /\ UNCHANGED <<slot, ng, nt, freeze, mru, val, ret, exact, dub>>
    /\ l' = l + 1

TFreeze ==
    /\ Ev("Freeze")
    /\ Observe(TraceLog[l])
    /\ val' = val /\ ret' = Void
    /\ Abs!AFreeze                                       \* (A)
    /\ Dub(0)
    /\ DumpOK'
    /\ Track(exact /\ Freeze)                            \* (B)
    /\ l' = l + 1

(* (A) the statement's thaw, judged on the map: what may happen to the LRU list *)
ThawRule ==
    LET n == Len(mru)  keep == IF n < LOW THEN n ELSE LOW IN
    \/ /\ mru' = mru                                   \* nothing goes: always fine below the outermost thaw,
       /\ freeze > 1 \/ n <= HIGH                       \* at the outermost one only if not above the mark anyway
    \/ /\ freeze = 1 /\ n + dub > HIGH                  \* the cache may be above its high-water mark:
       /\ mru' \in {SubSeq(mru, 1, keep), <<>>}          \* least recently used go, down to LOW, or everything

TThaw ==
    /\ Ev("Thaw")
    /\ Observe(TraceLog[l])
    /\ val' = [k \in Keys |-> IF k \in LiveKeys' THEN val[k] ELSE NoVal]
    /\ ret' = Void
    /\ freeze > 0 /\ freeze' = freeze - 1
    /\ ThawRule                                          \* (A)
    /\ Dub(Len(mru) - Len(mru'))
    /\ DumpOK'
    /\ Track(exact /\ Thaw)                              \* (B)
    /\ l' = l + 1

TInsert ==
    /\ Ev("Insert")
    /\ LET ev == TraceLog[l]
           v  == [o |-> ev.o, pix |-> ev.pix, hd |-> ev.hd]
       IN  /\ Observe(ev)
           /\ val' = IF ev.ret THEN [val EXCEPT ![ev.k] = v] ELSE val
           /\ ret' = IF ev.ret THEN Found(v) ELSE Void
           /\ Abs!AInsert(ev.k, v)                      \* (A) added (a NULL slot remains) or refused (only when full)
           /\ ev.ret => /\ ev.ro = ev.o                 \* the entry shows the origin and size given
                        /\ ev.hd > 0
           /\ Dub(0)
           /\ DumpOK'
           /\ Track(exact /\ Insert(ev.k, v))           \* (B)
    /\ l' = l + 1

TLookup ==
    /\ Ev("Lookup")
    /\ LET ev == TraceLog[l] IN
       /\ Observe(ev)
       /\ val' = val
       /\ ret' = IF ev.ret THEN Found(val[ev.k]) ELSE Void
       /\ Abs!ALookup(ev.k)                             \* (A) non-NULL exactly for a live key, nothing changes
       /\ ev.ret => /\ val[ev.k].o = ev.ro              \* the live entry: same origin/size ...
                    /\ val[ev.k].hd = ev.hd             \* ... and the very object insert returned
       /\ Dub(0)
       /\ DumpOK'
       /\ Track(exact /\ Lookup(ev.k))                  \* (B)
    /\ l' = l + 1

TRemove ==
    /\ Ev("Remove")
    /\ LET ev == TraceLog[l] IN
       /\ Observe(ev)
       /\ val' = [val EXCEPT ![ev.k] = NoVal]
       /\ ret' = Void
       /\ Abs!ARemove(ev.k)                             \* (A) that entry goes (if present), no other
       /\ Dub(IF ev.k \in LiveKeys THEN 1 ELSE 0)
       /\ DumpOK'
       /\ Track(exact /\ Remove(ev.k))                  \* (B)
    /\ l' = l + 1

(* a drawing call with a list of glyphs = Use of each, in list order *)
RECURSIVE UseAll(_, _)
UseAll(m, ks) == IF ks = <<>> THEN m ELSE UseAll(<<Head(ks)>> \o Without(m, Head(ks)), Tail(ks))

Blank(pix) == \A i \in DOMAIN pix : pix[i] = <<0, 0>>

TUse ==
    /\ Ev("Use")
    /\ LET ev == TraceLog[l] IN
       /\ ~Has(ev, "missing")
       /\ Observe(ev)
       /\ \A i \in DOMAIN ev.ks :
             /\ ev.ks[i] \in LiveKeys                                \* Use's precondition
             /\ ev.got[i].ro = val[ev.ks[i]].o
             /\ (ev.mode = 0) => ev.got[i].pix = val[ev.ks[i]].pix   \* the copy made at insert time, unchanged
             /\ (ev.mode \in {2, 3}) => Blank(ev.got[i].pix)         \* outside / clipped away: nothing drawn
       /\ mru' = UseAll(mru, ev.ks)                     \* (A) AUse of each: drawn glyphs become most recently used,
       /\ LiveKeys' = LiveKeys                          \*     whether or not a pixel of them reached the destination
       /\ ng' = ng /\ nt' <= nt /\ freeze' = freeze     \*     (the lookups that fetch the glyphs may tidy the table)
       /\ val' = val
       /\ ret' = Found(val[ev.ks[Len(ev.ks)]])
       /\ Dub(0)
       /\ DumpOK'
       /\ Track(exact /\ slot' = slot)                  \* (B)
    /\ l' = l + 1

TInit == /\ slot = [i \in Slots |-> NULLV] /\ ng = 0 /\ nt = 0 /\ freeze = 0 /\ mru = <<>>
         /\ val = [k \in Keys |-> NoVal] /\ ret = Void
         /\ l = 1 /\ exact = TRUE /\ dub = 0

TNext == TReset \/ TKeysEv \/ TFreeze \/ TThaw \/ TInsert \/ TLookup \/ TRemove \/ TUse

TSpec == TInit /\ [][TNext]_tvars
=============================================================================
