---------------------------- MODULE GlyphTrace ----------------------------
(* Trace specification, refined level (C17): traces of harness/drv_glyph.c recorded from   *)
(* the small-table build (flavour smallglyph: HIGH = 4, LOW = 2, HASH_SIZE = 8) are        *)
(* validated step by step against GlyphCache.tla.  One NDJSON line per API call, logged    *)
(* after the call returned:                                                                *)
(*   Reset, Keys [H, HIGH, LOW, n, hash]   new execution; the REAL hash of every key       *)
(*   Freeze / Thaw / Insert / Lookup / Remove / Use   with                                 *)
(*       ctr = [n_glyphs, n_tombstones, freeze_count], slots = table dump (0 NULL,         *)
(*       -1 tombstone, key id), mru = keys in list order     (hook H1, _pixman_verif_glyph_dump) *)
(*       ret / hd / ro: returned pointer non-NULL, serial of the insert call that returned *)
(*       that pointer, origin+size seen through pixman_glyph_get_extents                   *)
(*       Use: per glyph what drawing it shows (pix) -- compared with what drawing the      *)
(*       inserted image showed at insert time                                              *)
(* Each action first binds the primed variables to the observation and then evaluates the  *)
(* specification's action as a comparison.  A Crash line (signal, or the alarm that guards *)
(* every call against a probe loop that never ends) is explained by no action.             *)
EXTENDS GlyphCache, TraceIO

VARIABLE l

KeysEv == TraceLog[2]
TKeys  == 1..KeysEv.n
THash  == [k \in TKeys |-> KeysEv.hash[k]]
TH     == KeysEv.H
THigh  == KeysEv.HIGH
TLow   == KeysEv.LOW
TNoVal == [o |-> <<>>, pix |-> <<>>, hd |-> 0]
TVals  == {}

tvars == <<slot, ng, nt, freeze, mru, val, ret, l>>

ObsSlots(ev) == [i \in Slots |-> ev.slots[i + 1]]

Observe(ev) ==
    /\ slot' = ObsSlots(ev)
    /\ ng' = ev.ctr[1]
    /\ nt' = ev.ctr[2]
    /\ freeze' = ev.ctr[3]
    /\ mru' = ev.mru

(* the invariants of GlyphCache.tla, evaluated on the state the library is in after the call *)
StateOK == /\ CountsMatch /\ NoDuplicate /\ Reachable /\ NullExists /\ ProbesTerminate
           /\ MruMatches /\ ValMatches /\ WaterMarks /\ NotStuck

Ev(name) == l <= TraceLen /\ TraceLog[l].e = name

TReset ==
    /\ Ev("Reset")
    /\ slot' = [i \in Slots |-> NULLV] /\ ng' = 0 /\ nt' = 0 /\ freeze' = 0 /\ mru' = <<>>
    /\ val' = [k \in Keys |-> NoVal] /\ ret' = Void
    /\ l' = l + 1

TKeysEv ==
    /\ Ev("Keys")
    /\ TraceLog[l] = KeysEv            \* one key table per trace file: the constants above are the right ones
    /\ UNCHANGED <<slot, ng, nt, freeze, mru, val, ret>>
    /\ l' = l + 1

TFreeze ==
    /\ Ev("Freeze")
    /\ Observe(TraceLog[l])
    /\ Freeze
    /\ StateOK'
    /\ l' = l + 1

TThaw ==
    /\ Ev("Thaw")
    /\ Observe(TraceLog[l])
    /\ Thaw
    /\ ~ret'.hang
    /\ StateOK'
    /\ l' = l + 1

TInsert ==
    /\ Ev("Insert")
    /\ LET ev == TraceLog[l]
           v  == [o |-> ev.o, pix |-> ev.pix, hd |-> ev.hd]
       IN  /\ Observe(ev)
           /\ Insert(ev.k, v)
           /\ ~ret'.hang
           /\ ret'.hit = ev.ret                     \* non-NULL exactly when the specification inserts
           /\ ev.ret => /\ ev.ro = ev.o             \* the entry shows the origin and size given
                        /\ ev.hd > 0
    /\ StateOK'
    /\ l' = l + 1

TLookup ==
    /\ Ev("Lookup")
    /\ LET ev == TraceLog[l] IN
       /\ Observe(ev)
       /\ Lookup(ev.k)
       /\ ~ret'.hang
       /\ ret'.hit = ev.ret
       /\ ev.ret => /\ ret'.v[1].o = ev.ro          \* the live entry: same origin/size ...
                    /\ ret'.v[1].hd = ev.hd         \* ... and the very object insert returned
    /\ StateOK'
    /\ l' = l + 1

TRemove ==
    /\ Ev("Remove")
    /\ Observe(TraceLog[l])
    /\ Remove(TraceLog[l].k)
    /\ ~ret'.hang
    /\ StateOK'
    /\ l' = l + 1

(* a drawing call with a list of glyphs = Use of each, in list order *)
RECURSIVE UseAll(_, _)
UseAll(m, ks) == IF ks = <<>> THEN m ELSE UseAll(<<Head(ks)>> \o Without(m, Head(ks)), Tail(ks))

TUse ==
    /\ Ev("Use")
    /\ LET ev == TraceLog[l] IN
       /\ ~Has(ev, "missing")
       /\ Observe(ev)
       /\ \A i \in DOMAIN ev.ks :
             /\ LookupIdx(slot, ev.ks[i]) >= 0                       \* Use's precondition
             /\ ev.got[i].ro = val[ev.ks[i]].o
             /\ (ev.mode = 0) => ev.got[i].pix = val[ev.ks[i]].pix   \* the copy made at insert time, unchanged
       /\ mru' = UseAll(mru, ev.ks)
       /\ ret' = Found(val[ev.ks[Len(ev.ks)]])
       /\ UNCHANGED val
       /\ slot' = slot /\ ng' = ng /\ nt' = nt /\ freeze' = freeze
    /\ StateOK'
    /\ l' = l + 1

TInit == /\ slot = [i \in Slots |-> NULLV] /\ ng = 0 /\ nt = 0 /\ freeze = 0 /\ mru = <<>>
         /\ val = [k \in Keys |-> NoVal] /\ ret = Void
         /\ l = 1

TNext == TReset \/ TKeysEv \/ TFreeze \/ TThaw \/ TInsert \/ TLookup \/ TRemove \/ TUse

TSpec == TInit /\ [][TNext]_tvars
=============================================================================
