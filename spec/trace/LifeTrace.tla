------------------------------- MODULE LifeTrace -------------------------------
(* Trace specification for image lifetime (C20).  One NDJSON line per API call, logged by        *)
(* harness/drv_life.c after the call returned:                                                    *)
(*   Reset                      new execution: empty pool, empty glyph cache, nothing allocated   *)
(*   Op op i j v cv ret sub     the call (fields of Image!Call), its return value and the         *)
(*                              sub-events inside it in program order:                            *)
(*        M id size / F id        allocation made / released by pixman (--wrap shim)              *)
(*        R img rc / U img rc f   pixman_image_ref / unref reported by the hook: count after, freed *)
(*        D img data              destroy callback                                                *)
(*   End                        the script has dropped every reference it owned                   *)
(* State: life, the specification's record (Image.tla part 1), and live, the set of allocations   *)
(* pixman holds, <<id, owner>>, owner = the image slot (or 100 + glyph key) whose call made it.   *)
(* A call is accepted iff some state the specification allows after it (LifeStep) explains what   *)
(* was observed:                                                                                  *)
(*   - unref returned what the specification returns; every other call succeeded;                 *)
(*   - the reference counts reported by the hook move one by one from the specification's count   *)
(*     before to its count after, and "freed" is reported exactly at zero;                        *)
(*   - destroy callbacks: exactly those of the images the specification releases in this call,    *)
(*     each once, with the user data last set, and before anything that image owned is freed;     *)
(*   - every free is of a live allocation (no double free); only allocations of the image the     *)
(*     call is applied to (a setter replacing a buffer) or of an image released in this call, or  *)
(*     made in this call, are freed;                                                              *)
(*   - the glyph cache owns private copies: insert takes or drops no reference on its argument,   *)
(*     a failing insert leaves nothing behind, remove / thaw eviction / destroy release each copy  *)
(*     completely (thaw may evict any subset: which one is C17's business), destroy releases all; *)
(*   - an image released in this call has nothing live afterwards, a live image has something     *)
(*     live (its structure), an allocation that outlives the call has an owner;                   *)
(*   - at End nothing is live.                                                                    *)
(* "press" is the glyph table before the call as the library reports it (live glyphs, tombstones, *)
(* water marks); it is not judged: checks/life.py reads it to measure which situations            *)
(* (Image!GPressure) the recorded thaws were in.                                                   *)
(* Nothing is demanded about how many allocations an image uses or when a setter reallocates.     *)
EXTENDS Image, TraceIO

VARIABLES life, live, l

Fresh == 999       \* owner of an allocation made in the call being examined

RECURSIVE Scan(_, _, _)
Scan(sub, n, st) ==
    IF n > Len(sub) \/ ~st.ok THEN st ELSE
    LET e == sub[n] IN
    IF e.k = "M" THEN Scan(sub, n + 1, [st EXCEPT !.cur = @ \cup {<<e.a, Fresh>>}])
    ELSE IF e.k = "F" THEN
        LET hit == {x \in st.cur : x[1] = e.a} IN
        IF hit = {} THEN [st EXCEPT !.ok = FALSE, !.why = "free of an address that is not live"]
        ELSE Scan(sub, n + 1, [st EXCEPT !.cur = @ \ hit, !.freed = @ \cup {x[2] : x \in hit}])
    ELSE IF e.k = "D" THEN
        IF e.a \in st.freed THEN [st EXCEPT !.ok = FALSE, !.why = "destroy callback after a free"]
        ELSE Scan(sub, n + 1, [st EXCEPT !.cbs = Append(@, <<e.a, e.b>>)])
    ELSE Scan(sub, n + 1, st)

(* reference count of image i after the R/U events of sub, starting from rc; 9999 if they do not form a chain *)
RECURSIVE RcAfter(_, _, _, _)
RcAfter(sub, n, i, rc) ==
    IF n > Len(sub) THEN rc ELSE
    LET e == sub[n] IN
    IF e.k \in {"R", "U"} /\ e.a = i THEN
        IF rc = 0 \/ rc = 9999 THEN 9999
        ELSE IF e.k = "R" THEN (IF e.b = rc + 1 /\ e.c = 0 THEN RcAfter(sub, n + 1, i, rc + 1) ELSE 9999)
        ELSE (IF e.b = rc - 1 /\ (e.c = 1) = (rc = 1) THEN RcAfter(sub, n + 1, i, rc - 1) ELSE 9999)
    ELSE RcAfter(sub, n + 1, i, rc)

SubjectOwner(c) ==      \* who owns what the call allocates and keeps
    CASE c.op \in {"create", "transform", "filter", "clip"} -> c.i
      [] c.op = "ginsert" -> GOwner(c.j)
      [] c.op = "gcreate" -> COwner
      [] OTHER -> 0
MayFreeOf(c, T) ==      \* whose allocations the call may release
    DiedSet(T) \cup (IF c.op \in {"transform", "filter", "clip"} THEN {c.i} ELSE {})
               \cup (IF c.op = "gremove" THEN {GOwner(c.j)} ELSE {})
               \cup {GOwner(k) : k \in life.glyphs \ T.glyphs}        \* evicted by thaw / released by destroy
               \cup (IF c.op = "gdestroy" THEN {COwner} ELSE {})
               \cup {Fresh}

OwnersIn(L) == {x[2] : x \in L}

Explains(T, ev, c, st, newlive) ==
    /\ T.err = ""
    /\ CASE c.op \in {"unref", "glookup"} -> ev.ret = T.ret
         [] c.op = "gbad" -> ~ev.ret                    \* the insert that cannot be done reports so
         [] OTHER -> ev.ret
    \* (a new image starts with one reference, which no hook reports)
    /\ \A i \in Img : RcAfter(ev.sub, 1, i, IF c.op = "create" /\ i = c.i THEN 1 ELSE life.refs[i]) = T.refs[i]
    \* (images that are not in the pool -- glyph-cache copies, temporary masks -- are judged by their allocations only)
    /\ LET want == {<<T.died[n][1], T.died[n][2]>> : n \in {m \in DOMAIN T.died : T.died[m][2] # 0}} IN
          /\ {st.cbs[n] : n \in DOMAIN st.cbs} = want
          /\ Len(st.cbs) = Cardinality(want)
    /\ st.freed \subseteq MayFreeOf(c, T)
    /\ \A d \in DiedSet(T) : d \notin OwnersIn(newlive)
    /\ 0 \notin OwnersIn(newlive)
    /\ \A i \in Img : Alive(T, i) <=> i \in OwnersIn(newlive)
    /\ \A k \in GKeys : (k \in T.glyphs) <=> GOwner(k) \in OwnersIn(newlive)
    /\ T.cache <=> COwner \in OwnersIn(newlive)

TReset ==
    /\ l <= TraceLen /\ TraceLog[l].e = "Reset"
    /\ life' = LifeInit /\ live' = {}
    /\ l' = l + 1

TOp ==
    /\ l <= TraceLen /\ TraceLog[l].e = "Op"
    /\ LET ev == TraceLog[l]
           c  == Call(ev.op, ev.i, ev.j, ev.v)
           st == Scan(ev.sub, 1, [cur |-> live, freed |-> {}, cbs |-> <<>>, ok |-> TRUE, why |-> ""])
           newlive == {IF x[2] = Fresh THEN <<x[1], SubjectOwner(c)>> ELSE x : x \in st.cur}
       IN
       /\ ~ev.ovf
       /\ c \in LifeCalls(life)            \* the script respects the client's obligations
       /\ st.ok
       \* a thaw may let go any subset of the cached copies (GThawSucc): the one to examine is the set of glyphs
       \* something of which was released in this call (enumerating all subsets of a full table is not needed)
       /\ \E T \in (IF c.op = "gthaw"
                     THEN {GDropAll(Begin(life), {k \in life.glyphs : GOwner(k) \in st.freed})}     \* a member of GThawSucc
                     ELSE LifeStep(life, c)) :
             /\ Explains(T, ev, c, st, newlive)
             /\ life' = T        \* (T.dev names the outcome taken where the statement leaves it open; both are accepted)
       /\ live' = newlive
    /\ l' = l + 1

TEnd ==
    /\ l <= TraceLen /\ TraceLog[l].e = "End"
    /\ TraceLog[l].pending = 0
    /\ live = {}                                         \* nothing pixman allocated is left
    /\ \A i \in Img : ~Alive(life, i)
    /\ life.glyphs = {} /\ ~life.cache
    /\ UNCHANGED <<life, live>>
    /\ l' = l + 1

TInit == life = LifeInit /\ live = {} /\ l = 1
TNext == TReset \/ TOp \/ TEnd
TSpec == TInit /\ [][TNext]_<<life, live, l>>

(* every execution in the file must have run to its End (a crash leaves an unexplained or missing tail) *)
LifeAccepted == TraceAccepted /\ TraceLen > 0 /\ TraceLog[TraceLen].e = "End"
=============================================================================
