--------------------------- MODULE CompositeTrace ---------------------------
(* Trace specification for Composite.tla (C19: blt / fill / fill_boxes; C03: frame condition  *)
(* of every drawing entry point and pixman_compute_composite_region).  One NDJSON line per    *)
(* call, logged by harness/drv_fill.c and harness/drv_frame.c after the call returned:        *)
(*   Reset                                                                                     *)
(*   Setup     dst {fmt w h stride off hc clip am[]} src/mask {p hc cs cc clip} dbuf abuf sbuf  *)
(*   Fill      bpp stride off x y w h v ret after                                               *)
(*   Blt       sbpp dbpp sstride dstride soff doff sx sy dx dy w h ret after safter             *)
(*   BltIn     (as Blt, without safter) pixman_blt within the destination buffer                 *)
(*   FillBoxes api op col boxes ret after aafter ref                                            *)
(*   Region    rq ret rects                                                                     *)
(*   Draw      api op rq xoff yoff shapes after aafter                                          *)
(* The buffers are the whole allocations (guard bytes, row padding included).  The `before'   *)
(* of a call is the specification's state mem, i.e. the `after' of the previous call.        *)
(* CHECKS: "c19" judges Fill / Blt / FillBoxes completely; "c03" judges the frame condition   *)
(* of FillBoxes and Draw and the Region report.                                               *)
EXTENDS Composite, TraceIO

CONSTANTS CHECKS,        \* which property's conjuncts are judged
          Deviations     \* ids of known findings (named deviation actions) tolerated and reported

VARIABLE l

vars == <<img, reg, mem, l>>

Rect(b) == <<b[1], b[2], b[3], b[4]>>
RectList(bs) == [i \in DOMAIN bs |-> Rect(bs[i])]

NoImage == [present |-> FALSE, w |-> 0, h |-> 0, hc |-> FALSE, cs |-> FALSE, cc |-> FALSE, am |-> <<>>]
NoMem == [dst |-> <<>>, src |-> <<>>, alpha |-> <<>>]

GeomOf(d) == [bpp |-> FormatInfo(d.fmt).bpp, stride |-> d.stride, off |-> d.off, w |-> d.w, h |-> d.h]

DstOf(d) ==
    IF d.fmt = "raw" THEN NoImage
    ELSE [present |-> TRUE, fmt |-> d.fmt, w |-> d.w, h |-> d.h, hc |-> d.hc, cs |-> FALSE, cc |-> FALSE,
          g |-> GeomOf(d),
          am |-> IF d.am = <<>> THEN <<>>
                 ELSE <<[w |-> d.am[1].w, h |-> d.am[1].h, ox |-> d.am[1].ox, oy |-> d.am[1].oy,
                         g |-> GeomOf(d.am[1])]>>]

AmcOf(a) == IF a.p /\ a.hc /\ a.cs /\ a.cc THEN <<[ox |-> a.ox, oy |-> a.oy, r |-> Canon(RectList(a.clip))]>> ELSE <<>>
SrcOf(s, ev, k) == [present |-> s.p, w |-> 0, h |-> 0, hc |-> s.hc, cs |-> s.cs, cc |-> s.cc, am |-> <<>>,
                    amc |-> IF Has(ev, k) THEN AmcOf(ev[k]) ELSE <<>>]

ClipOf(s) == IF s.hc THEN Val(Canon(RectList(s.clip))) ELSE Empty

TInit == /\ img = [dst |-> NoImage, src |-> NoImage, mask |-> NoImage]
         /\ reg = [dst |-> Empty, src |-> Empty, mask |-> Empty]
         /\ mem = NoMem
         /\ l = 1

TReset ==
    /\ l <= TraceLen /\ TraceLog[l].e = "Reset"
    /\ img' = [dst |-> NoImage, src |-> NoImage, mask |-> NoImage]
    /\ reg' = [dst |-> Empty, src |-> Empty, mask |-> Empty]
    /\ mem' = NoMem
    /\ l' = l + 1

TSetup ==
    /\ l <= TraceLen /\ TraceLog[l].e = "Setup"
    /\ LET ev == TraceLog[l] IN
       Setup([dst |-> DstOf(ev.dst), src |-> SrcOf(ev.src, ev, "srcam"), mask |-> SrcOf(ev.mask, ev, "maskam")],
             [dst |-> IF ev.dst.fmt = "raw" THEN Empty ELSE ClipOf(ev.dst), src |-> ClipOf(ev.src), mask |-> ClipOf(ev.mask)],
             [dst |-> ev.dbuf, src |-> ev.sbuf, alpha |-> ev.abuf])
    /\ l' = l + 1

TFill ==
    /\ l <= TraceLen /\ TraceLog[l].e = "Fill"
    /\ LET ev == TraceLog[l] IN
       /\ mem' = [mem EXCEPT !.dst = ev.after]
       /\ Fill([bpp |-> ev.bpp, stride |-> ev.stride, off |-> ev.off], ev.x, ev.y, ev.w, ev.h, ev.v, ev.ret)
    /\ l' = l + 1

TBlt ==
    /\ l <= TraceLen /\ TraceLog[l].e = "Blt"
    /\ LET ev == TraceLog[l] IN
       /\ mem' = [mem EXCEPT !.dst = ev.after]
       /\ ev.safter = mem.src                         \* the source is not written
       /\ Blt([bpp |-> ev.sbpp, stride |-> ev.sstride, off |-> ev.soff],
              [bpp |-> ev.dbpp, stride |-> ev.dstride, off |-> ev.doff],
              ev.sx, ev.sy, ev.dx, ev.dy, ev.w, ev.h, ev.ret)
    /\ l' = l + 1

TBltIn ==
    /\ l <= TraceLen /\ TraceLog[l].e = "BltIn"
    /\ LET ev == TraceLog[l] IN
       /\ mem' = [mem EXCEPT !.dst = ev.after]
       /\ BltInPlace([bpp |-> ev.sbpp, stride |-> ev.sstride, off |-> ev.soff],
                     [bpp |-> ev.dbpp, stride |-> ev.dstride, off |-> ev.doff],
                     ev.sx, ev.sy, ev.dx, ev.dy, ev.w, ev.h, ev.ret)
    /\ l' = l + 1

BoxesOf(ev) ==
    IF ev.api = "rects"
    THEN [i \in DOMAIN ev.boxes |-> <<ev.boxes[i][1], ev.boxes[i][2],
                                      ev.boxes[i][1] + ev.boxes[i][3], ev.boxes[i][2] + ev.boxes[i][4]>>]
    ELSE RectList(ev.boxes)

TFillBoxes ==
    /\ l <= TraceLen /\ TraceLog[l].e = "FillBoxes"
    /\ LET ev == TraceLog[l] IN
       /\ mem' = [mem EXCEPT !.dst = ev.after, !.alpha = ev.aafter]
       /\ IF "c19" \in CHECKS
          THEN FillBoxes(ev.op, ev.col, BoxesOf(ev), ev.ref)
          ELSE DrawsWithin(FillRegion(BoxesOf(ev)))
    /\ l' = l + 1

TRegion ==
    /\ l <= TraceLen /\ TraceLog[l].e = "Region"
    /\ LET ev == TraceLog[l] IN ComputeCompositeRegion(ev.rq, ev.ret, RectList(ev.rects))
    /\ l' = l + 1

(* Entry points that rasterise straight into the image have no request rectangle and no source. *)
RasterApis == {"addtraps", "addtrapezoids", "addtris", "rasterize"}

FixFloor(v) == v \div 65536
FixCeil(v) == -((-v) \div 65536)

(* y extent [y1, y2) of the shapes of a rasterising call, in destination rows *)
ShapeYs(ev) ==
    LET S == ev.shapes
        tops == CASE ev.api = "addtraps" -> {S[i][3] : i \in DOMAIN S}
                  [] ev.api = "addtris" -> {S[i][2] : i \in DOMAIN S} \cup {S[i][4] : i \in DOMAIN S} \cup {S[i][6] : i \in DOMAIN S}
                  [] OTHER -> {S[i][1] : i \in DOMAIN S}
        bots == CASE ev.api = "addtraps" -> {S[i][6] : i \in DOMAIN S}
                  [] ev.api = "addtris" -> tops
                  [] OTHER -> {S[i][2] : i \in DOMAIN S}
    IN  <<FixFloor(CHOOSE t \in tops : \A o \in tops : t <= o) + ev.yoff,
          FixCeil(CHOOSE b \in bots : \A o \in bots : b >= o) + ev.yoff>>

(* the region a drawing call may touch *)
RegionFor(ev) ==
    LET noMask == [img EXCEPT !.mask = NoImage] IN      \* these calls take no mask image (glyph masks are internal)
    CASE ev.api = "composite" -> CompositeRegion(ev.rq)
      [] ev.api = "glyphs"    -> CompositeRegionOf(noMask, reg, ev.rq)
      [] ev.api \in {"glyphsnm", "ctraps", "ctris"} ->
             CompositeRegionOf(noMask, reg, WholeDest(ev.rq.sx, ev.rq.sy, ev.rq.dx, ev.rq.dy))
      [] ev.api \in RasterApis -> DestPart(img.dst, reg.dst.r)

TDraw ==
    /\ l <= TraceLen /\ TraceLog[l].e = "Draw"
    /\ LET ev == TraceLog[l] IN
       /\ mem' = [mem EXCEPT !.dst = ev.after, !.alpha = ev.aafter]
       /\ \/ DrawsWithin(RegionFor(ev))
          \* known finding C03-raster-ignores-clip: pixman_add_traps / add_trapezoids / add_triangles /
          \* rasterize_trapezoid write straight into the image and honour only its bounds: with a clip
          \* region (or alpha map) on the destination, rows covered by the shapes change outside it.
          \/ /\ ev.api \in RasterApis /\ ev.shapes # <<>>
             /\ "C03-raster-ignores-clip" \in Deviations
             /\ ~AsValue(FrameOK(mem.dst, ev.after, DstGeom, RegionFor(ev)))
             /\ LET ys == ShapeYs(ev) IN
                /\ AsValue(FrameOK(mem.dst, ev.after, DstGeom, Inter(Bounds(img.dst), <<(<<0, ys[1], img.dst.w, ys[2]>>)>>)))
                /\ ev.aafter = mem.alpha
             /\ UNCHANGED <<img, reg>>
             /\ Deviation("C03-raster-ignores-clip", l)
    /\ l' = l + 1

TNext == TReset \/ TSetup \/ TFill \/ TBlt \/ TBltIn \/ TFillBoxes \/ TRegion \/ TDraw
TSpec == TInit /\ [][TNext]_vars
=============================================================================
