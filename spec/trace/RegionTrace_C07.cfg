SPECIFICATION TSpec
CONSTANT CHECKS = {"query"}
POSTCONDITION TraceAccepted
