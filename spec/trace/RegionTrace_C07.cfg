SPECIFICATION TSpec
CONSTANT CHECKS = {"query"}
CONSTANT Deviations = {}
POSTCONDITION TraceAccepted
