SPECIFICATION TSpec
CONSTANTS
  Fixed1 = 65536
  EnabledDeviations = {}
POSTCONDITION TraceAccepted
