----------------------------- MODULE TrapTrace -----------------------------
(***************************************************************************)
(* Trace specification for C12.  One NDJSON line per public API call,      *)
(* logged by harness/drv_trap.c after the call returned:                   *)
(*   Reset                                                                 *)
(*   SampleY  n ys ceil floor      pixman_sample_ceil_y / floor_y, 32-bit  *)
(*                                 values as [hi16, lo16]                  *)
(*   Walk     n init steps eds     pixman_edge_init (ystart xt yt xb yb)   *)
(*                                 and pixman_edge_step (steps[i]); eds =  *)
(*                                 the pixman_edge_t after each call       *)
(*   LineInit n args ed            pixman_line_fixed_edge_init             *)
(*   Rast     api n w h xoff yoff shapes before after outside              *)
(*                                 rasterize_trapezoid / add_trapezoids /  *)
(*                                 add_traps / add_triangles on an alpha   *)
(*                                 image: pixel values before and after    *)
(*   Comp     api args ...         composite_trapezoids / triangles /      *)
(*                                 image_composite32 (judged through Eq)   *)
(*   Eq       kind a b             the pixels of two images produced by    *)
(*                                 routes the property declares equivalent *)
(*   Shift    w h dx dy a b        b is claimed to be a shifted by (dx,dy) *)
(* Walk / LineInit are judged on two levels.  (A) mandatory: the abscissa x *)
(* of the edge after every call is the specification's (the only thing of  *)
(* an edge walk the property constrains: where the line crosses the row,   *)
(* rounded by the sample-grid rule).  (B) tracked only: the remaining      *)
(* fields of pixman_edge_t (error term, pre-reduced steps) equal the       *)
(* Bresenham-style representation of Trap.tla; the first departure is      *)
(* reported as a policy note and validation continues with (A).            *)
(* Edges with end points beyond the domain of the walker record (deltas of  *)
(* up to 33 bits) are judged on level (A) against the mathematical line     *)
(* (Trap!LineX and the Trap cursor): Walk, LineInit, through TrapRowsQ Rast. *)
(* Every event must be explained by the specification (Trap.tla with no    *)
(* quirk).  If EnabledDeviations names quirks of the unrepaired tree       *)
(* (known findings), an event that the specification does not explain may  *)
(* be explained by the walker with those quirks; the deviation is reported.*)
(***************************************************************************)
EXTENDS Trap, TraceIO, FiniteSets

CONSTANT EnabledDeviations        \* subset of {"stale", "exact0", "backstep", "wrap", "halve"}

VARIABLES l,        \* next trace line
          noted     \* a departure of the walker's internal representation has been reported (level B)

FromW(p) == (IF p[1] >= 32768 THEN p[1] - 65536 ELSE p[1]) * 65536 + p[2]

DevName(f) == CASE f = "stale"    -> "C12-stale-error-term"
                [] f = "exact0"   -> "C12-exact-start"
                [] f = "backstep" -> "C12-whole-slope-backstep"
                [] f = "wrap"     -> "C12-floor-y-wrap"
                [] f = "halve"    -> "C12-halved-deltas"

QOf(S) == [stale |-> "stale" \in S, exact0 |-> "exact0" \in S, backstep |-> "backstep" \in S, wrap |-> "wrap" \in S]
Cands == (SUBSET (EnabledDeviations \ {"halve"})) \ {{}}

(* P(q): "the event is what the walker with quirks q produces".  The specification (no quirk) is *)
(* tried first; otherwise a smallest set of enabled quirks that explains the event is reported. *)
Explained(P(_)) ==
    IF P(NoQuirks) THEN TRUE
    ELSE LET ok == {S \in Cands : P(QOf(S))} IN
         /\ ok # {}
         /\ LET S == CHOOSE S \in ok : \A T \in ok : Cardinality(S) <= Cardinality(T)
            IN  \A f \in S : Deviation(DevName(f), l)

EdSeq(ed) == <<ed.x, ed.e, ed.stepx, ed.signdx, ed.dy, ed.dx, ed.stepx_small, ed.stepx_big, ed.dx_small, ed.dx_big>>

TReset == /\ l <= TraceLen /\ TraceLog[l].e = "Reset"
          /\ l' = l + 1 /\ UNCHANGED noted

TSampleY ==
    /\ l <= TraceLen /\ TraceLog[l].e = "SampleY"
    /\ LET ev == TraceLog[l]
           P(q) == \A i \in DOMAIN ev.ys :
                      LET y == FromW(ev.ys[i]) IN
                      /\ FromW(ev.ceil[i]) = SampleCeilY(y, ev.n)
                      /\ FromW(ev.floor[i]) = SampleFloorYQ(y, ev.n, q.wrap)
       IN  Explained(P)
    /\ l' = l + 1 /\ UNCHANGED noted

(* the walker states the specification predicts for an init followed by steps *)
RECURSIVE WalkStates(_, _, _, _)
WalkStates(ed, steps, k, q) ==
    IF k > Len(steps) THEN <<>> ELSE
    LET nx == EdgeStepQ(ed, steps[k], q) IN <<EdSeq(nx)>> \o WalkStates(nx, steps, k + 1, q)

Xs(eds) == [i \in DOMAIN eds |-> eds[i][1]]
(* level (B): note the first departure of the internal representation, never reject *)
Track(same) ==
    /\ noted' = (noted \/ ~same)
    /\ (~noted /\ ~same) => PrintT(<<"VF:policy", "edge-state", l>>)

(* Known finding C12-halved-deltas.  An edge TALLER than the 16.16 range (yb - yt >= 2^31) has a *)
(* dy that a pixman_edge_t cannot hold; pixman_edge_init follows it with both deltas halved,     *)
(* which is the same line only when both are even.  For exactly this class - dy >= 2^31 and an   *)
(* odd delta - and only with the deviation enabled, an abscissa within two units of the          *)
(* mathematical line is accepted and reported.                                                   *)
TallOdd(xt, yt, xb, yb) ==
    LET dd == EdgeDeltas(xt, yt, xb, yb) IN
    /\ ~WLess(dd[2], WDouble(WOf(1073741824)))
    /\ (WOdd(dd[1]) \/ WOdd(dd[2]))
WideJudge(xs, exact, xt, yt, xb, yb) ==
    IF xs = exact THEN TRUE
    ELSE /\ "halve" \in EnabledDeviations
         /\ TallOdd(xt, yt, xb, yb)
         /\ Len(xs) = Len(exact)
         /\ (\A i \in DOMAIN exact : exact[i] - 2 <= xs[i] /\ xs[i] <= exact[i] + 2) = TRUE
         /\ Deviation(DevName("halve"), l)

(* the rows an init on ystart followed by steps visits *)
RECURSIVE RowsFrom(_, _, _)
RowsFrom(y, steps, k) == IF k > Len(steps) THEN <<y>> ELSE <<y>> \o RowsFrom(y + steps[k], steps, k + 1)

(* An edge whose end points or rows lie outside the domain of the walker record (deltas of up to  *)
(* 33 bits, which no pixman_edge_t holds either) is judged against the mathematical line: level    *)
(* (A) only, the abscissa after the init and after every step is LineX on the row reached.        *)
TWalk ==
    /\ l <= TraceLen /\ TraceLog[l].e = "Walk"
    /\ LET ev == TraceLog[l]
           a == ev.init
           rows == RowsFrom(a[1], ev.steps, 1)
           narrow == \A i \in DOMAIN rows : NarrowEdge(a[2], a[3], a[4], a[5], rows[i])
           Model(q) == LET e0 == EdgeInitQ(ev.n, a[1], a[2], a[3], a[4], a[5], q) IN
                       <<EdSeq(e0)>> \o WalkStates(e0, ev.steps, 1, q)
           PA(q) == Xs(ev.eds) = Xs(Model(q))                   \* (A) x after the init and after every step
       IN  IF narrow
           THEN /\ Explained(PA)
                /\ Track(ev.eds = Model(NoQuirks))              \* (B)
           ELSE /\ a[5] > a[3] /\ Len(ev.eds) = Len(rows)
                /\ WideJudge(Xs(ev.eds), [i \in DOMAIN rows |-> LineX(a[2], a[3], a[4], a[5], rows[i])],
                             a[2], a[3], a[4], a[5])
                /\ UNCHANGED noted
    /\ l' = l + 1

TLineInit ==
    /\ l <= TraceLen /\ TraceLog[l].e = "LineInit"
    /\ LET ev == TraceLog[l]
           a == ev.args
           Model(q) == EdSeq(LineEdgeInitQ(ev.n, a[1], <<a[2], a[3], a[4], a[5]>>, a[6], a[7], q))
           PA(q) == ev.ed[1] = Model(q)[1]
           xo == a[6] * Fixed1  yo == a[7] * Fixed1
           p1first == a[3] <= a[5]
           tx == (IF p1first THEN a[2] ELSE a[4]) + xo  ty == (IF p1first THEN a[3] ELSE a[5]) + yo
           bx == (IF p1first THEN a[4] ELSE a[2]) + xo  by == (IF p1first THEN a[5] ELSE a[3]) + yo
       IN  IF NarrowEdge(tx, ty, bx, by, a[1])
           THEN /\ Explained(PA)
                /\ Track(ev.ed = Model(NoQuirks))
           ELSE /\ by > ty
                /\ WideJudge(<<ev.ed[1]>>, <<LineX(tx, ty, bx, by, a[1])>>, tx, ty, bx, by)
                /\ UNCHANGED noted
    /\ l' = l + 1

TRast ==
    /\ l <= TraceLen /\ TraceLog[l].e = "Rast"
    /\ LET ev == TraceLog[l]
           P(q) == ev.after =
                     CASE ev.api = "rasterize_trapezoid" -> AddTrapezoidsQ(ev.before, ev.shapes, ev.n, ev.w, ev.h, ev.xoff, ev.yoff, q)
                       [] ev.api = "add_trapezoids"      -> AddTrapezoidsQ(ev.before, ev.shapes, ev.n, ev.w, ev.h, ev.xoff, ev.yoff, q)
                       [] ev.api = "add_traps"           -> AddTrapsQ(ev.before, ev.shapes, ev.n, ev.w, ev.h, ev.xoff, ev.yoff, q)
                       [] ev.api = "add_triangles"       -> AddTrianglesQ(ev.before, ev.shapes, ev.n, ev.w, ev.h, ev.xoff, ev.yoff, q)
       IN  /\ ev.outside = 0                 \* nothing outside the w x h pixels was written
           /\ Len(ev.before) = ev.w * ev.h /\ Len(ev.after) = ev.w * ev.h
           /\ Explained(P)
    /\ l' = l + 1 /\ UNCHANGED noted

TComp ==
    /\ l <= TraceLen /\ TraceLog[l].e = "Comp"
    /\ TraceLog[l].outside = 0
    /\ l' = l + 1 /\ UNCHANGED noted

(* Two images obtained through routes the property declares equivalent.  Kinds hsplit, vsplit,  *)
(* stagger (abutting parts against their union) are what the walker quirks break: with such a   *)
(* deviation enabled an unequal pair is attributed to it.  Kinds starting with "obs" are        *)
(* observations outside the statement (reported, never judged).                                 *)
TilingKinds == {"hsplit", "vsplit", "stagger"}
TEq ==
    /\ l <= TraceLen /\ TraceLog[l].e = "Eq"
    /\ LET ev == TraceLog[l] IN
       IF ev.a = ev.b THEN TRUE
       ELSE IF ev.kind \in {"obs-doc-extents"} THEN PrintT(<<"VF:obs", ev.kind, l>>)
       ELSE /\ ev.kind \in TilingKinds
            /\ \E f \in {"stale", "exact0", "backstep"} \cap EnabledDeviations : TRUE
            /\ \A f \in {"stale", "exact0", "backstep"} \cap EnabledDeviations : Deviation(DevName(f), l)
    /\ l' = l + 1 /\ UNCHANGED noted

TShift ==
    /\ l <= TraceLen /\ TraceLog[l].e = "Shift"
    /\ LET ev == TraceLog[l] IN
       \A q \in 0..(ev.h - 1) : \A p \in 0..(ev.w - 1) :
          (p + ev.dx \in 0..(ev.w - 1) /\ q + ev.dy \in 0..(ev.h - 1)) =>
             ev.b[(q + ev.dy) * ev.w + p + ev.dx + 1] = ev.a[q * ev.w + p + 1]
    /\ l' = l + 1 /\ UNCHANGED noted

TInit == l = 1 /\ noted = FALSE
TNext == TReset \/ TSampleY \/ TWalk \/ TLineInit \/ TRast \/ TComp \/ TEq \/ TShift
TSpec == TInit /\ [][TNext]_<<l, noted>>
=============================================================================
