---------------------------- MODULE SampleTrace ----------------------------
(* Trace specification for C08.  One NDJSON line per API call, logged by harness/drv_sample.c *)
(* after the call returned (32-bit words as [hi16, lo16]):                                     *)
(*   Reset                                  new execution                                      *)
(*   Image     fmt w h pix                  pixman_image_create_bits; pix[y][x] raw pixel      *)
(*   Transform m ret                        pixman_image_set_transform, m = 9 raw 16.16 words  *)
(*   Filter    f params ret                 pixman_image_set_filter                            *)
(*   Repeat    r                            pixman_image_set_repeat                            *)
(*   Fetch     role x0 y0 n rows dx out     OP_SRC composite into a8r8g8b8; out[j][i] = the    *)
(*                                          destination pixel that samples (x0+i, y0+j)        *)
(*   FetchWide mode role x0 y0 n rows max out    the same through the wide pipeline; out[j][i] =   *)
(*                                          channel numerators <<a,r,g,b>> over max           *)
(*   FetchWin  role op dfmt mask before x0 y0 n rows dx wins out   SRC / OVER composite into a      *)
(*                                          destination of format dfmt filled with `before`; only the  *)
(*                                          windows wins = [i0, j0, wn, hn] of the destination are     *)
(*                                          recorded: out[k][j][i] raw pixel of window k               *)
(* Every Fetch must show, pixel by pixel, the reference value of Sample.tla (projective         *)
(* transforms: at some admissible position).                                                    *)
EXTENDS Sample, TraceIO

CONSTANT Deviations     \* ids of known findings (named deviation actions) that are tolerated and reported

VARIABLE l

W32(p) == IF p[1] >= 32768 THEN (p[1] - 65536) * 65536 + p[2] ELSE p[1] * 65536 + p[2]
Words(s) == [k \in DOMAIN s |-> W32(s[k])]
ObsPix(o) == <<o[1] \div 256, o[1] % 256, o[2] \div 256, o[2] % 256>>

TReset ==
    /\ l <= TraceLen /\ TraceLog[l].e = "Reset"
    /\ SetImage(MkImage("a8r8g8b8", 1, 1, <<<< <<0, 0>> >>>>))
    /\ l' = l + 1

TImage ==
    /\ l <= TraceLen /\ TraceLog[l].e = "Image"
    /\ LET ev == TraceLog[l] IN SetImage(MkImage(ev.fmt, ev.w, ev.h, ev.pix))
    /\ l' = l + 1

TTransform ==
    /\ l <= TraceLen /\ TraceLog[l].e = "Transform"
    /\ LET ev == TraceLog[l]  v == Words(ev.m) IN
       /\ ev.ret
       /\ SetTransform(<<<<v[1], v[2], v[3]>>, <<v[4], v[5], v[6]>>, <<v[7], v[8], v[9]>>>>)
    /\ l' = l + 1

TFilter ==
    /\ l <= TraceLen /\ TraceLog[l].e = "Filter"
    /\ LET ev == TraceLog[l] IN ev.ret /\ SetFilter(ev.f, Words(ev.params))
    /\ l' = l + 1

TRepeat ==
    /\ l <= TraceLen /\ TraceLog[l].e = "Repeat"
    /\ SetRepeat(TraceLog[l].r)
    /\ l' = l + 1

TFetch ==
    /\ l <= TraceLen /\ TraceLog[l].e = "Fetch"
    /\ LET ev == TraceLog[l]
           px == [j \in 1..ev.rows |-> [i \in 1..ev.n |-> ObsPix(ev.out[j][i])]]
       IN \/ Fetch(ev.x0, ev.y0, ev.n, ev.rows, px)
          \/ /\ "C08-solid-ignores-kernel-gain" \in Deviations
             /\ Dev_SolidIgnoresKernelGain(ev.x0, ev.y0, ev.n, ev.rows, px)
             /\ Deviation("C08-solid-ignores-kernel-gain", l)
    /\ l' = l + 1

TFetchWide ==
    /\ l <= TraceLen /\ TraceLog[l].e = "FetchWide"
    /\ LET ev == TraceLog[l] IN FetchWide(ev.x0, ev.y0, ev.n, ev.rows, ev.out, ev.max)
    /\ l' = l + 1

(* op "over" shows the samples only on a cleared destination (before = 0); mask "solid" / "a8" are   *)
(* all-ones masks.  A request outside FetchFar's arithmetic domain is not judged: noted, so that the  *)
(* orchestrator can tell a vacuous suite from a judged one.                                           *)
TFetchWin ==
    /\ l <= TraceLen /\ TraceLog[l].e = "FetchWin"
    /\ LET ev == TraceLog[l] IN
       /\ ev.op \in {"src", "over"} /\ ev.dfmt \in {"a8r8g8b8", "x8r8g8b8", "r5g6b5"}
       /\ (ev.op = "over" => ev.before = <<0, 0>>) = TRUE
       /\ (FarInDomain(transform, ev.x0, ev.y0, ev.n, ev.rows) \/ PrintT(<<"VF:policy", "far-skip", l>>)) = TRUE
       /\ FetchFar(ev.dfmt, ev.x0, ev.y0, ev.n, ev.rows, ev.wins, ev.out)
    /\ l' = l + 1

TInit == Init /\ l = 1
TNext == TReset \/ TImage \/ TTransform \/ TFilter \/ TRepeat \/ TFetch \/ TFetchWide \/ TFetchWin
TSpec == TInit /\ [][TNext]_<<svars, l>>
=============================================================================
