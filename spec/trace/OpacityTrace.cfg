SPECIFICATION TSpec
POSTCONDITION TraceAccepted
