---------------------------- MODULE CombineTrace ----------------------------
(* Trace specification for C01.  harness/drv_composite.c logs one event per                  *)
(* pixman_image_composite32 call on a row of w pixels:                                       *)
(*   Comp  op ca hasmask sf mf df (format codes) pres sw sx mw mx dw dx w fresh              *)
(*         src srcafter msk mskafter before after   (raw bytes of the rows)                   *)
(* The state of the machine is the destination row; an event with fresh = 0 continues on the *)
(* destination the previous event left (before must be that state).  TLC judges every         *)
(* affected destination pixel with Combine!PixelOK -- equality for the exact class,          *)
(* membership in the one-step band of the real-valued equation for the tolerance class --    *)
(* on the defined bits of the destination format; nothing outside the addressed pixels may   *)
(* change, and source and mask are not written.                                              *)
(* pres names the presentation of the source: 0 plain, 1 integer translation, 2 two          *)
(* destination pixels per source pixel, 3 PAD repeat, 4 scale 1 + 1/65536, 5 a 1x1 image with *)
(* NORMAL repeat (solid), 6 PAD repeat with scale 1 + 1/65536, 7 a solid-fill image whose     *)
(* 16-bit a r g b are logged in src; mpres 1: a 1x1 repeating mask, 2: a solid-fill mask.      *)
(* pres 8 / mpres 3: a general affine matrix that samples the same pixels (one unit of shear).  *)
(* A solid-fill image counts as a narrow format for the choice of the class (pixman works on  *)
(* its 8 most significant bits there); the real-valued equations use its true 16-bit value.   *)
(* The source pixel that destination pixel i sees is SrcPos (the sampling rule itself is      *)
(* property C08's).                                                                           *)
EXTENDS Combine, TraceIO

VARIABLES l, dest

Code(c) == <<c[1], c[2]>>

ClampI(x, lo, hi) == IF x < lo THEN lo ELSE IF x > hi THEN hi ELSE x
SrcPos(ev, i) ==
    CASE ev.pres \in {0, 1, 4, 8} -> ev.sx + i
      [] ev.pres = 2 -> (ev.sx + i) \div 2
      [] ev.pres \in {3, 6} -> ClampI(ev.sx + i, 0, ev.sw - 1)
      [] ev.pres \in {5, 7} -> 0
MskPos(ev, i) == IF ev.mpres = 1 THEN 0 ELSE ev.mx + i

Mode(ev) == IF ev.hasmask = 0 THEN "none" ELSE IF ev.ca = 1 THEN "ca" ELSE "unified"

NoMaskPx == [c \in Chan |-> CNone]
Col16(buf) == <<buf[1] + 256 * buf[2], buf[3] + 256 * buf[4], buf[5] + 256 * buf[6], buf[7] + 256 * buf[8]>>

(* A destination with ordered dithering enabled (dither # 0) may be written through the wide   *)
(* pipeline with a position-dependent offset d in (0, 1) added before truncation: floor (v + d) *)
(* for the real value v in destination steps, i.e. still within one step of v.  Specialised     *)
(* routines ignore the dither setting.  So dithering adds the one-step band of the real-valued  *)
(* result as an alternative to the judgement without dithering (premultiplied inputs).          *)
PixelJudgedD(ev, fs, fm, fd, md, spx, mpx, dpx, rpx) ==
    IF ev.dither = 0 THEN PixelOK(ev.op, md, fs, fm, fd, spx, mpx, dpx, rpx)
    ELSE IF ~(Premult(spx) /\ Premult(dpx)) THEN TRUE
    ELSE \/ PixelOK(ev.op, md, fs, fm, fd, spx, mpx, dpx, rpx)
         \/ WideOK(ev.op, md, spx, mpx, dpx, fd, rpx)

PixelJudged(ev, fs, fm, fd, md, i) ==
    PixelJudgedD(ev, fs, fm, fd, md,
            IF ev.pres = 7 THEN SolidPixel(Col16(ev.src)) ELSE PixelCV(fs, 0, ev.src, SrcPos(ev, i)),
            IF ev.hasmask = 0 THEN NoMaskPx
            ELSE IF ev.mpres = 2 THEN SolidPixel(Col16(ev.msk)) ELSE PixelCV(fm, 0, ev.msk, MskPos(ev, i)),
            PixelCV(fd, 0, ev.before, ev.dx + i),
            PixelCV(fd, 0, ev.after, ev.dx + i))

(* Requests outside the domain of the property (see Combine!InDomain) are not judged beyond the frame. *)
CompOK(ev, fs, fm, fd, md) ==
    /\ ev.w >= 1
    /\ FrameOK(fd, ev.before, ev.after, ev.dx, ev.w)
    /\ ev.srcafter = ev.src /\ ev.mskafter = ev.msk
    /\ InDomain(ev.op, fs, fm, fd, md) => \A i \in 0..(ev.w - 1) : PixelJudged(ev, fs, fm, fd, md, i)

TComp ==
    /\ l <= TraceLen /\ TraceLog[l].e = "Comp"
    /\ (TraceLog[l].fresh = 1 \/ TraceLog[l].before = dest)
    \* "= TRUE": evaluated as a plain expression (much faster than letting TLC walk it as an action)
    /\ CompOK(TraceLog[l],
              IF TraceLog[l].pres = 7 THEN A8R8G8B8 ELSE Fmt(Code(TraceLog[l].sf)),
              IF TraceLog[l].mpres = 2 THEN A8R8G8B8 ELSE Fmt(Code(TraceLog[l].mf)),
              Fmt(Code(TraceLog[l].df)), Mode(TraceLog[l])) = TRUE
    /\ dest' = TraceLog[l].after
    /\ l' = l + 1

TReset ==
    /\ l <= TraceLen /\ TraceLog[l].e = "Reset"
    /\ dest' = <<>>
    /\ l' = l + 1

TInit == l = 1 /\ dest = <<>>
TNext == TReset \/ TComp
TSpec == TInit /\ [][TNext]_<<l, dest>>
=============================================================================
