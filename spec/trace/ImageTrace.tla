------------------------------- MODULE ImageTrace -------------------------------
(* Trace specification for history independence (C14).  Events logged by harness/drv_image.c:       *)
(*   Reset                                                                                          *)
(*   Config type role cfg r0   a long-lived image of that type is created for that role             *)
(*   Set j v r                 setter j called with abstract value v on the long-lived image        *)
(*                             (j = pe / px: no call; the client rewrote the palettes / the pixel    *)
(*                             buffer the image refers to, in place, to contents class v)            *)
(*   Render key before l* f*   the long-lived image (l) and a freshly created replica (f) given     *)
(*                             the wanted properties `key` and the same pixels were each used in    *)
(*                             the same composite: fl/efc = flags and extended format code the      *)
(*                             validate hook reported, mfl = flags of the attached alpha map,       *)
(*                             px = every byte of the buffers the composite wrote                   *)
(*   End                                                                                            *)
(* The state P is the specification's record of the long-lived image (Image.tla part 2), advanced   *)
(* by the same PropStep the model checker explores.  A Render is accepted iff                       *)
(*   - the replica was built from the properties the specification says the client wants (key =     *)
(*     P.want),                                                                                     *)
(*   - long-lived and fresh image produced the same bytes, the same flags word, the same extended   *)
(*     format code, and the same alpha-map flags,                                                   *)
(*   - and every earlier rendering of this execution with the same (normalised) wanted properties   *)
(*     and the same pixels before it produced exactly these observations (seen).                    *)
(* What the bytes should be is the business of other properties; nothing is compared with a value   *)
(* computed by the specification, and nothing is demanded of was_dirty.                             *)
EXTENDS Image, TraceIO

VARIABLES P, cfg, seen, pending, l

PropOrder == <<"t", "f", "r", "c", "sc", "cc", "am", "ao", "ca", "acc", "pal", "d", "dof", "ma", "pe", "px">>
AsTuple(w) == [n \in 1..Len(PropOrder) |-> w[PropOrder[n]]]

Observation(ev, who) ==
    IF who = "l" THEN <<ev.lfl, ev.lefc, ev.lmfl, ev.lpx>> ELSE <<ev.ffl, ev.fefc, ev.fmfl, ev.fpx>>

TReset ==
    /\ l <= TraceLen /\ TraceLog[l].e = "Reset"
    /\ pending = 0
    /\ P' = PropInit("solid") /\ cfg' = <<>> /\ seen' = {} /\ pending' = 0
    /\ l' = l + 1

TConfig ==
    /\ l <= TraceLen /\ TraceLog[l].e = "Config"
    /\ pending = 0
    /\ LET ev == TraceLog[l] IN
       /\ ev.type \in {"bits", "indexed", "gradient", "solid"}
       /\ P' = PropInit(ev.type)
       /\ cfg' = <<ev.type, ev.role, ev.cfg>>
       /\ pending' = ev.r0
    /\ seen' = {}
    /\ l' = l + 1

TSet ==
    /\ l <= TraceLen /\ TraceLog[l].e = "Set"
    /\ pending = 0 /\ cfg # <<>>
    /\ LET ev == TraceLog[l]
           c  == Call("set", 0, ev.j, ev.v)
       IN /\ c \in PropCalls(P)
          /\ P' \in PropStep(P, c)
          /\ pending' = ev.r
    /\ UNCHANGED <<cfg, seen>>
    /\ l' = l + 1

TRender ==
    /\ l <= TraceLen /\ TraceLog[l].e = "Render"
    /\ pending = 1
    /\ LET ev  == TraceLog[l]
           k   == <<AsTuple(CanonAll(P.want)), ev.before>>
           obs == Observation(ev, "l")
       IN
       /\ ev.key = AsTuple(P.want)                       \* the replica was given what the client wants
       /\ Observation(ev, "f") = obs                     \* history independence: long-lived = freshly created
       /\ ev.lfl # <<65535, 65535>>                      \* both were in fact validated for this composite
       /\ \A s \in seen : s[1] = k => s[2] = obs         \* ... and a function of the properties and pixels
       /\ seen' = seen \cup {<<k, obs>>}
       /\ P' \in PropStep(P, Call("render", 0, "", 0))
    /\ pending' = 0
    /\ UNCHANGED cfg
    /\ l' = l + 1

TEnd ==
    /\ l <= TraceLen /\ TraceLog[l].e = "End"
    /\ pending = 0
    /\ UNCHANGED <<P, cfg, seen, pending>>
    /\ l' = l + 1

TInit == P = PropInit("solid") /\ cfg = <<>> /\ seen = {} /\ pending = 0 /\ l = 1
TNext == TReset \/ TConfig \/ TSet \/ TRender \/ TEnd
TSpec == TInit /\ [][TNext]_<<P, cfg, seen, pending, l>>

ImageAccepted == TraceAccepted /\ TraceLen > 0 /\ TraceLog[TraceLen].e = "End"
=============================================================================
