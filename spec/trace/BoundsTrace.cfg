SPECIFICATION TSpec
POSTCONDITION TraceAccepted
