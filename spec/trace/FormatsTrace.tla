---------------------------- MODULE FormatsTrace ----------------------------
(* Trace specification for C10 (pixel formats).  harness/drv_pixel.c logs, per case,         *)
(*   Fetch : an image of format F (raw bytes src) composited with OP_SRC onto an image of a  *)
(*           canonical format C (a8r8g8b8 or rgba_float, bytes before) once per presentation  *)
(*           (p = "sd" scanline reader / direct, "sa" scanline / accessors on the F image,    *)
(*           "pd", "pa" single-pixel reader (integer translation, nearest), rep = 1: 1x1      *)
(*           repeating source), giving mids[k].after; then, when back = 1, the first result   *)
(*           composited back onto an image of format F (bytes bbefore) directly and through   *)
(*           accessors, giving backs[k].after;                                                *)
(*   Store : an image of a canonical format with arbitrary content composited onto an image  *)
(*           of format F.                                                                     *)
(* TLC judges: every result is the conversion Formats.tla defines, on the defined bits of the *)
(* destination format; nothing outside the addressed pixels changed (frame); the source was   *)
(* not modified; all presentations agree; reading F and writing it back is the identity       *)
(* (through a8r8g8b8 for formats of at most 8 bits per channel, through rgba_float for all).  *)
(*   Equiv : (harness/drv_accequiv.c) one request of any drawing entry point -- trapezoid /   *)
(*           triangle rasterisation, composite_trapezoids / triangles, composite32, fill_boxes /  *)
(*           fill_rectangles, composite_glyphs(_no_mask) -- executed on directly addressed images *)
(*           (direct) and on twins with identical initial bytes wrapped in read/write callbacks  *)
(*           (wrapped[k], acc = 1 destination + 2 source + 4 mask or glyph image).  The action is *)
(*           the statement itself: ViaAccessors(req) = Direct(req) on the whole destination       *)
(*           buffer, row padding included (undefined bits of x-formats excepted), and no source   *)
(*           or mask is written.                                                                  *)
(*   Hist  : accessor history on ONE image X (role s / m / d in a composite): a sequence of    *)
(*           uses, before each of which callbacks are installed (pair A or B) or removed (D).     *)
(*           The callbacks are not the identity: X was created over a window buffer, pair A / B   *)
(*           redirects every access to a backing buffer a / b and counts calls.  Whatever the     *)
(*           history, a use must behave as the same request on a directly addressed image holding *)
(*           the effective contents (window, a or b), touch no other buffer, and go through the   *)
(*           installed callbacks (and only them).                                                 *)
(* The state of the one-step machine is the destination buffer last written.                  *)
(* (Shared values are passed as operator arguments, which TLC evaluates once; see Formats.)   *)
EXTENDS Formats, TraceIO

VARIABLES l, dst

Code(c) == <<c[1], c[2]>>

IsCanonical(c) == (IsFloat(c) /\ c.a = 32) \/ c = A8R8G8B8

Labels(seq) == {seq[k].p : k \in DOMAIN seq}

(* all results of one case agree on the defined bits of the addressed pixels *)
Agree(f, pal, seq, dx, w) ==
    \A k \in DOMAIN seq : \A i \in 0..(w - 1) : DefinedEq(f, pal, seq[1].after, dx + i, seq[k].after, dx + i)

AlphaOne(v) == IF v.k = "f" THEN v.w = FOne ELSE v.n = MaxOf(v.b)
AlphaIsOne(c, buf, x) == AlphaOne(PixelCV(c, 0, buf, x)["a"])

(* one result of F -> C *)
MidOK(ev, f, c, m) ==
    /\ FrameOK(c, ev.before, m.after, ev.dx, ev.w)
    /\ m.srcafter = ev.src                                          \* reading does not write
    /\ IF IsYUV(f)
       THEN \A i \in 0..(ev.w - 1) : AlphaIsOne(c, m.after, ev.dx + i)
       ELSE /\ RowConvOK(f, ev.pal, ev.src, ev.sx, ev.rep, c, 0, m.after, ev.dx, ev.w)
            /\ RowMonotone(f, ev.pal, ev.src, ev.sx, ev.rep, c, 0, m.after, ev.dx, ev.w)

(* one result of C -> F, the source being the first result of F -> C *)
BackOK(ev, f, c, mid, b) ==
    /\ FrameOK(f, ev.bbefore, b.after, ev.bdx, ev.w)
    /\ RowConvOK(c, 0, mid, ev.dx, 0, f, ev.pal, b.after, ev.bdx, ev.w)
    /\ RowMonotone(c, 0, mid, ev.dx, 0, f, ev.pal, b.after, ev.bdx, ev.w)
    \* read + write back = identity on the defined bits
    /\ (IsFloat(c) \/ ~IsWide(f)) =>
          \A i \in 0..(ev.w - 1) : DefinedEq(f, ev.pal, ev.src, SrcIndex(ev.sx, i, ev.rep), b.after, ev.bdx + i)

FetchOK(ev, f, c) ==
    /\ IsCanonical(c) /\ ev.w >= 1 /\ Len(ev.mids) >= 1
    /\ (IF ev.rep = 1 THEN {"sd", "sa"} ELSE {"sd", "sa", "pd", "pa"}) \subseteq Labels(ev.mids)
    /\ \A k \in DOMAIN ev.mids : MidOK(ev, f, c, ev.mids[k])
    /\ Agree(c, 0, ev.mids, ev.dx, ev.w)
    /\ (ev.back = 1) =>
          /\ ~IsYUV(f)
          /\ {"sd", "sa"} \subseteq Labels(ev.backs)
          /\ \A k \in DOMAIN ev.backs : BackOK(ev, f, c, ev.mids[1].after, ev.backs[k])
          /\ Agree(f, ev.pal, ev.backs, ev.bdx, ev.w)

OutOK(ev, f, c, o) ==
    /\ FrameOK(f, ev.before, o.after, ev.dx, ev.w)
    /\ RowConvOK(c, 0, ev.src, ev.sx, 0, f, ev.pal, o.after, ev.dx, ev.w)
    /\ RowMonotone(c, 0, ev.src, ev.sx, 0, f, ev.pal, o.after, ev.dx, ev.w)

StoreOK(ev, f, c) ==
    /\ IsCanonical(c) /\ ev.w >= 1 /\ ~IsYUV(f)
    /\ {"sd", "sa"} \subseteq Labels(ev.outs)
    /\ \A k \in DOMAIN ev.outs : OutOK(ev, f, c, ev.outs[k])
    /\ Agree(f, ev.pal, ev.outs, ev.dx, ev.w)

TFetch ==
    /\ l <= TraceLen /\ TraceLog[l].e = "Fetch"
    \* "= TRUE": makes TLC evaluate the judgement as a plain expression instead of walking it as an action
    /\ FetchOK(TraceLog[l], Fmt(Code(TraceLog[l].f)), Fmt(Code(TraceLog[l].c))) = TRUE
    /\ dst' = TraceLog[l].mids[Len(TraceLog[l].mids)].after
    /\ l' = l + 1

TStore ==
    /\ l <= TraceLen /\ TraceLog[l].e = "Store"
    /\ StoreOK(TraceLog[l], Fmt(Code(TraceLog[l].f)), Fmt(Code(TraceLog[l].c))) = TRUE
    /\ dst' = TraceLog[l].outs[Len(TraceLog[l].outs)].after
    /\ l' = l + 1

(* ---- accessor equivalence of every drawing entry point ---- *)
FullyDefined(f) == IsIndexed(f) \/ (IsPacked(f) /\ f.a + f.r + f.g + f.b = f.bpp)

RowEquiv(f, w, ra, rb) ==
    /\ SameOutside(ra, rb, 0, w * f.bpp)                              \* padding bits of the row
    /\ \A x \in 0..(w - 1) : DefinedEq(f, 0, ra, x, rb, x)

BufEquiv(f, w, h, stride, a, b) ==
    IF FullyDefined(f) THEN a = b
    ELSE /\ Len(a) = Len(b) /\ Len(a) = h * stride
         /\ \A y \in 0..(h - 1) : RowEquiv(f, w, SubSeq(a, y * stride + 1, (y + 1) * stride), SubSeq(b, y * stride + 1, (y + 1) * stride))

HasImg(code) == code[1] # 0 \/ code[2] # 0
AccBits(ev) == 1 + (IF HasImg(ev.sf) THEN 2 ELSE 0) + (IF HasImg(ev.mf) THEN 4 ELSE 0)
RequiredVariants(ev) == {1, AccBits(ev)} \cup (IF HasImg(ev.sf) THEN {2} ELSE {}) \cup (IF HasImg(ev.mf) THEN {4} ELSE {})

ViaAccessorsIsDirect(ev, f, wr) ==
    /\ BufEquiv(f, ev.dw, ev.dh, ev.dstride, wr.dst, ev.direct.dst)
    /\ wr.src = ev.sinit /\ wr.msk = ev.minit

EquivOK(ev, f) ==
    /\ RequiredVariants(ev) \subseteq {ev.wrapped[k].acc : k \in DOMAIN ev.wrapped}
    /\ ev.direct.src = ev.sinit /\ ev.direct.msk = ev.minit            \* drawing does not write its sources
    /\ Len(ev.direct.dst) = Len(ev.dinit)
    /\ \A k \in DOMAIN ev.wrapped : ViaAccessorsIsDirect(ev, f, ev.wrapped[k])

TEquiv ==
    /\ l <= TraceLen /\ TraceLog[l].e = "Equiv"
    /\ EquivOK(TraceLog[l], Fmt(Code(TraceLog[l].df))) = TRUE
    /\ dst' = TraceLog[l].direct.dst
    /\ l' = l + 1

(* ---- accessor history: callbacks installed, removed or swapped on an image already in use ---- *)
Eff0(st) == CASE st.mode = "D" -> st.win0 [] st.mode = "A" -> st.a0 [] st.mode = "B" -> st.b0
Eff1(st) == CASE st.mode = "D" -> st.win1 [] st.mode = "A" -> st.a1 [] st.mode = "B" -> st.b1

UseOK(ev, f, st) ==
    \* the buffers the installed callbacks do not lead to are never touched
    /\ (st.mode # "D") => st.win1 = st.win0
    /\ (st.mode # "A") => st.a1 = st.a0
    /\ (st.mode # "B") => st.b1 = st.b0
    \* same values as a directly addressed image holding the effective contents
    /\ IF ev.role = "d"
       THEN BufEquiv(f, ev.w, ev.h, ev.stride, Eff1(st), st.refx)
       ELSE /\ Eff1(st) = Eff0(st)                                           \* reading does not write
            /\ st.out = st.refout
    \* every access goes through the installed callbacks, and there are none otherwise
    /\ IF st.mode = "D" THEN st.reads = 0 /\ st.writes = 0
       ELSE IF ev.role = "d" THEN st.writes > 0
       ELSE st.reads > 0 /\ st.writes = 0

HistOK(ev, f) ==
    /\ Len(ev.steps) >= 2
    /\ \A k \in DOMAIN ev.steps : UseOK(ev, f, ev.steps[k])
    \* the buffers carry over from one use to the next
    /\ \A k \in 1..(Len(ev.steps) - 1) :
          /\ ev.steps[k + 1].win0 = ev.steps[k].win1
          /\ ev.steps[k + 1].a0 = ev.steps[k].a1
          /\ ev.steps[k + 1].b0 = ev.steps[k].b1

THist ==
    /\ l <= TraceLen /\ TraceLog[l].e = "Hist"
    /\ HistOK(TraceLog[l], Fmt(Code(TraceLog[l].f))) = TRUE
    /\ dst' = TraceLog[l].steps[Len(TraceLog[l].steps)].out
    /\ l' = l + 1

TReset ==
    /\ l <= TraceLen /\ TraceLog[l].e = "Reset"
    /\ dst' = <<>>
    /\ l' = l + 1

TInit == l = 1 /\ dst = <<>>
TNext == TReset \/ TFetch \/ TStore \/ TEquiv \/ THist
TSpec == TInit /\ [][TNext]_<<l, dst>>
=============================================================================
