--------------------------- MODULE GradientTrace ---------------------------
(* Trace specification for C13.  One NDJSON line per event, logged by harness/drv_gradient.c:  *)
(*   Reset                                                                                    *)
(*   GradBegin  claim kind g stops repeat m wide dw dh     written BEFORE the composite         *)
(*        g      linear <<p1x,p1y,p2x,p2y>>, radial <<c1x,c1y,r1,c2x,c2y,r2>>, conical          *)
(*               <<cx,cy,angle>> as 16.16 integers (on the half-pixel lattice / whole degrees)  *)
(*        stops  <<x (16.16), alpha, red, green, blue (16 bit, multiples of 257)>> each         *)
(*        m      the nine 16.16 entries of the image transform, or <<>> for none                *)
(*        mask   (optional, with mfmt) rows of alpha values of an a8 / a8r8g8b8 mask image: the      *)
(*               composite is gradient IN mask (narrow pipeline only)                              *)
(*        wide   destination rgba_float (channels logged in 1/256 of an 8-bit step) instead of  *)
(*               a8r8g8b8                                                                      *)
(*        claim  FALSE: safety scenario (arbitrary stops / degenerate geometry); only           *)
(*               "the call returns" is required, arguments are not logged                      *)
(*   GradRow    y x0 out[[a,r,g,b]..]     one destination scanline, after the composite         *)
(*   GradDone                             the composite of a safety scenario returned           *)
(*   End        the driver executed its whole script                                           *)
(*   Crash      signal / AddressSanitizer abort / watchdog alarm -- matches no action           *)
EXTENDS Gradient, TraceIO, TLC, FiniteSets

VARIABLES l, stat        \* stat: <<pixels judged, pixels without obligation>>

Ev == TraceLog[l]
Is(name) == l <= TraceLen /\ TraceLog[l].e = name

Div(v, d) == v \div d
Exact(v, d) == v % d = 0

RECURSIVE GcdSeq(_, _)
GcdSeq(s, i) == IF i > Len(s) THEN 0 ELSE Gcd(s[i], GcdSeq(s, i + 1))

Identity == << <<1, 0, 0>>, <<0, 1, 0>>, <<0, 0, 1>> >>
MatrixOf(m) == IF Len(m) = 0 THEN Identity
               ELSE LET g == GcdSeq(m, 1) IN
                    IF g = 0 THEN << <<0, 0, 0>>, <<0, 0, 0>>, <<0, 0, 0>> >>
                    ELSE [i \in 1..3 |-> [j \in 1..3 |-> m[3 * (i - 1) + j] \div g]]

(* linear gradients may use a finer lattice than half pixels: unit u = gcd of the four coordinates and 32768 *)
LinUnit(g) == Gcd(Gcd(Gcd(g[1], g[2]), Gcd(g[3], g[4])), 32768)
GeomOK(kind, g) ==
    CASE kind = "linear"  -> Len(g) = 4 /\ LinUnit(g) >= 8
      [] kind = "radial"  -> Len(g) = 6 /\ \A i \in 1..6 : Exact(g[i], 32768)
      [] kind = "conical" -> Len(g) = 3 /\ Exact(g[1], 32768) /\ Exact(g[2], 32768) /\ Exact(g[3], 65536)
      [] OTHER -> FALSE
GeomOf(kind, g) ==
    IF kind = "conical" THEN <<Div(g[1], 32768), Div(g[2], 32768), Div(g[3], 65536)>>
    ELSE IF kind = "linear" THEN [i \in 1..4 |-> Div(g[i], LinUnit(g))]
    ELSE [i \in 1..Len(g) |-> Div(g[i], 32768)]
HuOf(kind, g) == IF kind = "linear" THEN 32768 \div LinUnit(g) ELSE 1

StopsOK(ss) == \A n \in 1..Len(ss) : \A k \in 2..5 : Exact(ss[n][k], 257)
StopsOf(ss) == [n \in 1..Len(ss) |-> [x |-> ss[n][1],
                                        c |-> <<Div(ss[n][2], 257), Div(ss[n][3], 257), Div(ss[n][4], 257), Div(ss[n][5], 257)>>]]

Dummy == [kind |-> "none", g |-> <<>>, hu |-> 1, stops |-> <<>>, repeat |-> "NONE", m |-> Identity, unit |-> 1, mask |-> <<>>]

TReset ==
    /\ Is("Reset")
    /\ gst.st = "idle"
    /\ UNCHANGED <<gst, stat>> /\ l' = l + 1

TBegin ==
    /\ Is("GradBegin")
    /\ IF Ev.claim
       THEN /\ GeomOK(Ev.kind, Ev.g) /\ StopsOK(Ev.stops)
            /\ Ev.repeat \in {"NONE", "NORMAL", "PAD", "REFLECT"}
            /\ GBegin([kind |-> Ev.kind, g |-> GeomOf(Ev.kind, Ev.g), hu |-> HuOf(Ev.kind, Ev.g), stops |-> StopsOf(Ev.stops),
                       repeat |-> Ev.repeat, m |-> MatrixOf(Ev.m), unit |-> IF Ev.wide THEN 256 ELSE 1,
                       mask |-> IF Has(Ev, "mask") THEN Ev.mask ELSE <<>>],
                      TRUE, Ev.dh)
       ELSE GBegin(Dummy, FALSE, 0)
    /\ UNCHANGED stat /\ l' = l + 1

TRow ==
    /\ Is("GradRow")
    /\ GScanline(Ev.y, Ev.x0, Ev.out)
    /\ LET n == Len(Ev.out)
           free == Cardinality({i \in 1..n : NoObligation(gst.scn, Ev.x0 + i - 1, Ev.y)}) IN
       stat' = <<stat[1] + n, stat[2] + free>>
    /\ l' = l + 1

TDone ==
    /\ Is("GradDone")
    /\ GReturned
    /\ UNCHANGED stat /\ l' = l + 1

TEnd ==
    /\ Is("End")
    /\ gst.st = "idle"
    /\ l = TraceLen
    /\ PrintT(<<"VF:stats", stat[1], stat[2]>>)
    /\ UNCHANGED <<gst, stat>> /\ l' = l + 1

TInit == GInit /\ l = 1 /\ stat = <<0, 0>>
TNext == TReset \/ TBegin \/ TRow \/ TDone \/ TEnd
TSpec == TInit /\ [][TNext]_<<gst, l, stat>>
=============================================================================
