---------------------------- MODULE FilterTrace ----------------------------
(* Trace specification for C18.  One NDJSON line per event, logged by harness/drv_filter.c:  *)
(*   Reset                                                                                  *)
(*   CreateBegin rx ry sx sy scale_x scale_y bx by     written BEFORE the call              *)
(*   Create      ok n hdr[4] (16.16 words as [hi, lo], hi signed)   after the call returned  *)
(*               ok = false (NULL) is accepted only for arguments whose filter cannot be        *)
(*               represented (an axis of 32768 or more taps, Filter!Unrepresentable)            *)
(*   Skip        a set_filter / composite step of the script was not executed (no block)       *)
(*   Rows / RowsW  axis first rows     the n-4 values after the header, in order; Rows: plain *)
(*               integers (all |v| < 2^20 and rows shorter than 2048), RowsW: [hi, lo] pairs *)
(*   SetFilter   fmt px[4] ret         constant source image, pixman_image_set_filter        *)
(*   RenderBegin / Render  repeat affine out[[a,r,g,b]..]   OP_SRC into an a8r8g8b8 image    *)
(*   ScanDone    scanned selected control   end of a wide scan with selection (drv_filter W): only    *)
(*               the tables a structural pre-screen selected, plus a control sample, were logged   *)
(*               (each as an execution of its own, judged like any other); the rest is NOT judged  *)
(*   End         the driver executed its whole script                                         *)
(*   Crash       (signal, AddressSanitizer abort, watchdog)  -- matches no action            *)
(* A call that does not return (crash, sanitizer abort) leaves CreateBegin / RenderBegin     *)
(* unanswered; the trace then ends in a Crash line that nothing explains.                    *)
EXTENDS Filter, TraceIO

VARIABLES l, src, req  \* src: the constant <<a, r, g, b>> the attached source image holds; req: the CreateBegin event in force

Ev == TraceLog[l]
Is(name) == l <= TraceLen /\ TraceLog[l].e = name

W16(p) == p[1] * One + p[2]

RECURSIVE SumPart(_, _, _, _)
SumPart(r, c, i, j) ==                        \* r[i][c] + ... + r[j][c], by halving
    IF i > j THEN 0 ELSE IF i = j THEN r[i][c]
    ELSE LET m == (i + j) \div 2 IN SumPart(r, c, i, m) + SumPart(r, c, m + 1, j)
SumHi(r, i) == SumPart(r, 1, i, Len(r))
SumLo(r, i) == SumPart(r, 2, i, Len(r))
(* exact test SUM (hi*2^16 + lo) = One without leaving 32 bits; returns One or, if not equal, 0 *)
WideSum(r) == LET sh == SumHi(r, 1)  sl == SumLo(r, 1) IN
              IF sl % One = 0 /\ sh + (sl \div One) = 1 THEN One ELSE 0

Channels(fmt, p) ==
    CASE fmt = "a8r8g8b8" -> <<p[1], p[2], p[3], p[4]>>
      [] fmt = "x8r8g8b8" -> <<255,  p[2], p[3], p[4]>>
      [] fmt = "a8b8g8r8" -> <<p[1], p[4], p[3], p[2]>>
      [] fmt = "b8g8r8a8" -> <<p[4], p[3], p[2], p[1]>>
      [] fmt = "a8"       -> <<p[4], 0, 0, 0>>

TReset ==
    /\ Is("Reset")
    /\ flt.st \notin {"calling", "creating"}
    /\ flt' = Idle /\ src' = <<0, 0, 0, 0>> /\ UNCHANGED req /\ l' = l + 1

TCreateBegin ==
    /\ Is("CreateBegin")
    /\ {Ev.rx, Ev.ry, Ev.sx, Ev.sy} \subseteq Kernels
    /\ Ev.bx \in 0..8 /\ Ev.by \in 0..8                      \* the statement's domain
    /\ W16(Ev.scale_x) > 0 /\ W16(Ev.scale_y) > 0
    /\ CreateCall(Ev.bx, Ev.by)
    /\ req' = Ev
    /\ UNCHANGED src /\ l' = l + 1

TCreate ==
    /\ Is("Create")
    /\ IF Ev.ok
       THEN Has(Ev, "hdr") /\ CreateReturn(Ev.n, [i \in 1..4 |-> W16(Ev.hdr[i])])
       ELSE CreateRefused(\/ Unrepresentable(req.rx, req.sx, W16(req.scale_x))
                          \/ Unrepresentable(req.ry, req.sy, W16(req.scale_y)))
    /\ UNCHANGED <<src, req>> /\ l' = l + 1

(* a script step that needs a block, after the call refused to make one: nothing was executed *)
TSkip ==
    /\ Is("Skip")
    /\ flt.st = "idle"
    /\ UNCHANGED <<flt, src, req>> /\ l' = l + 1

TRows ==
    /\ Is("Rows")
    /\ LET rows == Ev.rows
           lens(k) == Len(rows[k])
           sums(k) == SumSeq(rows[k])
       IN CreateRows(Ev.axis, Ev.first, Len(rows), lens, sums)
    /\ UNCHANGED <<src, req>> /\ l' = l + 1

TRowsW ==
    /\ Is("RowsW")
    /\ LET rows == Ev.rows
           lens(k) == Len(rows[k])
           sums(k) == WideSum(rows[k])
       IN CreateRows(Ev.axis, Ev.first, Len(rows), lens, sums)
    /\ UNCHANGED <<src, req>> /\ l' = l + 1

TSetFilter ==
    /\ Is("SetFilter")
    /\ SetFilter(Ev.ret = 1)
    /\ src' = Channels(Ev.fmt, Ev.px)
    /\ UNCHANGED req /\ l' = l + 1

TRenderBegin ==
    /\ Is("RenderBegin")
    /\ flt.st \in {"attached", "rendered"}
    /\ Ev.repeat \in {"NORMAL", "PAD", "REFLECT"}          \* an unbounded constant image
    /\ UNCHANGED <<flt, src, req>> /\ l' = l + 1

TRender ==
    /\ Is("Render")
    /\ Len(Ev.out) = Ev.dw * Ev.dh
    /\ Render(src, Ev.out)
    /\ UNCHANGED <<src, req>> /\ l' = l + 1

TScanDone ==
    /\ Is("ScanDone")
    /\ flt.st \notin {"calling", "creating"}
    /\ Ev.scanned >= Ev.selected + Ev.control
    /\ UNCHANGED <<flt, src, req>> /\ l' = l + 1

(* the driver reached the end of its script: no call is left unanswered, nothing follows *)
TEnd ==
    /\ Is("End")
    /\ flt.st \notin {"calling", "creating"}
    /\ l = TraceLen
    /\ UNCHANGED <<flt, src, req>> /\ l' = l + 1

TInit == FInit /\ l = 1 /\ src = <<0, 0, 0, 0>> /\ req = [e |-> "none"]
TNext == TReset \/ TCreateBegin \/ TCreate \/ TRows \/ TRowsW \/ TSetFilter \/ TRenderBegin \/ TRender \/ TScanDone \/ TSkip \/ TEnd
TSpec == TInit /\ [][TNext]_<<flt, l, src, req>>
=============================================================================
