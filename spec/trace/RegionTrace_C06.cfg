SPECIFICATION TSpec
CONSTANT CHECKS = {"canon"}
POSTCONDITION TraceAccepted
