SPECIFICATION TSpec
CONSTANT CHECKS = {"canon"}
CONSTANT Deviations = {}
POSTCONDITION TraceAccepted
