SPECIFICATION TSpec
CONSTANTS
  Keys <- TKeys
  Vals <- TVals
  NoVal <- TNoVal
  H <- TH
  HIGH <- THigh
  LOW <- TLow
  Hash <- THash
  CapRule = "slots"
POSTCONDITION TraceAccepted
