SPECIFICATION TSpec
CONSTANTS
  Keys <- TKeys
  Vals <- TVals
  NoVal <- TNoVal
  H <- TH
  HIGH <- THigh
  LOW <- TLow
  Hash <- THash
  CapRule = "free"
POSTCONDITION TraceAccepted
