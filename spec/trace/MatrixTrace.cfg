SPECIFICATION TSpec
CONSTANTS
  FB = 16
  WB = 32
POSTCONDITION TraceAccepted
