SPECIFICATION TSpec
CONSTANTS
  FB = 16
  WB = 32
  Deviations = {}
POSTCONDITION TraceAccepted
