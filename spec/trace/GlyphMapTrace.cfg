SPECIFICATION TSpec
CONSTANTS
  AKeys <- TKeys
  AVals <- TVals
  HIGH <- THigh
  CAP <- TCap
POSTCONDITION TraceAccepted
