---------------------------- MODULE OpacityTrace ----------------------------
(* Trace specification for C09.  Events (harness/drv_opacity.c; Dispatch is the hook in the library): *)
(*   Reset                                                                                             *)
(*   Valid triples       the valid reductions <<op1, op2, srcOpaque, dstOpaque>> derived by TLC in      *)
(*                       this run's OpacityMC (handed over verbatim by the orchestrator)                *)
(*   Req   ...           the scripted request (presentation kinds, alpha bits, repeat, geometry)         *)
(*   Dispatch op_in op_out sfl mfl dfl ...   what pixman_image_composite32 decided                       *)
(*   Res pair variant cmp cbits px           destination pixels as channel fields [a, r, g, b]           *)
(* Obligations:                                                                                        *)
(*   (i)   op_out is a valid replacement of op_in in the opacity cell given by the IS_OPAQUE flags;     *)
(*   (ii)  an IS_OPAQUE flag is set only on an image that is truly opaque for this request: the source *)
(*         has no alpha channel (or is a solid of alpha 1) and, when it does not repeat, every pixel   *)
(*         of the request samples inside it (decided here for untransformed/integer-translated nearest *)
(*         sources; for other transforms the implication is left to (iii)); the destination has no     *)
(*         alpha channel; a flagged mask is absent, solid alpha 1, or alpha-less ... ;                  *)
(*         a gradient (source or mask kind 8) is truly opaque iff every one of its samples inside the  *)
(*         request, logged in Req.galpha, has alpha 255;                                               *)
(*   (iii) the two presentations of a pair leave the same picture: identical channel fields            *)
(*         (cmp = 0), or within one step (cmp = 1: the variants are evaluated at different precision).  *)
EXTENDS Opacity, TraceIO

VARIABLES l, valid, cur, first

tvars == <<l, valid, cur, first>>
Ev == TraceLog[l]
Is(e) == l <= TraceLen /\ TraceLog[l].e = e
Adv == l' = l + 1
SetOf(s) == {s[i] : i \in DOMAIN s}
IS_OPAQUE == 13          \* bit index of FAST_PATH_IS_OPAQUE

TReset == Is("Reset") /\ cur' = <<>> /\ first' = <<>> /\ UNCHANGED valid /\ Adv

TValid == /\ Is("Valid")
          /\ valid' = {<<t[1], t[2], <<t[3] = 1, t[4] = 1>>>> : t \in SetOf(Ev.triples)}
          /\ UNCHANGED <<cur, first>> /\ Adv

TReq == Is("Req") /\ cur' = Ev /\ UNCHANGED <<valid, first>> /\ Adv

(* every destination pixel of the (clipped) request samples inside a non-repeating source: decided for   *)
(* sources without transform or with an integer translation, nearest filter                              *)
FootprintInside(r) ==
    LET x1 == IF r.dx < 0 THEN 0 ELSE r.dx   y1 == IF r.dy < 0 THEN 0 ELSE r.dy
        x2 == IF r.dx + r.w > r.dw THEN r.dw ELSE r.dx + r.w
        y2 == IF r.dy + r.h > r.dh THEN r.dh ELSE r.dy + r.h
        ox == r.sx - r.dx + r.tx   oy == r.sy - r.dy + r.ty
    IN  (x1 >= x2 \/ y1 >= y2) \/
        (x1 + ox >= 0 /\ x2 + ox <= r.sw /\ y1 + oy >= 0 /\ y2 + oy <= r.sh)

RECURSIVE SumFrom(_, _)
SumFrom(s, i) == IF i > Len(s) THEN 0 ELSE s[i] + SumFrom(s, i + 1)
(* a convolution kernel (logged parameter block) keeps alpha 1 only if its coefficients sum to exactly 1.0:   *)
(* CONVOLUTION: [w, h, coefficients...]; SEPARABLE (one phase): [w, h, 0, 0, x coefficients (w), y coefficients (h)] *)
KernelUnitGain(r) ==
    IF r.sfilt < 50 THEN TRUE
    ELSE IF r.sfilt < 60 THEN SumFrom(r.kernel, 3) = 65536
    ELSE LET w == r.kernel[1] \div 65536 IN
         SumFrom(SubSeq(r.kernel, 5, 4 + w), 1) = 65536 /\ SumFrom(r.kernel, 5 + w) = 65536

(* a gradient (source / mask kind 8: linear, radial or conical, any repeat mode and stop list, presented directly or     *)
(* rendered into an a8r8g8b8 image first) is opaque for the request iff every sample of the request is: galpha lists    *)
(* the alpha of each gradient sample inside the request, read from the gradient rendered alone with SRC onto a cleared *)
(* a8r8g8b8 buffer                                                                                                    *)
GradTrulyOpaque(r) == \A i \in DOMAIN r.galpha : r.galpha[i] = 255

SrcTrulyOpaque(r) ==
    \/ r.skind = 8 /\ GradTrulyOpaque(r)
    \/ r.skind \in {1, 6}                                   \* solid, alpha 1 (6: drawn by pixman_image_fill_boxes)
    \/ /\ r.skind \in {0, 2, 3} /\ r.s_abits = 0           \* alpha-less format ...
       /\ (r.srep # 0 \/ ~r.simple \/ FootprintInside(r))  \* ... and nothing sampled outside a non-repeating image
       /\ KernelUnitGain(r)                                 \* ... and the filter does not scale alpha
MaskTrulyOpaque(r) == (r.mkind = 8 /\ GradTrulyOpaque(r)) \/ r.mkind \in {0, 1, 2, 3}   \* opaque gradient, absent, solid alpha 1, or a bits mask that is 255 in every
                                                            \* (component of every) pixel the request samples

(* A reduction is judged against what is TRUE of the request, not against the flags the library happened to     *)
(* derive: an operator may be replaced by one that gives the same picture whenever source-and-mask / destination *)
(* really are opaque (a destination is never read outside its bounds, so an alpha-less one is opaque whatever    *)
(* its repeat mode), and a reduction that needs less than the truth is valid too.                               *)
ValidUnder(op1, op2, ts, td) ==
    \E s \in (IF ts THEN {TRUE, FALSE} ELSE {FALSE}), d \in (IF td THEN {TRUE, FALSE} ELSE {FALSE}) :
        ValidReduction(op1, op2, <<s, d>>, valid)

TDispatch ==
    /\ Is("Dispatch") /\ cur # <<>>
    /\ LET sfl == SetOf(Ev.sfl)  mfl == SetOf(Ev.mfl)  dfl == SetOf(Ev.dfl)
       IN  \* fill_boxes (source kinds 6, 7) rewrites the operator and the colour itself before it composites (CLEAR
           \* becomes SRC of transparent black, ...): its requests are judged by their pictures alone (iii)
           \/ cur.skind \in {6, 7}
           \/ /\ Ev.op_in = cur.op
              /\ (ValidUnder(Ev.op_in, Ev.op_out, SrcTrulyOpaque(cur) /\ MaskTrulyOpaque(cur), cur.d_abits = 0)) = TRUE  \* (i)
              /\ ((IS_OPAQUE \in sfl) => SrcTrulyOpaque(cur)) = TRUE                        \* (ii)
              /\ ((IS_OPAQUE \in mfl) => MaskTrulyOpaque(cur)) = TRUE
              /\ ((IS_OPAQUE \in dfl) => cur.d_abits = 0) = TRUE
    /\ UNCHANGED <<valid, cur, first>> /\ Adv

Abs(x) == IF x < 0 THEN -x ELSE x
SamePicture(a, b, cmp) ==
    /\ Len(a.px) = Len(b.px)
    /\ \A c \in 2..4 : a.cbits[c] = b.cbits[c]
    /\ \A i \in DOMAIN a.px :
          /\ \A c \in 2..4 : IF cmp = 0 THEN a.px[i][c] = b.px[i][c] ELSE Abs(a.px[i][c] - b.px[i][c]) <= 1
          /\ (a.cbits[1] > 0 /\ a.cbits[1] = b.cbits[1]) =>
                 (IF cmp = 0 THEN a.px[i][1] = b.px[i][1] ELSE Abs(a.px[i][1] - b.px[i][1]) <= 1)

(* Dispatch events of programs that were not written for this check (the repository's tests traced through  *)
(* the file sink): no Req precedes them; only obligation (i) is judged.                                    *)
TDispatchBare ==
    /\ Is("Dispatch") /\ cur = <<>>
    /\ LET sfl == SetOf(Ev.sfl)  mfl == SetOf(Ev.mfl)  dfl == SetOf(Ev.dfl)
           \* the destination format is in the event: alpha bits = bits 12..15 of the code, type = bits 16..23
           dtype == Ev.df[1] % 256
           dopaque == IS_OPAQUE \in dfl \/ ((Ev.df[2] \div 4096) % 16 = 0 /\ dtype \notin {4, 5} /\ Ev.df[1] # 0)
       IN  (ValidUnder(Ev.op_in, Ev.op_out, IS_OPAQUE \in sfl /\ IS_OPAQUE \in mfl, dopaque)) = TRUE
    /\ UNCHANGED <<valid, cur, first>> /\ Adv

TSkip == /\ (Is("Tables") \/ Is("Lookup")) /\ UNCHANGED <<valid, cur, first>> /\ Adv

TRes ==
    /\ Is("Res")
    /\ IF Ev.variant = 0
       THEN first' = Ev
       ELSE /\ first # <<>> /\ first.pair = Ev.pair
            /\ (SamePicture(first, Ev, Ev.cmp)) = TRUE                                   \* (iii)
            /\ UNCHANGED first
    /\ UNCHANGED <<valid, cur>> /\ Adv

TInit == l = 1 /\ valid = {} /\ cur = <<>> /\ first = <<>>
TNext == TReset \/ TValid \/ TReq \/ TDispatch \/ TDispatchBare \/ TSkip \/ TRes
TSpec == TInit /\ [][TNext]_tvars
=============================================================================
