SPECIFICATION TSpec
CONSTANT CHECKS = {"c03"}
CONSTANT Deviations = {"C03-raster-ignores-clip"}
POSTCONDITION TraceAccepted
