SPECIFICATION TSpec
CONSTANT CHECKS = {"set"}
POSTCONDITION TraceAccepted
