SPECIFICATION TSpec
CONSTANT CHECKS = {"set"}
CONSTANT Deviations = {}
POSTCONDITION TraceAccepted
