SPECIFICATION TSpec
POSTCONDITION TraceAccepted
