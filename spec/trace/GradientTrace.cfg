SPECIFICATION TSpec
CONSTANT Mutant = "none"
POSTCONDITION TraceAccepted
