SPECIFICATION TSpec
CONSTANT CHECKS = {"fault"}
POSTCONDITION TraceAccepted
