SPECIFICATION TSpec
CONSTANT CHECKS = {"fault"}
CONSTANT Deviations = {"C15-conv-nomem-dst-untouched", "C15-conv-drops-broken"}
POSTCONDITION TraceAccepted
