SPECIFICATION TSpec
POSTCONDITION TraceAccepted
