SPECIFICATION TSpec
POSTCONDITION TraceAccepted
