------------------------------- MODULE Threads -------------------------------
(***************************************************************************)
(* Sharing discipline of concurrent drawing (property C16).                *)
(*                                                                         *)
(* pixman has no locks.  The only synchronisation a client has is thread   *)
(* creation and joining, so two memory accesses of different threads are   *)
(* ordered exactly when one thread was joined before, or is spawned after, *)
(* the other access.  With all workers alive side by side, every two       *)
(* accesses of different workers are concurrent, and a DATA RACE is a      *)
(* cell that one worker writes and another worker reads or writes.         *)
(*                                                                         *)
(* The cells that matter (the library-internal state the statement names   *)
(* and the state of the images):                                           *)
(*    <<"imp", g>>         the chosen implementation chain (global)        *)
(*    <<"cache", a>>       a fast-path cache (one per thread in the code)  *)
(*    <<"dirty", i>>       the dirty bit of image i                        *)
(*    <<"derived", i>>     flags / extended format / fetchers of image i   *)
(*    <<"refs", i>>        reference count of image i                      *)
(*    <<"props", i>>       transform, filter, clip ... of image i          *)
(*    <<"pixels", i>>      pixel storage of image i                        *)
(*                                                                         *)
(* This module holds the state-free part: the access log of the phase in   *)
(* which workers are alive and the race predicate on it.  ThreadsMC.tla    *)
(* explores every interleaving of a small program at the grain of single   *)
(* reads and writes; DispatchTrace.tla applies the same operators to the   *)
(* accesses the hooks report from the real library.                        *)
(***************************************************************************)
EXTENDS Integers, Sequences, FiniteSets, TLC

(* an access log: cell -> [rd : set of thread ids, wr : set of thread ids]  (a function with a growing domain) *)
NoAccess == <<>>

Readers(acc, c) == IF c \in DOMAIN acc THEN acc[c].rd ELSE {}
Writers(acc, c) == IF c \in DOMAIN acc THEN acc[c].wr ELSE {}

LogRead(acc, t, c)  == (c :> [rd |-> Readers(acc, c) \cup {t}, wr |-> Writers(acc, c)]) @@ acc
LogWrite(acc, t, c) == (c :> [rd |-> Readers(acc, c), wr |-> Writers(acc, c) \cup {t}]) @@ acc

(* a cell is raced when some thread writes it and another thread reads or writes it *)
RacedCell(acc, c) == \E t \in Writers(acc, c) : (Readers(acc, c) \cup Writers(acc, c)) \ {t} # {}
RaceFree(acc) == \A c \in DOMAIN acc : ~RacedCell(acc, c)
RacedCells(acc) == {c \in DOMAIN acc : RacedCell(acc, c)}

(* The accesses one `_pixman_image_validate (i)` performs, given what it found: it reads the dirty bit; if the     *)
(* image was dirty it rewrites the derived state and clears the bit.  A clean validate reads the derived state.   *)
LogValidate(acc, t, i, wasDirty) ==
    LET a1 == LogRead(acc, t, <<"dirty", i>>) IN
    IF wasDirty THEN LogWrite(LogWrite(a1, t, <<"derived", i>>), t, <<"dirty", i>>)
                ELSE LogRead(a1, t, <<"derived", i>>)

(* A fast-path lookup reads and rewrites (move to front / insert) the cache it is handed. *)
LogLookup(acc, t, a) == LogWrite(LogRead(acc, t, <<"cache", a>>), t, <<"cache", a>>)

(* a change of a reference count *)
LogRef(acc, t, i) == LogWrite(LogRead(acc, t, <<"refs", i>>), t, <<"refs", i>>)
=============================================================================
