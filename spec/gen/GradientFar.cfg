SPECIFICATION FarSpec
CONSTANT Mutant = "none"
INVARIANT Emit
