----------------------------- MODULE FormatsGen -----------------------------
(* Generator for C10 (spec -> implementation direction).  For every packed format of more   *)
(* than 8 bits per pixel TLC enumerates, from the field layout Formats.tla derives from the  *)
(* format code, the raw pixel words whose channels take boundary values (0, 1, mid - 1, mid, *)
(* max - 1, max), each once with the undefined bits clear and once with them set.  The       *)
(* orchestrator presents these words to the real library at every x offset (smaller formats *)
(* are presented exhaustively and need no generator).  One initial state per format; the    *)
(* invariant Emit prints the words.                                                          *)
EXTENDS FormatsMC, Json, SequencesExt

GB(b) == IF b = 0 THEN {0}
         ELSE {v \in {0, 1, P2(b - 1) - 1, P2(b - 1), P2(b) - 2, P2(b) - 1} : v >= 0 /\ v < P2(b)}

UndefW(f) == LET d == DefinedMask(f)
                 top == IF f.bpp = 32 THEN 65535 ELSE IF f.bpp = 24 THEN 255 ELSE 0
             IN  <<top - d[1], 65535 - d[2]>>

GenWords(f) ==
    {WAdd(WAdd(WAdd(PutW(va, CShift(f, "a"), f.a), PutW(vr, CShift(f, "r"), f.r)),
               WAdd(PutW(vg, CShift(f, "g"), f.g), PutW(vb, CShift(f, "b"), f.b))), u) :
         va \in GB(f.a), vr \in GB(f.r), vg \in GB(f.g), vb \in GB(f.b), u \in {WZero, UndefW(f)}}

GenInit == /\ vkind = "gen" /\ vcode \in {c \in AllCodes : IsPacked(Fmt(c)) /\ Fmt(c).bpp >= 16}
           /\ vraw = WZero /\ vpal = 0 /\ vbpp = 0 /\ vbuf = <<>> /\ vx = 0
GenSpec == GenInit /\ [][UNCHANGED vars]_vars

Emit == PrintT(<<"VF:words", vcode, ToJson(SetToSeq(GenWords(Fmt(vcode))))>>)
=============================================================================
