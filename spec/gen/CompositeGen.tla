---------------------------- MODULE CompositeGen ----------------------------
(* Behaviour generator for Composite.tla (spec -> implementation direction, C03 and the       *)
(* fill_boxes part of C19).  The state machine of Composite.tla runs on an abstract grid:     *)
(* the destination is [0, DW) x [0, DH), coordinates range over -2 .. DW + 2.  A behaviour    *)
(* configures the images (destination clip, alpha map, source clip and flags, mask) through   *)
(* the specification's actions and then issues requests; each step is recorded in hist.       *)
(* The orchestrator replays a behaviour on the real library under several monotone coordinate *)
(* embeddings (abstract 0 -> 0, DW -> real width, the outer coordinates -> small or huge       *)
(* values) with formats / operators / colours of its choosing; the recorded trace is then      *)
(* validated against Composite.tla by trace/CompositeTrace.tla.                                *)
EXTENDS Composite, Json

CONSTANTS DW, DH, Depth

VARIABLES hist, phase

vars == <<img, reg, mem, hist, phase>>

Xs == (-2)..(DW + 2)
Ys == (-2)..(DH + 2)
Boxes == {<<x1, y1, x2, y2>> : x1 \in Xs, y1 \in Ys, x2 \in Xs, y2 \in Ys}
GoodBoxes == {b \in Boxes : Good(b)}
\* boxes for clips and alpha maps: mostly meeting the destination; a few that miss it
Touching == {b \in GoodBoxes : b[1] < DW /\ b[3] > 0 /\ b[2] < DH /\ b[4] > 0}
ClipBoxes == Touching \cup {<<-2, -2, 0, DH>>, <<DW, 0, DW + 2, 1>>, <<0, DH, 1, DH + 2>>}
\* request rectangles: non-empty ones and a few empty / inverted ones
ReqBoxes == GoodBoxes \cup {<<0, 0, 0, DH>>, <<1, 1, DW, 1>>, <<2, 2, 1, 1>>, <<DW, DH, DW, DH>>}
Offsets == {<<0, 0>>, <<1, 0>>, <<0, 1>>, <<-1, 2>>, <<2, -1>>, <<-2, -2>>}
Image(present, hc, cs, cc) == [present |-> present, w |-> 0, h |-> 0, hc |-> hc, cs |-> cs, cc |-> cc, am |-> <<>>]

Log(r) == hist' = Append(hist, r)

GenInit == /\ img = [dst |-> [present |-> TRUE, w |-> DW, h |-> DH, hc |-> FALSE, cs |-> FALSE, cc |-> FALSE, am |-> <<>>],
                     src |-> Image(TRUE, FALSE, FALSE, FALSE), mask |-> Image(FALSE, FALSE, FALSE, FALSE)]
           /\ reg = [dst |-> Empty, src |-> Empty, mask |-> Empty]
           /\ mem = <<>>
           /\ hist = <<>>
           /\ phase = 0

SetClip(role, L) == /\ img' = [img EXCEPT ![role].hc = TRUE, ![role].present = TRUE]
                    /\ RgInitRects(role, L)
                    /\ Log([k |-> "clip", role |-> role, v |-> L])

ClipStep(role) ==
    \/ UNCHANGED <<img, reg, hist>>
    \/ \E b \in ClipBoxes : SetClip(role, <<b>>)
    \/ \E b1, b2 \in ClipBoxes : SetClip(role, <<b1, b2>>)
    \/ \E b1, b2 \in Touching, b3 \in {<<0, 0, 1, DH>>, <<1, 1, DW, 2>>, <<DW - 1, 0, DW, DH>>} : SetClip(role, <<b1, b2, b3>>)

Configure ==
    /\ phase < 5 /\ phase' = phase + 1 /\ UNCHANGED mem
    /\ \/ phase = 0 /\ ClipStep("dst")
       \/ phase = 1 /\ \/ UNCHANGED <<img, reg, hist>>
                       \/ \E b \in ClipBoxes :
                             /\ img' = [img EXCEPT !.dst.am = <<[w |-> b[3] - b[1], h |-> b[4] - b[2], ox |-> b[1], oy |-> b[2]]>>]
                             /\ UNCHANGED reg
                             /\ Log([k |-> "alpha", role |-> "dst", v |-> <<b>>])
       \/ phase = 2 /\ ClipStep("src")
       \/ phase = 3 /\ \E cs, cc \in BOOLEAN :
                             /\ img' = [img EXCEPT !.src.cs = cs, !.src.cc = cc] /\ UNCHANGED reg
                             /\ Log([k |-> "flags", role |-> "src", v |-> <<(<<IF cs THEN 1 ELSE 0, IF cc THEN 1 ELSE 0, 0, 0>>)>>])
       \/ phase = 4 /\ \/ UNCHANGED <<img, reg, hist>>
                       \/ \E b \in ClipBoxes, cc \in BOOLEAN :
                             /\ img' = [img EXCEPT !.mask = Image(TRUE, TRUE, TRUE, cc)]
                             /\ RgInitRects("mask", <<b>>)
                             /\ Log([k |-> "maskclip", role |-> "mask", v |-> <<b, (<<1, IF cc THEN 1 ELSE 0, 0, 0>>)>>])

Apis == {"composite", "region", "fillboxes", "glyphs", "glyphsnm", "ctraps", "raster"}

\* a request; e is whether the specification's region for it is empty (lets the orchestrator count)
Request ==
    /\ phase = 5 /\ Len(hist) < Depth
    /\ UNCHANGED <<img, reg, mem, phase>>
    /\ \E api \in Apis, r \in ReqBoxes, s, m \in Offsets :
          LET rq == [sx |-> s[1], sy |-> s[2], mx |-> m[1], my |-> m[2], dx |-> r[1], dy |-> r[2],
                     w |-> IF r[3] > r[1] THEN r[3] - r[1] ELSE 0, h |-> IF r[4] > r[2] THEN r[4] - r[2] ELSE 0]
          IN Log([k |-> "req", role |-> api, v |-> <<r, (<<s[1], s[2], m[1], m[2]>>),
                                                      (<<IF CompositeRegion(rq) = <<>> THEN 1 ELSE 0, 0, 0, 0>>)>>])

GenNext == Configure \/ Request
GenSpec == GenInit /\ [][GenNext]_vars

Emit == Len(hist) < Depth \/ PrintT(<<"VF:behaviour", ToJson(hist)>>)
=============================================================================
