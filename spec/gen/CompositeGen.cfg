SPECIFICATION GenSpec
CONSTANTS
  DW = 4
  DH = 3
  Depth = 10
INVARIANT Emit
