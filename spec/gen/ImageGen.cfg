SPECIFICATION GenSpec
CONSTANTS
  Img = {1}
  GKeys = {1}
  MaxHeld = 1
  Bugs = {}
  Depth = 6
  Types = {"bits", "indexed", "gradient", "solid"}
  Focus = FALSE
INVARIANT EmitBehaviour
