------------------------------- MODULE ImageGen -------------------------------
(* Behaviour generator for the property part of Image.tla (C14): specification -> implementation.   *)
(* A behaviour is a configuration (image type, role in the composite, whether the image is rendered *)
(* once before any setter is called) followed by Depth setter calls on the long-lived image (or, for *)
(* "ma", on the image attached as alpha map A), each optionally followed by a rendering; the last   *)
(* one always is.  Every step carries the properties the client has asked for at that point (want): *)
(* harness/drv_image.c builds the freshly created replica from them.                                *)
(* Used with -generate (random histories) and breadth-first (all histories of a small depth).       *)
(* With Focus = TRUE only histories that keep calling the SAME setter, with a rendering before the  *)
(* first call and after every call, are produced: set(v1); render; set(v2); render for all pairs    *)
(* of values of every setter -- the histories on which an early-return guard that compares too      *)
(* little shows.                                                                                    *)
EXTENDS Image, Json

CONSTANTS Depth, Types, Focus

VARIABLES P, hist, name

Roles(type) == IF type = "bits" THEN {"src", "mask", "dst"} ELSE {"src", "mask"}

GenInit ==
    /\ \E t \in Types, r0 \in (IF Focus THEN {1} ELSE 0..1) : \E role \in Roles(t) :
          /\ P = (IF r0 = 1 THEN ValidateP(PropInit(t)) ELSE PropInit(t))
          /\ hist = <<[op |-> "config", type |-> t, role |-> role, r0 |-> r0]>>
    /\ name = ""

Steps == Len(hist) - 1

(* two-phase steps: first the setter (uniformly), then its value and whether a rendering follows *)
Choose == /\ name = "" /\ Steps < Depth
          /\ name' \in {c.j : c \in SetCalls(P.type)}
          /\ (Focus /\ Steps >= 1) => name' = hist[2].j
          /\ UNCHANGED <<P, hist>>

Do == /\ name # "" /\ name' = ""
      /\ \E c \in {x \in SetCalls(P.type) : x.j = name}, r \in 0..1 :
            /\ (Steps + 1 = Depth \/ Focus) => r = 1
            /\ \E Q \in PropStep(P, c) :
                  /\ P' = (IF r = 1 THEN ValidateP(Q) ELSE Q)
                  /\ hist' = Append(hist, [op |-> "set", j |-> c.j, v |-> c.v, r |-> r, want |-> Q.want])

GenNext == Choose \/ Do
GenSpec == GenInit /\ [][GenNext]_<<P, hist, name>>

Finished == Steps = Depth /\ name = ""
EmitBehaviour == ~Finished \/ PrintT(<<"VF:behaviour", ToJson(hist)>>)
=============================================================================
