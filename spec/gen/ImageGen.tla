------------------------------- MODULE ImageGen -------------------------------
(* Behaviour generator for the property part of Image.tla (C14): specification -> implementation.   *)
(* A behaviour is a configuration (image type, role in the composite, whether the image is rendered *)
(* once before any setter is called) followed by Depth setter calls on the long-lived image (or, for *)
(* "ma", on the image attached as alpha map A), each optionally followed by a rendering; the last   *)
(* one always is.  Every step carries the properties the client has asked for at that point (want): *)
(* harness/drv_image.c builds the freshly created replica from them.                                *)
(* Used with -generate (random histories) and breadth-first (all histories of a small depth).       *)
(* With Focus = TRUE only histories that keep calling the SAME setter, with a rendering before the  *)
(* first call, after the last and optionally in between, are produced (after a prelude that makes the setter's effect    *)
(* visible, see PreludeOf): set(v1); render; set(v2); render for all pairs                          *)
(* of values of every setter -- the histories on which an early-return guard that compares too      *)
(* little shows.                                                                                    *)
EXTENDS Image, Json

CONSTANTS Depth, Types, Focus

VARIABLES P, hist, name

Roles(type) == IF type = "bits" THEN {"src", "mask", "dst"} ELSE {"src", "mask"}

(* Focus: before the focused setter is exercised, the properties without which it has no visible effect *)
(* are set (an alpha map for its origin and for the map's accessors, a dither for the dither offset,    *)
(* clip + source clipping + client clip for each other, a transform for the filter, a repeat for the     *)
(* in-place edits of the palette / pixel memory)                                                        *)
PreludeOf(n) ==
    CASE n \in {"ao", "ma"} -> <<<<"am", 1>>>>
      [] n = "am" -> <<<<"ao", 4>>>>
      [] n = "dof" -> <<<<"d", 1>>>>
      [] n = "d" -> <<<<"dof", 4>>>>
      [] n = "sc" -> <<<<"c", 1>>, <<"cc", 1>>>>
      [] n = "cc" -> <<<<"c", 1>>, <<"sc", 1>>>>
      [] n = "c" -> <<<<"sc", 1>>, <<"cc", 1>>>>
      [] n = "f" -> <<<<"t", 2>>>>
      [] n \in {"pe", "px"} -> <<<<"r", 1>>>>     \* client memory edits: a repeating image is opaque / solid as a whole
      [] OTHER -> <<>>
RECURSIVE WithPrelude(_, _, _, _)
WithPrelude(Q, h, pre, k) ==        \* <<state, history>> after the prelude calls pre[k..]
    IF k > Len(pre) THEN <<Q, h>>
    ELSE IF ~Applicable(Q.type, pre[k][1]) THEN WithPrelude(Q, h, pre, k + 1)
    ELSE LET R == SetProp(Q, pre[k][1], pre[k][2]) IN
         WithPrelude(ValidateP(R), Append(h, [op |-> "set", j |-> pre[k][1], v |-> pre[k][2], r |-> 1, want |-> R.want]),
                     pre, k + 1)       \* (a rendering follows every prelude call too)

GenInit ==
    /\ \E t \in Types, r0 \in (IF Focus THEN {1} ELSE 0..1) : \E role \in Roles(t) :
          \E fn \in (IF Focus THEN {c.j : c \in SetCalls(t)} ELSE {""}) :
             LET P0 == IF r0 = 1 THEN ValidateP(PropInit(t)) ELSE PropInit(t)
                 st == WithPrelude(P0, <<>>, IF Focus THEN PreludeOf(fn) ELSE <<>>, 1)
             IN /\ P = st[1]
                /\ hist = <<[op |-> "config", type |-> t, role |-> role, r0 |-> r0, focus |-> fn, pre |-> Len(st[2])]>> \o st[2]
    /\ name = ""

Steps == Len(hist) - 1 - hist[1].pre

(* two-phase steps: first the setter (uniformly), then its value and whether a rendering follows *)
Choose == /\ name = "" /\ Steps < Depth
          /\ name' \in {c.j : c \in SetCalls(P.type)}
          /\ Focus => name' = hist[1].focus
          /\ UNCHANGED <<P, hist>>

Do == /\ name # "" /\ name' = ""
      /\ \E c \in {x \in SetCalls(P.type) : x.j = name}, r \in 0..1 :
            /\ (Steps + 1 = Depth) => r = 1
            /\ \E Q \in PropStep(P, c) :
                  /\ P' = (IF r = 1 THEN ValidateP(Q) ELSE Q)
                  /\ hist' = Append(hist, [op |-> "set", j |-> c.j, v |-> c.v, r |-> r, want |-> Q.want])

GenNext == Choose \/ Do
GenSpec == GenInit /\ [][GenNext]_<<P, hist, name>>

Finished == Steps = Depth /\ name = ""
EmitBehaviour == ~Finished \/ PrintT(<<"VF:behaviour", ToJson(hist)>>)
=============================================================================
