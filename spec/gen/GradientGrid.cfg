SPECIFICATION GridSpec
CONSTANT Mutant = "none"
INVARIANT Emit
