------------------------------- MODULE TrapGen -------------------------------
(* Scenario generator for C12 (spec -> implementation direction).  The Trap             *)
(* specification runs on a scaled lattice (Fixed1 = 16, depth 4) with an image of       *)
(* W x H pixels in two slots.  Coordinates are INDICES into a lattice with three         *)
(* positions per pixel (pixel boundary, a sample column / row, another sample column /   *)
(* row): index i stands for pixel i \div 3 - 1 and position i % 3.  A scenario is a       *)
(* sequence of calls; TLC only takes steps that are interesting according to the         *)
(* specification (the trapezoid covers something, the cut separates covered rows, ...)   *)
(* and records them; when a behaviour reaches Depth calls it is printed as JSON.  The    *)
(* orchestrator maps the indices into 16.16 coordinates of the real grids of a1/a4/a8    *)
(* (same order, same incidences with sample rows and columns, jittered by one unit),     *)
(* replays the calls through the real library and TLC validates the recorded trace       *)
(* against Trap.tla at full resolution.                                                  *)
EXTENDS Trap, Json, TLC

CONSTANTS W, H, Depth

VARIABLES img, hist, kind, pend

N == 4
NXI == 3 * (W + 2)
NYI == 3 * (H + 2)
XI == 0..NXI
YI == 0..NYI
XC(i) == ((i \div 3) - 1) * Fixed1 + (CASE i % 3 = 0 -> 0 [] i % 3 = 1 -> XEff(N) [] OTHER -> XEff(N) + 2 * StepXSmall(N))
YC(i) == ((i \div 3) - 1) * Fixed1 + (CASE i % 3 = 0 -> 0 [] i % 3 = 1 -> YFirst(N) [] OTHER -> YLast(N))

Conc(v) == <<YC(v[1]), YC(v[2]), XC(v[3]), YC(v[4]), XC(v[5]), YC(v[6]), XC(v[7]), YC(v[8]), XC(v[9]), YC(v[10])>>
Cov(v, xo, yo) == Coverage(Conc(v), N, W, H, xo, yo)
Blank == Zero(W, H)

\* index trapezoids <<top, bottom, l1x, l1y, l2x, l2y, r1x, r1y, r2x, r2y>>: top < bottom, the edges reach from
\* at or above top to at or below bottom.  They are chosen in stages (pend) to keep the fan-out small.
Rec(k, s, xo, yo, v) == [k |-> k, s |-> s, xo |-> xo, yo |-> yo, v |-> v]
EqRec(kd, a, b) == [k |-> "eq", kind |-> kd, a |-> a, b |-> b]
ImgRec(s) == [k |-> "img", s |-> s]

Kinds == {"single", "hsplit", "offset", "overlap"}

GenInit == img = [s \in {0, 1} |-> Blank] /\ hist = <<>> /\ kind = "" /\ pend = <<>>

Choose0 == kind = "" /\ Len(hist) < Depth /\ kind' \in Kinds /\ pend' = <<>> /\ UNCHANGED <<img, hist>>
Choose1 == /\ kind # "" /\ Len(pend) = 0
           /\ \E t \in 1..(NYI - 2), b \in 2..(NYI - 1) : t < b /\ pend' = <<t, b>>
           /\ UNCHANGED <<img, hist, kind>>
Choose2 == /\ kind # "" /\ Len(pend) = 2
           /\ \E l1 \in XI, l2 \in XI, a1 \in {0, 1}, a2 \in {0, 1} : pend' = pend \o <<l1, pend[1] - a1, l2, pend[2] + a2>>
           /\ UNCHANGED <<img, hist, kind>>
Choose3 == /\ kind # "" /\ Len(pend) = 6
           /\ \E r1 \in XI, r2 \in XI, a3 \in {0, 1}, a4 \in {0, 1} : pend' = pend \o <<r1, pend[1] - a3, r2, pend[2] + a4>>
           /\ UNCHANGED <<img, hist, kind>>

Skip == UNCHANGED <<img, hist>>

Do ==
    /\ kind # "" /\ Len(pend) = 10 /\ kind' = "" /\ pend' = <<>>
    /\ LET v == pend  c == Cov(v, 0, 0) IN
       IF c = Blank THEN Skip
       ELSE
         \/ /\ kind = "single"
            /\ img' = [img EXCEPT ![0] = Saturate(Blank, c, N)]
            /\ hist' = hist \o <<ImgRec(0), Rec("rt", 0, 0, 0, v)>>
         \/ /\ kind = "overlap"          \* a second trapezoid on top of what slot 0 holds: saturation
            /\ IF img[0] = Blank \/ Saturate(img[0], c, N) = img[0] THEN Skip
               ELSE /\ img' = [img EXCEPT ![0] = Saturate(img[0], c, N)]
                    /\ hist' = hist \o <<Rec("rt", 0, 0, 0, v)>>
         \/ /\ kind = "hsplit"
            /\ LET ms == {m \in (v[1] + 1)..(v[2] - 1) :
                            Cov([v EXCEPT ![2] = m], 0, 0) # Blank /\ Cov([v EXCEPT ![1] = m], 0, 0) # Blank} IN
               IF ms = {} THEN Skip
               ELSE \E m \in ms :
                       /\ img' = [s \in {0, 1} |-> Saturate(Blank, c, N)]
                       /\ hist' = hist \o <<ImgRec(0), Rec("rt", 0, 0, 0, v), ImgRec(1), Rec("rt", 1, 0, 0, [v EXCEPT ![1] = m]),
                                            Rec("rt", 1, 0, 0, [v EXCEPT ![2] = m]), EqRec("hsplit", 0, 1)>>
         \/ /\ kind = "offset"
            /\ LET sh(xo, yo) == [i \in 1..10 |-> IF i \in {3, 5, 7, 9} THEN v[i] - 3 * xo ELSE v[i] - 3 * yo]
                   os == {o \in {-1, 0, 1} \X {-1, 0, 1} :
                            /\ o # <<0, 0>>
                            /\ \A i \in 1..10 : sh(o[1], o[2])[i] >= 0 /\ sh(o[1], o[2])[i] <= (IF i \in {3, 5, 7, 9} THEN NXI ELSE NYI)
                            /\ Cov(sh(o[1], o[2]), o[1], o[2]) = c}      \* what the specification says about offsets
               IN IF os = {} THEN Skip
                  ELSE \E o \in os :
                          /\ img' = [s \in {0, 1} |-> Saturate(Blank, c, N)]
                          /\ hist' = hist \o <<ImgRec(0), Rec("rt", 0, 0, 0, v), ImgRec(1), Rec("rt", 1, o[1], o[2], sh(o[1], o[2])),
                                               EqRec("offset", 0, 1)>>

GenNext == Choose0 \/ Choose1 \/ Choose2 \/ Choose3 \/ Do
GenSpec == GenInit /\ [][GenNext]_<<img, hist, kind, pend>>

Emit == Len(hist) < Depth \/ kind # "" \/ PrintT(<<"VF:behaviour", ToJson(hist)>>)
=============================================================================
