SPECIFICATION GenSpec
INVARIANT Emit
