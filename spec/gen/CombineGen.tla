----------------------------- MODULE CombineGen -----------------------------
(* Generator for C01 (spec -> implementation direction).  TLC enumerates the case classes     *)
(* completely -- every operator x {no mask, unified, component alpha} x every edge family --  *)
(* and emits for each class one row of 1..19 pixel tuples (source, mask, destination as 8-bit *)
(* a,r,g,b) drawn from the boundary set B8 according to the family:                           *)
(*   any     arbitrary words, including non-premultiplied ("super-luminant") pixels           *)
(*   premul  colour <= alpha in source and destination, arbitrary mask                        *)
(*   edge    alpha 0 / 255 in source, mask and destination                                    *)
(*   cazero  masks with zero components                                                       *)
(*   div     source / destination alpha pairs on the division edges of the disjoint and       *)
(*           conjoint operators: sa = 0, da = 0, sa = da, sa + da = 255 - 1, 255, 255 + 1      *)
(*   sat     large values (saturating sums)                                                   *)
(*   superlum  non-premultiplied sources whose alpha is 0 or tiny and whose colours are not     *)
(*           ("super-luminant"): nothing may be skipped because alpha is 0                     *)
(*   rnd     arbitrary values 0..255 in every channel (rounding of products off the boundary   *)
(*           set); rndpm the same, premultiplied                                               *)
(* The orchestrator maps each row onto format triples and source presentations, executes it   *)
(* on the real library and has the recorded trace validated against Combine.tla.              *)
EXTENDS Combine, TLC, Json

VARIABLES op, mode, fam

B8 == {0, 1, 2, 127, 128, 129, 254, 255}
Modes == {"none", "unified", "ca"}
Fams == {"any", "premul", "edge", "cazero", "div", "sat", "rnd", "rndpm", "superlum"}
FamIdx(f) == CASE f = "any" -> 0 [] f = "premul" -> 1 [] f = "edge" -> 2 [] f = "cazero" -> 3 [] f = "div" -> 4 [] f = "sat" -> 5 [] f = "rnd" -> 6 [] f = "rndpm" -> 7 [] f = "superlum" -> 8
ModeIdx(m) == CASE m = "none" -> 0 [] m = "unified" -> 1 [] m = "ca" -> 2

R(S) == RandomElement(S)
Le(a) == {x \in B8 : x <= a}
PxAny == <<R(B8), R(B8), R(B8), R(B8)>>
PxPremulA(a) == <<a, R(Le(a)), R(Le(a)), R(Le(a))>>          \* the argument is evaluated once
PxPremul == PxPremulA(R(B8))
All8 == 0..255
PxRnd == <<R(All8), R(All8), R(All8), R(All8)>>
PxRndPmA(a) == <<a, R(0..a), R(0..a), R(0..a)>>
Big == {128, 129, 254, 255}
PxBigA(a) == <<a, R({x \in Big : x <= a}), R({x \in Big : x <= a}), R({x \in Big : x <= a})>>
DivPairs == {p \in B8 \X B8 : p[1] + p[2] \in {254, 255, 256} \/ p[1] = p[2] \/ p[1] = 0 \/ p[2] = 0}
PxPair(p, m) == [s |-> PxPremulA(p[1]), m |-> m, d |-> PxPremulA(p[2])]

Tuple(f) ==
    CASE f = "any"    -> [s |-> PxAny, m |-> PxAny, d |-> PxAny]
      [] f = "premul" -> [s |-> PxPremul, m |-> PxAny, d |-> PxPremul]
      [] f = "edge"   -> [s |-> PxPremulA(R({0, 255})), m |-> <<R({0, 128, 255}), R({0, 255}), R({0, 255}), R({0, 255})>>,
                          d |-> PxPremulA(R({0, 255}))]
      [] f = "cazero" -> [s |-> PxPremul, m |-> <<R(B8), R({0, 255}), 0, R({0, 1, 254})>>, d |-> PxPremul]
      [] f = "div"    -> PxPair(R(DivPairs), R({<<255, 255, 255, 255>>, <<255, 255, 255, 255>>, <<128, 255, 127, 0>>}))
      [] f = "sat"    -> [s |-> PxBigA(R(Big)), m |-> <<R(Big), R(Big), R(Big), R(Big)>>, d |-> PxBigA(R(Big))]
      [] f = "rnd"    -> [s |-> PxRnd, m |-> PxRnd, d |-> PxRnd]
      [] f = "superlum" -> [s |-> <<R({0, 0, 1, 128}), R(B8 \ {0}), R(B8), R({255, 254, 129})>>,
                            m |-> <<R({255, 255, 128, 0}), R(B8), R(B8), R(B8)>>, d |-> PxAny]
      [] f = "rndpm"  -> [s |-> PxRndPmA(R(All8)), m |-> PxRnd, d |-> PxRndPmA(R(All8))]

RowLen == ((op + 7 * FamIdx(fam) + 3 * ModeIdx(mode)) % 19) + 1
Row == [i \in 1..RowLen |-> Tuple(fam)]

GenInit == op \in AllOps /\ mode \in Modes /\ fam \in Fams /\ ~(op \in HSLOps /\ mode = "ca")
GenSpec == GenInit /\ [][UNCHANGED <<op, mode, fam>>]_<<op, mode, fam>>

Emit == PrintT(<<"VF:case", ToJson([op |-> op, mode |-> mode, fam |-> fam, row |-> Row])>>)
=============================================================================
