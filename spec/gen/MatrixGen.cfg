SPECIFICATION GenSpec
CONSTANTS
  Depth = 6
INVARIANT Emit
