------------------------------ MODULE SampleGen ------------------------------
(* Behaviour generator for the Sample specification (spec -> implementation direction).     *)
(* The Sample state machine runs over concrete small images and the transform / filter /     *)
(* repeat families of DESIGN.md 5 C08; every step is one API call.  A history variable       *)
(* records the calls; a behaviour of length Depth is printed as JSON.  The orchestrator      *)
(* turns it into a script for harness/drv_sample.c; the recorded trace is validated against  *)
(* Sample.tla by trace/SampleTrace.tla.  What TLC contributes here is the *history*: which   *)
(* setters precede which fetch (a setter that is followed by another setter of the same      *)
(* kind, a fetch repeated under one changed aspect, a new image resetting everything).       *)
EXTENDS Sample, Json, TLC

CONSTANT Depth

VARIABLES hist, kind

Sizes == {<<1, 1>>, <<2, 1>>, <<3, 2>>, <<5, 4>>}
Fmts  == {"a8r8g8b8", "x8r8g8b8", "r5g6b5", "a8"}

GenPix(fmt, w, h) ==
    [y \in 1..h |-> [x \in 1..w |->
        LET hi == (x * 7919 + y * 10473 + 40503) % 65536
            lo == (x * 31337 + y * 2711 + 977) % 65536
        IN CASE fmt \in {"a8r8g8b8", "x8r8g8b8"} -> <<hi, lo>>
             [] fmt = "r5g6b5" -> <<0, lo>>
             [] fmt = "a8" -> <<0, lo % 256>>]]

Q == One \div 4
Tr(tx, ty) == <<<<One, 0, tx>>, <<0, One, ty>>, <<0, 0, One>>>>
Sc(sx, sy, tx, ty) == <<<<sx, 0, tx>>, <<0, sy, ty>>, <<0, 0, One>>>>

AffineMats(w, h) ==
    {Identity}
    \cup {Tr(k * Q, 0) : k \in {-5, -2, -1, 1, 2, 3, 6}}
    \cup {Tr(b + e, e) : b \in {0, Half, -Half, One, w * One}, e \in {-1, 0, 1}}
    \cup {Sc(s, s, 0, 0) : s \in {One \div 3, Half, 43691, 3 * Half, 2 * One, 3 * One}}
    \cup {Sc(s, One, t, 0) : s \in {Half, 2 * One}, t \in {-1, 1, Half}}
    \cup {Sc(-One, One, w * One + e, 0) : e \in {-1, 0, 1}}
    \cup {<<<<0, -One, w * One>>, <<One, 0, 0>>, <<0, 0, One>>>>,                 \* 90
          <<<<-One, 0, w * One>>, <<0, -One, h * One>>, <<0, 0, One>>>>,          \* 180
          <<<<0, One, 0>>, <<-One, 0, h * One>>, <<0, 0, One>>>>,                 \* 270
          <<<<39322, -52429, One>>, <<52429, 39322, 0>>, <<0, 0, One>>>>,         \* (3,4,5)
          <<<<One, Half, 0>>, <<0, One, 0>>, <<0, 0, One>>>>,                     \* shear
          <<<<One, 0, 0>>, <<Q, One, 1>>, <<0, 0, One>>>>}

\* projective: even entries in columns 0 and 1 (exact homogeneous coordinates)
ProjMats(w, h) ==
    {<<<<One, 0, t>>, <<0, One, 0>>, wr>> : t \in {0, -2 * One, -3 * Half},
                                            wr \in {<<1024, 0, One>>, <<-1024, 0, One>>, <<0, 1024, One>>, <<0, -1024, One>>}}
    \cup {<<<<k * One, 0, k * t>>, <<0, k * One, 0>>, <<0, 0, k * One>>>> : k \in {2, 3, -1, -3}, t \in {0, -2 * One, Q}}

Kernels ==
    {<<3 * One, 3 * One, 7281, 7281, 7281, 7281, 7288, 7281, 7281, 7281, 7281>>,
     <<2 * One, 2 * One, Q, Q, Q, Q>>,
     <<2 * One, One, Half, Half>>,
     <<One, 2 * One, Q, 3 * Q>>,
     <<3 * One, 3 * One, 0, -One, 0, -One, 5 * One, -One, 0, -One, 0>>,
     <<4 * One, One, 8192, 24576, 24576, 8192>>}

SepKernels ==
    {<<2 * One, 2 * One, One, One, One, 0, Half, Half, One, 0, Half, Half>>,
     <<3 * One, One, 2 * One, 0, -3277, One, 3277, 3277, One, -3277, 16384, 32768, 16384, 0, 16384, 49152, One>>}

Rec(k) == [k |-> k]
Log(r) == hist' = Append(hist, r)

GenInit == Init /\ hist = <<>> /\ kind = "I"

\* the simulator picks uniformly: fetches and transform changes get more names than image changes
KT == {"T", "T2"}
KF == {"F", "F2"}
KC == {"C", "C2", "C3", "C4"}
Choose == kind = "" /\ kind' \in {"I", "P"} \cup KT \cup KF \cup KC /\ UNCHANGED <<svars, hist>>

Do ==
    /\ kind # "" /\ kind' = ""
    /\
         \/ kind = "I" /\ \E sz \in Sizes, fmt \in Fmts :
                LET img == MkImage(fmt, sz[1], sz[2], GenPix(fmt, sz[1], sz[2])) IN
                SetImage(img) /\ Log([k |-> "I", fmt |-> fmt, w |-> sz[1], h |-> sz[2], pix |-> img.pix])
         \/ kind \in KT /\ \E m \in AffineMats(image.w, image.h) \cup ProjMats(image.w, image.h) :
                SetTransform(m) /\ Log([k |-> "T", m |-> m])
         \/ kind \in KF /\ \E f \in {"nearest", "bilinear"} :
                SetFilter(f, <<>>) /\ Log([k |-> "F", f |-> f, params |-> <<>>])
         \/ kind \in KF /\ \E p \in Kernels :
                SetFilter("convolution", p) /\ Log([k |-> "F", f |-> "convolution", params |-> p])
         \/ kind \in KF /\ \E p \in SepKernels :
                SetFilter("separable", p) /\ Log([k |-> "F", f |-> "separable", params |-> p])
         \/ kind = "P" /\ \E r \in {"none", "normal", "pad", "reflect"} :
                SetRepeat(r) /\ Log([k |-> "P", r |-> r])
         \/ kind \in KC /\ \E x0 \in -7..8, y0 \in -3..5, n \in {1, 3, 4, 8, 11}, rows \in {1, 2}, role \in {"src", "src", "mask"}, dx \in 0..3 :
                /\ \/ IsAffine(transform) /\ Fetch(x0, y0, n, rows, RefRows(image, transform, filter, repeat, x0, y0, n, rows))
                   \/ ~IsAffine(transform) /\ out' = <<>> /\ UNCHANGED <<image, transform, filter, repeat>>  \* no unique reference
                /\ Log([k |-> "C", role |-> role, x0 |-> x0, y0 |-> y0, n |-> n, rows |-> rows, dx |-> dx])

GenNext == Choose \/ Do

GenSpec == GenInit /\ [][GenNext]_<<svars, hist, kind>>

Emit == Len(hist) < Depth \/ kind # "" \/ PrintT(<<"VF:behaviour", ToJson(hist)>>)
=============================================================================
