SPECIFICATION GenSpec
CONSTANTS
  Fixed1 = 16
  W = 6
  H = 4
  Depth = 12
INVARIANT Emit
