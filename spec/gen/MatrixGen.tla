------------------------------ MODULE MatrixGen ------------------------------
(* Input generator for C11 (spec -> implementation direction).  The state machine of Matrix.tla is  *)
(* trivial (pure functions), so what TLC contributes is the systematic choice of INPUTS from the      *)
(* magnitude classes the statement's quantifier names: 0, +-1 raw unit, +-1/2, +-1.0, +-2^k,          *)
(* +-32767.x, INT32_MIN/MAX, homogeneous coordinates w at 0 and +-2^k (including the 2^48 boundary    *)
(* of the divisor), results straddling +-32768.  A call is built in several steps: first its kind,  *)
(* then one parameter per step (uniform choice by -generate), so that every kind and every class     *)
(* value is reached with comparable frequency.  A behaviour is a list of Depth calls, printed as     *)
(* JSON: [fn |-> name, a |-> argument list in the order of the drv_matrix script line].              *)
EXTENDS Integers, Sequences, TLC, Json

CONSTANT Depth

VARIABLES hist, kind, ps

IMin == -2147483647 - 1
IMax == 2147483647
One  == 65536
Pows == {2 ^ k : k \in 0..30}
Near == {32767 * One, 32767 * One + 1, 32767 * One + 32768, 32767 * One + 65535}
Cls  == {0, 3, -3, One + 1, One - 1, -One - 1, 98304, -98304, IMin, IMin + 1, IMax, IMax - 1}
        \cup Pows \cup {-p : p \in Pows} \cup Near \cup {-p : p \in Near}
Small == {0, 1, -1, 2, 3, -3, 16384, -16384, 32768, -32768, 49152, One, -One, 98304, 32767, 32769}
Edge  == {0, 1, -1, 2, -2, 3, -3, 32768, One, -One, 2 * One, 46341, 1000, IMin, IMin + 1, IMax, 32767 * One}
Bit   == {0, 1}
Sgn   == {1, -1}

Kinds == {"pt_cls", "pt_wpow", "pt_straddle", "p3_cls", "mul_cls", "mul_halves", "xform", "bounds_edge", "invert",
          "near_class"}

(* near_class: the library classifies matrices with comparisons that tolerate EPSILON = 2 raw units          *)
(* (is_identity, is_scale, is_int_translate; IS_ZERO / IS_ONE / IS_UNIT / IS_INT).  A member of a class is    *)
(* moved by -3..3 units on one entry and combined with small and large translations; the result goes to     *)
(* invert or to one of the predicates.                                                                        *)
TV == {0, One, -3 * One, 1000 * One, -5000 * One, 30000 * One, -32767 * One, 32767 * One}
ClassBase(c, tx, ty) ==
    CASE c = "translate" -> <<One, 0, tx, 0, One, ty, 0, 0, One>>
      [] c = "scale"     -> <<2 * One, 0, tx, 0, 32768, ty, 0, 0, One>>
      [] c = "unit"      -> <<0, -One, tx, One, 0, ty, 0, 0, One>>
      [] c = "identity"  -> <<3 * One, 0, 0, 0, 3 * One, 0, 0, 0, 3 * One>>

Rep(n, S) == [i \in 1..n |-> S]
Dom(k) ==
    CASE k = "pt_cls"      -> Rep(12, Cls)
      [] k = "p3_cls"      -> Rep(12, Cls)
      [] k = "pt_wpow"     -> <<Sgn, 0..31, Sgn, 0..30, {0, 1, -1}, Cls, Cls, Cls, Cls, Cls>>
      [] k = "pt_straddle" -> <<1..14, -2..2, Sgn, -2..2, {0, 1, 32767, 32768, 32769, 65535}>>
      [] k = "mul_cls"     -> Rep(6, Cls) \o <<0..2>>
      [] k = "mul_halves"  -> Rep(6, Small) \o <<0..2>>
      [] k = "xform"       -> <<{"scale", "rotate", "translate"}, Bit, Bit, Edge, Edge, Cls, Cls, Cls, Cls>>
      [] k = "bounds_edge" -> <<{1, 10, 100}, {0, 1, 32768, 65535, 65536, 65537, -1, -65536}, Sgn,
                                {One, 2 * One, 32768, 3 * One}, {0, 1, -1, One}>>
      [] k = "invert"      -> <<{One, 2 * One, 32768, -One, 3 * One, 1000, -7, 2}, {One, 2 * One, 32768, -One, 5, 46341},
                                Cls, Cls, {0, 1, 32768, -One}>>
      [] k = "near_class"  -> <<{"translate", "scale", "unit", "identity"}, 1..9, -3..3, TV, TV,
                                {"invert", "identity", "scale", "int_translate"}>>

Id9 == <<One, 0, 0, 0, One, 0, 0, 0, One>>
Lim(s) == IF s = 1 THEN IMax ELSE IMin

Build(k, p) ==
    CASE k = "pt_cls" -> [fn |-> "point", a |-> p]
      [] k = "p3_cls" -> [fn |-> "point3d", a |-> p]
      [] k = "pt_wpow" ->
            LET i == IF p[2] = 31 THEN Lim(p[1]) ELSE p[1] * 2 ^ p[2]
                z == p[3] * 2 ^ p[4]
            IN [fn |-> "point", a |-> <<p[7], 0, p[8], 0, p[10], 0, p[5], 0, i, p[6], p[9], z>>]
      [] k = "pt_straddle" ->
            LET x == p[3] * (2 ^ (31 - p[1]) + p[2]) IN
            [fn |-> "point", a |-> <<2 ^ (16 + p[1]), p[5], p[4], 0, One, 0, 0, 0, One, x, 1, One>>]
      [] k \in {"mul_cls", "mul_halves"} ->
            [fn |-> "multiply", a |-> <<p[1], p[2], p[3], 0, One, 0, 0, 0, One,
                                        p[4], 0, 0, p[5], One, 0, p[6], 0, One, p[7]>>]
      [] k = "xform" ->
            LET m == <<p[6], 0, p[7], 0, p[8], p[9], 0, 0, One>> IN
            [fn |-> p[1], a |-> <<p[2], p[3]>> \o m \o m \o <<p[4], p[5]>>]
      [] k = "bounds_edge" ->
            \* s = 1: the corner x2 * sc + tx lands at 32767.0 + f;  s = -1: the corner 0 + tx at -32768.0 + |f|
            LET af == IF p[2] < 0 THEN -p[2] ELSE p[2]
                tx == IF p[3] = 1 THEN (32767 * One - p[1] * p[4]) + p[2] ELSE IMin + af
            IN [fn |-> "bounds", a |-> <<p[4], p[5], tx, 0, One, 0, 0, 0, One, 0, 0, p[1], p[1]>>]
      [] k = "invert" ->
            [fn |-> "invert", a |-> <<p[1], p[5], p[3], 0, p[2], p[4], 0, 0, One, 0>>]
      [] k = "near_class" ->
            LET b == ClassBase(p[1], p[4], p[5])
                m == [b EXCEPT ![p[2]] = b[p[2]] + p[3]]
            IN IF p[6] = "invert" THEN [fn |-> "invert", a |-> m \o <<0>>]
               ELSE [fn |-> "is", a |-> <<p[6]>> \o m]

GenInit == hist = <<>> /\ kind = "" /\ ps = <<>>

Choose == kind = "" /\ Len(hist) < Depth /\ kind' \in Kinds /\ UNCHANGED <<hist, ps>>

Param ==
    /\ kind # "" /\ Len(ps) < Len(Dom(kind))
    /\ \E x \in Dom(kind)[Len(ps) + 1] : ps' = Append(ps, x)
    /\ UNCHANGED <<hist, kind>>

Finish ==
    /\ kind # "" /\ Len(ps) = Len(Dom(kind))
    /\ hist' = Append(hist, Build(kind, ps))
    /\ kind' = "" /\ ps' = <<>>

GenNext == Choose \/ Param \/ Finish
GenSpec == GenInit /\ [][GenNext]_<<hist, kind, ps>>

Emit == Len(hist) < Depth \/ kind # "" \/ PrintT(<<"VF:behaviour", ToJson(hist)>>)
=============================================================================
