SPECIFICATION GenSpec
CONSTANTS
  Img = {1, 2, 3}
  GKeys = {1, 2}
  MaxHeld = 3
  Bugs = {}
  Depth = 25
  GHigh = 4
  GLow = 2
  Goal = ""
INVARIANT EmitBehaviour
