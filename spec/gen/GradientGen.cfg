SPECIFICATION GenSpec
CONSTANT Mutant = "none"
INVARIANT Emit
