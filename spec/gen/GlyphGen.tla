------------------------------ MODULE GlyphGen ------------------------------
(* Behaviour generator for GlyphCache.tla (spec -> implementation direction).  The refined  *)
(* state machine runs over NK keys whose hash classes are given by ClassCode (digit k-1 in  *)
(* base 8 = hash of key k on the 8-slot table); the orchestrator makes the driver search    *)
(* key pointers whose REAL hash falls into these classes.  A history variable records the   *)
(* calls; a behaviour of Depth calls is printed as JSON and replayed on the real library.   *)
(* Two-phase steps (choose the kind of call, then its arguments) keep the mix of calls      *)
(* independent of the number of argument combinations; Weights biases the simulator         *)
(* towards inserts so that full tables and tombstone runs are reached.                      *)
(* The same module serves exhaustive enumeration (breadth-first, small Depth) and           *)
(* -generate (long random behaviours).                                                      *)
EXTENDS GlyphCache, Json, TLC

CONSTANTS NK, ClassCode, NV, Depth, MaxFreeze

VARIABLES hist, kind

RECURSIVE Pow8(_)
Pow8(n) == IF n = 0 THEN 1 ELSE 8 * Pow8(n - 1)
GKeys == 1..NK
GVals == 1..NV
GHash == [k \in GKeys |-> (ClassCode \div Pow8(k - 1)) % 8]

Kinds == {<<"insert", 1>>, <<"insert", 2>>, <<"insert", 3>>, <<"insert", 4>>,
          <<"remove", 1>>, <<"remove", 2>>, <<"lookup", 1>>, <<"lookup", 2>>,
          <<"use", 1>>, <<"use", 2>>, <<"freeze", 1>>, <<"thaw", 1>>}

Absent(k) == LookupIdx(slot, k) = MISS

EnabledKind(kd) ==
    CASE kd[1] = "insert" -> freeze > 0 /\ \E k \in Keys : Absent(k)
      [] kd[1] = "thaw"   -> freeze > 0
      [] kd[1] = "freeze" -> freeze < MaxFreeze
      [] kd[1] = "use"    -> ng > 0
      [] OTHER            -> TRUE

Log(op, k, v) == hist' = Append(hist, [op |-> op, k |-> k, v |-> v])

GenInit == Init /\ hist = <<>> /\ kind = <<"", 0>>

Choose == /\ kind[1] = "" /\ Len(hist) < Depth
          /\ kind' \in {kd \in Kinds : EnabledKind(kd)}
          /\ UNCHANGED <<vars, hist>>

Do == /\ kind[1] # "" /\ kind' = <<"", 0>>
      /\ \/ kind[1] = "freeze" /\ Freeze /\ Log("F", 0, 0)
         \/ kind[1] = "thaw" /\ Thaw /\ Log("T", 0, 0)
         \/ kind[1] = "insert" /\ \E k \in Keys, v \in Vals : Insert(k, v) /\ Log("I", k, v)
         \/ kind[1] = "lookup" /\ \E k \in Keys : Lookup(k) /\ Log("L", k, 0)
         \/ kind[1] = "remove" /\ \E k \in Keys : Remove(k) /\ Log("D", k, 0)
         \/ kind[1] = "use" /\ \E k \in Keys : Use(k) /\ Log("U", k, 0)

GenNext == Choose \/ Do
GenSpec == GenInit /\ [][GenNext]_<<vars, hist, kind>>

Emit == Len(hist) < Depth \/ kind[1] # "" \/ PrintT(<<"VF:behaviour", ToJson(hist)>>)
=============================================================================
