------------------------------ MODULE FilterGen ------------------------------
(* Case generator for C18 (specification -> implementation direction).  The property is    *)
(* quantified per axis over reconstruction kernel x sampling kernel x subsample depth x     *)
(* scale; TLC enumerates that product exhaustively (breadth-first: every element is an      *)
(* initial state) for the depth and scale sets of the tier and prints one line per case.    *)
(* The orchestrator pairs the cases onto the x and y axis of create calls, appends a        *)
(* set_filter and constant-image composites, and the driver replays them on the library.    *)
EXTENDS Filter, TLC

CONSTANTS BitsSet, Scales        \* scales as raw 16.16 integers

VARIABLE gcase

GenInit == flt = Idle /\ gcase \in Kernels \X Kernels \X BitsSet \X Scales
GenNext == UNCHANGED <<flt, gcase>>
GenSpec == GenInit /\ [][GenNext]_<<flt, gcase>>

Emit == PrintT(<<"VF:case", gcase[1], gcase[2], gcase[3], gcase[4]>>)
=============================================================================
