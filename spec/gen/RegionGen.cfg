SPECIFICATION GenSpec
CONSTANTS
  G = 4
  Depth = 8
INVARIANT Emit
