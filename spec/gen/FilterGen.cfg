SPECIFICATION GenSpec
CONSTANTS
  Mutant = "none"
  BitsSet = {0, 1, 4, 8}
  Scales = {1, 21845, 65536, 98304, 327680}
INVARIANT Emit
