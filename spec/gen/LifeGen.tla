------------------------------- MODULE LifeGen -------------------------------
(* Behaviour generator for the lifetime part of Image.tla (C20): specification -> implementation. *)
(* A behaviour is Depth calls chosen among those the client may make (LifeCalls), followed by a   *)
(* drain phase in which the client drops every reference it still owns and removes every glyph,   *)
(* so that "nothing is live at the end" can be checked on the real library.  The call whose       *)
(* outcome the statement leaves open (Ambiguous: the code over-refuses, DESIGN.md 6 #8) is always  *)
(* followed by a detach, after which both outcomes have led to the same state: the script never   *)
(* touches an image that one of the allowed outcomes has released.  Likewise a thaw, which may     *)
(* evict any of the cached glyphs, is followed by the removal of every key.                        *)
(* Used with -generate (random behaviours of depth ~25) and in breadth-first mode (all behaviours *)
(* of a small depth).  harness/drv_life.c replays the printed call lists.                         *)
EXTENDS Image, Json

(* Pressure mode (PressSpec): histories of ONE glyph cache that bring its table into a chosen situation (Goal, one   *)
(* of Image!GPressureClasses) and thaw it there, so that every threshold an outermost thaw compares the table with    *)
(* is crossed, with glyphs alive on both sides of it; afterwards the survivors are drawn and either removed one by    *)
(* one or left to destroy.  To know when the table is in that situation the generator models where tombstones stay:   *)
(* the driver gives key k a concrete key whose home slot is k (gcreate v = 1), so nothing collides, a removal leaves   *)
(* a tombstone unless the next slot is empty (then the run of tombstones ending there is cleared), and an insert      *)
(* takes its own slot back.  This layout model only steers the generator; the recorded thaw is classified from the    *)
(* counters the library reports (LifeTrace), and judged by the ownership rules alone.                                 *)
CONSTANTS Depth,
          GHigh, GLow,     \* water marks of the build the histories are meant for (table size 2 * GHigh)
          Goal             \* pressure mode: the situation in which the cache is thawed

VARIABLES life, hist, kind, must, tomb

GenInit == life = LifeInit /\ hist = <<>> /\ kind = "" /\ must = <<>> /\ tomb = {}    \* must: calls that have to come next

RECURSIVE RemoveAll(_)
RemoveAll(ks) == IF ks = {} THEN <<>>
                 ELSE LET k == CHOOSE x \in ks : \A y \in ks : x <= y IN <<Call("gremove", 0, k, 0)>> \o RemoveAll(ks \ {k})

Draining == Len(hist) >= Depth

Enabled(S) ==
    IF must # <<>> THEN {must[1]}
    ELSE IF Draining THEN {c \in LifeCalls(S) : c.op \in {"unref", "gdestroy"}}
    ELSE LifeCalls(S)

(* two-phase steps: first the kind of call (uniformly among the kinds that have an enabled call), then its arguments *)
Choose == /\ kind = "" /\ Enabled(life) # {}
          /\ kind' \in {c.op : c \in Enabled(life)}
          /\ UNCHANGED <<life, hist, must, tomb>>

Do == /\ kind # "" /\ kind' = ""
      /\ \E c \in {x \in Enabled(life) : x.op = kind} :
            /\ life' \in LifeStep(life, c)
            /\ hist' = Append(hist, c)
            /\ must' = IF must # <<>> THEN Tail(must)
                       ELSE IF Ambiguous(life, c) THEN <<Call("alpha", c.i, 0, 0)>>
                       ELSE IF c.op = "gthaw" THEN RemoveAll(GKeys)
                       ELSE <<>>

GenNext == (Choose \/ Do) /\ tomb' = tomb

GenSpec == GenInit /\ [][GenNext]_<<life, hist, kind, must, tomb>>

Finished == Draining /\ kind = "" /\ must = <<>> /\ Quiescent(life)

(* ---- pressure mode ---- *)
HashSize == 2 * GHigh
RECURSIVE Collapse(_, _)
Collapse(tb, idx) == IF idx \in tb THEN Collapse(tb \ {idx}, (idx + HashSize - 1) % HashSize) ELSE tb
TombAfterRemove(tb, present, k) ==
    LET t1 == tb \cup {k}   nx == (k + 1) % HashSize IN
    IF nx \notin t1 /\ nx \notin (present \ {k}) THEN Collapse(t1, k) ELSE t1

Thawed == \E n \in DOMAIN hist : hist[n].op = "gthaw"
NLive  == Cardinality(life.glyphs)
NTomb  == Cardinality(tomb)
Dumping == Goal \in {"dump", "dump_over"}

PInit == /\ life = LifeInit /\ hist = <<>> /\ kind = "" /\ tomb = {}
         /\ must = <<Call("create", 1, 0, 1), Call("gcreate", 0, 0, 1)>>

(* steering only: a goal with few live glyphs stops inserting once enough slots are taken for the removals to get there *)
InsertCap == IF Goal = "settled" THEN GHigh + GLow ELSE HashSize - 1
(* ... and a goal with many tombstones removes only glyphs whose removal leaves one (the next slot is taken) *)
Leaves(S, k) == LET nx == (k + 1) % HashSize IN nx \in tomb \/ nx \in S.glyphs

PEnabled(S) ==
    IF must # <<>> THEN {must[1]}
    ELSE IF Thawed THEN {c \in LifeCalls(S) : c.op = "unref"}
    ELSE {c \in LifeCalls(S) :
            \/ c.op = "ginsert" /\ NLive + NTomb < InsertCap             \* (the table refuses the glyph that would fill it)
                                /\ (Dumping => c.j \notin tomb)         \* (an insert takes its tombstone back)
            \/ c.op = "gremove" /\ c.j \in S.glyphs /\ (Dumping \/ NTomb < GHigh)
                                /\ (Goal \in {"settled", "dump", "dump_over"} => Leaves(S, c.j))
            \/ c.op \in {"glookup", "gcomp"}
            \/ c.op = "gthaw" /\ GPressure(NLive, NTomb, GHigh, GLow) = Goal}

PChoose == /\ kind = "" /\ PEnabled(life) # {}
           /\ kind' \in {c.op : c \in PEnabled(life)}
           /\ UNCHANGED <<life, hist, must, tomb>>

PDo == /\ kind # "" /\ kind' = ""
       /\ \E c \in {x \in PEnabled(life) : x.op = kind} :
             \* whichever glyphs the thaw lets go, the calls that follow it are calls the client may make
             /\ life' \in (IF c.op = "gthaw" THEN {GDropAll(Begin(life), {})} ELSE LifeStep(life, c))
             /\ hist' = Append(hist, c)
             /\ tomb' = IF c.op = "ginsert" THEN tomb \ {c.j}
                        ELSE IF c.op = "gremove" THEN TombAfterRemove(tomb, life.glyphs, c.j)
                        ELSE tomb
             /\ \/ must # <<>> /\ must' = Tail(must)
                \/ must = <<>> /\ c.op # "gthaw" /\ must' = <<>>
                \/ must = <<>> /\ c.op = "gthaw" /\ must' \in
                       {<<Call("gcomp", 0, 0, 0), Call("gcomp", 0, 0, 1)>> \o RemoveAll(GKeys) \o <<Call("gdestroy", 0, 0, 0)>>,
                        <<Call("gcomp", 0, 0, 1), Call("gdestroy", 0, 0, 0)>>}

PressSpec == PInit /\ [][PChoose \/ PDo]_<<life, hist, kind, must, tomb>>

PFinished == Thawed /\ kind = "" /\ must = <<>> /\ Quiescent(life)
EmitPressure == ~PFinished \/ PrintT(<<"VF:behaviour", ToJson(hist)>>)

EmitBehaviour == ~Finished \/ PrintT(<<"VF:behaviour", ToJson(hist)>>)
=============================================================================
