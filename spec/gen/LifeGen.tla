------------------------------- MODULE LifeGen -------------------------------
(* Behaviour generator for the lifetime part of Image.tla (C20): specification -> implementation. *)
(* A behaviour is Depth calls chosen among those the client may make (LifeCalls), followed by a   *)
(* drain phase in which the client drops every reference it still owns and removes every glyph,   *)
(* so that "nothing is live at the end" can be checked on the real library.  The call whose       *)
(* outcome the statement leaves open (Ambiguous: the code over-refuses, DESIGN.md 6 #8) is always  *)
(* followed by a detach, after which both outcomes have led to the same state: the script never   *)
(* touches an image that one of the allowed outcomes has released.                                *)
(* Used with -generate (random behaviours of depth ~25) and in breadth-first mode (all behaviours *)
(* of a small depth).  harness/drv_life.c replays the printed call lists.                         *)
EXTENDS Image, Json

CONSTANTS Depth

VARIABLES life, hist, kind, must

Ops == {"create", "ref", "unref", "alpha", "transform", "filter", "clip", "destroyfn", "use", "ginsert", "gremove"}

GenInit == life = LifeInit /\ hist = <<>> /\ kind = "" /\ must = 0

Draining == Len(hist) >= Depth

Enabled(S) ==
    IF must # 0 THEN {Call("alpha", must, 0, 0)}
    ELSE IF Draining THEN {c \in LifeCalls(S) : c.op = "unref" \/ (c.op = "gremove" /\ c.j \in S.glyphs)}
    ELSE LifeCalls(S)

(* two-phase steps: first the kind of call (uniformly among the kinds that have an enabled call), then its arguments *)
Choose == /\ kind = "" /\ Enabled(life) # {}
          /\ kind' \in {c.op : c \in Enabled(life)}
          /\ UNCHANGED <<life, hist, must>>

Do == /\ kind # "" /\ kind' = ""
      /\ \E c \in {x \in Enabled(life) : x.op = kind} :
            /\ life' \in LifeStep(life, c)
            /\ hist' = Append(hist, c)
            /\ must' = IF Ambiguous(life, c) THEN c.i ELSE 0

GenNext == Choose \/ Do

GenSpec == GenInit /\ [][GenNext]_<<life, hist, kind, must>>

Finished == Draining /\ kind = "" /\ must = 0 /\ Quiescent(life)

EmitBehaviour == ~Finished \/ PrintT(<<"VF:behaviour", ToJson(hist)>>)
=============================================================================
