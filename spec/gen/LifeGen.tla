------------------------------- MODULE LifeGen -------------------------------
(* Behaviour generator for the lifetime part of Image.tla (C20): specification -> implementation. *)
(* A behaviour is Depth calls chosen among those the client may make (LifeCalls), followed by a   *)
(* drain phase in which the client drops every reference it still owns and removes every glyph,   *)
(* so that "nothing is live at the end" can be checked on the real library.  The call whose       *)
(* outcome the statement leaves open (Ambiguous: the code over-refuses, DESIGN.md 6 #8) is always  *)
(* followed by a detach, after which both outcomes have led to the same state: the script never   *)
(* touches an image that one of the allowed outcomes has released.  Likewise a thaw, which may     *)
(* evict any of the cached glyphs, is followed by the removal of every key.                        *)
(* Used with -generate (random behaviours of depth ~25) and in breadth-first mode (all behaviours *)
(* of a small depth).  harness/drv_life.c replays the printed call lists.                         *)
EXTENDS Image, Json

CONSTANTS Depth

VARIABLES life, hist, kind, must

GenInit == life = LifeInit /\ hist = <<>> /\ kind = "" /\ must = <<>>       \* must: calls that have to come next

RECURSIVE RemoveAll(_)
RemoveAll(ks) == IF ks = {} THEN <<>>
                 ELSE LET k == CHOOSE x \in ks : \A y \in ks : x <= y IN <<Call("gremove", 0, k, 0)>> \o RemoveAll(ks \ {k})

Draining == Len(hist) >= Depth

Enabled(S) ==
    IF must # <<>> THEN {must[1]}
    ELSE IF Draining THEN {c \in LifeCalls(S) : c.op \in {"unref", "gdestroy"}}
    ELSE LifeCalls(S)

(* two-phase steps: first the kind of call (uniformly among the kinds that have an enabled call), then its arguments *)
Choose == /\ kind = "" /\ Enabled(life) # {}
          /\ kind' \in {c.op : c \in Enabled(life)}
          /\ UNCHANGED <<life, hist, must>>

Do == /\ kind # "" /\ kind' = ""
      /\ \E c \in {x \in Enabled(life) : x.op = kind} :
            /\ life' \in LifeStep(life, c)
            /\ hist' = Append(hist, c)
            /\ must' = IF must # <<>> THEN Tail(must)
                       ELSE IF Ambiguous(life, c) THEN <<Call("alpha", c.i, 0, 0)>>
                       ELSE IF c.op = "gthaw" THEN RemoveAll(GKeys)
                       ELSE <<>>

GenNext == Choose \/ Do

GenSpec == GenInit /\ [][GenNext]_<<life, hist, kind, must>>

Finished == Draining /\ kind = "" /\ must = <<>> /\ Quiescent(life)

EmitBehaviour == ~Finished \/ PrintT(<<"VF:behaviour", ToJson(hist)>>)
=============================================================================
