SPECIFICATION GenSpec
CONSTANTS
  Depth = 8
INVARIANT Emit
