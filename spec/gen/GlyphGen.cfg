SPECIFICATION GenSpec
CONSTANTS
  Keys <- GKeys
  Vals <- GVals
  Hash <- GHash
  NoVal = 0
  H = 8
  HIGH = 4
  LOW = 2
  CapRule = "slots"
  NK = 3
  ClassCode = 54
  NV = 1
  Depth = 3
  MaxFreeze = 2
INVARIANT Emit
