------------------------------ MODULE RegionGen ------------------------------
(* Behaviour generator for the Region specification (spec -> implementation direction). *)
(* The Region state machine runs on abstract grid coordinates 0..G with a pool of three  *)
(* variables, so every aliasing pattern of destination and operands is a distinct       *)
(* transition.  A history variable records the calls; when a behaviour reaches length   *)
(* Depth it is printed as JSON.  The orchestrator replays each behaviour through the    *)
(* real pixman_region16/32 API under several monotone coordinate embeddings             *)
(* (small integers, values at the 16/32-bit limits ...); the recorded trace is then     *)
(* validated against Region.tla by trace/RegionTrace.tla.                               *)
EXTENDS Region, Json

CONSTANTS G, Depth

VARIABLES hist, kind

V == 1..3
Coord == 0..G
AllBoxes   == {<<x1, y1, x2, y2>> : x1 \in Coord, y1 \in Coord, x2 \in Coord, y2 \in Coord}
GoodBoxes  == {b \in AllBoxes : Good(b)}
FlatBoxes  == {b \in AllBoxes : ~Good(b) /\ ~Bad(b)}
BadBoxes   == {b \in AllBoxes : Bad(b)}
\* a small set of boxes for multi-box arguments (overlapping, touching, nested, degenerate, inverted)
FewBoxes   == {<<0, 0, 2, 2>>, <<1, 1, 3, 3>>, <<2, 0, 4, 1>>, <<0, 2, 1, 4>>, <<2, 2, 4, 4>>, <<1, 0, 2, 4>>,
               <<0, 1, 4, 2>>, <<3, 3, 4, 4>>, <<1, 1, 1, 3>>, <<3, 1, 2, 2>>, <<0, 0, 4, 4>>, <<0, 3, 2, 4>>}

Rec(k, op, d, a, b, v) == [k |-> k, op |-> op, d |-> d, a |-> a, b |-> b, v |-> v]
Log(r) == hist' = Append(hist, r)

(* Two-phase steps: first the kind of call is chosen (uniformly by the simulator), then its   *)
(* arguments; otherwise calls with many argument combinations would crowd out the others.   *)
Kinds == {"union", "intersect", "subtract", "inverse", "intersect_rect", "union_rect", "copy", "clear",
          "reset", "init_rect", "init_with_extents", "init_rects", "cpoint", "crect", "equal"}

GenInit == reg = [v \in V |-> Empty] /\ hist = <<>> /\ kind = ""

Choose == kind = "" /\ kind' \in Kinds /\ UNCHANGED <<reg, hist>>

Do ==
    /\ kind # "" /\ kind' = ""
    /\
         \/ kind = "union" /\ \E d, a, b \in V : RgUnion(d, a, b) /\ Log(Rec("O", "union", d, a, b, <<>>))
         \/ kind = "intersect" /\ \E d, a, b \in V : RgIntersect(d, a, b) /\ Log(Rec("O", "intersect", d, a, b, <<>>))
         \/ kind = "subtract" /\ \E d, a, b \in V : RgSubtract(d, a, b) /\ Log(Rec("O", "subtract", d, a, b, <<>>))
         \/ kind = "inverse" /\ \E d, a \in V, box \in GoodBoxes \cup FlatBoxes :
                                  RgInverse(d, a, box) /\ Log(Rec("O", "inverse", d, a, 0, box))
         \/ kind = "intersect_rect" /\ \E d, a \in V, box \in GoodBoxes \cup FlatBoxes :
                                  RgIntersectRect(d, a, box) /\ Log(Rec("O", "intersect_rect", d, a, 0, box))
         \/ kind = "union_rect" /\ \E d, a \in V, box \in AllBoxes :
                                  RgUnionRect(d, a, box) /\ Log(Rec("O", "union_rect", d, a, 0, box))
         \/ kind = "copy" /\ \E d, a \in V : RgCopy(d, a) /\ Log(Rec("O", "copy", d, a, 0, <<>>))
         \/ kind = "clear" /\ \E d \in V : RgClear(d) /\ Log(Rec("O", "clear", d, 0, 0, <<>>))
         \/ kind = "reset" /\ \E d \in V, box \in GoodBoxes : RgReset(d, box) /\ Log(Rec("O", "reset", d, 0, 0, box))
         \/ kind = "init_rect" /\ \E d \in V, box \in AllBoxes :
                                  RgInitRects(d, <<box>>) /\ Log(Rec("O", "init_rect", d, 0, 0, box))
         \/ kind = "init_with_extents" /\ \E d \in V, box \in AllBoxes :
                                  RgInitRects(d, <<box>>) /\ Log(Rec("O", "init_with_extents", d, 0, 0, box))
         \/ kind = "init_rects" /\ \E d \in V, b1, b2, b3 \in FewBoxes :
               \/ RgInitRects(d, <<b1, b2, b3>>) /\ Log(Rec("O", "init_rects", d, 0, 0, b1 \o b2 \o b3))
               \/ b3 = b1 /\ RgInitRects(d, <<b1, b2>>) /\ Log(Rec("O", "init_rects", d, 0, 0, b1 \o b2))
         \* queries: points and rectangles on the grid lines and one unit before them
         \/ kind = "cpoint" /\ \E a \in V, x, y \in Coord, ex, ey \in {0, 1} :
                                  UNCHANGED reg /\ Log(Rec("Q", "cpoint", 0, a, 0, <<x, y, ex, ey>>))
         \/ kind = "crect" /\ \E a \in V, box \in GoodBoxes :
                                  UNCHANGED reg /\ Log(Rec("Q", "crect", 0, a, 0, box))
         \/ kind = "equal" /\ \E a, b \in V : UNCHANGED reg /\ Log(Rec("Q", "equal", 0, a, b, <<>>))

GenNext == Choose \/ Do

GenSpec == GenInit /\ [][GenNext]_<<reg, hist, kind>>

Emit == Len(hist) < Depth \/ kind # "" \/ PrintT(<<"VF:behaviour", ToJson(hist)>>)
=============================================================================
