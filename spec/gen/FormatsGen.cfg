SPECIFICATION GenSpec
CONSTANTS
  Codes <- AllCodes
  Mutant = "none"
INVARIANT Emit
