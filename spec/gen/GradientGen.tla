----------------------------- MODULE GradientGen -----------------------------
(* Scenario generator for C13 (specification -> implementation direction).  A scenario is    *)
(* built in phases (stop positions, colours, geometry, repeat mode, transform, pipeline), so   *)
(* that TLC's random behaviour generation (-generate) picks every factor uniformly.  The       *)
(* finished scenario is printed as JSON; the orchestrator turns it into a driver script line.  *)
(* All numbers are 16.16 fixed point (half-pixel lattice), colours 16 bit (8-bit value * 257). *)
EXTENDS Gradient, Json, TLC, FiniteSets

VARIABLES phase, scn

H == 32768                                    \* half a pixel
Positions == <<0, 16384, 32768, 32768, 65536>>          \* 0, 1/4, 1/2, 1/2 (repeated), 1
Palette == << <<255, 255, 0, 0>>, <<255, 0, 255, 0>>, <<128, 0, 0, 255>>, <<0, 255, 255, 255>>,
              <<255, 1, 254, 128>>, <<128, 200, 100, 50>>, <<255, 255, 255, 255>> >>

(* non-empty index subsets of 1..5 with at most 4 elements, as increasing sequences *)
IdxSets == {S \in SUBSET (1..5) : S # {} /\ Cardinality(S) <= 4}
RECURSIVE Sorted(_)
Sorted(S) == IF S = {} THEN <<>> ELSE LET mn == CHOOSE x \in S : \A y \in S : x <= y IN <<mn>> \o Sorted(S \ {mn})

Linear  == { <<0, 0, 16, 0>>, <<0, 0, 0, 8>>, <<3, 1, 19, 9>>, <<16, 4, 4, 2>>, <<6, 2, 10, 2>> }       \* half pixels
Radial  == { <<12, 4, 0, 12, 4, 12>>, <<10, 4, 2, 14, 4, 12>>, <<6, 4, 6, 16, 4, 6>>, <<6, 4, 2, 18, 4, 6>>,
             <<8, 4, 4, 12, 4, 8>>, <<12, 4, 8, 12, 4, 2>>, <<4, 4, 0, 20, 4, 0>> }
Conical == { <<12, 4, 0>>, <<11, 3, 90>>, <<12, 4, 30>>, <<0, 0, 180>>, <<7, 5, 45>> }                  \* cx, cy (half pixels), degrees

F == 65536
(* Transforms, chosen so that every branch of the three scanline functions is reached by a case in *)
(* which the wrong branch would change pixels: no transform; affine (scale, rotation, shear);       *)
(* m22 # 1 (affine in effect, but not "v.z = 1"); perspective in x only (per-pixel w), in y only    *)
(* (w constant along a row but different per row: the linear "horizontal" one-scanline shortcut     *)
(* and the radial/conical affine fast branches must NOT be taken), in both; w crossing zero along   *)
(* a row and from row to row.                                                                       *)
Transforms == { <<>>,
                <<2 * F, 0, -4 * F, 0, 2 * F, -1 * F, 0, 0, F>>,              \* scale 2, translate
                <<0, F, 3 * F, -F, 0, 8 * F, 0, 0, F>>,                       \* rotate 90
                <<F \div 2, 0, F, 0, F \div 2, H, 0, 0, F>>,                   \* scale 1/2
                <<F, H, 0, 0, F, 0, 0, 0, F>>,                                \* shear in x
                <<F, 0, 0, 0, F, 0, 0, 0, 2 * F>>,                            \* w = 2 everywhere
                <<F, 0, 0, 0, F, 0, F \div 4, 0, F>>,                          \* perspective in x, w > 0
                <<F, 0, 0, 0, F, 0, -(F \div 4), 0, F + (F \div 8)>>,          \* perspective in x, w = 0 at pixel x = 4, negative beyond
                <<F, 0, 0, 0, F, 0, 0, F \div 4, F>>,                          \* perspective in y only, w > 0
                <<F, 0, 0, 0, F, 0, 0, -(F \div 2), F + (F \div 4)>>,          \* perspective in y only, w = 0 on row 2, negative on row 3
                <<F, H, 0, 0, F, 0, 0, F \div 4, F>>,                          \* shear + perspective in y
                <<F, 0, 0, 0, F, 0, F \div 8, -(F \div 8), F>> }               \* perspective in x and y

GenInit == phase = 0 /\ scn = [a |-> 0] /\ GInit

Step ==
  /\ UNCHANGED gst
  /\
    \/ phase = 0 /\ \E S \in IdxSets : scn' = [idx |-> Sorted(S)] /\ phase' = 1
    \/ phase = 1 /\ \E off \in 1..7, stride \in {1, 2, 3} :
          /\ scn' = [stops |-> [i \in 1..Len(scn.idx) |->
                        LET c == Palette[((off + i * stride) % 7) + 1] IN
                        <<Positions[scn.idx[i]], c[1] * 257, c[2] * 257, c[3] * 257, c[4] * 257>>]]
          /\ phase' = 2
    \/ phase = 2 /\ \E kind \in {"linear", "radial", "conical"} : scn' = [scn EXCEPT !.stops = @] @@ [kind |-> kind] /\ phase' = 3
    \/ phase = 3 /\ \/ scn.kind = "linear"  /\ \E g \in Linear  : scn' = scn @@ [g |-> [i \in 1..4 |-> g[i] * H]]
                    \/ scn.kind = "radial"  /\ \E g \in Radial  : scn' = scn @@ [g |-> [i \in 1..6 |-> g[i] * H]]
                    \/ scn.kind = "conical" /\ \E g \in Conical : scn' = scn @@ [g |-> <<g[1] * H, g[2] * H, g[3] * F>>]
                 /\ phase' = 4
    \/ phase = 4 /\ \E r \in {"NONE", "NORMAL", "PAD", "REFLECT"} : scn' = scn @@ [repeat |-> r] /\ phase' = 5
    \/ phase = 5 /\ \E m \in Transforms : scn' = scn @@ [m |-> m] /\ phase' = 6
    \/ phase = 6 /\ \E w \in BOOLEAN : scn' = scn @@ [wide |-> w] /\ phase' = 7

GenSpec == GenInit /\ [][Step]_<<phase, scn, gst>>

Emit == phase < 7 \/ PrintT(<<"VF:scenario", ToJson(scn)>>)

(* ---- exhaustive grid: every geometry x every transform (breadth-first, all are initial states) --- *)
(* with a fixed three-stop list (opaque red, half-transparent green, opaque blue); repeat mode and      *)
(* pipeline are a deterministic function of the pair so that all of them occur.                         *)
GridStops == << <<0, 65535, 65535, 0, 0>>, <<32768, 32896, 0, 65535, 0>>, <<65536, 65535, 0, 0, 65535>> >>
RECURSIVE SumSeq(_, _)
SumSeq(q, i) == IF i > Len(q) THEN 0 ELSE q[i] + SumSeq(q, i + 1)
ModeSeq == <<"PAD", "NORMAL", "REFLECT", "NONE">>
GridScn(kind, g, m) ==
    LET h == SumSeq(g, 1) + Len(g) + (IF Len(m) = 0 THEN 0 ELSE (m[1] + m[2] + m[7] + m[8] + m[9]) \div 8192) IN
    [stops |-> GridStops, kind |-> kind, g |-> g, repeat |-> ModeSeq[(h % 4) + 1], m |-> m, wide |-> (h \div 4) % 2 = 1]
Grid == {GridScn("linear",  [i \in 1..4 |-> g[i] * H], m) : g \in Linear, m \in Transforms}
        \cup {GridScn("radial",  [i \in 1..6 |-> g[i] * H], m) : g \in Radial, m \in Transforms}
        \cup {GridScn("conical", <<g[1] * H, g[2] * H, g[3] * F>>, m) : g \in Conical, m \in Transforms}
(* ---- far periods: linear gradients whose vector is a small fraction of a pixel long, or seen through a      *)
(* strongly down-scaling transform, so that t is 2^10 .. 2^18 periods away from [0,1]                          *)
FarVec == {48, 80, 112, 768, 1280, 12288}                  \* length of the gradient vector in 1/65536 pixel
FarOrg == {4, -60, -200, -250}                             \* p1 in pixels
Down == <<256 * F, 0, 0, 0, 256 * F, 0, 0, 0, F>>
FarScn(g, m, r, w) == [stops |-> GridStops, kind |-> "linear", g |-> g, repeat |-> r, m |-> m, wide |-> w]
Far == {FarScn(<<o * F, F, o * F + d, F>>, <<>>, r, w) : o \in FarOrg, d \in FarVec, r \in {"NONE", "NORMAL", "PAD", "REFLECT"}, w \in BOOLEAN}
       \cup {FarScn(<<F, o * F, F, o * F + d>>, <<>>, r, w) : o \in FarOrg, d \in FarVec, r \in {"NORMAL", "REFLECT"}, w \in BOOLEAN}
       \cup {FarScn(<<o * F, o * F, o * F + d, o * F + d>>, <<>>, r, w) : o \in FarOrg, d \in FarVec, r \in {"NORMAL", "REFLECT"}, w \in BOOLEAN}
       \cup {FarScn(<<0, 0, d, 0>>, Down, r, w) : d \in {H, 3 * H, F}, r \in {"NONE", "NORMAL", "PAD", "REFLECT"}, w \in BOOLEAN}
FarInit == phase = 7 /\ scn \in Far /\ GInit
FarSpec == FarInit /\ [][UNCHANGED <<phase, scn, gst>>]_<<phase, scn, gst>>

GridInit == phase = 7 /\ scn \in Grid /\ GInit
GridSpec == GridInit /\ [][UNCHANGED <<phase, scn, gst>>]_<<phase, scn, gst>>
=============================================================================
