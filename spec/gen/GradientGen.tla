----------------------------- MODULE GradientGen -----------------------------
(* Scenario generator for C13 (specification -> implementation direction).  A scenario is    *)
(* built in phases (stop positions, colours, geometry, repeat mode, transform, pipeline), so   *)
(* that TLC's random behaviour generation (-generate) picks every factor uniformly.  The       *)
(* finished scenario is printed as JSON; the orchestrator turns it into a driver script line.  *)
(* All numbers are 16.16 fixed point (half-pixel lattice), colours 16 bit (8-bit value * 257). *)
EXTENDS Gradient, Json, TLC, FiniteSets

VARIABLES phase, scn

H == 32768                                    \* half a pixel
Positions == <<0, 16384, 32768, 32768, 65536>>          \* 0, 1/4, 1/2, 1/2 (repeated), 1
Palette == << <<255, 255, 0, 0>>, <<255, 0, 255, 0>>, <<128, 0, 0, 255>>, <<0, 255, 255, 255>>,
              <<255, 1, 254, 128>>, <<128, 200, 100, 50>>, <<255, 255, 255, 255>> >>

(* non-empty index subsets of 1..5 with at most 4 elements, as increasing sequences *)
IdxSets == {S \in SUBSET (1..5) : S # {} /\ Cardinality(S) <= 4}
RECURSIVE Sorted(_)
Sorted(S) == IF S = {} THEN <<>> ELSE LET mn == CHOOSE x \in S : \A y \in S : x <= y IN <<mn>> \o Sorted(S \ {mn})

Linear  == { <<0, 0, 16, 0>>, <<0, 0, 0, 8>>, <<3, 1, 19, 9>>, <<16, 4, 4, 2>>, <<6, 2, 10, 2>> }       \* half pixels
Radial  == { <<12, 4, 0, 12, 4, 12>>, <<10, 4, 2, 14, 4, 12>>, <<6, 4, 6, 16, 4, 6>>, <<6, 4, 2, 18, 4, 6>>,
             <<8, 4, 4, 12, 4, 8>>, <<12, 4, 8, 12, 4, 2>>, <<4, 4, 0, 20, 4, 0>> }
Conical == { <<12, 4, 0>>, <<11, 3, 90>>, <<12, 4, 30>>, <<0, 0, 180>>, <<7, 5, 45>> }                  \* cx, cy (half pixels), degrees

F == 65536
Transforms == { <<>>,
                <<2 * F, 0, -4 * F, 0, 2 * F, -1 * F, 0, 0, F>>,              \* scale 2, translate
                <<0, F, 3 * F, -F, 0, 8 * F, 0, 0, F>>,                       \* rotate 90
                <<F \div 2, 0, F, 0, F \div 2, H, 0, 0, F>>,                   \* scale 1/2
                <<F, 0, 0, 0, F, 0, F \div 4, 0, F>>,                          \* projective, w > 0
                <<F, 0, 0, 0, F, 0, -(F \div 4), 0, F + (F \div 8)>> }         \* projective, w = 0 at pixel x = 4, negative beyond

GenInit == phase = 0 /\ scn = [a |-> 0] /\ GInit

Step ==
  /\ UNCHANGED gst
  /\
    \/ phase = 0 /\ \E S \in IdxSets : scn' = [idx |-> Sorted(S)] /\ phase' = 1
    \/ phase = 1 /\ \E off \in 1..7, stride \in {1, 2, 3} :
          /\ scn' = [stops |-> [i \in 1..Len(scn.idx) |->
                        LET c == Palette[((off + i * stride) % 7) + 1] IN
                        <<Positions[scn.idx[i]], c[1] * 257, c[2] * 257, c[3] * 257, c[4] * 257>>]]
          /\ phase' = 2
    \/ phase = 2 /\ \E kind \in {"linear", "radial", "conical"} : scn' = [scn EXCEPT !.stops = @] @@ [kind |-> kind] /\ phase' = 3
    \/ phase = 3 /\ \/ scn.kind = "linear"  /\ \E g \in Linear  : scn' = scn @@ [g |-> [i \in 1..4 |-> g[i] * H]]
                    \/ scn.kind = "radial"  /\ \E g \in Radial  : scn' = scn @@ [g |-> [i \in 1..6 |-> g[i] * H]]
                    \/ scn.kind = "conical" /\ \E g \in Conical : scn' = scn @@ [g |-> <<g[1] * H, g[2] * H, g[3] * F>>]
                 /\ phase' = 4
    \/ phase = 4 /\ \E r \in {"NONE", "NORMAL", "PAD", "REFLECT"} : scn' = scn @@ [repeat |-> r] /\ phase' = 5
    \/ phase = 5 /\ \E m \in Transforms : scn' = scn @@ [m |-> m] /\ phase' = 6
    \/ phase = 6 /\ \E w \in BOOLEAN : scn' = scn @@ [wide |-> w] /\ phase' = 7

GenSpec == GenInit /\ [][Step]_<<phase, scn, gst>>

Emit == phase < 7 \/ PrintT(<<"VF:scenario", ToJson(scn)>>)
=============================================================================
