------------------------------- MODULE Sample -------------------------------
(* C08: what a destination pixel shows when it is fetched from a bits image that has a      *)
(* transform, a filter and a repeat mode.                                                   *)
(*                                                                                          *)
(* State: the sampling configuration of one image (the fields pixman keeps in               *)
(* image->common: transform, filter, filter_params, repeat) plus its pixels, and `out`,     *)
(* the rectangle of pixels most recently fetched from it.  One action per API call:         *)
(*   SetImage      pixman_image_create_bits        (defaults: identity, NEAREST, NONE)      *)
(*   SetTransform  pixman_image_set_transform                                               *)
(*   SetFilter     pixman_image_set_filter                                                  *)
(*   SetRepeat     pixman_image_set_repeat                                                  *)
(*   Fetch         pixman_image_composite32 (OP_SRC, image -> a8r8g8b8), as source or as    *)
(*                 component-alpha mask of a solid white source (both show the samples)     *)
(*   FetchWide     the same through the wide (floating point) pipeline: DISJOINT_OVER onto  *)
(*                 a cleared a8r8g8b8 destination, SRC onto rgba_float / a2r10g10b10        *)
(*   FetchFar      a composite whose sample positions lie anywhere in the 16.16 range       *)
(*                 (pair arithmetic), SRC / OVER into a8r8g8b8, x8r8g8b8 or r5g6b5          *)
(*                                                                                          *)
(* Units: positions are 16.16 fixed point integers (One = 65536).  Pixel (x, y) of an       *)
(* image covers [x, x+1) x [y, y+1); its centre is x + 1/2.  Pixels are <<a, r, g, b>>.     *)
(*                                                                                          *)
(* Arithmetic domain (TLC integers are 32 bit and overflow is an error, never a wrong       *)
(* answer): |matrix entry * destination coordinate| < 2^30, sample positions within         *)
(* +-MaxPos pixels (16000), sum of |kernel coefficients| < 128.0, separable kernel entries  *)
(* below 4.0 in magnitude.  A request one of whose pixel centres (request expanded by one    *)
(* pixel, as the library's own range check does) leaves this domain or has w = 0 is not      *)
(* judged.  FetchFar lifts the position bound for affine transforms to 32700 pixels (the     *)
(* whole 16.16 range less the reach of a filter) by computing with <<whole, frac>> pairs.   *)
EXTENDS Integers, Sequences

VARIABLES image,      \* [fmt, w, h, pix, ox, oy]  pix[y+1][x+1] = raw pixel value as <<hi16, lo16>>; ox = oy = 0 (see At)
          transform,  \* <<r0, r1, r2>>, each row <<m0, m1, m2>> of raw 16.16 integers
          filter,     \* [f |-> "nearest"|"bilinear"|"convolution"|"separable", params |-> sequence of raw 16.16 integers]
          repeat,     \* "none" | "normal" | "pad" | "reflect"
          out         \* [x0, y0, n, rows, px]  the last fetched rectangle (px[j][i] = <<a,r,g,b>>), or <<>>

svars == <<image, transform, filter, repeat, out>>

One  == 65536
Half == 32768
Eps  == 1
MaxPos == 16000            \* pixels

Identity == <<<<One, 0, 0>>, <<0, One, 0>>, <<0, 0, One>>>>
Transparent == <<0, 0, 0, 0>>

Floor16(p) == p \div One          \* pixman_fixed_to_int: floor (TLC's \div is floor division)
Abs(v) == IF v < 0 THEN -v ELSE v

(* ---------------------------------------------------------------------------------------- *)
(* pixel formats of the source (only what sampling needs: the a8r8g8b8 view of a raw pixel) *)

Expand(fmt, raw) ==
    LET hi == raw[1]  lo == raw[2] IN
    CASE fmt = "a8r8g8b8" -> <<hi \div 256, hi % 256, lo \div 256, lo % 256>>
      [] fmt = "x8r8g8b8" -> <<255, hi % 256, lo \div 256, lo % 256>>
      [] fmt = "r5g6b5"   -> LET r == lo \div 2048  g == (lo \div 32) % 64  b == lo % 32 IN
                             <<255, r * 8 + r \div 4, g * 4 + g \div 16, b * 8 + b \div 4>>
      [] fmt = "a8"       -> <<lo % 256, 0, 0, 0>>

(* ---------------------------------------------------------------------------------------- *)
(* repeat modes: the index actually read for coordinate c of an axis of `size` pixels;      *)
(* -1 = outside (transparent).  ReflectFix is 1; the model checker's negative configuration *)
(* sets it to 0 (REFLECT off by one) and must be rejected.                                  *)

RepeatIdxM(mode, c, size, fix) ==
    CASE mode = "none"    -> IF c < 0 \/ c >= size THEN -1 ELSE c
      [] mode = "normal"  -> c % size
      [] mode = "pad"     -> IF c < 0 THEN 0 ELSE IF c >= size THEN size - 1 ELSE c
      [] mode = "reflect" -> LET m == c % (2 * size) IN IF m >= size THEN 2 * size - m - fix ELSE m

RepeatIdx(mode, c, size) == RepeatIdxM(mode, c, size, 1)

(* An image record carries the whole-pixel origin (ox, oy) of the coordinates in which it is   *)
(* addressed: pixel index (ix, iy) of the view At(img, ox, oy) is pixel (ix + ox, iy + oy) of  *)
(* img.  The state variable `image` always has the origin (0, 0); views with another origin    *)
(* let the filters below work on positions p = whole * One + frac that do not fit TLC's 32-bit *)
(* integers: sample the view At(img, whole_x, whole_y) at (frac_x, frac_y) (see FetchFar).     *)
MkImage(fmt, w, h, pix) == [fmt |-> fmt, w |-> w, h |-> h, pix |-> pix, ox |-> 0, oy |-> 0]
At(img, ox, oy) == [img EXCEPT !.ox = ox, !.oy = oy]

PixelAt(img, mode, ix, iy) ==
    LET x == RepeatIdx(mode, ix + img.ox, img.w)
        y == RepeatIdx(mode, iy + img.oy, img.h)
    IN IF x < 0 \/ y < 0 THEN Transparent ELSE Expand(img.fmt, img.pix[y + 1][x + 1])

(* ---------------------------------------------------------------------------------------- *)
(* filters, at a sample position (p, q) in 16.16                                            *)

NearestIdx(p) == Floor16(p - Eps)                      \* rounding.txt: floor (x - e)

Nearest(img, mode, p, q) == PixelAt(img, mode, NearestIdx(p), NearestIdx(q))

BilinearWeight(p) == 2 * (((p - Half) \div 512) % 128)   \* 7-bit fraction of p - 1/2, scaled to 8 bits
BilinearIdx(p)    == Floor16(p - Half)

Blend(tl, tr, bl, br, wx, wy) ==
    (tl * (256 - wx) * (256 - wy) + tr * wx * (256 - wy) + bl * (256 - wx) * wy + br * wx * wy) \div One

Bilinear(img, mode, p, q) ==
    LET wx == BilinearWeight(p)  wy == BilinearWeight(q)
        x1 == BilinearIdx(p)     y1 == BilinearIdx(q)
        tl == PixelAt(img, mode, x1, y1)      tr == PixelAt(img, mode, x1 + 1, y1)
        bl == PixelAt(img, mode, x1, y1 + 1)  br == PixelAt(img, mode, x1 + 1, y1 + 1)
    IN [c \in 1..4 |-> Blend(tl[c], tr[c], bl[c], br[c], wx, wy)]

Clamp8(v) == IF v < 0 THEN 0 ELSE IF v > 255 THEN 255 ELSE v
Reduce(t) == Clamp8((t + Half) \div One)               \* 16.16 total -> 8 bit, round to nearest, clamp

RECURSIVE Sum4(_, _)
Sum4(terms, k) ==                                       \* channelwise sum of terms[1..k]
    IF k = 0 THEN <<0, 0, 0, 0>>
    ELSE LET s == Sum4(terms, k - 1)  t == terms[k] IN <<s[1] + t[1], s[2] + t[2], s[3] + t[3], s[4] + t[4]>>

Scale4(px, f) == <<px[1] * f, px[2] * f, px[3] * f, px[4] * f>>

(* first pixel under a kernel positioned at p whose width is w16 (16.16): floor (p - (width-1)/2 - e) *)
KernelStart(p, w16) == Floor16(p - Eps - ((w16 - One) \div 2))

(* PIXMAN_FILTER_CONVOLUTION: params = width, height (16.16), then width*height coefficients *)
Convolution(img, mode, p, q, par) ==
    LET cw == par[1] \div One   ch == par[2] \div One
        x1 == KernelStart(p, par[1])  y1 == KernelStart(q, par[2])
        terms == [k \in 1..(cw * ch) |->
                    LET i == (k - 1) \div cw  j == (k - 1) % cw  f == par[2 + k] IN
                    IF f = 0 THEN Transparent ELSE Scale4(PixelAt(img, mode, x1 + j, y1 + i), f)]
        tot == Sum4(terms, cw * ch)
    IN [c \in 1..4 |-> Reduce(tot[c])]

(* (a * b + 0x8000) >> 16 without a 32-bit overflow, for |a| < 2^20, |b| < 2^18 *)
MulRound16(a, b) ==
    LET bh == b \div 256  bl == b % 256 IN (a * bh + (a * bl + Half) \div 256) \div 256

Pow2(k) == CASE k = 0 -> 1 [] k = 1 -> 2 [] k = 2 -> 4 [] k = 3 -> 8 [] k = 4 -> 16 [] k = 5 -> 32 [] k = 6 -> 64
             [] k = 7 -> 128 [] k = 8 -> 256 [] k = 9 -> 512 [] k = 10 -> 1024 [] k = 11 -> 2048 [] k = 12 -> 4096
             [] k = 13 -> 8192 [] k = 14 -> 16384 [] k = 15 -> 32768 [] k = 16 -> 65536

(* the middle of the subsample phase that contains p *)
PhaseMiddle(p, bits) == LET u == Pow2(16 - bits) IN (p \div u) * u + u \div 2
PhaseOf(pm, bits)    == (pm % One) \div Pow2(16 - bits)

(* PIXMAN_FILTER_SEPARABLE_CONVOLUTION: params = width, height, x_phase_bits, y_phase_bits,  *)
(* then 2^xbits horizontal kernels of `width` entries, then 2^ybits vertical kernels          *)
Separable(img, mode, p, q, par) ==
    LET cw == par[1] \div One   ch == par[2] \div One
        xb == par[3] \div One   yb == par[4] \div One
        pm == PhaseMiddle(p, xb)  qm == PhaseMiddle(q, yb)
        xbase == 4 + PhaseOf(pm, xb) * cw
        ybase == 4 + Pow2(xb) * cw + PhaseOf(qm, yb) * ch
        x1 == KernelStart(pm, cw * One)  y1 == KernelStart(qm, ch * One)
        terms == [k \in 1..(cw * ch) |->
                    LET i == (k - 1) \div cw  j == (k - 1) % cw
                        fy == par[ybase + i + 1]  fx == par[xbase + j + 1] IN
                    IF fx = 0 \/ fy = 0 THEN Transparent
                    ELSE Scale4(PixelAt(img, mode, x1 + j, y1 + i), MulRound16(fy, fx))]
        tot == Sum4(terms, cw * ch)
    IN [c \in 1..4 |-> Reduce(tot[c])]

SampleAt(img, flt, mode, p, q) ==
    CASE flt.f = "nearest"     -> Nearest(img, mode, p, q)
      [] flt.f = "bilinear"    -> Bilinear(img, mode, p, q)
      [] flt.f = "convolution" -> Convolution(img, mode, p, q, flt.params)
      [] flt.f = "separable"   -> Separable(img, mode, p, q, flt.params)

(* ---------------------------------------------------------------------------------------- *)
(* positions                                                                                *)

IsAffine(m) == m[3] = <<0, 0, One>>

(* twice the exact homogeneous coordinate r of the centre of destination pixel (x, y):      *)
(* 2 * (m[r] . (x + 1/2, y + 1/2, 1)) in 16.16 units -- an integer                          *)
Homog2(m, r, x, y) == 2 * (m[r][1] * x + m[r][2] * y + m[r][3]) + m[r][1] + m[r][2]

(* affine: the exact product rounded to the nearest 1/65536, ties up ((v + 0x8000) >> 16);  *)
(* row start + i * m[r][1] gives the same value for every row start, increments being whole *)
AffinePos(m, r, x, y) == (Homog2(m, r, x, y) + 1) \div 2

RECURSIVE LongDiv(_, _, _, _)
LongDiv(qq, rr, d, k) ==        \* k more binary digits of rr / d appended to qq
    IF k = 0 THEN <<qq, rr>>
    ELSE IF 2 * rr >= d THEN LongDiv(2 * qq + 1, 2 * rr - d, d, k - 1) ELSE LongDiv(2 * qq, 2 * rr, d, k - 1)

(* exact quotient num/den (den # 0) in 16.16 units: <<floor, remainder>>; needs |num/den| <= MaxPos *)
Quot16(num, den) ==
    LET n == IF den < 0 THEN -num ELSE num
        d == Abs(den)
    IN LongDiv(n \div d, n % d, d, 16)

QuotInRange(num, den) ==
    den # 0 /\ LET n == IF den < 0 THEN -num ELSE num IN Abs(n \div Abs(den)) <= MaxPos

(* projective: the statement fixes no rounding for the homogeneous divide: every position  *)
(* within 2 units (1/65536) of the exact rational quotient is admissible                    *)
Band(num, den) ==
    LET fr == Quot16(num, den) IN
    IF fr[2] = 0 THEN (fr[1] - 2)..(fr[1] + 2) ELSE (fr[1] - 1)..(fr[1] + 2)

PixelRegular(m, x, y) ==         \* the centre of destination pixel (x, y) maps into the modelled range
    IF IsAffine(m)
    THEN Abs(AffinePos(m, 1, x, y)) <= MaxPos * One /\ Abs(AffinePos(m, 2, x, y)) <= MaxPos * One
    ELSE LET w == Homog2(m, 3, x, y) IN
         QuotInRange(Homog2(m, 1, x, y), w) /\ QuotInRange(Homog2(m, 2, x, y), w)

InDomain(m, x0, y0, n, rows) ==
    IF IsAffine(m)
    THEN \A x \in {x0 - 1, x0 + n}, y \in {y0 - 1, y0 + rows} : PixelRegular(m, x, y)
    ELSE \A x \in (x0 - 1)..(x0 + n), y \in (y0 - 1)..(y0 + rows) : PixelRegular(m, x, y)

(* the reference value of destination pixel (x, y) is admissible for `v` *)
PixelOK(img, m, flt, mode, x, y, v) ==
    IF IsAffine(m)
    THEN v = SampleAt(img, flt, mode, AffinePos(m, 1, x, y), AffinePos(m, 2, x, y))
    ELSE LET w == Homog2(m, 3, x, y) IN
         \E p \in Band(Homog2(m, 1, x, y), w), q \in Band(Homog2(m, 2, x, y), w) :
             v = SampleAt(img, flt, mode, p, q)

(* the unique reference rectangle for an affine transform *)
RefRows(img, m, flt, mode, x0, y0, n, rows) ==
    [j \in 1..rows |-> [i \in 1..n |->
        SampleAt(img, flt, mode, AffinePos(m, 1, x0 + i - 1, y0 + j - 1), AffinePos(m, 2, x0 + i - 1, y0 + j - 1))]]

Admissible(img, m, flt, mode, x0, y0, n, rows, px) ==
    InDomain(m, x0, y0, n, rows) =>
        \A j \in 1..rows, i \in 1..n : PixelOK(img, m, flt, mode, x0 + i - 1, y0 + j - 1, px[j][i])

(* ---------------------------------------------------------------------------------------- *)
(* the wide (floating point) pipeline: wide destination formats and operators that need a   *)
(* division evaluate the same samples in floating point.  The position, the neighbours and  *)
(* the repeat mapping are exactly as above; the arithmetic is not bit-exact:                 *)
(*   - bilinear: floating point evaluation may keep more of the fraction than 7 bits: any   *)
(*     weight that truncates to the 7-bit weight is admissible, i.e. the value lies between *)
(*     the blends at the corners of [w7/128, (w7+1)/128] x [w7'/128, (w7'+1)/128];          *)
(*   - convolutions: the exact total, clamped;                                              *)
(*   - plus one step of the coarser of 8 bits and the destination's channel depth for the   *)
(*     floating point evaluation and the narrowing to the destination format.               *)
(* WideInterval: per channel <<lo, hi>> in units of 1/65536 of an 8-bit step.               *)

MinOf4(a, b, c, d) == LET m1 == IF a < b THEN a ELSE b  m2 == IF c < d THEN c ELSE d IN IF m1 < m2 THEN m1 ELSE m2
MaxOf4(a, b, c, d) == LET m1 == IF a > b THEN a ELSE b  m2 == IF c > d THEN c ELSE d IN IF m1 > m2 THEN m1 ELSE m2

\* blend with horizontal weight fx/4096 and vertical weight fy/1024: units of 2^-22 step
WBlend(tl, tr, bl, br, fx, fy) ==
    (tl * (4096 - fx) + tr * fx) * (1024 - fy) + (bl * (4096 - fx) + br * fx) * fy

WideBilinear(img, mode, p, q) ==
    LET w7x == ((p - Half) \div 512) % 128   w7y == ((q - Half) \div 512) % 128
        x1 == BilinearIdx(p)     y1 == BilinearIdx(q)
        tl == PixelAt(img, mode, x1, y1)      tr == PixelAt(img, mode, x1 + 1, y1)
        bl == PixelAt(img, mode, x1, y1 + 1)  br == PixelAt(img, mode, x1 + 1, y1 + 1)
    IN [c \in 1..4 |->
          LET v00 == WBlend(tl[c], tr[c], bl[c], br[c], w7x * 32, w7y * 8)
              v10 == WBlend(tl[c], tr[c], bl[c], br[c], (w7x + 1) * 32, w7y * 8)
              v01 == WBlend(tl[c], tr[c], bl[c], br[c], w7x * 32, (w7y + 1) * 8)
              v11 == WBlend(tl[c], tr[c], bl[c], br[c], (w7x + 1) * 32, (w7y + 1) * 8)
          IN <<MinOf4(v00, v10, v01, v11) \div 64, (MaxOf4(v00, v10, v01, v11) + 63) \div 64>>]

ClampTotal(t) == IF t < 0 THEN 0 ELSE IF t > 255 * One THEN 255 * One ELSE t

ConvolutionTotal(img, mode, p, q, par) ==
    LET cw == par[1] \div One   ch == par[2] \div One
        x1 == KernelStart(p, par[1])  y1 == KernelStart(q, par[2])
        terms == [k \in 1..(cw * ch) |->
                    LET i == (k - 1) \div cw  j == (k - 1) % cw  f == par[2 + k] IN
                    IF f = 0 THEN Transparent ELSE Scale4(PixelAt(img, mode, x1 + j, y1 + i), f)]
    IN Sum4(terms, cw * ch)

SeparableTotal(img, mode, p, q, par) ==
    LET cw == par[1] \div One   ch == par[2] \div One
        xb == par[3] \div One   yb == par[4] \div One
        pm == PhaseMiddle(p, xb)  qm == PhaseMiddle(q, yb)
        xbase == 4 + PhaseOf(pm, xb) * cw
        ybase == 4 + Pow2(xb) * cw + PhaseOf(qm, yb) * ch
        x1 == KernelStart(pm, cw * One)  y1 == KernelStart(qm, ch * One)
        terms == [k \in 1..(cw * ch) |->
                    LET i == (k - 1) \div cw  j == (k - 1) % cw
                        fy == par[ybase + i + 1]  fx == par[xbase + j + 1] IN
                    IF fx = 0 \/ fy = 0 THEN Transparent
                    ELSE Scale4(PixelAt(img, mode, x1 + j, y1 + i), MulRound16(fy, fx))]
    IN Sum4(terms, cw * ch)

WideInterval(img, flt, mode, p, q) ==
    CASE flt.f = "nearest"     -> LET v == Nearest(img, mode, p, q) IN [c \in 1..4 |-> <<v[c] * One, v[c] * One>>]
      [] flt.f = "bilinear"    -> WideBilinear(img, mode, p, q)
      [] flt.f = "convolution" -> LET t == ConvolutionTotal(img, mode, p, q, flt.params) IN
                                  [c \in 1..4 |-> <<ClampTotal(t[c]), ClampTotal(t[c])>>]
      [] flt.f = "separable"   -> LET t == SeparableTotal(img, mode, p, q, flt.params) IN
                                  [c \in 1..4 |-> <<ClampTotal(t[c]), ClampTotal(t[c])>>]

(* v = observed channel numerators <<a,r,g,b>> over the denominators max (full scale); the     *)
(* observation in 1/256 step, rounded, must lie within the interval widened by the tolerance   *)
ObsQ8(v, max) == (v * 65280 + max \div 2) \div max
StepTol(max) == (IF max >= 255 THEN One ELSE (255 * One) \div max) + 512      \* + the rounding of the observation

WideChannelsOK(iv, v, max) ==
    \A c \in 1..4 : LET o == ObsQ8(v[c], max[c]) * 256 IN
                     o >= iv[c][1] - StepTol(max[c]) /\ o <= iv[c][2] + StepTol(max[c])

WidePixelOK(img, m, flt, mode, x, y, v, max) ==
    IF IsAffine(m)
    THEN WideChannelsOK(WideInterval(img, flt, mode, AffinePos(m, 1, x, y), AffinePos(m, 2, x, y)), v, max)
    ELSE LET w == Homog2(m, 3, x, y) IN
         \E p \in Band(Homog2(m, 1, x, y), w), q \in Band(Homog2(m, 2, x, y), w) :
             WideChannelsOK(WideInterval(img, flt, mode, p, q), v, max)

WideAdmissible(img, m, flt, mode, x0, y0, n, rows, px, max) ==
    InDomain(m, x0, y0, n, rows) =>
        \A j \in 1..rows, i \in 1..n : WidePixelOK(img, m, flt, mode, x0 + i - 1, y0 + j - 1, px[j][i], max)

(* ---------------------------------------------------------------------------------------- *)
(* far from the origin: affine transforms whose sample positions use the whole 16.16 range   *)
(* (|position| up to 32767 pixels: 2^31 units), requests tens of thousands of pixels wide,   *)
(* matrix entries up to 32767.  Nothing of this fits TLC's 32-bit integers, so a position is *)
(* kept as a pair <<whole, frac>> = whole * One + frac with 0 <= frac < One ("PF"), and the  *)
(* filters are evaluated on the view of the image whose origin is the whole part.            *)

PF(h, l) == <<h + l \div One, l % One>>                       \* normalise: l any (32-bit) integer
PFNeg(a) == IF a[2] = 0 THEN <<-a[1], 0>> ELSE <<-a[1] - 1, One - a[2]>>
PFAdd(a, b) == PF(a[1] + b[1], a[2] + b[2])

(* v * k for a 32-bit v and 0 <= k < 2^18, provided |v \div One| * k <= 2^29 (FarMulOK):     *)
(* v = vh One + vl, k = 256 kh + kl:  v k = (vh k) One + (vl kh) 256 + vl kl                   *)
PFMulNat(v, k) ==
    LET vh == v \div One  vl == v % One  kh == k \div 256  kl == k % 256  t == vl * kh IN
    PF(vh * k + t \div 256, (t % 256) * 256 + vl * kl)
PFMulInt(v, k) == IF k >= 0 THEN PFMulNat(v, k) ELSE PFNeg(PFMulNat(v, -k))

Pow29 == 536870912
FarMulOK(v, k) == k = 0 \/ (Abs(k) < 262144 /\ Abs(v \div One) <= Pow29 \div Abs(k))

(* floor (a / 2) *)
PFHalf(a) == IF a[1] % 2 = 0 THEN <<a[1] \div 2, a[2] \div 2>> ELSE <<(a[1] - 1) \div 2, (One + a[2]) \div 2>>

(* AffinePos as a pair: ((m[r] . (2x+1, 2y+1, 2)) + 1) \div 2 *)
PosPF(m, r, x, y) ==
    PFHalf(PFAdd(PFAdd(PFAdd(PFMulInt(m[r][1], 2 * x + 1), PFMulInt(m[r][2], 2 * y + 1)), PFMulInt(m[r][3], 2)), <<0, 1>>))

FarMax == 32700            \* pixels; the library itself refuses requests whose (expanded) corners leave the 16.16
                           \* range (+- 32768 pixels) by more than the filter's reach: those are not judged

FarRegular(m, x, y) ==
    \A r \in 1..2 : /\ FarMulOK(m[r][1], 2 * x + 1) /\ FarMulOK(m[r][2], 2 * y + 1)
                    /\ Abs(PosPF(m, r, x, y)[1]) <= FarMax

(* request coordinates fit 16 bits when expanded by one pixel (the library's own precondition); an   *)
(* affine map takes its extremes over a rectangle at the corners                                     *)
FarInDomain(m, x0, y0, n, rows) ==
    /\ IsAffine(m)
    /\ n >= 1 /\ rows >= 1 /\ n <= 65536 /\ rows <= 65536
    /\ x0 - 1 >= -32768 /\ y0 - 1 >= -32768 /\ x0 + n + 1 <= 32767 /\ y0 + rows + 1 <= 32767
    /\ \A x \in {x0 - 1, x0 + n}, y \in {y0 - 1, y0 + rows} : FarRegular(m, x, y)

FarSample(img, m, flt, mode, x, y) ==
    LET P == PosPF(m, 1, x, y)  Q == PosPF(m, 2, x, y) IN SampleAt(At(img, P[1], Q[1]), flt, mode, P[2], Q[2])

(* what a destination of format dfmt shows (raw pixel o = <<hi16, lo16>>) when the a8r8g8b8 value v   *)
(* = <<a, r, g, b>> is stored in it: x8r8g8b8 leaves the unused byte unspecified, r5g6b5 keeps the    *)
(* most significant 5 / 6 / 5 bits of the colour channels                                            *)
Shows(dfmt, o, v) ==
    CASE dfmt = "a8r8g8b8" -> o[1] = v[1] * 256 + v[2] /\ o[2] = v[3] * 256 + v[4]
      [] dfmt = "x8r8g8b8" -> o[1] % 256 = v[2] /\ o[2] = v[3] * 256 + v[4]
      [] dfmt = "r5g6b5"   -> o[1] = 0 /\ o[2] = (v[2] \div 8) * 2048 + (v[3] \div 4) * 32 + v[4] \div 8

(* wins: the windows <<i0, j0, wn, hn>> (offsets within the request) of the destination that were      *)
(* recorded; obs[k][j][i] the raw destination pixel at column i0 + i - 1, row j0 + j - 1 of window k  *)
FarAdmissible(img, m, flt, mode, dfmt, x0, y0, n, rows, wins, obs) ==
    \* (the library accepts bits images of fewer than 32767 pixels per side only)
    (FarInDomain(m, x0, y0, n, rows) /\ img.w < 32767 /\ img.h < 32767) =>
        \A k \in 1..Len(wins) :
            LET i0 == wins[k][1]  j0 == wins[k][2]  wn == wins[k][3]  hn == wins[k][4] IN
            /\ i0 >= 0 /\ j0 >= 0 /\ i0 + wn <= n /\ j0 + hn <= rows
            /\ \A j \in 1..hn, i \in 1..wn :
                   Shows(dfmt, obs[k][j][i], FarSample(img, m, flt, mode, x0 + i0 + i - 1, y0 + j0 + j - 1))

(* ---------------------------------------------------------------------------------------- *)
(* actions                                                                                  *)

Init ==
    /\ image = MkImage("a8r8g8b8", 1, 1, <<<< <<0, 0>> >>>>)
    /\ transform = Identity
    /\ filter = [f |-> "nearest", params |-> <<>>]
    /\ repeat = "none"
    /\ out = <<>>

SetImage(img) ==
    /\ image' = img
    /\ transform' = Identity
    /\ filter' = [f |-> "nearest", params |-> <<>>]
    /\ repeat' = "none"
    /\ out' = <<>>

SetTransform(m) == transform' = m /\ UNCHANGED <<image, filter, repeat, out>>

SetFilter(f, params) == filter' = [f |-> f, params |-> params] /\ UNCHANGED <<image, transform, repeat, out>>

SetRepeat(r) == repeat' = r /\ UNCHANGED <<image, transform, filter, out>>

(* px: the pixels the destination shows afterwards *)
Fetch(x0, y0, n, rows, px) ==
    \* "= TRUE": TLC then evaluates the predicate as an expression (first witness of each \E suffices)
    \* instead of enumerating every admissible position of every pixel as a separate successor
    /\ Admissible(image, transform, filter, repeat, x0, y0, n, rows, px) = TRUE
    /\ out' = [x0 |-> x0, y0 |-> y0, n |-> n, rows |-> rows, px |-> px]
    /\ UNCHANGED <<image, transform, filter, repeat>>

(* the same request evaluated by the wide pipeline; px[j][i] = channel numerators over max *)
FetchWide(x0, y0, n, rows, px, max) ==
    /\ WideAdmissible(image, transform, filter, repeat, x0, y0, n, rows, px, max) = TRUE
    /\ out' = [x0 |-> x0, y0 |-> y0, n |-> n, rows |-> rows, px |-> px, max |-> max]
    /\ UNCHANGED <<image, transform, filter, repeat>>

(* A request far from the origin (affine transform), evaluated by the narrow pipeline into a          *)
(* destination of format dfmt whose previous content does not show (SRC, or OVER onto a cleared       *)
(* destination); only the windows wins of the destination were recorded                               *)
FetchFar(dfmt, x0, y0, n, rows, wins, obs) ==
    /\ FarAdmissible(image, transform, filter, repeat, dfmt, x0, y0, n, rows, wins, obs) = TRUE
    /\ out' = [x0 |-> x0, y0 |-> y0, n |-> n, rows |-> rows, wins |-> wins, px |-> obs]
    /\ UNCHANGED <<image, transform, filter, repeat>>

(* Named deviation (known finding C08-solid-ignores-kernel-gain): a 1x1 image with a repeat   *)
(* mode other than NONE is treated as a solid colour, so a convolution kernel whose           *)
(* coefficients do not sum to 1 has no effect: every pixel shows the image's pixel unscaled.  *)
(* Enabled by the trace specification only when the finding is listed, and only for requests  *)
(* the ordinary action does not explain.                                                      *)
Dev_SolidIgnoresKernelGain(x0, y0, n, rows, px) ==
    /\ image.w = 1 /\ image.h = 1 /\ repeat # "none"
    /\ filter.f \in {"convolution", "separable"}
    /\ ~Admissible(image, transform, filter, repeat, x0, y0, n, rows, px)
    /\ \A j \in 1..rows, i \in 1..n : px[j][i] = Expand(image.fmt, image.pix[1][1])
    /\ out' = [x0 |-> x0, y0 |-> y0, n |-> n, rows |-> rows, px |-> px]
    /\ UNCHANGED <<image, transform, filter, repeat>>
=============================================================================
