---------------------------- MODULE ThreadsMCFill ----------------------------
(* C16 at the design level, for the drawing entry points that build a temporary object of their own and draw   *)
(* several pieces from it (pixman_image_fill_boxes / fill_rectangles: a solid image per call, one composite per *)
(* box; composite_trapezoids / composite_glyphs: a temporary mask): every interleaving of a few workers that    *)
(* each make NCalls calls of NBox boxes with their OWN colour into a private destination, at the grain of the   *)
(*   set-up write of the temporary's colour and of the read of that colour at the start of every box.           *)
(* With a temporary per call (GlobalScratch = FALSE) there is no data race and every box is drawn in the        *)
(* caller's colour, i.e. the result of a solo run.  The negative configurations keep ONE temporary for the      *)
(* whole process (a function-static object that is recoloured): TLC must find the race, and the box drawn in    *)
(* another thread's colour.                                                                                     *)
EXTENDS Threads

CONSTANTS Workers, NCalls, NBox, GlobalScratch

VARIABLES pc,       \* worker -> "set" | "box" | "done"
          call,     \* worker -> number of the call in progress
          box,      \* worker -> boxes drawn in the call in progress
          colour,   \* temporary -> colour it holds (a colour is <<worker, call>>: every call has its own)
          acc,      \* access log (Threads.tla)
          drawn     \* worker -> sequence of the colours its boxes were drawn in

vars == <<pc, call, box, colour, acc, drawn>>

K(t) == IF GlobalScratch THEN <<"K", 0>> ELSE <<"K", t>>     \* the temporary worker t's call uses
D(t) == <<"D", t>>                                          \* private destination
Temps == {K(t) : t \in Workers}

Init == /\ pc = [t \in Workers |-> "set"] /\ call = [t \in Workers |-> 1] /\ box = [t \in Workers |-> 0]
        /\ colour = [k \in Temps |-> <<0, 0>>] /\ acc = NoAccess /\ drawn = [t \in Workers |-> <<>>]

(* top of the call: the temporary's colour is compared with the requested one and set *)
SetColour(t) ==
    /\ pc[t] = "set" /\ call[t] <= NCalls
    /\ colour' = [colour EXCEPT ![K(t)] = <<t, call[t]>>]
    /\ acc' = LogWrite(LogRead(acc, t, <<"props", K(t)>>), t, <<"props", K(t)>>)
    /\ pc' = [pc EXCEPT ![t] = "box"]
    /\ UNCHANGED <<call, box, drawn>>

(* one box: the colour is read from the temporary, the destination is written *)
Box(t) ==
    /\ pc[t] = "box"
    /\ acc' = LogWrite(LogRead(acc, t, <<"props", K(t)>>), t, <<"pixels", D(t)>>)
    /\ drawn' = [drawn EXCEPT ![t] = Append(@, colour[K(t)])]
    /\ IF box[t] + 1 = NBox
       THEN /\ box' = [box EXCEPT ![t] = 0] /\ call' = [call EXCEPT ![t] = @ + 1]
            /\ pc' = [pc EXCEPT ![t] = IF call[t] = NCalls THEN "done" ELSE "set"]
       ELSE /\ box' = [box EXCEPT ![t] = @ + 1] /\ UNCHANGED <<call, pc>>
    /\ UNCHANGED colour

Next == \E t \in Workers : SetColour(t) \/ Box(t)
Spec == Init /\ [][Next]_vars

NoRace == RaceFree(acc)
(* box number k of worker t (counted over its calls) is drawn in the colour of the call it belongs to *)
SoloEqual == \A t \in Workers : \A k \in DOMAIN drawn[t] : drawn[t][k] = <<t, ((k - 1) \div NBox) + 1>>
NotAllDone == ~(\A t \in Workers : pc[t] = "done")
=============================================================================
