----------------------------- MODULE GradientMC -----------------------------
(* Small-scope exhaustive check of the building blocks of spec/Gradient.tla (C13).          *)
(* States: every stop list with 1..3 stops over the positions {0, 1/4, 1/2, 1/2, 1} x every   *)
(* repeat mode x every t on a lattice of eighths (+-1 unit) over [-2.5, 2.5].  Invariants:    *)
(*   FoldDef      FoldRepeat against its mathematical definition (NORMAL: the representative  *)
(*                of t modulo 1 in [0,1); REFLECT: the distance to the nearest even integer)   *)
(*   LookupDef    the stop lookup returns the first stop right of u (both one-sided variants) *)
(*   AtStops      the colour at a stop position is that stop's colour (last of equal ones)    *)
(*   LerpDef      ChanAt against the defining equation of linear interpolation                *)
(*   HullSound    the hull over [t-1, t+1] contains the colour at t                           *)
(* ASSUMEs (evaluated once): the interval helpers of GradIv (division, square root, angles)   *)
(* against their definitions on small arguments, and the tangent table (TanTabOK).            *)
(* Negative configurations: Mutant = "reflect_parity" (REFLECT folding off by one period),    *)
(* Mutant = "lookup_le" (stop lookup with <= for <) must be rejected.                         *)
EXTENDS Gradient, TLC, FiniteSets

VARIABLE tc

Positions == <<0, 16384, 32768, 32768, 65536>>
Colours == << <<255, 255, 0, 0>>, <<128, 0, 255, 0>>, <<0, 0, 0, 255>>, <<255, 40, 80, 120>>, <<64, 255, 255, 255>> >>
IdxSets == {S \in SUBSET (1..5) : S # {} /\ Cardinality(S) <= 3}
RECURSIVE SortedSeq(_)
SortedSeq(S) == IF S = {} THEN <<>> ELSE LET mn == CHOOSE x \in S : \A y \in S : x <= y IN <<mn>> \o SortedSeq(S \ {mn})
StopsOf(S) == LET idx == SortedSeq(S) IN [i \in 1..Len(idx) |-> [x |-> Positions[idx[i]], c |-> Colours[idx[i]]]]

Modes == {"NONE", "NORMAL", "PAD", "REFLECT"}
Ts == {k * (TS \div 8) + d : k \in -20..20, d \in {-1, 0, 1}}

MCInit == gst = GIdle /\ tc \in [S : IdxSets, mode : Modes, t : Ts]
MCNext == UNCHANGED <<gst, tc>>
MCSpec == MCInit /\ [][MCNext]_<<gst, tc>>

stops == StopsOf(tc.S)
N == Len(stops)
u == FoldRepeat(tc.t, tc.mode)

MathReflect(t) == LET ds == {IvAbs(t - 2 * j * TS) : j \in -4..4} IN CHOOSE d \in ds : \A e \in ds : d <= e

Le40(p, q) == p[1] < q[1] \/ (p[1] = q[1] /\ p[2] <= q[2])
E40(e) == <<e \div 16384, (e % 16384) * CS>>            \* e * 64 as hi * 2^20 + lo

FoldDef ==
    CASE tc.mode = "NORMAL"  -> u >= 0 /\ u < TS /\ (tc.t - u) % TS = 0
      [] tc.mode = "REFLECT" -> u = MathReflect(tc.t)
      [] OTHER               -> u = tc.t

LookupDef ==
    LET nr == Lookup(stops, u, "R")  nl == Lookup(stops, u, "L") IN
    /\ nr \in 1..(N + 1) /\ nl \in 1..(N + 1)
    /\ \A m \in 1..N : (m < nr) = (SX(stops, m) <= u)
    /\ \A m \in 1..N : (m < nl) = (SX(stops, m) < u)

AtStops ==
    \A n \in 1..N :
        ((n = N \/ SX(stops, n + 1) > SX(stops, n)) /\ tc.mode = "PAD") =>
            LET c == ColourAt(stops, "PAD", SX(stops, n), "R") IN
            \A k \in 1..4 : c[k] = <<stops[n].c[k] * CS, stops[n].c[k] * CS>>

LerpDef ==
    LET n == Lookup(stops, u, "R") IN
    (n > 1 /\ n <= N /\ SX(stops, n) > SX(stops, n - 1)) =>
        LET s == Segment(stops, tc.mode, n)  den == s.x1 - s.x0 IN
        \A k \in 1..4 :
            LET v == ChanAt(s, u, k)  exact == (s.c0[k] * (s.x1 - u) + s.c1[k] * (u - s.x0)) IN
            \* v / CS brackets exact / den:  v.lo * den <= exact * CS <= v.hi * den, in exact 40-bit arithmetic
            /\ Le40(Mul40(v[1], den), E40(exact))
            /\ Le40(E40(exact), Mul40(v[2], den))
            /\ v[2] - v[1] <= 1

HullSound ==
    LET h == ColourHull(stops, tc.mode, tc.t - 1, tc.t + 1)
        c == ColourAt(stops, tc.mode, u, "R") IN
    \A k \in 1..4 : h[k][1] <= c[k][1] /\ c[k][2] <= h[k][2] /\ h[k][1] >= 0 /\ h[k][2] <= 255 * CS

(* ---- interval helpers ---------------------------------------------------------------------- *)
(* MulUn8 is g*m/255 rounded half up, and monotone with steps of at most 1 in g *)
ASSUME \A a, b \in 0..255 : LET v == MulUn8(a, b) IN
          /\ 2 * 255 * v <= 2 * a * b + 255 /\ 2 * a * b + 255 < 2 * 255 * (v + 1)
          /\ (a < 255 => MulUn8(a + 1, b) - v \in {0, 1})
ASSUME TanTabOK
ASSUME \A D \in {1, 2, 3, 5, 7, 64, 100, 4097, 8191} : \A r \in {0, 1, 2, D \div 3, D \div 2, D - 1} :
          r < D => FracBits(r, D, TSBits) = (r * TS) \div D
ASSUME \A D \in {1, 2, 3, 7, 10, 360} : \A n \in -25..25 :
          LET iv == DivIv(n, D)  im == DivIv(-n, -D) IN
          /\ iv = im
          /\ iv[1] * D <= n * TS /\ n * TS <= iv[2] * D /\ iv[2] - iv[1] <= 1
ASSUME \A D \in {8192, 8193, 100000, 536870911} : \A n \in {-3, -1, 0, 1, 2, 5} :
          \* large divisors: n / D lies in [lo, hi] / TS   <=>   lo <= n * TS / D <= hi, checked through the quotient
          LET iv == DivIv(n * 1000, D) IN iv[2] - iv[1] <= 1 /\ (n > 0 => iv[1] >= 0) /\ (n < 0 => iv[2] <= 0)
ASSUME \A n \in 0..300 : \A k \in 0..6 :
          LET p == SqrtScaled(n, k)  s == p[1]  m == n * P2(2 * k) IN
          s * s <= m /\ m < (s + 1) * (s + 1) /\ (p[2] = (s * s = m))
ASSUME \A n \in {1073741823, 1000000000, 1073697800, 1073697799, 999950884, 999950883} :
          LET s == ISqrt(n) IN s * s <= n /\ n < (s + 1) * (s + 1)
ASSUME /\ AngleIv(1, 0) = <<0, 0>> /\ AngleIv(5, 5) = <<TS \div 8, TS \div 8>> /\ AngleIv(0, 3) = <<TS \div 4, TS \div 4>>
       /\ AngleIv(-2, 0) = <<TS \div 2, TS \div 2>> /\ AngleIv(0, -7) = <<3 * (TS \div 4), 3 * (TS \div 4)>>
       /\ AngleIv(4, -4) = <<7 * (TS \div 8), 7 * (TS \div 8)>>
       \* atan2(1, 2) = 19344.08 units of 2^-18 turn; atan2(3, -1) = 78959.92; atan2(-1, -3) = 144495.92
       /\ LET a == AngleIv(2, 1) IN a[1] <= 19344 /\ 19345 <= a[2] /\ a[2] - a[1] <= 2 * StepTS
       /\ LET a == AngleIv(-1, 3) IN a[1] <= 78959 /\ 78960 <= a[2] /\ a[2] - a[1] <= 2 * StepTS
       /\ LET a == AngleIv(-3, -1) IN a[1] <= 144495 /\ 144496 <= a[2] /\ a[2] - a[1] <= 2 * StepTS
       /\ LET a == AngleIv(2047, 1) IN a[1] = 0 /\ a[2] = StepTS
=============================================================================
