SPECIFICATION MCSpec
CONSTANTS
  DW = 3
  DH = 2
  Mutant = "none"
  Full = TRUE
INVARIANT RegionIsIntersection
