------------------------------ MODULE SampleMC ------------------------------
(* Design-level check of Sample.tla on a small scope.                                       *)
(*                                                                                          *)
(* (1) Probes: the definitions are compared, case by case, with what they are meant to be:  *)
(*     repeat     the four repeat modes against their mathematical definition               *)
(*                (sizes 1..5, coordinates -12..12; REFLECT = repeated mirroring at the     *)
(*                image edges, NORMAL = congruence, PAD = nearest pixel, NONE = inside)     *)
(*     weight     the four bilinear weight products sum to 65536 for all 128 x 128 weights; *)
(*                a constant image is reproduced exactly                                    *)
(*     half       nearest and bilinear agree at pixel centres (integer + 1/2 positions)     *)
(*     round      NEAREST picks the pixel whose centre is closest, ties to the north-west;  *)
(*                the 7-bit weight is the truncated fraction of p - 1/2                     *)
(*     kernel     the first pixel under a kernel of width 1..5 is the one whose sample has  *)
(*                index 0 in rounding.txt's formula; one-hot kernels reduce to NEAREST      *)
(*     affine     row start + i * column 0 equals the per-pixel rounded product             *)
(*     quot       the long division used for the homogeneous divide: floor, remainder, band *)
(*     mul        MulRound16 equals (a * b + 0x8000) >> 16                                  *)
(*     pfmul      the <<whole, frac>> pair product of FetchFar against double-and-add       *)
(*     pfhalf     halving a pair is floor (v / 2)                                           *)
(*     pfpos      PosPF equals AffinePos wherever the latter fits 32 bits; twenty-seven     *)
(*     farcase    positions beyond 32 bits against values computed with unbounded integers  *)
(*     faroff     sampling the view At(img, ox, oy) at (p, q) is sampling img at            *)
(*                (p + ox, q + oy), for every filter and repeat mode                        *)
(*     shows      what each destination format shows of a sample (565 -> 8888 -> 565 is     *)
(*                the identity)                                                             *)
(* (2) A small state machine over the actions of Sample.tla (two images, eleven transforms, *)
(*     five filters, four repeat modes, a few requests) with invariants that relate         *)
(*     configurations: identity / integer translation copy pixels, a horizontal flip        *)
(*     mirrors the row, multiplying all nine matrix entries by k (a projective matrix with  *)
(*     w = k) admits the affine reference, the narrow reference is admissible for the wide   *)
(*     (floating point) evaluation.                                                         *)
(* Negative configurations (must be rejected): Fix = 0 (REFLECT off by one),                *)
(* Mutant = "ties_up" (NEAREST rounding ties up), Mutant = "kernel_up" (even kernels        *)
(* aligned one pixel late), Mutant = "pf_nocarry" (pair product drops the carry of the      *)
(* fractional half).                                                                        *)
EXTENDS Sample, TLC

CONSTANTS Fix,        \* 1; the negative configuration sets 0
          Mutant      \* "none" | "ties_up" | "kernel_up" | "pf_nocarry"

VARIABLE probe

MRepeat(mode, c, size) == RepeatIdxM(mode, c, size, Fix)
MNearestIdx(p) == IF Mutant = "ties_up" THEN Floor16(p) ELSE NearestIdx(p)
MKernelStart(p, w16) == IF Mutant = "kernel_up" THEN Floor16(p - ((w16 - One) \div 2)) ELSE KernelStart(p, w16)

MPFMulNat(v, k) ==
    IF Mutant = "pf_nocarry"
    THEN LET vh == v \div One  vl == v % One  kh == k \div 256  kl == k % 256  t == vl * kh IN
         <<vh * k + t \div 256, ((t % 256) * 256 + vl * kl) % One>>
    ELSE PFMulNat(v, k)

(* ---------------------------------------------------------------------------------------- *)
(* images and configurations of the scope                                                   *)

Img2 == MkImage("a8r8g8b8", 2, 1, << << <<4660, 22136>>, <<65244, 47768>> >> >>)
Img3 == MkImage("a8r8g8b8", 3, 2,
                << << <<257, 514>>, <<771, 1028>>, <<1285, 1542>> >>,
                   << <<33153, 33410>>, <<33667, 33924>>, <<34181, 65535>> >> >>)
Imgs == {Img2, Img3}

Tr(tx, ty) == <<<<One, 0, tx>>, <<0, One, ty>>, <<0, 0, One>>>>
FlipX(w)   == <<<<-One, 0, w * One>>, <<0, One, 0>>, <<0, 0, One>>>>
Mats(w) == {Identity, Tr(One, 0), Tr(-2 * One, One), Tr(Half, 0), Tr(1, -1), Tr(-Half - 1, Half),
            FlipX(w),
            <<<<Half, 0, 0>>, <<0, Half, 0>>, <<0, 0, One>>>>,
            <<<<2 * One, 0, -One>>, <<0, One, 0>>, <<0, 0, One>>>>,
            <<<<0, -One, w * One>>, <<One, 0, 0>>, <<0, 0, One>>>>,
            <<<<39322, -52429, One>>, <<52429, 39322, 0>>, <<0, 0, One>>>>}

Q == One \div 4
Filters == {[f |-> "nearest", params |-> <<>>], [f |-> "bilinear", params |-> <<>>],
            [f |-> "convolution", params |-> <<2 * One, 2 * One, Q, Q, Q, Q>>],
            [f |-> "convolution", params |-> <<3 * One, 3 * One, 0, -Q, 0, -Q, 2 * One, -Q, 0, -Q, 0>>],
            [f |-> "separable", params |-> <<2 * One, One, One, 0, Half, Half, Q, 3 * Q, One>>]}
Modes == {"none", "normal", "pad", "reflect"}

ScaleAll(m, k) == [r \in 1..3 |-> [c \in 1..3 |-> k * m[r][c]]]

(* ---------------------------------------------------------------------------------------- *)
(* probes                                                                                   *)

Positions == {k * One + d : k \in -3..3, d \in {-2, -1, 0, 1, 2, 511, 512, 513, Half - 1, Half, Half + 1, One - 512}}

\* positions beyond 32 bits, computed with unbounded integers (Python): ((m[r] . (2x+1, 2y+1, 2)) + 1) // 2
FarCases ==
    {[m |-> <<<<1048576, 0, -1966080000>>, <<0, 65536, 0>>, <<0, 0, One>>>>, x |-> -32768, y |-> -32768, p |-> <<-554280, 0>>, q |-> <<-32768, 32768>>],
     [m |-> <<<<1048576, 0, -1966080000>>, <<0, 65536, 0>>, <<0, 0, One>>>>, x |-> 32766, y |-> 32766, p |-> <<494264, 0>>, q |-> <<32766, 32768>>],
     [m |-> <<<<1048576, 0, -1966080000>>, <<0, 65536, 0>>, <<0, 0, One>>>>, x |-> -1, y |-> -1, p |-> <<-30008, 0>>, q |-> <<-1, 32768>>],
     [m |-> <<<<1048576, 0, -1966080000>>, <<0, 65536, 0>>, <<0, 0, One>>>>, x |-> 12345, y |-> -3, p |-> <<167528, 0>>, q |-> <<-3, 32768>>],
     [m |-> <<<<65536, 0, 0>>, <<0, 65536, 0>>, <<0, 0, One>>>>, x |-> 1875, y |-> 0, p |-> <<1875, 32768>>, q |-> <<0, 32768>>],
     [m |-> <<<<65536, 0, 0>>, <<0, 65536, 0>>, <<0, 0, One>>>>, x |-> 29, y |-> -20000, p |-> <<29, 32768>>, q |-> <<-20000, 32768>>],
     [m |-> <<<<65536, 0, 0>>, <<0, 65536, 0>>, <<0, 0, One>>>>, x |-> 32000, y |-> 3, p |-> <<32000, 32768>>, q |-> <<3, 32768>>],
     [m |-> <<<<65536, 0, 0>>, <<0, 65536, 0>>, <<0, 0, One>>>>, x |-> 0, y |-> 0, p |-> <<0, 32768>>, q |-> <<0, 32768>>],
     [m |-> <<<<65548345, 0, -2097152001>>, <<0, 21845, 2097217535>>, <<0, 0, One>>>>, x |-> 1875, y |-> 0, p |-> <<1843853, 18839>>, q |-> <<32001, 10922>>],
     [m |-> <<<<65548345, 0, -2097152001>>, <<0, 21845, 2097217535>>, <<0, 0, One>>>>, x |-> 0, y |-> 0, p |-> <<-31500, 6172>>, q |-> <<32001, 10922>>],
     [m |-> <<<<65548345, 0, -2097152001>>, <<0, 21845, 2097217535>>, <<0, 0, One>>>>, x |-> 12345, y |-> -3, p |-> <<12315825, 33997>>, q |-> <<32000, 10923>>],
     [m |-> <<<<65548345, 0, -2097152001>>, <<0, 21845, 2097217535>>, <<0, 0, One>>>>, x |-> -1, y |-> -1, p |-> <<-32501, 59363>>, q |-> <<32000, 54613>>],
     [m |-> <<<<-65536, 0, 1966080007>>, <<0, -458753, -2031616000>>, <<0, 0, One>>>>, x |-> 12345, y |-> -3, p |-> <<17654, 32775>>, q |-> <<-30983, 32771>>],
     [m |-> <<<<-65536, 0, 1966080007>>, <<0, -458753, -2031616000>>, <<0, 0, One>>>>, x |-> 29, y |-> -20000, p |-> <<29970, 32775>>, q |-> <<108996, 52768>>],
     [m |-> <<<<-65536, 0, 1966080007>>, <<0, -458753, -2031616000>>, <<0, 0, One>>>>, x |-> 0, y |-> 0, p |-> <<29999, 32775>>, q |-> <<-31004, 32768>>],
     [m |-> <<<<-65536, 0, 1966080007>>, <<0, -458753, -2031616000>>, <<0, 0, One>>>>, x |-> 32000, y |-> 3, p |-> <<-2001, 32775>>, q |-> <<-31025, 32765>>],
     [m |-> <<<<0, -65536, 2097152000>>, <<65536, 0, -2097119232>>, <<0, 0, One>>>>, x |-> 0, y |-> 0, p |-> <<31999, 32768>>, q |-> <<-31999, 0>>],
     [m |-> <<<<0, -65536, 2097152000>>, <<65536, 0, -2097119232>>, <<0, 0, One>>>>, x |-> -32768, y |-> -32768, p |-> <<64767, 32768>>, q |-> <<-64767, 0>>],
     [m |-> <<<<0, -65536, 2097152000>>, <<65536, 0, -2097119232>>, <<0, 0, One>>>>, x |-> 12345, y |-> -3, p |-> <<32002, 32768>>, q |-> <<-19654, 0>>],
     [m |-> <<<<0, -65536, 2097152000>>, <<65536, 0, -2097119232>>, <<0, 0, One>>>>, x |-> 1875, y |-> 0, p |-> <<31999, 32768>>, q |-> <<-30124, 0>>],
     [m |-> <<<<32769, 77, -1966047233>>, <<-3, 21845, 1310720001>>, <<0, 0, One>>>>, x |-> 32000, y |-> 3, p |-> <<-13999, 15885>>, q |-> <<19999, 45993>>],
     [m |-> <<<<32769, 77, -1966047233>>, <<-3, 21845, 1310720001>>, <<0, 0, One>>>>, x |-> 12345, y |-> -3, p |-> <<-23827, 28536>>, q |-> <<19998, 39424>>],
     [m |-> <<<<32769, 77, -1966047233>>, <<-3, 21845, 1310720001>>, <<0, 0, One>>>>, x |-> -1, y |-> -1, p |-> <<-30000, 16344>>, q |-> <<19999, 54616>>],
     [m |-> <<<<32769, 77, -1966047233>>, <<-3, 21845, 1310720001>>, <<0, 0, One>>>>, x |-> 0, y |-> 0, p |-> <<-30000, 49190>>, q |-> <<20000, 10922>>],
     [m |-> <<<<2147483647, 0, -2147418112>>, <<0, 2, 2147483647>>, <<0, 0, One>>>>, x |-> 29, y |-> -20000, p |-> <<933888, 65507>>, q |-> <<32767, 25536>>],
     [m |-> <<<<2147483647, 0, -2147418112>>, <<0, 2, 2147483647>>, <<0, 0, One>>>>, x |-> 0, y |-> 0, p |-> <<-16383, 0>>, q |-> <<32768, 0>>],
     [m |-> <<<<2147483647, 0, -2147418112>>, <<0, 2, 2147483647>>, <<0, 0, One>>>>, x |-> 1875, y |-> 0, p |-> <<61423616, 63661>>, q |-> <<32768, 0>>]}

ProbeSet ==
    [kind : {"repeat"}, mode : Modes, size : 1..5, c : -12..12]
    \cup [kind : {"weight"}, wx : 0..127, wy : 0..127]
    \cup [kind : {"half"}, img : Imgs, mode : Modes, kx : -7..7, ky : -5..5]
    \cup [kind : {"round"}, p : Positions]
    \cup [kind : {"kernel"}, p : Positions, width : 1..5]
    \cup [kind : {"onehot"}, img : Imgs, mode : Modes, p : {k * One + d : k \in -2..3, d \in {-1, 0, 1, Half}}, q : {0, Half, One + 1}]
    \cup [kind : {"affine"}, m : Mats(3), x0 : -3..3, y : -2..2]
    \cup [kind : {"quot"}, num : (-40..40) \cup {-12345, 12345, 16383}, den : {-1000, -64, -7, -3, -1, 1, 3, 7, 64, 1000}]
    \cup [kind : {"mul"}, a : {-32768, -1161, -1, 0, 1, 255, 15270, 32767}, b : {-40000, -5498, -1, 0, 1, 256, 56925, 65535}]
    \cup [kind : {"pfmul"}, v : {-2147483647, -2147418113, -65548345, -65537, -65536, -65535, -1, 0, 1, 255, 65535, 65536, 65537,
                                 1048576, 65548345, 2147418112, 2147483647},
                            k : {0, 1, 2, 3, 255, 256, 257, 511, 4097, 65535, 65536, 65537, 131071, 262143}]
    \cup [kind : {"pfhalf"}, h : -4..4, lo : {0, 1, 2, 3, 32767, 32768, 65534, 65535}]
    \cup [kind : {"pfpos"}, m : Mats(3), x : -3..3, y : -2..2]
    \cup [kind : {"farcase"}, c : FarCases]
    \cup [kind : {"faroff"}, img : Imgs, mode : Modes, flt : Filters, ox : {-7, -1, 0, 2, 5}, oy : {-3, 0, 1},
                             p : {0, 1, Half - 1, Half, One - 1}, q : {0, Half, One - 1}]
    \cup [kind : {"shows"}, hi : {0, 1, 255, 256, 32896, 65280, 65535}, lo : {0, 1, 31, 32, 2047, 2048, 4660, 33153, 65535}]

RECURSIVE Mirror(_, _)
Mirror(c, size) ==       \* reflect c at the image edges until it lies inside
    IF c < 0 THEN Mirror(-1 - c, size) ELSE IF c >= size THEN Mirror(2 * size - 1 - c, size) ELSE c

RepeatOK(pr) ==
    LET idx == MRepeat(pr.mode, pr.c, pr.size)  c == pr.c  size == pr.size IN
    CASE pr.mode = "none"    -> idx = (IF 0 <= c /\ c < size THEN c ELSE -1)
      [] pr.mode = "normal"  -> idx \in 0..(size - 1) /\ \E k \in -13..13 : c = idx + k * size
      [] pr.mode = "pad"     -> idx \in 0..(size - 1) /\ \A j \in 0..(size - 1) : Abs(c - idx) <= Abs(c - j)
      [] pr.mode = "reflect" -> idx = Mirror(c, size)

WeightOK(pr) ==
    LET wx == 2 * pr.wx  wy == 2 * pr.wy IN
    /\ (256 - wx) * (256 - wy) + wx * (256 - wy) + (256 - wx) * wy + wx * wy = One
    /\ \A v \in {0, 1, 127, 128, 254, 255} : Blend(v, v, v, v, wx, wy) = v
    /\ Blend(255, 0, 0, 0, wx, wy) + Blend(0, 255, 0, 0, wx, wy) + Blend(0, 0, 255, 0, wx, wy)
         + Blend(0, 0, 0, 255, wx, wy) \in 252..255                   \* truncation loses less than one per term

HalfOK(pr) ==
    LET p == pr.kx * One + Half  q == pr.ky * One + Half
        v == IF MRepeat(pr.mode, pr.kx, pr.img.w) < 0 \/ MRepeat(pr.mode, pr.ky, pr.img.h) < 0 THEN Transparent
             ELSE Expand(pr.img.fmt, pr.img.pix[MRepeat(pr.mode, pr.ky, pr.img.h) + 1][MRepeat(pr.mode, pr.kx, pr.img.w) + 1])
    IN /\ Nearest(pr.img, pr.mode, p, q) = Bilinear(pr.img, pr.mode, p, q)
       /\ Fix = 1 => Nearest(pr.img, pr.mode, p, q) = v

Centre(i) == i * One + Half
RoundOK(pr) ==
    LET p == pr.p  idx == MNearestIdx(p) IN
    \* closest pixel centre, ties broken towards the smaller index (north-west)
    /\ \A j \in -6..6 : Abs(p - Centre(idx)) < Abs(p - Centre(j)) \/ (Abs(p - Centre(idx)) = Abs(p - Centre(j)) /\ idx <= j)
    \* the weight is the fraction of p - 1/2 truncated to 7 bits (times two), the index its integer part
    /\ BilinearWeight(p) = 2 * ((((p - Half) % One) * 128) \div One)
    /\ BilinearIdx(p) * One + ((p - Half) % One) = p - Half

KernelOK(pr) ==
    \* rounding.txt: the sample of pixel k (centre k + 1/2) has index floor ((k + 1/2 - x) - s0 + 1/2), s0 = -width/2 + 1/2;
    \* the first pixel used is the one with index 0:  0 <= k + 1/2 - x + width/2 < 1   (times 2 * One)
    LET k == MKernelStart(pr.p, pr.width * One)
        v == 2 * k * One + One - 2 * pr.p + pr.width * One
    IN 0 <= v /\ v < 2 * One

OneHotOK(pr) ==
    LET img == pr.img  mode == pr.mode  p == pr.p  q == pr.q IN
    /\ Convolution(img, mode, p, q, <<One, One, One>>) = Nearest(img, mode, p, q)
    /\ Convolution(img, mode, p, q, <<3 * One, 3 * One, 0, 0, 0, 0, One, 0, 0, 0, 0>>) = Nearest(img, mode, p, q)
    /\ Convolution(img, mode, p, q, <<3 * One, One, One, 0, 0>>) = Nearest(img, mode, p - One, q)
    \* even kernels: the two middle taps are the pixels half a pixel to either side
    /\ Convolution(img, mode, p, q, <<2 * One, 2 * One, One, 0, 0, 0>>) = Nearest(img, mode, p - Half, q - Half)
    /\ Convolution(img, mode, p, q, <<2 * One, 2 * One, 0, 0, 0, One>>) = Nearest(img, mode, p + Half, q + Half)
    \* a separable filter with one phase and one-hot vectors is the same
    /\ Separable(img, mode, p, q, <<2 * One, One, 0, 0, 0, One, One>>) = PixelAt(img, mode, Floor16(p), Floor16(q))
    \* averaging two copies of the same tap
    /\ Convolution(img, mode, p, q, <<2 * One, One, Half, Half>>) =
         [c \in 1..4 |-> Reduce(Half * Nearest(img, mode, p - Half, q)[c] + Half * Nearest(img, mode, p + Half, q)[c])]

AffineOK(pr) ==
    \A r \in 1..2, i \in 0..6 :
        /\ AffinePos(pr.m, r, pr.x0 + i, pr.y) = AffinePos(pr.m, r, pr.x0, pr.y) + i * pr.m[r][1]
        /\ 2 * AffinePos(pr.m, r, pr.x0 + i, pr.y) - Homog2(pr.m, r, pr.x0 + i, pr.y) \in {0, 1}   \* nearest, ties up

QuotOK(pr) ==
    LET fr == Quot16(pr.num, pr.den)
        n == IF pr.den < 0 THEN -pr.num ELSE pr.num
        d == Abs(pr.den)
    IN /\ fr[1] * d + fr[2] = n * One /\ 0 <= fr[2] /\ fr[2] < d
       /\ \A p \in (fr[1] - 4)..(fr[1] + 4) : (p \in Band(pr.num, pr.den)) <=> (Abs(p * d - n * One) <= 2 * d)

MulOK(pr) == MulRound16(pr.a, pr.b) = (pr.a * pr.b + Half) \div One

RECURSIVE SlowMul(_, _)
SlowMul(v, k) ==           \* v * k as a pair by double-and-add
    IF k = 0 THEN <<0, 0>>
    ELSE LET h == SlowMul(v, k \div 2)  d == PFAdd(h, h) IN IF k % 2 = 1 THEN PFAdd(d, PF(0, v)) ELSE d

PfMulOK(pr) ==
    FarMulOK(pr.v, pr.k) =>
        LET a == MPFMulNat(pr.v, pr.k)  b == SlowMul(pr.v, pr.k) IN
        /\ a = b /\ a[2] \in 0..(One - 1)
        /\ PFMulInt(pr.v, -pr.k) = PFNeg(b)
        /\ PFAdd(PFMulInt(pr.v, -pr.k), b) = <<0, 0>>

PfHalfOK(pr) ==
    LET v == pr.h * One + pr.lo  r == PFHalf(<<pr.h, pr.lo>>) IN r = <<(v \div 2) \div One, (v \div 2) % One>>

PfPosOK(pr) ==
    /\ FarRegular(pr.m, pr.x, pr.y)
    /\ \A r \in 1..2 : LET a == AffinePos(pr.m, r, pr.x, pr.y) IN PosPF(pr.m, r, pr.x, pr.y) = <<a \div One, a % One>>

FarCaseOK(pr) ==
    LET c == pr.c IN
    /\ \A r \in 1..2 : FarMulOK(c.m[r][1], 2 * c.x + 1) /\ FarMulOK(c.m[r][2], 2 * c.y + 1)
    /\ PosPF(c.m, 1, c.x, c.y) = c.p /\ PosPF(c.m, 2, c.x, c.y) = c.q
    /\ FarRegular(c.m, c.x, c.y) <=> (Abs(c.p[1]) <= FarMax /\ Abs(c.q[1]) <= FarMax)

FarOffOK(pr) ==
    SampleAt(At(pr.img, pr.ox, pr.oy), pr.flt, pr.mode, pr.p, pr.q) =
        SampleAt(pr.img, pr.flt, pr.mode, pr.p + pr.ox * One, pr.q + pr.oy * One)

ShowsOK(pr) ==
    LET o == <<pr.hi, pr.lo>>  v == Expand("a8r8g8b8", o) IN
    /\ Shows("a8r8g8b8", o, v) /\ Shows("x8r8g8b8", o, v) /\ Shows("x8r8g8b8", <<(pr.hi + 256) % One, pr.lo>>, v)
    /\ (v[2] # 255 => ~Shows("x8r8g8b8", <<pr.hi + 1, pr.lo>>, v))
    /\ Shows("r5g6b5", <<0, pr.lo>>, Expand("r5g6b5", <<0, pr.lo>>))
    /\ Shows("r5g6b5", <<0, ((pr.hi % 256) \div 8) * 2048 + ((pr.lo \div 256) \div 4) * 32 + (pr.lo % 256) \div 8>>, v)

ProbeOK ==
    CASE probe.kind = "repeat" -> RepeatOK(probe)
      [] probe.kind = "weight" -> WeightOK(probe)
      [] probe.kind = "half"   -> HalfOK(probe)
      [] probe.kind = "round"  -> RoundOK(probe)
      [] probe.kind = "kernel" -> KernelOK(probe)
      [] probe.kind = "onehot" -> OneHotOK(probe)
      [] probe.kind = "affine" -> AffineOK(probe)
      [] probe.kind = "quot"   -> QuotOK(probe)
      [] probe.kind = "mul"    -> MulOK(probe)
      [] probe.kind = "pfmul"  -> PfMulOK(probe)
      [] probe.kind = "pfhalf" -> PfHalfOK(probe)
      [] probe.kind = "pfpos"  -> PfPosOK(probe)
      [] probe.kind = "farcase" -> FarCaseOK(probe)
      [] probe.kind = "faroff" -> FarOffOK(probe)
      [] probe.kind = "shows"  -> ShowsOK(probe)
      [] OTHER -> TRUE

(* ---------------------------------------------------------------------------------------- *)
(* the state machine                                                                        *)

Requests == {<<x0, y0, n, rows>> : x0 \in {-2, 0, 1}, y0 \in {-1, 0}, n \in {3}, rows \in {1, 2}}

MCInit == Init /\ probe = [kind |-> "run", fresh |-> FALSE]

\* fresh: `out` was fetched under the present configuration (the setters leave `out`, the destination, alone)
Run ==
    /\ probe.kind = "run"
    /\ \/ /\ probe' = [kind |-> "run", fresh |-> FALSE]
          /\ \/ \E img \in Imgs : SetImage(img)
             \/ \E m \in Mats(image.w) : SetTransform(m)
             \/ \E f \in Filters : SetFilter(f.f, f.params)
             \/ \E r \in Modes : SetRepeat(r)
       \/ /\ probe' = [kind |-> "run", fresh |-> TRUE]
          /\ \E rq \in Requests :
              Fetch(rq[1], rq[2], rq[3], rq[4], RefRows(image, transform, filter, repeat, rq[1], rq[2], rq[3], rq[4]))

Probe == probe.kind = "run" /\ out = <<>> /\ image.w = 1 /\ transform = Identity /\ filter.f = "nearest" /\ repeat = "none"
         /\ probe' \in ProbeSet /\ UNCHANGED svars

MCNext == Run \/ Probe
MCSpec == MCInit /\ [][MCNext]_<<svars, probe>>

Fetched == probe.kind = "run" /\ probe.fresh

\* identity and whole-pixel translations copy pixels (bilinear at pixel centres included)
CopyOK ==
    (Fetched /\ filter.f \in {"nearest", "bilinear"} /\ IsAffine(transform)
       /\ transform[1][1] = One /\ transform[1][2] = 0 /\ transform[2][1] = 0 /\ transform[2][2] = One
       /\ transform[1][3] % One = 0 /\ transform[2][3] % One = 0) =>
    \A j \in 1..out.rows, i \in 1..out.n :
        out.px[j][i] = PixelAt(image, repeat, out.x0 + i - 1 + transform[1][3] \div One, out.y0 + j - 1 + transform[2][3] \div One)

\* a horizontal flip about the image mirrors the row
FlipOK ==
    (Fetched /\ filter.f \in {"nearest", "bilinear"} /\ transform = FlipX(image.w)) =>
    \A j \in 1..out.rows, i \in 1..out.n :
        out.px[j][i] = PixelAt(image, repeat, image.w - 1 - (out.x0 + i - 1), out.y0 + j - 1)

\* multiplying the whole matrix by k leaves the mapping unchanged: the affine reference is admissible
HomogeneousOK ==
    Fetched => \A k \in {2, 3, -1, -2} :
        Admissible(image, ScaleAll(transform, k), filter, repeat, out.x0, out.y0, out.n, out.rows, out.px)

\* the affine reference is what the action admits, and is the only thing it admits per pixel
RefOK ==
    Fetched => /\ Admissible(image, transform, filter, repeat, out.x0, out.y0, out.n, out.rows, out.px)
               /\ out.px = RefRows(image, transform, filter, repeat, out.x0, out.y0, out.n, out.rows)

\* the narrow (8-bit) reference is within what the wide (floating point) evaluation admits
WideConsistentOK ==
    Fetched => \A j \in 1..out.rows, i \in 1..out.n :
        WideChannelsOK(WideInterval(image, filter, repeat, AffinePos(transform, 1, out.x0 + i - 1, out.y0 + j - 1),
                                    AffinePos(transform, 2, out.x0 + i - 1, out.y0 + j - 1)),
                       out.px[j][i], <<255, 255, 255, 255>>)

\* channels stay in range
RangeOK == Fetched => \A j \in 1..out.rows, i \in 1..out.n, c \in 1..4 : out.px[j][i][c] \in 0..255

\* a stale `out` (fetched under an earlier configuration) takes no part in any invariant: states that differ
\* only in it are identified
MCView == <<image, transform, filter, repeat, probe, IF Fetched THEN out ELSE <<>> >>
=============================================================================
