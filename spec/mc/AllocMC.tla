------------------------------ MODULE AllocMC ------------------------------
(* Design-level model of pixman's allocation protocols under every fault schedule.       *)
(* Objects of a small pool are built and modified by abstract "programs" that mirror the *)
(* shapes found in the code:                                                             *)
(*   ctor2     all-or-nothing constructor with two allocations (pixman_image_create_bits: *)
(*             image struct, then pixel buffer; create_*_gradient: struct, stops)         *)
(*   setbuf    setter that owns one buffer (set_transform, set_filter): allocate the new  *)
(*             buffer first, on refusal report FALSE and keep the old one, else free old  *)
(*   grow      region operation that must grow its rectangle array: on refusal free the   *)
(*             array, leave the designated broken value, report FALSE                     *)
(*   drawtmp   void drawing call with a temporary (scanline buffer, trapezoid mask):      *)
(*             on refusal skip the work; the temporary is released before returning       *)
(*   destroy   releases everything the object owns                                        *)
(* The fault schedule (FailAt, Persistent) refuses the FailAt-th allocation request, once *)
(* or from then on.  TLC explores every program sequence of bounded length under every   *)
(* schedule and checks the obligations of Alloc plus: live = what alive objects own;     *)
(* broken is absorbing until the object is reset or destroyed.                            *)
EXTENDS Alloc

CONSTANTS Objs, MaxAllocs, Mutant

VARIABLES owned,     \* Obj -> set of addresses owned (empty when not alive)
          alive,     \* Obj -> BOOLEAN
          broken,    \* Obj -> BOOLEAN (region-like objects)
          requests,  \* allocation requests seen so far
          failAt, persistent,
          pc,        \* program in progress: <<name, obj, step>> or <<>>
          endok      \* did the last End meet the obligations of Alloc!EndOK ?

vars == <<live, call, made, failed, owned, alive, broken, requests, failAt, persistent, pc, endok>>

Addr == 1..MaxAllocs
Fresh == CHOOSE a \in Addr : a \notin live     \* the allocator's choice is immaterial

Refuse == (requests + 1 = failAt) \/ (persistent /\ requests + 1 > failAt)

Init == /\ AllocInit
        /\ owned = [o \in Objs |-> {}] /\ alive = [o \in Objs |-> FALSE] /\ broken = [o \in Objs |-> FALSE]
        /\ requests = 0 /\ failAt \in 1..4 \cup {99} /\ persistent \in BOOLEAN /\ pc = <<>> /\ endok = TRUE

\* one allocation request inside the current call: either a fresh address or a refusal
Request(onOk(_), onFail) ==
    /\ requests' = requests + 1
    /\ IF Refuse THEN MallocRefused /\ onFail
       ELSE MallocOk(Fresh) /\ onOk(Fresh)

Start(name, o) == /\ pc = <<>> /\ Cardinality(live) + 2 <= MaxAllocs
                  /\ Begin(name) /\ pc' = <<name, o, 1>>
                  /\ UNCHANGED <<owned, alive, broken, requests, failAt, persistent>>

Finish(kind, ret) == EndRaw /\ endok' = EndOK(kind, ret) /\ pc' = <<>>

Ctor2 ==
    \/ \E o \in Objs : ~alive[o] /\ Start("ctor2", o)
    \/ /\ pc # <<>> /\ pc[1] = "ctor2"
       /\ LET o == pc[2] IN
          CASE pc[3] = 1 ->         \* first allocation
                 /\ requests' = requests + 1
                 /\ IF Refuse THEN MallocRefused /\ pc' = <<"ctor2", o, 9>> /\ UNCHANGED owned
                    ELSE MallocOk(Fresh) /\ owned' = [owned EXCEPT ![o] = {Fresh}] /\ pc' = <<"ctor2", o, 2>>
                 /\ UNCHANGED <<alive, broken, failAt, persistent>>
            [] pc[3] = 2 ->         \* second allocation
                 /\ requests' = requests + 1
                 /\ IF Refuse THEN MallocRefused /\ pc' = <<"ctor2", o, 3>> /\ UNCHANGED owned
                    ELSE MallocOk(Fresh) /\ owned' = [owned EXCEPT ![o] = @ \cup {Fresh}] /\ pc' = <<"ctor2", o, 8>>
                 /\ UNCHANGED <<alive, broken, failAt, persistent>>
            [] pc[3] = 3 ->         \* second refused: release the first (mutant "leak_first" forgets)
                 /\ IF Mutant = "leak_first"
                    THEN UNCHANGED allocVars /\ UNCHANGED owned
                    ELSE \E a \in owned[o] : FreeOk(a) /\ owned' = [owned EXCEPT ![o] = {}]
                 /\ pc' = <<"ctor2", o, 9>>
                 /\ UNCHANGED <<alive, broken, requests, failAt, persistent>>
            [] pc[3] = 8 -> /\ Finish("ctor", "object") /\ alive' = [alive EXCEPT ![o] = TRUE]
                            /\ UNCHANGED <<owned, broken, requests, failAt, persistent>>
            [] pc[3] = 9 -> /\ Finish("ctor", "null")
                            /\ owned' = [owned EXCEPT ![o] = IF Mutant = "leak_first" THEN {} ELSE @]
                            /\ UNCHANGED <<alive, broken, requests, failAt, persistent>>

SetBuf ==
    \/ \E o \in Objs : alive[o] /\ Start("setbuf", o)
    \/ /\ pc # <<>> /\ pc[1] = "setbuf"
       /\ LET o == pc[2] IN
          CASE pc[3] = 1 ->
                 /\ requests' = requests + 1
                 /\ IF Refuse THEN MallocRefused /\ pc' = <<"setbuf", o, 9>> /\ UNCHANGED owned
                    ELSE MallocOk(Fresh) /\ owned' = [owned EXCEPT ![o] = @ \cup {Fresh}] /\ pc' = <<"setbuf", o, 8>>
                 /\ UNCHANGED <<alive, broken, failAt, persistent>>
            [] pc[3] = 8 -> /\ Finish("status", "true") /\ UNCHANGED <<owned, alive, broken, requests, failAt, persistent>>
            [] pc[3] = 9 -> /\ Finish("status", "false") /\ UNCHANGED <<owned, alive, broken, requests, failAt, persistent>>

Grow ==
    \/ \E o \in Objs : alive[o] /\ Start("grow", o)
    \/ /\ pc # <<>> /\ pc[1] = "grow"
       /\ LET o == pc[2] IN
          CASE pc[3] = 1 ->
                 IF broken[o]       \* a broken operand propagates: no allocation is attempted
                 THEN /\ pc' = <<"grow", o, 9>> /\ UNCHANGED allocVars
                      /\ UNCHANGED <<owned, alive, broken, requests, failAt, persistent>>
                 ELSE /\ requests' = requests + 1
                      /\ IF Refuse
                         THEN /\ MallocRefused /\ pc' = <<"grow", o, 2>> /\ UNCHANGED owned
                         ELSE /\ MallocOk(Fresh) /\ owned' = [owned EXCEPT ![o] = @ \cup {Fresh}]
                              /\ pc' = <<"grow", o, 8>>
                      /\ UNCHANGED <<alive, broken, failAt, persistent>>
            [] pc[3] = 2 ->         \* pixman_break: the broken value is static storage, nothing is owned for it
                 /\ broken' = [broken EXCEPT ![o] = (Mutant # "no_break")]
                 /\ pc' = <<"grow", o, 9>> /\ UNCHANGED allocVars
                 /\ UNCHANGED <<owned, alive, requests, failAt, persistent>>
            [] pc[3] = 8 -> /\ Finish("status", "true") /\ UNCHANGED <<owned, alive, broken, requests, failAt, persistent>>
            [] pc[3] = 9 -> /\ Finish("status", "false") /\ UNCHANGED <<owned, alive, broken, requests, failAt, persistent>>

DrawTmp ==
    \/ \E o \in Objs : alive[o] /\ Start("drawtmp", o)
    \/ /\ pc # <<>> /\ pc[1] = "drawtmp"
       /\ LET o == pc[2] IN
          CASE pc[3] = 1 ->
                 /\ requests' = requests + 1
                 /\ IF Refuse THEN MallocRefused /\ pc' = <<"drawtmp", o, 9>>
                    ELSE MallocOk(Fresh) /\ pc' = <<"drawtmp", o, 2>>
                 /\ UNCHANGED <<owned, alive, broken, failAt, persistent>>
            [] pc[3] = 2 -> /\ \E a \in made : FreeOk(a)
                            /\ pc' = <<"drawtmp", o, 9>>
                            /\ UNCHANGED <<owned, alive, broken, requests, failAt, persistent>>
            [] pc[3] = 9 -> /\ Finish("void", "void") /\ UNCHANGED <<owned, alive, broken, requests, failAt, persistent>>

Destroy ==
    \/ \E o \in Objs : alive[o] /\ Start("destroy", o)
    \/ /\ pc # <<>> /\ pc[1] = "destroy"
       /\ LET o == pc[2] IN
          IF owned[o] # {}
          THEN /\ \E a \in owned[o] : FreeOk(a) /\ owned' = [owned EXCEPT ![o] = @ \ {a}]
               /\ UNCHANGED <<alive, broken, requests, failAt, persistent, pc>>
          ELSE /\ Finish("void", "void") /\ alive' = [alive EXCEPT ![o] = FALSE]
               /\ broken' = [broken EXCEPT ![o] = FALSE]
               /\ UNCHANGED <<owned, requests, failAt, persistent>>

Step == Ctor2 \/ SetBuf \/ Grow \/ DrawTmp \/ Destroy
Next == Step /\ (pc' # <<>> \/ pc = <<>> => UNCHANGED endok)
Spec == Init /\ [][Next]_vars

\* ------------------------------------------------------------------ properties
LiveIsOwned == (pc = <<>>) => live = UNION {owned[o] : o \in Objs}
DeadOwnNothing == \A o \in Objs : (pc = <<>> /\ ~alive[o]) => owned[o] = {}
\* a failed grow leaves the object broken: checked as an action property below
BrokenReported ==
    [][ (pc # <<>> /\ pc[1] = "grow" /\ pc[3] = 9 /\ pc' = <<>> /\ failed > 0) => broken'[pc[2]] ]_vars
EndObligations == endok
Bound == requests <= 7
=============================================================================
