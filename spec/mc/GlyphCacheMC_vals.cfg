SPECIFICATION MCSpec
CONSTANTS
  Keys <- MCKeys
  Vals <- MCVals
  Hash <- MCHash
  NoVal = 0
  H = 8
  HIGH = 4
  LOW = 2
  NK = 4
  Classes <- Cls60
  NV = 2
  MaxFreeze = 2
  WithUse = TRUE
  CapRule = "free"
  Mutant = "none"
INVARIANTS TypeOK CountsMatch NoDuplicate Reachable NullExists ProbesTerminate NoHang MruMatches ValMatches WaterMarks NotStuck AbsInv
PROPERTY AbsSpec
