SPECIFICATION MCSpec
CONSTANTS
  Depths = {1, 4, 8, 16, 24, 32}
  GUARD = 3
  STRIDE = 8
  ROWS = 2
  Mutant = "none"
INVARIANTS FillCorrect BltCorrect SourceUntouched
