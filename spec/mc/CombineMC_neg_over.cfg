SPECIFICATION MCSpec
CONSTANT FbKind <- BadFbKind
INVARIANTS Algebra
