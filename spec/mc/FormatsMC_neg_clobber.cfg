SPECIFICATION MCSpec
CONSTANTS
  Codes <- NegCodes
  Mutant = "clobber"
INVARIANTS RoundTrip8 Canonical8 FloatRoute WidthLemmas IndexRoundTrip FrameLaw RowFrameLaw
