SPECIFICATION MCSpec
CONSTANTS
  Codes <- AllCodes
  Mutant = "clobber"
INVARIANTS RoundTrip8 Canonical8 FloatRoute WidthLemmas IndexRoundTrip FrameLaw RowFrameLaw
