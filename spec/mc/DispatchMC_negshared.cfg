SPECIFICATION Spec
CONSTANTS
  CacheSize = 2
  Threads = {"t1", "t2"}
  Shared = TRUE
  LooseKey = FALSE
  FewKeys = TRUE
INVARIANTS Transparent Served CacheTruthful
