SPECIFICATION MCSpec
CONSTANT MulUp <- BadMulUp
INVARIANTS MulLemma
