SPECIFICATION MCSpec
CONSTANTS
  FB = 3
  WB = 7
  Mutant = "recipwrap"
  Wide = FALSE
  Only = {"scale", "translate"}
  LimbBits <- MCLimbBits
INVARIANTS Sound DevOK Tight
