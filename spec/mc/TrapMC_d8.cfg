SPECIFICATION MCSpec
CONSTANTS
  Fixed1 = 31
  Ds = {8}
  YTs = {0, 1, 2, 16, 29}
  DYs = {1, 2, 3, 5, 7, 8, 16, 31, 33}
  DXMags = {0, 1, 2, 3, 5, 8, 16, 31, 40, 62}
  Above = 6
  Below = 4
  JumpMags = {31}
  QStale = FALSE
  QExact0 = FALSE
  QBackstep = FALSE
INVARIANTS Bounds Residual WalkerMeaning PathIndependent SmallIsStep
