------------------------------ MODULE GlyphCacheMC ------------------------------
(* Small-scope model check of GlyphCache.tla (C17): invariants of the open-addressing    *)
(* table, termination of every probe, and the refinement Spec => GlyphMap!ASpec.          *)
(* Negative configurations (TLC must reject each):                                        *)
(*   CapRule = "glyphs"        pixman 0.40.1's capacity test: the last NULL slot is lost, *)
(*                             a lookup of an absent key then never terminates (finding)  *)
(*   Mutant = "remove_null"    remove stores NULL instead of a tombstone                  *)
(*   Mutant = "sweep_always"   tombstone elimination without looking at the next slot     *)
(*   Mutant = "thaw_head"      thaw evicts the most recently used glyphs                  *)
(*   Mutant = "thaw_nested"    eviction at every thaw, not only the outermost             *)
EXTENDS GlyphCache, TLC

CONSTANTS NK,            \* keys 1..NK
          Classes,       \* sequence of hash values; key k hashes to Classes[((k-1) % Len(Classes)) + 1]
          NV,            \* entry contents 1..NV
          MaxFreeze,     \* bound on freeze nesting
          WithUse,       \* FALSE: no Use action (mru = insertion order), to reach table-filling depths
          Mutant

Cls60   == <<6, 0>>            \* two classes, the run of the first wraps into the second
Cls07   == <<0, 7>>
Cls012  == <<0, 1, 2>>
Cls0    == <<0>>
Cls31   == <<3, 1>>
Cls40   == <<4, 0>>
MCKeys  == 1..NK
MCVals  == 1..NV
MCHash  == [k \in MCKeys |-> Classes[((k - 1) % Len(Classes)) + 1]]

(* ---- mutants of remove_glyph / thaw ---- *)
MRemoveKey(T, k) ==
    LET i == FindIdx(T.s, k) IN
    IF i = HANG THEN [T EXCEPT !.hang = TRUE]
    ELSE IF Mutant = "remove_null"
    THEN [s |-> [T.s EXCEPT ![i] = NULLV], ng |-> T.ng - 1, nt |-> T.nt,
          mru |-> Without(T.mru, k), val |-> [T.val EXCEPT ![k] = NoVal], hang |-> FALSE]
    ELSE LET s1 == [T.s EXCEPT ![i] = TOMB]
             sw == IF Mutant = "sweep_always" \/ s1[Nxt(i)] = NULLV
                   THEN SweepBack(s1, i, 0) ELSE [s |-> s1, c |-> 0]
         IN  IF sw.c < 0 THEN [T EXCEPT !.hang = TRUE]
             ELSE [s |-> sw.s, ng |-> T.ng - 1, nt |-> T.nt + 1 - sw.c,
                   mru |-> Without(T.mru, k), val |-> [T.val EXCEPT ![k] = NoVal], hang |-> FALSE]

RECURSIVE MEvictLoop(_)
MEvictLoop(T) ==
    IF T.hang \/ T.ng <= LOW THEN T
    ELSE IF T.mru = <<>> THEN [T EXCEPT !.hang = TRUE]
    ELSE MEvictLoop(MRemoveKey(T, IF Mutant = "thaw_head" THEN T.mru[1] ELSE T.mru[Len(T.mru)]))

MThawResult(T) ==
    IF T.ng + T.nt > HIGH THEN MEvictLoop(IF T.nt > HIGH THEN Cleared ELSE T) ELSE T

MThaw == /\ freeze > 0
         /\ freeze' = freeze - 1
         /\ IF freeze = 1 \/ Mutant = "thaw_nested"
            THEN LET T == MThawResult(Cur) IN
                 /\ Adopt(T)
                 /\ ret' = IF T.hang THEN Hung ELSE Void
            ELSE /\ UNCHANGED <<slot, ng, nt, mru, val>>
                 /\ ret' = Void

MRemove(k) ==
    /\ LET i == LookupIdx(slot, k) IN
       IF i = HANG THEN /\ ret' = Hung
                        /\ UNCHANGED <<slot, ng, nt, mru, val>>
       ELSE IF i = MISS THEN /\ ret' = Void
                             /\ UNCHANGED <<slot, ng, nt, mru, val>>
       ELSE LET T == MRemoveKey(Cur, k) IN
            /\ Adopt(T)
            /\ ret' = IF T.hang THEN Hung ELSE Void
    /\ UNCHANGED freeze

MCNext ==
    \/ freeze < MaxFreeze /\ Freeze
    \/ IF Mutant = "none" THEN Thaw ELSE MThaw
    \/ \E k \in Keys : \/ \E v \in Vals : Insert(k, v)
                       \/ Lookup(k)
                       \/ IF Mutant = "none" THEN Remove(k) ELSE MRemove(k)
                       \/ WithUse /\ Use(k)

MCSpec == Init /\ [][MCNext]_vars

(* ret only records the last result; two states that differ in nothing else behave alike.  It *)
(* must stay in the view for the refinement property, so no VIEW is used.                    *)
=============================================================================
