SPECIFICATION MCSpec
CONSTANTS
  Fix = 1
  Mutant = "pf_nocarry"
INVARIANTS ProbeOK CopyOK FlipOK HomogeneousOK RefOK RangeOK WideConsistentOK
VIEW MCView
