------------------------------ MODULE ThreadsMC ------------------------------
(* C16 at the design level: every interleaving of a few workers that composite from one SHARED source and from  *)
(* private sources into private destinations, at the grain of the single reads and writes of the code path      *)
(*   pixman_image_composite32: choose implementation, _pixman_image_validate (src), validate (dest), fast-path   *)
(*   cache lookup, fetch/combine/store.                                                                          *)
(* Under the discipline of the statement (shared sources used once before they are shared, destinations and      *)
(* everything a worker modifies private, cache per thread, implementation chosen before the threads exist) there *)
(* is no data race (Threads!RaceFree on the access log) and every request sees fully derived image state, i.e.   *)
(* gives the result of a solo run.  Each negative configuration removes one leg and TLC must find the race:      *)
(*   FirstUse = FALSE     shared source validated lazily by whichever worker comes first                         *)
(*   SharedCache = TRUE   one fast-path cache for all threads                                                    *)
(*   WorkerRefs = TRUE    the composite takes/drops a reference on its source                                    *)
(*   LazyImp = TRUE       the implementation chain is chosen at the first request instead of at load time        *)
EXTENDS Threads

CONSTANTS Workers, NReq, FirstUse, SharedCache, WorkerRefs, LazyImp

VARIABLES pc,       \* worker -> program counter
          req,      \* worker -> number of the request in progress (1..NReq), NReq + 1 when done
          dirty,    \* image -> BOOLEAN
          derived,  \* image -> "stale" | "partial" | "ok"
          imp,      \* "unset" | "chosen"
          acc,      \* access log of the phase in which the workers are alive
          snap,     \* worker -> did the lookup of the request in progress see fully derived state
          result    \* worker -> sequence of "good" / "bad", one per finished request

vars == <<pc, req, dirty, derived, imp, acc, snap, result>>

S == <<"S", 0>>                                \* the shared source
P(t) == <<"P", t>>                        \* private source of worker t
D(t) == <<"D", t>>                        \* private destination of worker t
ImpCell == <<"imp", <<"G", 0>>>>
Images == {S} \cup {P(t) : t \in Workers} \cup {D(t) : t \in Workers}

(* odd requests draw from the shared source, even ones from the private source *)
Src(t) == IF req[t] % 2 = 1 THEN S ELSE P(t)
CacheOf(t) == IF SharedCache THEN <<"T", 0>> ELSE <<"T", t>>

Init ==
    /\ pc = [t \in Workers |-> "imp"]
    /\ req = [t \in Workers |-> 1]
    (* main thread, before the workers exist: images created (dirty), the shared one used once if FirstUse *)
    /\ dirty = [i \in Images |-> IF i = S THEN ~FirstUse ELSE TRUE]
    /\ derived = [i \in Images |-> IF i = S /\ FirstUse THEN "ok" ELSE "stale"]
    /\ imp = IF LazyImp THEN "unset" ELSE "chosen"
    /\ acc = NoAccess
    /\ snap = [t \in Workers |-> TRUE]
    /\ result = [t \in Workers |-> <<>>]

Goto(t, p) == pc' = [pc EXCEPT ![t] = p]

(* read the global implementation pointer; choose it if nobody has yet (LazyImp only) *)
ChooseImp(t) ==
    /\ pc[t] = "imp" /\ req[t] <= NReq
    /\ IF imp = "unset"
       THEN imp' = "chosen" /\ acc' = LogWrite(LogRead(acc, t, ImpCell), t, ImpCell)
       ELSE UNCHANGED imp /\ acc' = LogRead(acc, t, ImpCell)
    /\ Goto(t, "vs1")
    /\ UNCHANGED <<req, dirty, derived, snap, result>>

(* _pixman_image_validate (src), one memory access per step when the source is the shared one *)
VS1(t) ==
    /\ pc[t] = "vs1"
    /\ acc' = LogRead(acc, t, <<"dirty", Src(t)>>)
    /\ Goto(t, IF dirty[Src(t)] THEN "vs2" ELSE "vd")
    /\ UNCHANGED <<req, dirty, derived, imp, snap, result>>
VS2(t) ==      \* compute_image_info starts rewriting flags
    /\ pc[t] = "vs2"
    /\ derived' = [derived EXCEPT ![Src(t)] = "partial"]
    /\ acc' = LogWrite(acc, t, <<"derived", Src(t)>>)
    /\ Goto(t, "vs3")
    /\ UNCHANGED <<req, dirty, imp, snap, result>>
VS3(t) ==      \* ... and finishes (property_changed has run)
    /\ pc[t] = "vs3"
    /\ derived' = [derived EXCEPT ![Src(t)] = "ok"]
    /\ acc' = LogWrite(acc, t, <<"derived", Src(t)>>)
    /\ Goto(t, "vs4")
    /\ UNCHANGED <<req, dirty, imp, snap, result>>
VS4(t) ==
    /\ pc[t] = "vs4"
    /\ dirty' = [dirty EXCEPT ![Src(t)] = FALSE]
    /\ acc' = LogWrite(acc, t, <<"dirty", Src(t)>>)
    /\ Goto(t, "vd")
    /\ UNCHANGED <<req, derived, imp, snap, result>>

(* validate (dest): the destination is private, one step *)
VD(t) ==
    /\ pc[t] = "vd"
    /\ acc' = LogValidate(acc, t, D(t), dirty[D(t)])
    /\ dirty' = [dirty EXCEPT ![D(t)] = FALSE]
    /\ derived' = [derived EXCEPT ![D(t)] = "ok"]
    /\ Goto(t, "look")
    /\ UNCHANGED <<req, imp, snap, result>>

(* flags of both images are read, the cache is searched and rewritten *)
Look(t) ==
    /\ pc[t] = "look"
    /\ snap' = [snap EXCEPT ![t] = derived[Src(t)] = "ok" /\ derived[D(t)] = "ok"]
    /\ LET a1 == LogRead(LogRead(acc, t, <<"derived", Src(t)>>), t, <<"derived", D(t)>>)
           a2 == LogLookup(a1, t, CacheOf(t))
       IN  acc' = IF WorkerRefs THEN LogRef(a2, t, Src(t)) ELSE a2
    /\ Goto(t, "draw")
    /\ UNCHANGED <<req, dirty, derived, imp, result>>

(* fetch from the source, store into the destination; then a setter on the private source (dirties it) *)
Draw(t) ==
    /\ pc[t] = "draw"
    /\ acc' = LogWrite(LogWrite(LogWrite(LogRead(LogRead(acc, t, <<"pixels", Src(t)>>), t, <<"derived", Src(t)>>),
                                          t, <<"pixels", D(t)>>), t, <<"props", P(t)>>), t, <<"dirty", P(t)>>)
    /\ result' = [result EXCEPT ![t] = Append(@, IF snap[t] /\ derived[Src(t)] = "ok" THEN "good" ELSE "bad")]
    /\ dirty' = [dirty EXCEPT ![P(t)] = TRUE]
    /\ derived' = [derived EXCEPT ![P(t)] = "stale"]
    /\ req' = [req EXCEPT ![t] = @ + 1]
    /\ Goto(t, "imp")
    /\ UNCHANGED <<imp, snap>>

Step(t) == ChooseImp(t) \/ VS1(t) \/ VS2(t) \/ VS3(t) \/ VS4(t) \/ VD(t) \/ Look(t) \/ Draw(t)
Next == \E t \in Workers : Step(t)
Spec == Init /\ [][Next]_vars

NoRace == RaceFree(acc)
Deterministic == \A t \in Workers : \A k \in DOMAIN result[t] : result[t][k] = "good"
(* not vacuous: some behaviour finishes every request, and shared and private sources are both drawn from *)
AllDone == \A t \in Workers : req[t] = NReq + 1
NotAllDone == ~AllDone
=============================================================================
