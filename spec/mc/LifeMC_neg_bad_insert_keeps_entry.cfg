SPECIFICATION MCSpec
CONSTANTS
  Img = {i1, i2, i3}
  GKeys = {1}
  MaxHeld = 2
  Bugs = {"bad_insert_keeps_entry"}
  KindsMC = {1, 2, 4}
  DataMC = {0, 1}
  Depth = 7
CONSTRAINT DepthBound
VIEW MCView
SYMMETRY Perms
INVARIANTS InvNoMemoryError InvRefsAccounted InvAliveIffRefs InvAttachedAlive InvNoChains InvOwnedShape
           InvNothingLeftBehind InvOutput
