SPECIFICATION Spec
CONSTANT Mutant = "clip_moves"
CONSTANT MaxDepth = 1
INVARIANT TranslateIsOffset
