SPECIFICATION Spec
CONSTANT Mutant = "none"
CONSTANT MaxDepth = 3
INVARIANT Frame
INVARIANT FillIsComp
INVARIANT ShortcutSound
INVARIANT SolidIsTile
INVARIANT OpaqueFormat
INVARIANT TranslateIsOffset
INVARIANT RefsPositive
INVARIANT UnaffectedByHistory
