SPECIFICATION Spec
CONSTANTS
  One = 16
  MaxW = 4
  MaxX = 4
  Half = 128
  MaxBigW = 20
  Mutant = "none"
INVARIANTS FlagSound CornersSuffice SplitExact SplitTotal WidthSound
