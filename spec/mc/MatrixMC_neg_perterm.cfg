SPECIFICATION MCSpec
CONSTANTS
  FB = 3
  WB = 7
  Mutant = "perterm"
  Wide = FALSE
  LimbBits <- MCLimbBits
INVARIANTS Sound DevOK Tight
