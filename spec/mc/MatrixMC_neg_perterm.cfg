SPECIFICATION MCSpec
CONSTANTS
  FB = 3
  WB = 7
  Mutant = "perterm"
  Wide = FALSE
  Only = {"multiply"}
  LimbBits <- MCLimbBits
INVARIANTS Sound DevOK Tight
