SPECIFICATION Spec
CONSTANTS
  CacheSize = 2
  Threads = {"t1"}
  Shared = FALSE
  LooseKey = TRUE
  FewKeys = FALSE
INVARIANTS Transparent Served CacheTruthful
