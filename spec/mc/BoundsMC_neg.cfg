SPECIFICATION Spec
CONSTANTS
  One = 16
  MaxW = 4
  MaxX = 4
  Mutant = "le_width"
INVARIANTS FlagSound CornersSuffice
