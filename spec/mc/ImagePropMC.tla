----------------------------- MODULE ImagePropMC -----------------------------
(* Exhaustive small-scope check of the property part of Image.tla (C14): for every image type, every     *)
(* sequence of up to Depth setter calls and renders (validate) leaves the image in a state in which a      *)
(* rendering depends on the final properties only: stored = what was asked for, and the derived state     *)
(* is either marked dirty or equal to what a fresh image would derive.  Negative configurations switch    *)
(* off one image_property_changed call, weaken one early-return guard, or break validate.                 *)
EXTENDS Image

CONSTANTS Depth, Types

VARIABLES P, last

MCInit == P \in {PropInit(t) : t \in Types} /\ last = Call("init", 0, "", 0)

(* of the compound values: the base value, the variants differing in the first / in the last field, coinciding values *)
MCVals(n) == CASE n = "t" -> {0, 1, 2, 3, 11, 15, 19, 21} [] n = "f" -> {0, 1, 2, 3, 4, 6, 7, 8, 11, 12, 14, 16}
               [] n = "c" -> {0, 1, 2, 3, 5, 7, 8, 9, 15} [] n = "ao" -> {0, 1, 3, 4} [] n = "dof" -> {0, 1, 3, 4} [] OTHER -> 0..5
MCCalls == {c \in PropCalls(P) : c.op = "set" => c.v \in MCVals(c.j)}

MCNext == \E c \in MCCalls : P' \in PropStep(P, c) /\ last' = c

MCSpec == MCInit /\ [][MCNext]_<<P, last>>

MCView == P
DepthBound == TLCGet("level") <= Depth

InvFaithful == Faithful(P)
InvRefreshed == Refreshed(P)
InvHistoryIndependent == HistoryIndependent(P)
=============================================================================
