SPECIFICATION Spec
CONSTANTS
  CacheSize = 2
  Threads = {"t1", "t2"}
  Shared = FALSE
  LooseKey = FALSE
  FewKeys = TRUE
INVARIANTS Transparent Served CacheTruthful
