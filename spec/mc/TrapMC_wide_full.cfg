SPECIFICATION MCSpec
CONSTANTS
  WideBase <- SmallBase
  Fixed1 = 16
  Ds = {1, 4}
  YTs = {0, 3, 8, 13}
  DYs = {1, 2, 3, 5, 7, 12, 16, 17, 24}
  DXMags = {0, 1, 2, 3, 5, 7, 12, 16, 17, 24, 33, 48}
  Above = 20
  Below = 8
  JumpMags = {16, 32}
  QStale = FALSE
  QExact0 = FALSE
  QBackstep = FALSE
INVARIANTS WideAgrees
