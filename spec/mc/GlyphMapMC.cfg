SPECIFICATION MSpec
CONSTANTS
  AKeys <- MKeys
  AVals <- MVals
  HIGH = 3
  CAP = 5
  NK = 4
  NV = 2
  MaxFreeze = 2
  Mutant = "none"
INVARIANTS TypeOK ALruIsLive AFreeExists
PROPERTY LookupFaithful
