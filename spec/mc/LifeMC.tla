------------------------------- MODULE LifeMC -------------------------------
(* Exhaustive small-scope check of the lifetime part of Image.tla (C20): every sequence of    *)
(* create / ref / unref / set_alpha_map / set_transform / set_filter / set_clip_region /      *)
(* set_destroy_function / use / glyph insert+remove over the pool keeps the invariants the     *)
(* statement names.  `last` is the call that produced the current state (its output is part   *)
(* of the state record).  Negative configurations set Bugs to one wrong design decision.      *)
EXTENDS Image

CONSTANTS KindsMC      \* the image types explored (indices into KindName)

VARIABLES life, last

MCInit == life = LifeInit /\ last = Call("init", 0, 0, 0)

MCCalls(S) == {c \in LifeCalls(S) : c.op = "create" => c.v \in KindsMC}

MCNext == \E c \in MCCalls(life) : life' \in LifeStep(life, c) /\ last' = c

MCSpec == MCInit /\ [][MCNext]_<<life, last>>

StateOK  == LifeStateOK(life)
OutputOK == last.op = "init" \/ LifeOutputOK(life, last)
\* the same, one conjunct per invariant, so that a counterexample names what failed
InvNoMemoryError == NoMemoryError(life)
InvRefsAccounted == RefsAccounted(life)
InvAliveIffRefs == AliveIffRefs(life) /\ AliveIffStruct(life)
InvAttachedAlive == AttachedAlive(life)
InvNoChains == NoChains(life)
InvOwnedShape == OwnedShape(life)
InvNothingLeftBehind == NothingLeftBehind(life)
InvCallbackOnce == last.op = "init" \/ CallbackOnce(life)
InvCallbackBeforeFrees == last.op = "init" \/ CallbackBeforeFrees(life)
InvReleasedCompletely == last.op = "init" \/ ReleasedCompletely(life)
InvUnrefReturn == last.op = "init" \/ UnrefReturn(life, last)
InvFreesOnlyOf == last.op = "init" \/ FreesOnlyOf(life, last)
=============================================================================
