------------------------------- MODULE LifeMC -------------------------------
(* Exhaustive small-scope check of the lifetime part of Image.tla (C20): every sequence of    *)
(* create / ref / unref / set_alpha_map / set_transform / set_filter / set_clip_region /      *)
(* set_destroy_function / use / glyph insert+remove over the pool keeps the invariants the     *)
(* statement names.  `last` is the call that produced the current state (its output is part   *)
(* of the state record).  Negative configurations set Bugs to one wrong design decision.      *)
EXTENDS Image

CONSTANTS KindsMC,     \* the image types explored (indices into KindName)
          DataMC,      \* the destroy-function user data explored (0 = no destroy function)
          Depth        \* bound on the number of calls (0 = unbounded)

VARIABLES life,     \* the state record, with the output fields of the last call cleared
          outOK,    \* whether the output of the last call (events, return value, callbacks) was as required
          last      \* the last call (not part of the VIEW: kept only to make counterexamples readable)

Strip(S) == [S EXCEPT !.ev = <<>>, !.ret = FALSE, !.died = <<>>, !.dev = ""]

MCInit == life = LifeInit /\ outOK = TRUE /\ last = Call("init", 0, 0, 0)

MCCalls(S) == {c \in LifeCalls(S) : (c.op = "create" => c.v \in KindsMC) /\ (c.op = "destroyfn" => c.v \in DataMC)}

DepthBound == Depth = 0 \/ TLCGet("level") <= Depth

MCNext == \E c \in MCCalls(life) : \E T \in LifeStep(life, c) :
              /\ life' = Strip(T)
              /\ outOK' = LifeOutputOK(T, c)
              /\ last' = c

MCSpec == MCInit /\ [][MCNext]_<<life, outOK, last>>

MCView == <<life, outOK>>
Perms == Permutations(Img)

\* one conjunct per invariant, so that a counterexample names what failed
InvNoMemoryError == NoMemoryError(life)
InvRefsAccounted == RefsAccounted(life)
InvAliveIffRefs == AliveIffRefs(life) /\ AliveIffStruct(life)
InvAttachedAlive == AttachedAlive(life)
InvNoChains == NoChains(life)
InvOwnedShape == OwnedShape(life)
InvNothingLeftBehind == NothingLeftBehind(life)
InvOutput == outOK      \* CallbackOnce, CallbackBeforeFrees, ReleasedCompletely, UnrefReturn, FreesOnlyOf
=============================================================================
