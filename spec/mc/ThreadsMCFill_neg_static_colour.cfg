SPECIFICATION Spec
CONSTANTS
  Workers = {1, 2, 3}
  NCalls = 2
  NBox = 3
  GlobalScratch = TRUE
INVARIANT SoloEqual
