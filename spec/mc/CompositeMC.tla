----------------------------- MODULE CompositeMC -----------------------------
(* Design-level check of CompositeRegion (Composite.tla, C03) against the pointwise          *)
(* definition in the statement: a pixel is in the composite region iff it is in the request  *)
(* rectangle, inside the destination, in the destination clip (if one is set), inside the    *)
(* destination alpha map placed at its origin (if there is one), and -- for a source or mask *)
(* whose clip is set, enabled for sources and a client clip -- its preimage under the        *)
(* translation by (dest - src) is in that clip.                                              *)
(* The image configuration is built in phases (destination clip, alpha map, source, mask);   *)
(* at each complete configuration every request of Requests is evaluated.                    *)
(* Mutant (negative configurations):                                                          *)
(*   "srcclip_always"  the source clip is applied although clip_sources / client_clip is off *)
(*   "shift_sign"      the source clip is translated by (src - dest)                         *)
(*   "no_alpha"        the destination alpha-map bounds are ignored                          *)
EXTENDS Composite

CONSTANTS DW, DH, Mutant,
          Full          \* TRUE: all source / mask offsets (thorough tier); FALSE: a subset

VARIABLES phase

vars == <<img, reg, mem, phase>>

Xs == (-2)..(DW + 2)
Ys == (-2)..(DH + 2)
Cells == Xs \X Ys
PointsOf(L) == {c \in Cells : PointIn(L, c[1], c[2])}
InBox(c, b) == b[1] <= c[1] /\ c[1] < b[3] /\ b[2] <= c[2] /\ c[2] < b[4]
InList(c, L) == \E i \in DOMAIN L : InBox(c, L[i])

\* clip regions as (non-canonical) rectangle lists: empty, single, overlapping / disjoint pairs, partly outside
ClipLists == {<<>>,
              <<(<<0, 0, DW, DH>>)>>, <<(<<1, 0, DW, DH>>)>>, <<(<<0, 1, DW - 1, DH>>)>>, <<(<<-1, -1, 2, 1>>)>>,
              <<(<<1, 1, 2, 2>>)>>, <<(<<2, 0, DW + 2, DH + 1>>)>>, <<(<<-2, 0, 0, DH>>)>>,
              <<(<<0, 0, 1, 1>>), (<<2, 1, DW, DH>>)>>, <<(<<0, 0, 2, DH>>), (<<1, 0, DW, 1>>)>>,
              <<(<<-1, 0, 1, DH>>), (<<DW - 1, 0, DW + 1, DH>>)>>, <<(<<0, 0, DW, 1>>), (<<0, 1, 1, DH>>)>>}
SrcClipLists == {<<(<<0, 0, DW, DH>>)>>, <<(<<1, 0, 2, DH>>)>>, <<(<<0, 1, DW, DH + 1>>)>>, <<>>,
                 <<(<<-1, -1, 1, 1>>), (<<2, 0, DW + 1, DH>>)>>, <<(<<0, 0, 1, DH>>), (<<1, 1, DW, DH>>)>>}
AlphaMaps == {<<>>, <<[w |-> DW, h |-> DH, ox |-> 0, oy |-> 0]>>, <<[w |-> 2, h |-> 1, ox |-> 1, oy |-> 0]>>,
              <<[w |-> DW, h |-> DH, ox |-> -1, oy |-> 1]>>, <<[w |-> 1, h |-> 1, ox |-> DW, oy |-> 0]>>}

\* requests: rectangles inside, straddling, outside, empty; source / mask offsets
ReqRects == {<<0, 0, DW, DH>>, <<-1, -1, DW + 2, DH + 2>>, <<1, 0, 1, DH>>, <<-2, 0, 3, 1>>, <<DW - 1, 1, 3, 3>>,
             <<DW, 0, 2, 2>>, <<0, 0, 0, DH>>, <<1, 1, 1, 0>>}
Offsets == IF Full THEN {<<0, 0>>, <<1, 0>>, <<-1, 1>>, <<0, -2>>} ELSE {<<0, 0>>, <<-1, 1>>}
MaskOffsets == IF Full THEN {<<0, 0>>, <<2, -1>>} ELSE {<<2, -1>>}
Requests == {[sx |-> s[1], sy |-> s[2], mx |-> m[1], my |-> m[2], dx |-> r[1], dy |-> r[2], w |-> r[3], h |-> r[4]] :
                 s \in Offsets, m \in MaskOffsets, r \in ReqRects}

Image(present, hc, cs, cc) == [present |-> present, w |-> 0, h |-> 0, hc |-> hc, cs |-> cs, cc |-> cc, am |-> <<>>]
Flags == {<<TRUE, TRUE>>, <<TRUE, FALSE>>, <<FALSE, TRUE>>, <<FALSE, FALSE>>}

MCInit == /\ img = [dst |-> [present |-> TRUE, w |-> DW, h |-> DH, hc |-> FALSE, cs |-> FALSE, cc |-> FALSE, am |-> <<>>],
                    src |-> Image(TRUE, FALSE, FALSE, FALSE), mask |-> Image(FALSE, FALSE, FALSE, FALSE)]
          /\ reg = [dst |-> Empty, src |-> Empty, mask |-> Empty]
          /\ mem = <<>>
          /\ phase = 0

\* pixman_image_set_clip_region32 (image, region) / (image, NULL)
SetClip(role, L) == /\ img' = [img EXCEPT ![role].hc = TRUE]
                    /\ RgInitRects(role, L)
\* pixman_image_set_source_clipping, pixman_image_set_has_client_clip
SetFlags(role, cs, cc) == img' = [img EXCEPT ![role].cs = cs, ![role].cc = cc] /\ UNCHANGED reg

MCNext ==
    /\ phase' = phase + 1
    /\ UNCHANGED mem
    /\ \/ phase = 0 /\ (UNCHANGED <<img, reg>> \/ \E L \in ClipLists : SetClip("dst", L))
       \/ phase = 1 /\ \E a \in AlphaMaps : img' = [img EXCEPT !.dst.am = a] /\ UNCHANGED reg
       \/ phase = 2 /\ (UNCHANGED <<img, reg>> \/ \E L \in SrcClipLists : SetClip("src", L))
       \/ phase = 3 /\ \E f \in Flags : SetFlags("src", f[1], f[2])
       \/ phase = 4 /\ \/ UNCHANGED <<img, reg>>                                         \* no mask
                       \/ img' = [img EXCEPT !.mask.present = TRUE] /\ UNCHANGED reg      \* mask without clip
                       \/ \E L \in {<<(<<0, 0, 2, DH>>)>>, <<(<<1, 1, DW, DH>>), (<<0, 0, 1, 1>>)>>}, on \in BOOLEAN :
                             /\ img' = [img EXCEPT !.mask = Image(TRUE, TRUE, TRUE, on)]
                             /\ RgInitRects("mask", L)

MCSpec == MCInit /\ [][MCNext]_vars

-----------------------------------------------------------------------------
UnderTest(rq) ==
    CASE Mutant = "srcclip_always" -> CompositeRegionOf([img EXCEPT !.src.cs = TRUE, !.src.cc = TRUE], reg, rq)
      [] Mutant = "shift_sign"     -> CompositeRegionOf(img, reg, [rq EXCEPT !.sx = 2 * rq.dx - rq.sx, !.sy = 2 * rq.dy - rq.sy])
      [] Mutant = "no_alpha"       -> CompositeRegionOf([img EXCEPT !.dst.am = <<>>], reg, rq)
      [] OTHER -> CompositeRegion(rq)

InEvery(rq, c) ==
    /\ rq.dx <= c[1] /\ c[1] < rq.dx + rq.w /\ rq.dy <= c[2] /\ c[2] < rq.dy + rq.h
    /\ 0 <= c[1] /\ c[1] < DW /\ 0 <= c[2] /\ c[2] < DH
    /\ img.dst.hc => InList(c, reg.dst.r)
    /\ img.dst.am # <<>> => LET a == img.dst.am[1] IN InBox(c, <<a.ox, a.oy, a.ox + a.w, a.oy + a.h>>)
    /\ (img.src.hc /\ img.src.cs /\ img.src.cc) => InList(<<c[1] - (rq.dx - rq.sx), c[2] - (rq.dy - rq.sy)>>, reg.src.r)
    /\ (img.mask.present /\ img.mask.hc /\ img.mask.cs /\ img.mask.cc) =>
           InList(<<c[1] - (rq.dx - rq.mx), c[2] - (rq.dy - rq.my)>>, reg.mask.r)

RegionIsIntersection ==
    phase = 5 => \A rq \in Requests :
                    LET R == UnderTest(rq) IN
                    /\ PointsOf(R) = {c \in Cells : InEvery(rq, c)}
                    /\ IsCanonical(R)                      \* it is a region value
                    /\ \A i \in DOMAIN R : 0 <= R[i][1] /\ R[i][3] <= DW /\ 0 <= R[i][2] /\ R[i][4] <= DH
=============================================================================
