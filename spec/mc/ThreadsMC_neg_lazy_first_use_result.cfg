SPECIFICATION Spec
CONSTANTS
  Workers = {1, 2, 3}
  NReq = 3
  FirstUse = FALSE
  SharedCache = FALSE
  WorkerRefs = FALSE
  LazyImp = FALSE
INVARIANT Deterministic
