SPECIFICATION Spec
CONSTANTS
  CacheSize = 2
  Threads = {"t1"}
  Shared = FALSE
  LooseKey = FALSE
  FewKeys = FALSE
INVARIANTS Transparent Served CacheTruthful
