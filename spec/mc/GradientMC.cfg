SPECIFICATION MCSpec
CONSTANT Mutant = "none"
INVARIANTS FoldDef LookupDef AtStops LerpDef HullSound
