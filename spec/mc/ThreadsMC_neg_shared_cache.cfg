SPECIFICATION Spec
CONSTANTS
  Workers = {1, 2, 3}
  NReq = 3
  FirstUse = TRUE
  SharedCache = TRUE
  WorkerRefs = FALSE
  LazyImp = FALSE
INVARIANT NoRace
