SPECIFICATION MCSpec
CONSTANTS
  DW = 3
  DH = 2
  Mutant = "no_alpha"
  Full = FALSE
INVARIANT RegionIsIntersection
