---------------------------- MODULE AllocLoopMC ----------------------------
(* Design-level model of a void drawing call that walks a list of items through a temporary   *)
(* image, with a per-run cache of the drawing routine and a lazily created helper object:      *)
(* the shape of pixman_composite_glyphs() / add_glyphs() (and, without the helper, of          *)
(* pixman_composite_glyphs_no_mask()).                                                         *)
(*                                                                                             *)
(*   tmp   = create the temporary (2 allocations: object, pixels); refusal: skip the call       *)
(*   for each item i                                                                           *)
(*       if kind(i) # cached kind:   cached kind := kind(i)                                    *)
(*            kind(i) = kind of tmp:  no helper needed                                         *)
(*            otherwise:              helper needed; created on first need (1 allocation);     *)
(*                                    refusal: leave the loop (the rest of the list is skipped)*)
(*            routine := lookup (kind(i))                                                      *)
(*       routine (item i)                                                                      *)
(*   release the helper; composite tmp onto the destination (may need 1 allocation: scanline   *)
(*   buffer; refusal: skip); release tmp (2 blocks).                                           *)
(*                                                                                             *)
(* The call is made twice in a row (objects stay usable), under every fault schedule (the      *)
(* FailAt-th request of the execution refused once / from then on), for every list of items up *)
(* to MaxItems over Kinds.  Obligations: Alloc's (free only live blocks, End of a void call),  *)
(* nothing is live after a call (no leak), the routine that runs on an item is the one looked   *)
(* up for that item's kind - never a stale or missing one - and every item is drawn completely  *)
(* or not at all.                                                                              *)
(* Mutants (negative configurations): "continue" = on refusal of the helper go on with the     *)
(* next item instead of leaving the loop (the cached kind was already updated, so the next item *)
(* of that kind skips the lookup and runs the stale routine); "leak_helper" = the early exit    *)
(* jumps past the release of the helper; "leak_tmp" = a refused pixel buffer leaves the         *)
(* temporary's object behind.                                                                   *)
EXTENDS Alloc

CONSTANTS Kinds, TmpKind, MaxItems, MaxAllocs, Mutant

VARIABLES items,       \* the list of item kinds of this execution
          i,           \* index of the item being processed
          cacheKind,   \* kind the cached routine was looked up for ("none" initially)
          routine,     \* cached routine: the kind it draws correctly, or "none"
          helper,      \* {} or {address of the helper object}
          tmp,         \* addresses owned by the temporary
          drawn,       \* item -> "no" | "yes" | "wrong"
          requests, failAt, persistent,
          pc, ncalls, endok

vars == <<live, call, made, failed, items, i, cacheKind, routine, helper, tmp, drawn,
          requests, failAt, persistent, pc, ncalls, endok>>

Addr == 1..MaxAllocs
Fresh == CHOOSE a \in Addr : a \notin live
Refuse == (requests + 1 = failAt) \/ (persistent /\ requests + 1 > failAt)

SeqsUpTo(n) == UNION {[1..k -> Kinds] : k \in 1..n}

Init == /\ AllocInit
        /\ items \in SeqsUpTo(MaxItems)
        /\ i = 1 /\ cacheKind = "none" /\ routine = "none" /\ helper = {} /\ tmp = {}
        /\ drawn = [j \in DOMAIN items |-> "no"]
        /\ requests = 0 /\ failAt \in 1..8 \cup {99} /\ persistent \in BOOLEAN
        /\ pc = "idle" /\ ncalls = 0 /\ endok = TRUE

Same(v) == UNCHANGED v

Start == /\ pc = "idle" /\ ncalls < 2
         /\ Begin("draw_items")
         /\ i' = 1 /\ cacheKind' = "none" /\ routine' = "none" /\ helper' = {} /\ tmp' = {}
         /\ drawn' = [j \in DOMAIN items |-> "no"]
         /\ pc' = "tmp1"
         /\ UNCHANGED <<items, requests, failAt, persistent, ncalls, endok>>

\* the temporary: object, then pixels
Tmp1 == /\ pc = "tmp1" /\ requests' = requests + 1
        /\ IF Refuse THEN MallocRefused /\ pc' = "end" /\ Same(tmp)
           ELSE MallocOk(Fresh) /\ tmp' = {Fresh} /\ pc' = "tmp2"
        /\ UNCHANGED <<items, i, cacheKind, routine, helper, drawn, failAt, persistent, ncalls, endok>>

Tmp2 == /\ pc = "tmp2" /\ requests' = requests + 1
        /\ IF Refuse THEN MallocRefused /\ pc' = (IF Mutant = "leak_tmp" THEN "end" ELSE "reltmp") /\ Same(tmp)
           ELSE MallocOk(Fresh) /\ tmp' = tmp \cup {Fresh} /\ pc' = "loop"
        /\ UNCHANGED <<items, i, cacheKind, routine, helper, drawn, failAt, persistent, ncalls, endok>>

\* head of the loop: cache check
Loop == /\ pc = "loop"
        /\ IF i > Len(items)
           THEN pc' = "out" /\ UNCHANGED <<cacheKind, routine>>
           ELSE IF items[i] = cacheKind
                THEN pc' = "call" /\ UNCHANGED <<cacheKind, routine>>
                ELSE /\ cacheKind' = items[i]
                     /\ IF items[i] = TmpKind \/ helper # {}
                        THEN routine' = items[i] /\ pc' = "call"          \* lookup
                        ELSE pc' = "helper" /\ UNCHANGED routine
        /\ UNCHANGED <<allocVars, items, i, helper, tmp, drawn, requests, failAt, persistent, ncalls, endok>>

Helper == /\ pc = "helper" /\ requests' = requests + 1
          /\ IF Refuse
             THEN /\ MallocRefused /\ Same(helper) /\ Same(routine)
                  /\ IF Mutant = "continue" THEN i' = i + 1 /\ pc' = "loop"
                     ELSE Same(i) /\ pc' = (IF Mutant = "leak_helper" THEN "final" ELSE "out")
             ELSE /\ MallocOk(Fresh) /\ helper' = {Fresh} /\ routine' = items[i] /\ pc' = "call" /\ Same(i)
          /\ UNCHANGED <<items, cacheKind, tmp, drawn, failAt, persistent, ncalls, endok>>

\* the cached routine runs on item i: correct only if it was looked up for this kind
Call == /\ pc = "call"
        /\ drawn' = [drawn EXCEPT ![i] = IF routine = items[i] THEN "yes" ELSE "wrong"]
        /\ i' = i + 1 /\ pc' = "loop"
        /\ UNCHANGED <<allocVars, items, cacheKind, routine, helper, tmp, requests, failAt, persistent, ncalls, endok>>

Out == /\ pc = "out"
       /\ IF helper # {} /\ Mutant # "leak_helper"
          THEN \E a \in helper : FreeOk(a) /\ helper' = {}
          ELSE UNCHANGED allocVars /\ Same(helper)
       /\ pc' = "final"
       /\ UNCHANGED <<items, i, cacheKind, routine, tmp, drawn, requests, failAt, persistent, ncalls, endok>>

\* the final composite: one scanline buffer, released at once; refusal: nothing reaches the destination
Final == /\ pc = "final" /\ requests' = requests + 1
         /\ IF Refuse THEN MallocRefused /\ drawn' = [j \in DOMAIN items |-> IF drawn[j] = "wrong" THEN "wrong" ELSE "no"]
                          /\ pc' = "reltmp"
            ELSE MallocOk(Fresh) /\ Same(drawn) /\ pc' = "relbuf"
         /\ UNCHANGED <<items, i, cacheKind, routine, helper, tmp, failAt, persistent, ncalls, endok>>

RelBuf == /\ pc = "relbuf"
          /\ \E a \in made \ (tmp \cup helper) : FreeOk(a)
          /\ pc' = "reltmp"
          /\ UNCHANGED <<items, i, cacheKind, routine, helper, tmp, drawn, requests, failAt, persistent, ncalls, endok>>

RelTmp == /\ pc = "reltmp"
          /\ IF tmp # {}
             THEN \E a \in tmp : FreeOk(a) /\ tmp' = tmp \ {a} /\ Same(pc)
             ELSE UNCHANGED allocVars /\ Same(tmp) /\ pc' = "end"
          /\ UNCHANGED <<items, i, cacheKind, routine, helper, drawn, requests, failAt, persistent, ncalls, endok>>

Finish == /\ pc = "end"
          /\ EndRaw /\ endok' = EndOK("void", "void")
          /\ pc' = "idle" /\ ncalls' = ncalls + 1
          /\ UNCHANGED <<items, i, cacheKind, routine, helper, tmp, drawn, requests, failAt, persistent>>

Next == Start \/ Tmp1 \/ Tmp2 \/ Loop \/ Helper \/ Call \/ Out \/ Final \/ RelBuf \/ RelTmp \/ Finish
Spec == Init /\ [][Next]_vars

\* ------------------------------------------------------------------ properties
NoLeak == (pc = "idle") => NothingLive
EndObligations == endok
\* the routine that is about to run was looked up for the kind of the item it runs on
RoutineMatches == (pc = "call") => routine = items[i]
\* every item is drawn completely or not at all
DrawnOrSkipped == \A j \in DOMAIN drawn : drawn[j] # "wrong"
\* a call without any refusal draws everything
CompleteWithoutFaults == (pc = "idle" /\ ncalls > 0 /\ requests < failAt) => \A j \in DOMAIN drawn : drawn[j] = "yes"
=============================================================================
