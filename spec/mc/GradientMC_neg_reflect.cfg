SPECIFICATION MCSpec
CONSTANT Mutant = "reflect_parity"
INVARIANTS FoldDef LookupDef AtStops LerpDef HullSound
