------------------------------ MODULE GlyphMapMC ------------------------------
(* Model check of the abstract level alone (C17): whatever the table layout -- any history  *)
(* of the actions of GlyphMap.tla, with every admissible movement of the ghost dead -- the   *)
(* LRU list is a permutation of the live keys, val is defined exactly on them, and the       *)
(* occupied positions stay within CAP (a free position always exists, so a search can end).  *)
(* This is what level (A) of spec/trace/GlyphTrace.tla relies on when the layout model (B)   *)
(* no longer applies.  Negative configuration: a remove that leaves two dead positions.      *)
EXTENDS GlyphMap, TLC

CONSTANTS NK, NV, MaxFreeze, Mutant

MKeys == 1..NK
MVals == 1..NV

MRemove2(k) ==           \* mutant: a remove may waste two positions
    /\ k \in live
    /\ live' = live \ {k}
    /\ val' = [x \in live \ {k} |-> val[x]]
    /\ lru' = Without(lru, k)
    /\ dead' = dead + 2
    /\ ret' = Void
    /\ UNCHANGED freeze

MNext ==
    \/ freeze < MaxFreeze /\ AFreeze
    \/ AThaw
    \/ \E k \in AKeys : \/ \E v \in AVals : AInsert(k, v)
                        \/ ALookup(k)
                        \/ ARemove(k)
                        \/ AUse(k)
                        \/ Mutant = "remove_two_dead" /\ MRemove2(k)

MSpec == AInit /\ [][MNext]_avars

TypeOK == /\ live \subseteq AKeys /\ freeze \in 0..MaxFreeze /\ dead \in 0..CAP
          /\ ret.hit \in BOOLEAN
(* lookup tells the truth about the map: checked as an action property *)
LookupFaithful == [][ret'.hit => (\E k \in live' : ret'.v = <<val'[k]>>)]_avars
=============================================================================
