------------------------------ MODULE RegionMC ------------------------------
(* Design-level check of Region.tla against naive point sets on a small grid.          *)
(* The state carries, next to reg (canonical lists built by coordinate compression),   *)
(* the same regions as explicit point sets pts updated by plain set algebra.           *)
(* Invariants: the list denotes the set; it is structurally canonical; two variables   *)
(* holding the same points hold the same list (uniqueness of the canonical form).      *)
EXTENDS Region

CONSTANTS Vars, GX, GY,    \* coordinates 0..GX, 0..GY  (GX x GY cells)
          Mutant          \* "none", or the name of a deliberately wrong model (negative configurations)

VARIABLES pts, last

Cells == (0..(GX - 1)) \X (0..(GY - 1))
PointsOf(L) == {c \in Cells : PointIn(L, c[1], c[2])}
BoxPts(b)   == {c \in Cells : b[1] <= c[1] /\ c[1] < b[3] /\ b[2] <= c[2] /\ c[2] < b[4]}

Boxes == {<<x1, y1, x2, y2>> : x1 \in 0..GX, y1 \in 0..GY, x2 \in 0..GX, y2 \in 0..GY}
GoodBoxes == {b \in Boxes : Good(b)}
\* degenerate but not inverted
FlatBoxes == {b \in Boxes : ~Good(b) /\ ~Bad(b)}

MCInit == /\ reg = [v \in Vars |-> Empty]
          /\ pts = [v \in Vars |-> {}]
          /\ last = "init"

Bin(op, d, a, b) ==
    /\ CASE op = "union" -> RgUnion(d, a, b) /\ pts' = [pts EXCEPT ![d] = pts[a] \cup pts[b]]
         [] op = "intersect" -> RgIntersect(d, a, b) /\ pts' = [pts EXCEPT ![d] = pts[a] \cap pts[b]]
         [] op = "subtract" ->
              /\ CASE Mutant = "sub_as_inter" -> RgIntersect(d, a, b)
                   [] Mutant = "no_coalesce" ->
                         reg' = [reg EXCEPT ![d] = Val(BandOpNoCoalesce("subtract", reg[a].r, reg[b].r))]
                   [] OTHER -> RgSubtract(d, a, b)
              /\ pts' = [pts EXCEPT ![d] = pts[a] \ pts[b]]
    /\ last' = op

RectOp(op, d, a, box) ==
    /\ CASE op = "inverse" -> RgInverse(d, a, box) /\ pts' = [pts EXCEPT ![d] = BoxPts(box) \ pts[a]]
         [] op = "union_rect" -> RgUnionRect(d, a, box) /\ pts' = [pts EXCEPT ![d] = pts[a] \cup BoxPts(box)]
         [] op = "intersect_rect" -> RgIntersectRect(d, a, box) /\ pts' = [pts EXCEPT ![d] = pts[a] \cap BoxPts(box)]
    /\ last' = op

\* mutant "translate_drop": rectangles that only partly leave the window are dropped, not clipped
KeptRects(d, dx, dy) ==
    IF Mutant = "translate_drop"
    THEN SelectSeq(reg[d].r, LAMBDA r : r[1] + dx >= 0 /\ r[3] + dx <= GX /\ r[2] + dy >= 0 /\ r[4] + dy <= GY)
    ELSE reg[d].r

TranslateOp(d, dx, dy) ==
    \* a window MIN..MAX = 0..GX (resp. GY) stands for the representable range: see MCTranslate
    /\ reg' = [reg EXCEPT ![d] = Val(Canon([i \in DOMAIN KeptRects(d, dx, dy) |-> LET r == KeptRects(d, dx, dy) IN
                    <<ClampAdd(r[i][1], dx, 0, GX), ClampAdd(r[i][2], dy, 0, GY),
                      ClampAdd(r[i][3], dx, 0, GX), ClampAdd(r[i][4], dy, 0, GY)>>]))]
    /\ pts' = [pts EXCEPT ![d] = {c \in Cells : <<c[1] - dx, c[2] - dy>> \in pts[d]}]
    /\ last' = "translate"

MCNext ==
    \/ \E op \in {"union", "intersect", "subtract"}, d, a, b \in Vars : Bin(op, d, a, b)
    \/ \E op \in {"inverse", "union_rect", "intersect_rect"}, d, a \in Vars, box \in GoodBoxes \cup FlatBoxes :
          RectOp(op, d, a, box)
    \/ \E d \in Vars, dx \in (-GX)..GX, dy \in (-GY)..GY : TranslateOp(d, dx, dy)
    \/ \E d \in Vars : RgClear(d) /\ pts' = [pts EXCEPT ![d] = {}] /\ last' = "clear"
    \/ \E d, a \in Vars : RgCopy(d, a) /\ pts' = [pts EXCEPT ![d] = pts[a]] /\ last' = "copy"

MCSpec == MCInit /\ [][MCNext]_<<reg, pts, last>>

DenotesSet  == \A v \in Vars : PointsOf(reg[v].r) = pts[v]
Structural  == \A v \in Vars : IsCanonStruct(reg[v].r) /\ IsCanonical(reg[v].r)
Unique      == \A u, v \in Vars : pts[u] = pts[v] => reg[u] = reg[v]
ExtentsTight == \A v \in Vars : reg[v].r # <<>> =>
                   LET e == Extents(reg[v].r) IN
                   /\ pts[v] \subseteq BoxPts(e)
                   /\ \E c \in pts[v] : c[1] = e[1]
                   /\ \E c \in pts[v] : c[1] = e[3] - 1
                   /\ \E c \in pts[v] : c[2] = e[2]
                   /\ \E c \in pts[v] : c[2] = e[4] - 1
QueriesOK == \A v \in Vars :
                /\ \A c \in Cells : PointIn(reg[v].r, c[1], c[2]) <=> c \in pts[v]
                /\ \A c \in pts[v] : LET mb == MemberBox(reg[v].r, c[1], c[2]) IN
                                      c \in BoxPts(mb) /\ mb \in ToSet(reg[v].r)
                /\ \A q \in GoodBoxes :
                      RectClass(reg[v].r, q) =
                         (IF BoxPts(q) \subseteq pts[v] THEN "IN"
                          ELSE IF BoxPts(q) \cap pts[v] = {} THEN "OUT" ELSE "PART")

\* View: `last' is a label only
MCView == <<reg, pts>>
=============================================================================
