------------------------------ MODULE BigIntMC ------------------------------
(* Model check of the trusted core spec/lib/BigInt.tla.                                   *)
(*  Mode "small": LimbBits is overridden to 3 (base 8) so that numbers below 2^9 already  *)
(*     have several limbs; every operation is compared with TLC's native arithmetic for   *)
(*     ALL pairs a, b in -R..R (and all shift counts 0..K).                               *)
(*  Mode "big":  production limb size (2^15); operands are 32-bit words given as halves,  *)
(*     their products and sums (up to ~2^95); checked by algebraic identities, by native  *)
(*     arithmetic where the value fits, and by the defining properties of shift/division. *)
(*  Mutant # "none" replaces the multiplication under test by a wrong one (negative       *)
(*     configuration: TLC must reject).                                                   *)
EXTENDS BigInt, TLC

CONSTANTS R, K, Mode, Mutant

MCLimbBits == 3

VARIABLES a, b, ph

\* a deliberately wrong limb multiplication: forgets the incoming carry at the last limb
RECURSIVE BadNMulL(_, _, _, _)
BadNMulL(x, m, i, c) ==
    IF i > Len(x) THEN <<>>
    ELSE LET p == x[i] * m + (IF i = Len(x) THEN 0 ELSE c) IN
         IF i = Len(x) THEN NTrim(<<p % BigBase, p \div BigBase>>)
         ELSE <<p % BigBase>> \o BadNMulL(x, m, i + 1, p \div BigBase)
RECURSIVE BadNMulAcc(_, _, _)
BadNMulAcc(x, y, j) ==
    IF j > Len(y) THEN <<>>
    ELSE IF y[j] = 0 THEN BadNMulAcc(x, y, j + 1)
    ELSE NAdd(NShlLimbs(BadNMulL(x, y[j], 1, 0), j - 1), BadNMulAcc(x, y, j + 1))
MulUT(x, y) == IF Mutant = "mul_dropcarry"
               THEN (IF IsZero(x) \/ IsZero(y) THEN Zero ELSE Mk(x.neg # y.neg, BadNMulAcc(x.mag, y.mag, 1)))
               ELSE Mul(x, y)
AddUT(x, y) == IF Mutant = "add_magnitudes" THEN Mk(x.neg, NAdd(x.mag, y.mag)) ELSE Add(x, y)

WellFormed(x) == /\ \A i \in DOMAIN x.mag : x.mag[i] \in 0..(BigBase - 1)
                 /\ (x.mag # <<>> => x.mag[Len(x.mag)] # 0)
                 /\ (x.mag = <<>> => ~x.neg)

SgnInt(n) == IF n < 0 THEN -1 ELSE IF n > 0 THEN 1 ELSE 0

-----------------------------------------------------------------------------
(* small mode: native comparison, exhaustive *)
SmallVals == (-R)..R
SmallOK ==
    LET x == FromInt(a)  y == FromInt(b) IN
    /\ WellFormed(x) /\ ToInt(x) = a
    /\ LET s == AddUT(x, y) IN WellFormed(s) /\ ToInt(s) = a + b
    /\ LET s == Sub(x, y) IN WellFormed(s) /\ ToInt(s) = a - b
    /\ LET p == MulUT(x, y) IN WellFormed(p) /\ ToInt(p) = a * b
    /\ Cmp(x, y) = SgnInt(a - b)
    /\ LE(x, y) = (a <= b) /\ LT(x, y) = (a < b)
    /\ ToInt(Neg(x)) = -a /\ ToInt(Abs(x)) = (IF a < 0 THEN -a ELSE a) /\ Sign(x) = SgnInt(a)
    /\ \A k \in 0..K :
          /\ ToInt(FloorShr(x, k)) = a \div (2 ^ k)                 \* TLA+ \div is floor division
          /\ ToInt(CeilShr(x, k)) = -((-a) \div (2 ^ k))
          /\ ToInt(ShlBits(x, k)) = a * (2 ^ k)
          /\ ToInt(Pow2(k)) = 2 ^ k
    /\ (a >= 0 /\ b > 0) => ToInt(DivFloor(x, y)) = a \div b
    /\ b # 0 => \A q \in ((a \div b) - 2)..((a \div b) + 2), h \in {1, 2, 3} :
          RoundedQuot(FromInt(q), x, y, h) = (LET e == 2 * (q * b - a) IN
                                              (IF e < 0 THEN -e ELSE e) <= h * (IF b < 0 THEN -b ELSE b))
    /\ b # 0 => \A k \in {-2, 0, 1, 3} : CmpQuot(x, y, FromInt(k)) =
          (IF b > 0 THEN SgnInt(a - k * b) ELSE SgnInt(k * b - a))
    /\ CmpProd(x, y, y, FromInt(7)) = SgnInt(a * b - b * 7)

-----------------------------------------------------------------------------
(* big mode: words, products of words, identities *)
HS == {0, 1, 255, 16384, 32767, 32768, 32769, 65534, 65535}
LS == {0, 1, 32767, 32768, 65535}
Words == {<<h, l>> : h \in HS, l \in LS}
NatWord(w) == (IF w[1] >= 32768 THEN w[1] - 65536 ELSE w[1]) * 65536 + w[2]     \* fits a TLC integer
IntMin == <<32768, 0>>
BigOK ==
    LET x == FromHalves(a)  y == FromHalves(b)
        p == MulUT(x, y)  pp == MulUT(p, x)  s == AddUT(p, y) IN
    /\ WellFormed(x) /\ WellFormed(p) /\ WellFormed(pp) /\ WellFormed(s)
    /\ a # IntMin => x = FromInt(NatWord(a))
    /\ a = IntMin => (AddUT(x, FromInt(2147483647)) = FromInt(-1) /\ x = Neg(Pow2(31)))
    /\ MulUT(y, x) = p
    /\ Sub(s, y) = p /\ Sub(s, p) = y
    /\ AddUT(MulUT(x, AddUT(y, p)), Neg(MulUT(x, p))) = p            \* distributivity
    /\ MulUT(p, p) = MulUT(MulUT(x, x), MulUT(y, y))                 \* up to ~2^124
    /\ Cmp(p, s) = -Sign(y) /\ Cmp(pp, pp) = 0
    /\ Sign(p) = Sign(x) * Sign(y)
    /\ \A k \in {0, 1, 14, 15, 16, 17, 31, 32, 48} :
          /\ FloorShr(ShlBits(pp, k), k) = pp
          /\ FloorShr(AddUT(ShlBits(pp, k), Sub(Pow2(k), FromInt(1))), k) = pp
          /\ k > 0 => FloorShr(Sub(ShlBits(pp, k), FromInt(1)), k) = Sub(pp, FromInt(1))
          /\ ShlBits(pp, k) = MulUT(pp, Pow2(k))
    /\ ~IsZero(y) =>
          LET n == Abs(pp)  d == Abs(y)  q == DivFloor(n, d) IN
          /\ WellFormed(q) /\ LE(Mul(q, d), n) /\ LT(n, Mul(AddUT(q, FromInt(1)), d))
    \* rounding: (p + r) / 2^16 with r at and around one half
    /\ RoundedQuot(FloorShr(AddUT(p, Pow2(15)), 16), p, Pow2(16), 1)
    /\ ~RoundedQuot(AddUT(FloorShr(AddUT(p, Pow2(15)), 16), FromInt(2)), p, Pow2(16), 1)
    /\ ~RoundedQuot(Sub(FloorShr(AddUT(p, Pow2(15)), 16), FromInt(1)), AddUT(p, FromInt(1)), Pow2(16), 1)

-----------------------------------------------------------------------------
Dom == IF Mode = "small" THEN SmallVals ELSE Words
MCInit == a \in Dom /\ b = a /\ ph = 0
MCNext == ph = 0 /\ ph' = 1 /\ a' = a /\ b' \in Dom
MCSpec == MCInit /\ [][MCNext]_<<a, b, ph>>
AllOK == ph = 1 => (IF Mode = "small" THEN SmallOK ELSE BigOK)
=============================================================================
