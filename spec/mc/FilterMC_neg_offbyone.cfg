SPECIFICATION MCSpec
CONSTANTS
  Mutant = "sum_off_by_one"
  Alpha <- AlphaDef
  MaxW = 2
  MaxBits = 1
  MaxCoefs = 6
  Cs = {0, 1, 127, 128, 254, 255}
INVARIANTS DirectSums Accepts ConstantKept StreamShape
