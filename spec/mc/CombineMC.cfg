SPECIFICATION MCSpec
INVARIANTS MulUn8Lemma MulLemma UnormLemma DivLemma SqrtLemma Algebra Consistency EquivLemma RealSanity
