SPECIFICATION Spec
CONSTANTS
  Objs = {"o1", "o2"}
  MaxAllocs = 5
  Mutant = "no_break"
INVARIANTS LiveIsOwned DeadOwnNothing EndObligations
PROPERTY BrokenReported
CONSTRAINT Bound
