SPECIFICATION MCSpec
CONSTANTS
  Vars = {"r0", "r1"}
  GX = 3
  GY = 2
  Mutant = "sub_as_inter"
INVARIANTS DenotesSet Structural Unique ExtentsTight QueriesOK
VIEW MCView
