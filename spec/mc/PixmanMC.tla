------------------------------ MODULE PixmanMC ------------------------------
(* Small-scope check of the composed specification: on a 3x2 destination with a 2x2 source, every      *)
(* request rectangle / offset of a small grid, every clip out of a catalogue (built by Region actions),*)
(* with and without source clipping: the result is the pointwise definition -- a pixel changes iff it  *)
(* lies in every operand of the intersection, and then holds the operator's value.                     *)
EXTENDS Pixman

CONSTANT Mutant
VARIABLES done, k

Clips == {NoClip, ClipOf(<<<<0, 0, 2, 1>>>>), ClipOf(<<<<0, 0, 1, 2>>, <<2, 0, 3, 2>>>>), ClipOf(<<<<1, 0, 3, 1>>, <<0, 1, 2, 2>>>>),
          ClipOf(<<>>)}
SrcClips == {NoClip, ClipOf(<<<<0, 0, 1, 2>>>>), ClipOf(<<<<0, 0, 2, 1>>, <<1, 1, 2, 2>>>>)}

Src(c, on) == [Bits("a8r8g8b8", 2, 2, <<<<255, 10, 20, 30>>, <<128, 100, 0, 128>>, <<0, 0, 0, 0>>, <<64, 64, 1, 2>>>>) EXCEPT !.clip = c, !.srcclip = on]
Dst(c) == [Bits("a8r8g8b8", 3, 2, [i \in 1..6 |-> <<40 * i, 7 * i, 255 - i, i>>]) EXCEPT !.clip = c]

Init == k \in 0..12 /\ done = FALSE /\ reg = <<>> /\ img = <<>>
Next == done = FALSE /\ done' = TRUE /\ UNCHANGED <<k, reg, img>>
Spec == Init /\ [][Next]_<<done, k, reg, img>>

InRect(x, y, r) == r[1] <= x /\ x < r[3] /\ r[2] <= y /\ y < r[4]
InList(x, y, c) == ~c.on \/ \E i \in DOMAIN c.r : InRect(x, y, c.r[i])

PointwiseOK ==
    done =>
    \A dc \in Clips, sc \in SrcClips, on \in BOOLEAN, sx \in -1..1, sy \in 0..1, dx \in -1..1, dy \in 0..1, w \in 0..3, h \in 1..2 :
        LET s == Src(sc, on)  d == Dst(dc)
            res == CompositeResult(k, s, NoImage, d, sx, sy, 0, 0, dx, dy, w, h)
        IN  \A i \in 1..6 :
              LET x == (i - 1) % 3   y == (i - 1) \div 3
                  inside == /\ dx <= x /\ x < dx + w /\ dy <= y /\ y < dy + h
                            /\ InList(x, y, dc)
                            /\ (IF Mutant = "srcclip_always" THEN TRUE ELSE ~on) \/ InList(x + sx - dx, y + sy - dy, sc)
              IN  res[i] = IF inside THEN Blend(k, PixelAt(s, x + sx - dx, y + sy - dy), d.px[i]) ELSE d.px[i]
=============================================================================
