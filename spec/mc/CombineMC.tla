----------------------------- MODULE CombineMC -----------------------------
(* Design-level check of Combine.tla and RealIv.tla (C01).                                   *)
(*   lemma   : library lemmas -- MulUn8 is round-half-up of a*b/255 for all 65,536 pairs;    *)
(*             the interval operations of RealIv are sound (contain the exact result) on     *)
(*             operands small enough for the exact result to be computed in 32 bits.         *)
(*   algebra : for every exact operator and mode and every (source alpha, source colour) in   *)
(*             B8 x B8, all mask / destination values in B8^4: the algebraic sanity of the    *)
(*             rule itself (range, CLEAR = 0, SRC = s IN m, DST = d, OVER of nothing is the  *)
(*             identity, opaque OVER replaces, ADD commutes, IN / OUT / ATOP / XOR on opaque *)
(*             or empty destinations), and the consistency of the two classes: the exact     *)
(*             mask-less result lies within one step of the real-valued equation.            *)
(* Negative configurations replace a definition (cfg "<-") by a wrong one; TLC must reject.  *)
EXTENDS Combine, TLC

VARIABLES kind, op, mode, sa, sc

B8 == {0, 1, 2, 127, 128, 129, 254, 255}
Modes == {"none", "unified", "ca"}

(* seeds -> cases in one step, so that TLC's workers share the enumeration *)
MCInit ==
    \/ /\ kind = "lemma" /\ op \in 0..7 /\ mode = "none" /\ sa = 0 /\ sc = 0           \* op = lemma number / slice
    \/ /\ kind = "seed" /\ op \in PDOps /\ mode \in Modes /\ sa \in B8 /\ sc = 0
MCNext == kind = "seed" /\ kind' = "algebra" /\ sc' \in B8 /\ UNCHANGED <<op, mode, sa>>
vars == <<kind, op, mode, sa, sc>>
MCSpec == MCInit /\ [][MCNext]_vars

(* ---- wrong definitions for the negative configurations ---- *)
BadMulUn8(a, b) == (a * b) \div 255                                           \* truncating product
BadFbKind == <<"0", "0", "1", "ida", "1", "0", "sa", "0", "isa", "isa", "sa", "isa", "1">>     \* OVER with 1 - da
BadMulUp(x, y) == MulDown(x, y)                                               \* upper bound not rounded up

(* ---- library lemmas ---- *)
MulUn8Lemma ==
    (kind = "lemma" /\ op <= 3) =>
       \A a \in (op * 64)..(op * 64 + 63) : \A b \in 0..255 : MulUn8(a, b) = (2 * a * b + 255) \div 510

Small == {0, 1, 2, 3, 1023, 1024, 1025, 4095, 20000, 32767}                  \* x * y < 2^31
MulLemma ==
    (kind = "lemma" /\ op = 4) =>
       /\ \A x \in Small : \A y \in Small :
             /\ MulDown(x, y) * ONE <= x * y
             /\ MulUp(x, y) * ONE >= x * y
             /\ MulUp(x, y) - MulDown(x, y) <= 2
       \* large operands: x a multiple of 1024
       /\ \A a \in {1, 3, 255, 511} : \A y \in {1, 1023, 1024, 1025, 999999, 2097151} :
             /\ MulDown(a * 1024, y) * 1024 <= a * y
             /\ MulUp(a * 1024, y) * 1024 >= a * y
       \* signs
       /\ \A x \in {-20000, -1025, -1, 0, 1, 1025, 20000} : \A y \in {-32767, -3, 0, 3, 32767} :
             /\ PMulLo(x, y) * ONE <= x * y
             /\ PMulHi(x, y) * ONE >= x * y
       /\ \A x \in {<<-3000, 2000>>, <<5, 900>>, <<-900, -5>>} : \A y \in {<<-700, 1100>>, <<30, 31>>, <<-31, -30>>} :
             \A p \in {x[1], x[2], 0} : \A q \in {y[1], y[2], 0} :
                (x[1] <= p /\ p <= x[2] /\ y[1] <= q /\ q <= y[2]) =>
                   /\ IvMul(x, y)[1] * ONE <= p * q
                   /\ IvMul(x, y)[2] * ONE >= p * q

UnormLemma ==
    (kind = "lemma" /\ op = 5) =>
       /\ \A b \in 1..10 : \A n \in 0..MaxOf(b) :
             LET iv == IvFromUnorm(n, MaxOf(b)) IN
             /\ iv[1] * MaxOf(b) <= n * ONE /\ n * ONE <= iv[2] * MaxOf(b)
             /\ iv[2] - iv[1] <= 1
       \* 16-bit colours (solid fills): q = 16 v + k with k 65535 <= 16 v < (k + 1) 65535
       /\ \A v \in {1, 2, 255, 256, 257, 32768, 65280, 65408, 65534} :
             LET w16 == IvFromUnorm(v, 65535)  k == w16[1] - 16 * v IN
             /\ k * 65535 <= 16 * v /\ 16 * v < (k + 1) * 65535 /\ w16[2] - w16[1] <= 1

DivLemma ==
    (kind = "lemma" /\ op = 6) =>
       /\ \A q \in {1, 2, 3, 7, 255, 1000, 2047} : \A p \in {0, 1, 2, 5, 254, 999, 2046} :
             (p < q) => /\ QuotDown(p, q) * q <= p * ONE
                        /\ (QuotDown(p, q) + 1) * q > p * ONE
       /\ IvDivClamp01(<<ONE \div 2, ONE \div 2>>, <<ONE, ONE>>) = <<ONE \div 2, ONE \div 2 + 1>>
       /\ IvDivClamp01(<<ONE, ONE>>, <<ONE \div 2, ONE \div 2>>) = <<ONE, ONE>>
       /\ IvDivClamp01(<<-5, 7>>, <<0, 3>>)[1] = 0
       /\ IvDivClamp01(<<-5, 7>>, <<0, 3>>)[2] = ONE
       /\ IvDivClamp01(IvZero, IvZero) = IvZero
       \* large denominators (rescaled long division)
       /\ \A q \in {2097153, 4000000, 16777216} : \A p \in {1, 1000000, 2097151} :
             LET iv == IvDivClamp01(<<p, p>>, <<q, q>>) IN
             \* lo * q <= p * ONE <= hi * q, compared after dividing by 4096 (no overflow)
             /\ (iv[1] \div 4096) * (q \div 4096) <= p \div 16 + 1
             /\ ((iv[2] \div 4096) + 1) * ((q \div 4096) + 1) >= p \div 16

SqrtLemma ==
    (kind = "lemma" /\ op = 7) =>
       \A x \in {0, 1, 2, 1000, 65536, 262144, 524288, 1000000, ONE - 1, ONE} :
          LET iv == IvSqrt01(<<x, x>>) IN
          /\ MulUp(iv[1], iv[1]) <= x \/ iv[1] = 0
          /\ MulDown(iv[2], iv[2]) >= x
          /\ iv[1] <= iv[2]
          /\ iv[2] - iv[1] <= 2100                      \* tight to 2^-9 relative at worst (x = 1 quantum), far tighter above
          /\ (x >= 65536) => iv[2] - iv[1] <= 16

(* ---- algebraic sanity of the exact rule, and consistency with the real-valued equation ---- *)
Pix(a, c) == [a |-> a, r |-> c, g |-> c, b |-> c]

Algebra ==
    kind = "algebra" =>
       \A ma \in B8 : \A mc \in B8 : \A da \in B8 : \A dc \in B8 :
          LET s == Pix(sa, sc)  m == [a |-> ma, r |-> mc, g |-> mc, b |-> mc]  d == Pix(da, dc)
              ra == PD8(op, s, m, d, mode, "a")
              rc == PD8(op, s, m, d, mode, "r")
              sin == SrcIn8(s, m, mode, "r")
              sal == SrcAlpha8(s, m, mode, "r")
          IN
          /\ ra \in 0..255 /\ rc \in 0..255
          /\ (op = 0) => (ra = 0 /\ rc = 0)                                            \* CLEAR
          /\ (op = 1) => (rc = sin /\ ra = SrcIn8(s, m, mode, "a"))                     \* SRC = s IN m
          /\ (op = 2) => (rc = dc /\ ra = da)                                          \* DST
          /\ (op = 3 /\ sin = 0 /\ sal = 0) => rc = dc                                 \* OVER of nothing
          /\ (op = 3 /\ sal = 255) => rc = sin                                         \* opaque OVER replaces
          /\ (op = 4 /\ da = 255) => rc = dc                                           \* OVER_REVERSE under opaque
          /\ (op = 5 /\ da = 255) => rc = sin                                          \* IN opaque
          /\ (op = 5 /\ da = 0) => rc = 0
          /\ (op = 6 /\ sal = 255) => rc = dc
          /\ (op = 7 /\ da = 0) => rc = sin                                            \* OUT of empty
          /\ (op = 7 /\ da = 255) => rc = 0
          /\ (op = 8 /\ sal = 0) => rc = dc
          /\ (op = 9 /\ da = 255 /\ sal = 255) => rc = sin                             \* ATOP
          /\ (op = 10 /\ da = 0 /\ sal = 0) => rc = sin                                \* ATOP_REVERSE on empty
          /\ (op = 11 /\ da = 255 /\ sal = 255) => rc = 0                              \* XOR of opaque
          /\ (op = 12) => rc = (IF sin + dc > 255 THEN 255 ELSE sin + dc)              \* ADD saturates
          /\ (op = 12) => PD8c(12, sin, sal, dc, da) = PD8c(12, dc, da, sin, sal)      \*     and commutes
          \* unified mask 255 and component mask 255 are no mask
          /\ (ma = 255 /\ mc = 255) => rc = PD8(op, s, m, d, "none", "r")

(* the exact mask-less result is within one step of the real-valued equation (the two classes agree) *)
Consistency ==
    (kind = "algebra" /\ mode = "none") =>
       \A da \in B8 : \A dc \in B8 :
          InBandUnorm(PD8c(op, sc, sa, dc, da), 255,
                      IvClamp01(RPD(op, IvFromUnorm(sa, 255), IvFromUnorm(sc, 255), IvFromUnorm(da, 255), IvFromUnorm(dc, 255))), 1)

(* where a division factor is said to equal a plain factor (EquivKind8), the real-valued factor agrees *)
EquivLemma ==
    (kind = "algebra" /\ mode = "none" /\ op = 0 /\ sc = 0) =>
       \A da \in B8 : \A k \in {"sa/da", "da/sa", "isa/da", "ida/sa", "1-sa/da", "1-da/sa", "1-ida/sa", "1-isa/da"} :
          LET e == EquivKind8(k, sa, da)
              SA == IvFromUnorm(sa, 255)  DA == IvFromUnorm(da, 255)
              rk == RFactor(k, SA, DA)
          IN  (e # "frac") => LET re == RFactor(e, SA, DA) IN rk[1] <= re[2] + 2 /\ re[1] <= rk[2] + 2 /\ IvWidth(rk) <= 300

(* ---- the real-valued equations: sanity on premultiplied boundary values ---- *)
RealSanity ==
    (kind = "algebra" /\ mode = "none" /\ sc <= sa /\ op <= 3) =>
       \A da \in B8 : \A dc \in {x \in B8 : x <= da} :
          LET S == IvFromUnorm(sc, 255)  SA == IvFromUnorm(sa, 255)  D == IvFromUnorm(dc, 255)  DA == IvFromUnorm(da, 255) IN
          \A bop \in (IF op = 0 THEN {13} \cup DisjointOps ELSE IF op = 1 THEN ConjointOps ELSE IF op = 2 THEN 48..53 ELSE 54..58) :
             LET r == IF bop \in SepBlendOps THEN RSepColour(bop, SA, S, DA, D) ELSE RPD(bop, SA, S, DA, D) IN
             /\ IvOK(r)
             /\ r[1] <= ONE + 64 /\ r[2] >= -64                      \* a premultiplied result lies in [0, 1]
             \* tight: under one 8-bit step (4112 units); colour dodge / burn are discontinuous at
             \* (d = 0 | d = da, s = sa | s = 0), where the hull of both branches is the honest answer
             /\ IvWidth(r) <= (IF bop \in {53, 54} THEN ONE ELSE 4096)
             \* DISJOINT_SRC / CONJOINT_SRC / *_DST / *_CLEAR are the plain operators
             /\ (bop \in {17, 33}) => (r[1] <= S[1] /\ S[2] <= r[2])
             /\ (bop \in {18, 34}) => (r[1] <= D[1] /\ D[2] <= r[2])
             /\ (bop \in {16, 32}) => r = IvZero
             \* blend modes with a transparent source leave the destination, with a transparent destination the source
             /\ (bop \in SepBlendOps /\ sa = 0) => (r[1] <= D[1] /\ D[2] <= r[2])
             /\ (bop \in SepBlendOps /\ da = 0) => (r[1] <= S[1] /\ S[2] <= r[2])
=============================================================================
