------------------------------ MODULE OpacityMC ------------------------------
(* Exhaustive derivation of the valid operator reductions and check of pixman's table against them. *)
(* One initial state per (operator, cell) so that all workers are used; the invariant evaluates      *)
(* Equivalent over the boundary-rich value set Vals (all of 0..255 in the thorough configuration).   *)
EXTENDS Opacity

CONSTANTS Vals, Mutant

VARIABLES op, cell, done

Table == IF Mutant = "over_dst_opaque_src"
         THEN [CodeTable EXCEPT ![Op_OVER] = <<Op_OVER, Op_SRC, Op_SRC, Op_SRC>>]     \* wrong: Op_OVER with opaque destination is not Op_SRC
         ELSE CodeTable

Init == op \in ExactOps /\ cell \in Cells /\ done = FALSE
Next == done = FALSE /\ done' = TRUE /\ UNCHANGED <<op, cell>>
Spec == Init /\ [][Next]_<<op, cell, done>>

(* the code's reduction for this (operator, cell) is semantically valid *)
TableSound == done => Equivalent(op, Table[op][CellIndex(cell)], cell, Vals)
(* reductions never leave the exact class, and reduce to themselves in the "neither" cell *)
TableShape == \A o \in ExactOps : Table[o][1] = o /\ \A i \in 1..4 : Table[o][i] \in ExactOps
Saturate == SaturateReductionsOK
(* the valid reductions for this (operator, cell), printed for the trace check *)
EmitValid == done => PrintT(<<"VF:valid", op, cell[1], cell[2],
                              {o2 \in ExactOps : Equivalent(op, o2, cell, Vals)}>>)
=============================================================================
