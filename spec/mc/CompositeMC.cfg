SPECIFICATION MCSpec
CONSTANTS
  DW = 3
  DH = 2
  Mutant = "none"
  Full = FALSE
INVARIANT RegionIsIntersection
