SPECIFICATION MCSpec
CONSTANTS
  Img = {1, 2, 3}
  GKeys = {1}
  MaxHeld = 2
  Bugs = {}
  KindsMC = {1, 2, 4}
INVARIANTS InvNoMemoryError InvRefsAccounted InvAliveIffRefs InvAttachedAlive InvNoChains InvOwnedShape
           InvNothingLeftBehind InvCallbackOnce InvCallbackBeforeFrees InvReleasedCompletely InvUnrefReturn
           InvFreesOnlyOf
