SPECIFICATION MCSpec
CONSTANTS
  Img = {1}
  GKeys = {1}
  MaxHeld = 1
  Bugs = {"derive_reads_pixels"}
  Depth = 4
  Types = {"bits", "indexed", "gradient", "solid"}
CONSTRAINT DepthBound
VIEW MCView
INVARIANTS InvFaithful InvRefreshed InvHistoryIndependent
