SPECIFICATION MCSpec
CONSTANTS
  R = 80
  K = 7
  Mode = "small"
  Mutant = "none"
  LimbBits <- MCLimbBits
INVARIANT AllOK
