SPECIFICATION MCSpec
CONSTANTS
  R = 140
  K = 7
  Mode = "small"
  Mutant = "none"
  LimbBits <- MCLimbBits
INVARIANT AllOK
