SPECIFICATION MCSpec
CONSTANTS
  R = 100
  K = 7
  Mode = "small"
  Mutant = "none"
  LimbBits <- MCLimbBits
INVARIANT AllOK
