------------------------------ MODULE FilterNorm ------------------------------
(* Design-level model of the normalisation step of create_1d_filter (pixman-filter.c):     *)
(* the raw integer taps p[1..Width] of one phase are scaled by U/total with error           *)
(* diffusion (v = p*U/total + e; t = floor(v + 1/2); e = v - t), and the remaining          *)
(* difference U - SUM t is added to the first tap.  Exact rational arithmetic: every        *)
(* quantity is kept as a numerator over `total`.  U plays the role of 65536.                *)
(*                                                                                        *)
(* Checked for ALL raw rows over Lo..Hi:  the result is defined and sums to exactly U.     *)
(*   Diffuse    error diffusion on/off        Residual   residual added to the first tap   *)
(*   GuardZero  a row whose raw taps sum to 0 (every tap rounded to 0, or width 0 in the   *)
(*              real code) yields a single tap of U instead of dividing by zero            *)
(* With GuardZero = FALSE the model is the code of pixman 0.40.1, and TLC finds the zero    *)
(* total (negative configuration; the conformance check finds the same hole in the library: *)
(* IMPULSE x IMPULSE, and GAUSSIAN reconstruction at scale 1/65536).  Lemma ExactDiffusion: *)
(* in exact arithmetic the diffusion alone already gives SUM t = U (the residual step only  *)
(* absorbs floating-point slop).                                                            *)
EXTENDS Integers, Sequences, TLC

CONSTANTS U, Width, Lo, Hi, Diffuse, Residual, GuardZero

VARIABLE raw

LoDef == -2

RECURSIVE Sum(_, _)
Sum(s, i) == IF i > Len(s) THEN 0 ELSE s[i] + Sum(s, i + 1)

(* taps from position i on; e = carried error (numerator over tot), tot > 0 *)
RECURSIVE Diff(_, _, _, _)
Diff(r, i, e, tot) ==
    IF i > Len(r) THEN <<>>
    ELSE LET v == r[i] * U + e
             t == (2 * v + tot) \div (2 * tot)          \* floor(v/tot + 1/2)
         IN  <<t>> \o Diff(r, i + 1, IF Diffuse THEN v - t * tot ELSE 0, tot)

Neg(r) == [i \in 1..Len(r) |-> -r[i]]

Normalize(r) ==
    LET tot == Sum(r, 1) IN
    IF tot = 0 THEN
        IF GuardZero THEN [i \in 1..Len(r) |-> IF i = (Len(r) + 1) \div 2 THEN U ELSE 0] ELSE <<"undefined">>
    ELSE LET d == IF tot > 0 THEN Diff(r, 1, 0, tot) ELSE Diff(Neg(r), 1, 0, -tot)
             res == U - Sum(d, 1)
         IN  IF Residual THEN [d EXCEPT ![1] = @ + res] ELSE d

NInit == raw \in [1..Width -> Lo..Hi]
NNext == UNCHANGED raw
NSpec == NInit /\ [][NNext]_raw

Row == [i \in 1..Width |-> raw[i]]
SumsToUnit == LET n == Normalize(Row) IN n # <<"undefined">> /\ Sum(n, 1) = U
ExactDiffusion ==
    LET tot == Sum(Row, 1) IN
    (Diffuse /\ tot # 0) => Sum(IF tot > 0 THEN Diff(Row, 1, 0, tot) ELSE Diff(Neg(Row), 1, 0, -tot), 1) = U
=============================================================================
