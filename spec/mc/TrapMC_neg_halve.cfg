SPECIFICATION MCSpec
CONSTANTS
  WideBase <- SmallBase
  WideDeltas <- HalvedDeltas
  Fixed1 = 16
  Ds = {1, 4}
  YTs = {0, 13}
  DYs = {1, 3, 7, 16, 17}
  DXMags = {0, 1, 5, 16, 33, 48}
  Above = 20
  Below = 8
  JumpMags = {16}
  QStale = FALSE
  QExact0 = FALSE
  QBackstep = FALSE
INVARIANTS WideAgrees
