SPECIFICATION MCSpec
CONSTANTS
  Fix = 1
  Mutant = "ties_up"
INVARIANTS ProbeOK CopyOK FlipOK HomogeneousOK RefOK RangeOK WideConsistentOK
VIEW MCView
