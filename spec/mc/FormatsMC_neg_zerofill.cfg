SPECIFICATION MCSpec
CONSTANTS
  Codes <- AllCodes
  Mutant = "zerofill"
INVARIANTS RoundTrip8 Canonical8 FloatRoute WidthLemmas IndexRoundTrip FrameLaw RowFrameLaw
