SPECIFICATION MCSpec
CONSTANTS
  Codes <- NegCodes
  Mutant = "zerofill"
INVARIANTS RoundTrip8 Canonical8 FloatRoute WidthLemmas IndexRoundTrip FrameLaw RowFrameLaw
