SPECIFICATION MCSpec
CONSTANTS
  Codes <- AllCodes
  Mutant = "none"
INVARIANTS RoundTrip8 Canonical8 FloatRoute WidthLemmas IndexRoundTrip FrameLaw RowFrameLaw
