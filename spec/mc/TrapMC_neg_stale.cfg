SPECIFICATION MCSpec
CONSTANTS
  Fixed1 = 16
  Ds = {1, 4}
  YTs = {0, 1, 2, 3, 5, 7, 8, 11, 13, 15}
  DYs = {1, 2, 3, 4, 5, 6, 7, 9, 11, 12, 16, 17, 23, 24}
  DXMags = {0, 1, 2, 3, 4, 5, 7, 11, 12, 16, 17, 24, 25, 31, 33, 48}
  Above = 20
  Below = 8
  JumpMags = {16, 32}
  QStale = TRUE
  QExact0 = FALSE
  QBackstep = FALSE
INVARIANTS Bounds Residual WalkerMeaning PathIndependent SmallIsStep
