------------------------------ MODULE BoundsMC ------------------------------
(* The "samples cover clip" test of analyze_extent, transcribed for one axis on a scaled   *)
(* fixed-point grid (One = 16 units per pixel, e = 1 unit), against its pointwise meaning: *)
(* if the test raises the flag then EVERY destination pixel of the extents samples inside  *)
(* the source.  All scale factors, translations, extents and source widths of the grid are *)
(* enumerated (one initial state per scale factor so that all workers are used).           *)
EXTENDS Bounds

CONSTANTS One, MaxW, MaxX, Mutant,
          Half, MaxBigW      \* word of 2 * Half units; image sizes 1..MaxBigW pixels (beyond Half / One)

VARIABLES s, done        \* s: scale factor (units per destination pixel)

Init == s \in (-2 * One)..(2 * One) /\ done = FALSE
Next == done = FALSE /\ done' = TRUE /\ UNCHANGED s
Spec == Init /\ [][Next]_<<s, done>>

Pos(t, x) == s * x + t + FloorDiv2(s + 1)          \* PosX with m = <<s, 0, t>>
Lo(a, b) == IF a < b THEN a ELSE b
Hi(a, b) == IF a > b THEN a ELSE b

(* compute_transformed_extents: min / max over the corner pixel centres *)
TrLo(t, x1, x2) == Lo(Pos(t, x1), Pos(t, x2 - 1))
TrHi(t, x1, x2) == Hi(Pos(t, x1), Pos(t, x2 - 1))

(* the library's tests (pixman_fixed_to_int is floor division by One) *)
CoverNearest(t, x1, x2, w) ==
    /\ (TrLo(t, x1, x2) - 1) \div One >= 0
    /\ IF Mutant = "le_width" THEN (TrHi(t, x1, x2) - 1) \div One <= w ELSE (TrHi(t, x1, x2) - 1) \div One < w
CoverBilinear(t, x1, x2, w) ==
    /\ (TrLo(t, x1, x2) - One \div 2) \div One >= 0
    /\ (TrHi(t, x1, x2) + One \div 2) \div One < w

FlagSound ==
    done =>
    \A t \in (-3 * One)..(3 * One), x1 \in 0..MaxX, x2 \in 1..(MaxX + 1), w \in 1..MaxW :
        x1 < x2 =>
          /\ CoverNearest(t, x1, x2, w)  => \A x \in x1..(x2 - 1) : NearestInside(Pos(t, x), w, One)
          /\ CoverBilinear(t, x1, x2, w) => \A x \in x1..(x2 - 1) : BilinearInside(Pos(t, x), w, One)
(* the corner argument used by the trace specification: extremes of an affine map are at the corners *)
CornersSuffice ==
    done =>
    \A t \in (-3 * One)..(3 * One), x1 \in 0..MaxX, x2 \in 1..(MaxX + 1), w \in 1..MaxW :
        x1 < x2 =>
          ((NearestInside(Pos(t, x1), w, One) /\ NearestInside(Pos(t, x2 - 1), w, One))
             => \A x \in x1..(x2 - 1) : NearestInside(Pos(t, x), w, One))

(* ---- WideIndex (split evaluation used by the trace specification for coordinates up to 2^17) is the plain     *)
(* ---- floor wherever the plain evaluation fits TLC's integers: one matrix row per initial state s              *)
SplitSamples == {-131072, -70001, -65537, -32768, -257, -256, -255, -3, -1, 0, 1, 2, 255, 256, 257, 4095, 4096,
                 32767, 32768, 65535, 65536}
SplitExact ==
    done =>
    LET m1 == s * 4099  m2 == s * 1021 - 7 IN        \* |m1| <= 2 * One * 4099 (~ 2^17): direct products fit for |x| <= 4096
    \A x \in {v \in SplitSamples : v >= -4096 /\ v <= 4096}, y \in {-300, -1, 0, 1, 255, 256, 1000},
       m3 \in {-2147483647 - 1, -65537, -65536, -1, 0, 1, 65535, 65536, 2147483647 - 1048576 * 2},
       off \in {-1, -32768, 32768, 0} :
        LET half == FloorDiv2(m1 + m2 + 1)
            direct == m1 * x + m2 * y + half + off IN
        \* m3 is added after the division (it may be anything a 32-bit word holds): floor ((d + m3) / 65536)
        WideIndex(m1, m2, m3, x, y, off) =
            (m3 \div 65536) + ((direct + (m3 % 65536)) \div 65536)
(* the split form never leaves the 32-bit range on the domain WFits admits (TLC would report the overflow) *)
SplitTotal ==
    done =>
    \A m1 \in {-1048576, 1048576, s * 32768}, m2 \in {-1048576, 0, 1048576}, x \in SplitSamples, y \in {-131072, 0, 131072},
       m3 \in {-2147483647 - 1, 0, 2147483647} :
        WFits(m1, m2, x, y) => WideIndex(m1, m2, m3, x, y, -32768) <= WideIndex(m1, m2, m3, x, y, 32768)

(* ---- dimensions converted to fixed point: the end-relative addressing of the scaled main loops ---- *)
(* Guard = "all": every BITS image of Half / One - 1 pixels or more is refused (analyze_extent);          *)
(* Guard = "repeat_only": the refusal is limited to repeating images (the mutant).  For every admitted    *)
(* image and every representable position inside it the pixel addressed must be the pixel sampled.        *)
Guard == IF Mutant = "repeat_only" THEN "repeat_only" ELSE "all"
Admitted(w, rep) == (Guard = "all" \/ rep # "none") => w < Half \div One - 1
WidthSound ==
    done =>
    \A w \in 1..MaxBigW, rep \in {"none", "pad", "normal"} :
        Admitted(w, rep) =>
            \A vx \in 0..(Lo(w * One, Half) - 1) : EndRelativeIndex(w, vx, One, Half) = vx \div One
=============================================================================
