------------------------------ MODULE BoundsMC ------------------------------
(* The "samples cover clip" test of analyze_extent, transcribed for one axis on a scaled   *)
(* fixed-point grid (One = 16 units per pixel, e = 1 unit), against its pointwise meaning: *)
(* if the test raises the flag then EVERY destination pixel of the extents samples inside  *)
(* the source.  All scale factors, translations, extents and source widths of the grid are *)
(* enumerated (one initial state per scale factor so that all workers are used).           *)
EXTENDS Bounds

CONSTANTS One, MaxW, MaxX, Mutant

VARIABLES s, done        \* s: scale factor (units per destination pixel)

Init == s \in (-2 * One)..(2 * One) /\ done = FALSE
Next == done = FALSE /\ done' = TRUE /\ UNCHANGED s
Spec == Init /\ [][Next]_<<s, done>>

Pos(t, x) == s * x + t + FloorDiv2(s + 1)          \* PosX with m = <<s, 0, t>>
Lo(a, b) == IF a < b THEN a ELSE b
Hi(a, b) == IF a > b THEN a ELSE b

(* compute_transformed_extents: min / max over the corner pixel centres *)
TrLo(t, x1, x2) == Lo(Pos(t, x1), Pos(t, x2 - 1))
TrHi(t, x1, x2) == Hi(Pos(t, x1), Pos(t, x2 - 1))

(* the library's tests (pixman_fixed_to_int is floor division by One) *)
CoverNearest(t, x1, x2, w) ==
    /\ (TrLo(t, x1, x2) - 1) \div One >= 0
    /\ IF Mutant = "le_width" THEN (TrHi(t, x1, x2) - 1) \div One <= w ELSE (TrHi(t, x1, x2) - 1) \div One < w
CoverBilinear(t, x1, x2, w) ==
    /\ (TrLo(t, x1, x2) - One \div 2) \div One >= 0
    /\ (TrHi(t, x1, x2) + One \div 2) \div One < w

FlagSound ==
    done =>
    \A t \in (-3 * One)..(3 * One), x1 \in 0..MaxX, x2 \in 1..(MaxX + 1), w \in 1..MaxW :
        x1 < x2 =>
          /\ CoverNearest(t, x1, x2, w)  => \A x \in x1..(x2 - 1) : NearestInside(Pos(t, x), w, One)
          /\ CoverBilinear(t, x1, x2, w) => \A x \in x1..(x2 - 1) : BilinearInside(Pos(t, x), w, One)
(* the corner argument used by the trace specification: extremes of an affine map are at the corners *)
CornersSuffice ==
    done =>
    \A t \in (-3 * One)..(3 * One), x1 \in 0..MaxX, x2 \in 1..(MaxX + 1), w \in 1..MaxW :
        x1 < x2 =>
          ((NearestInside(Pos(t, x1), w, One) /\ NearestInside(Pos(t, x2 - 1), w, One))
             => \A x \in x1..(x2 - 1) : NearestInside(Pos(t, x), w, One))
=============================================================================
