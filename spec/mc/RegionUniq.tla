----------------------------- MODULE RegionUniq -----------------------------
(* Uniqueness of the canonical form (C06), exhaustively on a small grid:               *)
(* for EVERY list of distinct non-empty boxes on the grid, presented in y-x order,     *)
(* the structural description of the statement (IsCanonStruct) holds exactly when the  *)
(* list is the one Canon constructs from its point set.  Hence two structurally        *)
(* canonical lists with the same points are the same list.                             *)
(* The 2^|Boxes| subsets are split over 2^Split initial states to use all workers.     *)
EXTENDS Region

CONSTANTS GX, GY, Split

VARIABLES part, done

Boxes == {b \in {<<x1, y1, x2, y2>> : x1 \in 0..GX, y1 \in 0..GY, x2 \in 0..GX, y2 \in 0..GY} : Good(b)}
Less(a, b) == \/ a[2] < b[2]
              \/ a[2] = b[2] /\ a[1] < b[1]
              \/ a[2] = b[2] /\ a[1] = b[1] /\ a[4] < b[4]
              \/ a[2] = b[2] /\ a[1] = b[1] /\ a[4] = b[4] /\ a[3] < b[3]
BoxSeq == SetToSortSeq(Boxes, Less)
Fixed == {BoxSeq[i] : i \in 1..Split}
Rest  == Boxes \ Fixed

Init == part \in SUBSET Fixed /\ done = FALSE /\ reg = <<>>
Next == done = FALSE /\ done' = TRUE /\ UNCHANGED <<part, reg>>

Theorem ==
    done => \A T \in SUBSET Rest :
               LET L == SetToSortSeq(part \cup T, Less) IN IsCanonStruct(L) <=> IsCanonical(L)
Spec == Init /\ [][Next]_<<part, done, reg>>
=============================================================================
