SPECIFICATION MCSpec
CONSTANTS
  Keys <- MCKeys
  Vals <- MCVals
  Hash <- MCHash
  NoVal = 0
  H = 8
  HIGH = 4
  LOW = 2
  NK = 5
  Classes <- Cls60
  NV = 1
  MaxFreeze = 2
  WithUse = TRUE
  CapRule = "free"
  Mutant = "remove_null"
INVARIANTS TypeOK CountsMatch NoDuplicate Reachable NullExists ProbesTerminate NoHang MruMatches ValMatches WaterMarks NotStuck AbsInv
PROPERTY AbsSpec
