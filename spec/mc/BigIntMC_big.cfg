SPECIFICATION MCSpec
CONSTANTS
  R = 0
  K = 0
  Mode = "big"
  Mutant = "none"
INVARIANT AllOK
