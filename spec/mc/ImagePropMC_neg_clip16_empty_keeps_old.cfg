SPECIFICATION MCSpec
CONSTANTS
  Img = {1}
  GKeys = {1}
  MaxHeld = 1
  Bugs = {"clip16_empty_keeps_old"}
  Depth = 4
  Types = {"bits", "indexed", "gradient", "solid"}
CONSTRAINT DepthBound
VIEW MCView
INVARIANTS InvFaithful InvRefreshed InvHistoryIndependent
