SPECIFICATION MCSpec
CONSTANTS
  Fix = 0
  Mutant = "none"
INVARIANTS ProbeOK CopyOK FlipOK HomogeneousOK RefOK RangeOK WideConsistentOK
VIEW MCView
