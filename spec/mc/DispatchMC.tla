----------------------------- MODULE DispatchMC -----------------------------
(* Cache transparency on small abstract tables, for every history of requests, with one  *)
(* cache per thread (Threads = 1 element for C02; several for C16).                       *)
(* The lookup is modelled at the grain of the code: scan (read the cache), then the       *)
(* update is written slot by slot (the shift loop and the stores into slot 0 are separate *)
(* steps), so that with a cache shared between threads (negative configuration            *)
(* Shared = TRUE) TLC finds the torn entry that the per-thread cache rules out.           *)
EXTENDS Dispatch

CONSTANTS Threads, Shared, LooseKey, FewKeys

VARIABLES cache,      \* cache owner -> sequence of [key, res]
          pc,         \* thread -> "idle" | "scanned" | "writing"
          cur,        \* thread -> [key, res, newc, pos] : lookup in progress
          answered    \* thread -> <<key, res>> of the last completed lookup, or <<>>

vars == <<cache, pc, cur, answered>>

AnyOp == 9
AnyFmt == 9
Flags == {1, 2}

(* three implementations; the first ones are specific, the last is the general catch-all *)
Tables ==
    << << [op |-> 1, sf |-> 1, mf |-> AnyFmt, df |-> 1, sfl |-> {1, 2}, mfl |-> {}, dfl |-> {}, func |-> 11],
          [op |-> 1, sf |-> 1, mf |-> AnyFmt, df |-> 1, sfl |-> {1}, mfl |-> {}, dfl |-> {}, func |-> 12] >>,
       << [op |-> AnyOp, sf |-> 1, mf |-> AnyFmt, df |-> AnyFmt, sfl |-> {2}, mfl |-> {}, dfl |-> {}, func |-> 21],
          [op |-> 2, sf |-> AnyFmt, mf |-> AnyFmt, df |-> 2, sfl |-> {}, mfl |-> {}, dfl |-> {1}, func |-> 22] >>,
       << [op |-> AnyOp, sf |-> AnyFmt, mf |-> AnyFmt, df |-> AnyFmt, sfl |-> {}, mfl |-> {}, dfl |-> {}, func |-> 31] >> >>

AllKeys == [op : {1, 2}, sf : {1, 2}, mf : {0}, df : {1, 2}, sfl : SUBSET Flags, mfl : {{}}, dfl : {{}, {1}}]
(* with several threads the key set is cut down to keys that are served by different entries *)
Keys == IF FewKeys
        THEN {k \in AllKeys : k.sf = 1 /\ k.df = 1 /\ k.dfl = {} /\ (k.op = 1 \/ k.sfl = {2})}
        ELSE AllKeys

Owner(t) == IF Shared THEN "all" ELSE t
Owners == IF Shared THEN {"all"} ELSE Threads

(* the negative configuration LooseKey compares keys by "the cached entry would match" instead of equality *)
KeyEq(k1, k2) ==
    IF LooseKey
    THEN k1.op = k2.op /\ k1.sf = k2.sf /\ k1.mf = k2.mf /\ k1.df = k2.df /\
         k1.sfl \subseteq k2.sfl /\ k1.mfl \subseteq k2.mfl /\ k1.dfl \subseteq k2.dfl
    ELSE k1 = k2

Hit(c, key) ==
    LET idx == {i \in DOMAIN c : KeyEq(c[i].key, key)} IN
    IF idx = {} THEN 0 ELSE CHOOSE i \in idx : \A k \in idx : i <= k

Init == /\ cache = [o \in Owners |-> <<>>]
        /\ pc = [t \in Threads |-> "idle"]
        /\ cur = [t \in Threads |-> <<>>]
        /\ answered = [t \in Threads |-> <<>>]

(* step 1: scan the cache / walk the tables; the answer is fixed here *)
Scan(t, key) ==
    /\ pc[t] = "idle"
    /\ LET c == cache[Owner(t)]
           i == Hit(c, key)
           res == IF i # 0 THEN c[i].res ELSE TableWalk(Tables, key, AnyOp, AnyFmt)
           newc == IF i # 0 THEN MoveToFront(c, i) ELSE InsertFront(c, [key |-> key, res |-> res])
       IN  /\ cur' = [cur EXCEPT ![t] = [key |-> key, res |-> res, newc |-> newc, pos |-> Len(newc)]]
           /\ answered' = [answered EXCEPT ![t] = <<key, res>>]
    /\ pc' = [pc EXCEPT ![t] = "writing"]
    /\ UNCHANGED cache

(* step 2..n: the update is stored slot by slot from the back (the shift loop copies whole entries); *)
(* the front slot is then filled field by field as in the code: the key fields first, the function   *)
(* pointer last (pos = -1 : key stored, result still to be stored).                                  *)
WriteSlot(t) ==
    /\ pc[t] = "writing"
    /\ LET o == Owner(t)  p == cur[t].pos  c == cache[o] IN
       CASE p = 0 ->
              /\ pc' = [pc EXCEPT ![t] = "idle"] /\ cur' = [cur EXCEPT ![t] = <<>>] /\ UNCHANGED cache
         [] p >= 2 ->
              /\ cache' = [cache EXCEPT ![o] =
                             IF p <= Len(c) THEN [c EXCEPT ![p] = cur[t].newc[p]]
                             ELSE Append(c, cur[t].newc[p])]
              /\ cur' = [cur EXCEPT ![t].pos = p - 1]
              /\ UNCHANGED pc
         [] p = 1 ->        \* key of the front slot; the result field keeps whatever was there
              /\ cache' = [cache EXCEPT ![o] =
                             IF Len(c) >= 1 THEN [c EXCEPT ![1] = [key |-> cur[t].newc[1].key, res |-> c[1].res]]
                             ELSE <<[key |-> cur[t].newc[1].key, res |-> <<0, 0>>]>>]
              /\ cur' = [cur EXCEPT ![t].pos = -1]
              /\ UNCHANGED pc
         [] p = -1 ->       \* result of the front slot
              /\ cache' = [cache EXCEPT ![o] =
                             IF Len(c) >= 1 THEN [c EXCEPT ![1] = [key |-> c[1].key, res |-> cur[t].newc[1].res]] ELSE c]
              /\ cur' = [cur EXCEPT ![t].pos = 0]
              /\ UNCHANGED pc
    /\ UNCHANGED answered

\* writes go from the back to the front, but a growing cache must append first: write order low..high when growing
Next == \E t \in Threads : (\E key \in Keys : Scan(t, key)) \/ WriteSlot(t)
Spec == Init /\ [][Next]_vars

(* Transparency: every answer is what a fresh table walk gives *)
Transparent == \A t \in Threads : answered[t] # <<>> =>
                  answered[t][2] = TableWalk(Tables, answered[t][1], AnyOp, AnyFmt)
(* every request is served by something (the general implementation matches everything) *)
Served == \A key \in Keys : TableWalk(Tables, key, AnyOp, AnyFmt)[1] # 0
(* cached entries are truthful whenever no update is in flight on that cache *)
CacheTruthful ==
    \A o \in Owners :
        (\A t \in Threads : Owner(t) = o => pc[t] = "idle") =>
            \A i \in DOMAIN cache[o] : cache[o][i].res = TableWalk(Tables, cache[o][i].key, AnyOp, AnyFmt)
=============================================================================
