----------------------------- MODULE TrapTileMC -----------------------------
(***************************************************************************)
(* Design-level check of the "Hence ..." clauses of C12 on a scaled        *)
(* lattice: for every trapezoid of a family (all depths of Ds, tops and    *)
(* bottoms of a box that sticks out of the image above and below, edges    *)
(* with end points at, above and below the trapezoid's vertical range,     *)
(* slopes of both signs, whole-number and fractional)                      *)
(*   HSplit   cutting the trapezoid at any horizontal line gives, row by   *)
(*            row, exactly the spans of the uncut trapezoid;               *)
(*   VSplit   cutting it by a middle edge (identical end points in both    *)
(*            parts) strictly between the outer edges on every sampled row *)
(*            gives exactly the counts of the uncut trapezoid;             *)
(*   Shift    rasterising at a whole-pixel offset gives the spans shifted  *)
(*            by that offset (rows that fall off the image are clipped);   *)
(*   Geometry every count is the number of grid samples (s, y) of the      *)
(*            pixel with top <= y < bottom and XL(y) <= s < XR(y), up to   *)
(*            samples lying exactly on an edge line.                       *)
(*   WideRows the cursor of the mathematical line (wide edges) gives the   *)
(*            same rows of spans as the walker records.                    *)
(* Negative configurations: QStale = TRUE, QExact0 = TRUE (the unrepaired  *)
(* walker): HSplit fails, i.e. TLC exhibits a trapezoid that does not tile *)
(* with itself.                                                            *)
(***************************************************************************)
EXTENDS Trap, FiniteSets, TLC

CONSTANTS Ds, W, H,
          Tops, Heights,        \* top and bottom - top, lattice units (tops may be negative via TopShift)
          TopShift,             \* subtracted from every element of Tops
          XLs, XRs, XMs,        \* abscissae of left / right / middle edge end points
          Exts,                 \* how far the edge end points lie above top / below bottom
          QStale, QExact0

VARIABLES c

Q == [stale |-> QStale, exact0 |-> QExact0, backstep |-> QStale, wrap |-> FALSE]

Tz(top, bot, e1, e2, la, lb, ra, rb) == <<top, bot, la, top - e1, lb, bot + e2, ra, top - e1, rb, bot + e2>>

MCInit == \E n \in Ds, t \in Tops, h \in Heights : c = [ph |-> "pick", n |-> n, top |-> t - TopShift, bot |-> t - TopShift + h]
Pick == /\ c.ph = "pick"
        /\ \E e1 \in Exts, e2 \in Exts, la \in XLs, lb \in XLs, ra \in XRs, rb \in XRs, ma \in XMs, mb \in XMs :
              c' = [ph |-> "trap", n |-> c.n, tz |-> Tz(c.top, c.bot, e1, e2, la, lb, ra, rb),
                    mid |-> <<ma, c.top - e1, mb, c.bot + e2>>]
MCNext == Pick
MCSpec == MCInit /\ [][MCNext]_c

Rows(tz, n, xo, yo) == TrapRowsQ(tz, n, W, H, xo, yo, Q)
Cut(tz, a, b) == [tz EXCEPT ![1] = a, ![2] = b]

HSplit ==
    c.ph = "trap" =>
       LET whole == Rows(c.tz, c.n, 0, 0) IN
       \A m \in (c.tz[1] + 1)..(c.tz[2] - 1) :
          LET up == Rows(Cut(c.tz, c.tz[1], m), c.n, 0, 0)
              lo == Rows(Cut(c.tz, m, c.tz[2]), c.n, 0, 0) IN
          \A q \in 1..H : whole[q] = up[q] \o lo[q]

(* exact abscissa of a line <<x1, y1, x2, y2>> on row y compared with another line: XA(y) < XB(y) *)
LineLess(A, B, y) ==
    \* XA = A1 + (y - A2) (A3 - A1) / (A4 - A2); compare by cross multiplication (all values small)
    LET da == A[4] - A[2]  db == B[4] - B[2] IN
    (A[1] * da + (y - A[2]) * (A[3] - A[1])) * db < (B[1] * db + (y - B[2]) * (B[3] - B[1])) * da

SampledRows(tz, n) ==
    LET t == SampleCeilY(IF tz[1] < 0 THEN 0 ELSE tz[1], n)
        b == SampleFloorY(IF ToInt(tz[2]) >= H THEN H * Fixed1 - 1 ELSE tz[2], n)
    IN  {y \in t..b : IsSampleRow(y, n)}

VSplit ==
    c.ph = "trap" =>
       LET L == <<c.tz[3], c.tz[4], c.tz[5], c.tz[6]>>
           R == <<c.tz[7], c.tz[8], c.tz[9], c.tz[10]>>
           M == c.mid
           between == \A y \in SampledRows(c.tz, c.n) : LineLess(L, M, y) /\ LineLess(M, R, y)
           lm == [c.tz EXCEPT ![7] = M[1], ![8] = M[2], ![9] = M[3], ![10] = M[4]]
           mr == [c.tz EXCEPT ![3] = M[1], ![4] = M[2], ![5] = M[3], ![6] = M[4]]
       IN  between =>
              CoverageQ(c.tz, c.n, W, H, 0, 0, Q) =
                 AddCounts(CoverageQ(lm, c.n, W, H, 0, 0, Q), CoverageQ(mr, c.n, W, H, 0, 0, Q))

ShiftSpans(s, d) == [k \in DOMAIN s |-> <<s[k][1] + d, s[k][2] + d>>]
Shift ==
    c.ph = "trap" =>
       LET r0 == Rows(c.tz, c.n, 0, 0) IN
       /\ LET rx == Rows(c.tz, c.n, 1, 0) IN \A q \in 1..H : rx[q] = ShiftSpans(r0[q], Fixed1)
       /\ LET ry == Rows(c.tz, c.n, 0, 1) IN \A q \in 1..(H - 1) : ry[q + 1] = r0[q]
       /\ LET rz == Rows(c.tz, c.n, 0, -1) IN \A q \in 2..H : rz[q - 1] = r0[q]

(* WIDE EDGES: the rows of spans obtained by following both edges with the cursor of the         *)
(* mathematical line (as the specification does for edges whose deltas need 33 bits) are the    *)
(* rows the walker records give, at every offset.                                               *)
SmallBase == 4
WideRows ==
    c.ph = "trap" =>
       \A o \in {<<0, 0>>, <<1, -1>>} :
          TrapRowsG(c.tz, c.n, W, H, o[1], o[2], NoQuirks, TRUE) = TrapRowsG(c.tz, c.n, W, H, o[1], o[2], NoQuirks, FALSE)

(* The geometric meaning of the counts.  For pixel (p, q): inner = samples strictly inside     *)
(* (XL < s < XR), outer = samples inside or on an edge line (XL <= s <= XR), rows top <= y <    *)
(* bottom.  inner <= count <= outer; with no sample on an edge line the three coincide.        *)
Geometry ==
    c.ph = "trap" =>
       LET L == <<c.tz[3], c.tz[4], c.tz[5], c.tz[6]>>
           R == <<c.tz[7], c.tz[8], c.tz[9], c.tz[10]>>
           cov == CoverageQ(c.tz, c.n, W, H, 0, 0, Q)
           ys(q) == {y \in ((q - 1) * Fixed1)..(q * Fixed1 - 1) : IsSampleRow(y, c.n) /\ c.tz[1] <= y /\ y < c.tz[2]}
           xs(p) == {(p - 1) * Fixed1 + XEff(c.n) + k * StepXSmall(c.n) : k \in 0..(NXFrac(c.n) - 1)}
           P(s, y) == <<s, y, s, y + 1>>       \* the vertical line x = s, to reuse LineLess
       IN  \A q \in 1..H : \A p \in 1..W :
              LET inner == Cardinality({<<s, y>> \in xs(p) \X ys(q) : LineLess(L, P(s, y - 1), y) /\ LineLess(P(s, y - 1), R, y)})
                  outer == Cardinality({<<s, y>> \in xs(p) \X ys(q) : ~LineLess(P(s, y - 1), L, y) /\ ~LineLess(R, P(s, y - 1), y)})
                  k == cov[(q - 1) * W + p]
              IN  inner <= k /\ k <= outer
=============================================================================
