----------------------------- MODULE PixmanSysMC -----------------------------
(* The root specification explored as a state machine: every history (up to MaxDepth calls) of property      *)
(* setters, reference counting, region calls, composites and fills on a destination, one source, one mask    *)
(* and the images derived from them.  In every reachable state TLC evaluates the relations between the       *)
(* pieces of the specification that the properties rely on - they are theorems ABOUT the specification       *)
(* (if one failed, the trace check built on it would demand something contradictory from the library):       *)
(*                                                                                                           *)
(*   Frame         a drawing call changes nothing outside request /\ bounds /\ clips (C03) and nothing in    *)
(*                 any other image                                                                           *)
(*   FillIsComp    pixman_image_fill_boxes (stated box after box) = one composite of a solid image per box   *)
(*                 (C19); drawing the union once (Mutant "fill_union") blends doubly covered pixels once     *)
(*                 and is rejected; ShortcutSound: for SRC, CLEAR and opaque OVER the union is the same      *)
(*   SolidIsTile   a 1x1 NORMAL-repeating image and a solid fill of the same colour are one source (C09)     *)
(*   OpaqueFormat  an x8r8g8b8 image and the a8r8g8b8 image with alpha 255 are one source wherever the       *)
(*                 request stays inside it or it repeats (C09, C10)                                          *)
(*   TranslateIsOffset  an integer translation equals the same shift of the request's source origin as long  *)
(*                 as no source clip is in force - with one, they differ (the clip does not move with the    *)
(*                 transform): Mutant "clip_moves" is rejected                                               *)
(*   Folded        every repeat mode folds into the image; REFLECT is an involution of period 2n             *)
(*   RefsPositive  an image exists iff its count is positive; a composite never names a dead image (C20)     *)
(*   UnaffectedByHistory  the result of a request is a function of the CURRENT properties: a second image    *)
(*                 that receives the same final properties by a direct route renders identically (C14)       *)
EXTENDS Pixman

CONSTANTS Mutant, MaxDepth
VARIABLES depth, last        \* last = the last drawing call (kind, args, image pool before it)

vars == <<reg, img, depth, last>>

D == 1  S == 2  M == 3
Px4(a, r, g, b) == <<a, r, g, b>>
DstPx == <<Px4(255, 10, 20, 30), Px4(128, 100, 0, 128), Px4(0, 0, 0, 0), Px4(64, 64, 1, 2)>>
SrcPx == <<Px4(200, 150, 9, 200), Px4(77, 0, 77, 31)>>
MskPx == <<Px4(255, 0, 0, 0), Px4(0, 0, 0, 0), Px4(128, 0, 0, 0), Px4(1, 0, 0, 0)>>
MskCA == <<Px4(255, 0, 128, 255), Px4(0, 255, 1, 0)>>

ClipCat == <<<<<<0, 0, 1, 2>>>>, <<<<1, 0, 2, 1>>, <<0, 1, 1, 2>>>>, <<>>>>
Ops == {Op_SRC, Op_OVER, Op_IN_REVERSE, Op_ADD, Op_XOR}
Cols == {<<65535, 65535, 0, 32768>>, <<32768, 16384, 0, 32768>>}
BoxCat == {<<<<0, 0, 2, 1>>>>, <<<<0, 0, 2, 1>>, <<1, 0, 2, 2>>>>, <<<<-1, -1, 1, 1>>, <<0, 0, 1, 1>>>>}

Init ==
    /\ reg = [v \in 0..1 |-> Empty]
    /\ \E sf \in {"a8r8g8b8", "x8r8g8b8"}, mk \in {"a8", "ca"} :
         img = (D :> Bits("a8r8g8b8", 2, 2, DstPx)) @@
               (S :> IF Mutant = "clip_moves"      \* the negative configuration starts where the difference shows
                     THEN [Bits(sf, 2, 1, SrcPx) EXCEPT !.clip = ClipOf(<<<<0, 0, 1, 1>>>>), !.srcclip = TRUE, !.tx = 1]
                     ELSE Bits(sf, 2, 1, SrcPx)) @@
               (M :> IF mk = "a8" THEN Bits("a8", 2, 2, MskPx) ELSE [Bits("a8r8g8b8", 2, 1, MskCA) EXCEPT !.ca = TRUE])
    /\ depth = 0
    /\ last = [k |-> "none"]

Step(A) == depth < MaxDepth /\ depth' = depth + 1 /\ A
Quiet == last' = [k |-> "none"]

Next ==
    \/ \E c \in 1..Len(ClipCat) : Step(reg' = [reg EXCEPT ![1] = Val(ClipCat[c])] /\ UNCHANGED img /\ Quiet)
    \/ \E i \in {D, S, M} : Step(SetClip(i, 1) /\ Quiet)
    \/ \E i \in {D} : Step(ClearClip(i) /\ Quiet)
    \/ \E i \in {S, M}, on \in BOOLEAN : Step(SetSourceClipping(i, on) /\ Quiet)
    \/ \E i \in {S, M}, r \in 0..3 : Step(SetRepeat(i, r) /\ Quiet)
    \/ \E i \in {S}, tx \in {-1, 1}, ty \in {0, 1} : Step(SetTranslation(i, tx, ty) /\ Quiet)
    \/ \E i \in {S} : Step(Ref(i) /\ Quiet)
    \/ \E i \in {S} : Step(Unref(i, img[i].refs = 1) /\ Quiet)
    \/ \E op \in {Op_OVER, Op_XOR}, mi \in {0, M}, sx \in {0, 1}, dx \in {0, 1}, w \in {2} :
         Step(/\ Composite(op, S, mi, D, sx, 0, 0, 0, dx, 0, w, 2)
              /\ last' = [k |-> "comp", op |-> op, s |-> S, m |-> mi, sx |-> sx, dx |-> dx, w |-> w, before |-> img])
    \/ \E op \in {Op_OVER, Op_ADD}, col \in {<<32768, 16384, 0, 32768>>}, bx \in BoxCat :
         Step(/\ FillBoxes(op, col, D, bx)
              /\ last' = [k |-> "fill", op |-> op, col |-> col, bx |-> bx, before |-> img])

Spec == Init /\ [][Next]_vars

-----------------------------------------------------------------------------
InRect(x, y, r) == r[1] <= x /\ x < r[3] /\ r[2] <= y /\ y < r[4]
InList(x, y, c) == ~c.on \/ \E i \in DOMAIN c.r : InRect(x, y, c.r[i])
XY(d, i) == <<(i - 1) % d.w, (i - 1) \div d.w>>

Frame ==
    /\ last.k = "comp" =>
         LET b == last.before   d == b[D]   s == b[last.s] IN
         /\ \A j \in DOMAIN img \ {D} : img[j] = b[j]
         /\ \A i \in 1..(d.w * d.h) :
              LET x == XY(d, i)[1]   y == XY(d, i)[2]
                  inside == /\ last.dx <= x /\ x < last.dx + last.w
                            /\ InList(x, y, d.clip)
                            /\ (~s.srcclip \/ InList(x + last.sx - last.dx, y, s.clip))
                            /\ (last.m = 0 \/ ~b[last.m].srcclip \/ InList(x - last.dx, y, b[last.m].clip))
              IN  ~inside => img[D].px[i] = d.px[i]
    /\ last.k = "fill" =>
         LET b == last.before   d == b[D] IN
         /\ \A j \in DOMAIN img \ {D} : img[j] = b[j]
         /\ \A i \in 1..(d.w * d.h) :
              LET x == XY(d, i)[1]   y == XY(d, i)[2] IN
              ~(InList(x, y, d.clip) /\ \E k \in DOMAIN last.bx : InRect(x, y, last.bx[k])) => img[D].px[i] = d.px[i]

(* fill_boxes = one composite of a solid image per box, the box as the request rectangle *)
RECURSIVE PerBoxComposite(_, _, _, _)
PerBoxComposite(op, col, d, bx) ==
    IF bx = <<>> THEN d.px
    ELSE LET b == Head(bx) IN
         PerBoxComposite(op, col,
                         [d EXCEPT !.px = CompositeResult(op, Solid(col), NoImage, d, 0, 0, 0, 0, b[1], b[2], b[3] - b[1], b[4] - b[2])],
                         Tail(bx))

FillIsComp ==
    \A op \in {Op_OVER, Op_ADD, Op_OUT_REVERSE}, col \in {<<32768, 16384, 0, 32768>>}, bx \in BoxCat :
        LET d == img[D]
            direct == IF Mutant = "fill_union" THEN FillUnion(op, col, d, bx) ELSE FillResult(op, col, d, bx)
        IN  direct = PerBoxComposite(op, col, d, bx)

(* the direct-fill shortcut draws the union once: sound for the operators it is taken for *)
ShortcutSound ==
    \A bx \in BoxCat :
        /\ \A op \in {Op_SRC, Op_CLEAR}, col \in Cols : FillUnion(op, col, img[D], bx) = FillResult(op, col, img[D], bx)
        /\ FillUnion(Op_OVER, <<65535, 65535, 0, 32768>>, img[D], bx) = FillResult(Op_SRC, <<65535, 65535, 0, 32768>>, img[D], bx)

SolidIsTile ==
    \A op \in {Op_OVER, Op_IN_REVERSE}, col \in Cols, dx \in {0, 1} :
        LET tile == [Bits("a8r8g8b8", 1, 1, Solid(col).px) EXCEPT !.rep = RepNormal] IN
        CompositeResult(op, Solid(col), MaskOf(M), img[D], 0, 0, 0, 0, dx, 0, 2, 2)
          = CompositeResult(op, tile, MaskOf(M), img[D], 0, 0, 0, 0, dx, 0, 2, 2)

OpaqueFormat ==
    Live(S) /\ img[S].fmt = "x8r8g8b8" =>
        LET s == img[S]
            t == [s EXCEPT !.fmt = "a8r8g8b8", !.px = [i \in DOMAIN s.px |-> <<255, s.px[i][2], s.px[i][3], s.px[i][4]>>]]
        IN  \A op \in {Op_OVER, Op_IN_REVERSE, Op_ADD}, sx \in {0, 1} :
              CompositeResult(op, s, NoImage, img[D], sx, 0, 0, 0, 0, 0, 2, 2) = CompositeResult(op, t, NoImage, img[D], sx, 0, 0, 0, 0, 0, 2, 2)

TranslateIsOffset ==
    Live(S) =>
        LET s == img[S]   u == [s EXCEPT !.tx = 0, !.ty = 0] IN
        (Mutant = "clip_moves" \/ ~ClipsAsSource(s)) =>
            \A op \in {Op_SRC, Op_OVER}, dx \in {0, 1} :
                CompositeResult(op, s, NoImage, img[D], 0, 0, 0, 0, dx, 0, 2, 2)
                  = CompositeResult(op, u, NoImage, img[D], s.tx, s.ty, 0, 0, dx, 0, 2, 2)

ASSUME Folded ==
    \A n \in 1..3, c \in -7..7, r \in 1..3 :
        /\ Fold(c, n, r) \in 0..(n - 1)
        /\ r # RepPad => Fold(c + 2 * n, n, r) = Fold(c, n, r)
        /\ r = RepReflect => Fold(-1 - c, n, r) = Fold(c, n, r)
        /\ (0 <= c /\ c < n) => Fold(c, n, r) = c

RefsPositive == \A i \in DOMAIN img : img[i].refs > 0

(* the same final properties set on a fresh replica by the shortest route *)
UnaffectedByHistory ==
    Live(S) =>
        LET s == img[S]
            fresh == [Bits(s.fmt, s.w, s.h, s.px) EXCEPT !.clip = s.clip, !.srcclip = s.srcclip, !.rep = s.rep,
                                                         !.tx = s.tx, !.ty = s.ty, !.ca = s.ca, !.refs = s.refs]
        IN  fresh = s

Bound == depth <= MaxDepth
=============================================================================
