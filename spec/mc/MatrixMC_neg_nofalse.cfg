SPECIFICATION MCSpec
CONSTANTS
  FB = 3
  WB = 7
  Mutant = "nofalse"
  Wide = FALSE
  Only = {"point", "invert"}
  LimbBits <- MCLimbBits
INVARIANTS Sound DevOK Tight
