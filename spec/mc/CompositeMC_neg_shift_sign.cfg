SPECIFICATION MCSpec
CONSTANTS
  DW = 3
  DH = 2
  Mutant = "shift_sign"
  Full = FALSE
INVARIANT RegionIsIntersection
