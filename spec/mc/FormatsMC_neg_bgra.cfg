SPECIFICATION MCSpec
CONSTANTS
  Codes <- NegCodes
  Mutant = "bgra"
INVARIANTS RoundTrip8 Canonical8 FloatRoute WidthLemmas IndexRoundTrip FrameLaw RowFrameLaw
