SPECIFICATION MCSpec
CONSTANTS
  Codes <- AllCodes
  Mutant = "bgra"
INVARIANTS RoundTrip8 Canonical8 FloatRoute WidthLemmas IndexRoundTrip FrameLaw RowFrameLaw
