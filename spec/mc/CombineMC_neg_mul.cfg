SPECIFICATION MCSpec
CONSTANT MulUn8 <- BadMulUn8
INVARIANTS MulUn8Lemma MulLemma UnormLemma DivLemma SqrtLemma Algebra Consistency EquivLemma RealSanity
