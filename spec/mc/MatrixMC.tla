------------------------------ MODULE MatrixMC ------------------------------
(* Design-level model check of the postconditions of spec/Matrix.tla.                               *)
(* The fixed-point format is scaled down (cfg: FB = 3 fraction bits in a WB = 7 bit word, 1.0 = 8,   *)
(* words -64..63, "|w| < 65536" becomes |P_3| < 2^10, boxes -8..7) so that every quantity fits TLC's  *)
(* native integers, and BigInt runs with 5-bit limbs so that it is multi-limb on these numbers.     *)
(* For every entry point an executable REFERENCE MODEL in native arithmetic (with real division)    *)
(* plays the implementation; TLC enumerates all inputs of a small scope and checks                   *)
(*   Sound   the model's result satisfies the statement  Post(c, {})  -- so the postconditions are   *)
(*           satisfiable on every input and accept correct rounding, FALSE on overflow, the         *)
(*           shifted big-divisor division, ...                                                      *)
(*   Tight   neighbouring results (an entry off by one, the return value flipped, w # 1.0) are       *)
(*           accepted iff a native brute-force reading of the statement accepts them                 *)
(*   DevOK   the defective models (per-term rounding, wrapped ceil, wrapped reciprocal/negation)     *)
(*           are accepted by their named deviation -- and, negative configurations, REJECTED by the  *)
(*           statement: with Mutant # "none" the mutant plays the implementation and TLC must report *)
(*           a violation of Sound.                                                                   *)
EXTENDS Matrix, TLC

CONSTANTS Mutant,     \* "none" | "wrap" | "trunc" | "perterm" | "boundsceil" | "recipwrap" | "nofalse"
          Wide,       \* larger scope (thorough tier)
          Only        \* the entry points explored (negative configurations name the one their mutant lives in)

MCLimbBits == 5

VARIABLES fn, pa, pb, ph

T    == 2 ^ (WB - 1)
ONE  == 2 ^ FB
MinW == -T
MaxW == T - 1
InW(q) == MinW <= q /\ q <= MaxW
WrapN(q) == ((q + T) % (2 * T)) - T
AbsN(x) == IF x < 0 THEN -x ELSE x
SgnN(x) == IF x < 0 THEN -1 ELSE IF x > 0 THEN 1 ELSE 0
LoN(a, b) == IF a < b THEN a ELSE b
HiN(a, b) == IF a > b THEN a ELSE b
RoundAwayN(n, d) == LET m == (2 * AbsN(n) + AbsN(d)) \div (2 * AbsN(d)) IN IF SgnN(n) * SgnN(d) < 0 THEN -m ELSE m
TruncN(n, d)     == LET m == AbsN(n) \div AbsN(d) IN IF SgnN(n) * SgnN(d) < 0 THEN -m ELSE m
Rnd(n, d)        == IF Mutant = "trunc" THEN TruncN(n, d) ELSE RoundAwayN(n, d)
HalfUp(n)        == (n + ONE \div 2) \div ONE                 \* floor ((n + 1/2) / 1.0)
RECURSIVE BitsN(_)
BitsN(x) == IF x = 0 THEN 0 ELSE 1 + BitsN(x \div 2)

B(x)    == FromInt(x)
BM(M)   == [i \in I3 |-> [j \in I3 |-> FromInt(M[i][j])]]
BV(v)   == [i \in DOMAIN v |-> FromInt(v[i])]

DotN(r, v) == r[1] * v[1] + r[2] * v[2] + r[3] * v[3]
ColN(M, j) == <<M[1][j], M[2][j], M[3][j]>>
MulVN(M, v) == [i \in I3 |-> DotN(M[i], v)]

-----------------------------------------------------------------------------
(* reference models (native arithmetic) *)

PointQ(M, v) ==      \* the unclipped quotients, as the code computes them (divisor reduced when it is too wide)
    LET P  == MulVN(M, v)
        D  == P[3]
        s  == IF AbsN(D) < 2 ^ (WB + FB) THEN 0 ELSE BitsN(AbsN(D)) - (WB + FB)
        Dr == D \div (2 ^ s)
    IN [i \in 1..2 |-> Rnd((P[i] * ONE) \div (2 ^ s), Dr)]

PointModel(M, v, mut) ==
    LET D == DotN(M[3], v) IN
    IF D = 0 THEN [ret |-> (mut = "nofalse"), o |-> v]
    ELSE LET q == PointQ(M, v) IN
         IF InW(q[1]) /\ InW(q[2]) THEN [ret |-> TRUE, o |-> <<q[1], q[2], ONE>>]
         ELSE IF mut = "wrap" THEN [ret |-> TRUE, o |-> <<WrapN(q[1]), WrapN(q[2]), ONE>>]
         ELSE [ret |-> FALSE, o |-> v]

Point3dModel(M, v) ==
    LET q == [i \in I3 |-> IF Mutant = "trunc" THEN TruncN(DotN(M[i], v), ONE) ELSE HalfUp(DotN(M[i], v))] IN
    IF \A i \in I3 : InW(q[i]) THEN [ret |-> TRUE, o |-> q]
    ELSE IF Mutant = "wrap" THEN [ret |-> TRUE, o |-> [i \in I3 |-> WrapN(q[i])]]
    ELSE [ret |-> FALSE, o |-> v]

MulModel(L, R, perterm) ==
    LET E == [i \in I3 |-> [j \in I3 |->
                 IF perterm THEN HalfUp(L[i][1] * R[1][j]) + HalfUp(L[i][2] * R[2][j]) + HalfUp(L[i][3] * R[3][j])
                 ELSE IF Mutant = "trunc" THEN TruncN(DotN(L[i], ColN(R, j)), ONE)
                 ELSE HalfUp(DotN(L[i], ColN(R, j)))]] IN
    IF \A i \in I3, j \in I3 : InW(E[i][j]) THEN [ret |-> TRUE, o |-> E]
    ELSE IF Mutant = "wrap" THEN [ret |-> TRUE, o |-> [i \in I3 |-> [j \in I3 |-> WrapN(E[i][j])]]]
    ELSE [ret |-> FALSE, o |-> L]

BoxLo == -(2 ^ (WB - FB - 1))
BoxHi == 2 ^ (WB - FB - 1) - 1
CornersN(b) == <<<<b[1], b[2]>>, <<b[3], b[2]>>, <<b[3], b[4]>>, <<b[1], b[4]>>>>
FloorN(q) == q \div ONE
CeilN(q)  == -((-q) \div ONE)
CeilWrapN(q) == IF q > MaxW - (ONE - 1) THEN BoxLo ELSE CeilN(q)
BoundsModel(M, b, wrapceil) ==
    LET pt == [k \in 1..4 |-> PointModel(M, <<CornersN(b)[k][1] * ONE, CornersN(b)[k][2] * ONE, ONE>>, "none")]
        cl(q) == IF wrapceil THEN CeilWrapN(q) ELSE CeilN(q)
        x1 == LoN(LoN(FloorN(pt[1].o[1]), FloorN(pt[2].o[1])), LoN(FloorN(pt[3].o[1]), FloorN(pt[4].o[1])))
        y1 == LoN(LoN(FloorN(pt[1].o[2]), FloorN(pt[2].o[2])), LoN(FloorN(pt[3].o[2]), FloorN(pt[4].o[2])))
        x2 == HiN(HiN(cl(pt[1].o[1]), cl(pt[2].o[1])), HiN(cl(pt[3].o[1]), cl(pt[4].o[1])))
        y2 == HiN(HiN(cl(pt[1].o[2]), cl(pt[2].o[2])), HiN(cl(pt[3].o[2]), cl(pt[4].o[2])))
    IN IF \E k \in 1..4 : ~pt[k].ret THEN [ret |-> FALSE, bout |-> b, pts |-> pt]
       ELSE IF ~wrapceil /\ (x2 > BoxHi \/ y2 > BoxHi) THEN [ret |-> FALSE, bout |-> b, pts |-> pt]
       ELSE [ret |-> TRUE, bout |-> <<x1, y1, x2, y2>>, pts |-> pt]

OthersN(i) == IF i = 1 THEN <<2, 3>> ELSE IF i = 2 THEN <<1, 3>> ELSE <<1, 2>>
CofN(M, i, j) == LET r == OthersN(i)  k == OthersN(j)
                     mn == M[r[1]][k[1]] * M[r[2]][k[2]] - M[r[1]][k[2]] * M[r[2]][k[1]]
                 IN IF (i + j) % 2 = 0 THEN mn ELSE -mn
DetN(M) == M[1][1] * CofN(M, 1, 1) + M[1][2] * CofN(M, 1, 2) + M[1][3] * CofN(M, 1, 3)
InvertModel(M) ==
    LET det == DetN(M) IN
    IF det = 0 THEN [ret |-> (Mutant = "nofalse"), o |-> M]
    ELSE LET X == [i \in I3 |-> [j \in I3 |-> Rnd(ONE * ONE * CofN(M, j, i), det)]] IN
         IF \A i \in I3, j \in I3 : InW(X[i][j]) THEN [ret |-> TRUE, o |-> X]
         ELSE IF Mutant = "wrap" THEN [ret |-> TRUE, o |-> [i \in I3 |-> [j \in I3 |-> WrapN(X[i][j])]]]
         ELSE [ret |-> FALSE, o |-> M]

ScaleMatN(sx, sy) == <<<<sx, 0, 0>>, <<0, sy, 0>>, <<0, 0, ONE>>>>
TransMatN(tx, ty) == <<<<ONE, 0, tx>>, <<0, ONE, ty>>, <<0, 0, ONE>>>>
(* forward and reverse, as the code: FALSE as soon as something does not fit; wrapdev: the defective   *)
(* casts (reciprocal 2^2FB/s and -x wrapped into the word)                                            *)
ScaleModel(F, R, sx, sy, hr, wrapdev) ==
    IF sx = 0 \/ sy = 0 THEN [ret |-> FALSE, fout |-> F, rout |-> R]
    ELSE LET rx == TruncN(ONE * ONE, sx)  ry == TruncN(ONE * ONE, sy)
             f == MulModel(ScaleMatN(sx, sy), F, FALSE)
         IN IF ~f.ret THEN [ret |-> FALSE, fout |-> F, rout |-> R]
            ELSE IF ~hr THEN [ret |-> TRUE, fout |-> f.o, rout |-> R]
            ELSE IF ~wrapdev /\ ~(InW(rx) /\ InW(ry)) THEN [ret |-> FALSE, fout |-> f.o, rout |-> R]
            ELSE LET r == MulModel(R, ScaleMatN(WrapN(rx), WrapN(ry)), FALSE) IN
                 [ret |-> r.ret, fout |-> f.o, rout |-> IF r.ret THEN r.o ELSE R]
TranslateModel(F, R, tx, ty, hr, wrapdev) ==
    LET f == MulModel(TransMatN(tx, ty), F, FALSE) IN
    IF ~f.ret THEN [ret |-> FALSE, fout |-> F, rout |-> R]
    ELSE IF ~hr THEN [ret |-> TRUE, fout |-> f.o, rout |-> R]
    ELSE IF ~wrapdev /\ ~(InW(-tx) /\ InW(-ty))
         THEN \* -tx is not a word: the exact product may still fit; the reference computes it exactly
              LET E == [i \in I3 |-> [j \in I3 |-> HalfUp(DotN(R[i], ColN(TransMatN(-tx, -ty), j)))]] IN
              IF \A i \in I3, j \in I3 : InW(E[i][j]) THEN [ret |-> TRUE, fout |-> f.o, rout |-> E]
              ELSE [ret |-> FALSE, fout |-> f.o, rout |-> R]
         ELSE LET r == MulModel(R, TransMatN(WrapN(-tx), WrapN(-ty)), FALSE) IN
              [ret |-> r.ret, fout |-> f.o, rout |-> IF r.ret THEN r.o ELSE R]

-----------------------------------------------------------------------------
(* scope *)
S5  == {MinW, -1, 0, ONE, MaxW} \cup (IF Wide THEN {-5} ELSE {})
S7  == {MinW, -5, -1, 0, 1, ONE, MaxW}
S7z == S7 \cup {2 * ONE} \cup (IF Wide THEN {-ONE, 3} ELSE {})
Sz  == {MinW, -1, 1, ONE, MaxW} \cup (IF Wide THEN {0, -5, 2 * ONE} ELSE {})
Sg  == {0, 1, MinW} \cup (IF Wide THEN {-1} ELSE {})
Si  == {MinW, -1, 0, 1, ONE, MaxW} \cup (IF Wide THEN {2 * ONE} ELSE {})
Sq  == {-ONE, 0, 1, ONE} \cup (IF Wide THEN {2, 2 * ONE} ELSE {})
Words == MinW..MaxW
SomeWords == IF Wide THEN (MinW..(MinW + 12)) \cup (-9..9) \cup ((MaxW - 24)..MaxW)
             ELSE (MinW..(MinW + 3)) \cup (-2..2) \cup ((MaxW - 12)..MaxW)

\* parameter tuples: pa is chosen in the initial state, pb in the single step (worker parallelism)
DomA(f) ==
    CASE f \in {"point", "point3d"} -> S5 \X S5 \X Sg
      [] f = "multiply"  -> S5 \X S5 \X S5
      [] f = "bounds"    -> {ONE, 2 * ONE, -ONE, 2} \X {0, MaxW, MinW} \X {ONE, 1, 2 * ONE}
      [] f = "invert"    -> Sq \X Sq \X {0, 5, MinW, MaxW}
      [] f = "scale"     -> S5 \X S5 \X {ONE, 1, -2}
      [] f = "translate" -> S5 \X S5 \X {0, 1, MinW}
DomB(f) ==
    CASE f = "point"     -> Si \X S7z \X Sz
      [] f = "point3d"   -> Si \X S7z \X (IF Wide THEN Sz ELSE {1, ONE, MaxW})
      [] f = "multiply"  -> S7 \X S7
      [] f = "bounds"    -> SomeWords \X {0, -1} \X {0, 1, BoxHi} \X {0, 1}
      [] f = "invert"    -> Sq \X Sq \X {0, 5, MinW, MaxW}
      [] f = "scale"     -> SomeWords \X {TRUE, FALSE}
      [] f = "translate" -> SomeWords \X {TRUE, FALSE}
MCFns == {"point", "point3d", "multiply", "bounds", "invert", "scale", "translate"} \cap Only

PtM == <<<<pa[1], 0, pa[2]>>, <<pa[2], 0, pa[1]>>, <<pa[3], 0, pb[1]>>>>
PtV == <<pb[2], pb[2], pb[3]>>
MuL == <<<<pa[1], pa[2], 1>>, <<0, ONE, 0>>, <<pa[3], 0, ONE>>>>
MuR == <<<<pa[3], 0, 0>>, <<pb[1], ONE, 0>>, <<pb[2], 0, ONE>>>>
BoM == <<<<pa[1], 0, pb[1]>>, <<0, ONE, pa[2]>>, <<0, 0, pa[3]>>>>
BoB == <<pb[2], 0, pb[3], pb[4]>>
InM == <<<<pa[1], pa[2], pa[3]>>, <<pb[1], pb[2], pb[3]>>, <<0, 0, ONE>>>>
XfM == <<<<pa[1], 0, pa[2]>>, <<0, ONE, 0>>, <<0, 0, ONE>>>>

-----------------------------------------------------------------------------
(* call records for Matrix!Post *)
PointCall(f, M, v, r)  == [fn |-> f, m |-> BM(M), v |-> BV(v), ret |-> r.ret, o |-> BV(r.o)]
MulCall(L, R, r)       == [fn |-> "multiply", m |-> BM(L), m2 |-> BM(R), ret |-> r.ret, o |-> BM(r.o)]
BoundsCall(M, b, r)    == [fn |-> "bounds", m |-> BM(M), bin |-> BV(b), ret |-> r.ret, bout |-> BV(r.bout),
                           pts |-> [k \in 1..4 |-> [ret |-> r.pts[k].ret, o |-> BV(r.pts[k].o)]]]
InvertCall(M, r)       == [fn |-> "invert", m |-> BM(M), ret |-> r.ret, o |-> BM(r.o)]
XformCall(f, F, R, p, q, hf, hr, r) ==
    [fn |-> f, hf |-> hf, hr |-> hr, p |-> B(p), q |-> B(q), fin |-> BM(F), rin |-> BM(R), ret |-> r.ret,
     fout |-> BM(r.fout), rout |-> BM(r.rout)]

\* the implementation under check: the reference, or the mutant named by the configuration
ImplCall ==
    CASE fn = "point"     -> PointCall("point", PtM, PtV, PointModel(PtM, PtV, Mutant))
      [] fn = "point3d"   -> PointCall("point3d", PtM, PtV, Point3dModel(PtM, PtV))
      [] fn = "multiply"  -> MulCall(MuL, MuR, MulModel(MuL, MuR, Mutant = "perterm"))
      [] fn = "bounds"    -> BoundsCall(BoM, BoB, BoundsModel(BoM, BoB, Mutant = "boundsceil"))
      [] fn = "invert"    -> InvertCall(InM, InvertModel(InM))
      [] fn = "scale"     -> XformCall("scale", XfM, XfM, pb[1], pa[3], TRUE, pb[2],
                                       ScaleModel(XfM, XfM, pb[1], pa[3], pb[2], Mutant = "recipwrap"))
      [] fn = "translate" -> XformCall("translate", XfM, XfM, pb[1], pa[3], TRUE, pb[2],
                                       TranslateModel(XfM, XfM, pb[1], pa[3], pb[2], Mutant = "recipwrap"))

Sound == ph = 1 => Post(ImplCall, {})

(* the defective models are admitted by their deviations (and only checked in the positive configuration) *)
DevOK ==
    (ph = 1 /\ Mutant = "none") =>
        CASE fn = "multiply"  -> Post(MulCall(MuL, MuR, MulModel(MuL, MuR, TRUE)), {DevPerTerm})
          [] fn = "bounds"    -> Post(BoundsCall(BoM, BoB, BoundsModel(BoM, BoB, TRUE)), {DevBounds})
          [] fn = "scale"     -> Post(XformCall("scale", XfM, XfM, pb[1], pa[3], TRUE, pb[2],
                                                ScaleModel(XfM, XfM, pb[1], pa[3], pb[2], TRUE)), {DevRecip})
          [] fn = "translate" -> Post(XformCall("translate", XfM, XfM, pb[1], pa[3], TRUE, pb[2],
                                                TranslateModel(XfM, XfM, pb[1], pa[3], pb[2], TRUE)), {DevNegMin})
          [] OTHER -> TRUE

-----------------------------------------------------------------------------
(* Tight: a native, brute-force reading of the statement for point / point3d / multiply *)
Outside == ((MinW - 4)..(MinW - 1)) \cup ((MaxW + 1)..(MaxW + 4))
NearN(q, n, d, h) == 2 * AbsN(q * d - n) <= h * AbsN(d)
NonRepN(n, d, h) == \/ AbsN(n) >= (T + 3) * AbsN(d)          \* |n/d| >= T + 3: far outside (the window below ends at T + 3)
                    \/ \E q \in Outside : NearN(q, n, d, h)
Clip(q) == IF q < MinW THEN MinW ELSE IF q > MaxW THEN MaxW ELSE q

PointRef(M, v, ret, o) ==
    LET P == MulVN(M, v)  D == P[3]  h == IF AbsN(D) < 2 ^ (WB + FB) THEN 1 ELSE 3 IN
    IF D = 0 THEN ~ret
    ELSE IF ret THEN o[3] = ONE /\ \A i \in 1..2 : NearN(o[i], P[i] * ONE, D, h)
    ELSE \E i \in 1..2 : NonRepN(P[i] * ONE, D, h)
Point3dRef(M, v, ret, o) ==
    LET P == MulVN(M, v) IN
    IF ret THEN \A i \in I3 : NearN(o[i], P[i], ONE, 1) ELSE \E i \in I3 : NonRepN(P[i], ONE, 1)
MulRef(L, R, ret, o) ==
    IF ret THEN \A i \in I3, j \in I3 : NearN(o[i][j], DotN(L[i], ColN(R, j)), ONE, 1)
    ELSE \E i \in I3, j \in I3 : NonRepN(DotN(L[i], ColN(R, j)), ONE, 1)

Tight ==
    (ph = 1 /\ Mutant = "none") =>
        CASE fn = "point" ->
                LET q == IF DotN(PtM[3], PtV) = 0 THEN <<0, 0>> ELSE PointQ(PtM, PtV)
                    alts == {[ret |-> r, o |-> <<Clip(q[1]) + d1, Clip(q[2]), ONE>>] : r \in BOOLEAN, d1 \in -1..1}
                            \cup {[ret |-> TRUE, o |-> <<Clip(q[1]), Clip(q[2]) + d2, w>>] : d2 \in {0, 1}, w \in {ONE, ONE + 1}}
                IN \A a \in alts : (InW(a.o[1]) /\ InW(a.o[2])) =>
                       Post(PointCall("point", PtM, PtV, a), {}) = PointRef(PtM, PtV, a.ret, a.o)
          [] fn = "point3d" ->
                LET q == [i \in I3 |-> Clip(HalfUp(DotN(PtM[i], PtV)))]
                    alts == {[ret |-> r, o |-> <<q[1] + d1, q[2], q[3] + d3>>] : r \in BOOLEAN, d1 \in -1..1, d3 \in {0, 1}}
                IN \A a \in alts : (InW(a.o[1]) /\ InW(a.o[3])) =>
                       Post(PointCall("point3d", PtM, PtV, a), {}) = Point3dRef(PtM, PtV, a.ret, a.o)
          [] fn = "multiply" ->
                LET E == [i \in I3 |-> [j \in I3 |-> Clip(HalfUp(DotN(MuL[i], ColN(MuR, j))))]]
                    alts == {[ret |-> r, o |-> [E EXCEPT ![1][1] = E[1][1] + d]] : r \in BOOLEAN, d \in -2..2}
                IN \A a \in alts : InW(a.o[1][1]) =>
                       Post(MulCall(MuL, MuR, a), {}) = MulRef(MuL, MuR, a.ret, a.o)
          [] OTHER -> TRUE

-----------------------------------------------------------------------------
MCInit == fn \in MCFns /\ pa \in DomA(fn) /\ pb = <<>> /\ ph = 0 /\ Init
MCNext == ph = 0 /\ ph' = 1 /\ pb' \in DomB(fn) /\ UNCHANGED <<fn, pa, last>>
MCSpec == MCInit /\ [][MCNext]_<<fn, pa, pb, ph, last>>
=============================================================================
