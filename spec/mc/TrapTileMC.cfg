SPECIFICATION MCSpec
CONSTANTS
  WideBase <- SmallBase
  Fixed1 = 16
  Ds = {1, 4}
  W = 3
  H = 2
  Tops = {0, 5, 8, 13}
  TopShift = 5
  Heights = {8, 13, 27, 32}
  XLs = {0, 1, 9, 17}
  XRs = {25, 41}
  XMs = {17, 20}
  Exts = {0, 3}
  QStale = FALSE
  QExact0 = FALSE
INVARIANTS HSplit VSplit Shift Geometry WideRows
