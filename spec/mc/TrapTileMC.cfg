SPECIFICATION MCSpec
CONSTANTS
  Fixed1 = 16
  Ds = {1, 4}
  W = 3
  H = 2
  Tops = {0, 5, 8, 11, 16, 19}
  TopShift = 5
  Heights = {3, 8, 13, 16, 27}
  XLs = {0, 1, 9, 13, 17}
  XRs = {20, 25, 33, 41}
  Exts = {0, 3}
  QStale = FALSE
  QExact0 = FALSE
INVARIANTS HSplit VSplit Shift Geometry
