SPECIFICATION MCSpec
CONSTANTS
  R = 200
  K = 7
  Mode = "small"
  Mutant = "none"
  LimbBits <- MCLimbBits
INVARIANT AllOK
