SPECIFICATION MCSpec
CONSTANTS
  R = 0
  K = 0
  Mode = "big"
  Mutant = "add_magnitudes"
INVARIANT AllOK
