SPECIFICATION NSpec
CONSTANTS
  U = 16
  Width = 3
  Lo <- LoDef
  Hi = 6
  Diffuse = TRUE
  Residual = TRUE
  GuardZero = FALSE
INVARIANTS SumsToUnit ExactDiffusion
