SPECIFICATION MCSpec
CONSTANTS
  Vars = {"r0", "r1", "r2"}
  GX = 2
  GY = 2
  Mutant = "none"
INVARIANTS DenotesSet Structural Unique ExtentsTight QueriesOK
VIEW MCView
