SPECIFICATION MCSpec
CONSTANTS
  Fix = 1
  Mutant = "kernel_up"
INVARIANTS ProbeOK CopyOK FlipOK HomogeneousOK RefOK RangeOK WideConsistentOK
VIEW MCView
