SPECIFICATION MCSpec
CONSTANTS
  DW = 3
  DH = 2
  Mutant = "srcclip_always"
  Full = FALSE
INVARIANT RegionIsIntersection
