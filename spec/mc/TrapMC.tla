------------------------------- MODULE TrapMC -------------------------------
(***************************************************************************)
(* Design-level check of the edge walker of Trap.tla on a scaled lattice   *)
(* (Fixed1 small), exhaustively for all edges of a box and all start rows. *)
(*                                                                         *)
(* State: an edge (depth n, end points (xt, yt) - (xt + dxt, yt + dy)), the *)
(* walker record ed positioned on row y, and how the walk began.           *)
(* Behaviours: EdgeInit on any sample row t (above, at, or below the upper  *)
(* end point; n0 = t - yt of either sign), then any mixture of             *)
(*   RowStep   the rasteriser's step to the next sample row (small / big), *)
(*   Jump(k)   pixman_edge_step by whole pixels, forwards or backwards.    *)
(*                                                                         *)
(* Invariants (m = y - yt, X = xt + m * dxt / dy the exact intersection):   *)
(*   Bounds         -dy <= e <= 0, remainders reduced                      *)
(*   Residual       e = m * |dxt| - (signdx * (x - xt) + [dxt >= 0]) * dy   *)
(*                  -- the error term is the exact rational residue        *)
(*   WalkerMeaning  dxt < 0 :  x = floor(X)                                *)
(*                  dxt >= 0:  x = X         if e = -dy                    *)
(*                             x = ceil(X)-1 otherwise                     *)
(*                  and e = -dy exactly when the slope is a whole number   *)
(*                  (dx = 0)                                               *)
(*   PathIndependent  every walk is in the state EdgeInit gives for the    *)
(*                  current row directly                                   *)
(*   SmallIsStep    pixman_edge_step (StepYSmall) = RENDER_EDGE_STEP_SMALL *)
(*   SampleY        SampleCeilY / SampleFloorY are the first grid row >= y *)
(*                  / the last grid row < y  (checked once, all y of a box)*)
(*   WideAgrees     the two-limb cursor of the mathematical line (wide     *)
(*                  edges) = the walker, on every row and across steps     *)
(* Negative configurations: InitE <- BadInitE (e = 0 for dx >= 0),         *)
(* NeedsCorrection <- BadNeedsCorrection (e >= 0), QStale = TRUE,          *)
(* QExact0 = TRUE, QBackstep = TRUE (the unrepaired pixman_edge_step /     *)
(* pixman_edge_init), WideDeltas <- HalvedDeltas (deltas narrowed by a     *)
(* truncating halving): TLC must reject each.                              *)
(***************************************************************************)
EXTENDS Trap, FiniteSets, TLC

CONSTANTS Ds,        \* depths explored
          YTs,       \* yt values (fraction of the upper end point matters)
          DYs, DXMags, \* dy values and magnitudes of dxt (both signs are explored)
          Above,     \* start rows as far as this above the upper end point
          Below,     \* rows walked as far as this below the lower end point
          JumpMags,  \* jump amounts for pixman_edge_step (both signs are explored)
          QStale, QExact0, QBackstep   \* quirks of the unrepaired tree (all FALSE = the specification)

VARIABLES c          \* the configuration record

Q == [stale |-> QStale, exact0 |-> QExact0, backstep |-> QBackstep, wrap |-> FALSE]

DXs   == {sg * mag : sg \in {-1, 1}, mag \in DXMags}
Jumps == {sg * mag : sg \in {-1, 1}, mag \in JumpMags}

BadInitE(dxt, dy) == 0
BadNeedsCorrection(e) == e >= 0

XT == 3 * Fixed1 + 5       \* any abscissa: the walker is translation invariant in x

GridRows(lo, hi, n) == {yy \in lo..hi : IsSampleRow(yy, n)}

MCInit == \E n \in Ds, yt \in YTs, dy \in DYs, dxt \in DXs :
             c = [ph |-> "edge", n |-> n, yt |-> yt, dy |-> dy, dxt |-> dxt]

Start ==
    /\ c.ph = "edge"
    /\ \E t \in GridRows(c.yt - Above, c.yt + c.dy, c.n) :
          c' = [ph |-> "walk", n |-> c.n, yt |-> c.yt, dy |-> c.dy, dxt |-> c.dxt, n0 |-> t - c.yt, y |-> t,
                jumped |-> FALSE,
                ed |-> EdgeInitQ(c.n, t, XT, c.yt, XT + c.dxt, c.yt + c.dy, Q)]

RowStep ==
    /\ c.ph = "walk"
    /\ c.y < c.yt + c.dy + Below
    /\ IF NextRowIsSmall(c.y, c.n)
       THEN c' = [c EXCEPT !.ed = EdgeStepSmall(c.ed), !.y = c.y + StepYSmall(c.n)]
       ELSE c' = [c EXCEPT !.ed = EdgeStepBig(c.ed), !.y = c.y + StepYBig(c.n)]

Jump ==
    /\ c.ph = "walk"
    /\ \E k \in Jumps :
          /\ c.y + k >= c.yt - Above /\ c.y + k <= c.yt + c.dy + Below
          /\ c' = [c EXCEPT !.ed = EdgeStepQ(c.ed, k, Q), !.y = c.y + k, !.jumped = TRUE]

MCNext == Start \/ RowStep \/ Jump
MCSpec == MCInit /\ [][MCNext]_c

-----------------------------------------------------------------------------
Walking == c.ph = "walk"
M  == c.y - c.yt
DXr == Abs(c.dxt) % c.dy            \* the reduced remainder dx of the edge

Bounds == Walking => EdgeInv(c.ed)

Residual ==
    Walking =>
       c.ed.e = M * Abs(c.dxt) - (c.ed.signdx * (c.ed.x - XT) + (IF c.dxt >= 0 THEN 1 ELSE 0)) * c.dy

(* x against the exact intersection X = XT + M * dxt / dy, without fractions: D = (x - XT) * dy *)
WalkerMeaning ==
    Walking =>
       LET D == (c.ed.x - XT) * c.dy  P == M * c.dxt IN
       IF c.dxt < 0
       THEN D <= P /\ P < D + c.dy                                  \* x = floor(X)
       ELSE /\ (c.ed.e = -c.dy) => D = P                            \* x = X
            /\ (c.ed.e # -c.dy) => (D < P /\ P <= D + c.dy)         \* x = ceil(X) - 1
            /\ (c.ed.e = -c.dy) <=> (DXr = 0)

(* the state on a row is the state EdgeInit gives for that row directly, whatever the walk was *)
PathIndependent ==
    Walking => c.ed = EdgeInitQ(c.n, c.y, XT, c.yt, XT + c.dxt, c.yt + c.dy, NoQuirks)

SmallIsStep ==
    Walking => /\ EdgeStepQ(c.ed, StepYSmall(c.n), NoQuirks) = EdgeStepSmall(c.ed)
               /\ EdgeStepQ(c.ed, StepYBig(c.n), NoQuirks) = EdgeStepBig(c.ed)

(* WIDE EDGES.  The cursor of Trap.tla (the mathematical line: floor and remainder of          *)
(* (y - yt) dxt / dy on two-limb numbers) holds on every row of every walk exactly the abscissa *)
(* of the walker record, its small / big steps lead to the cursor of the next row, and LineX    *)
(* is that abscissa: the walker of a pixman_edge_t and the cursor of an edge whose deltas no    *)
(* pixman_edge_t can hold follow the same line by the same rule.  The configurations replace    *)
(* WideBase by SmallBase so that the lattice numbers have several limbs and every carry,        *)
(* borrow and halving across limbs occurs.                                                      *)
SmallBase == 4
WideAgrees ==
    Walking =>
       LET xb == XT + c.dxt  yb == c.yt + c.dy
           cu == WCurInit(c.n, c.y, XT, c.yt, xb, yb) IN
       /\ WCurX(cu) = c.ed.x
       /\ LineX(XT, c.yt, xb, yb, c.y) = c.ed.x
       /\ LinePos(XT, c.yt, xb, yb, c.y) = cu.pos
       /\ WCurStepSmall(cu) = WCurInit(c.n, c.y + StepYSmall(c.n), XT, c.yt, xb, yb)
       /\ WCurStepBig(cu) = WCurInit(c.n, c.y + StepYBig(c.n), XT, c.yt, xb, yb)
       /\ WLess(cu.pos[2], cu.DY) /\ ~WLess(cu.pos[2], WZero)
(* the arithmetic itself, on all small operands *)
WideArithOK ==
    \A a \in 0..40 : \A b \in 0..12 : \A d \in 1..13 :
        /\ WInt(WOf(a)) = a /\ WInt(WOf(-a)) = -a /\ WInt(WNeg(WOf(a))) = -a
        /\ WInt(WAdd(WOf(a), WOf(b))) = a + b /\ WInt(WSub(WOf(b), WOf(a))) = b - a
        /\ WLess(WOf(a), WOf(b)) = (a < b) /\ WLess(WOf(-a), WOf(b - 6)) = (-a < b - 6)
        /\ WInt(WHalf(WOf(a))) = a \div 2 /\ WOdd(WOf(a)) = (a % 2 = 1)
        /\ WInt(WMul(WOf(a), WOf(b))) = a * b
        /\ WAbsDiff(a, b) = WOf(Abs(a - b)) /\ WAbsDiff(-a, b) = WOf(a + b)
        /\ LET qr == WDivMod(WOf(a), WOf(d)) IN WInt(qr[1]) = a \div d /\ WInt(qr[2]) = a % d
        /\ (b < d) => LET qr == WMulDivMod(WOf(a), WOf(b), WOf(d)) IN WInt(qr[1]) = (a * b) \div d /\ WInt(qr[2]) = (a * b) % d
ASSUME WideArithOK
(* Negative configuration TrapMC_neg_halve: deltas beyond a limit are halved, truncating (what   *)
(* pixman_edge_init does with deltas that do not fit 32 bits): unless both are even this is a    *)
(* different line, and WideAgrees must fail.                                                     *)
HalveAbove == 20
HalvedDeltas(DX, DY) ==
    IF WLess(WOf(HalveAbove), DX) \/ WLess(WOf(HalveAbove), DY) THEN <<WHalf(DX), IF WHalf(DY) = WZero THEN DY ELSE WHalf(DY)>> ELSE <<DX, DY>>

(* The sample grid.  On a scaled lattice every y / x of a box is probed; with the real        *)
(* constants the values within two units of a grid point or pixel boundary.                  *)
ProbeAll == Fixed1 <= 64
GDepths == {n \in Depths : YGridOK(n)}
XDepths == {n \in Depths : XGridOK(n)}
ASSUME Ds \subseteq GDepths
GridRowsC(ilo, ihi, n) == {i * Fixed1 + YFirst(n) + j * StepYSmall(n) : i \in ilo..ihi, j \in 0..(NYFrac(n) - 1)}
YProbes(n) == IF ProbeAll THEN (-Fixed1)..(2 * Fixed1)
              ELSE {r + d : r \in GridRowsC(-1, 1, n) \cup {-Fixed1, 0, Fixed1, 2 * Fixed1}, d \in (-2)..2}
SampleYOK ==
    \A n \in GDepths : \A yy \in YProbes(n) :
        LET rows == GridRowsC(-2, 2, n)
            cl == SampleCeilY(yy, n)  fl == SampleFloorY(yy, n) IN
        /\ \A r \in rows : IsSampleRow(r, n)
        /\ cl \in rows /\ cl >= yy /\ \A r \in rows : r >= yy => r >= cl
        /\ fl \in rows /\ fl < yy /\ \A r \in rows : r < yy => r <= fl
FProbes(n) == IF ProbeAll THEN 0..(Fixed1 - 1)
              ELSE {v \in {r + d : r \in GridRowsC(0, 0, n) \cup {0, Fixed1}, d \in (-2)..2} : v >= 0 /\ v < Fixed1}
SampleYSaturates ==
    \A n \in GDepths : \A f \in FProbes(n) :
        /\ SampleCeilY(IntMaxPx * Fixed1 + f, n) =
              IF f <= YLast(n) THEN IntMaxPx * Fixed1 + SampleCeilY(f, n) ELSE IntMaxPx * Fixed1 + (Fixed1 - 1)
        /\ SampleFloorY(IntMinPx * Fixed1 + f, n) =
              IF f > YFirst(n) THEN IntMinPx * Fixed1 + SampleFloorY(f, n) ELSE IntMinPx * Fixed1
ASSUME SampleYOK /\ SampleYSaturates

(* the sample columns: the closed form SamplesLE against the set of effective sample positions, *)
(* and against the implementation's expressions (RENDER_SAMPLES_X, the a1 half-pixel shift)    *)
XPos(n) == {XEff(n) + k * StepXSmall(n) : k \in 0..(NXFrac(n) - 1)}
XProbes(n) == IF ProbeAll THEN (-Fixed1)..(3 * Fixed1)
              ELSE {s + d : s \in {p * Fixed1 + x : p \in 0..2, x \in XPos(n) \cup {0}}, d \in (-2)..2}
SampleXOK ==
    \A n \in XDepths : \A p \in 0..1 : \A v \in XProbes(n) :
        /\ SamplesLE(v, p, n) = Cardinality({s \in XPos(n) : p * Fixed1 + s <= v})
        /\ (n > 1 /\ ToInt(v) = p) => SamplesLE(v, p, n) = (Frac(v) + XFirst(n)) \div StepXSmall(n)
        /\ (n = 1) => (SamplesLE(v, p, n) = 1 <=> ToInt(v + XFirst(1) - 1) > p)
        /\ XPos(n) \subseteq 0..(Fixed1 - 1) /\ Cardinality(XPos(n)) = NXFrac(n)
ASSUME SampleXOK
=============================================================================
