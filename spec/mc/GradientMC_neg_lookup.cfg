SPECIFICATION MCSpec
CONSTANT Mutant = "lookup_le"
INVARIANTS FoldDef LookupDef AtStops LerpDef HullSound
