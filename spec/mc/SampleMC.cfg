SPECIFICATION MCSpec
CONSTANTS
  Fix = 1
  Mutant = "none"
INVARIANTS ProbeOK CopyOK FlipOK HomogeneousOK RefOK RangeOK WideConsistentOK
VIEW MCView
