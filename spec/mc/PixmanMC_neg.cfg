SPECIFICATION Spec
CONSTANT Mutant = "srcclip_always"
INVARIANT PointwiseOK
