----------------------------- MODULE FormatsMC -----------------------------
(* Design-level check of Formats.tla (C10).  The "state space" is the set of cases          *)
(*   pixel  : a format code and a raw pixel word -- every word for bpp <= 16, every          *)
(*            combination of per-channel boundary values (with the undefined bits once 0,   *)
(*            once 1) for 24 / 32 bpp;                                                       *)
(*   index  : an indexed format, a palette of the family, an index;                          *)
(*   frame  : a pixel size, a small buffer, a position and a raw value to store;             *)
(*   lemma  : one state in which the width-level lemmas are evaluated.                       *)
(* Every case is an initial state; the invariants are the codec laws of the statement.       *)
(* Mutant selects a deliberately wrong model for the negative configurations.                *)
EXTENDS Formats, TLC

CONSTANTS Codes,          \* set of format codes <<hi16, lo16>> (packed and indexed formats)
          Mutant          \* "none" | "zerofill" | "clobber" | "bgra"

VARIABLES vkind, vcode, vraw, vpal, vbpp, vbuf, vx

(* the packed and indexed formats pixman_format_supported_source accepts in the pinned tree      *)
(* (checks/pixel.py compares this list with what the library built from /repo reports)          *)
AllCodes == { <<8194, 34952>>,
            <<8194, 2184>>,
            <<8195, 34952>>,
            <<8195, 2184>>,
            <<8200, 34952>>,
            <<8200, 2184>>,
            <<8201, 34952>>,
            <<8201, 2184>>,
            <<8194, 1638>>,
            <<8194, 2730>>,
            <<8194, 10922>>,
            <<8195, 2730>>,
            <<8195, 10922>>,
            <<8202, 34952>>,
            <<6146, 2184>>,
            <<6147, 2184>>,
            <<4098, 1381>>,
            <<4099, 1381>>,
            <<4098, 5461>>,
            <<4098, 1365>>,
            <<4099, 5461>>,
            <<4099, 1365>>,
            <<4098, 17476>>,
            <<4098, 1092>>,
            <<4099, 17476>>,
            <<4099, 1092>>,
            <<2049, 32768>>,
            <<2050, 818>>,
            <<2051, 818>>,
            <<2050, 8738>>,
            <<2051, 8738>>,
            <<2052, 0>>,
            <<2053, 0>>,
            <<2049, 16384>>,
            <<1025, 16384>>,
            <<1026, 289>>,
            <<1027, 289>>,
            <<1026, 4369>>,
            <<1027, 4369>>,
            <<1028, 0>>,
            <<1029, 0>>,
            <<257, 4096>>,
            <<261, 0>>}

Bnd(b) == IF b = 0 THEN {0}
          ELSE {v \in {0, 1, 2, P2(b - 1) - 1, P2(b - 1), P2(b - 1) + 1, P2(b) - 2, P2(b) - 1} : v >= 0 /\ v < P2(b)}

(* the format as the model under test decodes it (negative configuration "bgra": the channel *)
(* order of the from-the-top formats is taken as if it were ARGB)                            *)
FmtUT(code) == LET f == Fmt(code) IN
               IF Mutant = "bgra" /\ f.type = TypeBGRA THEN [f EXCEPT !.type = TypeARGB] ELSE f

WordsOf(f) ==
    IF f.bpp <= 16 THEN {<<0, v>> : v \in 0..(P2(f.bpp) - 1)}
    ELSE LET U == IF f.bpp = 32
                  THEN {WZero, <<65535 - DefinedMask(f)[1], 65535 - DefinedMask(f)[2]>>}
                  ELSE {WZero, <<255 - DefinedMask(f)[1], 65535 - DefinedMask(f)[2]>>}
         IN {WAdd(WAdd(WAdd(PutW(va, CShift(f, "a"), f.a), PutW(vr, CShift(f, "r"), f.r)),
                       WAdd(PutW(vg, CShift(f, "g"), f.g), PutW(vb, CShift(f, "b"), f.b))), u) :
                 va \in Bnd(f.a), vr \in Bnd(f.r), vg \in Bnd(f.g), vb \in Bnd(f.b), u \in U}

(* a small format list for the negative configurations (they must fail fast) *)
NegCodes == {<<8200, 34952>>, <<8200, 2184>>, <<2049, 32768>>, <<2050, 818>>, <<1025, 16384>>, <<1028, 0>>}

PackedCodes  == {c \in Codes : IsPacked(Fmt(c))}
IndexedCodes == {c \in Codes : IsIndexed(Fmt(c))}

Bufs == {[i \in 1..12 |-> 0], [i \in 1..12 |-> 255], [i \in 1..12 |-> (i * 37 + 90) % 256]}
RawVals(b) == IF b <= 16 THEN {<<0, 0>>, <<0, P2(b) - 1>>, <<0, (P2(b) - 1) \div 3>>}
              ELSE IF b = 24 THEN {<<0, 0>>, <<255, 65535>>, <<165, 23130>>}
              ELSE {<<0, 0>>, <<65535, 65535>>, <<42405, 23130>>}

(* The initial states are seeds (a format and one sixteenth of its raw values, ...); one step   *)
(* leads from a seed to each of its cases, so that TLC's workers share the enumeration.       *)
Slice(W, k) == {w \in W : (w[1] + w[2]) % 16 = k}
MCInit ==
    /\ vkind \in {"seed-pixel", "seed-index", "seed-frame", "lemma"}
    /\ vcode \in (CASE vkind = "seed-pixel" -> PackedCodes [] vkind = "seed-index" -> IndexedCodes [] OTHER -> {WZero})
    /\ vx \in (IF vkind = "seed-pixel" THEN 0..15 ELSE {0})
    /\ vbpp \in (IF vkind = "seed-frame" THEN {1, 4, 8, 16, 24, 32} ELSE {0})
    /\ vraw = WZero /\ vpal = 0 /\ vbuf = <<>>
MCNext ==
    \/ /\ vkind = "seed-pixel" /\ vkind' = "pixel" /\ vraw' \in Slice(WordsOf(Fmt(vcode)), vx)
       /\ UNCHANGED <<vcode, vpal, vbpp, vbuf, vx>>
    \/ /\ vkind = "seed-index" /\ vkind' = "index" /\ vraw' \in {<<0, i>> : i \in 0..(P2(Fmt(vcode).bpp) - 1)}
       /\ vpal' \in 0..3 /\ UNCHANGED <<vcode, vbpp, vbuf, vx>>
    \/ /\ vkind = "seed-frame" /\ vkind' = "frame" /\ vraw' \in RawVals(vbpp)
       /\ vbuf' \in Bufs /\ vx' \in 0..((96 \div vbpp) - 1) /\ UNCHANGED <<vcode, vpal, vbpp>>
vars == <<vkind, vcode, vraw, vpal, vbpp, vbuf, vx>>
cs == [kind |-> vkind, code |-> vcode, raw |-> vraw, pal |-> vpal, bpp |-> vbpp, buf |-> vbuf, x |-> vx]
MCSpec == MCInit /\ [][MCNext]_vars

(* ---- widening under test ---- *)
Rep(v, f, t) == IF Mutant = "zerofill" /\ t > f THEN v * P2(t - f) ELSE Widen(v, f, t)

(* ---- store under test ---- *)
StoreUT(buf, bpp, x, w) ==
    IF Mutant = "clobber" /\ bpp = 4 THEN [buf EXCEPT ![x \div 2 + 1] = (w[2] % 16) * 17]
    ELSE WithRaw(buf, bpp, x, w)

DefinedOnly(f, w) ==                                  \* w with its undefined bits cleared
    WAdd(WAdd(PutW(FieldW(w, CShift(f, "a"), f.a), CShift(f, "a"), f.a), PutW(FieldW(w, CShift(f, "r"), f.r), CShift(f, "r"), f.r)),
         WAdd(PutW(FieldW(w, CShift(f, "g"), f.g), CShift(f, "g"), f.g), PutW(FieldW(w, CShift(f, "b"), f.b), CShift(f, "b"), f.b)))

(* read F, write a8r8g8b8, read it, write F: identity on the defined bits (narrow formats);   *)
(* reading what was written reads the same                                                   *)
RoundTrip8 ==
    cs.kind = "pixel" =>
       LET f    == FmtUT(cs.code)
           px   == DecodeWord(f, cs.raw)
           w8   == EncodeWord(A8R8G8B8, 0, px)
           px8  == DecodeWord(A8R8G8B8, w8)
           back == EncodeWord(Fmt(cs.code), 0, px8)
       IN  (~IsWide(f)) =>
              /\ back = DefinedOnly(Fmt(cs.code), cs.raw)
              /\ DecodeWord(A8R8G8B8, EncodeWord(A8R8G8B8, 0, DecodeWord(Fmt(cs.code), back))) = px8

(* widening: 0 -> 0, max -> max, absent alpha -> 1, absent colour -> 0; narrowing keeps the msbs *)
Canonical8 ==
    cs.kind = "pixel" =>
       LET f == Fmt(cs.code)  px == DecodeWord(f, cs.raw) IN
       (~IsSRGB(f)) =>
       \A c \in Chan :
          LET v == px[c]  v8 == IF v.k = "u" THEN Rep(v.n, v.b, 8) ELSE To8(v, c) IN
          /\ v8 \in 0..255
          /\ (v.k = "none") => v8 = (IF c = "a" THEN 255 ELSE 0)
          /\ (v.k = "u" /\ v.n = 0) => v8 = 0
          /\ (v.k = "u" /\ v.n = MaxOf(v.b)) => v8 = 255
          /\ (v.k = "u" /\ v.b <= 8) => Truncate(v8, 8, v.b) = v.n         \* the source is the msbs of the widening
          /\ (v.k = "u" /\ v.b > 8) => v8 = v.n \div P2(v.b - 8)

(* the float route: n / (2^b - 1) narrowed by floor (f * 2^b) saturating gives n back, and    *)
(* narrowed to 8 bits gives the canonical 8-bit value (exact rational arithmetic)            *)
FloatRoute ==
    cs.kind = "lemma" =>
       \A b \in 1..10 : \A n \in 0..MaxOf(b) :
          LET m == MaxOf(b)
              nar(k) == LET u == (n * P2(k)) \div m IN IF u >= P2(k) THEN P2(k) - 1 ELSE u
          IN  /\ nar(b) = n
              /\ nar(8) = Rep(n, b, 8)

WidthLemmas ==
    cs.kind = "lemma" =>
       /\ \A f \in 1..8 : \A n \in 0..(MaxOf(f) - 1) : Rep(n, f, 8) < Rep(n + 1, f, 8)        \* strictly monotone
       /\ \A f \in 1..8 : Rep(0, f, 8) = 0 /\ Rep(MaxOf(f), f, 8) = 255
       /\ \A f \in 1..8 : \A t \in 1..f : \A n \in 0..MaxOf(f) : Truncate(Rep(n, f, 8), 8, t) = n \div P2(f - t)
       \* widening 8 -> 10 bits through n/255 and floor(f * 1024) is bit replication
       /\ \A n \in 0..255 : (LET u == (n * 1024) \div 255 IN IF u >= 1024 THEN 1023 ELSE u) = Rep(n, 8, 10)
       \* PutW / FieldW are inverse for every field position
       /\ \A s \in 0..31 : \A n \in 1..10 : (s + n <= 32) =>
             /\ FieldW(PutW(MaxOf(n), s, n), s, n) = MaxOf(n)
             /\ FieldW(WAdd(PutW(1, s, n), IF s > 0 THEN MaskW(0, IF s > 16 THEN 16 ELSE s) ELSE WZero), s, n) = 1

(* indexed formats: the palette family is consistent (store of a fetched colour gives the index) *)
IndexRoundTrip ==
    cs.kind = "index" =>
       LET f == Fmt(cs.code)  p == PalRGBA(f, cs.pal, cs.raw[2]) IN
       /\ PalEnt(f, cs.pal, Key15(f, p)) = cs.raw[2]
       /\ p.a \in 0..255 /\ p.r \in 0..255 /\ p.g \in 0..255 /\ p.b \in 0..255

(* a store changes the addressed pixel and nothing else *)
FrameLaw ==
    cs.kind = "frame" =>
       LET nb == StoreUT(cs.buf, cs.bpp, cs.x, cs.raw)  npx == 96 \div cs.bpp IN
       /\ RawAt(nb, cs.bpp, cs.x) = cs.raw
       /\ \A y \in 0..(npx - 1) : y # cs.x => RawAt(nb, cs.bpp, y) = RawAt(cs.buf, cs.bpp, y)
       /\ SameOutside(cs.buf, nb, cs.x * cs.bpp, (cs.x + 1) * cs.bpp)
       /\ SameOutside(nb, nb, 0, 0)

(* a row store is the composition of pixel stores and obeys the row frame *)
RowFrameLaw ==
    (cs.kind = "frame" /\ cs.bpp \in {4, 16} /\ cs.x + 3 <= 96 \div cs.bpp) =>
       LET f == IF cs.bpp = 4 THEN Fmt(FmtCode(4, TypeARGB, 1, 1, 1, 1)) ELSE Fmt(FmtCode(16, TypeARGB, 0, 5, 6, 5))
           pxs == <<DecodeWord(A8R8G8B8, <<65535, 65535>>), DecodeWord(A8R8G8B8, <<0, 0>>), DecodeWord(A8R8G8B8, <<33023, 255>>)>>
           nb == StoreRow(cs.buf, f, 0, cs.x, pxs)
       IN /\ SameOutside(cs.buf, nb, cs.x * cs.bpp, (cs.x + 3) * cs.bpp)
          /\ \A i \in 1..3 : PixelConvOK(f, 0, pxs[i], nb, cs.x + i - 1)
=============================================================================
