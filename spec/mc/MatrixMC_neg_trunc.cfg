SPECIFICATION MCSpec
CONSTANTS
  FB = 3
  WB = 7
  Mutant = "trunc"
  Wide = FALSE
  LimbBits <- MCLimbBits
INVARIANTS Sound DevOK Tight
