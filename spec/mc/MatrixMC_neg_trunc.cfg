SPECIFICATION MCSpec
CONSTANTS
  FB = 3
  WB = 7
  Mutant = "trunc"
  Wide = FALSE
  Only = {"point", "point3d", "multiply", "invert"}
  LimbBits <- MCLimbBits
INVARIANTS Sound DevOK Tight
