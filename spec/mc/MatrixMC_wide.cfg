SPECIFICATION MCSpec
CONSTANTS
  FB = 3
  WB = 7
  Mutant = "none"
  Wide = TRUE
  LimbBits <- MCLimbBits
INVARIANTS Sound DevOK Tight
