SPECIFICATION MCSpec
CONSTANTS
  Keys <- MCKeys
  Vals <- MCVals
  Hash <- MCHash
  NoVal = 0
  H = 6
  HIGH = 3
  LOW = 1
  NK = 5
  Classes <- Cls40
  NV = 1
  MaxFreeze = 2
  WithUse = TRUE
  CapRule = "free"
  Mutant = "none"
INVARIANTS TypeOK CountsMatch NoDuplicate Reachable NullExists ProbesTerminate NoHang MruMatches ValMatches WaterMarks NotStuck AbsInv
PROPERTY AbsSpec
