SPECIFICATION Spec
CONSTANTS
  GX = 3
  GY = 2
  Split = 5
INVARIANT Theorem
