SPECIFICATION MCSpec
CONSTANTS
  R = 80
  K = 7
  Mode = "small"
  Mutant = "mul_dropcarry"
  LimbBits <- MCLimbBits
INVARIANT AllOK
