SPECIFICATION MCSpec
CONSTANTS
  Fixed1 = 65536
  Ds = {1, 4, 8}
  YTs = {0, 2185, 32768}
  DYs = {1, 4369, 65536, 100000}
  DXMags = {0, 1, 3, 17}
  Above = 40000
  Below = 30000
  JumpMags = {65536}
  QStale = FALSE
  QExact0 = FALSE
  QBackstep = FALSE
INVARIANTS Bounds Residual WalkerMeaning PathIndependent SmallIsStep WideAgrees
