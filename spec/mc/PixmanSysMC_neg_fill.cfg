SPECIFICATION Spec
CONSTANT Mutant = "fill_union"
CONSTANT MaxDepth = 1
INVARIANT FillIsComp
