------------------------------ MODULE FilterMC ------------------------------
(* Exhaustive small-scope check of the Filter design (C18).                               *)
(* All blocks over a small coefficient alphabet and all shapes with at most MaxCoefs      *)
(* coefficients are offered to the state machine of Filter.tla; only those the predicate  *)
(* WellFormed admits can be created.  Invariants, evaluated on every reachable state:     *)
(*   DirectSums    the block held satisfies an independently written flat-index           *)
(*                 formulation of "announced length, header matches tables, every phase   *)
(*                 sums to One" (negative configurations weaken WellFormed: rejected)     *)
(*   Accepts       pixman_image_set_filter's consistency test passes                      *)
(*   ConstantKept  the fetchers' arithmetic (RenderConst) returns a constant image's      *)
(*                 value within Tol - which is 0, i.e. exactly - for every phase pair     *)
(*   StreamShape   the row-streaming formulation used for trace validation ends in the    *)
(*                 same abstract state as the atomic CreateFilter                         *)
(* Both creation paths (atomic CreateFilter, streamed CreateCall/Return/Rows) are run.    *)
EXTENDS Filter, TLC, FiniteSets

CONSTANTS Alpha, MaxW, MaxBits, MaxCoefs, Cs

AlphaDef == {-1, 0, 1, 32768, 65535, 65536, 65537}

VARIABLES blk, path      \* ghost: the block as a sequence; which creation path built it

Shapes == {s \in (1..MaxW) \X (1..MaxW) \X (0..MaxBits) \X (0..MaxBits) :
              ShapeLen(s[1], s[2], s[3], s[4]) - 4 <= MaxCoefs}
Header(s) == <<s[1] * One, s[2] * One, s[3] * One, s[4] * One>>
Tup(f, k) == [i \in 1..k |-> f[i]]
Candidates(s) == LET k == ShapeLen(s[1], s[2], s[3], s[4]) - 4 IN
                 {Header(s) \o Tup(t, k) : t \in [1..k -> Alpha]}
RowsOf(width) == {Tup(t, width) : t \in [1..width -> Alpha]}

MCInit == FInit /\ blk = <<>> /\ path = "none"

MCCreate ==
    /\ flt.st = "idle"                       \* one creation per behaviour keeps the state graph a forest
    /\ \E s \in Shapes : \E b \in Candidates(s) :
          /\ CreateFilter(s[3], s[4], b, Len(b))
          /\ blk' = b /\ path' = "atomic"

(* streamed path: header first, then one row per step *)
MCCall == flt.st = "idle" /\ \E bx, by \in 0..MaxBits : CreateCall(bx, by) /\ blk' = <<>> /\ path' = "stream"
MCReturn ==
    \E s \in Shapes :
        /\ CreateReturn(ShapeLen(s[1], s[2], s[3], s[4]), Header(s))
        /\ blk' = Header(s) /\ UNCHANGED path
MCRow ==
    /\ flt.st = "creating"
    /\ \E axis \in {"x", "y"} : \E r \in RowsOf(IF axis = "x" THEN flt.w ELSE flt.h) :
          LET lens(k) == Len(r)  sums(k) == SumSeq(r) IN
          /\ CreateRows(axis, IF axis = "x" THEN flt.nx ELSE flt.ny, 1, lens, sums)
          /\ blk' = blk \o r /\ UNCHANGED path

MCSet == SetFilter(SetFilterAccepts(blk, flt.n)) /\ UNCHANGED <<blk, path>>

MCRender ==
    /\ flt.st \in {"attached", "rendered"}
    /\ \E c \in Cs : \E px \in 0..(Pow2(flt.bx) - 1) : \E py \in 0..(Pow2(flt.by) - 1) :
          LET o == RenderConst(XRow(blk, px), YRow(blk, py), c) IN
          Render(<<c, c, c, c>>, << <<o, o, o, o>> >>)
    /\ UNCHANGED <<blk, path>>

MCNext == MCCreate \/ MCCall \/ MCReturn \/ MCRow \/ MCSet \/ MCRender
MCSpec == MCInit /\ [][MCNext]_<<flt, blk, path>>

(* ---- invariants ---------------------------------------------------------------------- *)
Holding == flt.st \in {"created", "attached", "rendered"}

RECURSIVE Flat(_, _, _)
Flat(b, from, len) == IF len = 0 THEN 0 ELSE b[from] + Flat(b, from + 1, len - 1)

DirectSums ==
    Holding =>
      LET w == blk[1] \div One  h == blk[2] \div One  nx == Pow2(blk[3] \div One)  ny == Pow2(blk[4] \div One) IN
      /\ w >= 1 /\ h >= 1
      /\ \A i \in 1..4 : blk[i] % One = 0
      /\ flt.n = Len(blk) /\ Len(blk) = 4 + w * nx + h * ny
      /\ \A r \in 0..(nx - 1) : Flat(blk, 5 + r * w, w) = One
      /\ \A r \in 0..(ny - 1) : Flat(blk, 5 + w * nx + r * h, h) = One

Accepts == Holding => SetFilterAccepts(blk, flt.n)

ConstantKept ==
    Holding =>
      \A c \in Cs : \A px \in 0..(Pow2(flt.bx) - 1) : \A py \in 0..(Pow2(flt.by) - 1) :
         /\ Tol(flt.w, flt.h, c) = 0
         /\ RenderConst(XRow(blk, px), YRow(blk, py), c) = c

StreamShape ==
    Holding => /\ flt.w = HdrW(blk) /\ flt.h = HdrH(blk) /\ flt.bx = HdrBx(blk) /\ flt.by = HdrBy(blk)
               /\ flt.nx = Pow2(flt.bx) /\ flt.ny = Pow2(flt.by)

(* the rounded product used by ConstantKept, against the plain definition where that fits in 32 bits *)
ASSUME \A a \in {-70000, -65537, -1, 0, 1, 255, 256, 257, 32767, 32768, 65535, 65536, 65537, 100000} :
       \A b \in {-3, -1, 0, 1, 2, 3, 255, 256, 4097, 21000} :
          /\ RoundMul(a, b) = (a * b + 32768) \div One
          /\ RoundMul(b, a) = (a * b + 32768) \div One
ASSUME /\ ~Unrepresentable("IMPULSE", "BOX", 2147418112) /\ Unrepresentable("IMPULSE", "BOX", 2147418113)
       /\ ~Unrepresentable("BOX", "BOX", 2147352576) /\ Unrepresentable("BOX", "BOX", 2147352577)
       /\ ~Unrepresentable("IMPULSE", "LANCZOS3_STRETCHED", 268427264) /\ Unrepresentable("IMPULSE", "LANCZOS3_STRETCHED", 268427265)
       /\ ~Unrepresentable("LANCZOS3", "IMPULSE", 2147483647) /\ ~Unrepresentable("GAUSSIAN", "CUBIC", 65536)
       /\ Unrepresentable("LINEAR", "LANCZOS3_STRETCHED", 2147483647)
ASSUME RoundMul(65536, 65536) = 65536 /\ RoundMul(65535, 65535) = 65534 /\ RoundMul(32768, 32768) = 16384
       /\ RoundMul(-65536, 65536) = -65536 /\ RoundMul(46341, 46341) = 32768
=============================================================================
