SPECIFICATION Spec
CONSTANTS
  Kinds = {"m", "x", "y"}
  TmpKind = "m"
  MaxItems = 4
  MaxAllocs = 5
  Mutant = "leak_tmp"
INVARIANTS NoLeak EndObligations RoutineMatches DrawnOrSkipped CompleteWithoutFaults
