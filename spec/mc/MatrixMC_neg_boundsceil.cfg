SPECIFICATION MCSpec
CONSTANTS
  FB = 3
  WB = 7
  Mutant = "boundsceil"
  Wide = FALSE
  Only = {"bounds"}
  LimbBits <- MCLimbBits
INVARIANTS Sound DevOK Tight
