SPECIFICATION Spec
CONSTANT Mutant = "none"
INVARIANT PointwiseOK
