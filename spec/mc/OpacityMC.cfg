SPECIFICATION Spec
CONSTANTS
  Vals = {0, 1, 2, 64, 127, 128, 129, 200, 254, 255}
  Mutant = "none"
INVARIANTS TableSound TableShape Saturate EmitValid
