------------------------------- MODULE FillMC -------------------------------
(* Design-level check of the byte-buffer algebra of Composite.tla (C19, and the frame       *)
(* predicate of C03) against a naive per-pixel reading of the same storage model.           *)
(* Buffer: GUARD bytes, ROWS rows of STRIDE bytes, GUARD bytes.  Every fill and blt with    *)
(* bpp in Depths, every x / width that fits a row, every row range, both return values is   *)
(* one transition from the initial state; the invariants look at the pair (prev, mem).      *)
(* Mutant = "width_plus_one" (negative configuration): the model writes one pixel too many. *)
EXTENDS Composite

CONSTANTS Depths, GUARD, STRIDE, ROWS, Mutant

VARIABLES prev, last

vars == <<img, reg, mem, prev, last>>

BufLen == 2 * GUARD + ROWS * STRIDE
PatA == [i \in 1..BufLen |-> (37 * i + 11) % 256]
PatB == [i \in 1..BufLen |-> (101 * i + 200) % 256]

Geo(bpp) == [bpp |-> bpp, stride |-> STRIDE, off |-> GUARD]
PixPerRow(bpp) == (8 * STRIDE) \div bpp
\* keep the 1-bpp sweep affordable: every x and width up to 19, which crosses two byte boundaries
MaxX(bpp) == IF bpp = 1 THEN 19 ELSE PixPerRow(bpp)

Values == {<<43981, 4660>>, <<21554, 60875>>, <<0, 0>>, <<65535, 65535>>}    \* 0xabcd1234, its complement, ...
V0 == <<43981, 4660>>

MCInit == /\ mem = [dst |-> PatA, src |-> PatB, alpha |-> <<>>]
          /\ prev = PatA
          /\ img = 0 /\ reg = 0
          /\ last = [k |-> "init"]

Wm(w) == IF Mutant = "width_plus_one" THEN w + 1 ELSE w

DoFill ==
    /\ last.k = "init"
    /\ \E bpp \in Depths, y \in 0..(ROWS - 1), ret \in BOOLEAN, v \in Values :
       \E h \in 0..(ROWS - y), x \in 0..MaxX(bpp) :
       \E w \in 0..(MaxX(bpp) - x) :
          /\ ret \/ v = V0                  \* a refused fill does not depend on the value
          /\ Wm(w) + x <= PixPerRow(bpp)
          /\ Fill(Geo(bpp), x, y, Wm(w), h, v, ret)
          /\ prev' = mem.dst
          /\ last' = [k |-> "fill", bpp |-> bpp, x |-> x, y |-> y, w |-> w, h |-> h, v |-> v, ret |-> ret]

DoBlt ==
    /\ last.k = "init"
    /\ \E sbpp \in Depths, dbpp \in Depths, y \in 0..(ROWS - 1), ret \in BOOLEAN :
       \E h \in 0..(ROWS - y), dx \in 0..MaxX(dbpp), sx \in {0, 1, 3} :
       \E w \in 0..(MaxX(dbpp) - dx) :
          /\ sbpp = dbpp \/ (~ret /\ sx = 0 /\ w <= 1)      \* success is only possible between equal depths
          /\ sx + w <= PixPerRow(sbpp)
          /\ Wm(w) + dx <= PixPerRow(dbpp)
          /\ Blt(Geo(sbpp), Geo(dbpp), sx, ROWS - y - h, dx, y, Wm(w), h, ret)
          /\ prev' = mem.dst
          /\ last' = [k |-> "blt", bpp |-> dbpp, sbpp |-> sbpp, x |-> dx, sx |-> sx, sy |-> ROWS - y - h,
                      y |-> y, w |-> w, h |-> h, ret |-> ret]

MCNext == DoFill \/ DoBlt
MCSpec == MCInit /\ [][MCNext]_vars

-----------------------------------------------------------------------------
(* naive reading: pixel (x, y) as a tuple of bits *)
PixelBits(buf, g, x, y) == [k \in 0..(g.bpp - 1) |-> BufBit(buf, RowBit0(g, y) + x * g.bpp + k)]
ValueBits(v, bpp) == [k \in 0..(bpp - 1) |-> W32Bit(v, k)]

InRect(x, y) == last.x <= x /\ x < last.x + last.w /\ last.y <= y /\ y < last.y + last.h

ImgGeo == [bpp |-> last.bpp, stride |-> STRIDE, off |-> GUARD, w |-> PixPerRow(last.bpp), h |-> ROWS]
RectRegion == RectOf(last.x, last.y, last.w, last.h)

\* bytes that hold no pixel of any row (guards; the tail of a 24-bpp row)
OutsideBytesSame ==
    \A i \in 1..BufLen :
        (\A y \in 0..(ROWS - 1) : i - 1 < GUARD + y * STRIDE \/ i - 1 >= GUARD + y * STRIDE + (PixPerRow(last.bpp) * last.bpp) \div 8)
            => mem.dst[i] = prev[i]

FillCorrect ==
    last.k = "fill" =>
       IF ~last.ret THEN mem.dst = prev
       ELSE /\ \A y \in 0..(ROWS - 1), x \in 0..(PixPerRow(last.bpp) - 1) :
                  PixelBits(mem.dst, ImgGeo, x, y) =
                      IF InRect(x, y) THEN ValueBits(last.v, last.bpp) ELSE PixelBits(prev, ImgGeo, x, y)
            /\ OutsideBytesSame
            /\ FrameOK(prev, mem.dst, ImgGeo, RectRegion)

BltCorrect ==
    last.k = "blt" =>
       IF ~last.ret THEN mem.dst = prev
       ELSE /\ last.sbpp = last.bpp
            /\ \A y \in 0..(ROWS - 1), x \in 0..(PixPerRow(last.bpp) - 1) :
                  PixelBits(mem.dst, ImgGeo, x, y) =
                      IF InRect(x, y)
                      THEN PixelBits(mem.src, ImgGeo, last.sx + (x - last.x), last.sy + (y - last.y))
                      ELSE PixelBits(prev, ImgGeo, x, y)
            /\ OutsideBytesSame
            /\ FrameOK(prev, mem.dst, ImgGeo, RectRegion)

SourceUntouched == mem.src = PatB
=============================================================================
