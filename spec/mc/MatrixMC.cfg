SPECIFICATION MCSpec
CONSTANTS
  FB = 3
  WB = 7
  Mutant = "none"
  Wide = FALSE
  Only = {"point", "point3d", "multiply", "bounds", "invert", "scale", "translate"}
  LimbBits <- MCLimbBits
INVARIANTS Sound DevOK Tight
