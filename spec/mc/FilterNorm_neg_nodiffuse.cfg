SPECIFICATION NSpec
CONSTANTS
  U = 16
  Width = 3
  Lo <- LoDef
  Hi = 6
  Diffuse = FALSE
  Residual = FALSE
  GuardZero = TRUE
INVARIANTS SumsToUnit ExactDiffusion
