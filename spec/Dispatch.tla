------------------------------ MODULE Dispatch ------------------------------
(***************************************************************************)
(* Fast path selection (properties C02 and C16).                           *)
(*                                                                         *)
(* The library keeps a chain of implementations (most specific first,      *)
(* the general one last); each has a table of fast paths                   *)
(*    [op, sf, mf, df, sfl, mfl, dfl, func]                                *)
(* where op / formats may be the wildcard and the flag fields are the      *)
(* sets of flags the request must have.  A request key                     *)
(*    [op, sf, mf, df, sfl, mfl, dfl]                                      *)
(* is served by the first entry, in chain order then table order, that     *)
(* matches (TableWalk).  In front of the tables sits a small               *)
(* most-recently-used cache, one per thread, keyed by *equality* of the    *)
(* whole key; a hit moves the entry to the front, a miss inserts the       *)
(* result of the table walk at the front and drops the last entry.         *)
(* The property the cache must have is transparency: a lookup returns      *)
(* what a fresh table walk returns, whatever the history.                  *)
(***************************************************************************)
EXTENDS Integers, Sequences, FiniteSets, TLC

CONSTANTS CacheSize

Matches(e, key, anyOp, anyFmt) ==
    /\ (e.op = key.op \/ e.op = anyOp)
    /\ (e.sf = key.sf \/ e.sf = anyFmt)
    /\ (e.mf = key.mf \/ e.mf = anyFmt)
    /\ (e.df = key.df \/ e.df = anyFmt)
    /\ e.sfl \subseteq key.sfl
    /\ e.mfl \subseteq key.mfl
    /\ e.dfl \subseteq key.dfl

(* first matching entry of one table, 0 if none *)
FirstMatch(table, key, anyOp, anyFmt) ==
    LET idx == {j \in DOMAIN table : Matches(table[j], key, anyOp, anyFmt)} IN
    IF idx = {} THEN 0 ELSE CHOOSE j \in idx : \A k \in idx : j <= k

(* <<implementation index, func>> serving the key; <<0, 0>> if nothing matches *)
TableWalk(tables, key, anyOp, anyFmt) ==
    LET imps == {i \in DOMAIN tables : FirstMatch(tables[i], key, anyOp, anyFmt) # 0} IN
    IF imps = {} THEN <<0, 0>>
    ELSE LET i == CHOOSE i \in imps : \A k \in imps : i <= k IN
         <<i, tables[i][FirstMatch(tables[i], key, anyOp, anyFmt)].func>>

(* the cache: a sequence of [key, res] of length <= CacheSize, most recently used first *)
HitIndex(c, key) ==
    LET idx == {i \in DOMAIN c : c[i].key = key} IN
    IF idx = {} THEN 0 ELSE CHOOSE i \in idx : \A k \in idx : i <= k

MoveToFront(c, i) == <<c[i]>> \o SubSeq(c, 1, i - 1) \o SubSeq(c, i + 1, Len(c))

InsertFront(c, entry) ==
    LET n == IF Len(c) < CacheSize THEN Len(c) ELSE CacheSize - 1 IN <<entry>> \o SubSeq(c, 1, n)

(* result and next cache of a lookup *)
LookupResult(c, tables, key, anyOp, anyFmt) ==
    LET i == HitIndex(c, key) IN IF i # 0 THEN c[i].res ELSE TableWalk(tables, key, anyOp, anyFmt)

LookupCache(c, tables, key, anyOp, anyFmt) ==
    LET i == HitIndex(c, key) IN
    IF i # 0 THEN MoveToFront(c, i)
    ELSE InsertFront(c, [key |-> key, res |-> TableWalk(tables, key, anyOp, anyFmt)])
=============================================================================
