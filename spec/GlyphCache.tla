------------------------------ MODULE GlyphCache ------------------------------
(* C17, refined level: the open-addressing table of pixman-glyph.c, exactly as the code    *)
(* does it, and its refinement of the abstract map + LRU order of GlyphMap.tla.             *)
(*                                                                                          *)
(*   slot    [0..H-1 -> NULLV | TOMB | key]     cache->glyphs[]                             *)
(*   ng, nt  cache->n_glyphs, cache->n_tombstones                                           *)
(*   freeze  cache->freeze_count                                                            *)
(*   mru     keys, most recently used first      cache->mru (list of glyph_t)               *)
(*   val     key -> content of its entry (NoVal when absent)    glyph_t origin + image copy *)
(*   ret     result of the last call: [hit, v, hang]                                        *)
(*                                                                                          *)
(* The probe loops of lookup_glyph / insert_glyph / remove_glyph are bounded recursions:    *)
(* a probe sequence of H steps that has not reached its exit has visited every slot and     *)
(* will revisit them for ever.  That outcome is the value HANG; "no probe ever hangs" is    *)
(* an explicit obligation (invariants ProbesTerminate, NoHang), not an assumption.          *)
(*                                                                                          *)
(* CapRule selects the capacity test of pixman_glyph_cache_insert:                          *)
(*   "glyphs"  refuse iff n_glyphs >= HASH_SIZE                      (pixman 0.40.1 as shipped) *)
(*   "slots"   refuse iff n_glyphs + n_tombstones >= HASH_SIZE - 1   (the repair: a NULL slot survives) *)
(*   "free"    the most general correct rule, the one traces are validated against: refusal  *)
(*             only when no more than one NULL slot is left, acceptance only if a NULL slot  *)
(*             remains afterwards ("slots" and any sharper repair are instances of it)       *)
EXTENDS Integers, Sequences, FiniteSets

CONSTANTS Keys,         \* set of positive integers: the (font key, glyph key) pairs in use
          Vals,         \* entry contents
          NoVal,        \* content of "no entry"
          H, HIGH, LOW, \* HASH_SIZE, N_GLYPHS_HIGH_WATER, N_GLYPHS_LOW_WATER
          Hash,         \* [Keys -> 0..H-1]: hash (font_key, glyph_key) & HASH_MASK, the real function
          CapRule

VARIABLES slot, ng, nt, freeze, mru, val, ret

vars == <<slot, ng, nt, freeze, mru, val, ret>>

NULLV == 0
TOMB  == -1
MISS  == -1          \* probe reached a NULL slot
HANG  == -2          \* probe of H steps without exit: the loop never terminates

Slots == 0..(H - 1)
Nxt(i) == (i + 1) % H
Prv(i) == (i + H - 1) % H

Void     == [hit |-> FALSE, v |-> <<>>, hang |-> FALSE]
Found(v) == [hit |-> TRUE, v |-> <<v>>, hang |-> FALSE]
Hung     == [hit |-> FALSE, v |-> <<>>, hang |-> TRUE]

SeqToSet(s)   == {s[i] : i \in DOMAIN s}
Without(s, k) == SelectSeq(s, LAMBDA x : x # k)

(* ---------------------------------------------------------------------------------------- *)
(* probe loops                                                                              *)

(* lookup_glyph: while ((g = glyphs[idx++ & MASK])) if (g != TOMBSTONE && keys equal) return g; return NULL *)
RECURSIVE LookupFrom(_, _, _, _)
LookupFrom(s, k, i, n) ==
    IF n = H THEN HANG
    ELSE IF s[i] = NULLV THEN MISS
    ELSE IF s[i] = k THEN i
    ELSE LookupFrom(s, k, Nxt(i), n + 1)
LookupIdx(s, k) == LookupFrom(s, k, Hash[k], 0)

(* insert_glyph: do loc = &glyphs[idx++ & MASK]; while ( *loc && *loc != TOMBSTONE ) *)
RECURSIVE InsertFrom(_, _, _)
InsertFrom(s, i, n) ==
    IF n = H THEN HANG
    ELSE IF s[i] = NULLV \/ s[i] = TOMB THEN i
    ELSE InsertFrom(s, Nxt(i), n + 1)
InsertIdx(s, k) == InsertFrom(s, Hash[k], 0)

(* remove_glyph, first loop: while (glyphs[idx & MASK] != glyph) idx++   (does not stop at NULL) *)
RECURSIVE FindFrom(_, _, _, _)
FindFrom(s, k, i, n) ==
    IF n = H THEN HANG
    ELSE IF s[i] = k THEN i
    ELSE FindFrom(s, k, Nxt(i), n + 1)
FindIdx(s, k) == FindFrom(s, k, Hash[k], 0)

(* remove_glyph, tombstone elimination: while (glyphs[idx & MASK] == TOMBSTONE) { = NULL; n_tombstones--; idx--; } *)
(* result: [s, c] with c the number of tombstones cleared, or -1 if the loop does not terminate                     *)
RECURSIVE SweepBack(_, _, _)
SweepBack(s, j, n) ==
    IF n = H THEN [s |-> s, c |-> -1]
    ELSE IF s[j] = TOMB
         THEN LET r == SweepBack([s EXCEPT ![j] = NULLV], Prv(j), n + 1)
              IN  [s |-> r.s, c |-> IF r.c < 0 THEN -1 ELSE r.c + 1]
         ELSE [s |-> s, c |-> 0]

(* table state as a record, so that thaw can iterate *)
Tab(s, g, t, m, w) == [s |-> s, ng |-> g, nt |-> t, mru |-> m, val |-> w, hang |-> FALSE]
Cur == Tab(slot, ng, nt, mru, val)

(* remove_glyph (cache, glyph) followed by free_glyph (unlink from mru) *)
RemoveKey(T, k) ==
    LET i == FindIdx(T.s, k) IN
    IF i = HANG THEN [T EXCEPT !.hang = TRUE]
    ELSE LET s1 == [T.s EXCEPT ![i] = TOMB]
             sw == IF s1[Nxt(i)] = NULLV THEN SweepBack(s1, i, 0) ELSE [s |-> s1, c |-> 0]
         IN  IF sw.c < 0 THEN [T EXCEPT !.hang = TRUE]
             ELSE [s |-> sw.s, ng |-> T.ng - 1, nt |-> T.nt + 1 - sw.c,
                   mru |-> Without(T.mru, k), val |-> [T.val EXCEPT ![k] = NoVal], hang |-> FALSE]

(* clear_table *)
Cleared == [s |-> [i \in Slots |-> NULLV], ng |-> 0, nt |-> 0, mru |-> <<>>,
            val |-> [k \in Keys |-> NoVal], hang |-> FALSE]

(* thaw: while (n_glyphs > LOW) remove the glyph at the tail of the mru list *)
RECURSIVE EvictLoop(_)
EvictLoop(T) ==
    IF T.hang \/ T.ng <= LOW THEN T
    ELSE IF T.mru = <<>> THEN [T EXCEPT !.hang = TRUE]     \* CONTAINER_OF an empty list head: garbage
    ELSE EvictLoop(RemoveKey(T, T.mru[Len(T.mru)]))

ThawResult(T) ==
    IF T.ng + T.nt > HIGH
    THEN EvictLoop(IF T.nt > HIGH THEN Cleared ELSE T)
    ELSE T

(* the capacity test of pixman_glyph_cache_insert *)
Occupied == ng + nt
MayRefuse == IF CapRule = "glyphs" THEN ng >= H ELSE Occupied >= H - 1
MayAccept(k) ==           \* (no CASE: TLC's -generate mode does not evaluate CASE inside actions)
    IF CapRule = "glyphs" THEN ng < H
    ELSE IF CapRule = "slots" THEN Occupied < H - 1
    ELSE \/ Occupied < H - 1                        \* "free": a NULL slot will remain
         \/ /\ InsertIdx(slot, k) >= 0
            /\ slot[InsertIdx(slot, k)] = TOMB      \* a tombstone is reused: no NULL slot taken

Adopt(T) == /\ slot' = T.s /\ ng' = T.ng /\ nt' = T.nt /\ mru' = T.mru /\ val' = T.val

(* ---------------------------------------------------------------------------------------- *)
(* one action per API call                                                                  *)

Init == /\ slot = [i \in Slots |-> NULLV]
        /\ ng = 0 /\ nt = 0 /\ freeze = 0
        /\ mru = <<>>
        /\ val = [k \in Keys |-> NoVal]
        /\ ret = Void

Freeze == /\ freeze' = freeze + 1
          /\ ret' = Void
          /\ UNCHANGED <<slot, ng, nt, mru, val>>

Thaw == /\ freeze > 0
        /\ freeze' = freeze - 1
        /\ IF freeze = 1
           THEN LET T == ThawResult(Cur) IN
                /\ Adopt(T)
                /\ ret' = IF T.hang THEN Hung ELSE Void
           ELSE /\ UNCHANGED <<slot, ng, nt, mru, val>>
                /\ ret' = Void

Lookup(k) == /\ LET i == LookupIdx(slot, k) IN
                ret' = IF i = HANG THEN Hung ELSE IF i = MISS THEN Void ELSE Found(val[k])
             /\ UNCHANGED <<slot, ng, nt, freeze, mru, val>>

(* precondition of the API: inside a freeze, key not present (callers look up first) *)
Insert(k, v) ==
    /\ freeze > 0
    /\ LookupIdx(slot, k) \in {MISS, HANG}
    /\ \/ /\ MayRefuse
          /\ ret' = Void
          /\ UNCHANGED <<slot, ng, nt, mru, val>>
       \/ /\ MayAccept(k)
          /\ LET i == InsertIdx(slot, k) IN
             IF i = HANG
             THEN /\ ret' = Hung
                  /\ UNCHANGED <<slot, ng, nt, mru, val>>
             ELSE /\ slot' = [slot EXCEPT ![i] = k]
                  /\ nt' = IF slot[i] = TOMB THEN nt - 1 ELSE nt
                  /\ ng' = ng + 1
                  /\ mru' = <<k>> \o mru                  \* pixman_list_prepend
                  /\ val' = [val EXCEPT ![k] = v]
                  /\ ret' = Found(v)
    /\ UNCHANGED freeze

Remove(k) ==
    /\ LET i == LookupIdx(slot, k) IN
       IF i = HANG THEN /\ ret' = Hung
                        /\ UNCHANGED <<slot, ng, nt, mru, val>>
       ELSE IF i = MISS THEN /\ ret' = Void
                             /\ UNCHANGED <<slot, ng, nt, mru, val>>
       ELSE LET T == RemoveKey(Cur, k) IN
            /\ Adopt(T)
            /\ ret' = IF T.hang THEN Hung ELSE Void
    /\ UNCHANGED freeze

(* the glyph (a pointer obtained from insert/lookup, still live) is drawn: move_to_front *)
Use(k) ==
    /\ LookupIdx(slot, k) >= 0
    /\ mru' = <<k>> \o Without(mru, k)
    /\ ret' = Found(val[k])
    /\ UNCHANGED <<slot, ng, nt, freeze, val>>

Next ==
    \/ Freeze
    \/ Thaw
    \/ \E k \in Keys : \/ \E v \in Vals : Insert(k, v)
                       \/ Lookup(k)
                       \/ Remove(k)
                       \/ Use(k)

Spec == Init /\ [][Next]_vars

(* ---------------------------------------------------------------------------------------- *)
(* invariants                                                                               *)

LiveKeys == {k \in Keys : \E i \in Slots : slot[i] = k}

TypeOK == /\ slot \in [Slots -> {NULLV, TOMB} \cup Keys]
          /\ ng \in 0..H /\ nt \in 0..H /\ freeze \in Nat
          /\ val \in [Keys -> Vals \cup {NoVal}]

CountsMatch == /\ ng = Cardinality({i \in Slots : slot[i] \in Keys})
               /\ nt = Cardinality({i \in Slots : slot[i] = TOMB})

NoDuplicate == \A i, j \in Slots : (slot[i] \in Keys /\ slot[i] = slot[j]) => i = j

(* every key is reachable from its hash before the first NULL *)
Reachable == \A i \in Slots : slot[i] \in Keys => LookupIdx(slot, slot[i]) = i

(* a NULL slot exists whenever a lookup may start, i.e. always *)
NullExists == \E i \in Slots : slot[i] = NULLV

(* ... hence every probe terminates, for present and absent keys alike *)
ProbesTerminate == \A k \in Keys : LookupIdx(slot, k) # HANG
NoHang == ~ret.hang

MruMatches == /\ SeqToSet(mru) = LiveKeys
              /\ Len(mru) = ng
ValMatches == \A k \in Keys : (val[k] = NoVal) <=> (k \notin LiveKeys)

(* outside a freeze the cache is within its water marks *)
WaterMarks == freeze = 0 => (ng + nt <= HIGH \/ ng <= LOW)

(* a full cache is not stuck: the thaw that ends the next freeze will clear it.  Needs     *)
(* HIGH - 1 > LOW (true of 16384/8192 and of the 4/2 test build; a 2/1 table can stay full) *)
NotStuck == (HIGH - 1 > LOW /\ freeze = 0 /\ ng + nt >= H - 1) => nt > HIGH

(* ---------------------------------------------------------------------------------------- *)
(* refinement: the table implements the abstract map + LRU order                            *)

Abs == INSTANCE GlyphMap WITH
          AKeys <- Keys, AVals <- Vals, CAP <- H - 1,
          live <- LiveKeys,
          val  <- [k \in LiveKeys |-> val[k]],
          lru  <- mru,
          dead <- nt,
          ret  <- [hit |-> ret.hit, v |-> ret.v]

AbsSpec == Abs!ASpec
AbsInv  == Abs!ALruIsLive /\ Abs!AFreeExists

THEOREM Spec => AbsSpec
=============================================================================
