------------------------------ MODULE Gradient ------------------------------
(* C13: the colour a linear / radial / conical gradient source shows at a destination       *)
(* pixel.  Pure functions (no state of their own) plus a two-state machine                  *)
(* idle -> drawing -> idle that consumes the scanlines of one composite.                    *)
(*                                                                                        *)
(*   pixel (x, y)  --centre, image transform-->  point P  --T_kind-->  parameter t        *)
(*   --FoldRepeat-->  u  --stop lookup-->  segment  --linear interpolation, non-premult.-->*)
(*   colour  --premultiply-->  expected channel values                                     *)
(*                                                                                        *)
(* Arithmetic.  Geometry lives on a half-pixel lattice, so P is an exact rational point     *)
(* (homogeneous integer coordinates X, Y, W).  t is an exact rational for linear            *)
(* gradients, needs a square root for radial ones and an arctangent for conical ones; it    *)
(* is carried as an interval <<lo, hi>> in scale TS = 2^18 that contains the real value     *)
(* (spec/lib/GradIv.tla).  pixman hands its walker t as a 16.16 number obtained by          *)
(* truncation (twice on the affine linear path), so the colour is taken over the hull of    *)
(* t +- TSlack (2/65536); the hull also covers the jumps of the colour function at          *)
(* repeated stop positions, at the ends of a REPEAT_NONE gradient and at the NORMAL wrap.   *)
(* Acceptance per channel: observed in [lo - 1, hi + 1] eight-bit steps, where [lo, hi]     *)
(* bounds alpha, respectively alpha * colour / 255, over that hull.                         *)
(* Where the statement's case distinction sits exactly on a boundary (discriminant 0,       *)
(* radius exactly 0, t exactly 0 or 1 for REPEAT_NONE) either outcome is accepted.          *)
(* No obligation ("any"): homogeneous W = 0, coincident linear end points, the pixel at     *)
(* the centre of a conical gradient, magnitudes outside the guards below.                   *)
(* Weakest part: conical angles are bracketed by a tangent table of 4096 directions per     *)
(* turn, i.e. t is known to 1/4096 (+ slack) only.                                          *)
EXTENDS GradIv

CONSTANT Mutant          \* "none"; negative configurations name a deliberate error

TSlack == 8              \* 2/65536 in scale TS
CS == 64                 \* colour channels are carried in 1/64 of an 8-bit step

(* ---- repeat folding ---------------------------------------------------------------------- *)
(* position inside period k of the unfolded parameter t (k = floor(t / TS)), as a value in [0, TS] *)
FoldIn(t, k, mode) ==
    LET f == t - k * TS
        odd == IF Mutant = "reflect_parity" THEN k % 2 = 0 ELSE k % 2 = 1 IN
    CASE mode = "NORMAL"  -> f
      [] mode = "REFLECT" -> IF odd THEN TS - f ELSE f
      [] OTHER            -> t
FoldRepeat(t, mode) == FoldIn(t, t \div TS, mode)

(* ---- stops ------------------------------------------------------------------------------- *)
(* a stop: [x |-> position as 16.16 (0 .. 65536), c |-> <<a, r, g, b>> in 0 .. 255]           *)
SX(stops, n) == stops[n].x * 4                                  \* position in scale TS
SortedStops(stops) ==
    /\ Len(stops) >= 1
    /\ \A n \in 1..Len(stops) : stops[n].x >= 0 /\ stops[n].x <= 65536
    /\ \A n \in 1..(Len(stops) - 1) : stops[n].x <= stops[n + 1].x

(* first stop whose position is > u (side "R": the colour AT u) or >= u (side "L": the limit *)
(* from below); Len + 1 if none                                                              *)
RECURSIVE LookupFrom(_, _, _, _)
LookupFrom(stops, u, side, n) ==
    IF n > Len(stops) THEN n
    ELSE IF (IF side = "R" /\ Mutant # "lookup_le" THEN u < SX(stops, n) ELSE u <= SX(stops, n)) THEN n
    ELSE LookupFrom(stops, u, side, n + 1)
Lookup(stops, u, side) == LookupFrom(stops, u, side, 1)

Transparent == <<0, 0, 0, 0>>
Seg(x0, c0, x1, c1) == [x0 |-> x0, c0 |-> c0, x1 |-> x1, c1 |-> c1]
Const(c) == Seg(0, c, 0, c)

(* the two neighbouring stops of lookup result n, with the sentinels of the repeat mode *)
Segment(stops, mode, n) ==
    LET N == Len(stops) IN
    IF n = 1 THEN
        CASE mode = "NONE"    -> Const(Transparent)
          [] mode = "PAD"     -> Const(stops[1].c)
          [] mode = "REFLECT" -> Const(stops[1].c)
          [] mode = "NORMAL"  -> Seg(SX(stops, N) - TS, stops[N].c, SX(stops, 1), stops[1].c)
    ELSE IF n = N + 1 THEN
        CASE mode = "NONE"    -> Const(Transparent)
          [] mode = "PAD"     -> Const(stops[N].c)
          [] mode = "REFLECT" -> Const(stops[N].c)
          [] mode = "NORMAL"  -> Seg(SX(stops, N), stops[N].c, SX(stops, 1) + TS, stops[1].c)
    ELSE Seg(SX(stops, n - 1), stops[n - 1].c, SX(stops, n), stops[n].c)

(* channel k of the linear interpolation on segment s at u, as an interval in scale CS *)
ChanAt(s, u, k) ==
    LET den == s.x1 - s.x0 IN
    IF den <= 0 THEN <<IvMin(s.c0[k], s.c1[k]) * CS, IvMax(s.c0[k], s.c1[k]) * CS>>     \* a jump: both sides
    ELSE LET uu  == IvMax(s.x0, IvMin(s.x1, u))
             num == s.c0[k] * (s.x1 - uu) + s.c1[k] * (uu - s.x0)
             q == num \div den  r == num % den
             lo == q * CS + ((r * CS) \div den) IN
         <<lo, IF (r * CS) % den = 0 THEN lo ELSE lo + 1>>

ColourAt(stops, mode, u, side) ==
    LET s == Segment(stops, mode, Lookup(stops, u, side)) IN [k \in 1..4 |-> ChanAt(s, u, k)]

(* hull of the colour over the folded interval [ulo, uhi]: both one-sided values at the ends and *)
(* at every stop position in between (the colour is linear between stop positions)              *)
EvalPoints(stops, ulo, uhi) == {ulo, uhi} \cup {SX(stops, n) : n \in {m \in 1..Len(stops) : ulo < SX(stops, m) /\ SX(stops, m) < uhi}}

HullOfSet(S, k) == <<CHOOSE v \in {c[k][1] : c \in S} : \A c \in S : v <= c[k][1],
                     CHOOSE v \in {c[k][2] : c \in S} : \A c \in S : v >= c[k][2]>>

PieceColours(stops, mode, ulo, uhi) ==
    {ColourAt(stops, mode, u, side) : u \in EvalPoints(stops, ulo, uhi), side \in {"L", "R"}}

(* the unfolded interval [tlo, thi] cut at period boundaries and folded *)
Pieces(mode, tlo, thi) ==
    IF mode \in {"NONE", "PAD"} THEN {<<tlo, thi>>}
    ELSE {LET a == IvMax(tlo, k * TS)  b == IvMin(thi, (k + 1) * TS)
              fa == FoldIn(a, k, mode)  fb == FoldIn(b, k, mode) IN
          <<IvMin(fa, fb), IvMax(fa, fb)>> : k \in (tlo \div TS)..(thi \div TS)}

(* <<alpha, red, green, blue>> intervals (non-premultiplied, scale CS) over t in [tlo, thi] *)
ColourHull(stops, mode, tlo, thi) ==
    LET S == UNION {PieceColours(stops, mode, p[1], p[2]) : p \in Pieces(mode, tlo, thi)} IN
    [k \in 1..4 |-> HullOfSet(S, k)]

(* ---- acceptance of one observed pixel ---------------------------------------------------- *)
(* obs = <<a, r, g, b>> in units of 1/unit of an 8-bit step (unit = 1 narrow, 256 wide)       *)
ChannelsOK(h, obs, unit) ==
    \* far outside 0..255 steps is never within tolerance (and must not overflow the products below)
    /\ \A k \in 1..4 : obs[k] >= -256 * unit /\ obs[k] <= 512 * unit
    /\ obs[1] * CS >= (h[1][1] - CS) * unit /\ obs[1] * CS <= (h[1][2] + CS) * unit
    /\ \A k \in 2..4 :
          \* alpha * colour / 255, in units of 1 / (255 * CS * CS) of a step
          LET plo == h[1][1] * h[k][1]  phi == h[1][2] * h[k][2]  step == 255 * CS * CS
              o == obs[k] * (step \div unit) IN
          o >= plo - step /\ o <= phi + step

(* ---- through a mask (narrow pipeline, OP_SRC: gradient IN mask) ------------------------------ *)
(* pixman multiplies every channel of the 8-bit gradient pixel g by the mask alpha m with the   *)
(* rounding MulUn8 (round half up of g*m/255; the Combine rule of C01).  The gradient pixel     *)
(* itself is only known to lie in the acceptance range of ChannelsOK; MulUn8 is monotone in g   *)
(* with steps of at most 1, so the observed channel must lie between the images of the range's  *)
(* end points.  m = 255 gives back ChannelsOK, m = 0 demands 0.                                  *)
MulUn8(a, b) == LET t == a * b + 128 IN (t + (t \div 256)) \div 256
CeilDiv(a, b) == -((-a) \div b)
ChannelsMaskedOK(h, obs, m) ==
    LET step == 255 * CS * CS
        lo(k) == IF k = 1 THEN CeilDiv(h[1][1] - CS, CS) ELSE CeilDiv(h[1][1] * h[k][1] - step, step)
        hi(k) == IF k = 1 THEN (h[1][2] + CS) \div CS ELSE (h[1][2] * h[k][2] + step) \div step
    IN \A k \in 1..4 : /\ obs[k] >= MulUn8(IvMax(0, lo(k)), m)
                        /\ obs[k] <= MulUn8(IvMin(255, hi(k)), m)

(* an option is <<"T">> (transparent, exact), <<"t", lo, hi>> (parameter interval) or <<"any">> *)
(* m: mask alpha of the pixel (0..255), or -1 when the composite has no mask *)
OptionOK(opt, stops, mode, obs, unit, m) ==
    CASE opt[1] = "any" -> TRUE
      [] opt[1] = "T"   -> obs = Transparent
      [] opt[1] = "t"   -> LET h == ColourHull(stops, mode, opt[2] - TSlack, opt[3] + TSlack) IN
                           IF m < 0 THEN ChannelsOK(h, obs, unit) ELSE unit = 1 /\ ChannelsMaskedOK(h, obs, m)

(* ---- geometry: pixel -> point ------------------------------------------------------------- *)
(* m: 3x3 integer matrix (the 16.16 transform divided by the gcd of its entries; identity if   *)
(* the image has no transform).  Returns homogeneous <<X, Y, W>>, reduced, of the pixel centre *)
PointOf(m, x, y) ==
    LET px == 2 * x + 1  py == 2 * y + 1
        X == m[1][1] * px + m[1][2] * py + m[1][3] * 2
        Y == m[2][1] * px + m[2][2] * py + m[2][3] * 2
        W == m[3][1] * px + m[3][2] * py + m[3][3] * 2
        g == Gcd3(X, Y, W) IN
    IF g = 0 THEN <<0, 0, 0>> ELSE <<X \div g, Y \div g, W \div g>>

Small(v, bound) == IvAbs(v) <= bound

(* ---- T_linear: projection onto p1 p2 ------------------------------------------------------ *)
(* g = <<p1x, p1y, p2x, p2y>> in units of 1/hu of a half pixel (hu = 1: the half-pixel lattice; *)
(* a larger hu allows gradient vectors that are a small fraction of a pixel long, for which t   *)
(* is thousands of periods away from [0,1]).  The colour depends on t only through              *)
(* FoldRepeat, which has period 2 (NORMAL: 1), and is constant outside [0,1] for NONE and PAD   *)
(* (stops lie in [0,1]), so the integer part q of t is reduced before scaling: exact.           *)
ReduceQ(q, mode) ==
    IF mode \in {"NORMAL", "REFLECT"} THEN q % 2
    ELSE IF q < -2 THEN -2 ELSE IF q > 3 THEN 3 ELSE q

LinearOpts(g, hu, P, mode) ==
    LET dx == g[3] - g[1]  dy == g[4] - g[2]  L == dx * dx + dy * dy
        X == P[1]  Y == P[2]  W == P[3]
        ax == 2 * hu * X - g[1] * W  ay == 2 * hu * Y - g[2] * W IN
    IF L = 0 \/ W = 0 \/ ~(Small(dx, 512) /\ Small(dy, 512) /\ Small(hu, 4096) /\ Small(X, 32768) /\ Small(Y, 32768)
                          /\ Small(W, 1024) /\ Small(g[1], 1048576) /\ Small(g[2], 1048576)
                          /\ Small(ax, 536870912 \div IvMax(IvAbs(dx), 1)) /\ Small(ay, 536870912 \div IvMax(IvAbs(dy), 1)))
    THEN {<<"any">>}
    ELSE LET N == ax * dx + ay * dy  D == W * L IN
         IF IvAbs(D) >= 1073741824 THEN {<<"any">>}
         ELSE LET n == IF D < 0 THEN -N ELSE N  d == IvAbs(D)
                  q == n \div d  r == n % d
                  f == IF d <= 8191 THEN (r * TS) \div d ELSE FracBits(r, d, TSBits)
                  lo == ReduceQ(q, mode) * TS + f
              IN {<<"t", lo, IF r = 0 THEN lo ELSE lo + 1>>}

(* ---- T_radial: larger admissible root of the two-circle equation -------------------------- *)
(* three-valued admissibility of parameter interval t: "yes" | "no" | "maybe" *)
Admissible(t, mode, r1, dr) ==
    IF mode = "NONE" THEN
        IF t[1] > 0 /\ t[2] < TS THEN "yes" ELSE IF t[2] < 0 \/ t[1] > TS THEN "no" ELSE "maybe"
    ELSE IF dr = 0 THEN "yes"                       \* r(t) = r1 >= 0 everywhere
    ELSE LET thr == IF dr > 0 THEN DivIv(-r1, dr) ELSE DivIv(r1, -dr) IN    \* r(t) = 0 at thr
         IF dr > 0 THEN (IF t[1] > thr[2] THEN "yes" ELSE IF t[2] < thr[1] THEN "no" ELSE "maybe")
         ELSE (IF t[2] < thr[1] THEN "yes" ELSE IF t[1] > thr[2] THEN "no" ELSE "maybe")

TOpt(t) == <<"t", t[1], t[2]>>

(* options given the candidate roots in decreasing order *)
RootOpts(hi, lo, mode, r1, dr) ==
    LET ah == Admissible(hi, mode, r1, dr)  al == Admissible(lo, mode, r1, dr)
        rest == CASE al = "yes" -> {TOpt(lo)} [] al = "maybe" -> {TOpt(lo), <<"T">>} [] OTHER -> {<<"T">>} IN
    CASE ah = "yes"   -> {TOpt(hi)}
      [] ah = "maybe" -> {TOpt(hi)} \cup rest
      [] OTHER        -> rest

DivIvIv(nlo, nhi, D) == Hull(DivIv(nlo, D), DivIv(nhi, D))

(* g = <<c1x, c1y, r1, c2x, c2y, r2>> in half pixels *)
RadialOpts(g, P, mode) ==
    LET cdx == g[4] - g[1]  cdy == g[5] - g[2]  r1 == g[3]  dr == g[6] - g[3]
        X == P[1]  Y == P[2]  W == P[3]
        PX == 2 * X - g[1] * W  PY == 2 * Y - g[2] * W IN
    IF W = 0 \/ ~(Small(cdx, 64) /\ Small(cdy, 64) /\ Small(r1, 64) /\ Small(dr, 64) /\ r1 >= 0 /\ g[6] >= 0
                  /\ Small(PX, 2048) /\ Small(PY, 2048) /\ Small(W, 64))
    THEN {<<"any">>}
    ELSE
    LET A  == cdx * cdx + cdy * cdy - dr * dr
        Bp == PX * cdx + PY * cdy + r1 * dr * W             \* B * W
        Cp == PX * PX + PY * PY - r1 * r1 * W * W           \* C * W^2
    IN
    IF A = 0 THEN
        IF Bp = 0 THEN {<<"T">>}
        ELSE IF ~(Small(Bp, 100000) /\ DivFits(Cp, 2 * Bp * W)) THEN {<<"any">>}
        ELSE LET t == DivIv(Cp, 2 * Bp * W) IN RootOpts(t, t, mode, r1, dr)
    ELSE IF ~(Small(Bp, 46000) /\ IvAbs(Cp) <= 2147483647 \div IvAbs(A)) THEN {<<"any">>}
    ELSE
    LET disc == Bp * Bp - A * Cp IN
    IF disc < 0 THEN {<<"T">>}
    ELSE IF disc >= 1073741824 THEN {<<"any">>}
    ELSE
    LET aw == IvAbs(A * W)
        s0 == ISqrt(disc)
        \* digits: keep Bp * 2^k < 2^30, A * W * 2^k < 2^29, sqrt * 2^k < 2^26
        kb == CHOOSE k \in 0..14 : /\ (IvAbs(Bp) + s0 + 2) * P2(k) < 1073741824 /\ aw * P2(k) < 536870912
                                   /\ (k = 14 \/ (IvAbs(Bp) + s0 + 2) * P2(k + 1) >= 1073741824 \/ aw * P2(k + 1) >= 536870912)
        k  == SqrtDigits(s0, 0, kb)
        sq == SqrtScaled(disc, k)
        slo == sq[1]  shi == IF sq[2] THEN sq[1] ELSE sq[1] + 1
        D  == A * W * P2(k)
        bk == Bp * P2(k)
    IN
    IF ~(DivFits(bk + shi, D) /\ DivFits(bk - shi, D)) THEN {<<"any">>}
    ELSE
    LET tp == DivIvIv(bk + slo, bk + shi, D)        \* (B + sqrt) / A
        tm == DivIvIv(bk - shi, bk - slo, D)        \* (B - sqrt) / A
        opts == IF A * W > 0 THEN RootOpts(tp, tm, mode, r1, dr) ELSE RootOpts(tm, tp, mode, r1, dr)
    IN IF disc = 0 THEN opts \cup {<<"T">>} ELSE opts

(* ---- T_conical: 1 - (angle about the centre + gradient angle) / turn, in (0, 1] ----------- *)
(* g = <<cx, cy, degrees>> (centre in half pixels, whole degrees 0..359) *)
ConicalOpts(g, P) ==
    LET X == P[1]  Y == P[2]  W == P[3]
        PX == 2 * X - g[1] * W  PY == 2 * Y - g[2] * W
        sx == IF W < 0 THEN -PX ELSE PX  sy == IF W < 0 THEN -PY ELSE PY IN
    IF W = 0 \/ (PX = 0 /\ PY = 0) \/ ~(Small(PX, 2048) /\ Small(PY, 2048) /\ g[3] >= 0 /\ g[3] < 360) THEN {<<"any">>}
    ELSE
    LET th  == AngleIv(sx, sy)
        ang == <<(g[3] * TS) \div 360, (g[3] * TS + 359) \div 360>>
        a == th[1] + ang[1]  b == th[2] + ang[2]
        n == a \div TS  a1 == a - n * TS  b1 == b - n * TS
    IN IF b1 < TS THEN {<<"t", TS - b1, TS - a1>>}
       ELSE {<<"t", 0, TS - a1>>, <<"t", 2 * TS - b1, TS>>}

(* ---- one pixel ----------------------------------------------------------------------------- *)
(* scn: [kind, g, hu, stops, repeat, m, unit, mask]   mask: rows of alpha values, <<>> for none                                                       *)
Options(scn, x, y) ==
    LET P == PointOf(scn.m, x, y) IN
    CASE scn.kind = "linear"  -> LinearOpts(scn.g, scn.hu, P, scn.repeat)
      [] scn.kind = "radial"  -> RadialOpts(scn.g, P, scn.repeat)
      [] scn.kind = "conical" -> ConicalOpts(scn.g, P)

MaskAt(scn, x, y) == IF Len(scn.mask) = 0 THEN -1 ELSE scn.mask[y + 1][x + 1]

PixelOK(scn, x, y, obs) ==
    \E opt \in Options(scn, x, y) : OptionOK(opt, scn.stops, scn.repeat, obs, scn.unit, MaskAt(scn, x, y))

NoObligation(scn, x, y) == Options(scn, x, y) = {<<"any">>}

RowOK(scn, x0, y, row) == \A i \in 1..Len(row) : PixelOK(scn, x0 + i - 1, y, row[i])

(* ---- state machine --------------------------------------------------------------------------- *)
VARIABLE gst      \* [st |-> "idle"] or [st |-> "drawing", scn, claim, next, rows]

GIdle == [st |-> "idle"]
GInit == gst = GIdle

(* a composite of the gradient (OP_SRC) is started; claim = the colour claim applies (sorted   *)
(* stops in [0,1], non-degenerate geometry); otherwise only the safety claim (it returns)     *)
GBegin(scn, claim, rows) ==
    /\ gst.st = "idle"
    /\ claim => SortedStops(scn.stops)
    /\ gst' = [st |-> "drawing", scn |-> scn, claim |-> claim, next |-> 0, rows |-> rows]

(* scanline y of the destination, pixels x0 .. x0 + Len(row) - 1 *)
GScanline(y, x0, row) ==
    /\ gst.st = "drawing" /\ gst.claim
    /\ y = gst.next /\ y < gst.rows
    /\ RowOK(gst.scn, x0, y, row)
    /\ gst' = IF y + 1 = gst.rows THEN GIdle ELSE [gst EXCEPT !.next = y + 1]

(* the call returned (safety claim: no crash, no hang, no out-of-bounds read) *)
GReturned ==
    /\ gst.st = "drawing" /\ ~gst.claim
    /\ gst' = GIdle
=============================================================================
