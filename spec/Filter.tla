------------------------------- MODULE Filter -------------------------------
(* C18: parameter blocks of PIXMAN_FILTER_SEPARABLE_CONVOLUTION as built by               *)
(* pixman_filter_create_separable_convolution.                                            *)
(*                                                                                        *)
(* What this module is: a well-formedness PREDICATE on a parameter block plus a small     *)
(* state machine  idle -> (creating ->) created -> attached -> rendered  with one action  *)
(* per API call (create, pixman_image_set_filter, a composite of a constant image         *)
(* through the filter).  It does not describe how pixman integrates kernels: the          *)
(* statement of C18 constrains the block, not the individual coefficient values.          *)
(*                                                                                        *)
(* A block is a sequence of pixman_fixed_t (16.16) values                                 *)
(*     << w*65536, h*65536, bx*65536, by*65536,  2^bx rows of w values,  2^by rows of h values >>  *)
(* WellFormed(block, n):  n = Len(block) = 4 + w*2^bx + h*2^by, the four header words are *)
(* integers in 16.16 with w, h >= 1 and bx, by >= 0, and every row (one per phase) sums   *)
(* to exactly One = 65536.                                                                *)
(*                                                                                        *)
(* Rendering obligation ("filtering a constant image leaves it constant").  pixman's      *)
(* fetchers (narrow pipeline, both the affine fast path and the general path) weight the  *)
(* tap (i,j) with f_ij = (fx_j * fy_i + 0x8000) >> 16, accumulate c * f_ij per channel    *)
(* and return (total + 0x8000) >> 16 clipped to 0..255.  With F = SUM f_ij this is        *)
(* c + floor((c*(F - One) + 32768) / One).  Every f_ij is a rounded product, so           *)
(* |F - One| <= w*h/2 although both tables sum to One exactly; hence                      *)
(*     |out - c| <= Tol(w, h, c) = (c * ceil(w*h/2) + 32768) \div One                     *)
(* which is 0 - the constant comes back EXACTLY - whenever w*h <= 256 (c <= 255), and     *)
(* whenever one of the two rows is a single tap of One.  That is what the statement's     *)
(* "so that" can mean for the arithmetic the fetchers document; for larger matrices the   *)
(* statement's consequence does not follow from exact phase sums and the obligation is    *)
(* the derived bound.  RenderConst below is that arithmetic; the model checker verifies   *)
(* the bound against it on small blocks.                                                  *)
EXTENDS Integers, Sequences

CONSTANT Mutant          \* "none" for the real specification; negative configurations set a named weakening

VARIABLE flt             \* the state machine's state (a record, see FInit)

One == 65536
Kernels == {"IMPULSE", "BOX", "LINEAR", "CUBIC", "GAUSSIAN", "LANCZOS2", "LANCZOS3", "LANCZOS3_STRETCHED"}

Pow2(k) == IF k <= 0 THEN 1 ELSE
           IF k >= 30 THEN 1073741824 ELSE
           LET p[i \in 0..k] == IF i = 0 THEN 1 ELSE 2 * p[i - 1] IN p[k]

RECURSIVE SumFrom(_, _, _)
SumFrom(s, i, j) ==                           \* s[i] + ... + s[j]; halving keeps the recursion shallow (rows of 32767 taps)
    IF i > j THEN 0 ELSE IF i = j THEN s[i]
    ELSE LET m == (i + j) \div 2 IN SumFrom(s, i, m) + SumFrom(s, m + 1, j)
SumSeq(s) == SumFrom(s, 1, Len(s))

(* ---- header ---------------------------------------------------------------------------- *)
IsFixedInt(v) == v % One = 0
HdrW(b)  == b[1] \div One
HdrH(b)  == b[2] \div One
HdrBx(b) == b[3] \div One
HdrBy(b) == b[4] \div One

(* shape announced by a header (w, h, bx, by as plain integers) *)
ShapeOK(w, h, bx, by) == w >= 1 /\ h >= 1 /\ bx >= 0 /\ by >= 0 /\ bx <= 16 /\ by <= 16 /\ w < 32768 /\ h < 32768
ShapeLen(w, h, bx, by) == 4 + w * Pow2(bx) + h * Pow2(by)

(* ---- the predicate ------------------------------------------------------------------- *)
RowOK(row, width) ==
    /\ Len(row) = width
    /\ CASE Mutant = "sum_off_by_one" -> SumSeq(row) \in {One - 1, One, One + 1}
         [] OTHER                     -> SumSeq(row) = One

XRow(b, p) == LET w == HdrW(b) IN SubSeq(b, 5 + p * w, 4 + (p + 1) * w)
YRow(b, p) == LET w == HdrW(b)  h == HdrH(b)  o == 4 + w * Pow2(HdrBx(b)) IN SubSeq(b, o + 1 + p * h, o + (p + 1) * h)

XPhases(b) == 0 .. (Pow2(HdrBx(b)) - 1)
YPhases(b) == IF Mutant = "skip_last_phase" THEN 0 .. (Pow2(HdrBy(b)) - 2) ELSE 0 .. (Pow2(HdrBy(b)) - 1)

WellFormed(b, n) ==
    /\ n = Len(b) /\ n >= 4
    /\ \A i \in 1..4 : IsFixedInt(b[i])
    /\ ShapeOK(HdrW(b), HdrH(b), HdrBx(b), HdrBy(b))
    /\ n = ShapeLen(HdrW(b), HdrH(b), HdrBx(b), HdrBy(b))
    /\ \A p \in XPhases(b) : RowOK(XRow(b, p), HdrW(b))
    /\ \A p \in YPhases(b) : RowOK(YRow(b, p), HdrH(b))

(* what pixman_image_set_filter tests before it accepts a block (pixman-image.c)          *)
SetFilterAccepts(b, n) ==
    n >= 4 /\ n = 4 + Pow2(HdrBx(b)) * HdrW(b) + Pow2(HdrBy(b)) * HdrH(b)

(* ---- rendering a constant ------------------------------------------------------------- *)
(* (a*b + 0x8000) >> 16 without leaving 32-bit integers: a = ah*2^16 + al, b = bh*2^16 + bl *)
RoundMul(a, b) ==
    LET bh == b \div One  bl == b % One
        ah == a \div One  al == a % One
        blh == bl \div 256  bll == bl % 256
    IN  a * bh + ah * bl + ((al * blh + ((al * bll + 32768) \div 256)) \div 256)

RECURSIVE WeightSum(_, _, _, _)
WeightSum(xrow, yrow, i, j) ==            \* SUM over taps (i', j') from (i, j) on, row-major
    IF i > Len(yrow) THEN 0
    ELSE IF j > Len(xrow) THEN WeightSum(xrow, yrow, i + 1, 1)
    ELSE (IF xrow[j] = 0 \/ yrow[i] = 0 THEN 0 ELSE RoundMul(xrow[j], yrow[i])) + WeightSum(xrow, yrow, i, j + 1)

Clip8(v) == IF v < 0 THEN 0 ELSE IF v > 255 THEN 255 ELSE v
RenderConst(xrow, yrow, c) == Clip8((c * WeightSum(xrow, yrow, 1, 1) + 32768) \div One)

Tol(w, h, c) == (c * ((w * h + 1) \div 2) + 32768) \div One
Abs(x) == IF x < 0 THEN -x ELSE x
ConstKept(w, h, c, out) == Abs(out - c) <= Tol(w, h, c)

(* ---- state machine ---------------------------------------------------------------------- *)
(* st      "idle" | "calling" | "creating" | "created" | "attached" | "rendered"           *)
(* w,h,bx,by,n   shape of the block being / having been created                            *)
(* nx, ny  rows already delivered (the trace streams the rows of a large block)            *)
Idle == [st |-> "idle", w |-> 0, h |-> 0, bx |-> 0, by |-> 0, n |-> 0, nx |-> 0, ny |-> 0, rbx |-> 0, rby |-> 0]
FInit == flt = Idle

(* the call is entered with the requested subsample depths *)
CreateCall(rbx, rby) ==
    /\ flt.st \in {"idle", "created", "attached", "rendered"}
    /\ flt' = [Idle EXCEPT !.st = "calling", !.rbx = rbx, !.rby = rby]

(* the call returns a non-NULL block of announced length n with header words hdr          *)
CreateReturn(n, hw) ==
    /\ flt.st = "calling"
    /\ \A i \in 1..4 : IsFixedInt(hw[i])
    /\ LET w == HdrW(hw)  h == HdrH(hw)  bx == HdrBx(hw)  by == HdrBy(hw) IN
       /\ ShapeOK(w, h, bx, by)
       /\ bx = flt.rbx /\ by = flt.rby           \* a table of the subsampling depth that was asked for
       /\ n = ShapeLen(w, h, bx, by)
       /\ flt' = [flt EXCEPT !.st = "creating", !.w = w, !.h = h, !.bx = bx, !.by = by, !.n = n]

Done(f) == f.nx = Pow2(f.bx) /\ f.ny = Pow2(f.by)

(* the next rows of one axis, x rows before y rows; sums(k) = the sum of the k-th row delivered,       *)
(* lens(k) its length                                                                                 *)
CreateRows(axis, first, cnt, lens(_), sums(_)) ==
    /\ flt.st = "creating"
    /\ cnt >= 1
    /\ \/ axis = "x" /\ first = flt.nx /\ flt.ny = 0 /\ flt.nx + cnt <= Pow2(flt.bx)
       \/ axis = "y" /\ first = flt.ny /\ flt.nx = Pow2(flt.bx) /\ flt.ny + cnt <= Pow2(flt.by)
    /\ \A k \in 1..cnt : /\ lens(k) = (IF axis = "x" THEN flt.w ELSE flt.h)
                         /\ CASE Mutant = "sum_off_by_one" -> sums(k) \in {One - 1, One, One + 1}
                              [] OTHER                     -> sums(k) = One
    /\ LET f2 == IF axis = "x" THEN [flt EXCEPT !.nx = @ + cnt] ELSE [flt EXCEPT !.ny = @ + cnt] IN
       flt' = IF Done(f2) THEN [f2 EXCEPT !.st = "created"] ELSE f2

(* the whole call as one step, on a block given as a sequence (used by the model checker) *)
CreateFilter(rbx, rby, b, n) ==
    /\ flt.st \in {"idle", "created", "attached", "rendered"}
    /\ WellFormed(b, n)
    /\ HdrBx(b) = rbx /\ HdrBy(b) = rby
    /\ flt' = [st |-> "created", w |-> HdrW(b), h |-> HdrH(b), bx |-> rbx, by |-> rby, n |-> n,
               nx |-> Pow2(rbx), ny |-> Pow2(rby), rbx |-> rbx, rby |-> rby]

(* A block cannot exist when an axis needs 32768 or more taps: the header holds w and h as  *)
(* 16.16 numbers.  The taps an axis needs is the support of the reconstruction kernel plus   *)
(* scale times the support of the sampling kernel, rounded up (supports in pixels below;     *)
(* GAUSSIAN is cut at 5).  For such arguments - and only for them - the call may refuse      *)
(* (return NULL); it must not return a block whose header contradicts its tables             *)
(* (CreateReturn would not accept it).  scale: raw 16.16, 0 < scale < 2^31.                  *)
Support(k) == CASE k = "IMPULSE" -> 0 [] k = "BOX" -> 1 [] k = "LINEAR" -> 2 [] k = "CUBIC" -> 4 [] k = "GAUSSIAN" -> 5
                [] k = "LANCZOS2" -> 4 [] k = "LANCZOS3" -> 6 [] k = "LANCZOS3_STRETCHED" -> 8
(* Support(rk) + scale/One * Support(sk) > 32767, without leaving 32 bits *)
Unrepresentable(rk, sk, scale) ==
    Support(sk) > 0 /\ scale > ((32767 - Support(rk)) * One) \div Support(sk)

CreateRefused(unrep) ==
    /\ flt.st = "calling"
    /\ unrep
    /\ flt' = Idle

(* pixman_image_set_filter (image, SEPARABLE_CONVOLUTION, block, n) must return TRUE      *)
SetFilter(ret) ==
    /\ flt.st \in {"created", "attached", "rendered"}
    /\ ret = TRUE
    /\ flt' = [flt EXCEPT !.st = "attached"]

(* a composite of a constant image (every channel of every pixel = c[k]) through the      *)
(* attached filter: every destination pixel carries the constant                          *)
Render(c, outs) ==
    /\ flt.st \in {"attached", "rendered"}
    /\ \A i \in DOMAIN outs : \A k \in 1..4 : ConstKept(flt.w, flt.h, c[k], outs[i][k])
    /\ flt' = [flt EXCEPT !.st = "rendered"]
=============================================================================
