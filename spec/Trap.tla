-------------------------------- MODULE Trap --------------------------------
(***************************************************************************)
(* Trapezoid rasterisation of pixman (property C12).                       *)
(*                                                                         *)
(* What is specified                                                       *)
(*  - the sample grid of an alpha image of depth n in {1, 4, 8}: NYFrac(n) *)
(*    sample rows per pixel row at YFirst(n) + j * StepYSmall(n), NXFrac(n)*)
(*    sample columns per pixel at XEff(n) + k * StepXSmall(n);             *)
(*  - SampleCeilY / SampleFloorY: first grid row >= y / last grid row < y, *)
(*    saturating at the ends of the 16.16 range;                           *)
(*  - the EDGE WALKER as a state machine (pixman_edge_t): EdgeInit,        *)
(*    EdgeStep(n) for any n, EdgeStepSmall / EdgeStepBig.  An edge holds   *)
(*    x (the abscissa on the current sample row, 16.16) and an error term  *)
(*    e with -dy <= e <= 0; mc/TrapMC.tla proves that e is the exact       *)
(*    rational residue (lemma Residual) and hence what x MEANS (lemma      *)
(*    WalkerMeaning), X being the exact intersection of the line with the  *)
(*    sample row:  x = ceil(X) - 1 for an edge running right with a        *)
(*    fractional slope, x = floor(X) for an edge running left, x = X for   *)
(*    a whole-number slope (vertical edges in particular);                 *)
(*  - Coverage: a trapezoid adds to pixel (p, q) the number of grid        *)
(*    samples (s, y) of that pixel with t <= y <= b and lx(y) < s <= rx(y) *)
(*    where t = SampleCeilY(top), b = SampleFloorY(bottom) (top inclusive, *)
(*    bottom exclusive) and lx, rx are the walker abscissae of the left    *)
(*    and right edge.  With the meaning of x above, lx < s <= rx is        *)
(*    XL <= s < XR for every sample that does not lie exactly on an edge   *)
(*    line (lemma Geometry of mc/TrapTileMC.tla: strictly-inside count <=  *)
(*    Coverage <= inside-or-on-an-edge count).  A sample exactly ON an     *)
(*    edge line is attributed by the walker: to the right-hand side of an  *)
(*    edge running right with a fractional slope (left inclusive, right    *)
(*    exclusive), to the left-hand side of every other edge; either way    *)
(*    consistently for both trapezoids sharing the edge, which is what the *)
(*    tiling clauses of the property need.  Adding saturates at 2^n - 1.   *)
(*  - the derived operations: RasterizeTrapezoid, AddTrapezoids, AddTraps, *)
(*    AddTriangles (two-trapezoid decomposition).                          *)
(*                                                                         *)
(* Coordinates are 16.16 fixed point integers.  TLC integers are 32 bit    *)
(* and overflow is an error, pixman uses 64 bit intermediates in the edge  *)
(* arithmetic: products n * dx are therefore never formed; MulDivMod       *)
(* computes quotient and remainder of n * dx by dy exactly by binary       *)
(* decomposition.  DOMAIN of the walker record: |coordinates| < 2^29 (8192  *)
(* pixels), so that every difference is below 2^30, and edges whose        *)
(* abscissa, extrapolated to a sampled row or by one grid step, stays      *)
(* inside the 32-bit range (pixman wraps there; such edges are excluded by *)
(* the property's domain).                                                 *)
(*  - WIDE EDGES: end points anywhere in the 16.16 range.  Their deltas    *)
(*    need 33 bits, which neither a TLC integer nor a pixman_edge_t holds. *)
(*    For them the specification is the MATHEMATICAL LINE itself: LinePos  *)
(*    is floor and remainder of (y - yt) (xb - xt) / (yb - yt), computed   *)
(*    exactly on two-limb numbers; LineX the abscissa with the meaning the *)
(*    walker has (lemma WalkerMeaning); the cursor WCur* steps it from     *)
(*    sample row to sample row.  mc/TrapMC.tla (WideAgrees) proves on the  *)
(*    lattice that cursor and walker agree on every row of every edge, so  *)
(*    both describe one line; an implementation that narrows the deltas    *)
(*    (e.g. halves them, truncating) is rejected (TrapMC_neg_halve.cfg).   *)
(*                                                                         *)
(* QUIRKS.  The walker of the specification is PATH INDEPENDENT: the state *)
(* of an edge on a row does not depend on the row the walk began on (lemma *)
(* PathIndependent of mc/TrapMC.tla), which is what makes separately       *)
(* rasterised abutting trapezoids tile (mc/TrapTileMC.tla).  The unrepaired*)
(* pixman tree deviated in four places, each selectable by a field of the  *)
(* quirk record q that the *Q operators take (all FALSE = specification):  *)
(*   q.stale   pixman_edge_step does not store the new error term when no  *)
(*             correction of x is needed (finding C12-stale-error-term);   *)
(*   q.exact0  pixman_edge_init starts an edge running right with a        *)
(*             fractional slope in the state (x = X, e = -dy) although     *)
(*             every later state of such an edge is x = ceil(X) - 1        *)
(*             (finding C12-exact-start);                                  *)
(*   q.backstep pixman_edge_step with n < 0 "corrects" an edge running     *)
(*             right with a whole-number slope (x = X - 1 from then on),   *)
(*             although such an edge accumulates no error                  *)
(*             (finding C12-whole-slope-backstep);                         *)
(*   q.wrap    pixman_sample_floor_y wraps instead of saturating below the *)
(*             first sample row of the lowest pixel row (C12-floor-y-wrap).*)
(* They exist only as named deviations of the trace specification and as   *)
(* negative configurations of the model checks.                            *)
(***************************************************************************)
EXTENDS Integers, Sequences

CONSTANT Fixed1          \* 65536; a small value gives the scaled lattice used for model checking

IntMaxPx == 32767        \* largest / smallest integer part of a 16.16 number
IntMinPx == -32768

Frac(v)  == v % Fixed1                 \* pixman_fixed_frac  (v & 0xffff)
Floor(v) == v - (v % Fixed1)           \* pixman_fixed_floor
ToInt(v) == v \div Fixed1              \* pixman_fixed_to_int (arithmetic shift)
Pow2(k)  == 2 ^ k

-----------------------------------------------------------------------------
(* The sample grid *)
Depths == {1, 4, 8}
MaxAlpha(n)   == Pow2(n) - 1
NYFrac(n)     == IF n = 1 THEN 1 ELSE Pow2(n \div 2) - 1
NXFrac(n)     == IF n = 1 THEN 1 ELSE Pow2(n \div 2) + 1
StepYSmall(n) == Fixed1 \div NYFrac(n)
StepYBig(n)   == Fixed1 - (NYFrac(n) - 1) * StepYSmall(n)
YFirst(n)     == StepYBig(n) \div 2
YLast(n)      == YFirst(n) + (NYFrac(n) - 1) * StepYSmall(n)
StepXSmall(n) == Fixed1 \div NXFrac(n)
StepXBig(n)   == Fixed1 - (NXFrac(n) - 1) * StepXSmall(n)
XFirst(n)     == StepXBig(n) \div 2
(* Effective abscissa of sample column 0 inside its pixel.  A sample s is counted for a     *)
(* span (lx, rx] iff lx < s <= rx; for n > 1 RENDER_SAMPLES_X counts the k with             *)
(* (k + 1) * StepXSmall <= frac + XFirst, i.e. s_k = StepXSmall - XFirst + k * StepXSmall   *)
(* (= XFirst - 1 + k * StepXSmall for the real constants: 6553 + k * 13107 for a4,          *)
(* 1927 + k * 3855 for a8); for n = 1 the shift by XFirst - 1 before truncation makes       *)
(* Fixed1 - XFirst + 1 (the pixel centre + 1 = 32769) the effective sample.                 *)
XEff(n)       == StepXSmall(n) - XFirst(n) + (IF n = 1 THEN 1 ELSE 0)
(* what the grid arithmetic presupposes (true of the real constants; scaled lattices used   *)
(* for model checking must satisfy it)                                                      *)
YGridOK(n)    == YFirst(n) <= StepYSmall(n) - 1 /\ StepYSmall(n) >= 1
XGridOK(n)    == XFirst(n) <= StepXSmall(n) /\ StepXSmall(n) >= 1

IsSampleRow(y, n) == Frac(y) >= YFirst(n) /\ Frac(y) <= YLast(n) /\ (Frac(y) - YFirst(n)) % StepYSmall(n) = 0

(* pixman_sample_ceil_y: the smallest grid row >= y; above the last row of the topmost pixel  *)
(* row of the coordinate range there is none: saturate to the largest number.                 *)
SampleCeilY(y, n) ==
    LET i == Floor(y)
        f == ((Frac(y) - YFirst(n) + (StepYSmall(n) - 1)) \div StepYSmall(n)) * StepYSmall(n) + YFirst(n)
    IN  IF f > YLast(n)
        THEN IF ToInt(i) = IntMaxPx THEN i + (Fixed1 - 1) ELSE i + Fixed1 + YFirst(n)
        ELSE i + f

(* pixman_sample_floor_y: the largest grid row < y; below the first row of the lowest pixel   *)
(* row there is none: saturate to the smallest number.  wrap = TRUE describes the unrepaired  *)
(* tree, whose saturation test can never succeed (known finding C12-floor-y-wrap): the        *)
(* result wraps around to the top of the range.                                               *)
SampleFloorYQ(y, n, wrap) ==
    LET i == Floor(y)
        f == ((Frac(y) - 1 - YFirst(n)) \div StepYSmall(n)) * StepYSmall(n) + YFirst(n)
    IN  IF f < YFirst(n)
        THEN IF ToInt(i) = IntMinPx
             THEN IF wrap THEN (IntMaxPx * Fixed1) + YLast(n) ELSE i
             ELSE i - Fixed1 + YLast(n)
        ELSE i + f
SampleFloorY(y, n) == SampleFloorYQ(y, n, FALSE)

-----------------------------------------------------------------------------
(* Exact arithmetic on products that do not fit 32 bits *)

Abs(v) == IF v < 0 THEN -v ELSE v
Sgn(v) == IF v < 0 THEN -1 ELSE IF v > 0 THEN 1 ELSE 0

(* <<q, r>> with a * b = q * d + r and 0 <= r < d, for a >= 0, 0 <= b < d <= 2^30. *)
RECURSIVE MulDivMod(_, _, _)
MulDivMod(a, b, d) ==
    IF a = 0 \/ b = 0 THEN <<0, 0>>
    ELSE IF a <= 2147483647 \div b THEN <<(a * b) \div d, (a * b) % d>>
    ELSE LET h  == MulDivMod(a \div 2, b, d)
             r2 == 2 * h[2]
             c2 == IF r2 >= d THEN 1 ELSE 0
             r3 == (r2 - c2 * d) + (IF a % 2 = 1 THEN b ELSE 0)
             c3 == IF r3 >= d THEN 1 ELSE 0
         IN  <<2 * h[1] + c2 + c3, r3 - c3 * d>>

(* the product of 0 <= a, b < 2^30 as four limbs of 15 bits, most significant first *)
Limb == 32768
MulLimbs(a, b) ==
    LET a1 == a \div Limb  a0 == a % Limb  b1 == b \div Limb  b0 == b % Limb
        p0 == a0 * b0
        t1 == a1 * b0 + a0 * b1 + (p0 \div Limb)
        t2 == a1 * b1 + (t1 \div Limb)
    IN  <<t2 \div Limb, t2 % Limb, t1 % Limb, p0 % Limb>>
LimbsLess(u, v) ==
    \E k \in 1..4 : u[k] < v[k] /\ \A j \in 1..(k - 1) : u[j] = v[j]
(* a * b < c * d for |a|, |b|, |c|, |d| < 2^30 *)
ProdLess(a, b, c, d) ==
    LET s1 == Sgn(a) * Sgn(b)  s2 == Sgn(c) * Sgn(d)
        m1 == MulLimbs(Abs(a), Abs(b))  m2 == MulLimbs(Abs(c), Abs(d))
    IN  IF s1 # s2 THEN s1 < s2
        ELSE IF s1 = 0 THEN FALSE
        ELSE IF s1 > 0 THEN LimbsLess(m1, m2) ELSE LimbsLess(m2, m1)

-----------------------------------------------------------------------------
(* The edge walker.  An edge is a record                                                     *)
(*   x, e          current abscissa and error term                                          *)
(*   stepx, dx, dy, signdx    per unit of y the edge moves stepx + signdx * dx / dy           *)
(*   stepx_small, dx_small, stepx_big, dx_big   the same for StepYSmall and StepYBig units of *)
(*                 y, the remainder pre-reduced below dy (_pixman_edge_multi_init)            *)

InitE(dxt, dy) == IF dxt >= 0 THEN -dy ELSE 0        \* initial error term (pixman_edge_init)
NeedsCorrection(e) == e > 0                          \* the test of RENDER_EDGE_STEP_*

MultiInit(stepx, dx, dy, signdx, k) ==
    LET qr == MulDivMod(k, dx, dy) IN
    <<k * stepx + qr[1] * signdx, qr[2]>>            \* <<stepx_k, dx_k>>

(* pixman_edge_step: move the edge by n sample units of y (n of either sign).               *)
(* With an * dx = Q * dy + R:                                                                *)
(*   n >= 0:  ne = e + Q dy + R;  if ne > 0 then x += ceil(ne / dy), e = ne - that * dy      *)
(*   n <  0:  ne = e - Q dy - R;  if ne <= -dy then x -= floor(-ne / dy), e = ne + that * dy *)
(* otherwise e = ne (q.stale: e is left as it was).  An edge with dx = 0 (whole-number slope) *)
(* accumulates nothing: only x moves (q.backstep: the n < 0 rule is applied to it too).      *)
NoQuirks   == [stale |-> FALSE, exact0 |-> FALSE, backstep |-> FALSE, wrap |-> FALSE]
Unrepaired == [stale |-> TRUE, exact0 |-> TRUE, backstep |-> TRUE, wrap |-> TRUE]
EdgeStepQ(ed, n, q) ==
    LET an == Abs(n)
        qr == MulDivMod(an, ed.dx, ed.dy)
        Q  == qr[1]
        R  == qr[2]
        x1 == ed.x + n * ed.stepx
    IN  IF ed.dx = 0 /\ ~q.backstep
        THEN [ed EXCEPT !.x = x1]                       \* whole-number slope: no error accumulates
        ELSE IF n >= 0
        THEN LET s == R + ed.e IN                       \* -dy <= s < dy, ne = Q dy + s
             IF s > 0 THEN [ed EXCEPT !.x = x1 + (Q + 1) * ed.signdx, !.e = s - ed.dy]
             ELSE IF Q = 0 THEN [ed EXCEPT !.x = x1, !.e = IF q.stale THEN ed.e ELSE s]
             ELSE IF s = -ed.dy
                  THEN IF Q = 1 THEN [ed EXCEPT !.x = x1, !.e = IF q.stale THEN ed.e ELSE 0]
                       ELSE [ed EXCEPT !.x = x1 + (Q - 1) * ed.signdx, !.e = 0]
             ELSE [ed EXCEPT !.x = x1 + Q * ed.signdx, !.e = s]
        ELSE LET s  == ed.e - R                         \* -2 dy < s <= 0, ne = s - Q dy
                 c  == IF -s >= ed.dy THEN 1 ELSE 0
                 nx == Q + c
             IN  IF nx >= 1 THEN [ed EXCEPT !.x = x1 - nx * ed.signdx, !.e = s + c * ed.dy]
                 ELSE [ed EXCEPT !.x = x1, !.e = IF q.stale THEN ed.e ELSE s]
EdgeStep(ed, n) == EdgeStepQ(ed, n, NoQuirks)

(* pixman_edge_init: the edge through (xt, yt) and (xb, yb), yb > yt, positioned on row ystart. *)
(* Initial state on row yt: an edge running left starts at (xt, e = 0), i.e. x = floor(X);     *)
(* an edge running right with a whole-number slope (dx = 0, e.g. vertical) at (xt, e = -dy),   *)
(* i.e. x = X, and stays so; an edge running right with a fractional slope at (xt - 1, e = 0), *)
(* i.e. x = ceil(X) - 1, as on every other row.                                                *)
EdgeInitQ(n, ystart, xt, yt, xb, yb, q) ==
    LET dxt    == xb - xt
        dy     == yb - yt
        signdx == IF dxt >= 0 THEN 1 ELSE -1
        stepx  == signdx * (Abs(dxt) \div dy)
        dx     == Abs(dxt) % dy
        sm     == MultiInit(stepx, dx, dy, signdx, StepYSmall(n))
        bg     == MultiInit(stepx, dx, dy, signdx, StepYBig(n))
        frac   == dxt >= 0 /\ dx > 0 /\ ~q.exact0
        ed0    == [x |-> IF frac THEN xt - 1 ELSE xt, e |-> IF frac THEN 0 ELSE InitE(dxt, dy),
                   stepx |-> stepx, signdx |-> signdx, dy |-> dy, dx |-> dx,
                   stepx_small |-> sm[1], dx_small |-> sm[2], stepx_big |-> bg[1], dx_big |-> bg[2]]
    IN  EdgeStepQ(ed0, ystart - yt, q)
EdgeInit(n, ystart, xt, yt, xb, yb) == EdgeInitQ(n, ystart, xt, yt, xb, yb, NoQuirks)

(* RENDER_EDGE_STEP_SMALL / BIG: one grid step, at most one correction *)
StepBy(ed, sx, sdx) ==
    LET e1 == ed.e + sdx IN
    IF NeedsCorrection(e1) THEN [ed EXCEPT !.x = ed.x + sx + ed.signdx, !.e = e1 - ed.dy]
    ELSE [ed EXCEPT !.x = ed.x + sx, !.e = e1]
EdgeStepSmall(ed) == StepBy(ed, ed.stepx_small, ed.dx_small)
EdgeStepBig(ed)   == StepBy(ed, ed.stepx_big, ed.dx_big)

EdgeInv(ed) == -ed.dy <= ed.e /\ ed.e <= 0 /\ 0 <= ed.dx /\ ed.dx < ed.dy
               /\ 0 <= ed.dx_small /\ ed.dx_small < ed.dy /\ 0 <= ed.dx_big /\ ed.dx_big < ed.dy

(* pixman_line_fixed_edge_init: end points in either order, whole-pixel offsets added *)
LineEdgeInitQ(n, y, line, xoff, yoff, q) ==
    LET xo == xoff * Fixed1  yo == yoff * Fixed1
        p1first == line[2] <= line[4]
        tx == IF p1first THEN line[1] ELSE line[3]
        ty == IF p1first THEN line[2] ELSE line[4]
        bx == IF p1first THEN line[3] ELSE line[1]
        by == IF p1first THEN line[4] ELSE line[2]
    IN  EdgeInitQ(n, y, tx + xo, ty + yo, bx + xo, by + yo, q)

-----------------------------------------------------------------------------
(* WIDE EDGES: exact arithmetic on 33-bit deltas.                                             *)
(* A wide integer <<h, l>> is h * WideBase + l with 0 <= l < WideBase, h of either sign       *)
(* (a unique representation: equal numbers are equal tuples).  The operations below keep     *)
(* every TLC integer far inside 32 bits for numbers below 2^34 in magnitude.                  *)
WideBase    == 65536               \* even; mc/TrapMC replaces it by a small base to exercise the carries
WNorm(h, l) == <<h + (l \div WideBase), l % WideBase>>
WOf(v)      == WNorm(0, v)
WSmall(v)   == WNorm(0, v)
WZero       == <<0, 0>>
WAdd(a, b)  == WNorm(a[1] + b[1], a[2] + b[2])
WSub(a, b)  == WNorm(a[1] - b[1], a[2] - b[2])
WNeg(a)     == WNorm(-a[1], -a[2])
WLess(a, b) == a[1] < b[1] \/ (a[1] = b[1] /\ a[2] < b[2])
WDouble(a)  == WAdd(a, a)
WHalf(a)    == <<a[1] \div 2, ((a[1] % 2) * WideBase + a[2]) \div 2>>          \* floor (a / 2), a >= 0
WOdd(a)     == a[2] % 2 = 1
WInt(a)     == a[1] * WideBase + a[2]                                          \* the number itself, when it fits
WAbsDiff(u, v) == IF u < v THEN WSub(WOf(v), WOf(u)) ELSE WSub(WOf(u), WOf(v)) \* |u - v| of two TLC integers
WBit(c)     == WSmall(IF c THEN 1 ELSE 0)

(* <<q, r>> with a = q d + r, 0 <= r < d  (a >= 0, d > 0) *)
RECURSIVE WDivMod(_, _)
WDivMod(a, d) ==
    IF WLess(a, d) THEN <<WZero, a>>
    ELSE LET h  == WDivMod(WHalf(a), d)
             r2 == WAdd(WDouble(h[2]), WBit(WOdd(a)))
             c  == ~WLess(r2, d)
         IN  <<WAdd(WDouble(h[1]), WBit(c)), IF c THEN WSub(r2, d) ELSE r2>>

(* <<q, r>> with a b = q d + r, 0 <= r < d  (a >= 0, 0 <= b < d) *)
RECURSIVE WMulDivMod(_, _, _)
WMulDivMod(a, b, d) ==
    IF a = WZero \/ b = WZero THEN <<WZero, WZero>>
    ELSE LET h  == WMulDivMod(WHalf(a), b, d)
             r2 == WDouble(h[2])
             c2 == ~WLess(r2, d)
             r3 == WAdd(IF c2 THEN WSub(r2, d) ELSE r2, IF WOdd(a) THEN b ELSE WZero)
             c3 == ~WLess(r3, d)
         IN  <<WAdd(WAdd(WDouble(h[1]), WBit(c2)), WBit(c3)), IF c3 THEN WSub(r3, d) ELSE r3>>

RECURSIVE WMul(_, _)
WMul(a, b) ==                                                                  \* a, b >= 0
    IF a = WZero \/ b = WZero THEN WZero
    ELSE LET h == WDouble(WMul(a, WHalf(b))) IN IF WOdd(b) THEN WAdd(h, a) ELSE h

(* The deltas the line is followed with: the end points' own.  (An implementation whose edge  *)
(* record cannot hold them may only replace them by a pair with the same ratio.)              *)
WideDeltas(DX, DY) == <<DX, DY>>

(* <<F, R>>: floor and remainder of  +-K * |DX| / DY  (neg: the product is negative), where    *)
(* sd = <<|DX| div DY, |DX| mod DY>>;  F * DY + R = +-K |DX|,  0 <= R < DY                     *)
SignedPos(K, sd, DY, neg) ==
    LET qr == WMulDivMod(K, sd[2], DY)
        Q  == WAdd(WMul(K, sd[1]), qr[1])
    IN  IF ~neg THEN <<Q, qr[2]>>
        ELSE IF qr[2] = WZero THEN <<WNeg(Q), WZero>>
        ELSE <<WSub(WNeg(Q), WSmall(1)), WSub(DY, qr[2])>>
PosAdd(pos, inc, DY) ==
    LET r == WAdd(pos[2], inc[2]) IN
    IF WLess(r, DY) THEN <<WAdd(pos[1], inc[1]), r>>
    ELSE <<WAdd(WAdd(pos[1], inc[1]), WSmall(1)), WSub(r, DY)>>

(* the abscissa an edge walker holds on a row where the exact intersection is                 *)
(* X = xt + F + R / DY:  floor (X) for an edge running left, X for a whole-number slope,       *)
(* ceil (X) - 1 for an edge running right with a fractional slope (fr)                         *)
XFromPos(xt, fr, pos) ==
    WInt(WAdd(WOf(xt), IF fr /\ pos[2] = WZero THEN WSub(pos[1], WSmall(1)) ELSE pos[1]))

EdgeDeltas(xt, yt, xb, yb) == WideDeltas(WAbsDiff(xb, xt), WSub(WOf(yb), WOf(yt)))

(* THE line through (xt, yt) and (xb, yb), yb > yt, on row y: any end points, any row of the 16.16 range *)
LinePos(xt, yt, xb, yb, y) ==
    LET dd == EdgeDeltas(xt, yt, xb, yb) IN
    SignedPos(WAbsDiff(y, yt), WDivMod(dd[1], dd[2]), dd[2], (y < yt) # (xb < xt))
LineX(xt, yt, xb, yb, y) ==
    LET dd == EdgeDeltas(xt, yt, xb, yb)
        sd == WDivMod(dd[1], dd[2])
    IN  XFromPos(xt, xb >= xt /\ sd[2] # WZero, SignedPos(WAbsDiff(y, yt), sd, dd[2], (y < yt) # (xb < xt)))

(* a cursor: the line positioned on row y, with the increments of one small / big grid step *)
WCurInit(n, y, xt, yt, xb, yb) ==
    LET dd   == EdgeDeltas(xt, yt, xb, yb)
        sd   == WDivMod(dd[1], dd[2])
        left == xb < xt
    IN  [xt |-> xt, fr |-> ~left /\ sd[2] # WZero, DY |-> dd[2],
         pos  |-> SignedPos(WAbsDiff(y, yt), sd, dd[2], (y < yt) # left),
         incS |-> SignedPos(WSmall(StepYSmall(n)), sd, dd[2], left),
         incB |-> SignedPos(WSmall(StepYBig(n)), sd, dd[2], left)]
WCurX(c)         == XFromPos(c.xt, c.fr, c.pos)
WCurStepSmall(c) == [c EXCEPT !.pos = PosAdd(c.pos, c.incS, c.DY)]
WCurStepBig(c)   == [c EXCEPT !.pos = PosAdd(c.pos, c.incB, c.DY)]

(* which edges the walker record covers (see DOMAIN above); the others are followed by a cursor *)
NarrowLim  == 536870912
NarrowV(v) == -NarrowLim < v /\ v < NarrowLim
NarrowEdge(xt, yt, xb, yb, y) == NarrowV(xt) /\ NarrowV(yt) /\ NarrowV(xb) /\ NarrowV(yb) /\ NarrowV(y)

(* an edge of a trapezoid on sample row y, as a walker record or as a cursor *)
CursorQ(n, y, line, xoff, yoff, q, forcewide) ==
    LET xo == xoff * Fixed1  yo == yoff * Fixed1
        p1first == line[2] <= line[4]
        tx == (IF p1first THEN line[1] ELSE line[3]) + xo
        ty == (IF p1first THEN line[2] ELSE line[4]) + yo
        bx == (IF p1first THEN line[3] ELSE line[1]) + xo
        by == (IF p1first THEN line[4] ELSE line[2]) + yo
    IN  IF ~forcewide /\ NarrowEdge(tx, ty, bx, by, y)
        THEN [wide |-> FALSE, ed |-> EdgeInitQ(n, y, tx, ty, bx, by, q)]
        ELSE [wide |-> TRUE, cu |-> WCurInit(n, y, tx, ty, bx, by)]
CurX(c)     == IF c.wide THEN WCurX(c.cu) ELSE c.ed.x
CurSmall(c) == IF c.wide THEN [c EXCEPT !.cu = WCurStepSmall(c.cu)] ELSE [c EXCEPT !.ed = EdgeStepSmall(c.ed)]
CurBig(c)   == IF c.wide THEN [c EXCEPT !.cu = WCurStepBig(c.cu)] ELSE [c EXCEPT !.ed = EdgeStepBig(c.ed)]

-----------------------------------------------------------------------------
(* Coverage of one sample row: pixel p of a row receives the number of sample columns s of   *)
(* that pixel with lx < s <= rx.                                                             *)

ClampTo(v, lo, hi) == IF v < lo THEN lo ELSE IF v > hi THEN hi ELSE v
(* number of sample columns of pixel p at or left of abscissa v *)
SamplesLE(v, p, n) ==
    IF v < p * Fixed1 THEN 0
    ELSE IF v >= (p + 1) * Fixed1 THEN NXFrac(n)
    ELSE ClampTo((v - p * Fixed1 - XEff(n)) \div StepXSmall(n) + 1, 0, NXFrac(n))
SpanCount(lx, rx, p, n) ==
    IF rx > lx THEN SamplesLE(rx, p, n) - SamplesLE(lx, p, n) ELSE 0

(* The walk over the sample rows t..b (both grid rows): a sequence, indexed by pixel row + 1, *)
(* of the spans <<lx, rx>> of the sample rows of that pixel row.                              *)
NextRowIsSmall(y, n) == Frac(y) # YLast(n)
RECURSIVE WalkRows(_, _, _, _, _, _)
WalkRows(l, r, y, b, n, acc) ==
    LET q    == ToInt(y)
        acc1 == [acc EXCEPT ![q + 1] = Append(@, <<CurX(l), CurX(r)>>)]
    IN  IF y = b THEN acc1
        ELSE IF NextRowIsSmall(y, n)
             THEN WalkRows(CurSmall(l), CurSmall(r), y + StepYSmall(n), b, n, acc1)
             ELSE WalkRows(CurBig(l), CurBig(r), y + StepYBig(n), b, n, acc1)

RECURSIVE SumSpans(_, _, _, _)
SumSpans(spans, k, p, n) ==
    IF k = 0 THEN 0 ELSE SpanCount(spans[k][1], spans[k][2], p, n) + SumSpans(spans, k - 1, p, n)

NoSpans(H) == [q \in 1..H |-> <<>>]
Zero(W, H) == [i \in 1..(W * H) |-> 0]
(* spans per pixel row -> counts per pixel, row-major sequence of length W * H *)
CountsOf(rows, n, W, H) ==
    [i \in 1..(W * H) |->
        LET q == (i - 1) \div W  p == (i - 1) % W  s == rows[q + 1] IN
        IF s = <<>> THEN 0 ELSE SumSpans(s, Len(s), p, n)]

(* A trapezoid is <<top, bottom, l1x, l1y, l2x, l2y, r1x, r1y, r2x, r2y>>. *)
TrapValid(tz) == tz[4] # tz[6] /\ tz[8] # tz[10] /\ tz[2] > tz[1]

(* rows of spans of a trapezoid on a W x H image of depth n at whole-pixel offset (xoff, yoff); *)
(* top is clipped to the first, bottom to the last sample row of the image                    *)
TrapRowsG(tz, n, W, H, xoff, yoff, q, forcewide) ==
    LET t0 == tz[1] + yoff * Fixed1
        t  == SampleCeilY(IF t0 < 0 THEN 0 ELSE t0, n)
        b0 == tz[2] + yoff * Fixed1
        b  == SampleFloorYQ(IF ToInt(b0) >= H THEN H * Fixed1 - 1 ELSE b0, n, q.wrap)
    IN  IF TrapValid(tz) /\ b >= t
        THEN WalkRows(CursorQ(n, t, <<tz[3], tz[4], tz[5], tz[6]>>, xoff, yoff, q, forcewide),
                      CursorQ(n, t, <<tz[7], tz[8], tz[9], tz[10]>>, xoff, yoff, q, forcewide),
                      t, b, n, NoSpans(H))
        ELSE NoSpans(H)
TrapRowsQ(tz, n, W, H, xoff, yoff, q) == TrapRowsG(tz, n, W, H, xoff, yoff, q, FALSE)

CoverageQ(tz, n, W, H, xoff, yoff, q) == CountsOf(TrapRowsQ(tz, n, W, H, xoff, yoff, q), n, W, H)
(* THE definition the property talks about: samples of each pixel inside the trapezoid *)
Coverage(tz, n, W, H, xoff, yoff) == CoverageQ(tz, n, W, H, xoff, yoff, NoQuirks)

AddCounts(a, b) == [i \in DOMAIN a |-> a[i] + b[i]]
Saturate(img, counts, n) ==
    [i \in DOMAIN img |-> IF img[i] + counts[i] > MaxAlpha(n) THEN MaxAlpha(n) ELSE img[i] + counts[i]]

RECURSIVE SumCoverage(_, _, _, _, _, _, _, _)
SumCoverage(tzs, k, n, W, H, xoff, yoff, q) ==
    IF k = 0 THEN Zero(W, H)
    ELSE AddCounts(SumCoverage(tzs, k - 1, n, W, H, xoff, yoff, q), CoverageQ(tzs[k], n, W, H, xoff, yoff, q))

(* pixman_rasterize_trapezoid / pixman_add_trapezoids: saturating adds of non-negative counts *)
(* commute, so the image after any number of trapezoids is one saturating add of the sum      *)
AddTrapezoidsQ(img, tzs, n, W, H, xoff, yoff, q) ==
    Saturate(img, SumCoverage(tzs, Len(tzs), n, W, H, xoff, yoff, q), n)
AddTrapezoids(img, tzs, n, W, H, xoff, yoff) == AddTrapezoidsQ(img, tzs, n, W, H, xoff, yoff, NoQuirks)
RasterizeTrapezoid(img, tz, n, W, H, xoff, yoff) == AddTrapezoids(img, <<tz>>, n, W, H, xoff, yoff)

(* pixman_add_traps: a trap is <<top.l, top.r, top.y, bot.l, bot.r, bot.y>>; its edges join   *)
(* (top.l, top.y)-(bot.l, bot.y) and (top.r, top.y)-(bot.r, bot.y)                            *)
TrapOfXTrap(t) == <<t[3], t[6], t[1], t[3], t[4], t[6], t[2], t[3], t[5], t[6]>>
AddTrapsQ(img, ts, n, W, H, xoff, yoff, q) ==
    AddTrapezoidsQ(img, [k \in DOMAIN ts |-> TrapOfXTrap(ts[k])], n, W, H, xoff, yoff, q)

(* Triangles: <<x1, y1, x2, y2, x3, y3>>.  The two-trapezoid decomposition: the vertex that    *)
(* comes first in (y, x) order is the apex; of the other two, `left' is the one on the left    *)
(* as seen from the apex (orientation test); the upper trapezoid runs from the apex to the     *)
(* nearer of the two, the lower one from there to the farther, bounded by the long edge (kept  *)
(* with its own end points) and the edge joining the two.                                      *)
GreaterY(ax, ay, bx, by) == IF ay = by THEN ax > bx ELSE ay > by
TriToTraps(tr) ==
    LET P1 == <<tr[1], tr[2]>>  P2 == <<tr[3], tr[4]>>  P3 == <<tr[5], tr[6]>>
        s1   == GreaterY(P1[1], P1[2], P2[1], P2[2])
        top1 == IF s1 THEN P2 ELSE P1
        lef1 == IF s1 THEN P1 ELSE P2
        s2   == GreaterY(top1[1], top1[2], P3[1], P3[2])
        top  == IF s2 THEN P3 ELSE top1
        rig1 == IF s2 THEN top1 ELSE P3
        \* clockwise(top, right, left): (left - top).y * (right - top).x - (right - top).y * (left - top).x < 0
        cw   == ProdLess(lef1[2] - top[2], rig1[1] - top[1], rig1[2] - top[2], lef1[1] - top[1])
        left  == IF cw THEN rig1 ELSE lef1
        right == IF cw THEN lef1 ELSE rig1
        rfirst == right[2] < left[2]
        ymid == IF rfirst THEN right[2] ELSE left[2]
        yend == IF rfirst THEN left[2] ELSE right[2]
        upper == <<top[2], ymid, top[1], top[2], left[1], left[2], top[1], top[2], right[1], right[2]>>
        lower == IF rfirst
                 THEN <<ymid, yend, top[1], top[2], left[1], left[2], right[1], right[2], left[1], left[2]>>
                 ELSE <<ymid, yend, left[1], left[2], right[1], right[2], top[1], top[2], right[1], right[2]>>
    IN  <<upper, lower>>

RECURSIVE TrisToTraps(_, _)
TrisToTraps(trs, k) == IF k = 0 THEN <<>> ELSE TrisToTraps(trs, k - 1) \o TriToTraps(trs[k])
AddTrianglesQ(img, trs, n, W, H, xoff, yoff, q) ==
    AddTrapezoidsQ(img, TrisToTraps(trs, Len(trs)), n, W, H, xoff, yoff, q)
=============================================================================
