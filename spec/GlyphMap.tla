------------------------------ MODULE GlyphMap ------------------------------
(* C17, abstract level: a glyph cache as the statement describes it.                      *)
(*                                                                                        *)
(*   live    the set of (font key, glyph key) pairs that have an entry                    *)
(*   val     live -> the immutable copy made by insert (origin, size, pixels)             *)
(*   lru     the live keys, most recently used first ("used" = inserted or drawn)         *)
(*   freeze  nesting depth of freeze/thaw                                                 *)
(*   dead    table positions that hold no entry but cannot be reused by every key         *)
(*           (the implementation's tombstones); a ghost of the statement's "above its     *)
(*           high-water mark": the mark counts occupied positions, live + dead            *)
(*   ret     what the last call returned: [hit, v]; v = <<>> (NULL / void) or <<value>>   *)
(*                                                                                        *)
(* One action per API call.  What the statement demands and nothing more:                 *)
(*   - lookup returns the live entry or NULL and changes nothing;                         *)
(*   - an entry disappears only in Remove of its key, or in the Thaw that brings freeze   *)
(*     to 0 and finds live + dead > HIGH -- and then the survivors are a most-recently-   *)
(*     used prefix of lru (least recently used go first; how many go is the refined       *)
(*     level's business);                                                                 *)
(*   - insert either adds the entry (the occupied positions stay within CAP, so that a    *)
(*     search can always end at a free position) or returns NULL, the latter only when    *)
(*     the cache is full (live + dead >= CAP).                                            *)
(* Out of domain (the API's own preconditions, pixman-glyph.c): insert outside a freeze,  *)
(* insert of a key that is already present, thaw without freeze, allocation failure.      *)
EXTENDS Integers, Sequences, FiniteSets

CONSTANTS AKeys,        \* keys that may be used
          AVals,        \* entry contents
          HIGH, CAP     \* high-water mark; number of table positions that may be occupied

VARIABLES live, val, lru, freeze, dead, ret

avars == <<live, val, lru, freeze, dead, ret>>

Void        == [hit |-> FALSE, v |-> <<>>]
Found(v)    == [hit |-> TRUE, v |-> <<v>>]

SeqToSet(s)   == {s[i] : i \in DOMAIN s}
Without(s, k) == SelectSeq(s, LAMBDA x : x # k)
Prefix(s, m)  == SubSeq(s, 1, m)
Occupied      == Cardinality(live) + dead

AInit == /\ live = {} /\ val = <<>> /\ lru = <<>> /\ freeze = 0 /\ dead = 0 /\ ret = Void

AFreeze == /\ freeze' = freeze + 1
           /\ ret' = Void
           /\ UNCHANGED <<live, val, lru, dead>>

(* survivors of an eviction: the m most recently used *)
KeepPrefix(m) ==
    /\ lru' = Prefix(lru, m)
    /\ live' = SeqToSet(Prefix(lru, m))
    /\ val' = [k \in SeqToSet(Prefix(lru, m)) |-> val[k]]

(* the thaw that ends the outermost freeze, above the high-water mark, keeping the m most recently used *)
AEvictTo(m) ==
    /\ freeze = 1
    /\ Occupied > HIGH                          \* above the high-water mark
    /\ m \in 0..Len(lru)
    /\ KeepPrefix(m)                            \* least recently used first
    /\ dead' \in 0..(dead + Cardinality(live) - m)      \* each evicted entry leaves at most one dead position

AThaw ==
    /\ freeze > 0
    /\ freeze' = freeze - 1
    /\ ret' = Void
    /\ \/ UNCHANGED <<live, val, lru, dead>>
       \/ \E m \in 0..Len(lru) : AEvictTo(m)

AInsert(k, v) ==
    /\ freeze > 0
    /\ k \notin live
    /\ \/ /\ live' = live \cup {k}
          /\ val' = [x \in live \cup {k} |-> IF x = k THEN v ELSE val[x]]
          /\ lru' = <<k>> \o lru
          /\ dead' \in 0..dead                           \* dead positions may be reused or tidied, never created
          /\ Cardinality(live) + 1 + dead' <= CAP      \* a free position remains
          /\ ret' = Found(v)
       \/ /\ Occupied >= CAP                            \* full: refuse, do nothing
          /\ ret' = Void
          /\ UNCHANGED <<live, val, lru, dead>>
    /\ UNCHANGED freeze

ALookup(k) ==
    /\ ret' = IF k \in live THEN Found(val[k]) ELSE Void
    /\ dead' \in 0..dead                  \* a search may tidy up dead positions; it never changes the map or the LRU order
    /\ UNCHANGED <<live, val, lru, freeze>>

ARemove(k) ==
    /\ IF k \in live
       THEN /\ live' = live \ {k}
            /\ val' = [x \in live \ {k} |-> val[x]]
            /\ lru' = Without(lru, k)
            /\ dead' \in 0..(dead + 1)
       ELSE UNCHANGED <<live, val, lru, dead>>
    /\ ret' = Void
    /\ UNCHANGED freeze

(* the glyph is drawn (pixman_composite_glyphs and _no_mask): shows its content, becomes most recently used *)
AUse(k) ==
    /\ k \in live
    /\ lru' = <<k>> \o Without(lru, k)
    /\ ret' = Found(val[k])
    /\ dead' \in 0..dead
    /\ UNCHANGED <<live, val, freeze>>

ANext ==
    \/ AFreeze
    \/ AThaw
    \/ \E k \in AKeys : \/ \E v \in AVals : AInsert(k, v)
                        \/ ALookup(k)
                        \/ ARemove(k)
                        \/ AUse(k)

ASpec == AInit /\ [][ANext]_avars

(* ---- invariants of the abstract level ---- *)
ALruIsLive == /\ SeqToSet(lru) = live
              /\ Len(lru) = Cardinality(live)
              /\ DOMAIN val = live
AFreeExists == Occupied <= CAP
=============================================================================
