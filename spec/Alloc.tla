------------------------------- MODULE Alloc -------------------------------
(***************************************************************************)
(* Allocation discipline of the library under allocation failure (C15),    *)
(* and the allocation side of object lifetime (used by C20 as well).       *)
(*                                                                         *)
(* Every API call is bracketed Begin(call) ... End(call, kind, ret); in    *)
(* between the library allocates (the request may be refused: the fault    *)
(* schedule), reallocates and frees.  The state is the set of live         *)
(* allocations and what happened during the call in progress.  The         *)
(* obligations of the property are stated at End and at the end of an      *)
(* execution:                                                              *)
(*   - an address is never freed unless live, never handed out while live; *)
(*   - a constructor in which an allocation was refused returns NULL, and  *)
(*     a constructor returning NULL has released everything it allocated;  *)
(*   - a call without failure never returns NULL / FALSE for lack of memory*)
(*     (judged by the callers of this module where they know the normal    *)
(*     return value);                                                      *)
(*   - when every object has been destroyed nothing is live (no leak).     *)
(***************************************************************************)
EXTENDS Integers, Sequences, FiniteSets, TLC

VARIABLES live,     \* set of live allocation addresses
          call,     \* "" when no API call is in progress, else its name
          made,     \* addresses allocated during the call in progress and still live
          failed    \* number of allocation requests refused during the call in progress

allocVars == <<live, call, made, failed>>

AllocInit == live = {} /\ call = "" /\ made = {} /\ failed = 0

Begin(c) == /\ call = "" /\ c # ""
            /\ call' = c /\ made' = {} /\ failed' = 0 /\ UNCHANGED live

MallocOk(a) == /\ call # "" /\ a \notin live
               /\ live' = live \cup {a} /\ made' = made \cup {a} /\ UNCHANGED <<call, failed>>

MallocRefused == /\ call # ""
                 /\ failed' = failed + 1 /\ UNCHANGED <<live, call, made>>

FreeOk(a) == /\ call # "" /\ a \in live
             /\ live' = live \ {a} /\ made' = made \ {a} /\ UNCHANGED <<call, failed>>

(* realloc of a live block (realloc (NULL, n) is a malloc: callers use MallocOk): on success the old block is *)
(* gone (possibly same address); a refused realloc (MallocRefused) leaves the old block live                  *)
ReallocOk(old, new) ==
    /\ call # "" /\ old \in live /\ (new = old \/ new \notin live)
    /\ live' = (live \ {old}) \cup {new} /\ made' = (made \ {old}) \cup {new} /\ UNCHANGED <<call, failed>>

(* kind: "ctor" (returns an object or NULL), "status" (TRUE/FALSE), "void" *)
EndOK(kind, ret) ==
    CASE kind = "ctor"   -> /\ ret \in {"null", "object"}
                            /\ (failed > 0 => ret = "null")
                            /\ (ret = "null" => made = {})
      [] kind = "status" -> ret \in {"true", "false"}
      [] kind = "void"   -> ret = "void"
      [] OTHER -> FALSE

(* EndRaw: the transition; End: the transition restricted to the calls that meet their obligations *)
(* (trace validation uses End: an End event violating EndOK has no matching action; model      *)
(* checking uses EndRaw and checks EndOK as an invariant, so that a violation is reported        *)
(* instead of silently disabling the step).                                                     *)
EndRaw == /\ call # ""
          /\ call' = "" /\ made' = {} /\ failed' = 0 /\ UNCHANGED live

End(kind, ret) == EndOK(kind, ret) /\ EndRaw

NothingLive == live = {}
=============================================================================
