------------------------------- MODULE Pixman -------------------------------
(***************************************************************************)
(* Root module: the pieces composed into one behaviour.                    *)
(*                                                                         *)
(* A region is built by region operations (Region.tla), attached to an     *)
(* image as its clip (the image keeps a COPY: later operations on the      *)
(* region variable do not move the clip), optionally enabled for use as a  *)
(* source clip, and consumed by pixman_image_composite32, whose effect is  *)
(* defined pixel by pixel from the exact compositing rule (Opacity.tla's   *)
(* PD, the rule of property C01's exact class):                            *)
(*                                                                         *)
(*    R   = request rectangle /\ destination bounds /\ destination clip    *)
(*          /\ source clip (when enabled, translated to destination space) *)
(*    d'[p] = PD(op, s[p + (src - dest)], d[p])   for p in R               *)
(*    d'[p] = d[p]                                 otherwise               *)
(*                                                                         *)
(* with source samples outside a non-repeating source being transparent.   *)
(* So a request must not only stay inside R (C03) but also reach every     *)
(* pixel of R with the operator's value (C01), whatever history built the  *)
(* clip (C05-C07) -- one check spans the three modules.                    *)
(*                                                                         *)
(* Scope: a8r8g8b8 images, no mask, no transform, REPEAT_NONE, operators   *)
(* CLEAR..ADD (the exact class).  The other modules (Image, Composite,     *)
(* Dispatch, Alloc, ...) are composed pairwise where a property needs it;  *)
(* see DESIGN.md 12.1.                                                     *)
(***************************************************************************)
EXTENDS Region, Opacity

VARIABLES img        \* image id -> [w, h, px (row-major sequence of <<a,r,g,b>>),
                     \*              clip ([on |-> BOOLEAN, r |-> rectangle list]), srcclip (BOOLEAN)]

NoClip == [on |-> FALSE, r |-> <<>>]
ClipOf(L) == [on |-> TRUE, r |-> L]

Transparent == <<0, 0, 0, 0>>

PixelAt(im, x, y) ==
    IF 0 <= x /\ x < im.w /\ 0 <= y /\ y < im.h THEN im.px[y * im.w + x + 1] ELSE Transparent

(* the exact rule on a pixel: alpha channel first, each colour channel with the source alpha *)
Blend(op, s, d) ==
    <<PD(op, s[1], s[1], d[1], d[1]), PD(op, s[2], s[1], d[2], d[1]),
      PD(op, s[3], s[1], d[3], d[1]), PD(op, s[4], s[1], d[4], d[1])>>

Shift(L, dx, dy) == [i \in DOMAIN L |-> <<L[i][1] + dx, L[i][2] + dy, L[i][3] + dx, L[i][4] + dy>>]

CompositeRegionOf(s, d, sx, sy, dx, dy, w, h) ==
    LET r0 == <<<<dx, dy, dx + w, dy + h>>>>
        r1 == BandOp("intersect", r0, <<<<0, 0, d.w, d.h>>>>)
        r2 == IF ~d.clip.on THEN r1 ELSE BandOp("intersect", r1, d.clip.r)
        r3 == IF ~s.clip.on \/ ~s.srcclip THEN r2 ELSE BandOp("intersect", r2, Shift(s.clip.r, dx - sx, dy - sy))
    IN  r3

CompositeResult(op, s, d, sx, sy, dx, dy, w, h) ==
    LET R == CompositeRegionOf(s, d, sx, sy, dx, dy, w, h) IN
    [i \in 1..(d.w * d.h) |->
        LET x == (i - 1) % d.w   y == (i - 1) \div d.w IN
        IF PointIn(R, x, y) THEN Blend(op, PixelAt(s, x + sx - dx, y + sy - dy), d.px[i]) ELSE d.px[i]]

(* actions *)
SetClip(i, v) == img' = [img EXCEPT ![i].clip = ClipOf(reg[v].r)] /\ UNCHANGED reg
ClearClip(i)  == img' = [img EXCEPT ![i].clip = NoClip] /\ UNCHANGED reg
SetSourceClipping(i, on) == img' = [img EXCEPT ![i].srcclip = on] /\ UNCHANGED reg
Composite(op, si, di, sx, sy, dx, dy, w, h) ==
    /\ img' = [img EXCEPT ![di].px = CompositeResult(op, img[si], img[di], sx, sy, dx, dy, w, h)]
    /\ UNCHANGED reg
=============================================================================
