------------------------------- MODULE Pixman -------------------------------
(***************************************************************************)
(* Root module: the pieces composed into one behaviour of the public API.  *)
(*                                                                         *)
(* State: a pool of region variables (Region.tla) and a pool of images.    *)
(* A region is built by region operations, attached to an image as its     *)
(* clip (the image keeps a COPY: later operations on the region variable   *)
(* do not move the clip), optionally enabled for use as a source / mask    *)
(* clip, and consumed by the drawing calls.  An image is a bits image of   *)
(* one of three formats or a solid fill; it carries a repeat mode, an      *)
(* integer translation (the transforms under which NEAREST sampling is     *)
(* exact), a component-alpha flag and a reference count.                   *)
(*                                                                         *)
(* pixman_image_composite32 is defined pixel by pixel from the exact       *)
(* compositing rule (Opacity.tla's PD, the rule of C01's exact class):     *)
(*                                                                         *)
(*    R   = request rectangle /\ destination bounds /\ destination clip    *)
(*          /\ source clip /\ mask clip (each when enabled, translated to  *)
(*          destination space -- by the request offsets only, never by the *)
(*          image's transform)                                             *)
(*    d'[p] = PD(op, (s IN m)[p], d[p])           for p in R               *)
(*    d'[p] = d[p]                                 otherwise               *)
(*                                                                         *)
(* where s and m are sampled at p + (offset) + (translation), folded by    *)
(* the repeat mode, transparent outside a non-repeating image, and read    *)
(* through the format (x8r8g8b8: alpha 1; a8: colour 0).  So one request   *)
(* must stay inside R (C03), reach every pixel of R with the operator's    *)
(* value (C01), sample where the statement says (C08, integer case), treat *)
(* every presentation of the same content alike (C09), read and write the  *)
(* format's defined bits (C10), whatever history built the clip (C05-C07)  *)
(* or set the properties (C14) -- one check spans the modules.             *)
(* pixman_image_fill_boxes is defined independently (box after box) and    *)
(* model checking shows it equals compositing a solid image over each box  *)
(* and, for idempotent operators, filling the union once (C19).  Reference *)
(* counts: an image exists while its count is positive (C20).              *)
(*                                                                         *)
(* Scope: a8r8g8b8 / x8r8g8b8 / a8 bits images and solid fills, unified    *)
(* and component-alpha masks, integer translations, the four repeat modes, *)
(* operators CLEAR..ADD (the exact class).  The other modules (Image,      *)
(* Composite, Dispatch, Alloc, ...) are composed pairwise where a property *)
(* needs it; see DESIGN.md 12.1.                                           *)
(***************************************************************************)
EXTENDS Region, Opacity

VARIABLES img        \* image id -> image record (see Bits / Solid below)

NoClip == [on |-> FALSE, r |-> <<>>]
ClipOf(L) == [on |-> TRUE, r |-> L]

Transparent == <<0, 0, 0, 0>>

Formats == {"a8r8g8b8", "x8r8g8b8", "a8"}
RepNone == 0  RepNormal == 1  RepPad == 2  RepReflect == 3

(* am: the image (id, 0 = none) whose alpha replaces this image's own, placed at (ax, ay): the alpha of the pixel  *)
(* of THIS image at (x, y) - after translation and repeat - is the map's alpha at (x - ax, y - ay), and 0 outside  *)
(* the map; the map's own repeat mode, translation and clip play no part.  The image holds a reference on it.     *)
(* px: row-major sequence of raw <<a, r, g, b>> tuples as stored (for a8: <<a, 0, 0, 0>>; for x8r8g8b8 the first *)
(* component is the undefined byte).  clip: the image's clip region; srcclip: the clip also applies when the    *)
(* image is a source or mask (pixman_image_set_source_clipping + has_client_clip).                              *)
Bits(fmt, w, h, px) ==
    [kind |-> "bits", fmt |-> fmt, w |-> w, h |-> h, px |-> px, clip |-> NoClip, srcclip |-> FALSE,
     rep |-> RepNone, tx |-> 0, ty |-> 0, ca |-> FALSE, refs |-> 1, am |-> 0, ax |-> 0, ay |-> 0]
(* a solid fill: col = the four 16-bit channels <<a, r, g, b>> of pixman_color_t *)
Solid(col) ==
    [kind |-> "solid", fmt |-> "a8r8g8b8", w |-> 1, h |-> 1, px |-> <<<<col[1] \div 256, col[2] \div 256, col[3] \div 256, col[4] \div 256>>>>,
     clip |-> NoClip, srcclip |-> FALSE, rep |-> RepNormal, tx |-> 0, ty |-> 0, ca |-> FALSE, refs |-> 1, am |-> 0, ax |-> 0, ay |-> 0]
NoImage == [kind |-> "none"]

(* what a stored tuple means in its format *)
View(fmt, p) ==
    CASE fmt = "a8r8g8b8" -> p
      [] fmt = "x8r8g8b8" -> <<255, p[2], p[3], p[4]>>
      [] fmt = "a8"       -> <<p[1], 0, 0, 0>>
(* the bits a store defines: two stored tuples are the same picture iff they agree on these *)
Defined(fmt, p) ==
    CASE fmt = "a8r8g8b8" -> p
      [] fmt = "x8r8g8b8" -> <<0, p[2], p[3], p[4]>>
      [] fmt = "a8"       -> <<p[1], 0, 0, 0>>

(* coordinate folding of the repeat modes (TLA+ % is the non-negative remainder) *)
Fold(c, n, rep) ==
    CASE rep = RepNormal  -> c % n
      [] rep = RepPad     -> IF c < 0 THEN 0 ELSE IF c >= n THEN n - 1 ELSE c
      [] rep = RepReflect -> LET m == c % (2 * n) IN IF m < n THEN m ELSE 2 * n - 1 - m
      [] OTHER            -> c

(* the premultiplied <<a, r, g, b>> an image presents at integer position (x, y) of its own coordinate space, *)
(* before its transform: translation, then repeat, then format                                               *)
MapAlpha(im, fx, fy) ==
    LET a == img[im.am]   mx == fx - im.ax   my == fy - im.ay IN
    IF 0 <= mx /\ mx < a.w /\ 0 <= my /\ my < a.h THEN View(a.fmt, a.px[my * a.w + mx + 1])[1] ELSE 0

PixelAt(im, x, y) ==
    IF im.kind = "solid" THEN im.px[1]
    ELSE LET X == x + im.tx   Y == y + im.ty IN
         IF im.rep = RepNone /\ ~(0 <= X /\ X < im.w /\ 0 <= Y /\ Y < im.h) THEN Transparent
         ELSE LET fx == Fold(X, im.w, im.rep)   fy == Fold(Y, im.h, im.rep)
                  p  == View(im.fmt, im.px[fy * im.w + fx + 1])
              IN  IF im.am = 0 THEN p ELSE <<MapAlpha(im, fx, fy), p[2], p[3], p[4]>>

(* the exact rule on a pixel: alpha channel first, each colour channel with the source alpha that applies to it *)
Blend(op, s, d) ==
    <<PD(op, s[1], s[1], d[1], d[1]), PD(op, s[2], s[1], d[2], d[1]),
      PD(op, s[3], s[1], d[3], d[1]), PD(op, s[4], s[1], d[4], d[1])>>

(* source IN mask.  Unified alpha: every channel times the mask's alpha.  Component alpha: channel c times the   *)
(* mask's channel c, and the source alpha that applies to channel c is s.a times the mask's channel c.          *)
BlendMasked(op, s, m, ca, d) ==
    IF ~ca
    THEN Blend(op, <<MulUn8(s[1], m[1]), MulUn8(s[2], m[1]), MulUn8(s[3], m[1]), MulUn8(s[4], m[1])>>, d)
    ELSE <<PD(op, MulUn8(s[1], m[1]), MulUn8(s[1], m[1]), d[1], d[1]),
           PD(op, MulUn8(s[2], m[2]), MulUn8(s[1], m[2]), d[2], d[1]),
           PD(op, MulUn8(s[3], m[3]), MulUn8(s[1], m[3]), d[3], d[1]),
           PD(op, MulUn8(s[4], m[4]), MulUn8(s[1], m[4]), d[4], d[1])>>

(* what a destination stores for a computed <<a, r, g, b>> (channels it does not have are dropped) *)
StoreAs(fmt, v, old) ==
    CASE fmt = "a8r8g8b8" -> v
      [] fmt = "x8r8g8b8" -> <<old[1], v[2], v[3], v[4]>>
      [] fmt = "a8"       -> <<v[1], 0, 0, 0>>

Shift(L, dx, dy) ==
    IF L = <<>> THEN <<>> ELSE [i \in DOMAIN L |-> <<L[i][1] + dx, L[i][2] + dy, L[i][3] + dx, L[i][4] + dy>>]

ClipsAsSource(im) == im.kind # "none" /\ im.clip.on /\ im.srcclip

(* intersection of two rectangle lists as point sets, in canonical form (empty rectangles are dropped) *)
Inter(A, B) ==
    LET a == SelectSeq(A, Good)   b == SelectSeq(B, Good) IN
    IF a = <<>> \/ b = <<>> THEN <<>> ELSE BandOp("intersect", a, b)

CompositeRegionOf(s, m, d, sx, sy, mx, my, dx, dy, w, h) ==
    LET r0 == <<<<dx, dy, dx + w, dy + h>>>>
        r1 == Inter(r0, <<<<0, 0, d.w, d.h>>>>)
        r2 == IF ~d.clip.on THEN r1 ELSE Inter(r1, d.clip.r)
        r3 == IF ~ClipsAsSource(s) THEN r2 ELSE Inter(r2, Shift(s.clip.r, dx - sx, dy - sy))
        r4 == IF ~ClipsAsSource(m) THEN r3 ELSE Inter(r3, Shift(m.clip.r, dx - mx, dy - my))
    IN  r4

CompositeOver(R, op, s, m, d, sx, sy, mx, my, dx, dy) ==
    [i \in 1..(d.w * d.h) |->
        LET x == (i - 1) % d.w   y == (i - 1) \div d.w IN
        IF ~PointIn(R, x, y) THEN d.px[i]
        ELSE LET sp == PixelAt(s, x + sx - dx, y + sy - dy)
                 dp == View(d.fmt, d.px[i])
                 v  == IF m.kind = "none" THEN Blend(op, sp, dp)
                       ELSE BlendMasked(op, sp, PixelAt(m, x + mx - dx, y + my - dy), m.ca, dp)
             IN  StoreAs(d.fmt, v, d.px[i])]

CompositeResult(op, s, m, d, sx, sy, mx, my, dx, dy, w, h) ==
    CompositeOver(CompositeRegionOf(s, m, d, sx, sy, mx, my, dx, dy, w, h), op, s, m, d, sx, sy, mx, my, dx, dy)

(* pixman_image_fill_boxes, stated on its own: the boxes are drawn one after the other ("compositing a solid     *)
(* image of that colour over each box within the destination clip"): a pixel covered by two boxes receives the   *)
(* operator twice.  FillUnion is the other reading - the union of the boxes, each pixel once - which is what the *)
(* direct-fill shortcut does; model checking shows the two coincide exactly for the operators the shortcut is     *)
(* taken for (SRC, CLEAR, and OVER with an opaque colour), and differ otherwise (mc/PixmanSysMC).                 *)
FillRegionOf(d, boxes) ==
    LET r1 == Inter(boxes, <<<<0, 0, d.w, d.h>>>>)          \* Inter canonicalises: the union of the boxes
    IN  IF ~d.clip.on THEN r1 ELSE Inter(r1, d.clip.r)
FillUnion(op, col, d, boxes) ==
    LET R == FillRegionOf(d, boxes)   c == Solid(col).px[1] IN
    [i \in 1..(d.w * d.h) |->
        LET x == (i - 1) % d.w   y == (i - 1) \div d.w IN
        IF PointIn(R, x, y) THEN StoreAs(d.fmt, Blend(op, c, View(d.fmt, d.px[i])), d.px[i]) ELSE d.px[i]]
RECURSIVE FillResult(_, _, _, _)
FillResult(op, col, d, boxes) ==
    IF boxes = <<>> THEN d.px
    ELSE FillResult(op, col, [d EXCEPT !.px = FillUnion(op, col, d, <<Head(boxes)>>)], Tail(boxes))

Live(i) == i \in DOMAIN img /\ img[i].refs > 0

(* actions (one per API call) *)
CreateImage(i, im) == i \notin DOMAIN img /\ img' = (i :> im) @@ img /\ UNCHANGED reg
SetClip(i, v) == Live(i) /\ img' = [img EXCEPT ![i].clip = ClipOf(reg[v].r)] /\ UNCHANGED reg
ClearClip(i)  == Live(i) /\ img' = [img EXCEPT ![i].clip = NoClip] /\ UNCHANGED reg
SetSourceClipping(i, on) == Live(i) /\ img' = [img EXCEPT ![i].srcclip = on] /\ UNCHANGED reg
SetRepeat(i, r) == Live(i) /\ img' = [img EXCEPT ![i].rep = r] /\ UNCHANGED reg
SetTranslation(i, tx, ty) == Live(i) /\ img' = [img EXCEPT ![i].tx = tx, ![i].ty = ty] /\ UNCHANGED reg
SetComponentAlpha(i, on) == Live(i) /\ img' = [img EXCEPT ![i].ca = on] /\ UNCHANGED reg
Ref(i) == Live(i) /\ img' = [img EXCEPT ![i].refs = @ + 1] /\ UNCHANGED reg
(* dropping one reference of image j (0 = none) in a pool; an alpha map has no map of its own, so one level suffices *)
DropRef(pool, j) ==
    IF j = 0 \/ j \notin DOMAIN pool THEN pool
    ELSE IF pool[j].refs = 1 THEN [k \in DOMAIN pool \ {j} |-> pool[k]] ELSE [pool EXCEPT ![j].refs = @ - 1]
(* pixman_image_unref returns TRUE exactly when the image ceased to exist; it then lets go of its alpha map *)
Unref(i, gone) ==
    /\ Live(i) /\ gone = (img[i].refs = 1)
    /\ img' = IF gone THEN DropRef([j \in DOMAIN img \ {i} |-> img[j]], img[i].am) ELSE [img EXCEPT ![i].refs = @ - 1]
    /\ UNCHANGED reg
(* pixman_image_set_alpha_map (a = 0: detach).  The call is honoured only if the map is another image, has no map of  *)
(* its own, and the image is not itself in use as somebody's map.                                                   *)
UsedAsMap(i) == \E j \in DOMAIN img : img[j].am = i
SetAlphaMap(i, a, ax, ay) ==
    /\ Live(i) /\ (a = 0 \/ (Live(a) /\ a # i /\ img[a].am = 0 /\ img[a].kind = "bits" /\ ~UsedAsMap(i)))
    /\ LET old == img[i].am
           p1  == [img EXCEPT ![i].am = a, ![i].ax = IF a = 0 THEN 0 ELSE ax, ![i].ay = IF a = 0 THEN 0 ELSE ay]
           p2  == IF a # 0 /\ a # old THEN [p1 EXCEPT ![a].refs = @ + 1] ELSE p1
       IN  img' = IF old # 0 /\ old # a THEN DropRef(p2, old) ELSE p2
    /\ UNCHANGED reg
MaskOf(mi) == IF mi = 0 THEN NoImage ELSE img[mi]
Composite(op, si, mi, di, sx, sy, mx, my, dx, dy, w, h) ==
    /\ Live(si) /\ Live(di) /\ (mi = 0 \/ Live(mi))
    /\ img' = [img EXCEPT ![di].px = CompositeResult(op, img[si], MaskOf(mi), img[di], sx, sy, mx, my, dx, dy, w, h)]
    /\ UNCHANGED reg
FillBoxes(op, col, di, boxes) ==
    /\ Live(di)
    /\ img' = [img EXCEPT ![di].px = FillResult(op, col, img[di], boxes)]
    /\ UNCHANGED reg
=============================================================================
