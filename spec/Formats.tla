------------------------------ MODULE Formats ------------------------------
(* C10 -- pixman pixel formats as a codec specification.                                     *)
(*                                                                                           *)
(* A format is the record of bit fields decoded from its PIXMAN_FORMAT code (pixman.h); the  *)
(* code itself, as the library's header defines it, is the only thing shared with the        *)
(* implementation -- there is no table of names here.  A pixel is a record of four channel   *)
(* values; a channel value is one of                                                         *)
(*     none           the format has no such channel                                         *)
(*     u(n, b)        the b-bit unsigned-normalised number n, meaning n / (2^b - 1)          *)
(*     s(n)           an 8-bit sRGB-encoded colour value (non-linear; see below)             *)
(*     f(w)           an IEEE-754 single with bit pattern w = <<hi16, lo16>>                 *)
(* The property (C10): converting a pixel between a format F and a canonical representation  *)
(* (a8r8g8b8 or rgba_float) widens by bit replication (0 -> 0, max -> max, monotone, absent  *)
(* alpha -> 1, absent colour -> 0) and narrows by keeping the most significant bits          *)
(* (float -> b bits: floor(clamp(f) * 2^b), saturating at 2^b - 1); a store changes only the *)
(* addressed pixels' bits of the destination buffer.  This module is an executable reference *)
(* plus a one-step state machine over the destination buffer (variable-free: the trace and   *)
(* MC modules own the variable); it is the least state-machine-like module of the framework. *)
(*                                                                                           *)
(* Exactness claims, by format type:                                                         *)
(*   A, ARGB, ABGR, BGRA, RGBA      exact (replicate / truncate / n/(2^b-1) / floor(f 2^b))  *)
(*   COLOR, GRAY (indexed)          exact relative to the palette: fetch = rgba[index],      *)
(*                                  store = ent[15-bit key of the canonical 8-bit pixel]     *)
(*   ARGB_SRGB                      alpha exact; colour channels are a non-linear encoding,  *)
(*                                  so only 0 -> 0, max -> max, monotone, and round trip     *)
(*                                  identity are claimed (no bit replication)                *)
(*   YUY2, YV12                     source only; claimed: alpha reads as 1, all readers      *)
(*                                  (scanline / single pixel / accessor) agree               *)
(*   RGBA_FLOAT                     canonical float representation (copy of the bit pattern) *)
EXTENDS Bits, Integers

Chan == {"a", "r", "g", "b"}

TypeA == 1  TypeARGB == 2  TypeABGR == 3  TypeCOLOR == 4  TypeGRAY == 5  TypeYUY2 == 6  TypeYV12 == 7
TypeBGRA == 8  TypeRGBA == 9  TypeSRGB == 10  TypeFLOAT == 11

(* decode a PIXMAN_FORMAT / PIXMAN_FORMAT_BYTE code given as <<hi16, lo16>> *)
Fmt(code) ==
    LET hi == code[1]  lo == code[2]  sh == (hi \div 64) % 4 IN
    [bpp  |-> (hi \div 256) * P2(sh),
     type |-> hi % 64,
     a    |-> (lo \div 4096) * P2(sh),
     r    |-> ((lo \div 256) % 16) * P2(sh),
     g    |-> ((lo \div 16) % 16) * P2(sh),
     b    |-> (lo % 16) * P2(sh)]

FmtCode(bpp, type, a, r, g, b) == <<bpp * 256 + type, a * 4096 + r * 256 + g * 16 + b>>    \* PIXMAN_FORMAT, bpp < 128
A8R8G8B8 == Fmt(FmtCode(32, TypeARGB, 8, 8, 8, 8))
RGBAFloat == [bpp |-> 128, type |-> TypeFLOAT, a |-> 32, r |-> 32, g |-> 32, b |-> 32]

CBits(f, c) == CASE c = "a" -> f.a [] c = "r" -> f.r [] c = "g" -> f.g [] c = "b" -> f.b

IsPacked(f)  == f.type \in {TypeA, TypeARGB, TypeABGR, TypeBGRA, TypeRGBA, TypeSRGB}
IsIndexed(f) == f.type \in {TypeCOLOR, TypeGRAY}
IsYUV(f)     == f.type \in {TypeYUY2, TypeYV12}
IsFloat(f)   == f.type = TypeFLOAT
IsSRGB(f)    == f.type = TypeSRGB
IsWide(f)    == f.a > 8 \/ f.r > 8 \/ f.g > 8 \/ f.b > 8 \/ IsSRGB(f)

(* position of each channel inside the pixel word: ARGB lists the channels from the top of   *)
(* the used bits, ABGR likewise, BGRA / RGBA from the top of the whole pixel                 *)
CShift(f, c) ==
    CASE f.type = TypeA -> 0
      [] f.type \in {TypeARGB, TypeSRGB} ->
           (CASE c = "b" -> 0 [] c = "g" -> f.b [] c = "r" -> f.b + f.g [] c = "a" -> f.b + f.g + f.r)
      [] f.type = TypeABGR ->
           (CASE c = "r" -> 0 [] c = "g" -> f.r [] c = "b" -> f.r + f.g [] c = "a" -> f.r + f.g + f.b)
      [] f.type = TypeBGRA ->
           (CASE c = "b" -> f.bpp - f.b [] c = "g" -> f.bpp - f.b - f.g [] c = "r" -> f.bpp - f.b - f.g - f.r
              [] c = "a" -> f.bpp - f.b - f.g - f.r - f.a)
      [] f.type = TypeRGBA ->
           (CASE c = "r" -> f.bpp - f.r [] c = "g" -> f.bpp - f.r - f.g [] c = "b" -> f.bpp - f.r - f.g - f.b
              [] c = "a" -> f.bpp - f.r - f.g - f.b - f.a)

(* the bits of a pixel word that carry information ("defined bits") *)
DefinedMask(f) ==
    IF IsPacked(f)
    THEN WAdd(WAdd(MaskW(CShift(f, "a"), f.a), MaskW(CShift(f, "r"), f.r)),
              WAdd(MaskW(CShift(f, "g"), f.g), MaskW(CShift(f, "b"), f.b)))
    ELSE MaskW(0, IF f.bpp > 16 THEN 16 ELSE f.bpp)           \* indexed: the whole index

(* ------------------------------ channel values ------------------------------ *)
CNone   == [k |-> "none", n |-> 0, b |-> 0, w |-> WZero]
CU(n, b) == [k |-> "u", n |-> n, b |-> b, w |-> WZero]
CS(n)   == [k |-> "s", n |-> n, b |-> 8, w |-> WZero]
CF(w)   == [k |-> "f", n |-> 0, b |-> 32, w |-> w]

FOne == <<16256, 0>>                  \* 0x3f800000 = 1.0f

FSign(w) == w[1] \div 32768
FExp(w)  == (w[1] \div 128) % 256
FMant(w) == (w[1] % 128) * 65536 + w[2]                       \* 23 bits
FSig(w)  == IF FExp(w) = 0 THEN FMant(w) ELSE FMant(w) + 8388608      \* with the hidden bit
FIsNaN(w) == FExp(w) = 255 /\ FMant(w) # 0

(* floor (clamp (f, 0, 1) * 2^k), k <= 24: "keep the k most significant bits" of a float *)
FloorMul(w, k) ==
    IF FSign(w) = 1 \/ FExp(w) = 0 THEN 0
    ELSE IF FExp(w) >= 127 THEN P2(k)
    ELSE LET sh == 150 - FExp(w) - k IN                       \* > 0 because FExp <= 126, k <= 24 ... 23
         IF sh > 30 THEN 0 ELSE IF sh >= 0 THEN FSig(w) \div P2(sh) ELSE FSig(w) * P2(-sh)

(* narrowing a float to b bits: floor (f * 2^b), saturating *)
FloorScale(w, b) == LET u == FloorMul(w, b) IN IF u >= P2(b) THEN P2(b) - 1 ELSE u

(* the float with pattern w equals n / m up to 2^-19 (m <= 1023): checked on floor(f * 2^20) *)
FloatNear(w, n, m) ==
    /\ FSign(w) = 0 \/ (FExp(w) = 0 /\ FMant(w) = 0)
    /\ ~FIsNaN(w)
    /\ LET F20 == FloorMul(w, 20) IN
       /\ F20 * m <= n * 1048576 + 2 * m
       /\ (F20 + 1) * m >= n * 1048576 - 2 * m

FIsZeroOrLess(w) == FSign(w) = 1 \/ (FExp(w) = 0 /\ FMant(w) = 0)
FIsOneOrMore(w)  == FSign(w) = 0 /\ FExp(w) >= 127 /\ ~FIsNaN(w)

(* ------------------------------ palettes (indexed formats) ------------------------------ *)
(* A family of palettes given by a closed formula shared with the driver (harness/drv_pixel.c,
   make_palette): entry i of an N-entry palette is the colour of slot j = (i * m + o) mod N,
   (m, o) = PalParam(k); the inverse table ent[] maps the 15-bit key of that colour back to i. *)
PalParam(k) == CASE k = 0 -> <<1, 0>> [] k = 1 -> <<3, 5>> [] k = 2 -> <<5, 9>> [] OTHER -> <<7, 2>>
PalSlot(N, k, i) == (i * PalParam(k)[1] + PalParam(k)[2]) % N
PalMInv(k) == CASE k = 0 -> 1 [] k = 1 -> 171 [] k = 2 -> 205 [] OTHER -> 183      \* inverses of 1,3,5,7 mod 256
PalInv(N, k, j) == (((j + N - (PalParam(k)[2] % N)) % N) * (PalMInv(k) % N)) % N

(* colour of slot j: [a, r, g, b] as 8-bit numbers *)
SlotColour(f, j) ==
    LET N == P2(f.bpp) IN
    IF f.type = TypeGRAY
    THEN LET v == CASE N = 256 -> j [] N = 16 -> j * 17 [] OTHER -> j * 255 IN
         [a |-> 255, r |-> v, g |-> v, b |-> v]
    ELSE LET r5 == IF N = 256 THEN j \div 8 ELSE j * 2
             g5 == IF N = 256 THEN (j % 8) * 4 + 1 ELSE 31 - j
             b5 == (j * 7) % 32
         IN [a |-> 255 - (j % 3) * 40, r |-> Replicate(r5, 5, 8), g |-> Replicate(g5, 5, 8), b |-> Replicate(b5, 5, 8)]

PalRGBA(f, k, i) == SlotColour(f, PalSlot(P2(f.bpp), k, i))

(* the 15-bit key under which a canonical 8-bit pixel is looked up in ent[] *)
Key15(f, p) ==
    IF f.type = TypeGRAY THEN ((p.r * 153 + p.g * 301 + p.b * 58) \div 4) % 32768
    ELSE (p.r \div 8) * 1024 + (p.g \div 8) * 32 + (p.b \div 8)

PalEnt(f, k, key) ==
    LET N == P2(f.bpp)
        j == IF f.type = TypeGRAY
             THEN (CASE N = 256 -> key \div 128 [] N = 16 -> (key \div 2176) % 16 [] OTHER -> key \div 16384)
             ELSE (IF N = 256 THEN (key \div 1024) * 8 + ((key \div 32) % 32) \div 4 ELSE (key \div 1024) \div 2)
    IN PalInv(N, k, j % N)

(* ------------------------------ reading a pixel ------------------------------ *)
(* channel values of a raw pixel word of a packed format *)
DecodeWord(f, raw) ==
    [c \in Chan |-> IF CBits(f, c) = 0 THEN CNone
                    ELSE IF IsSRGB(f) /\ c # "a" THEN CS(FieldW(raw, CShift(f, c), CBits(f, c)))
                    ELSE CU(FieldW(raw, CShift(f, c), CBits(f, c)), CBits(f, c))]

(* pixel x of a row stored in the byte buffer buf (palette family member pal for indexed formats) *)
PixelCV(f, pal, buf, x) ==
    IF IsPacked(f) THEN DecodeWord(f, RawAt(buf, f.bpp, x))
    ELSE IF IsIndexed(f)
    THEN LET p == PalRGBA(f, pal, RawAt(buf, f.bpp, x)[2]) IN
         [c \in Chan |-> CU(CASE c = "a" -> p.a [] c = "r" -> p.r [] c = "g" -> p.g [] c = "b" -> p.b, 8)]
    ELSE \* float: r, g, b (, a) in memory order
         LET base == x * (f.bpp \div 8) IN
         [c \in Chan |-> CASE c = "r" -> CF(Word32At(buf, base))
                           [] c = "g" -> CF(Word32At(buf, base + 4))
                           [] c = "b" -> CF(Word32At(buf, base + 8))
                           [] c = "a" -> IF f.a = 0 THEN CNone ELSE CF(Word32At(buf, base + 12))]

(* canonical 8-bit value of a channel value (deterministic kinds only) *)
To8(v, c) ==
    CASE v.k = "none" -> IF c = "a" THEN 255 ELSE 0
      [] v.k = "u"    -> Widen(v.n, v.b, 8)
      [] v.k = "f"    -> FloorScale(v.w, 8)

Pixel8(px) == [a |-> To8(px["a"], "a"), r |-> To8(px["r"], "r"), g |-> To8(px["g"], "g"), b |-> To8(px["b"], "b")]

(* ------------------------------ the conversion relation ------------------------------ *)
(* ConvOK(s, c, d): channel c of a destination pixel may hold d after a pixel whose channel   *)
(* c is s was written to it.  Deterministic except where the statement leaves freedom:       *)
(* widening beyond 8 bits (any value whose 8 most significant bits are the source and that    *)
(* maps 0 -> 0, max -> max) and the sRGB transfer function (end points only; monotonicity    *)
(* and round trips are demanded at row level).                                               *)
SrcIsZero(s, c) == (s.k = "none" /\ c # "a") \/ (s.k \in {"u", "s"} /\ s.n = 0) \/ (s.k = "f" /\ FIsZeroOrLess(s.w))
SrcIsMax(s, c)  == (s.k = "none" /\ c = "a") \/ (s.k \in {"u", "s"} /\ s.n = MaxOf(s.b)) \/ (s.k = "f" /\ FIsOneOrMore(s.w))

ConvOK(s, c, d) ==
    CASE d.k = "u" ->
           (CASE s.k = "none" -> d.n = (IF c = "a" THEN MaxOf(d.b) ELSE 0)
              [] s.k = "u" ->
                   IF d.b <= 8 THEN d.n = Truncate(Widen(s.n, s.b, 8), 8, d.b)
                   ELSE IF s.b = d.b THEN d.n = s.n
                   ELSE /\ Truncate(d.n, d.b, 8) = Widen(s.n, s.b, 8)
                        /\ (s.n = 0 => d.n = 0)
                        /\ (s.n = MaxOf(s.b) => d.n = MaxOf(d.b))
              [] s.k = "f" -> d.n = FloorScale(s.w, d.b)
              [] s.k = "s" -> (s.n = 0 => d.n = 0) /\ (s.n = 255 => d.n = MaxOf(d.b)))
      [] d.k = "f" ->
           (CASE s.k = "none" -> d.w = (IF c = "a" THEN FOne ELSE WZero)
              [] s.k = "u" -> /\ FloatNear(d.w, s.n, MaxOf(s.b))
                              /\ (s.n = 0 => d.w = WZero)
                              /\ (s.n = MaxOf(s.b) => d.w = FOne)
              [] s.k = "f" -> d.w = s.w
              [] s.k = "s" -> /\ (s.n = 0 => d.w = WZero) /\ (s.n = 255 => d.w = FOne)
                              /\ ~FIsNaN(d.w) /\ (FSign(d.w) = 0 \/ d.w = <<32768, 0>>) /\ WLe(d.w, FOne))
      [] d.k = "s" -> (SrcIsZero(s, c) => d.n = 0) /\ (SrcIsMax(s, c) => d.n = 255)

Deterministic(s, d) == ~(s.k = "s" \/ d.k = "s" \/ (s.k = "u" /\ d.k = "u" /\ d.b > 8 /\ s.b # d.b))

(* order keys for the row-level monotonicity demand (integers and non-negative floats) *)
OrdKey(v) == IF v.k = "f" THEN (IF FSign(v.w) = 1 THEN WZero ELSE v.w) ELSE <<0, v.n>>

(* Evaluation note (TLC): operator arguments are evaluated once and cached, LET definitions    *)
(* inside actions are re-evaluated at every use -- so shared values are passed as arguments.   *)

ChannelsOK(df, spx, dpx) == \A c \in Chan : CBits(df, c) > 0 => ConvOK(spx[c], c, dpx[c])

(* destination pixel x of buffer after holds the conversion of source pixel spx *)
PixelConvOK(df, pal, spx, after, x) ==
    IF IsIndexed(df)
    THEN RawAt(after, df.bpp, x)[2] = PalEnt(df, pal, Key15(df, Pixel8(spx)))
    ELSE ChannelsOK(df, spx, PixelCV(df, pal, after, x))

(* a row: pixels sx.. of the source buffer (pixel 0 for every i when rep = 1: a 1x1 repeating  *)
(* source) land at dx..dx+w-1 of the destination buffer after                                   *)
SrcIndex(sx, i, rep) == IF rep = 1 THEN 0 ELSE sx + i
RowConvOK(sf, spal, sbuf, sx, rep, df, dpal, after, dx, w) ==
    \A i \in 0..(w - 1) : PixelConvOK(df, dpal, PixelCV(sf, spal, sbuf, SrcIndex(sx, i, rep)), after, dx + i)

(* the conversion between two formats leaves freedom (see ConvOK) *)
NonDetPair(sf, df) == IsSRGB(sf) \/ IsSRGB(df) \/ (IsPacked(sf) /\ IsPacked(df) /\ IsWide(df) /\ ~IsWide(sf))

(* monotone: a larger source channel never gives a smaller destination channel (demanded     *)
(* where the conversion is not already pinned down to one value)                             *)
MonoPx(df, si, sj, di, dj) ==
    \A c \in Chan :
       (/\ CBits(df, c) > 0 /\ si[c].k \in {"u", "s"} /\ sj[c].k \in {"u", "s"}
        /\ si[c].n <= sj[c].n)
       => WLe(OrdKey(di[c]), OrdKey(dj[c]))

RowMonotone(sf, spal, sbuf, sx, rep, df, dpal, after, dx, w) ==
    (NonDetPair(sf, df) /\ ~IsIndexed(df) /\ ~IsIndexed(sf)) =>
       \A i, j \in 0..(w - 1) :
          MonoPx(df, PixelCV(sf, spal, sbuf, SrcIndex(sx, i, rep)), PixelCV(sf, spal, sbuf, SrcIndex(sx, j, rep)),
                 PixelCV(df, dpal, after, dx + i), PixelCV(df, dpal, after, dx + j))

(* frame: only the bits of pixels dx..dx+w-1 differ between before and after *)
FrameOK(df, before, after, dx, w) == SameOutside(before, after, dx * df.bpp, (dx + w) * df.bpp)

(* identity on the defined bits: pixels x (in a) and y (in b) of the same format agree *)
DefinedEq(f, pal, a, x, b, y) ==
    IF IsPacked(f)
    THEN \A c \in Chan : FieldW(RawAt(a, f.bpp, x), CShift(f, c), CBits(f, c)) = FieldW(RawAt(b, f.bpp, y), CShift(f, c), CBits(f, c))
    ELSE IF IsIndexed(f) THEN RawAt(a, f.bpp, x) = RawAt(b, f.bpp, y)
    ELSE \A k \in 0..(f.bpp \div 8 - 1) : Byte(a, x * (f.bpp \div 8) + k) = Byte(b, y * (f.bpp \div 8) + k)

(* ------------------------------ deterministic store (reference) ------------------------------ *)
(* The value the reference store writes for channel value s into a b-bit channel c.  Only    *)
(* for the deterministic kinds; used by the design-level model and the generator.            *)
ConvDet(s, c, b) ==
    CASE s.k = "none" -> IF c = "a" THEN MaxOf(b) ELSE 0
      [] s.k = "u"    -> IF s.b = b THEN s.n
                         ELSE IF b <= 8 THEN Truncate(Widen(s.n, s.b, 8), 8, b) ELSE Widen(Widen(s.n, s.b, 8), 8, b)
      [] s.k = "f"    -> FloorScale(s.w, b)

(* raw word a packed / indexed format stores for pixel px (undefined bits zero) *)
EncodeWord(f, pal, px) ==
    IF IsIndexed(f) THEN <<0, PalEnt(f, pal, Key15(f, Pixel8(px)))>>
    ELSE WAdd(WAdd(PutW(ConvDet(px["a"], "a", f.a), CShift(f, "a"), f.a), PutW(ConvDet(px["r"], "r", f.r), CShift(f, "r"), f.r)),
              WAdd(PutW(ConvDet(px["g"], "g", f.g), CShift(f, "g"), f.g), PutW(ConvDet(px["b"], "b", f.b), CShift(f, "b"), f.b)))

(* the one-step state machine: storing a row of pixels into a buffer of format f *)
RECURSIVE StoreRow(_, _, _, _, _)
StoreRow(buf, f, pal, dx, pxs) ==
    IF pxs = <<>> THEN buf
    ELSE StoreRow(WithRaw(buf, f.bpp, dx, EncodeWord(f, pal, Head(pxs))), f, pal, dx + 1, Tail(pxs))
=============================================================================
