------------------------------ MODULE Combine ------------------------------
(* C01 -- what pixman_image_composite32 must leave in a destination pixel.                   *)
(*                                                                                           *)
(* The module states the property, not the code.  A pixel is a record of channel values      *)
(* (Formats.tla); the operator is its number in pixman.h; mode is "none" (no mask),          *)
(* "unified" or "ca" (component alpha).                                                      *)
(*                                                                                           *)
(* EXACT CLASS: the Porter-Duff operators CLEAR .. ADD (0x00 .. 0x0c) when source, mask and   *)
(* destination formats all have at most 8 bits per channel.  Channels are widened to 8 bits  *)
(* by bit replication; every product is rounded to nearest in units of 1/255 (MulUn8); sums  *)
(* saturate; the result is narrowed by truncation to the destination format:                 *)
(*     SrcIn[c]    = s[c]           | MulUn8(s[c], m.a)   | MulUn8(s[c], m[c])               *)
(*     SrcAlpha[c] = s.a            | MulUn8(s.a, m.a)    | MulUn8(m[c], s.a)                *)
(*     result[c]   = min(255, MulUn8(SrcIn[c], Fa) + MulUn8(d[c], Fb))                      *)
(* with (Fa, Fb) the Porter-Duff factors in units of 1/255 from (SrcAlpha[c], d.a).          *)
(*                                                                                           *)
(* TOLERANCE CLASS: SATURATE, DISJOINT_*, CONJOINT_*, the PDF blend modes, and every request *)
(* involving a format of more than 8 bits per channel.  The real-valued Render / PDF         *)
(* equation is evaluated in outward-rounded interval arithmetic (RealIv) from the true       *)
(* channel values n / (2^b - 1); a destination channel is accepted when it lies within one   *)
(* quantisation step of the destination format of that value.  The eight blend modes pixman  *)
(* evaluates in 8-bit integers when all formats are narrow (MULTIPLY, SCREEN, OVERLAY,       *)
(* DARKEN, LIGHTEN, HARD_LIGHT, DIFFERENCE, EXCLUSION) are accepted against either of two     *)
(* references: the equation applied to the MulUn8-pre-multiplied 8-bit source and source      *)
(* alpha, within 1 step of 8 bits (MULTIPLY: 2) and then truncated to the destination, or the *)
(* equation on the true values within one step of the destination format.  The tolerance     *)
(* class is judged on premultiplied inputs only (colour <= alpha in source and destination), *)
(* as the statement says; other pixels are not judged.                                       *)
(*                                                                                           *)
(* Solid-fill images carry 16-bit channels: in the exact class (and wherever pixman works in   *)
(* 8 bits) their value is the 8 most significant bits; the real-valued equations use the true  *)
(* value n / 65535.                                                                            *)
(*                                                                                           *)
(* Outside the domain: the four HSL operators with a component-alpha mask (Render / PDF      *)
(* define no such equation; pixman makes them no-ops), sRGB and floating point formats.      *)
(* Ordered dithering of the destination: see CombineTrace (the one-step band of the real     *)
(* value is accepted as an alternative).                                                     *)
EXTENDS Formats, RealIv

MulUn8(a, b) == LET t == a * b + 128 IN (t + (t \div 256)) \div 256

OpCLEAR == 0  OpSRC == 1  OpDST == 2  OpOVER == 3  OpADD == 12  OpSATURATE == 13
PDOps       == 0..12
DisjointOps == 16..27
ConjointOps == 32..43
BlendOps    == 48..62
SepBlendOps == 48..58
HSLOps      == 59..62
AllOps      == (0..13) \cup DisjointOps \cup ConjointOps \cup BlendOps
NarrowBlendOps == {48, 49, 50, 51, 52, 55, 57, 58}       \* evaluated in 8-bit integers on narrow formats
NeedsDivision(op) == op = 13 \/ op \in DisjointOps \/ op \in ConjointOps \/ op \in {53, 54, 56, 59, 60, 61, 62}

(* ------------------------------ exact class ------------------------------ *)
(* Porter-Duff factor kinds of CLEAR .. ADD, indexed by op + 1 *)
FaKind == <<"0", "1", "0", "1", "ida", "da", "0", "ida", "0", "da", "ida", "ida", "1">>
FbKind == <<"0", "0", "1", "isa", "1", "0", "sa", "0", "isa", "isa", "sa", "isa", "1">>

Fac8(kind, sa, da) ==
    CASE kind = "0" -> 0 [] kind = "1" -> 255 [] kind = "sa" -> sa [] kind = "da" -> da
      [] kind = "isa" -> 255 - sa [] kind = "ida" -> 255 - da

(* 8-bit channel records: [a, r, g, b] *)
Ch(p, c) == CASE c = "a" -> p.a [] c = "r" -> p.r [] c = "g" -> p.g [] c = "b" -> p.b

SrcIn8(s, m, mode, c) ==
    CASE mode = "none" -> Ch(s, c) [] mode = "unified" -> MulUn8(Ch(s, c), m.a) [] mode = "ca" -> MulUn8(Ch(s, c), Ch(m, c))
SrcAlpha8(s, m, mode, c) ==
    CASE mode = "none" -> s.a [] mode = "unified" -> MulUn8(s.a, m.a) [] mode = "ca" -> MulUn8(Ch(m, c), s.a)

PD8c(op, sc, sac, dc, da) ==
    LET v == MulUn8(sc, Fac8(FaKind[op + 1], sac, da)) + MulUn8(dc, Fac8(FbKind[op + 1], sac, da))
    IN  IF v > 255 THEN 255 ELSE v

(* the 8-bit result channel c of operator op (0 .. 12) *)
PD8(op, s, m, d, mode, c) == PD8c(op, SrcIn8(s, m, mode, c), SrcAlpha8(s, m, mode, c), Ch(d, c), d.a)

Exact8(op, s, m, d, mode) == [c \in Chan |-> PD8(op, s, m, d, mode, c)]

(* ------------------------------ tolerance class: real-valued equations ------------------------------ *)
(* real value of a channel value as an interval *)
RealOf(v, c) ==
    CASE v.k = "none" -> IF c = "a" THEN IvOne ELSE IvZero
      [] v.k = "u"    -> IvFromUnorm(v.n, MaxOf(v.b))

RSub1(x) == IvSub(IvOne, x)                             \* 1 - x

(* factors of the Porter-Duff family (Render): kinds as in the protocol description *)
RFactor(kind, sa, da) ==
    CASE kind = "0"   -> IvZero
      [] kind = "1"   -> IvOne
      [] kind = "sa"  -> sa
      [] kind = "da"  -> da
      [] kind = "isa" -> RSub1(sa)
      [] kind = "ida" -> RSub1(da)
      [] kind = "sa/da"        -> IvIf(IvIsZero(da), IvOne, IvDivClamp01(sa, da))                 \* min(1, sa/da)
      [] kind = "da/sa"        -> IvIf(IvIsZero(sa), IvOne, IvDivClamp01(da, sa))
      [] kind = "isa/da"       -> IvIf(IvIsZero(da), IvOne, IvDivClamp01(RSub1(sa), da))          \* min(1, (1-sa)/da)
      [] kind = "ida/sa"       -> IvIf(IvIsZero(sa), IvOne, IvDivClamp01(RSub1(da), sa))
      [] kind = "1-sa/da"      -> IvIf(IvIsZero(da), IvZero, RSub1(IvDivClamp01(sa, da)))         \* max(0, 1 - sa/da)
      [] kind = "1-da/sa"      -> IvIf(IvIsZero(sa), IvZero, RSub1(IvDivClamp01(da, sa)))
      [] kind = "1-ida/sa"     -> IvIf(IvIsZero(sa), IvZero, RSub1(IvDivClamp01(RSub1(da), sa)))  \* max(0, 1 - (1-da)/sa)
      [] kind = "1-isa/da"     -> IvIf(IvIsZero(da), IvZero, RSub1(IvDivClamp01(RSub1(sa), da)))

(* factor kinds (Fa, Fb) of every operator of the Porter-Duff family *)
DisjA == <<"0", "1", "0", "1", "ida/sa", "1-ida/sa", "0", "ida/sa", "0", "1-ida/sa", "ida/sa", "ida/sa">>
DisjB == <<"0", "0", "1", "isa/da", "1", "0", "1-isa/da", "0", "isa/da", "isa/da", "1-isa/da", "isa/da">>
ConjA == <<"0", "1", "0", "1", "1-da/sa", "da/sa", "0", "1-da/sa", "0", "da/sa", "1-da/sa", "1-da/sa">>
ConjB == <<"0", "0", "1", "1-sa/da", "1", "0", "sa/da", "0", "1-sa/da", "1-sa/da", "sa/da", "1-sa/da">>

PDKinds(op) ==
    IF op \in PDOps THEN <<FaKind[op + 1], FbKind[op + 1]>>
    ELSE IF op = OpSATURATE THEN <<"ida/sa", "1">>
    ELSE IF op \in DisjointOps THEN <<DisjA[op - 15], DisjB[op - 15]>>
    ELSE <<ConjA[op - 31], ConjB[op - 31]>>

(* min (1, s * Fa + d * Fb) *)
RPD(op, sa, s, da, d) ==
    IvMin(IvOne, IvAdd(IvMul(s, RFactor(PDKinds(op)[1], sa, da)), IvMul(d, RFactor(PDKinds(op)[2], sa, da))))

(* ---- separable PDF blend modes: as * ad * B(d/ad, s/as), simplified for premultiplied operands ---- *)
RTwice(x) == IvMulK(x, 2)

RBlendSep(op, sa, s, da, d) ==
    CASE op = 48 -> IvMul(d, s)                                                                    \* multiply
      [] op = 49 -> IvSub(IvAdd(IvMul(d, sa), IvMul(s, da)), IvMul(s, d))                          \* screen
      [] op = 50 -> IvIf(IvLt(RTwice(d), da), RTwice(IvMul(s, d)),                                 \* overlay
                         IvSub(IvMul(sa, da), RTwice(IvMul(IvSub(da, d), IvSub(sa, s)))))
      [] op = 51 -> IvMin(IvMul(s, da), IvMul(d, sa))                                              \* darken
      [] op = 52 -> IvMax(IvMul(s, da), IvMul(d, sa))                                              \* lighten
      [] op = 53 ->                                                                                \* colour dodge
           IvIf(IvIsZero(d), IvZero,
                IvIf(IvLe(IvMul(IvSub(sa, s), da), IvMul(d, sa)), IvMul(sa, da),
                     IvMin(IvMul(sa, da), IvMul(sa, IvDivClamp01(IvMul(sa, d), IvSub(sa, s))))))
      [] op = 54 ->                                                                                \* colour burn
           IvIf(IvLe(da, d), IvMul(sa, da),
                IvIf(IvLe(IvMul(s, da), IvMul(sa, IvSub(da, d))), IvZero,
                     IvMax(IvZero, IvMul(sa, IvSub(da, IvMin(da, IvDivClamp01(IvMul(sa, IvSub(da, d)), s)))))))
      [] op = 55 -> IvIf(IvLt(RTwice(s), sa), RTwice(IvMul(s, d)),                                 \* hard light
                         IvSub(IvMul(sa, da), RTwice(IvMul(IvSub(da, d), IvSub(sa, s)))))
      [] op = 56 ->                                                                                \* soft light
           IvIf(IvIsZero(da), IvMul(d, sa),
                IvIf(IvLe(RTwice(s), sa),
                     \* d*sa - d*(da - d)*(sa - 2s)/da,   (da - d)/da = 1 - d/da
                     IvSub(IvMul(d, sa), IvMul(IvMul(d, RSub1(IvDivClamp01(d, da))), IvSub(sa, RTwice(s)))),
                     IvIf(IvLe(IvMulK(d, 4), da),
                          \* d*sa + (2s - sa) * d * ((16 d/da - 12) d/da + 3)
                          IvAdd(IvMul(d, sa),
                                IvMul(IvMul(IvSub(RTwice(s), sa), d),
                                      IvAdd(IvMul(IvSub(IvMulK(IvDivClamp01(d, da), 16), IvInt(12)), IvDivClamp01(d, da)), IvInt(3)))),
                          \* d*sa + (sqrt (d*da) - d) * (2s - sa)
                          IvAdd(IvMul(d, sa), IvMul(IvSub(IvSqrt01(IvMul(d, da)), d), IvSub(RTwice(s), sa))))))
      [] op = 57 -> IvHull(IvMax(IvZero, IvSub(IvMul(d, sa), IvMul(s, da))),                       \* difference |d sa - s da|
                           IvMax(IvZero, IvSub(IvMul(s, da), IvMul(d, sa))))
      [] op = 58 -> IvSub(IvAdd(IvMul(s, da), IvMul(d, sa)), RTwice(IvMul(d, s)))                  \* exclusion

(* |x| as max(x, -x): hull of the two one-sided parts is a superset; tighten: *)
RAbsDiff(x, y) == LET a == IvSub(x, y) IN
                  IF a[1] >= 0 THEN a ELSE IF a[2] <= 0 THEN IvNeg(a) ELSE <<0, IMax(-a[1], a[2])>>

RBlendSepT(op, sa, s, da, d) ==
    IF op = 57 THEN RAbsDiff(IvMul(d, sa), IvMul(s, da)) ELSE RBlendSep(op, sa, s, da, d)

(* colour channel of a separable blend mode: (1 - sa) d + (1 - da) s + blend *)
RSepColour(op, sa, s, da, d) ==
    IvAdd(IvAdd(IvMul(RSub1(sa), d), IvMul(RSub1(da), s)), RBlendSepT(op, sa, s, da, d))
RBlendAlpha(sa, da) == IvSub(IvAdd(da, sa), IvMul(da, sa))

(* ---- non-separable (HSL) blend modes; colours are triples <<r, g, b>> of intervals ---- *)
K030 == <<314572, 314573>>
K059 == <<618659, 618660>>
K011 == <<115343, 115344>>
Lum(c) == IvAdd(IvAdd(IvMul(c[1], K030), IvMul(c[2], K059)), IvMul(c[3], K011))
CMin(c) == IvMin(IvMin(c[1], c[2]), c[3])
CMax(c) == IvMax(IvMax(c[1], c[2]), c[3])
Sat(c) == IvSub(CMax(c), CMin(c))
CScale(c, k) == <<IvMul(c[1], k), IvMul(c[2], k), IvMul(c[3], k)>>
CAddS(c, k) == <<IvAdd(c[1], k), IvAdd(c[2], k), IvAdd(c[3], k)>>

(* minimum -> 0, maximum -> sat, middle -> (mid - min) sat / (max - min); all 0 when max = min *)
SetSat1(x, mn, t, sat) == IvIf(IvIsZero(t), IvZero, IvMul(IvDivClamp01(IvSub(x, mn), t), sat))
SetSatMT(c, mn, t, sat) == <<SetSat1(c[1], mn, t, sat), SetSat1(c[2], mn, t, sat), SetSat1(c[3], mn, t, sat)>>
SetSat(c, sat) == SetSatMT(c, CMin(c), IvMax(IvZero, Sat(c)), sat)

(* ClipColor of the PDF specification, on premultiplied colours with alpha a *)
Clip1(x, l, ratio) == IvAdd(l, IvMul(IvSub(x, l), ratio))
ClipLow(c, l, n) ==           \* if n < 0 : l + (c - l) l / (l - n)
    LET ratio == IvDivClamp01(l, IvMax(IvZero, IvSub(l, n))) IN
    <<IvIf(IvLt(n, IvZero), Clip1(c[1], l, ratio), c[1]),
      IvIf(IvLt(n, IvZero), Clip1(c[2], l, ratio), c[2]),
      IvIf(IvLt(n, IvZero), Clip1(c[3], l, ratio), c[3])>>
ClipHigh(c, l, x, a) ==       \* if x > a : l + (c - l) (a - l) / (x - l)
    LET ratio == IvDivClamp01(IvSub(a, l), IvMax(IvZero, IvSub(x, l))) IN
    <<IvIf(IvLt(a, x), Clip1(c[1], l, ratio), c[1]),
      IvIf(IvLt(a, x), Clip1(c[2], l, ratio), c[2]),
      IvIf(IvLt(a, x), Clip1(c[3], l, ratio), c[3])>>
ClipColor3(c, a, l, n, x) == ClipHigh(ClipLow(c, l, n), l, x, a)
ClipColor(c, a) == ClipColor3(c, a, Lum(c), CMin(c), CMax(c))
SetLum(c, a, l) == ClipColor(CAddS(c, IvSub(l, Lum(c))), a)

RBlendHSL(op, sa, sc, da, dc) ==
    CASE op = 59 -> SetLum(SetSat(CScale(sc, da), IvMul(Sat(dc), sa)), IvMul(sa, da), IvMul(Lum(dc), sa))     \* hue
      [] op = 60 -> SetLum(SetSat(CScale(dc, sa), IvMul(Sat(sc), da)), IvMul(sa, da), IvMul(Lum(dc), sa))     \* saturation
      [] op = 61 -> SetLum(CScale(sc, da), IvMul(sa, da), IvMul(Lum(dc), sa))                                 \* colour
      [] op = 62 -> SetLum(CScale(dc, sa), IvMul(sa, da), IvMul(Lum(sc), da))                                 \* luminosity

RHSL3(sa, sc, da, dc, rc) ==
    <<IvAdd(IvAdd(IvMul(RSub1(sa), dc[1]), IvMul(RSub1(da), sc[1])), rc[1]),
      IvAdd(IvAdd(IvMul(RSub1(sa), dc[2]), IvMul(RSub1(da), sc[2])), rc[2]),
      IvAdd(IvAdd(IvMul(RSub1(sa), dc[3]), IvMul(RSub1(da), sc[3])), rc[3])>>
RHSLColour(op, sa, sc, da, dc) == RHSL3(sa, sc, da, dc, RBlendHSL(op, sa, sc, da, dc))

(* ---- the real-valued result, per channel, from real inputs ---- *)
(* S = [a, r, g, b] masked source (s IN m), SA = per-channel source alpha, D = destination; all intervals *)
RChannel(op, S, SA, D, c) ==
    IF op \in BlendOps
    THEN IF c = "a" THEN RBlendAlpha(S["a"], D["a"])
         ELSE IF op \in SepBlendOps THEN RSepColour(op, SA[c], S[c], D["a"], D[c])
         ELSE LET col == RHSLColour(op, S["a"], <<S["r"], S["g"], S["b"]>>, D["a"], <<D["r"], D["g"], D["b"]>>)
              IN  CASE c = "r" -> col[1] [] c = "g" -> col[2] [] c = "b" -> col[3]
    ELSE RPD(op, SA[c], S[c], D["a"], D[c])

(* masked source and per-channel source alpha from real s, m *)
RSrcIn(s, m, mode) ==
    [c \in Chan |-> CASE mode = "none" -> s[c] [] mode = "unified" -> IvMul(s[c], m["a"]) [] mode = "ca" -> IvMul(s[c], m[c])]
RSrcAlpha(s, m, mode) ==
    [c \in Chan |-> CASE mode = "none" -> s["a"] [] mode = "unified" -> IvMul(s["a"], m["a"]) [] mode = "ca" -> IvMul(m[c], s["a"])]

(* a solid-fill colour <<a, r, g, b>> of 16-bit values as a pixel *)
SolidPixel(col) == [c \in Chan |-> CU(CASE c = "a" -> col[1] [] c = "r" -> col[2] [] c = "g" -> col[3] [] c = "b" -> col[4], 16)]

RealPixel(px) == [c \in Chan |-> RealOf(px[c], c)]
Real8(p8) == [c \in Chan |-> IvFromUnorm(Ch(p8, c), 255)]

(* ------------------------------ judging one destination pixel ------------------------------ *)
NarrowFmt(f) == IsPacked(f) /\ ~IsWide(f)
InDomainFmt(f) == IsPacked(f) /\ ~IsSRGB(f)

ExactClass(op, fs, fm, fd, mode) ==
    op \in PDOps /\ NarrowFmt(fs) /\ NarrowFmt(fd) /\ (mode = "none" \/ NarrowFmt(fm))
NarrowPipeline(op, fs, fm, fd, mode) ==
    ~NeedsDivision(op) /\ NarrowFmt(fs) /\ NarrowFmt(fd) /\ (mode = "none" \/ NarrowFmt(fm))
InDomain(op, fs, fm, fd, mode) ==
    /\ op \in AllOps /\ InDomainFmt(fs) /\ InDomainFmt(fd) /\ (mode = "none" \/ InDomainFmt(fm))
    /\ ~(op \in HSLOps /\ mode = "ca")

(* colour <= alpha, as exact rationals *)
LeqCV(x, a) ==            \* x.n / max(x.b) <= a.n / max(a.b); absent colour = 0, absent alpha = 1
    x.k = "none" \/ a.k = "none" \/ (IF x.b = a.b THEN x.n <= a.n ELSE x.n * MaxOf(a.b) <= a.n * MaxOf(x.b))
Premult(px) == LeqCV(px["r"], px["a"]) /\ LeqCV(px["g"], px["a"]) /\ LeqCV(px["b"], px["a"])

(* exact class: the destination channel is the truncation of the 8-bit result *)
ExactOK(op, mode, s8, m8, d8, fd, rpx) ==
    \A c \in Chan : CBits(fd, c) > 0 => rpx[c].n = Truncate(PD8(op, s8, m8, d8, mode, c), 8, CBits(fd, c))

(* tolerance class, wide reference: within k steps of the destination format *)
WideChanOK(op, S, SA, D, c, v, k) == InBandUnorm(v.n, MaxOf(v.b), IvClamp01(RChannel(op, S, SA, D, c)), k)
WideOK3(op, S, SA, D, fd, rpx) == \A c \in Chan : CBits(fd, c) > 0 => WideChanOK(op, S, SA, D, c, rpx[c], 1)
WideOK2(op, mode, s, m, D, fd, rpx) == WideOK3(op, RSrcIn(s, m, mode), RSrcAlpha(s, m, mode), D, fd, rpx)
WideOK(op, mode, spx, mpx, dpx, fd, rpx) == WideOK2(op, mode, RealPixel(spx), RealPixel(mpx), RealPixel(dpx), fd, rpx)

(* tolerance class, narrow reference (integer blend modes): 8-bit band, then truncation *)
Lo8(iv, k) == IMax(0, -(((k * ONE - iv[1] * 255)) \div ONE))                  \* ceil (lo * 255 - k)
Hi8(iv, k) == IMin(255, (iv[2] * 255 + k * ONE) \div ONE)                     \* floor (hi * 255 + k)
NarrowChanOK2(iv, v, k) == /\ Truncate(Lo8(iv, k), 8, v.b) <= v.n
                           /\ v.n <= Truncate(Hi8(iv, k), 8, v.b)
NarrowChanOK(op, S, SA, D, c, v, k) == NarrowChanOK2(IvClamp01(RChannel(op, S, SA, D, c)), v, k)
NarrowOK3(op, S, SA, D, fd, rpx) ==
    \A c \in Chan : CBits(fd, c) > 0 => NarrowChanOK(op, S, SA, D, c, rpx[c], IF op = 48 THEN 2 ELSE 1)
SrcIn8Rec(s8, m8, mode) == [a |-> SrcIn8(s8, m8, mode, "a"), r |-> SrcIn8(s8, m8, mode, "r"),
                            g |-> SrcIn8(s8, m8, mode, "g"), b |-> SrcIn8(s8, m8, mode, "b")]
SrcAlpha8Rec(s8, m8, mode) == [a |-> SrcAlpha8(s8, m8, mode, "a"), r |-> SrcAlpha8(s8, m8, mode, "r"),
                               g |-> SrcAlpha8(s8, m8, mode, "g"), b |-> SrcAlpha8(s8, m8, mode, "b")]
NarrowOK(op, mode, s8, m8, d8, fd, rpx) ==
    NarrowOK3(op, Real8(SrcIn8Rec(s8, m8, mode)), Real8(SrcAlpha8Rec(s8, m8, mode)), Real8(d8), fd, rpx)

(* Operators of the tolerance class whose factors degenerate: with an opaque source or        *)
(* destination (or always, for DISJOINT / CONJOINT _CLEAR, _SRC, _DST) the factors of SATURATE  *)
(* and of the disjoint / conjoint operators are literally those of a plain Porter-Duff         *)
(* operator (SATURATE with sa = 1 is OVER_REVERSE, DISJOINT_OVER with sa = 1 is SRC ...).  The   *)
(* equation then being that operator's, its exact evaluation (statement: "exact for the        *)
(* Porter-Duff operators") is accepted as well when all formats are narrow.  EquivKind8 names  *)
(* the plain factor a division factor equals for 8-bit alphas sa, da, or "frac".               *)
EquivKind8(kind, sa, da) ==
    CASE kind \in {"0", "1"} -> kind
      [] kind = "sa/da"    -> IF da = 0 \/ sa >= da THEN "1" ELSE IF sa = 0 THEN "0" ELSE IF da = 255 THEN "sa" ELSE "frac"
      [] kind = "da/sa"    -> IF sa = 0 \/ da >= sa THEN "1" ELSE IF da = 0 THEN "0" ELSE IF sa = 255 THEN "da" ELSE "frac"
      [] kind = "isa/da"   -> IF da = 0 \/ 255 - sa >= da THEN "1" ELSE IF sa = 255 THEN "0" ELSE IF da = 255 THEN "isa" ELSE "frac"
      [] kind = "ida/sa"   -> IF sa = 0 \/ 255 - da >= sa THEN "1" ELSE IF da = 255 THEN "0" ELSE IF sa = 255 THEN "ida" ELSE "frac"
      [] kind = "1-sa/da"  -> IF da = 0 \/ sa >= da THEN "0" ELSE IF sa = 0 THEN "1" ELSE IF da = 255 THEN "isa" ELSE "frac"
      [] kind = "1-da/sa"  -> IF sa = 0 \/ da >= sa THEN "0" ELSE IF da = 0 THEN "1" ELSE IF sa = 255 THEN "ida" ELSE "frac"
      [] kind = "1-ida/sa" -> IF sa = 0 \/ 255 - da >= sa THEN "0" ELSE IF da = 255 THEN "1" ELSE IF sa = 255 THEN "da" ELSE "frac"
      [] kind = "1-isa/da" -> IF da = 0 \/ 255 - sa >= da THEN "0" ELSE IF sa = 255 THEN "1" ELSE IF da = 255 THEN "sa" ELSE "frac"

ReducedChanOK3(ka, kb, sc, sac, dc, da, v) ==
    /\ ka # "frac" /\ kb # "frac"
    /\ LET r == MulUn8(sc, Fac8(ka, sac, da)) + MulUn8(dc, Fac8(kb, sac, da)) IN
       v.n = Truncate(IF r > 255 THEN 255 ELSE r, 8, v.b)
ReducedChanOK(op, sc, sac, dc, da, v) ==
    ReducedChanOK3(EquivKind8(PDKinds(op)[1], sac, da), EquivKind8(PDKinds(op)[2], sac, da), sc, sac, dc, da, v)
ReducedOK(op, mode, s8, m8, d8, fd, rpx) ==
    \A c \in Chan : CBits(fd, c) > 0 =>
       ReducedChanOK(op, SrcIn8(s8, m8, mode, c), SrcAlpha8(s8, m8, mode, c), Ch(d8, c), d8.a, rpx[c])
DivisionFamily(op) == op = OpSATURATE \/ op \in DisjointOps \/ op \in ConjointOps
AllNarrow(fs, fm, fd, mode) == NarrowFmt(fs) /\ NarrowFmt(fd) /\ (mode = "none" \/ NarrowFmt(fm))

(* the whole judgement for one pixel: spx, mpx, dpx the inputs, rpx the result (channel value records) *)
PixelOK(op, mode, fs, fm, fd, spx, mpx, dpx, rpx) ==
    IF ExactClass(op, fs, fm, fd, mode)
    THEN ExactOK(op, mode, Pixel8(spx), Pixel8(mpx), Pixel8(dpx), fd, rpx)
    ELSE IF ~(Premult(spx) /\ Premult(dpx)) THEN TRUE                         \* not judged
    ELSE IF NarrowPipeline(op, fs, fm, fd, mode) /\ op \in NarrowBlendOps
         THEN \/ NarrowOK(op, mode, Pixel8(spx), Pixel8(mpx), Pixel8(dpx), fd, rpx)
              \/ WideOK(op, mode, spx, mpx, dpx, fd, rpx)
         ELSE IF DivisionFamily(op) /\ AllNarrow(fs, fm, fd, mode)
         THEN \/ WideOK(op, mode, spx, mpx, dpx, fd, rpx)
              \/ ReducedOK(op, mode, Pixel8(spx), Pixel8(mpx), Pixel8(dpx), fd, rpx)
         ELSE WideOK(op, mode, spx, mpx, dpx, fd, rpx)

Judged(op, mode, fs, fm, fd, spx, dpx) == ExactClass(op, fs, fm, fd, mode) \/ (Premult(spx) /\ Premult(dpx))

(* the reference store for the exact class (deterministic): used by the design-level model *)
Composite1Exact(op, mode, s8, m8, d8) == Exact8(op, s8, m8, d8, mode)
=============================================================================
