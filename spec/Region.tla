------------------------------- MODULE Region -------------------------------
(***************************************************************************)
(* pixman regions as sets of integer points (properties C05, C06, C07).    *)
(*                                                                         *)
(* A region VALUE is a finite sequence of rectangles <<x1, y1, x2, y2>>    *)
(* (half open: x1 <= x < x2, y1 <= y < y2) in the canonical y-x banded     *)
(* form, or the designated Broken value.  The canonical form is            *)
(* *constructed* from any rectangle list by coordinate compression         *)
(* (Canon), so that arbitrary 16/32-bit coordinates are handled without    *)
(* enumerating points; the structural description of the statement of C06  *)
(* (IsCanonStruct) is a separate predicate and model checking shows the    *)
(* two coincide (mc/RegionMC.tla).                                         *)
(*                                                                         *)
(* The state is a pool of region variables, reg : Var -> value, because    *)
(* the API is destructive and the result object may alias operands: every  *)
(* action names its destination and operand *variables*.                   *)
(***************************************************************************)
EXTENDS Integers, Sequences, FiniteSets, SequencesExt, TLC

Lo(a, b) == IF a < b THEN a ELSE b
Hi(a, b) == IF a > b THEN a ELSE b

RMin(w) == IF w = 16 THEN -32768 ELSE -2147483647 - 1
RMax(w) == IF w = 16 THEN 32767 ELSE 2147483647

Good(r) == r[1] < r[3] /\ r[2] < r[4]          \* GOOD_RECT: non-empty
Bad(r)  == r[1] > r[3] \/ r[2] > r[4]          \* BAD_RECT: inverted

-----------------------------------------------------------------------------
(* Span algebra: a span list is a sequence of <<x1, x2>>, sorted, disjoint,  *)
(* non-touching.                                                             *)

RECURSIVE MergeSpans(_, _)
MergeSpans(s, acc) ==
    IF s = <<>> THEN acc
    ELSE LET h == Head(s)  n == Len(acc) IN
         IF n > 0 /\ h[1] <= acc[n][2]
         THEN MergeSpans(Tail(s), [acc EXCEPT ![n] = <<acc[n][1], Hi(acc[n][2], h[2])>>])
         ELSE MergeSpans(Tail(s), Append(acc, h))

SpanLess(a, b) == a[1] < b[1] \/ (a[1] = b[1] /\ a[2] < b[2])

(* merged spans of the rectangles of R that cover the band [ya, yb) *)
SpansOf(R, ya, yb) ==
    MergeSpans(SetToSortSeq({<<R[i][1], R[i][3]>> :
                                i \in {j \in DOMAIN R : Good(R[j]) /\ R[j][2] <= ya /\ yb <= R[j][4]}},
                            SpanLess), <<>>)

SIn(S, x) == \E i \in DOMAIN S : S[i][1] <= x /\ x < S[i][2]

SOp(op, A, B) ==
    LET ends  == {A[i][1] : i \in DOMAIN A} \cup {A[i][2] : i \in DOMAIN A} \cup
                 {B[i][1] : i \in DOMAIN B} \cup {B[i][2] : i \in DOMAIN B}
        xs    == SetToSortSeq(ends, <)
        elems == IF Len(xs) < 2 THEN <<>> ELSE [k \in 1..(Len(xs) - 1) |-> <<xs[k], xs[k + 1]>>]
        keep(e) == LET a == SIn(A, e[1])  b == SIn(B, e[1]) IN
                   CASE op = "union"     -> a \/ b
                     [] op = "intersect" -> a /\ b
                     [] op = "subtract"  -> a /\ ~b
    IN  MergeSpans(SelectSeq(elems, keep), <<>>)

-----------------------------------------------------------------------------
(* Band sweep: the canonical list of  A op B  for rectangle lists A and B.   *)

RECURSIVE Coalesce(_, _)
Coalesce(bs, acc) ==
    IF bs = <<>> THEN acc
    ELSE LET h == Head(bs)  n == Len(acc) IN
         IF n > 0 /\ acc[n][2] = h[1] /\ acc[n][3] = h[3]
         THEN Coalesce(Tail(bs), [acc EXCEPT ![n] = <<acc[n][1], h[2], h[3]>>])
         ELSE Coalesce(Tail(bs), Append(acc, h))

EmitBands(bands) ==
    FlattenSeq([k \in DOMAIN bands |->
                  [j \in DOMAIN bands[k][3] |->
                     <<bands[k][3][j][1], bands[k][1], bands[k][3][j][2], bands[k][2]>>]])

YEnds(R) == {R[i][2] : i \in {j \in DOMAIN R : Good(R[j])}} \cup
            {R[i][4] : i \in {j \in DOMAIN R : Good(R[j])}}

BandOp(op, A, B) ==
    LET ys    == SetToSortSeq(YEnds(A) \cup YEnds(B), <)
        raw   == IF Len(ys) < 2 THEN <<>>
                 ELSE [k \in 1..(Len(ys) - 1) |->
                         <<ys[k], ys[k + 1],
                           SOp(op, SpansOf(A, ys[k], ys[k + 1]), SpansOf(B, ys[k], ys[k + 1]))>>]
        bands == SelectSeq(raw, LAMBDA b : b[3] # <<>>)
    IN  EmitBands(Coalesce(bands, <<>>))

Canon(R) == BandOp("union", R, <<>>)

(* the same sweep without vertical coalescing: used only by negative model configurations *)
BandOpNoCoalesce(op, A, B) ==
    LET ys    == SetToSortSeq(YEnds(A) \cup YEnds(B), <)
        raw   == IF Len(ys) < 2 THEN <<>>
                 ELSE [k \in 1..(Len(ys) - 1) |->
                         <<ys[k], ys[k + 1],
                           SOp(op, SpansOf(A, ys[k], ys[k + 1]), SpansOf(B, ys[k], ys[k + 1]))>>]
    IN  EmitBands(SelectSeq(raw, LAMBDA b : b[3] # <<>>))

IsCanonical(L) == Canon(L) = L

(* The structural description in the statement of C06. *)
BandSpans(L, y1) == LET b == SelectSeq(L, LAMBDA r : r[2] = y1) IN
                    [k \in DOMAIN b |-> <<b[k][1], b[k][3]>>]

IsCanonStruct(L) ==
    /\ \A i \in DOMAIN L : Good(L[i])
    /\ \A i \in 1..(Len(L) - 1) :
          \/ /\ L[i][2] = L[i + 1][2] /\ L[i][4] = L[i + 1][4]     \* same band: a gap between them
             /\ L[i][3] < L[i + 1][1]
          \/ /\ L[i][4] <= L[i + 1][2]                             \* next band starts at or below
    \* vertically adjacent bands with identical spans are merged
    /\ \A i \in 1..(Len(L) - 1) :
          (L[i][2] # L[i + 1][2] /\ L[i][4] = L[i + 1][2]) =>
              BandSpans(L, L[i][2]) # BandSpans(L, L[i + 1][2])

(* extents = tight bounding box; an empty region has a zero-area box *)
Extents(L) ==
    LET xs1 == {L[i][1] : i \in DOMAIN L}  xs2 == {L[i][3] : i \in DOMAIN L} IN
    <<CHOOSE m \in xs1 : \A o \in xs1 : m <= o, L[1][2],
      CHOOSE m \in xs2 : \A o \in xs2 : m >= o, L[Len(L)][4]>>

ExtentsOK(L, ext) ==
    IF L = <<>> THEN ext[1] = ext[3] /\ ext[2] = ext[4] ELSE ext = Extents(L)

-----------------------------------------------------------------------------
(* Point-set semantics used by the queries (no enumeration of points).       *)

PointIn(L, x, y) == \E i \in DOMAIN L : L[i][1] <= x /\ x < L[i][3] /\ L[i][2] <= y /\ y < L[i][4]

MemberBox(L, x, y) == L[CHOOSE i \in DOMAIN L : L[i][1] <= x /\ x < L[i][3] /\ L[i][2] <= y /\ y < L[i][4]]

(* IN / OUT / PART for a non-empty rectangle q *)
RectClass(L, q) ==
    LET inter == BandOp("intersect", L, <<q>>) IN
    IF inter = <<>> THEN "OUT" ELSE IF inter = <<q>> THEN "IN" ELSE "PART"

(* overflow-free clamped addition of a coordinate: the part that leaves [mn, mx] is discarded *)
ClampAdd(c, d, mn, mx) ==
    IF d >= 0 THEN (IF c >= mx - d THEN mx ELSE c + d)
              ELSE (IF c <= mn - d THEN mn ELSE c + d)

TranslateList(L, dx, dy, w) ==
    Canon([i \in DOMAIN L |-> <<ClampAdd(L[i][1], dx, RMin(w), RMax(w)), ClampAdd(L[i][2], dy, RMin(w), RMax(w)),
                                ClampAdd(L[i][3], dx, RMin(w), RMax(w)), ClampAdd(L[i][4], dy, RMin(w), RMax(w))>>])

(* a1 bitmap: rows is a sequence of sequences of 0/1 *)
RECURSIVE RunsOf(_, _, _, _)
RunsOf(row, x, y, acc) ==
    IF x > Len(row) THEN acc
    ELSE IF row[x] = 0 THEN RunsOf(row, x + 1, y, acc)
    ELSE LET n == Len(acc) IN
         IF n > 0 /\ acc[n][3] = x - 1 /\ acc[n][2] = y
         THEN RunsOf(row, x + 1, y, [acc EXCEPT ![n] = <<acc[n][1], y, x, y + 1>>])
         ELSE RunsOf(row, x + 1, y, Append(acc, <<x - 1, y, x, y + 1>>))

BitmapList(rows) == Canon(FlattenSeq([y \in DOMAIN rows |-> RunsOf(rows[y], 1, y - 1, <<>>)]))

-----------------------------------------------------------------------------
(* The state machine.  A value is [b |-> broken?, r |-> canonical list].     *)

Empty  == [b |-> FALSE, r |-> <<>>]
Broken == [b |-> TRUE,  r |-> <<>>]
Val(L) == [b |-> FALSE, r |-> L]

VARIABLE reg            \* Var -> value

(* Binary operations.  outcome = "ok": set algebra; "nomem": an allocation   *)
(* failed inside the call (C15): the result is the designated broken region. *)
(* A broken operand makes the result broken (it propagates).                 *)
BinResult(op, A, B) ==
    IF A.b \/ B.b THEN Broken ELSE Val(BandOp(op, A.r, B.r))

RgUnion(d, a, b)     == reg' = [reg EXCEPT ![d] = BinResult("union", reg[a], reg[b])]
RgIntersect(d, a, b) == reg' = [reg EXCEPT ![d] = BinResult("intersect", reg[a], reg[b])]
RgSubtract(d, a, b)  == reg' = [reg EXCEPT ![d] = BinResult("subtract", reg[a], reg[b])]
RgInverse(d, a, box) == reg' = [reg EXCEPT ![d] = BinResult("subtract", Val(Canon(<<box>>)), reg[a])]
RgUnionRect(d, a, box)     == reg' = [reg EXCEPT ![d] = BinResult("union", reg[a], Val(Canon(<<box>>)))]
RgIntersectRect(d, a, box) == reg' = [reg EXCEPT ![d] = BinResult("intersect", reg[a], Val(Canon(<<box>>)))]
RgCopy(d, a)         == reg' = [reg EXCEPT ![d] = reg[a]]
RgReset(d, box)      == Good(box) /\ reg' = [reg EXCEPT ![d] = Val(<<box>>)]
RgClear(d)           == reg' = [reg EXCEPT ![d] = Empty]
RgInitRects(d, boxes) == reg' = [reg EXCEPT ![d] = Val(Canon(boxes))]
RgTranslate(d, dx, dy, w) ==
    reg' = [reg EXCEPT ![d] = IF reg[d].b THEN Broken ELSE Val(TranslateList(reg[d].r, dx, dy, w))]
RgInitFromImage(d, rows) == reg' = [reg EXCEPT ![d] = Val(BitmapList(rows))]
RgBreak(d)           == reg' = [reg EXCEPT ![d] = Broken]

=============================================================================
