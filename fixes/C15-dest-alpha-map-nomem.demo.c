/* demo for fixes/C15-dest-alpha-map-nomem.patch: destination with an alpha map, the first malloc inside
 * pixman_image_composite32 is refused.
 * build: gcc -O1 demo.c -I pixman -I _b/pixman _b/pixman/libpixman-1.so -Wl,-rpath,$PWD/_b/pixman
 * unfixed: "WRONG" (exit 1); fixed: "complete" (exit 0; the call no longer allocates). */
#include <stdio.h>
#include <stdlib.h>
#include <stdint.h>
#include "pixman.h"

extern void *__libc_malloc (size_t);
static int armed;
void *malloc (size_t n) { if (armed) { armed = 0; return NULL; } return __libc_malloc (n); }

static void draw (uint32_t *dst, uint8_t *am, int fail)
{
    pixman_color_t c = { 0x4000, 0x2000, 0x1000, 0x8000 };
    pixman_image_t *d = pixman_image_create_bits (PIXMAN_a8r8g8b8, 8, 1, dst, 32);
    pixman_image_t *a = pixman_image_create_bits (PIXMAN_a8, 8, 1, (uint32_t *)am, 8);
    pixman_image_t *s = pixman_image_create_solid_fill (&c);
    pixman_image_set_alpha_map (d, a, 0, 0);
    armed = fail;
    pixman_image_composite32 (PIXMAN_OP_OVER, s, NULL, d, 0, 0, 0, 0, 0, 0, 8, 1);
    armed = 0;
    pixman_image_unref (s); pixman_image_unref (a); pixman_image_unref (d);
}

int main (void)
{
    uint32_t dst[8], ref[8];
    uint8_t am[8], ramap[8];
    int i, same = 1, untouched = 1;
    for (i = 0; i < 8; i++) { dst[i] = ref[i] = 0xff808080; am[i] = ramap[i] = 0x40; }
    draw (ref, ramap, 0);
    draw (dst, am, 1);
    for (i = 0; i < 8; i++)
    {
	same &= dst[i] == ref[i] && am[i] == ramap[i];
	untouched &= dst[i] == 0xff808080 && am[i] == 0x40;
    }
    printf ("%s (pixel %08x map %02x; complete: pixel %08x map %02x)\n", same ? "complete" : untouched ? "skipped" : "WRONG",
	    dst[0], am[0], ref[0], ramap[0]);
    return !(same || untouched);
}
