#include <stdio.h>
#include <pixman.h>
int main(void)
{
    uint32_t src[4] = { 0xfdff0000, 0xfdff0000, 0xfdff0000, 0xfdff0000 };   /* alpha fd, red ff (not premultiplied) */
    uint8_t  mask[4] = { 0xff, 0xff, 0xff, 0xff };
    uint32_t dst[2] = { 0xff000000, 0xff000000 };
    pixman_image_t *s = pixman_image_create_bits (PIXMAN_a8r8g8b8, 4, 1, src, 16);
    pixman_image_t *m = pixman_image_create_bits (PIXMAN_a8, 4, 1, (uint32_t *)mask, 4);
    pixman_image_t *d = pixman_image_create_bits (PIXMAN_a8r8g8b8, 2, 1, dst, 8);
    pixman_transform_t t;
    pixman_transform_init_scale (&t, pixman_double_to_fixed (1.5), pixman_fixed_1);
    pixman_image_set_transform (s, &t);
    pixman_image_set_filter (s, PIXMAN_FILTER_BILINEAR, NULL, 0);
    pixman_image_set_repeat (s, PIXMAN_REPEAT_PAD);
    pixman_image_composite32 (PIXMAN_OP_OVER, s, m, d, 0, 0, 0, 0, 0, 0, 2, 1);
    printf ("%08x %08x\n", dst[0], dst[1]);
    return 0;
}
