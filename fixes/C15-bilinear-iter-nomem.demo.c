/* demo for fixes/C15-bilinear-iter-nomem.patch: the first malloc inside pixman_image_composite32 is refused.
 * build: gcc -O1 demo.c -I pixman -I _b/pixman _b/pixman/libpixman-1.so -Wl,-rpath,$PWD/_b/pixman
 * unfixed: "ERASED" (exit 1); fixed: "complete" (exit 0). */
#include <stdio.h>
#include <stdlib.h>
#include <string.h>
#include <stdint.h>
#include "pixman.h"

extern void *__libc_malloc (size_t);
static int armed;
void *malloc (size_t n) { if (armed) { armed = 0; return NULL; } return __libc_malloc (n); }

#define W 200
static uint32_t src[W * 3], dst[W * 2], ref[W * 2];
static uint8_t msk[W * 2];

static void draw (uint32_t *bits, int fail)
{
    pixman_image_t *s = pixman_image_create_bits (PIXMAN_a8r8g8b8, W, 3, src, W * 4);
    pixman_image_t *m = pixman_image_create_bits (PIXMAN_a8, W, 2, (uint32_t *)msk, W);
    pixman_image_t *d = pixman_image_create_bits (PIXMAN_a8r8g8b8, W, 2, bits, W * 4);
    pixman_transform_t t;
    pixman_transform_init_scale (&t, pixman_fixed_1 / 2, pixman_fixed_1 / 2);
    t.matrix[0][2] = t.matrix[1][2] = pixman_fixed_1;
    pixman_image_set_transform (s, &t);
    pixman_image_set_filter (s, PIXMAN_FILTER_BILINEAR, NULL, 0);
    armed = fail;
    pixman_image_composite32 (PIXMAN_OP_IN_REVERSE, s, m, d, 0, 0, 0, 0, 0, 0, W, 2);
    armed = 0;
    pixman_image_unref (s); pixman_image_unref (m); pixman_image_unref (d);
}

int main (void)
{
    int i, same = 1, untouched = 1, zero = 1;
    for (i = 0; i < W * 3; i++) src[i] = 0x90000000u | (i * 2654435761u >> 8);
    for (i = 0; i < W * 2; i++) { msk[i] = 40 + i % 200; dst[i] = ref[i] = 0xff304050; }
    draw (ref, 0);      /* also builds the implementation chain */
    draw (dst, 1);
    for (i = 0; i < W * 2; i++)
    {
	same &= dst[i] == ref[i]; untouched &= dst[i] == 0xff304050; zero &= dst[i] == 0;
    }
    printf ("%s (dst[0] = %08x, complete = %08x)\n", same ? "complete" : untouched ? "skipped" : zero ? "ERASED" : "wrong", dst[0], ref[0]);
    return !(same || untouched);
}
