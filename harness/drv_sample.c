/* Conformance driver for transformed sampling (C08): executes a script of image-configuration and
 * composite calls on the real library and logs what the public API shows.  It never judges.
 *
 * Script (blank separated tokens):
 *   R name                          new execution
 *   I fmt w h v[w*h]                source bits image (raw pixel values, row major); pixman defaults apply
 *                                   (no transform, NEAREST, REPEAT_NONE)
 *   T m00 .. m22                    pixman_image_set_transform (9 raw 16.16 words)
 *   F name n p[n]                   pixman_image_set_filter (nearest|bilinear|convolution|separable, raw params)
 *   S rx ry sx sy scx scy bx by     separable filter made by pixman_filter_create_separable_convolution
 *                                   (kernels by number, scales raw 16.16, subsample bits), then set_filter
 *   P none|normal|pad|reflect       pixman_image_set_repeat
 *   C role x0 y0 n rows dx          OP_SRC composite of an n x rows rectangle into an a8r8g8b8 destination at
 *                                   column dx; role src: the image is the source at (x0,y0); role mask: the
 *                                   source is solid white and the image is a component-alpha mask at (x0,y0)
 *   W mode role x0 y0 n rows        the same request evaluated by the wide (floating point) pipeline:
 *                                   mode op    PIXMAN_OP_DISJOINT_OVER onto a cleared a8r8g8b8 destination (= source)
 *                                   mode float PIXMAN_OP_SRC onto an rgba_float destination
 *                                   mode a2r10 PIXMAN_OP_SRC onto an a2r10g10b10 destination
 *                                   logged per pixel as channel numerators a,r,g,b over the denominators `max`
 *                                   (float: lround (f * 16320) over 16320)
 *   Z role op dfmt mask x0 y0 n rows dx k (i0 j0 wn hn)[k]
 *                                   a request that may lie far from the origin / be tens of thousands of pixels
 *                                   wide or tall: composite of an n x rows rectangle with op src|over into a
 *                                   destination of format dfmt (a8r8g8b8|x8r8g8b8|r5g6b5; filled with 0 for over,
 *                                   with a pattern for src) at column dx; role src: image at (x0,y0), mask none |
 *                                   solid (white solid fill) | a8 (an a8 image of 0xff); role mask: solid white
 *                                   source, the image as component-alpha mask.  Only the k windows (offsets within
 *                                   the request) of the destination are logged.
 * The implementation chain is chosen by the environment (PIXMAN_DISABLE), one process per chain.
 */
#include "vcommon.h"
#include <pixman.h>
#include <math.h>

#define MAXPIX 70000
#define MAXWIN 16
#define MAXPAR 4096

static pixman_image_t *img;
static uint32_t *img_bits;
static int img_w, img_h;

static const struct { const char *name; pixman_format_code_t code; int bpp; } formats[] = {
    { "a8r8g8b8", PIXMAN_a8r8g8b8, 32 },
    { "x8r8g8b8", PIXMAN_x8r8g8b8, 32 },
    { "r5g6b5", PIXMAN_r5g6b5, 16 },
    { "a8", PIXMAN_a8, 8 },
};

static void
drop_image (void)
{
    if (img)
	pixman_image_unref (img);
    free (img_bits);
    img = NULL;
    img_bits = NULL;
}

static void
log_fixed_list (const char *k, const pixman_fixed_t *p, int n)
{
    int i;
    fprintf (vt_out, ",\"%s\":[", k);
    for (i = 0; i < n; i++)
	fprintf (vt_out, i ? ",[%u,%u]" : "[%u,%u]", ((uint32_t)p[i]) >> 16, ((uint32_t)p[i]) & 0xffff);
    fputc (']', vt_out);
}

int
main (int argc, char **argv)
{
    FILE *in;
    char kind[8], name[128];
    static long long vals[MAXPIX];
    static pixman_fixed_t params[MAXPAR];
    if (argc < 3)
    {
	fprintf (stderr, "usage: drv_sample script trace\n");
	return 3;
    }
    in = fopen (argv[1], "r");
    if (!in) { perror (argv[1]); return 3; }
    vt_open (argv[2]);
    while (fscanf (in, "%7s", kind) == 1)
    {
	if (kind[0] == 'R')
	{
	    if (fscanf (in, "%127s", name) != 1) return 3;
	    drop_image ();
	    vt_reset (name);
	}
	else if (kind[0] == 'I')
	{
	    int w, h, i, f = -1, x, y, stride;
	    if (fscanf (in, "%127s %d %d", name, &w, &h) != 3) return 3;
	    if (w < 1 || h < 1 || w * h > MAXPIX) return 3;
	    for (i = 0; i < (int)(sizeof formats / sizeof formats[0]); i++)
		if (!strcmp (formats[i].name, name))
		    f = i;
	    if (f < 0) return 3;
	    for (i = 0; i < w * h; i++)
		if (fscanf (in, "%lld", &vals[i]) != 1) return 3;
	    drop_image ();
	    stride = ((w * formats[f].bpp / 8) + 3) & ~3;
	    img_bits = calloc (h, stride);
	    for (y = 0; y < h; y++)
		for (x = 0; x < w; x++)
		{
		    uint8_t *row = (uint8_t *)img_bits + y * stride;
		    uint32_t v = (uint32_t)vals[y * w + x];
		    if (formats[f].bpp == 32) ((uint32_t *)row)[x] = v;
		    else if (formats[f].bpp == 16) ((uint16_t *)row)[x] = (uint16_t)v;
		    else row[x] = (uint8_t)v;
		}
	    img = pixman_image_create_bits (formats[f].code, w, h, img_bits, stride);
	    if (!img) return 3;
	    img_w = w; img_h = h;
	    vt_begin ("Image");
	    vt_str ("fmt", name); vt_int ("w", w); vt_int ("h", h);
	    fputs (",\"pix\":[", vt_out);
	    for (y = 0; y < h; y++)
	    {
		fputs (y ? ",[" : "[", vt_out);
		for (x = 0; x < w; x++)
		{
		    uint8_t *row = (uint8_t *)img_bits + y * stride;
		    uint32_t v;
		    if (formats[f].bpp == 32) v = ((uint32_t *)row)[x];
		    else if (formats[f].bpp == 16) v = ((uint16_t *)row)[x];
		    else v = row[x];
		    fprintf (vt_out, x ? ",[%u,%u]" : "[%u,%u]", v >> 16, v & 0xffff);
		}
		fputs ("]", vt_out);
	    }
	    fputs ("]", vt_out);
	    vt_end ();
	}
	else if (kind[0] == 'T')
	{
	    pixman_transform_t t;
	    int i, ret;
	    for (i = 0; i < 9; i++)
	    {
		long long v;
		if (fscanf (in, "%lld", &v) != 1) return 3;
		t.matrix[i / 3][i % 3] = (pixman_fixed_t)v;
	    }
	    if (!img) return 3;
	    ret = pixman_image_set_transform (img, &t);
	    vt_begin ("Transform");
	    log_fixed_list ("m", &t.matrix[0][0], 9);
	    vt_bool ("ret", ret);
	    vt_end ();
	}
	else if (kind[0] == 'F')
	{
	    int n, i, ret;
	    pixman_filter_t f;
	    if (fscanf (in, "%127s %d", name, &n) != 2) return 3;
	    if (n < 0 || n > MAXPAR) return 3;
	    for (i = 0; i < n; i++)
	    {
		long long v;
		if (fscanf (in, "%lld", &v) != 1) return 3;
		params[i] = (pixman_fixed_t)v;
	    }
	    if (!strcmp (name, "nearest")) f = PIXMAN_FILTER_NEAREST;
	    else if (!strcmp (name, "bilinear")) f = PIXMAN_FILTER_BILINEAR;
	    else if (!strcmp (name, "convolution")) f = PIXMAN_FILTER_CONVOLUTION;
	    else if (!strcmp (name, "separable")) f = PIXMAN_FILTER_SEPARABLE_CONVOLUTION;
	    else return 3;
	    if (!img) return 3;
	    ret = pixman_image_set_filter (img, f, params, n);
	    vt_begin ("Filter");
	    vt_str ("f", name);
	    log_fixed_list ("params", params, n);
	    vt_bool ("ret", ret);
	    vt_end ();
	}
	else if (kind[0] == 'S')
	{
	    int rx, ry, sx, sy, bx, by, n = 0, ret;
	    long long scx, scy;
	    pixman_fixed_t *p;
	    if (fscanf (in, "%d %d %d %d %lld %lld %d %d", &rx, &ry, &sx, &sy, &scx, &scy, &bx, &by) != 8) return 3;
	    if (!img) return 3;
	    p = pixman_filter_create_separable_convolution (&n, (pixman_fixed_t)scx, (pixman_fixed_t)scy,
							    (pixman_kernel_t)rx, (pixman_kernel_t)ry,
							    (pixman_kernel_t)sx, (pixman_kernel_t)sy, bx, by);
	    if (!p) return 3;
	    ret = pixman_image_set_filter (img, PIXMAN_FILTER_SEPARABLE_CONVOLUTION, p, n);
	    vt_begin ("Filter");
	    vt_str ("f", "separable");
	    log_fixed_list ("params", p, n);
	    vt_bool ("ret", ret);
	    vt_end ();
	    free (p);
	}
	else if (kind[0] == 'P')
	{
	    pixman_repeat_t r;
	    if (fscanf (in, "%127s", name) != 1) return 3;
	    if (!strcmp (name, "none")) r = PIXMAN_REPEAT_NONE;
	    else if (!strcmp (name, "normal")) r = PIXMAN_REPEAT_NORMAL;
	    else if (!strcmp (name, "pad")) r = PIXMAN_REPEAT_PAD;
	    else if (!strcmp (name, "reflect")) r = PIXMAN_REPEAT_REFLECT;
	    else return 3;
	    if (!img) return 3;
	    pixman_image_set_repeat (img, r);
	    vt_begin ("Repeat");
	    vt_str ("r", name);
	    vt_end ();
	}
	else if (kind[0] == 'C')
	{
	    int x0, y0, n, rows, dx, x, y, dw;
	    uint32_t *dbits;
	    pixman_image_t *dst, *white = NULL;
	    if (fscanf (in, "%127s %d %d %d %d %d", name, &x0, &y0, &n, &rows, &dx) != 6) return 3;
	    if (!img || n < 1 || rows < 1 || n > 512 || rows > 64 || dx < 0 || dx > 16) return 3;
	    dw = dx + n + 3;
	    dbits = malloc (sizeof (uint32_t) * dw * rows);
	    for (x = 0; x < dw * rows; x++)
		dbits[x] = 0x5a3c7e91;
	    dst = pixman_image_create_bits (PIXMAN_a8r8g8b8, dw, rows, dbits, dw * 4);
	    if (!dst) return 3;
	    if (!strcmp (name, "mask"))
	    {
		pixman_color_t c = { 0xffff, 0xffff, 0xffff, 0xffff };
		white = pixman_image_create_solid_fill (&c);
		pixman_image_set_component_alpha (img, 1);
		pixman_image_composite32 (PIXMAN_OP_SRC, white, img, dst, 0, 0, x0, y0, dx, 0, n, rows);
		pixman_image_set_component_alpha (img, 0);
		pixman_image_unref (white);
	    }
	    else
		pixman_image_composite32 (PIXMAN_OP_SRC, img, NULL, dst, x0, y0, 0, 0, dx, 0, n, rows);
	    vt_begin ("Fetch");
	    vt_str ("role", name);
	    vt_int ("x0", x0); vt_int ("y0", y0); vt_int ("n", n); vt_int ("rows", rows); vt_int ("dx", dx);
	    fputs (",\"out\":[", vt_out);
	    for (y = 0; y < rows; y++)
	    {
		fputs (y ? ",[" : "[", vt_out);
		for (x = 0; x < n; x++)
		{
		    uint32_t v = dbits[y * dw + dx + x];
		    fprintf (vt_out, x ? ",[%u,%u]" : "[%u,%u]", v >> 16, v & 0xffff);
		}
		fputs ("]", vt_out);
	    }
	    fputs ("]", vt_out);
	    vt_end ();
	    pixman_image_unref (dst);
	    free (dbits);
	}
	else if (kind[0] == 'Z')
	{
	    char op[16], dfmt[32], mk[16];
	    int x0, y0, n, rows, dx, k, i, x, y, dw, bpp, stride;
	    int win[MAXWIN][4];
	    uint8_t *dbits, *mbits = NULL;
	    uint32_t before;
	    pixman_format_code_t dcode;
	    pixman_op_t pop;
	    pixman_image_t *dst, *white = NULL, *mimg = NULL;
	    pixman_color_t c = { 0xffff, 0xffff, 0xffff, 0xffff };
	    if (fscanf (in, "%127s %15s %31s %15s %d %d %d %d %d %d", name, op, dfmt, mk, &x0, &y0, &n, &rows, &dx, &k) != 10)
		return 3;
	    if (!img || n < 1 || rows < 1 || n > 65536 || rows > 65536 || (long)n * rows > (1L << 22) ||
		dx < 0 || dx > 16 || k < 1 || k > MAXWIN)
		return 3;
	    for (i = 0; i < k; i++)
	    {
		if (fscanf (in, "%d %d %d %d", &win[i][0], &win[i][1], &win[i][2], &win[i][3]) != 4) return 3;
		if (win[i][0] < 0 || win[i][1] < 0 || win[i][2] < 1 || win[i][3] < 1 ||
		    win[i][0] + win[i][2] > n || win[i][1] + win[i][3] > rows)
		    return 3;
	    }
	    if (!strcmp (dfmt, "a8r8g8b8")) { dcode = PIXMAN_a8r8g8b8; bpp = 4; }
	    else if (!strcmp (dfmt, "x8r8g8b8")) { dcode = PIXMAN_x8r8g8b8; bpp = 4; }
	    else if (!strcmp (dfmt, "r5g6b5")) { dcode = PIXMAN_r5g6b5; bpp = 2; }
	    else return 3;
	    if (!strcmp (op, "src")) { pop = PIXMAN_OP_SRC; before = bpp == 4 ? 0x5a3c7e91 : 0x7e91; }
	    else if (!strcmp (op, "over")) { pop = PIXMAN_OP_OVER; before = 0; }
	    else return 3;
	    dw = dx + n + 3;
	    stride = (dw * bpp + 3) & ~3;
	    dbits = malloc ((size_t)stride * rows);
	    if (!dbits) return 3;
	    for (y = 0; y < rows; y++)
		for (x = 0; x < dw; x++)
		{
		    if (bpp == 4) ((uint32_t *)(dbits + (size_t)y * stride))[x] = before;
		    else ((uint16_t *)(dbits + (size_t)y * stride))[x] = (uint16_t)before;
		}
	    dst = pixman_image_create_bits (dcode, dw, rows, (uint32_t *)dbits, stride);
	    if (!dst) return 3;
	    if (!strcmp (name, "mask"))
	    {
		white = pixman_image_create_solid_fill (&c);
		pixman_image_set_component_alpha (img, 1);
		/* the solid image is addressed at the same coordinates as the bits image: the library refuses
		 * requests whose coordinates in the space of *any* of the images leave 16 bits */
		pixman_image_composite32 (pop, white, img, dst, x0, y0, x0, y0, dx, 0, n, rows);
		pixman_image_set_component_alpha (img, 0);
		pixman_image_unref (white);
	    }
	    else
	    {
		int mx = x0, my = y0;
		if (!strcmp (mk, "solid"))
		    mimg = pixman_image_create_solid_fill (&c);
		else if (!strcmp (mk, "a8"))
		{
		    int ms = (dw + 3) & ~3;
		    mbits = malloc ((size_t)ms * rows);
		    if (!mbits) return 3;
		    memset (mbits, 0xff, (size_t)ms * rows);
		    mimg = pixman_image_create_bits (PIXMAN_a8, dw, rows, (uint32_t *)mbits, ms);
		    mx = dx; my = 0;
		}
		else if (strcmp (mk, "none"))
		    return 3;
		pixman_image_composite32 (pop, img, mimg, dst, x0, y0, mx, my, dx, 0, n, rows);
		if (mimg)
		    pixman_image_unref (mimg);
		free (mbits);
	    }
	    vt_begin ("FetchWin");
	    vt_str ("role", name); vt_str ("op", op); vt_str ("dfmt", dfmt); vt_str ("mask", mk);
	    fprintf (vt_out, ",\"before\":[%u,%u]", before >> 16, before & 0xffff);
	    vt_int ("x0", x0); vt_int ("y0", y0); vt_int ("n", n); vt_int ("rows", rows); vt_int ("dx", dx);
	    fputs (",\"wins\":[", vt_out);
	    for (i = 0; i < k; i++)
		fprintf (vt_out, "%s[%d,%d,%d,%d]", i ? "," : "", win[i][0], win[i][1], win[i][2], win[i][3]);
	    fputs ("],\"out\":[", vt_out);
	    for (i = 0; i < k; i++)
	    {
		fputs (i ? ",[" : "[", vt_out);
		for (y = 0; y < win[i][3]; y++)
		{
		    fputs (y ? ",[" : "[", vt_out);
		    for (x = 0; x < win[i][2]; x++)
		    {
			uint8_t *row = dbits + (size_t)(win[i][1] + y) * stride;
			uint32_t v = bpp == 4 ? ((uint32_t *)row)[dx + win[i][0] + x] : ((uint16_t *)row)[dx + win[i][0] + x];
			fprintf (vt_out, x ? ",[%u,%u]" : "[%u,%u]", v >> 16, v & 0xffff);
		    }
		    fputs ("]", vt_out);
		}
		fputs ("]", vt_out);
	    }
	    fputs ("]", vt_out);
	    vt_end ();
	    pixman_image_unref (dst);
	    free (dbits);
	}
	else if (kind[0] == 'W')
	{
	    char mode[32];
	    int x0, y0, n, rows, x, y, i;
	    pixman_image_t *dst, *white = NULL;
	    pixman_format_code_t dfmt;
	    pixman_op_t op;
	    uint32_t *dbits;
	    int words, isf, isop;
	    if (fscanf (in, "%31s %127s %d %d %d %d", mode, name, &x0, &y0, &n, &rows) != 6) return 3;
	    if (!img || n < 1 || rows < 1 || n > 512 || rows > 64) return 3;
	    isf = !strcmp (mode, "float");
	    isop = !strcmp (mode, "op");
	    if (isf) { dfmt = PIXMAN_rgba_float; op = PIXMAN_OP_SRC; words = 4; }
	    else if (isop) { dfmt = PIXMAN_a8r8g8b8; op = PIXMAN_OP_DISJOINT_OVER; words = 1; }
	    else if (!strcmp (mode, "a2r10")) { dfmt = PIXMAN_a2r10g10b10; op = PIXMAN_OP_SRC; words = 1; }
	    else return 3;
	    dbits = malloc (sizeof (uint32_t) * words * n * rows);
	    for (i = 0; i < words * n * rows; i++)
	    {
		if (isf) ((float *)dbits)[i] = 0.123f;
		else dbits[i] = isop ? 0 : 0x5a3c7e91;
	    }
	    dst = pixman_image_create_bits (dfmt, n, rows, dbits, n * words * 4);
	    if (!dst) return 3;
	    if (!strcmp (name, "mask"))
	    {
		pixman_color_t c = { 0xffff, 0xffff, 0xffff, 0xffff };
		white = pixman_image_create_solid_fill (&c);
		pixman_image_set_component_alpha (img, 1);
		pixman_image_composite32 (op, white, img, dst, 0, 0, x0, y0, 0, 0, n, rows);
		pixman_image_set_component_alpha (img, 0);
		pixman_image_unref (white);
	    }
	    else
		pixman_image_composite32 (op, img, NULL, dst, x0, y0, 0, 0, 0, 0, n, rows);
	    vt_begin ("FetchWide");
	    vt_str ("mode", mode); vt_str ("role", name);
	    vt_int ("x0", x0); vt_int ("y0", y0); vt_int ("n", n); vt_int ("rows", rows);
	    if (isf) fputs (",\"max\":[16320,16320,16320,16320]", vt_out);
	    else if (isop) fputs (",\"max\":[255,255,255,255]", vt_out);
	    else fputs (",\"max\":[3,1023,1023,1023]", vt_out);
	    fputs (",\"out\":[", vt_out);
	    for (y = 0; y < rows; y++)
	    {
		fputs (y ? ",[" : "[", vt_out);
		for (x = 0; x < n; x++)
		{
		    long a, r, g, b;
		    if (isf)
		    {
			float *f = (float *)dbits + (y * n + x) * 4;	/* r g b a */
			float v[4];
			int k;
			for (k = 0; k < 4; k++)
			    v[k] = f[k] != f[k] ? -1.f : (f[k] > 1.5f ? 1.5f : (f[k] < -1.f ? -1.f : f[k]));
			r = lroundf (v[0] * 16320.f); g = lroundf (v[1] * 16320.f);
			b = lroundf (v[2] * 16320.f); a = lroundf (v[3] * 16320.f);
		    }
		    else
		    {
			uint32_t w = dbits[y * n + x];
			if (isop) { a = w >> 24; r = (w >> 16) & 255; g = (w >> 8) & 255; b = w & 255; }
			else { a = w >> 30; r = (w >> 20) & 1023; g = (w >> 10) & 1023; b = w & 1023; }
		    }
		    fprintf (vt_out, "%s[%ld,%ld,%ld,%ld]", x ? "," : "", a, r, g, b);
		}
		fputs ("]", vt_out);
	    }
	    fputs ("]", vt_out);
	    vt_end ();
	    pixman_image_unref (dst);
	    free (dbits);
	}
	else
	    return 3;
    }
    drop_image ();
    vt_close ();
    return 0;
}
