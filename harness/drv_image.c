/* Conformance driver for history independence (C14).  One long-lived image L (bits / indexed / gradient /
 * solid), used as source, mask or destination, plus two long-lived alpha-map candidates A and B.  The script
 * (from spec/gen/ImageGen.tla) calls setters on L (or pixman_image_set_accessors on A); at every rendering
 * step the driver
 *    - composites with L,
 *    - builds a FRESHLY CREATED replica of L (and of A, B) from the properties the specification says the
 *      client has asked for (each non-default property set once) and the current pixels, composites with it,
 *    - logs both results (all bytes of the buffers written), and what the validate hook reported for both
 *      (flags, extended format code, was_dirty; the same for the attached alpha map).
 * It never compares anything; spec/trace/ImageTrace.tla does.
 *
 * script:  reset <name>
 *          config <type 0..3> <role 0..2> <fmt> <op> <gk> <variant> <seed> <r0>
 *          set <property index> <v> <r> <16 wanted values>
 *              property pe / px: no library call -- the client's palettes / the pixel buffer of L are rewritten
 *              in place to contents class v (memory the image refers to but does not copy)
 *          (abstract values: spec/Image.tla part 2)
 *          end                                                                                    */
#include "vcommon.h"
#include <config.h>
#include "pixman-private.h"

enum { T_BITS, T_INDEXED, T_GRADIENT, T_SOLID };
enum { R_SRC, R_MASK, R_DST };
enum { P_T, P_F, P_R, P_C, P_SC, P_CC, P_AM, P_AO, P_CA, P_ACC, P_PAL, P_D, P_DOF, P_MA, P_PE, P_PX, NPROP };
static const char *pname[NPROP] = { "t", "f", "r", "c", "sc", "cc", "am", "ao", "ca", "acc", "pal", "d", "dof", "ma", "pe", "px" };
static const char *tname[4] = { "bits", "indexed", "gradient", "solid" };
static const char *rname[3] = { "src", "mask", "dst" };

typedef struct
{
    pixman_image_t *img;
    uint32_t *buf;		/* driver-owned pixels (bits images), or NULL */
    pixman_format_code_t fmt;
    int w, h, stride;
    size_t bytes;
} bimg_t;

static int cfg_type, cfg_role, cfg_fmt, cfg_op, cfg_gk, cfg_variant, cfg_seed;
static bimg_t L, M[5], D, S;	/* M[1..4]: the long-lived alpha-map candidates A, B, C (wide format), D */
static uint8_t *D0;		/* initial contents of D */
static pixman_indexed_t pal[4];		/* [3]: the contents of [1] at another address */
static pixman_indexed_t pal0[4];	/* their initial contents (every entry opaque) */
static uint8_t *L0;			/* initial pixels of L */

/* ---- validate hook ---- */
typedef struct { const void *p; int wd; uint32_t fl, efc; } vrec_t;
static vrec_t vrec[64];
static int nvrec, capture;

static void
sink (const char *event, const void *data)
{
    if (capture && !strcmp (event, "Validate") && nvrec < 64)
    {
	const pixman_verif_validate_t *v = data;
	vrec[nvrec].p = v->image;
	vrec[nvrec].wd = v->was_dirty;
	vrec[nvrec].fl = v->flags;
	vrec[nvrec].efc = v->extended_format_code;
	nvrec++;
    }
}

static const vrec_t *
find_v (const void *p)
{
    static const vrec_t none = { NULL, -1, 0xffffffffu, 0xffffffffu };
    int i;
    for (i = 0; i < nvrec; i++)
	if (vrec[i].p == p)
	    return &vrec[i];
    return &none;
}

/* ---- accessors: memory holds every byte xor 0x5a ---- */
static uint32_t
rd (const void *src, int size)
{
    switch (size)
    {
    case 1: return *(const uint8_t *)src ^ 0x5a;
    case 2: return *(const uint16_t *)src ^ 0x5a5a;
    default: return *(const uint32_t *)src ^ 0x5a5a5a5a;
    }
}

static void
wr (void *dst, uint32_t value, int size)
{
    switch (size)
    {
    case 1: *(uint8_t *)dst = (uint8_t)(value ^ 0x5a); break;
    case 2: *(uint16_t *)dst = (uint16_t)(value ^ 0x5a5a); break;
    default: *(uint32_t *)dst = value ^ 0x5a5a5a5a; break;
    }
}

/* ---- images ---- */
static const pixman_format_code_t bits_fmts[] = {
    PIXMAN_a8r8g8b8, PIXMAN_x8r8g8b8, PIXMAN_r5g6b5, PIXMAN_a8, PIXMAN_a1, PIXMAN_a4r4g4b4, PIXMAN_a2r10g10b10,
    PIXMAN_b8g8r8a8, PIXMAN_a4,
};
#define NFMT ((int)(sizeof bits_fmts / sizeof bits_fmts[0]))
static const pixman_format_code_t idx_fmts[] = { PIXMAN_c8, PIXMAN_c4, PIXMAN_g8, PIXMAN_g1 };
static const pixman_op_t ops[] = { PIXMAN_OP_OVER, PIXMAN_OP_SRC, PIXMAN_OP_ADD, PIXMAN_OP_IN_REVERSE,
				   PIXMAN_OP_DISJOINT_OVER, PIXMAN_OP_OUT_REVERSE, PIXMAN_OP_MULTIPLY };
#define NOP ((int)(sizeof ops / sizeof ops[0]))

static void
make_bits (bimg_t *b, pixman_format_code_t fmt, int w, int h, vrng_t *rng)
{
    size_t i;
    b->fmt = fmt;
    b->w = w;
    b->h = h;
    b->stride = ((w * PIXMAN_FORMAT_BPP (fmt) + 31) / 32) * 4;
    b->bytes = (size_t)b->stride * h;
    b->buf = malloc (b->bytes);
    if (rng && PIXMAN_FORMAT_BPP (fmt) == 128)
    {
	/* float channels: halves, quarters, the neighbours of 0.5 in 8 bits, and arbitrary values */
	static const float fv[8] = { 0.f, 0.5f, 0.25f, 127.f / 255.f, 128.f / 255.f, 1.f, 0.75f, 0.3f };
	for (i = 0; i < b->bytes / 4; i++)
	{
	    uint32_t r = (uint32_t)vrng_next (rng);
	    ((float *)b->buf)[i] = (r & 1) ? fv[(r >> 1) & 7] : (float)((r >> 8) & 0xffff) / 65535.f;
	}
    }
    else if (rng)
    {
	/* half of the bytes are 0x00 / 0x7f / 0x80 / 0xff: values at which 8-bit and float arithmetic round differently */
	static const uint8_t bv[4] = { 0x00, 0x7f, 0x80, 0xff };
	for (i = 0; i < b->bytes; i++)
	{
	    uint32_t r = (uint32_t)vrng_next (rng);
	    ((uint8_t *)b->buf)[i] = (r & 1) ? bv[(r >> 1) & 3] : (uint8_t)(r >> 8);
	}
    }
    b->img = pixman_image_create_bits (fmt, w, h, b->buf, b->stride);
}

static void
clone_bits (bimg_t *dst, const bimg_t *src)
{
    make_bits (dst, src->fmt, src->w, src->h, NULL);
    memcpy (dst->buf, src->buf, src->bytes);
}

static void
drop (bimg_t *b)
{
    if (b->img)
	pixman_image_unref (b->img);
    free (b->buf);
    memset (b, 0, sizeof *b);
}

static pixman_image_t *
make_nonbits (void)
{
    static const pixman_gradient_stop_t stops_a[3] = {
	{ 0x2000, { 0xffff, 0x2000, 0, 0xffff } }, { 0x9000, { 0, 0xc000, 0x4000, 0x8000 } },
	{ 0xe000, { 0x3000, 0, 0xffff, 0xffff } } };
    static const pixman_gradient_stop_t stops_o[2] = {
	{ 0x1000, { 0xffff, 0, 0, 0xffff } }, { 0xf000, { 0, 0, 0xffff, 0xffff } } };
    const pixman_gradient_stop_t *st = (cfg_variant & 2) ? stops_o : stops_a;
    int ns = (cfg_variant & 2) ? 2 : 3;
    pixman_point_fixed_t p1 = { pixman_int_to_fixed (1), pixman_int_to_fixed (1) };
    pixman_point_fixed_t p2 = { pixman_int_to_fixed (5), pixman_int_to_fixed (3) };
    pixman_color_t col = { 0x4000, 0xa000, 0xffff, (uint16_t)((cfg_variant & 2) ? 0xffff : 0x9000) };
    pixman_gradient_stop_t scratch[3];	/* the client's stop array: copied by the library, overwritten after the call */
    pixman_image_t *im;
    if (cfg_type == T_SOLID)
    {
	im = pixman_image_create_solid_fill (&col);
	memset (&col, 0x5b, sizeof col);
	return im;
    }
    memcpy (scratch, st, ns * sizeof scratch[0]);
    switch (cfg_gk % 3)
    {
    case 0: im = pixman_image_create_linear_gradient (&p1, &p2, scratch, ns); break;
    case 1: im = pixman_image_create_radial_gradient (&p1, &p2, pixman_fixed_1 / 2, pixman_int_to_fixed (3), scratch, ns); break;
    default: im = pixman_image_create_conical_gradient (&p2, pixman_int_to_fixed (40), scratch, ns); break;
    }
    memset (scratch, 0x5b, sizeof scratch);
    return im;
}

/* creates the image under test (or a fresh replica of it, pixels copied from `like`) */
static void
make_subject (bimg_t *x, const bimg_t *like, vrng_t *rng)
{
    memset (x, 0, sizeof *x);
    if (cfg_type == T_BITS || cfg_type == T_INDEXED)
    {
	pixman_format_code_t fmt = cfg_type == T_BITS ? bits_fmts[cfg_fmt % NFMT] : idx_fmts[cfg_fmt % 4];
	if (like)
	    clone_bits (x, like);
	else if (cfg_role == R_DST)
	    make_bits (x, fmt, 8, 6, rng);
	else if ((cfg_variant & 0x180) == 0x180)
	    make_bits (x, fmt, 1, 1, rng);	/* a 1x1 image with a repeat is treated as a solid colour */
	else
	    make_bits (x, fmt, 5, 4, rng);
	/* (an indexed image is unusable without a palette: the creation of one includes the first set_indexed,
	 * done by apply_prop from the wanted value, which is never 0 for this type) */
    }
    else
	x->img = make_nonbits ();
}

/* ---- abstract value -> concrete argument (a function of the value and the configuration only) ---- */
static pixman_fixed_t conv_p1[16], conv_p2[16];

/* Abstract values: see spec/Image.tla part 2.  Compound arguments are passed from driver-owned scratch
 * memory that is overwritten right after the call: the library must have copied what it needs. */
static pixman_bool_t
set_transform_v (pixman_image_t *im, int v)
{
    static const pixman_fixed_t base[3][9] = {
	{ 0x10000, 0, 0x10000, 0, 0x10000, 0x8000, 0, 0, 0x10000 },		/* translate (1, 0.5) */
	{ 0x20000, 0, 0, 0, 0x8000, 0, 0, 0, 0x10000 },				/* scale (2, 0.5) */
	{ 0x18000, 0x4000, 0x8000, -0x2000, 0xc000, 0x14000, 0, 0, 0x10000 },	/* general affine */
    };
    static const pixman_fixed_t delta[9] = { 0x4000, 0x4000, 0x8000, 0x4000, 0x4000, 0x8000, 0x0400, 0x0400, 0x4000 };
    pixman_transform_t t;
    pixman_bool_t r;
    int k;
    if (v == 0)
	return pixman_image_set_transform (im, NULL);
    pixman_transform_init_identity (&t);
    if (v == 19)
	pixman_transform_init_translate (&t, pixman_int_to_fixed (2), pixman_int_to_fixed (1));
    else if (v == 20)
    {
	pixman_transform_init_scale (&t, -pixman_fixed_1, -pixman_fixed_1);
	pixman_transform_translate (NULL, &t, pixman_int_to_fixed (4), pixman_int_to_fixed (3));
    }
    else if (v == 21)
    {
	pixman_transform_init_rotate (&t, 0, pixman_fixed_1);
	pixman_transform_translate (NULL, &t, pixman_int_to_fixed (3), 0);
    }
    else if (v >= 2)
    {
	const pixman_fixed_t *b = base[cfg_variant % 3];
	pixman_fixed_t m[9];
	/* coinciding values: 12..14 exchange two entries, 15..18 give an entry the value of another one */
	static const int xch[3][2] = { { 0, 4 }, { 2, 5 }, { 1, 3 } };
	static const int cpy[4][2] = { { 4, 0 }, { 5, 2 }, { 0, 4 }, { 2, 5 } };	/* dst := src */
	for (k = 0; k < 9; k++)
	    m[k] = b[k] + (v == 3 + k ? delta[k] : 0);
	if (v >= 12 && v <= 14)
	{
	    m[xch[v - 12][0]] = b[xch[v - 12][1]];
	    m[xch[v - 12][1]] = b[xch[v - 12][0]];
	}
	if (v >= 15 && v <= 18)
	    m[cpy[v - 15][0]] = b[cpy[v - 15][1]];
	for (k = 0; k < 9; k++)
	    t.matrix[k / 3][k % 3] = m[k];
    }
    r = pixman_image_set_transform (im, &t);
    memset (&t, 0x5b, sizeof t);
    return r;
}

static pixman_bool_t
set_filter_v (pixman_image_t *im, int v)
{
    static const pixman_fixed_t k3[11] = { 3 * pixman_fixed_1, 3 * pixman_fixed_1,
	0x1000, 0x2000, 0x1800, 0x2000, 0x4000, 0x2000, 0x1400, 0x2000, 0x0c00 };
    static const pixman_fixed_t k1[5] = { 3 * pixman_fixed_1, pixman_fixed_1, 0x4000, 0x8000, 0x4000 };
    static const pixman_fixed_t sep[9] = { 2 * pixman_fixed_1, pixman_fixed_1, pixman_fixed_1, 0,
	0x8000, 0x8000, 0xc000, 0x4000, pixman_fixed_1 };
    pixman_fixed_t *buf = v == 3 ? conv_p2 : conv_p1;	/* 3: the same kernel from another address */
    pixman_filter_t kind = PIXMAN_FILTER_CONVOLUTION;
    pixman_bool_t r;
    int n;
    if (v == 0)
	return pixman_image_set_filter (im, PIXMAN_FILTER_NEAREST, NULL, 0);
    if (v == 1)
	return pixman_image_set_filter (im, PIXMAN_FILTER_BILINEAR, NULL, 0);
    if (v == 16)
	return pixman_image_set_filter (im, PIXMAN_FILTER_GOOD, NULL, 0);
    if (v == 17)
	return pixman_image_set_filter (im, PIXMAN_FILTER_FAST, NULL, 0);
    if (v <= 6 || v == 12 || v == 13)
    {
	n = 11;
	memcpy (buf, k3, sizeof k3);
	if (v == 4) buf[2] = 0x9000;		/* first coefficient only */
	if (v == 5) buf[6] = 0xc000;		/* a middle coefficient only */
	if (v == 6) buf[10] = 0x9000;		/* last coefficient only */
	if (v == 12) buf[10] = buf[2];		/* last := first */
	if (v == 13) { buf[2] = k3[6]; buf[6] = k3[2]; }	/* first <-> middle */
    }
    else if (v == 7 || v == 14)
    {
	n = 5;
	memcpy (buf, k1, sizeof k1);
	if (v == 14) { buf[0] = k1[1]; buf[1] = k1[0]; }	/* width <-> height: 1x3 */
    }
    else
    {
	kind = PIXMAN_FILTER_SEPARABLE_CONVOLUTION;
	n = 9;
	memcpy (buf, sep, sizeof sep);
	if (v == 9) buf[4] = 0x2000;		/* first tap only */
	if (v == 10) buf[6] = 0x4000;		/* a middle tap only */
	if (v == 11) buf[8] = 0x8000;		/* last tap only */
	if (v == 15) { buf[4] = sep[8]; buf[8] = sep[4]; }	/* first <-> last tap */
    }
    r = pixman_image_set_filter (im, kind, buf, n);
    memset (buf, 0x5b, 16 * sizeof (pixman_fixed_t));
    return r;
}

static pixman_bool_t
set_clip_v (pixman_image_t *im, int vv)
{
    int v = vv % 8, use16 = vv / 8;	/* 8 + k: the same region through the region16 setter */
    pixman_box32_t bx[2] = { { 0, 0, 3, 2 }, { 2, 3, 7, 5 } };
    pixman_region32_t reg;
    pixman_bool_t r;
    int n = v == 7 ? 0 : (v == 1 || v == 6) ? 1 : 2;	/* 7: the empty region */
    if (v == 0)
	return use16 ? pixman_image_set_clip_region (im, NULL) : pixman_image_set_clip_region32 (im, NULL);
    if (v == 1) { bx[0].x1 = 1; bx[0].y1 = 0; bx[0].x2 = 6; bx[0].y2 = 3; }
    if (v == 6) { bx[0].x1 = 0; bx[0].y1 = 1; bx[0].x2 = 6; bx[0].y2 = 3; }	/* x1 <-> y1 of 1 */
    if (v == 5) { bx[0].x2 = 2; bx[0].y2 = 3; }	/* x2 <-> y2 of the first rectangle of 2 */
    if (v == 3) bx[1].x2 = 6;			/* only the last rectangle differs from 2 */
    if (v == 4) bx[0].x2 = 4;			/* only the first rectangle differs from 2 */
    if (use16)
    {
	pixman_region16_t r16;
	pixman_box16_t b[2];
	int i;
	for (i = 0; i < n; i++)
	{
	    b[i].x1 = bx[i].x1; b[i].y1 = bx[i].y1; b[i].x2 = bx[i].x2; b[i].y2 = bx[i].y2;
	}
	pixman_region_init_rects (&r16, b, n);
	r = pixman_image_set_clip_region (im, &r16);
	pixman_region_fini (&r16);
	return r;
    }
    pixman_region32_init_rects (&reg, bx, n);
    r = pixman_image_set_clip_region32 (im, &reg);
    pixman_region32_fini (&reg);
    return r;
}

/* ---- client-owned memory rewritten in place (no library call): contents are a function of the class v,
 * the configuration and the initial pixels only ---- */
static uint32_t
alpha_word (pixman_format_code_t fmt)	/* the alpha bits of every pixel in a 32-bit word of the buffer */
{
    int bpp = PIXMAN_FORMAT_BPP (fmt), a = PIXMAN_FORMAT_A (fmt), k;
    int rgb = PIXMAN_FORMAT_R (fmt) + PIXMAN_FORMAT_G (fmt) + PIXMAN_FORMAT_B (fmt);
    uint32_t m, w = 0;
    if (a == 0 || bpp > 32 || PIXMAN_FORMAT_TYPE (fmt) == PIXMAN_TYPE_COLOR || PIXMAN_FORMAT_TYPE (fmt) == PIXMAN_TYPE_GRAY)
	return 0;
    m = a >= 32 ? 0xffffffffu : ((1u << a) - 1);
    if (PIXMAN_FORMAT_TYPE (fmt) != PIXMAN_TYPE_BGRA && PIXMAN_FORMAT_TYPE (fmt) != PIXMAN_TYPE_RGBA)
	m <<= rgb;
    for (k = 0; k < 32; k += bpp)
	w |= m << k;
    return w;
}

static void
edit_pixels (bimg_t *x, int v)
{
    uint32_t am = alpha_word (x->fmt), *w = x->buf;
    size_t i, n = x->bytes / 4;
    if (!x->buf || !L0)
	return;
    memcpy (x->buf, L0, x->bytes);				/* 0: the initial pixels */
    for (i = 0; i < n; i++)
    {
	if (v == 1 || v == 2) w[i] |= am;			/* every alpha opaque */
	if (v == 3) w[i] = 0;					/* all transparent */
	if (v == 4) w[i] = (w[i] ^ 0x3c3c3c3cu) | am;		/* opaque, other colours */
    }
    if (v == 2)
	w[0] = (w[0] & ~am) | (am & 0x7f7f7f7fu);		/* the first pixel(s) translucent */
}

static void
edit_palettes (int v)
{
    int k, i, e0, e1, bpp = L.buf ? PIXMAN_FORMAT_BPP (L.fmt) : 8;
    /* an entry in use: the index of the first pixel of the initial buffer (read plainly, and through the accessors) */
    e0 = L0 ? (L0[0] & ((1 << bpp) - 1)) : 0;
    e1 = (e0 ^ 0x5a) & ((1 << bpp) - 1);
    for (k = 0; k < 4; k++)
    {
	memcpy (pal[k].rgba, pal0[k].rgba, sizeof pal[k].rgba);
	for (i = 0; i < 256; i++)
	{
	    uint32_t c = pal0[k].rgba[i];
	    if (v == 1 && (i == e0 || i == e1))
		pal[k].rgba[i] = 0x40000000u | ((c >> 2) & 0x003f3f3fu);	/* one used entry translucent */
	    if (v == 2 && (i == e0 || i == e1))
		pal[k].rgba[i] = c ^ 0x00f0310cu;				/* ... another opaque colour */
	    if (v == 3)
		pal[k].rgba[i] = 0x80000000u | ((c >> 1) & 0x007f7f7fu);	/* every entry translucent */
	}
    }
}

static const pixman_dither_t dithers[3] = { PIXMAN_DITHER_NONE, PIXMAN_DITHER_ORDERED_BAYER_8, PIXMAN_DITHER_GOOD };

/* one setter call on image x (whose alpha-map candidates are a and b); want = wanted values after the call */
static void
apply_prop (bimg_t *x, bimg_t *maps, int p, int v, const int *want)
{
    pixman_image_t *im = x->img;
    switch (p)
    {
    case P_T: set_transform_v (im, v); break;
    case P_F: set_filter_v (im, v); break;
    case P_R: pixman_image_set_repeat (im, (pixman_repeat_t)v); break;
    case P_C: set_clip_v (im, v); break;
    case P_SC: pixman_image_set_source_clipping (im, v); break;
    case P_CC: pixman_image_set_has_client_clip (im, v); break;
    case P_AM:
    case P_AO:
    {
	int am = p == P_AM ? v : want[P_AM], ao = p == P_AO ? v : want[P_AO];
	static const int16_t org[3] = { 0, 1, -1 };	/* x and y over the same values */
	pixman_image_set_alpha_map (im, am == 0 ? NULL : maps[am].img, org[ao % 3], org[(ao / 3) % 3]);
	break;
    }
    case P_CA: pixman_image_set_component_alpha (im, v); break;
    case P_ACC: pixman_image_set_accessors (im, v ? rd : NULL, v ? wr : NULL); break;
    case P_PAL: pixman_image_set_indexed (im, &pal[v]); break;
    case P_D: pixman_image_set_dither (im, dithers[v % 3]); break;
    case P_DOF:
    {
	static const int off[3] = { 0, 3, 1 };
	pixman_image_set_dither_offset (im, off[v % 3], off[(v / 3) % 3]);
	break;
    }
    case P_MA: pixman_image_set_accessors (maps[1].img, v ? rd : NULL, v ? wr : NULL); break;
    /* client memory: rewritten behind the long-lived image's back; the replica is created over the current contents */
    case P_PE: if (x == &L) edit_palettes (v); break;
    case P_PX: if (x == &L) edit_pixels (x, v); break;
    }
}

/* ---- rendering ---- */
typedef struct
{
    uint32_t fl, efc, mfl;
    int wd, mwd;
    uint8_t px[1024];
    int npx;
} obs_t;

static void
composite_with (bimg_t *x, bimg_t *map, obs_t *o)
{
    const vrec_t *v;
    pixman_op_t op = ops[cfg_op % NOP];
    nvrec = 0;
    capture = 1;
    if (cfg_role == R_SRC)
    {
	memcpy (D.buf, D0, D.bytes);
	pixman_image_composite32 (op, x->img, NULL, D.img, -1, -1, 0, 0, 0, 0, D.w, D.h);
    }
    else if (cfg_role == R_MASK)
    {
	memcpy (D.buf, D0, D.bytes);
	pixman_image_composite32 (op, S.img, x->img, D.img, 0, 0, -1, -1, 0, 0, D.w, D.h);
    }
    else
	pixman_image_composite32 (op, S.img, NULL, x->img, 0, 0, 0, 0, 0, 0, x->w, x->h);
    capture = 0;
    v = find_v (x->img);
    o->fl = v->fl; o->efc = v->efc; o->wd = v->wd;
    v = map ? find_v (map->img) : find_v (NULL);
    o->mfl = map ? v->fl : 0; o->mwd = map ? v->wd : 0;
    o->npx = 0;
    if (cfg_role == R_DST)
    {
	memcpy (o->px, x->buf, x->bytes);
	o->npx = (int)x->bytes;
	if (map)
	{
	    memcpy (o->px + o->npx, map->buf, map->bytes);
	    o->npx += (int)map->bytes;
	}
    }
    else
    {
	memcpy (o->px, D.buf, D.bytes);
	o->npx = (int)D.bytes;
    }
}

static void
log_obs (const char *pfx, const obs_t *o)
{
    char k[16];
    snprintf (k, sizeof k, "%sfl", pfx); vt_w32 (k, o->fl);
    snprintf (k, sizeof k, "%sefc", pfx); vt_w32 (k, o->efc);
    snprintf (k, sizeof k, "%smfl", pfx); vt_w32 (k, o->mfl);
    snprintf (k, sizeof k, "%swd", pfx); vt_int (k, o->wd);
    snprintf (k, sizeof k, "%smwd", pfx); vt_int (k, o->mwd);
    snprintf (k, sizeof k, "%spx", pfx); vt_bytes (k, o->px, o->npx);
}

static void
render (const int *want)
{
    static obs_t ol, of;
    static uint8_t before[1024];
    int nbefore = 0, p;
    bimg_t F, FM[5];
    bimg_t *lmap = want[P_AM] ? &M[want[P_AM]] : NULL;
    bimg_t *fmap = want[P_AM] ? &FM[want[P_AM]] : NULL;
    int k;

    /* the freshly created replica: same type, same pixels, each wanted non-default property set once */
    make_subject (&F, L.buf ? &L : NULL, NULL);
    memset (FM, 0, sizeof FM);
    for (k = 1; k <= 4; k++)
	clone_bits (&FM[k], &M[k]);
    for (p = 0; p < NPROP; p++)
    {
	if (p == P_AO && want[P_AM] != 0)
	    continue;		/* set together with the map */
	if (want[p] != 0)
	    apply_prop (&F, FM, p, want[p], want);
    }
    if (cfg_role == R_DST)
    {
	memcpy (before, L.buf, L.bytes);
	nbefore = (int)L.bytes;
	if (lmap)
	{
	    memcpy (before + nbefore, lmap->buf, lmap->bytes);
	    nbefore += (int)lmap->bytes;
	}
    }
    composite_with (&L, lmap, &ol);
    composite_with (&F, fmap, &of);
    vt_begin ("Render");
    vt_ints ("key", want, NPROP);
    vt_bytes ("before", before, nbefore);
    log_obs ("l", &ol);
    log_obs ("f", &of);
    vt_end ();
    drop (&F);
    for (k = 1; k <= 4; k++)
	drop (&FM[k]);
}

static void
init_palettes (void)
{
    int k, i;
    for (k = 0; k < 3; k++)
    {
	memset (&pal[k], 0, sizeof pal[k]);
	pal[k].color = TRUE;
	for (i = 0; i < 256; i++)
	{
	    uint32_t r = (uint32_t)(i * 37 + k * 101) & 0xff, g = (uint32_t)(i * 11 + k * 53) & 0xff, b = (uint32_t)(255 - i) ^ (k * 0x3c);
	    pal[k].rgba[i] = 0xff000000u | (r << 16) | (g << 8) | (b & 0xff);
	}
    }
    pal[3] = pal[1];
    memcpy (pal0, pal, sizeof pal0);
}

static void
teardown (void)
{
    int k;
    drop (&L); drop (&D); drop (&S);
    for (k = 1; k <= 4; k++)
	drop (&M[k]);
    free (D0);
    D0 = NULL;
    free (L0);
    L0 = NULL;
}

int
main (int argc, char **argv)
{
    FILE *in;
    char op[32], name[128];
    int want[NPROP];
    if (argc < 3)
    {
	fprintf (stderr, "usage: drv_image script trace\n");
	return 3;
    }
    in = fopen (argv[1], "r");
    if (!in) { perror (argv[1]); return 3; }
    vt_open (argv[2]);
    init_palettes ();
    _pixman_verif_sink = sink;
    while (fscanf (in, "%31s", op) == 1)
    {
	if (!strcmp (op, "reset"))
	{
	    if (fscanf (in, "%127s", name) != 1) return 3;
	    teardown ();
	    vt_reset (name);
	}
	else if (!strcmp (op, "config"))
	{
	    vrng_t rng;
	    int r0, cfgv[7], p;
	    static const pixman_format_code_t dfmts[4] = { PIXMAN_a8r8g8b8, PIXMAN_r5g6b5, PIXMAN_x8r8g8b8, PIXMAN_a8 };
	    if (fscanf (in, "%d %d %d %d %d %d %d %d", &cfg_type, &cfg_role, &cfg_fmt, &cfg_op, &cfg_gk,
			&cfg_variant, &cfg_seed, &r0) != 8) return 3;
	    if (cfg_type < 0 || cfg_type > 3 || cfg_role < 0 || cfg_role > 2) return 3;
	    vrng_seed (&rng, (uint64_t)cfg_seed);
	    make_subject (&L, NULL, &rng);
	    memcpy (pal, pal0, sizeof pal);
	    if (L.buf)
	    {
		L0 = malloc (L.bytes);
		memcpy (L0, L.buf, L.bytes);
	    }
	    make_bits (&M[1], PIXMAN_a8, 6, 5, &rng);
	    make_bits (&M[2], (cfg_variant & 8) ? PIXMAN_a4 : PIXMAN_a8r8g8b8, 5, 4, &rng);
	    make_bits (&M[3], (cfg_variant & 2) ? PIXMAN_a2r10g10b10 : PIXMAN_rgba_float, 5, 4, &rng);
	    make_bits (&M[4], PIXMAN_a8, 6, 5, &rng);
	    make_bits (&D, dfmts[(cfg_variant >> 4) & 3], 8, 6, &rng);
	    D0 = malloc (D.bytes);
	    memcpy (D0, D.buf, D.bytes);
	    make_bits (&S, (cfg_variant & 64) ? PIXMAN_a2r10g10b10 : PIXMAN_a8r8g8b8, 8, 6, &rng);
	    memset (want, 0, sizeof want);
	    if (cfg_type == T_INDEXED)
	    {
		want[P_PAL] = 1;
		apply_prop (&L, M, P_PAL, 1, want);
	    }
	    cfgv[0] = cfg_fmt; cfgv[1] = cfg_op; cfgv[2] = cfg_gk; cfgv[3] = cfg_variant; cfgv[4] = cfg_seed;
	    vt_begin ("Config");
	    vt_str ("type", tname[cfg_type]); vt_str ("role", rname[cfg_role]);
	    vt_ints ("cfg", cfgv, 5);
	    vt_int ("r0", r0);
	    vt_end ();
	    (void)p;
	    if (r0)
		render (want);
	}
	else if (!strcmp (op, "set"))
	{
	    int p, v, r, i;
	    if (fscanf (in, "%d %d %d", &p, &v, &r) != 3) return 3;
	    for (i = 0; i < NPROP; i++)
		if (fscanf (in, "%d", &want[i]) != 1) return 3;
	    if (p < 0 || p >= NPROP) return 3;
	    apply_prop (&L, M, p, v, want);
	    vt_begin ("Set");
	    vt_str ("j", pname[p]); vt_int ("v", v); vt_int ("r", r);
	    vt_end ();
	    if (r)
		render (want);
	}
	else if (!strcmp (op, "end"))
	{
	    teardown ();
	    vt_begin ("End");
	    vt_end ();
	}
	else
	    return 3;
    }
    vt_close ();
    return 0;
}
