/* Conformance driver for trapezoid rasterisation (C12): executes a script of public pixman calls
 * (pixman_sample_ceil_y/floor_y, pixman_edge_init/step, pixman_line_fixed_edge_init,
 * pixman_rasterize_trapezoid, pixman_add_trapezoids, pixman_add_traps, pixman_add_triangles,
 * pixman_composite_trapezoids/triangles, pixman_image_composite32) and logs what the public API
 * shows.  It never judges.
 *
 * Script (blank separated tokens):
 *   R name                                   new execution: all image slots are released
 *   SY n k y1..yk                            ceil_y / floor_y of every y, depth n
 *   W n ystart xt yt xb yb k s1..sk          pixman_edge_init, then pixman_edge_step (si) k times
 *   WL n ystart p1x p1y p2x p2y xoff yoff    pixman_line_fixed_edge_init
 *   I slot bpp w h z|v [w*h values]          new image (a1/a4/a8, a8r8g8b8 for bpp 32, x8r8g8b8 for "bpp" 24), zero or given pixels
 *   P slot repeat                            pixman_image_set_repeat (0 none, 1 normal, 2 pad, 3 reflect)
 *   S slot r g b a                           new solid fill image (16 bit channels)
 *   AM slot mapslot x y                      pixman_image_set_alpha_map (mapslot -1: none); the map's slot must
 *                                            stay alive as long as the image is used
 *   CL slot n <4n ints: x1 y1 x2 y2>         pixman_image_set_clip_region32 (n = -1: no clip region)
 *   HC slot 0|1                              pixman_image_set_has_client_clip
 *   CS slot 0|1                              pixman_image_set_source_clipping
 *   RT slot xoff yoff <10 ints>              pixman_rasterize_trapezoid
 *   AT slot xoff yoff n <10n ints>           pixman_add_trapezoids
 *   AP slot xoff yoff n <6n ints>            pixman_add_traps  (top.l top.r top.y bot.l bot.r bot.y)
 *   AG slot xoff yoff n <6n ints>            pixman_add_triangles
 *   CT op src dst maskbpp xs ys xd yd n <10n ints>   pixman_composite_trapezoids
 *   CG op src dst maskbpp xs ys xd yd n <6n ints>    pixman_composite_triangles
 *   CI op src mask dst sx sy mx my dx dy w h         pixman_image_composite32
 *   EQ kind a b                              log the pixels of two slots side by side
 *   SH a b dx dy                             the same, with the offset by which b is claimed to be shifted
 */
#include "vcommon.h"
#include <pixman.h>
#include <signal.h>
#include <unistd.h>

/* An event is composed in memory and written only when the call has returned, so that a crash inside
 * the library leaves a well-formed trace: the complete events so far, then {"e":"Crash"}. */
static FILE  *real_out;
static char  *ev_buf;
static size_t ev_len;

static void
ev_begin (const char *name)
{
    real_out = vt_out;
    vt_out = open_memstream (&ev_buf, &ev_len);
    vt_begin (name);
}

static void
ev_end (void)
{
    vt_end ();
    fclose (vt_out);
    vt_out = real_out;
    fwrite (ev_buf, 1, ev_len, vt_out);
    fflush (vt_out);
    free (ev_buf);
    ev_buf = NULL;
}

static void
on_crash (int sig)
{
    char buf[64];
    int n = snprintf (buf, sizeof buf, "{\"e\":\"Crash\",\"sig\":%d}\n", sig);
    if (real_out)
    {
	fflush (real_out);
	if (write (fileno (real_out), buf, n) < 0) {}
    }
    _exit (0);
}

#define NSLOT 12
#define GUARD 0xA5
#define MAXW 64
#define MAXH 64

typedef struct
{
    pixman_image_t *img;
    int             bpp, w, h, stride; /* stride in bytes; bpp 0 = solid */
    uint8_t        *mem;               /* guard row, h rows, guard row */
    size_t          memsz;
    uint8_t        *shadow;            /* copy taken before a call, to count bytes that must not change */
} slot_t;

static slot_t slots[NSLOT];

static void
slot_free (slot_t *s)
{
    if (s->img)
	pixman_image_unref (s->img);
    free (s->mem);
    free (s->shadow);
    memset (s, 0, sizeof *s);
}

static pixman_format_code_t
fmt_of (int bpp)
{
    switch (bpp)
    {
    case 1: return PIXMAN_a1;
    case 4: return PIXMAN_a4;
    case 8: return PIXMAN_a8;
    case 24: return PIXMAN_x8r8g8b8;
    default: return PIXMAN_a8r8g8b8;
    }
}

static uint8_t *
row_of (slot_t *s, int y)
{
    return s->mem + (size_t)(y + 1) * s->stride;
}

static uint32_t
get_px (slot_t *s, int x, int y)
{
    uint8_t *r = row_of (s, y);
    switch (s->bpp)
    {
    case 1: return (((uint32_t *)r)[x >> 5] >> (x & 31)) & 1;
    case 4: return (r[x >> 1] >> ((x & 1) << 2)) & 0xf;
    case 8: return r[x];
    default: return ((uint32_t *)r)[x];
    }
}

static void
put_px (slot_t *s, int x, int y, uint32_t v)
{
    uint8_t *r = row_of (s, y);
    switch (s->bpp)
    {
    case 1:
	if (v & 1) ((uint32_t *)r)[x >> 5] |= 1u << (x & 31);
	else ((uint32_t *)r)[x >> 5] &= ~(1u << (x & 31));
	break;
    case 4:
	r[x >> 1] = (r[x >> 1] & ~(0xf << ((x & 1) << 2))) | ((v & 0xf) << ((x & 1) << 2));
	break;
    case 8: r[x] = v; break;
    default: ((uint32_t *)r)[x] = v; break;
    }
}

/* bytes (bits for the partial byte/word of a row) outside the w x h pixels that differ from the shadow */
static int
count_outside_changes (slot_t *s)
{
    int n = 0, y, x;
    size_t i;
    /* build a copy in which the pixels are replaced by the shadow's pixels: whatever still differs is outside */
    uint8_t *tmp = malloc (s->memsz);
    slot_t t = *s;
    memcpy (tmp, s->mem, s->memsz);
    t.mem = tmp;
    {
	slot_t sh = *s;
	sh.mem = s->shadow;
	for (y = 0; y < s->h; y++)
	    for (x = 0; x < s->w; x++)
		put_px (&t, x, y, get_px (&sh, x, y));
    }
    for (i = 0; i < s->memsz; i++)
	if (tmp[i] != s->shadow[i])
	    n++;
    free (tmp);
    return n;
}

static void
log_pixels (const char *k, slot_t *s)
{
    int x, y, first = 1;
    vt_key (k);
    fputc ('[', vt_out);
    for (y = 0; y < s->h; y++)
	for (x = 0; x < s->w; x++)
	{
	    uint32_t v = get_px (s, x, y);
	    if (s->bpp == 32)
		fprintf (vt_out, "%s%u,%u,%u,%u", first ? "" : ",", v >> 24, (v >> 16) & 255, (v >> 8) & 255, v & 255);
	    else
		fprintf (vt_out, "%s%u", first ? "" : ",", v);
	    first = 0;
	}
    fputc (']', vt_out);
}

static void
snapshot (slot_t *s)
{
    if (s->mem)
	memcpy (s->shadow, s->mem, s->memsz);
}

static int
rd (FILE *in, int *v)
{
    long long t;
    if (fscanf (in, "%lld", &t) != 1)
	return 0;
    *v = (int)t;
    return 1;
}

#define MAXV 4096
static int vals[MAXV];

static int
rdn (FILE *in, int n)
{
    int i;
    if (n > MAXV || n < 0)
	return 0;
    for (i = 0; i < n; i++)
	if (!rd (in, &vals[i]))
	    return 0;
    return 1;
}

static void
log_edge (pixman_edge_t *e)
{
    fprintf (vt_out, "[%d,%d,%d,%d,%d,%d,%d,%d,%d,%d]", e->x, e->e, e->stepx, e->signdx, e->dy, e->dx,
	     e->stepx_small, e->stepx_big, e->dx_small, e->dx_big);
}

static void
trap_from (pixman_trapezoid_t *t, const int *v)
{
    t->top = v[0]; t->bottom = v[1];
    t->left.p1.x = v[2]; t->left.p1.y = v[3]; t->left.p2.x = v[4]; t->left.p2.y = v[5];
    t->right.p1.x = v[6]; t->right.p1.y = v[7]; t->right.p2.x = v[8]; t->right.p2.y = v[9];
}

static void
log_shapes (const int *v, int n, int per)
{
    int i, j;
    vt_key ("shapes");
    fputc ('[', vt_out);
    for (i = 0; i < n; i++)
    {
	fputs (i ? ",[" : "[", vt_out);
	for (j = 0; j < per; j++)
	    fprintf (vt_out, j ? ",%d" : "%d", v[i * per + j]);
	fputc (']', vt_out);
    }
    fputc (']', vt_out);
}

static void
rast_begin (const char *api, slot_t *s, int slot, int xoff, int yoff, const int *v, int n, int per)
{
    ev_begin ("Rast");
    vt_str ("api", api);
    vt_int ("slot", slot);
    vt_int ("n", s->bpp); vt_int ("w", s->w); vt_int ("h", s->h);
    vt_int ("xoff", xoff); vt_int ("yoff", yoff);
    log_shapes (v, n, per);
    log_pixels ("before", s);
    snapshot (s);
}

static void
rast_end (slot_t *s)
{
    log_pixels ("after", s);
    vt_int ("outside", count_outside_changes (s));
    ev_end ();
}

int
main (int argc, char **argv)
{
    FILE *in;
    char cmd[16], name[128], mode[8], kind[32];
    int i;
    if (argc < 3)
    {
	fprintf (stderr, "usage: drv_trap script trace\n");
	return 3;
    }
    in = fopen (argv[1], "r");
    if (!in) { perror (argv[1]); return 3; }
    vt_open (argv[2]);
    real_out = vt_out;
    signal (SIGSEGV, on_crash);
    signal (SIGBUS, on_crash);
    signal (SIGABRT, on_crash);
    signal (SIGFPE, on_crash);
    while (fscanf (in, "%15s", cmd) == 1)
    {
	if (!strcmp (cmd, "R"))
	{
	    if (fscanf (in, "%127s", name) != 1) return 3;
	    for (i = 0; i < NSLOT; i++)
		slot_free (&slots[i]);
	    vt_reset (name);
	}
	else if (!strcmp (cmd, "SY"))
	{
	    int n, k;
	    if (!rd (in, &n) || !rd (in, &k) || !rdn (in, k)) return 3;
	    ev_begin ("SampleY");
	    vt_int ("n", n);
	    vt_key ("ys"); fputc ('[', vt_out);
	    for (i = 0; i < k; i++) fprintf (vt_out, "%s[%u,%u]", i ? "," : "", (uint32_t)vals[i] >> 16, (uint32_t)vals[i] & 0xffff);
	    fputc (']', vt_out);
	    vt_key ("ceil"); fputc ('[', vt_out);
	    for (i = 0; i < k; i++)
	    {
		uint32_t r = (uint32_t)pixman_sample_ceil_y (vals[i], n);
		fprintf (vt_out, "%s[%u,%u]", i ? "," : "", r >> 16, r & 0xffff);
	    }
	    fputc (']', vt_out);
	    vt_key ("floor"); fputc ('[', vt_out);
	    for (i = 0; i < k; i++)
	    {
		uint32_t r = (uint32_t)pixman_sample_floor_y (vals[i], n);
		fprintf (vt_out, "%s[%u,%u]", i ? "," : "", r >> 16, r & 0xffff);
	    }
	    fputc (']', vt_out);
	    ev_end ();
	}
	else if (!strcmp (cmd, "W"))
	{
	    int n, a[5], k;
	    pixman_edge_t e;
	    if (!rd (in, &n)) return 3;
	    for (i = 0; i < 5; i++) if (!rd (in, &a[i])) return 3;
	    if (!rd (in, &k) || !rdn (in, k)) return 3;
	    memset (&e, 0, sizeof e);
	    pixman_edge_init (&e, n, a[0], a[1], a[2], a[3], a[4]);
	    ev_begin ("Walk");
	    vt_int ("n", n);
	    vt_ints ("init", a, 5);
	    vt_ints ("steps", vals, k);
	    vt_key ("eds"); fputc ('[', vt_out);
	    log_edge (&e);
	    for (i = 0; i < k; i++)
	    {
		pixman_edge_step (&e, vals[i]);
		fputc (',', vt_out);
		log_edge (&e);
	    }
	    fputc (']', vt_out);
	    ev_end ();
	}
	else if (!strcmp (cmd, "WL"))
	{
	    int n, a[7];
	    pixman_edge_t e;
	    pixman_line_fixed_t line;
	    if (!rd (in, &n)) return 3;
	    for (i = 0; i < 7; i++) if (!rd (in, &a[i])) return 3;
	    memset (&e, 0, sizeof e);
	    line.p1.x = a[1]; line.p1.y = a[2]; line.p2.x = a[3]; line.p2.y = a[4];
	    pixman_line_fixed_edge_init (&e, n, a[0], &line, a[5], a[6]);
	    ev_begin ("LineInit");
	    vt_int ("n", n);
	    vt_ints ("args", a, 7);
	    vt_key ("ed");
	    log_edge (&e);
	    ev_end ();
	}
	else if (!strcmp (cmd, "I"))
	{
	    int sl, bpp, w, h, x, y, fmtcode;
	    slot_t *s;
	    if (!rd (in, &sl) || !rd (in, &bpp) || !rd (in, &w) || !rd (in, &h) || fscanf (in, "%7s", mode) != 1) return 3;
	    if (sl < 0 || sl >= NSLOT || w < 1 || h < 1 || w > MAXW || h > MAXH) return 3;
	    s = &slots[sl];
	    slot_free (s);
	    fmtcode = bpp;
	    if (bpp == 24) bpp = 32;
	    s->bpp = bpp; s->w = w; s->h = h;
	    s->stride = ((w * bpp + 31) / 32) * 4 + 4;     /* one spare word per row */
	    s->memsz = (size_t)s->stride * (h + 2);
	    s->mem = malloc (s->memsz);
	    s->shadow = malloc (s->memsz);
	    memset (s->mem, GUARD, s->memsz);
	    for (y = 0; y < h; y++)
		for (x = 0; x < w; x++)
		    put_px (s, x, y, 0);
	    if (mode[0] == 'v')
	    {
		for (y = 0; y < h; y++)
		    for (x = 0; x < w; x++)
		    {
			long long v;
			if (fscanf (in, "%lli", &v) != 1) return 3;
			put_px (s, x, y, (uint32_t)v);
		    }
	    }
	    s->img = pixman_image_create_bits (fmt_of (fmtcode), w, h, (uint32_t *)row_of (s, 0), s->stride);
	    if (!s->img) return 3;
	}
	else if (!strcmp (cmd, "P"))
	{
	    int sl, rep;
	    if (!rd (in, &sl) || !rd (in, &rep)) return 3;
	    if (sl < 0 || sl >= NSLOT || !slots[sl].img) return 3;
	    pixman_image_set_repeat (slots[sl].img, (pixman_repeat_t)rep);
	}
	else if (!strcmp (cmd, "S"))
	{
	    int sl, c[4];
	    pixman_color_t col;
	    if (!rd (in, &sl)) return 3;
	    for (i = 0; i < 4; i++) if (!rd (in, &c[i])) return 3;
	    if (sl < 0 || sl >= NSLOT) return 3;
	    slot_free (&slots[sl]);
	    col.red = c[0]; col.green = c[1]; col.blue = c[2]; col.alpha = c[3];
	    slots[sl].img = pixman_image_create_solid_fill (&col);
	}
	else if (!strcmp (cmd, "AM"))
	{
	    int sl, ms, x, y;
	    if (!rd (in, &sl) || !rd (in, &ms) || !rd (in, &x) || !rd (in, &y)) return 3;
	    if (sl < 0 || sl >= NSLOT || !slots[sl].img || ms >= NSLOT || (ms >= 0 && !slots[ms].img)) return 3;
	    pixman_image_set_alpha_map (slots[sl].img, ms < 0 ? NULL : slots[ms].img, x, y);
	}
	else if (!strcmp (cmd, "CL"))
	{
	    int sl, n;
	    if (!rd (in, &sl) || !rd (in, &n)) return 3;
	    if (sl < 0 || sl >= NSLOT || !slots[sl].img) return 3;
	    if (n < 0)
		pixman_image_set_clip_region32 (slots[sl].img, NULL);
	    else
	    {
		pixman_region32_t reg;
		if (!rdn (in, 4 * n)) return 3;
		pixman_region32_init (&reg);
		for (i = 0; i < n; i++)
		{
		    /* a union of rectangles, built by the library itself */
		    if (vals[4 * i + 2] > vals[4 * i] && vals[4 * i + 3] > vals[4 * i + 1])
			pixman_region32_union_rect (&reg, &reg, vals[4 * i], vals[4 * i + 1],
						    vals[4 * i + 2] - vals[4 * i], vals[4 * i + 3] - vals[4 * i + 1]);
		}
		pixman_image_set_clip_region32 (slots[sl].img, &reg);
		pixman_region32_fini (&reg);
	    }
	}
	else if (!strcmp (cmd, "HC") || !strcmp (cmd, "CS"))
	{
	    int sl, v;
	    if (!rd (in, &sl) || !rd (in, &v)) return 3;
	    if (sl < 0 || sl >= NSLOT || !slots[sl].img) return 3;
	    if (cmd[0] == 'H')
		pixman_image_set_has_client_clip (slots[sl].img, v);
	    else
		pixman_image_set_source_clipping (slots[sl].img, v);
	}
	else if (!strcmp (cmd, "RT") || !strcmp (cmd, "AT") || !strcmp (cmd, "AP") || !strcmp (cmd, "AG"))
	{
	    int sl, xoff, yoff, n = 1, per = (cmd[1] == 'T') ? 10 : 6;
	    slot_t *s;
	    if (!rd (in, &sl) || !rd (in, &xoff) || !rd (in, &yoff)) return 3;
	    if (strcmp (cmd, "RT") && !rd (in, &n)) return 3;
	    if (!rdn (in, n * per)) return 3;
	    if (sl < 0 || sl >= NSLOT || !slots[sl].mem) return 3;
	    s = &slots[sl];
	    if (!strcmp (cmd, "RT"))
	    {
		pixman_trapezoid_t t;
		trap_from (&t, vals);
		rast_begin ("rasterize_trapezoid", s, sl, xoff, yoff, vals, 1, 10);
		pixman_rasterize_trapezoid (s->img, &t, xoff, yoff);
	    }
	    else if (!strcmp (cmd, "AT"))
	    {
		pixman_trapezoid_t *t = malloc (sizeof *t * (n ? n : 1));
		for (i = 0; i < n; i++) trap_from (&t[i], vals + 10 * i);
		rast_begin ("add_trapezoids", s, sl, xoff, yoff, vals, n, 10);
		pixman_add_trapezoids (s->img, xoff, yoff, n, t);
		free (t);
	    }
	    else if (!strcmp (cmd, "AP"))
	    {
		pixman_trap_t *t = malloc (sizeof *t * (n ? n : 1));
		for (i = 0; i < n; i++)
		{
		    const int *v = vals + 6 * i;
		    t[i].top.l = v[0]; t[i].top.r = v[1]; t[i].top.y = v[2];
		    t[i].bot.l = v[3]; t[i].bot.r = v[4]; t[i].bot.y = v[5];
		}
		rast_begin ("add_traps", s, sl, xoff, yoff, vals, n, 6);
		pixman_add_traps (s->img, xoff, yoff, n, t);
		free (t);
	    }
	    else
	    {
		pixman_triangle_t *t = malloc (sizeof *t * (n ? n : 1));
		for (i = 0; i < n; i++)
		{
		    const int *v = vals + 6 * i;
		    t[i].p1.x = v[0]; t[i].p1.y = v[1]; t[i].p2.x = v[2]; t[i].p2.y = v[3]; t[i].p3.x = v[4]; t[i].p3.y = v[5];
		}
		rast_begin ("add_triangles", s, sl, xoff, yoff, vals, n, 6);
		pixman_add_triangles (s->img, xoff, yoff, n, t);
		free (t);
	    }
	    rast_end (s);
	}
	else if (!strcmp (cmd, "CT") || !strcmp (cmd, "CG"))
	{
	    int a[8], n, per = (cmd[1] == 'T') ? 10 : 6;
	    slot_t *d;
	    for (i = 0; i < 8; i++) if (!rd (in, &a[i])) return 3;
	    if (!rd (in, &n) || !rdn (in, n * per)) return 3;
	    if (a[1] < 0 || a[1] >= NSLOT || a[2] < 0 || a[2] >= NSLOT || !slots[a[1]].img || !slots[a[2]].mem) return 3;
	    d = &slots[a[2]];
	    ev_begin ("Comp");
	    vt_str ("api", cmd[1] == 'T' ? "composite_trapezoids" : "composite_triangles");
	    vt_ints ("args", a, 8);
	    log_shapes (vals, n, per);
	    snapshot (d);
	    if (cmd[1] == 'T')
	    {
		pixman_trapezoid_t *t = malloc (sizeof *t * (n ? n : 1));
		for (i = 0; i < n; i++) trap_from (&t[i], vals + 10 * i);
		pixman_composite_trapezoids (a[0], slots[a[1]].img, d->img, fmt_of (a[3]), a[4], a[5], a[6], a[7], n, t);
		free (t);
	    }
	    else
	    {
		pixman_triangle_t *t = malloc (sizeof *t * (n ? n : 1));
		for (i = 0; i < n; i++)
		{
		    const int *v = vals + 6 * i;
		    t[i].p1.x = v[0]; t[i].p1.y = v[1]; t[i].p2.x = v[2]; t[i].p2.y = v[3]; t[i].p3.x = v[4]; t[i].p3.y = v[5];
		}
		pixman_composite_triangles (a[0], slots[a[1]].img, d->img, fmt_of (a[3]), a[4], a[5], a[6], a[7], n, t);
		free (t);
	    }
	    vt_int ("outside", count_outside_changes (d));
	    ev_end ();
	}
	else if (!strcmp (cmd, "CI"))
	{
	    int a[12];
	    slot_t *d;
	    for (i = 0; i < 12; i++) if (!rd (in, &a[i])) return 3;
	    if (a[1] < 0 || a[1] >= NSLOT || a[2] < 0 || a[2] >= NSLOT || a[3] < 0 || a[3] >= NSLOT) return 3;
	    if (!slots[a[1]].img || !slots[a[2]].img || !slots[a[3]].mem) return 3;
	    d = &slots[a[3]];
	    ev_begin ("Comp");
	    vt_str ("api", "image_composite32");
	    vt_ints ("args", a, 12);
	    snapshot (d);
	    pixman_image_composite32 (a[0], slots[a[1]].img, slots[a[2]].img, d->img,
				      a[4], a[5], a[6], a[7], a[8], a[9], a[10], a[11]);
	    vt_int ("outside", count_outside_changes (d));
	    ev_end ();
	}
	else if (!strcmp (cmd, "EQ"))
	{
	    int a, b;
	    if (fscanf (in, "%31s", kind) != 1 || !rd (in, &a) || !rd (in, &b)) return 3;
	    if (a < 0 || a >= NSLOT || b < 0 || b >= NSLOT || !slots[a].mem || !slots[b].mem) return 3;
	    ev_begin ("Eq");
	    vt_str ("kind", kind);
	    log_pixels ("a", &slots[a]);
	    log_pixels ("b", &slots[b]);
	    ev_end ();
	}
	else if (!strcmp (cmd, "SH"))
	{
	    int a, b, dx, dy;
	    if (!rd (in, &a) || !rd (in, &b) || !rd (in, &dx) || !rd (in, &dy)) return 3;
	    if (a < 0 || a >= NSLOT || b < 0 || b >= NSLOT || !slots[a].mem || !slots[b].mem) return 3;
	    ev_begin ("Shift");
	    vt_int ("w", slots[a].w); vt_int ("h", slots[a].h); vt_int ("dx", dx); vt_int ("dy", dy);
	    log_pixels ("a", &slots[a]);
	    log_pixels ("b", &slots[b]);
	    ev_end ();
	}
	else
	{
	    fprintf (stderr, "drv_trap: unknown command %s\n", cmd);
	    return 3;
	}
    }
    for (i = 0; i < NSLOT; i++)
	slot_free (&slots[i]);
    vt_close ();
    return 0;
}
