/* Conformance driver for compositing operators (C01): executes pixman_image_composite32 on one row of
 * pixels (source, optional mask, destination given as raw bytes in their formats) and logs the raw
 * buffers before and after.  The source can be presented through a fetcher-forcing property.
 * It never compares anything: the verdict is TLC's (spec/trace/CombineTrace.tla).
 *
 * script lines:
 *   R name
 *   C op ca hasmask sfcode mfcode dfcode pres mpres sw sx mw mx dw dx w dither dox doy drep SRC MSK DST
 *       pres: 0 plain | 1 integer translation (+3 pixels, request shifted back) | 2 scale: two destination
 *             pixels per source pixel | 3 PAD repeat (sx may leave the image) | 4 scale 1 + 1/65536
 *             | 5 1x1 image with NORMAL repeat (a solid source) | 6 PAD repeat and scale 1 + 1/65536
 *             | 7 a solid-fill image (pixman_image_create_solid_fill): SRC holds the 16-bit a r g b (little endian)
 *       pres 8 / mpres 3: a general affine matrix (one unit of shear, NEAREST): the fetchers for arbitrary affine transforms
 *       mpres: 0 plain | 1 1x1 mask image with NORMAL repeat (a solid mask) | 2 a solid-fill mask (MSK: 16-bit a r g b)
 *       dither: pixman_dither_t of the destination (0 none, 1 FAST, 2 GOOD, 3 BEST, 4 bayer, 5 blue noise), dox doy its offsets
 *       drep: repeat mode set on the DESTINATION image (0 none, 1 normal, 2 pad, 3 reflect): legal, and must not matter
 *       SRC MSK DST: hex bytes of one row (MSK "-" without mask; DST "=" keeps the destination of the
 *       previous line: a chain of operations on one destination)
 */
#include "vcommon.h"
#include <pixman.h>

static int
hexval (int c)
{
    if (c >= '0' && c <= '9') return c - '0';
    if (c >= 'a' && c <= 'f') return c - 'a' + 10;
    return -1;
}

static char tok[1 << 16];

static uint8_t *
parse_hex (const char *t, int *len)
{
    uint8_t *b;
    int n = (int)strlen (t) / 2, i;
    if (posix_memalign ((void **)&b, 16, n + 16)) exit (3);
    for (i = 0; i < n; i++)
	b[i] = (uint8_t)(hexval (t[2 * i]) * 16 + hexval (t[2 * i + 1]));
    *len = n;
    return b;
}

int
main (int argc, char **argv)
{
    FILE *in;
    char kind[8], name[128];
    uint8_t *dst = NULL;
    int dlen = 0;
    if (argc < 3)
    {
	fprintf (stderr, "usage: drv_composite script trace\n");
	return 3;
    }
    in = fopen (argv[1], "r");
    if (!in) { perror (argv[1]); return 3; }
    vt_open (argv[2]);
    while (fscanf (in, "%7s", kind) == 1)
    {
	if (kind[0] == 'R')
	{
	    if (fscanf (in, "%127s", name) != 1) return 3;
	    vt_reset (name);
	}
	else if (kind[0] == 'C')
	{
	    int op, ca, hasmask, pres, mpres, dither, dox, doy, drep, sw, sx, mw, mx, dw, dx, w, slen, mlen = 0, fresh, rx;
	    unsigned sfcode, mfcode, dfcode;
	    uint8_t *src, *msk = NULL, *before, *src0, *msk0 = NULL;
	    pixman_image_t *s, *m = NULL, *d;
	    if (fscanf (in, "%d %d %d %u %u %u %d %d %d %d %d %d %d %d %d %d %d %d %d", &op, &ca, &hasmask, &sfcode, &mfcode, &dfcode,
			&pres, &mpres, &sw, &sx, &mw, &mx, &dw, &dx, &w, &dither, &dox, &doy, &drep) != 19) return 3;
	    if (fscanf (in, "%65535s", tok) != 1) return 3;
	    src = parse_hex (tok, &slen);
	    if (fscanf (in, "%65535s", tok) != 1) return 3;
	    if (hasmask) msk = parse_hex (tok, &mlen);
	    if (fscanf (in, "%65535s", tok) != 1) return 3;
	    fresh = strcmp (tok, "=") != 0;
	    if (fresh)
	    {
		free (dst);
		dst = parse_hex (tok, &dlen);
	    }
	    else if (!dst)
		return 3;
	    before = malloc (dlen + 1);
	    memcpy (before, dst, dlen);
	    src0 = malloc (slen + 1); memcpy (src0, src, slen);
	    if (hasmask) { msk0 = malloc (mlen + 1); memcpy (msk0, msk, mlen); }

	    if (pres == 7)
	    {
		pixman_color_t c;
		if (slen < 8) return 3;
		c.alpha = (uint16_t)(src[0] | src[1] << 8); c.red = (uint16_t)(src[2] | src[3] << 8);
		c.green = (uint16_t)(src[4] | src[5] << 8); c.blue = (uint16_t)(src[6] | src[7] << 8);
		s = pixman_image_create_solid_fill (&c);
	    }
	    else
		s = pixman_image_create_bits (sfcode, sw, 1, (uint32_t *)src, slen);
	    d = pixman_image_create_bits (dfcode, dw, 1, (uint32_t *)dst, dlen);
	    if (hasmask)
	    {
		if (mpres == 2)
		{
		    pixman_color_t c;
		    if (mlen < 8) return 3;
		    c.alpha = (uint16_t)(msk[0] | msk[1] << 8); c.red = (uint16_t)(msk[2] | msk[3] << 8);
		    c.green = (uint16_t)(msk[4] | msk[5] << 8); c.blue = (uint16_t)(msk[6] | msk[7] << 8);
		    m = pixman_image_create_solid_fill (&c);
		}
		else
		    m = pixman_image_create_bits (mfcode, mw, 1, (uint32_t *)msk, mlen);
		if (!m) return 3;
		pixman_image_set_component_alpha (m, ca);
		if (mpres == 1)
		    pixman_image_set_repeat (m, PIXMAN_REPEAT_NORMAL);
		if (mpres == 3)
		{
		    /* a general affine matrix (one unit of shear: the same pixels are sampled on a one-row image) */
		    pixman_transform_t t;
		    pixman_transform_init_identity (&t);
		    t.matrix[0][1] = 1;
		    pixman_image_set_transform (m, &t);
		    pixman_image_set_filter (m, PIXMAN_FILTER_NEAREST, NULL, 0);
		}
	    }
	    if (!s || !d) { fprintf (stderr, "drv_composite: cannot create images\n"); return 3; }
	    if (drep)
		pixman_image_set_repeat (d, drep == 1 ? PIXMAN_REPEAT_NORMAL : drep == 2 ? PIXMAN_REPEAT_PAD : PIXMAN_REPEAT_REFLECT);
	    if (dither)
	    {
		pixman_image_set_dither (d, (pixman_dither_t)dither);
		pixman_image_set_dither_offset (d, dox, doy);
	    }
	    rx = sx;
	    if (pres == 1)
	    {
		pixman_transform_t t;
		pixman_transform_init_translate (&t, pixman_int_to_fixed (3), 0);
		pixman_image_set_transform (s, &t);
		rx = sx - 3;
	    }
	    else if (pres == 2)
	    {
		pixman_transform_t t;
		pixman_transform_init_scale (&t, pixman_fixed_1 / 2, pixman_fixed_1);
		pixman_image_set_transform (s, &t);
	    }
	    else if (pres == 3)
		pixman_image_set_repeat (s, PIXMAN_REPEAT_PAD);
	    else if (pres == 5)
		pixman_image_set_repeat (s, PIXMAN_REPEAT_NORMAL);
	    else if (pres == 4 || pres == 6)
	    {
		pixman_transform_t t;
		pixman_transform_init_scale (&t, pixman_fixed_1 + 1, pixman_fixed_1);
		pixman_image_set_transform (s, &t);
		if (pres == 6)
		    pixman_image_set_repeat (s, PIXMAN_REPEAT_PAD);
	    }
	    else if (pres == 8)
	    {
		pixman_transform_t t;
		pixman_transform_init_identity (&t);
		t.matrix[0][1] = 1;
		pixman_image_set_transform (s, &t);
	    }
	    if (pres == 1 || pres == 2 || pres == 4 || pres == 6 || pres == 8)
		pixman_image_set_filter (s, PIXMAN_FILTER_NEAREST, NULL, 0);

	    pixman_image_composite32 ((pixman_op_t)op, s, m, d, rx, 0, mx, 0, dx, 0, w, 1);

	    pixman_image_unref (s);
	    pixman_image_unref (d);
	    if (m) pixman_image_unref (m);

	    vt_begin ("Comp");
	    vt_int ("op", op); vt_int ("ca", ca); vt_int ("hasmask", hasmask);
	    vt_w32 ("sf", sfcode); vt_w32 ("mf", mfcode); vt_w32 ("df", dfcode);
	    vt_int ("pres", pres); vt_int ("mpres", mpres); vt_int ("sw", sw); vt_int ("sx", sx); vt_int ("mw", mw); vt_int ("mx", mx);
	    vt_int ("dw", dw); vt_int ("dx", dx); vt_int ("w", w); vt_int ("fresh", fresh);
	    vt_int ("dither", dither); vt_int ("dox", dox); vt_int ("doy", doy); vt_int ("drep", drep);
	    vt_bytes ("src", src0, slen);
	    vt_bytes ("srcafter", src, slen);
	    vt_bytes ("msk", msk0, hasmask ? mlen : 0);
	    vt_bytes ("mskafter", msk, hasmask ? mlen : 0);
	    vt_bytes ("before", before, dlen);
	    vt_bytes ("after", dst, dlen);
	    vt_end ();
	    free (src); free (msk); free (before); free (src0); free (msk0);
	}
	else
	{
	    fprintf (stderr, "drv_composite: bad script line kind %s\n", kind);
	    return 3;
	}
    }
    free (dst);
    vt_close ();
    return 0;
}
