/* Conformance driver for C03: every drawing entry point on a destination that lives inside a logged
 * guard buffer, with clip regions on destination / source / mask and a destination alpha map; and
 * pixman_compute_composite_region.  Executes a script, logs the whole allocation after every call.
 * It never judges.
 *
 *   R name
 *   I dst fmt w h stride gb ga seed        destination image (row 0 starts gb bytes into the allocation)
 *   I src|mask solid r g b a | bits fmt w h seed repeat | linear repeat alpha1 alpha2 | none
 *   A dst fmt w h ox oy seed               destination alpha map (own logged allocation)
 *   A src|mask fmt w h ox oy               alpha map of a source (no clip)
 *   AO role ox oy | AD role                same alpha map again at another origin | detach it
 *   T src|mask tx ty | P src|mask repeat   pixman_image_set_transform (translation) | _set_repeat
 *   (A, AO, AD, C, F, T, P may be repeated in any order: S logs the FINAL properties)
 *   C dst|src|mask n (x1 y1 x2 y2)*        pixman_image_set_clip_region32 (n = -1: NULL); C16: the 16-bit setter
 *   CA src|mask n (x1 y1 x2 y2)*           clip region on that image's alpha map (inert unless FA enables it)
 *   FA src|mask clip_sources client_clip   the same two flags on that image's ALPHA MAP: with both on, the map's clip
 *                                          takes part in the composite region, placed at the alpha origin
 *   F src|mask clip_sources client_clip    pixman_image_set_source_clipping / _set_has_client_clip
 *   G id fmt w h ox oy seed                glyph id (image + origin) inserted into the glyph cache
 *   S                                      log the Setup event
 *   composite op sx sy mx my dx dy w h     pixman_image_composite32
 *   composite16 (same arguments)           pixman_image_composite (the 16-bit entry point; logged as the same request)
 *   region sx sy mx my dx dy w h           pixman_compute_composite_region (16-bit API)
 *   fillboxes|fillrects op r g b a n quads
 *   glyphs op maskfmt sx sy mx my dx dy w h n (id x y)*
 *   glyphsnm op sx sy dx dy n (id x y)*
 *   ctraps|ctris op maskfmt xs ys xd yd n (10|6 ints)*      pixman_composite_trapezoids / _triangles
 *   addtraps xoff yoff n (6 ints)*         pixman_add_traps
 *   addtrapezoids xoff yoff n (10 ints)*   pixman_add_trapezoids
 *   addtris xoff yoff n (6 ints)*          pixman_add_triangles
 *   rasterize xoff yoff 1 (10 ints)        pixman_rasterize_trapezoid
 */
#include "frame_common.h"

static fc_store_t dst, dalpha;
static int d_ox, d_oy, d_attached;          /* dalpha is attached to dst at (d_ox, d_oy) */
static fc_clipstate_t cst[3];                /* dst, src, mask */
static pixman_image_t *simg[3];              /* [1] src, [2] mask */
static uint32_t *sbits[3];
static pixman_image_t *salpha[3];
static uint32_t *salphabits[3];
static fc_clipstate_t acst[3];      /* clip state of the alpha maps of src / mask (index 1, 2) */
static int a_ox[3], a_oy[3];
static pixman_glyph_cache_t *cache;
#define MAXG 16
static const void *glyph[MAXG];
static int vals[8192];

static int
role_of (const char *s)
{
    if (!strcmp (s, "dst")) return 0;
    if (!strcmp (s, "src")) return 1;
    if (!strcmp (s, "mask")) return 2;
    fprintf (stderr, "bad role %s\n", s);
    exit (3);
}

static void
free_source (int r)
{
    if (simg[r]) pixman_image_unref (simg[r]);
    if (salpha[r]) pixman_image_unref (salpha[r]);
    free (sbits[r]);
    free (salphabits[r]);
    simg[r] = salpha[r] = NULL;
    sbits[r] = salphabits[r] = NULL;
    memset (&cst[r], 0, sizeof cst[r]);
    memset (&acst[r], 0, sizeof acst[r]);
}

static void
reset_all (void)
{
    if (dst.img)
	pixman_image_set_alpha_map (dst.img, NULL, 0, 0);
    fc_store_free (&dst);
    fc_store_free (&dalpha);
    free_source (1);
    free_source (2);
    memset (&cst[0], 0, sizeof cst[0]);
    if (cache)
	pixman_glyph_cache_destroy (cache);
    cache = NULL;
    memset (glyph, 0, sizeof glyph);
    d_ox = d_oy = d_attached = 0;
}

static uint32_t *
random_bits (pixman_format_code_t code, int w, int h, unsigned seed, int *stride)
{
    int st = ((w * PIXMAN_FORMAT_BPP (code) + 31) / 32) * 4;
    uint32_t *b = malloc ((size_t)st * (h > 0 ? h : 1) + 16);
    fc_pattern ((uint8_t *)b, st * h, seed);
    *stride = st;
    return b;
}

static void
log_rq (const int *v)
{
    fprintf (vt_out, ",\"rq\":{\"sx\":%d,\"sy\":%d,\"mx\":%d,\"my\":%d,\"dx\":%d,\"dy\":%d,\"w\":%d,\"h\":%d}",
	     v[0], v[1], v[2], v[3], v[4], v[5], v[6], v[7]);
}

static void
log_draw (const char *api, const char *op, const int *rq, int xoff, int yoff, const int *tv, int n, int per)
{
    static const int zero[8];
    vt_begin ("Draw");
    vt_str ("api", api);
    vt_str ("op", op);
    log_rq (rq ? rq : zero);
    vt_int ("xoff", xoff);
    vt_int ("yoff", yoff);
    fc_log_quads ("shapes", tv, n, per);
    fc_log_store ("after", &dst);
    if (d_attached)
	fc_log_store ("aafter", &dalpha);
    else
	fprintf (vt_out, ",\"aafter\":[]");
    vt_end ();
}

static void
fill_trapezoid (pixman_trapezoid_t *t, const int *v)
{
    t->top = v[0]; t->bottom = v[1];
    t->left.p1.x = v[2]; t->left.p1.y = v[3]; t->left.p2.x = v[4]; t->left.p2.y = v[5];
    t->right.p1.x = v[6]; t->right.p1.y = v[7]; t->right.p2.x = v[8]; t->right.p2.y = v[9];
}

static void
fill_triangle (pixman_triangle_t *t, const int *v)
{
    t->p1.x = v[0]; t->p1.y = v[1]; t->p2.x = v[2]; t->p2.y = v[3]; t->p3.x = v[4]; t->p3.y = v[5];
}

int
main (int argc, char **argv)
{
    FILE *in;
    char cmd[32], name[128], role[16], kind[16], fmt[32], opn[40], mfmt[32];
    if (argc < 3)
    {
	fprintf (stderr, "usage: drv_frame script trace\n");
	return 3;
    }
    in = fopen (argv[1], "r");
    if (!in) { perror (argv[1]); return 3; }
    vt_open (argv[2]);
    /* pixman reports the implementations disabled through PIXMAN_DISABLE on stdout when it initialises (before main):
     * hand that to the orchestrator now, so that it is not lost should a later call crash */
    pixman_version ();
    fflush (stdout);
    while (fscanf (in, "%31s", cmd) == 1)
    {
	if (!strcmp (cmd, "R"))
	{
	    if (fscanf (in, "%127s", name) != 1) return 3;
	    reset_all ();
	    vt_reset (name);
	    fflush (stdout);
	}
	else if (!strcmp (cmd, "I"))
	{
	    int r, v[6];
	    if (fscanf (in, "%15s", role) != 1) return 3;
	    r = role_of (role);
	    if (r == 0)
	    {
		if (fscanf (in, "%31s", fmt) != 1) return 3;
		fc_read_ints (in, v, 6);
		fc_store_image (&dst, fmt, v[0], v[1], v[2], v[3], v[4], (unsigned)v[5]);
		cst[0].present = 2;
	    }
	    else
	    {
		if (fscanf (in, "%15s", kind) != 1) return 3;
		free_source (r);
		if (!strcmp (kind, "solid"))
		{
		    pixman_color_t c;
		    fc_read_ints (in, v, 4);
		    c.red = (uint16_t)v[0]; c.green = (uint16_t)v[1]; c.blue = (uint16_t)v[2]; c.alpha = (uint16_t)v[3];
		    simg[r] = pixman_image_create_solid_fill (&c);
		    cst[r].present = 1;
		}
		else if (!strcmp (kind, "linear"))
		{
		    /* linear gradient (0,0)->(8,4), two stops with the given alphas; v: repeat a1 a2 */
		    pixman_point_fixed_t p1 = { 0, 0 }, p2 = { 8 << 16, 4 << 16 };
		    pixman_gradient_stop_t st[2];
		    fc_read_ints (in, v, 3);
		    st[0].x = 0;
		    st[0].color.red = 0xffff; st[0].color.green = 0x4000; st[0].color.blue = 0x0100;
		    st[0].color.alpha = (uint16_t)v[1];
		    st[1].x = 1 << 16;
		    st[1].color.red = 0x2000; st[1].color.green = 0xffff; st[1].color.blue = 0x8000;
		    st[1].color.alpha = (uint16_t)v[2];
		    simg[r] = pixman_image_create_linear_gradient (&p1, &p2, st, 2);
		    pixman_image_set_repeat (simg[r], (pixman_repeat_t)v[0]);
		    cst[r].present = 2;
		}
		else if (!strcmp (kind, "bits"))
		{
		    int st;
		    pixman_format_code_t code;
		    if (fscanf (in, "%31s", fmt) != 1) return 3;
		    fc_read_ints (in, v, 4);
		    code = fc_format (fmt);
		    sbits[r] = random_bits (code, v[0], v[1], (unsigned)v[2], &st);
		    simg[r] = pixman_image_create_bits (code, v[0], v[1], sbits[r], st);
		    pixman_image_set_repeat (simg[r], (pixman_repeat_t)v[3]);
		    cst[r].present = 2;
		}
	    }
	}
	else if (!strcmp (cmd, "A"))
	{
	    int r, v[5];
	    if (fscanf (in, "%15s %31s", role, fmt) != 2) return 3;
	    r = role_of (role);
	    if (r == 0)
	    {
		int st;
		fc_read_ints (in, v, 5);
		fc_store_t fresh;
		st = ((v[0] * PIXMAN_FORMAT_BPP (fc_format (fmt)) + 31) / 32) * 4 + 4;
		fc_store_image (&fresh, fmt, v[0], v[1], st, 8, 8, (unsigned)v[4]);
		d_ox = v[2];
		d_oy = v[3];
		/* attaches, or replaces the map attached before (which is then released) */
		pixman_image_set_alpha_map (dst.img, fresh.img, (int16_t)d_ox, (int16_t)d_oy);
		if (dalpha.mem)
		    fc_store_free (&dalpha);
		dalpha = fresh;
		d_attached = 1;
	    }
	    else
	    {
		int st;
		pixman_format_code_t code = fc_format (fmt);
		pixman_image_t *old = salpha[r];
		uint32_t *oldbits = salphabits[r];
		fc_read_ints (in, v, 4);
		salphabits[r] = random_bits (code, v[0], v[1], 99, &st);
		salpha[r] = pixman_image_create_bits (code, v[0], v[1], salphabits[r], st);
		pixman_image_set_alpha_map (simg[r], salpha[r], (int16_t)v[2], (int16_t)v[3]);
		memset (&acst[r], 0, sizeof acst[r]);      /* a new map: no clip, flags off */
		acst[r].present = 2;
		a_ox[r] = v[2]; a_oy[r] = v[3];
		if (old) pixman_image_unref (old);
		free (oldbits);
	    }
	}
	else if (!strcmp (cmd, "AO"))
	{
	    /* AO role ox oy: set the SAME alpha map again, at another origin (re-attaches it if it was detached) */
	    int r, v[2];
	    if (fscanf (in, "%15s", role) != 1) return 3;
	    r = role_of (role);
	    fc_read_ints (in, v, 2);
	    if (r == 0)
	    {
		if (!dalpha.img) return 3;
		d_ox = v[0];
		d_oy = v[1];
		pixman_image_set_alpha_map (dst.img, dalpha.img, (int16_t)d_ox, (int16_t)d_oy);
		d_attached = 1;
	    }
	    else if (salpha[r])
	    {
		pixman_image_set_alpha_map (simg[r], salpha[r], (int16_t)v[0], (int16_t)v[1]);
		acst[r].present = 2;
		a_ox[r] = v[0]; a_oy[r] = v[1];
	    }
	}
	else if (!strcmp (cmd, "AD"))
	{
	    /* AD role: detach the alpha map (the map itself is kept for a later AO) */
	    int r;
	    if (fscanf (in, "%15s", role) != 1) return 3;
	    r = role_of (role);
	    if (r == 0)
	    {
		pixman_image_set_alpha_map (dst.img, NULL, 0, 0);
		d_attached = 0;
	    }
	    else
	    {
		pixman_image_set_alpha_map (simg[r], NULL, 0, 0);
		acst[r].present = 0;
	    }
	}
	else if (!strcmp (cmd, "T"))
	{
	    /* T src|mask tx ty: integer translation as the image's transform (0 0: identity) */
	    int r, v[2];
	    pixman_transform_t t;
	    if (fscanf (in, "%15s", role) != 1) return 3;
	    r = role_of (role);
	    fc_read_ints (in, v, 2);
	    pixman_transform_init_translate (&t, pixman_int_to_fixed (v[0]), pixman_int_to_fixed (v[1]));
	    pixman_image_set_transform (simg[r], (v[0] || v[1]) ? &t : NULL);
	}
	else if (!strcmp (cmd, "P"))
	{
	    /* P src|mask repeat */
	    int r, v[1];
	    if (fscanf (in, "%15s", role) != 1) return 3;
	    r = role_of (role);
	    fc_read_ints (in, v, 1);
	    pixman_image_set_repeat (simg[r], (pixman_repeat_t)v[0]);
	}
	else if (!strcmp (cmd, "C") || !strcmp (cmd, "C16"))
	{
	    int r, n;
	    if (fscanf (in, "%15s", role) != 1) return 3;
	    r = role_of (role);
	    fc_read_ints (in, &n, 1);
	    if (n > 64) return 3;
	    if (n > 0)
		fc_read_ints (in, vals, 4 * n);
	    if (cmd[1])
		fc_set_clip16 (r == 0 ? dst.img : simg[r], &cst[r], n, vals);
	    else
		fc_set_clip (r == 0 ? dst.img : simg[r], &cst[r], n, vals);
	}
	else if (!strcmp (cmd, "CA"))
	{
	    /* CA src|mask n boxes: clip region on the role's ALPHA MAP (its clip_sources / client_clip stay off, so the
	     * clip takes no part in any region); n = -1: NULL */
	    int r, n;
	    if (fscanf (in, "%15s", role) != 1) return 3;
	    r = role_of (role);
	    fc_read_ints (in, &n, 1);
	    if (n > 64) return 3;
	    if (n > 0)
		fc_read_ints (in, vals, 4 * n);
	    if (r != 0 && salpha[r])
	    {
		int keep = acst[r].present;
		fc_set_clip (salpha[r], &acst[r], n, vals);
		acst[r].present = keep;
	    }
	}
	else if (!strcmp (cmd, "FA"))
	{
	    int r, v[2];
	    if (fscanf (in, "%15s", role) != 1) return 3;
	    r = role_of (role);
	    fc_read_ints (in, v, 2);
	    if (r != 0 && salpha[r])
	    {
		pixman_image_set_source_clipping (salpha[r], v[0]);
		pixman_image_set_has_client_clip (salpha[r], v[1]);
		acst[r].cs = v[0];
		acst[r].cc = v[1];
	    }
	}
	else if (!strcmp (cmd, "F"))
	{
	    int r, v[2];
	    if (fscanf (in, "%15s", role) != 1) return 3;
	    r = role_of (role);
	    fc_read_ints (in, v, 2);
	    pixman_image_set_source_clipping (simg[r], v[0]);
	    pixman_image_set_has_client_clip (simg[r], v[1]);
	    cst[r].cs = v[0];
	    cst[r].cc = v[1];
	}
	else if (!strcmp (cmd, "G"))
	{
	    int v[6], st;
	    uint32_t *b;
	    pixman_image_t *gi;
	    pixman_format_code_t code;
	    fc_read_ints (in, v, 1);
	    if (fscanf (in, "%31s", fmt) != 1) return 3;
	    fc_read_ints (in, v + 1, 5);
	    if (v[0] < 0 || v[0] >= MAXG) return 3;
	    code = fc_format (fmt);
	    if (!cache)
		cache = pixman_glyph_cache_create ();
	    b = random_bits (code, v[1], v[2], (unsigned)v[5], &st);
	    gi = pixman_image_create_bits (code, v[1], v[2], b, st);
	    pixman_glyph_cache_freeze (cache);
	    glyph[v[0]] = pixman_glyph_cache_insert (cache, (void *)1, (void *)(intptr_t)(v[0] + 1), v[3], v[4], gi);
	    pixman_glyph_cache_thaw (cache);
	    pixman_image_unref (gi);
	    free (b);
	    if (!glyph[v[0]]) return 3;
	}
	else if (!strcmp (cmd, "S"))
	{
	    fc_am_clip[1] = &acst[1]; fc_am_clip[2] = &acst[2];
	    fc_am_ox[1] = a_ox[1]; fc_am_oy[1] = a_oy[1]; fc_am_ox[2] = a_ox[2]; fc_am_oy[2] = a_oy[2];
	    fc_log_setup (&dst, &cst[0], d_attached ? &dalpha : NULL, d_ox, d_oy, &cst[1], &cst[2], NULL);
	}
	else if (!strcmp (cmd, "composite") || !strcmp (cmd, "composite16"))
	{
	    int v[8];
	    if (fscanf (in, "%39s", opn) != 1) return 3;
	    fc_read_ints (in, v, 8);
	    if (cmd[9])	/* the 16-bit entry point: the same request (the script only uses it when the values fit) */
		pixman_image_composite (fc_op (opn), simg[1], simg[2], dst.img, (int16_t)v[0], (int16_t)v[1], (int16_t)v[2],
					(int16_t)v[3], (int16_t)v[4], (int16_t)v[5], (uint16_t)v[6], (uint16_t)v[7]);
	    else
	    pixman_image_composite32 (fc_op (opn), simg[1], simg[2], dst.img, v[0], v[1], v[2], v[3], v[4], v[5], v[6], v[7]);
	    log_draw ("composite", opn, v, 0, 0, NULL, 0, 1);
	}
	else if (!strcmp (cmd, "region"))
	{
	    int v[8], ret, n, i;
	    pixman_region16_t rg;
	    pixman_box16_t *b;
	    fc_read_ints (in, v, 8);
	    pixman_region_init (&rg);
	    ret = pixman_compute_composite_region (&rg, simg[1], simg[2], dst.img, (int16_t)v[0], (int16_t)v[1],
						   (int16_t)v[2], (int16_t)v[3], (int16_t)v[4], (int16_t)v[5],
						   (uint16_t)v[6], (uint16_t)v[7]);
	    b = pixman_region_rectangles (&rg, &n);
	    vt_begin ("Region");
	    log_rq (v);
	    vt_bool ("ret", ret);
	    fprintf (vt_out, ",\"rects\":[");
	    for (i = 0; i < n; i++)
		fprintf (vt_out, "%s[%d,%d,%d,%d]", i ? "," : "", b[i].x1, b[i].y1, b[i].x2, b[i].y2);
	    fputc (']', vt_out);
	    vt_end ();
	    pixman_region_fini (&rg);
	}
	else if (!strcmp (cmd, "fillboxes") || !strcmp (cmd, "fillrects"))
	{
	    int api = !strcmp (cmd, "fillrects"), c[4], n, ret;
	    pixman_color_t col;
	    if (fscanf (in, "%39s", opn) != 1) return 3;
	    fc_read_ints (in, c, 4);
	    fc_read_ints (in, &n, 1);
	    if (n > 1000) return 3;
	    fc_read_ints (in, vals, 4 * n);
	    col.red = (uint16_t)c[0]; col.green = (uint16_t)c[1]; col.blue = (uint16_t)c[2]; col.alpha = (uint16_t)c[3];
	    ret = fc_fill_call (api, fc_op (opn), dst.img, &col, n, vals);
	    vt_begin ("FillBoxes");
	    vt_str ("api", api ? "rects" : "boxes");
	    vt_str ("op", opn);
	    fprintf (vt_out, ",\"col\":{\"r\":%d,\"g\":%d,\"b\":%d,\"a\":%d}", c[0], c[1], c[2], c[3]);
	    fc_log_quads ("boxes", vals, n, 4);
	    vt_bool ("ret", ret);
	    fc_log_store ("after", &dst);
	    if (d_attached)
		fc_log_store ("aafter", &dalpha);
	    else
		fprintf (vt_out, ",\"aafter\":[]");
	    fprintf (vt_out, ",\"ref\":[]");
	    vt_end ();
	}
	else if (!strcmp (cmd, "glyphs") || !strcmp (cmd, "glyphsnm"))
	{
	    int withmask = !strcmp (cmd, "glyphs"), v[8] = { 0 }, n, i;
	    pixman_glyph_t gl[64];
	    if (fscanf (in, "%39s", opn) != 1) return 3;
	    if (withmask)
	    {
		if (fscanf (in, "%31s", mfmt) != 1) return 3;
		fc_read_ints (in, v, 8);
	    }
	    else
	    {
		int t[4];
		fc_read_ints (in, t, 4);
		v[0] = t[0]; v[1] = t[1]; v[4] = t[2]; v[5] = t[3];
	    }
	    fc_read_ints (in, &n, 1);
	    if (n > 64) return 3;
	    fc_read_ints (in, vals, 3 * n);
	    for (i = 0; i < n; i++)
	    {
		gl[i].glyph = glyph[vals[3 * i]];
		gl[i].x = vals[3 * i + 1];
		gl[i].y = vals[3 * i + 2];
	    }
	    if (withmask)
		pixman_composite_glyphs (fc_op (opn), simg[1], dst.img, fc_format (mfmt), v[0], v[1], v[2], v[3],
					 v[4], v[5], v[6], v[7], cache, n, gl);
	    else
		pixman_composite_glyphs_no_mask (fc_op (opn), simg[1], dst.img, v[0], v[1], v[4], v[5], cache, n, gl);
	    log_draw (cmd, opn, v, 0, 0, vals, n, 3);
	}
	else if (!strcmp (cmd, "ctraps") || !strcmp (cmd, "ctris"))
	{
	    int tri = !strcmp (cmd, "ctris"), per = tri ? 6 : 10, v[8] = { 0 }, t[4], n, i;
	    if (fscanf (in, "%39s %31s", opn, mfmt) != 2) return 3;
	    fc_read_ints (in, t, 4);
	    v[0] = t[0]; v[1] = t[1]; v[4] = t[2]; v[5] = t[3];
	    fc_read_ints (in, &n, 1);
	    if (n > 64) return 3;
	    fc_read_ints (in, vals, per * n);
	    if (tri)
	    {
		pixman_triangle_t tr[64];
		for (i = 0; i < n; i++) fill_triangle (&tr[i], vals + 6 * i);
		pixman_composite_triangles (fc_op (opn), simg[1], dst.img, fc_format (mfmt), t[0], t[1], t[2], t[3], n, tr);
	    }
	    else
	    {
		pixman_trapezoid_t tz[64];
		for (i = 0; i < n; i++) fill_trapezoid (&tz[i], vals + 10 * i);
		pixman_composite_trapezoids (fc_op (opn), simg[1], dst.img, fc_format (mfmt), t[0], t[1], t[2], t[3], n, tz);
	    }
	    log_draw (cmd, opn, v, 0, 0, vals, n, per);
	}
	else if (!strcmp (cmd, "addtraps") || !strcmp (cmd, "addtrapezoids") || !strcmp (cmd, "addtris")
		 || !strcmp (cmd, "rasterize"))
	{
	    int per = !strcmp (cmd, "addtraps") || !strcmp (cmd, "addtris") ? 6 : 10, t[2], n, i;
	    fc_read_ints (in, t, 2);
	    fc_read_ints (in, &n, 1);
	    if (n > 64) return 3;
	    fc_read_ints (in, vals, per * n);
	    if (!strcmp (cmd, "addtraps"))
	    {
		pixman_trap_t tp[64];
		for (i = 0; i < n; i++)
		{
		    const int *q = vals + 6 * i;
		    tp[i].top.l = q[0]; tp[i].top.r = q[1]; tp[i].top.y = q[2];
		    tp[i].bot.l = q[3]; tp[i].bot.r = q[4]; tp[i].bot.y = q[5];
		}
		pixman_add_traps (dst.img, (int16_t)t[0], (int16_t)t[1], n, tp);
	    }
	    else if (!strcmp (cmd, "addtris"))
	    {
		pixman_triangle_t tr[64];
		for (i = 0; i < n; i++) fill_triangle (&tr[i], vals + 6 * i);
		pixman_add_triangles (dst.img, t[0], t[1], n, tr);
	    }
	    else
	    {
		pixman_trapezoid_t tz[64];
		for (i = 0; i < n; i++) fill_trapezoid (&tz[i], vals + 10 * i);
		if (!strcmp (cmd, "addtrapezoids"))
		    pixman_add_trapezoids (dst.img, (int16_t)t[0], t[1], n, tz);
		else
		    pixman_rasterize_trapezoid (dst.img, &tz[0], t[0], t[1]);
	    }
	    log_draw (cmd, "ADD", NULL, t[0], t[1], vals, n, per);
	}
	else
	{
	    fprintf (stderr, "drv_frame: unknown command %s\n", cmd);
	    return 3;
	}
    }
    reset_all ();
    vt_close ();
    return 0;
}
