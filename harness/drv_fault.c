/* C15: object-level scenarios under allocation failure.  For each scenario the driver first runs
 * fault-free (learning the number N of allocation requests and recording every call's normal return
 * value and, for drawing calls, the normal result), then re-runs it once per k = 1..N with the k-th
 * request refused once (mode 0) and from then on (mode 1).  Every API call is bracketed by Begin/End
 * events, every allocation request / release inside a call is an event.  The driver never judges.
 *
 * usage: drv_fault trace scenario seed [maxk]
 */
#include "vcommon.h"
#include "vfault.h"
#include <pixman.h>
#include <unistd.h>

#define MAXSTEPS 1024
#define MAXPIX 1024

static int step;                       /* index of the traced call inside the execution */
static int recording;                  /* fault-free run: remember normal results */
static char okret[MAXSTEPS][12];
static uint32_t okafter[MAXSTEPS][MAXPIX];    /* indexed by call-site line: loops re-use a slot per iteration via step += i */
static int f0;

#define call_begin(name, kind) do { step = __LINE__; call_begin_ (name, kind); } while (0)
#define draw_begin(name, pix, n) do { step = __LINE__; draw_begin_ (name, pix, n); } while (0)

static void
call_begin_ (const char *name, const char *kind)
{
    vt_begin ("Begin");
    vt_str ("call", name);
    vt_str ("kind", kind);
    vt_int ("step", step);
    vt_end ();
    f0 = vf_nfail;
    vf_begin ();
}

static void
call_end (const char *ret)
{
    vf_end ();
    if (recording && step < MAXSTEPS)
	snprintf (okret[step], sizeof okret[step], "%s", ret);
    vt_begin ("End");
    vt_str ("ret", ret);
    vt_str ("okret", step < MAXSTEPS ? okret[step] : "?");
    vt_int ("nfail", vf_nfail - f0);
    vt_end ();
}

/* drawing call on a 32-bpp destination of w x h pixels with rowstride in pixels: logs before/after/normal
 * result and the rectangles the call may touch */
static uint32_t before_buf[MAXPIX];

static void
draw_begin_ (const char *name, const uint32_t *pix, int n)
{
    memcpy (before_buf, pix, 4 * n);
    call_begin_ (name, "void");
}

static void
draw_end (const uint32_t *pix, int w, int h, const int *allowed, int nallowed)
{
    int n = w * h;
    vf_end ();
    if (recording && step < MAXSTEPS)
    {
	memcpy (okafter[step], pix, 4 * n);
	snprintf (okret[step], sizeof okret[step], "void");
    }
    vt_begin ("End");
    vt_str ("ret", "void");
    vt_str ("okret", "void");
    vt_int ("nfail", vf_nfail - f0);
    vt_int ("w", w);
    vt_int ("h", h);
    vt_ints ("allowed", allowed, 4 * nallowed);
    vt_w32s ("before", before_buf, n);
    vt_w32s ("after", pix, n);
    vt_w32s ("okafter", okafter[step < MAXSTEPS ? step : 0], n);
    vt_end ();
}

#define RET_PTR(p) ((p) ? "object" : "null")
#define RET_BOOL(b) ((b) ? "true" : "false")

static const pixman_color_t red = { 0xffff, 0x2000, 0x1000, 0xc000 };
static const pixman_color_t white = { 0xffff, 0xffff, 0xffff, 0xffff };

/* ---- scenario 1: bits images, setters, wide composite that needs heap scanline buffers ---- */
static void
scenario_images (vrng_t *rng)
{
    enum { W = 600, H = 1 };
    static uint32_t srcbits[W * 2], dstbits[W * H];
    pixman_image_t *src, *dst, *own, *amap;
    pixman_transform_t t;
    pixman_fixed_t conv[2 + 9];
    pixman_region32_t clip;
    pixman_box32_t boxes[3] = { { 0, 0, 100, 1 }, { 200, 0, 520, 1 }, { 530, 0, 600, 1 } };
    int allowed[12] = { 0, 0, 100, 1, 200, 0, 520, 1, 530, 0, 600, 1 };
    int full[4] = { 0, 0, W, H };
    int *al = full, nal = 1;       /* the destination clip applies only if its setter reported success */
    int i, r;

    for (i = 0; i < W * 2; i++)
	srcbits[i] = (uint32_t)vrng_next (rng) | 0xff000000;
    for (i = 0; i < W * H; i++)
	dstbits[i] = 0x80404040;

    call_begin ("image_create_bits", "ctor");
    own = pixman_image_create_bits (PIXMAN_a8r8g8b8, 16, 4, NULL, 0);      /* pixman allocates the pixels */
    call_end (RET_PTR (own));

    call_begin ("image_create_bits", "ctor");
    src = pixman_image_create_bits (PIXMAN_a8r8g8b8, W, 2, srcbits, W * 4);
    call_end (RET_PTR (src));

    call_begin ("image_create_bits", "ctor");
    dst = pixman_image_create_bits (PIXMAN_a8r8g8b8, W, H, dstbits, W * 4);
    call_end (RET_PTR (dst));

    call_begin ("image_create_bits", "ctor");
    amap = pixman_image_create_bits (PIXMAN_a8, 16, 4, NULL, 0);
    call_end (RET_PTR (amap));

    if (src)
    {
	pixman_transform_init_scale (&t, pixman_double_to_fixed (1.0), pixman_double_to_fixed (1.5));
	call_begin ("image_set_transform", "status");
	r = pixman_image_set_transform (src, &t);
	call_end (RET_BOOL (r));

	conv[0] = pixman_int_to_fixed (3);
	conv[1] = pixman_int_to_fixed (3);
	for (i = 0; i < 9; i++)
	    conv[2 + i] = 65536 / 9 + (i == 4 ? 65536 - 9 * (65536 / 9) : 0);
	call_begin ("image_set_filter", "status");
	r = pixman_image_set_filter (src, PIXMAN_FILTER_CONVOLUTION, conv, 11);
	call_end (RET_BOOL (r));
    }
    if (own && amap)
    {
	call_begin ("image_set_alpha_map", "void");
	pixman_image_set_alpha_map (own, amap, 0, 0);
	call_end ("void");
    }
    if (dst)
    {
	pixman_region32_init_rects (&clip, boxes, 3);
	call_begin ("image_set_clip_region32", "status");
	r = pixman_image_set_clip_region32 (dst, &clip);
	call_end (RET_BOOL (r));
	if (r)
	{
	    al = allowed; nal = 3;
	}
	pixman_region32_fini (&clip);
    }
    if (src && dst)
    {
	/* a float-evaluated operator: the general path needs 3 * 600 * 16 bytes of scanline buffers */
	draw_begin ("image_composite32", dstbits, W * H);
	pixman_image_composite32 (PIXMAN_OP_DISJOINT_OVER, src, NULL, dst, 0, 0, 0, 0, 0, 0, W, H);
	draw_end (dstbits, W, H, al, nal);

	draw_begin ("image_composite32", dstbits, W * H);
	pixman_image_composite32 (PIXMAN_OP_OVER, src, NULL, dst, 0, 0, 0, 0, 0, 0, W, H);
	draw_end (dstbits, W, H, al, nal);
    }
    if (own && dst)
    {
	draw_begin ("image_composite32", dstbits, W * H);
	pixman_image_composite32 (PIXMAN_OP_ADD, own, NULL, dst, 0, 0, 0, 0, 10, 0, 16, 1);
	draw_end (dstbits, W, H, al, nal);
    }
    if (dst)
    {
	pixman_rectangle16_t rects[8];
	for (i = 0; i < 8; i++)
	{
	    rects[i].x = 20 + 70 * i; rects[i].y = 0; rects[i].width = 30; rects[i].height = 1;
	}
	draw_begin ("image_fill_rectangles", dstbits, W * H);
	r = pixman_image_fill_rectangles (PIXMAN_OP_OVER, dst, &red, 8, rects);
	draw_end (dstbits, W, H, al, nal);
	(void)r;
    }
    call_begin ("image_unref", "void"); if (own) pixman_image_unref (own); call_end ("void");
    call_begin ("image_unref", "void"); if (amap) pixman_image_unref (amap); call_end ("void");
    call_begin ("image_unref", "void"); if (src) pixman_image_unref (src); call_end ("void");
    call_begin ("image_unref", "void"); if (dst) pixman_image_unref (dst); call_end ("void");
}

/* ---- scenario 2: gradients ---- */
static void
scenario_gradients (vrng_t *rng)
{
    enum { W = 24, H = 2 };
    static uint32_t dstbits[W * H];
    pixman_image_t *dst, *lin, *rad, *con, *sol;
    pixman_gradient_stop_t stops[3] = { { 0, { 0xffff, 0, 0, 0xffff } }, { 0x8000, { 0, 0xffff, 0, 0x8000 } },
					{ 0x10000, { 0, 0, 0xffff, 0xffff } } };
    pixman_point_fixed_t p1 = { 0, 0 }, p2 = { pixman_int_to_fixed (W), pixman_int_to_fixed (H) };
    int allowed[4] = { 0, 0, W, H };
    int i;
    (void)rng;
    for (i = 0; i < W * H; i++)
	dstbits[i] = 0xff102030;
    call_begin ("image_create_bits", "ctor");
    dst = pixman_image_create_bits (PIXMAN_a8r8g8b8, W, H, dstbits, W * 4);
    call_end (RET_PTR (dst));
    call_begin ("create_linear_gradient", "ctor");
    lin = pixman_image_create_linear_gradient (&p1, &p2, stops, 3);
    call_end (RET_PTR (lin));
    call_begin ("create_radial_gradient", "ctor");
    rad = pixman_image_create_radial_gradient (&p1, &p2, pixman_int_to_fixed (1), pixman_int_to_fixed (9), stops, 3);
    call_end (RET_PTR (rad));
    call_begin ("create_conical_gradient", "ctor");
    con = pixman_image_create_conical_gradient (&p2, pixman_int_to_fixed (30), stops, 2);
    call_end (RET_PTR (con));
    call_begin ("create_solid_fill", "ctor");
    sol = pixman_image_create_solid_fill (&red);
    call_end (RET_PTR (sol));
    if (dst)
    {
	pixman_image_t *g[4];
	g[0] = lin; g[1] = rad; g[2] = con; g[3] = sol;
	for (i = 0; i < 4; i++)
	    if (g[i])
	    {
		draw_begin ("image_composite32", dstbits, W * H); step += 200 + i;
		pixman_image_composite32 (i == 1 ? PIXMAN_OP_HSL_HUE : PIXMAN_OP_OVER, g[i], NULL, dst, 0, 0, 0, 0, 0, 0, W, H);
		draw_end (dstbits, W, H, allowed, 1);
	    }
    }
    call_begin ("image_unref", "void"); if (lin) pixman_image_unref (lin); call_end ("void");
    call_begin ("image_unref", "void"); if (rad) pixman_image_unref (rad); call_end ("void");
    call_begin ("image_unref", "void"); if (con) pixman_image_unref (con); call_end ("void");
    call_begin ("image_unref", "void"); if (sol) pixman_image_unref (sol); call_end ("void");
    call_begin ("image_unref", "void"); if (dst) pixman_image_unref (dst); call_end ("void");
}

/* ---- scenario 3: trapezoids and triangles ---- */
static void
scenario_traps (vrng_t *rng)
{
    enum { W = 20, H = 6 };
    static uint32_t dstbits[W * H];
    pixman_image_t *dst, *src, *adst;
    static uint32_t abits[4 * H];
    int aallowed[4] = { 0, 0, 4, H };
    pixman_trapezoid_t traps[2];
    pixman_triangle_t tris[2];
    int allowed[4] = { 0, 0, W, H };
    int i;
#define FX(v) ((pixman_fixed_t)((v) * 65536))
    for (i = 0; i < W * H; i++)
	dstbits[i] = 0x40302010;
    memset (abits, 0x20, sizeof abits);
    for (i = 0; i < 2; i++)
    {
	int ox = 9 * i + (int)vrng_below (rng, 2);
	traps[i].top = FX (0.5);
	traps[i].bottom = FX (5.25);
	traps[i].left.p1.x = FX (1 + ox); traps[i].left.p1.y = FX (0);
	traps[i].left.p2.x = FX (3 + ox); traps[i].left.p2.y = FX (6);
	traps[i].right.p1.x = FX (8 + ox); traps[i].right.p1.y = FX (0);
	traps[i].right.p2.x = FX (6.5 + ox); traps[i].right.p2.y = FX (6);
	tris[i].p1.x = FX (2 + ox); tris[i].p1.y = FX (0.25);
	tris[i].p2.x = FX (9 + ox); tris[i].p2.y = FX (2);
	tris[i].p3.x = FX (4 + ox); tris[i].p3.y = FX (5.5);
    }
    call_begin ("image_create_bits", "ctor");
    dst = pixman_image_create_bits (PIXMAN_a8r8g8b8, W, H, dstbits, W * 4);
    call_end (RET_PTR (dst));
    call_begin ("create_solid_fill", "ctor");
    src = pixman_image_create_solid_fill (&red);
    call_end (RET_PTR (src));
    if (dst && src)
    {
	draw_begin ("composite_trapezoids", dstbits, W * H);
	pixman_composite_trapezoids (PIXMAN_OP_OVER, src, dst, PIXMAN_a8, 0, 0, 0, 0, 2, traps);
	draw_end (dstbits, W, H, allowed, 1);
	draw_begin ("composite_triangles", dstbits, W * H);
	pixman_composite_triangles (PIXMAN_OP_OVER, src, dst, PIXMAN_a8, 0, 0, 0, 0, 2, tris);
	draw_end (dstbits, W, H, allowed, 1);
	draw_begin ("composite_trapezoids", dstbits, W * H);
	pixman_composite_trapezoids (PIXMAN_OP_ADD, src, dst, PIXMAN_a1, 0, 0, 1, 0, 2, traps);
	draw_end (dstbits, W, H, allowed, 1);
    }
    call_begin ("image_create_bits", "ctor");
    adst = pixman_image_create_bits (PIXMAN_a8, 16, H, abits, 16);
    call_end (RET_PTR (adst));
    if (adst)
    {
	/* alpha-only destination of 16 x 6 bytes, logged as 4 x 6 words */
	draw_begin ("add_trapezoids", abits, 4 * H);
	pixman_add_trapezoids (adst, 0, 0, 2, traps);
	draw_end (abits, 4, H, aallowed, 1);
	draw_begin ("add_triangles", abits, 4 * H);
	pixman_add_triangles (adst, 0, 0, 2, tris);
	draw_end (abits, 4, H, aallowed, 1);
    }
    call_begin ("image_unref", "void"); if (adst) pixman_image_unref (adst); call_end ("void");
    call_begin ("image_unref", "void"); if (src) pixman_image_unref (src); call_end ("void");
    call_begin ("image_unref", "void"); if (dst) pixman_image_unref (dst); call_end ("void");
}

/* ---- scenario 4: glyph cache ---- */
static void
scenario_glyphs (vrng_t *rng)
{
    enum { W = 24, H = 8 };
    static uint32_t dstbits[W * H];
    static uint32_t gbits[3][8 * 8];
    pixman_image_t *dst, *src, *gimg[3];
    pixman_glyph_cache_t *cache;
    const void *g[3] = { NULL, NULL, NULL };
    pixman_glyph_t glyphs[3];
    pixman_format_code_t gf[3] = { PIXMAN_a8, PIXMAN_a8r8g8b8, PIXMAN_a8 };
    int allowed[4] = { 0, 0, W, H };
    int i, n = 0;
    for (i = 0; i < W * H; i++)
	dstbits[i] = 0xff000000;
    call_begin ("image_create_bits", "ctor");
    dst = pixman_image_create_bits (PIXMAN_a8r8g8b8, W, H, dstbits, W * 4);
    call_end (RET_PTR (dst));
    call_begin ("create_solid_fill", "ctor");
    src = pixman_image_create_solid_fill (&white);
    call_end (RET_PTR (src));
    for (i = 0; i < 3; i++)
    {
	int j;
	for (j = 0; j < 64; j++)
	    gbits[i][j] = (uint32_t)vrng_next (rng);
	call_begin ("image_create_bits", "ctor");
	gimg[i] = pixman_image_create_bits (gf[i], 6, 6, gbits[i], 8 * 4 / (gf[i] == PIXMAN_a8 ? 4 : 1));
	call_end (RET_PTR (gimg[i]));
    }
    call_begin ("glyph_cache_create", "ctor");
    cache = pixman_glyph_cache_create ();
    call_end (RET_PTR (cache));
    if (cache)
    {
	call_begin ("glyph_cache_freeze", "void");
	pixman_glyph_cache_freeze (cache);
	call_end ("void");
	for (i = 0; i < 3; i++)
	    if (gimg[i])
	    {
		call_begin ("glyph_cache_insert", "ctor");
		g[i] = pixman_glyph_cache_insert (cache, (void *)0x100, (void *)(uintptr_t)(0x10 + i), 1, 2, gimg[i]);
		call_end (RET_PTR (g[i]));
		if (g[i])
		{
		    glyphs[n].x = 3 + 7 * i; glyphs[n].y = 3; glyphs[n].glyph = g[i];
		    n++;
		}
	    }
	if (dst && src && n)
	{
	    draw_begin ("composite_glyphs", dstbits, W * H);
	    pixman_composite_glyphs (PIXMAN_OP_OVER, src, dst, PIXMAN_a8, 0, 0, 0, 0, 0, 0, W, H, cache, n, glyphs);
	    draw_end (dstbits, W, H, allowed, 1);
	    draw_begin ("composite_glyphs_no_mask", dstbits, W * H);
	    pixman_composite_glyphs_no_mask (PIXMAN_OP_OVER, src, dst, 0, 0, 0, 0, cache, n, glyphs);
	    draw_end (dstbits, W, H, allowed, 1);
	}
	call_begin ("glyph_cache_thaw", "void");
	pixman_glyph_cache_thaw (cache);
	call_end ("void");
	if (g[0])
	{
	    call_begin ("glyph_cache_remove", "void");
	    pixman_glyph_cache_remove (cache, (void *)0x100, (void *)(uintptr_t)0x10);
	    call_end ("void");
	}
	call_begin ("glyph_cache_destroy", "void");
	pixman_glyph_cache_destroy (cache);
	call_end ("void");
    }
    for (i = 0; i < 3; i++)
    {
	call_begin ("image_unref", "void"); if (gimg[i]) pixman_image_unref (gimg[i]); call_end ("void");
    }
    call_begin ("image_unref", "void"); if (src) pixman_image_unref (src); call_end ("void");
    call_begin ("image_unref", "void"); if (dst) pixman_image_unref (dst); call_end ("void");
}

/* ---- scenario 5: separable convolution filter, 16-bit clip regions, fill_boxes ---- */
static void
scenario_filter (vrng_t *rng)
{
    enum { W = 16, H = 4 };
    static uint32_t dstbits[W * H], srcbits[W * H];
    pixman_image_t *dst, *src;
    pixman_fixed_t *params;
    pixman_region16_t clip16;
    pixman_box16_t b16[2] = { { 1, 0, 7, 4 }, { 9, 1, 15, 3 } };
    int allowed[8] = { 1, 0, 7, 4, 9, 1, 15, 3 };
    int full[4] = { 0, 0, W, H };
    int *al = full, nal = 1;
    pixman_box32_t fb[2] = { { 0, 0, 16, 2 }, { 3, 2, 12, 4 } };
    int i, n, r;
    for (i = 0; i < W * H; i++)
    {
	dstbits[i] = 0xff808080;
	srcbits[i] = (uint32_t)vrng_next (rng) | 0xff000000;
    }
    call_begin ("image_create_bits", "ctor");
    dst = pixman_image_create_bits (PIXMAN_a8r8g8b8, W, H, dstbits, W * 4);
    call_end (RET_PTR (dst));
    call_begin ("image_create_bits", "ctor");
    src = pixman_image_create_bits (PIXMAN_a8r8g8b8, W, H, srcbits, W * 4);
    call_end (RET_PTR (src));
    call_begin ("filter_create_separable_convolution", "ctor");
    params = pixman_filter_create_separable_convolution (&n, pixman_double_to_fixed (1.5), pixman_double_to_fixed (0.75),
							 PIXMAN_KERNEL_LINEAR, PIXMAN_KERNEL_BOX,
							 PIXMAN_KERNEL_CUBIC, PIXMAN_KERNEL_IMPULSE, 2, 1);
    call_end (RET_PTR (params));
    if (src && params)
    {
	call_begin ("image_set_filter", "status");
	r = pixman_image_set_filter (src, PIXMAN_FILTER_SEPARABLE_CONVOLUTION, params, n);
	call_end (RET_BOOL (r));
    }
    if (dst)
    {
	pixman_region_init_rects (&clip16, b16, 2);
	call_begin ("image_set_clip_region", "status");
	r = pixman_image_set_clip_region (dst, &clip16);
	call_end (RET_BOOL (r));
	if (r)
	{
	    al = allowed; nal = 2;
	}
	pixman_region_fini (&clip16);
    }
    if (src && dst)
    {
	draw_begin ("image_composite32", dstbits, W * H);
	pixman_image_composite32 (PIXMAN_OP_SRC, src, NULL, dst, 0, 0, 0, 0, 0, 0, W, H);
	draw_end (dstbits, W, H, al, nal);
    }
    if (dst)
    {
	draw_begin ("image_fill_boxes", dstbits, W * H);
	r = pixman_image_fill_boxes (PIXMAN_OP_IN_REVERSE, dst, &red, 2, fb);
	draw_end (dstbits, W, H, al, nal);
    }
    /* the block belongs to the caller, who releases it with free() */
    call_begin ("free_filter_params", "void"); free (params); call_end ("void");
    call_begin ("image_unref", "void"); if (src) pixman_image_unref (src); call_end ("void");
    call_begin ("image_unref", "void"); if (dst) pixman_image_unref (dst); call_end ("void");
}

typedef void (*scenario_t) (vrng_t *);
static const struct { const char *name; scenario_t fn; } scenarios[] = {
    { "images", scenario_images }, { "gradients", scenario_gradients }, { "traps", scenario_traps },
    { "glyphs", scenario_glyphs }, { "filter", scenario_filter },
};

static void
run_once (int sc, uint64_t seed, int k, int mode)
{
    vrng_t rng;
    char name[64];
    vrng_seed (&rng, seed);
    snprintf (name, sizeof name, "%s-s%llu-k%d-m%d", scenarios[sc].name, (unsigned long long)seed, k, mode);
    vt_reset (name);
    step = 0;
    recording = (k == 0);
    vf_nalloc = 0;
    if (k)
	vf_arm (k, mode);
    else
	vf_disarm ();
    alarm (20);
    scenarios[sc].fn (&rng);
    alarm (0);
    vf_disarm ();
    vt_begin ("Final");
    vt_end ();
}

int
main (int argc, char **argv)
{
    int sc, k, n, maxk = 1000;
    uint64_t seed;
    unsigned i;
    if (argc < 4)
    {
	fprintf (stderr, "usage: drv_fault trace scenario seed [maxk]\n");
	return 3;
    }
    for (sc = -1, i = 0; i < sizeof scenarios / sizeof scenarios[0]; i++)
	if (!strcmp (scenarios[i].name, argv[2]))
	    sc = (int)i;
    if (sc < 0)
	return 3;
    seed = strtoull (argv[3], NULL, 10);
    if (argc > 4)
	maxk = atoi (argv[4]);
    vt_open (argv[1]);
    vf_log (1);
    run_once (sc, seed, 0, 0);
    n = vf_nalloc;
    printf ("%d\n", n);
    for (k = 1; k <= n && k <= maxk; k++)
    {
	run_once (sc, seed, k, 0);
	run_once (sc, seed, k, 1);
    }
    vt_close ();
    return 0;
}
