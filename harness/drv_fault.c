/* C15: object-level scenarios under allocation failure.  For each scenario the driver first runs
 * fault-free (learning the number N of allocation requests and recording every call's normal return
 * value and, for drawing calls, the normal result), then re-runs it once per k = 1..N with the k-th
 * request refused once (mode 0) and from then on (mode 1).  Every API call is bracketed by Begin/End
 * events, every allocation request / release inside a call is an event.  The driver never judges.
 *
 * usage: drv_fault trace scenario seed [maxk]
 *        drv_fault trace @casefile seed [maxk [modes]]
 *
 * Second form ("focused cases"): every line `C name family p1 p2 ...` of the case file (written by the
 * generator in checks/alloc.py) is one execution: objects are set up without faults, ONE target call is
 * executed with the k-th allocation request *of that call* refused (mode 0 once, mode 1 for the rest of the
 * call, mode 2 for the rest of the execution), then the objects are used again and destroyed without
 * faults.  The fault-free run tells N = number of requests of the target call; k runs over 1..N.
 */
#include "vcommon.h"
#include "vfault.h"
#include <pixman.h>
#include <unistd.h>

#define MAXSTEPS 2200
#define MAXPIX 2304

static int step;                       /* index of the traced call inside the execution */
static int recording;                  /* fault-free run: remember normal results */
static char okret[MAXSTEPS][12];
static uint32_t okafter[MAXSTEPS][MAXPIX];    /* indexed by call-site line: loops re-use a slot per iteration via step += i */
static int f0;

#define call_begin(name, kind) do { step = __LINE__; call_begin_ (name, kind); } while (0)
#define draw_begin(name, pix, n) do { step = __LINE__; draw_begin_ (name, pix, n); } while (0)

static void
call_begin_ (const char *name, const char *kind)
{
    vt_begin ("Begin");
    vt_str ("call", name);
    vt_str ("kind", kind);
    vt_int ("step", step);
    vt_end ();
    f0 = vf_nfail;
    vf_begin ();
}

static void
call_end (const char *ret)
{
    vf_end ();
    if (recording && step < MAXSTEPS)
	snprintf (okret[step], sizeof okret[step], "%s", ret);
    vt_begin ("End");
    vt_str ("ret", ret);
    vt_str ("okret", step < MAXSTEPS ? okret[step] : "?");
    vt_int ("nfail", vf_nfail - f0);
    vt_end ();
}

/* drawing call on a 32-bpp destination of w x h pixels with rowstride in pixels: logs before/after/normal
 * result and the rectangles the call may touch */
static uint32_t before_buf[MAXPIX];

static void
draw_begin_ (const char *name, const uint32_t *pix, int n)
{
    memcpy (before_buf, pix, 4 * n);
    call_begin_ (name, "void");
}

static int draw_indep;      /* set before draw_end: the expected result does not depend on earlier (possibly failed) drawing calls */

static void
draw_end (const uint32_t *pix, int w, int h, const int *allowed, int nallowed)
{
    int n = w * h;
    vf_end ();
    if (recording && step < MAXSTEPS)
    {
	memcpy (okafter[step], pix, 4 * n);
	snprintf (okret[step], sizeof okret[step], "void");
    }
    vt_begin ("End");
    vt_str ("ret", "void");
    vt_str ("okret", "void");
    vt_int ("nfail", vf_nfail - f0);
    vt_int ("w", w);
    vt_int ("h", h);
    vt_ints ("allowed", allowed, 4 * nallowed);
    if (draw_indep)
	vt_int ("indep", 1);
    draw_indep = 0;
    vt_w32s ("before", before_buf, n);
    vt_w32s ("after", pix, n);
    vt_w32s ("okafter", okafter[step < MAXSTEPS ? step : 0], n);
    vt_end ();
}

#define RET_PTR(p) ((p) ? "object" : "null")
#define RET_BOOL(b) ((b) ? "true" : "false")

static const pixman_color_t red = { 0xffff, 0x2000, 0x1000, 0xc000 };
static const pixman_color_t white = { 0xffff, 0xffff, 0xffff, 0xffff };

/* ---- scenario 1: bits images, setters, wide composite that needs heap scanline buffers ---- */
static void
scenario_images (vrng_t *rng)
{
    enum { W = 600, H = 1 };
    static uint32_t srcbits[W * 2], dstbits[W * H];
    pixman_image_t *src, *dst, *own, *amap;
    pixman_transform_t t;
    pixman_fixed_t conv[2 + 9];
    pixman_region32_t clip;
    pixman_box32_t boxes[3] = { { 0, 0, 100, 1 }, { 200, 0, 520, 1 }, { 530, 0, 600, 1 } };
    int allowed[12] = { 0, 0, 100, 1, 200, 0, 520, 1, 530, 0, 600, 1 };
    int full[4] = { 0, 0, W, H };
    int *al = full, nal = 1;       /* the destination clip applies only if its setter reported success */
    int i, r;

    for (i = 0; i < W * 2; i++)
	srcbits[i] = (uint32_t)vrng_next (rng) | 0xff000000;
    for (i = 0; i < W * H; i++)
	dstbits[i] = 0x80404040;

    call_begin ("image_create_bits", "ctor");
    own = pixman_image_create_bits (PIXMAN_a8r8g8b8, 16, 4, NULL, 0);      /* pixman allocates the pixels */
    call_end (RET_PTR (own));

    call_begin ("image_create_bits", "ctor");
    src = pixman_image_create_bits (PIXMAN_a8r8g8b8, W, 2, srcbits, W * 4);
    call_end (RET_PTR (src));

    call_begin ("image_create_bits", "ctor");
    dst = pixman_image_create_bits (PIXMAN_a8r8g8b8, W, H, dstbits, W * 4);
    call_end (RET_PTR (dst));

    call_begin ("image_create_bits", "ctor");
    amap = pixman_image_create_bits (PIXMAN_a8, 16, 4, NULL, 0);
    call_end (RET_PTR (amap));

    if (src)
    {
	pixman_transform_init_scale (&t, pixman_double_to_fixed (1.0), pixman_double_to_fixed (1.5));
	call_begin ("image_set_transform", "status");
	r = pixman_image_set_transform (src, &t);
	call_end (RET_BOOL (r));

	conv[0] = pixman_int_to_fixed (3);
	conv[1] = pixman_int_to_fixed (3);
	for (i = 0; i < 9; i++)
	    conv[2 + i] = 65536 / 9 + (i == 4 ? 65536 - 9 * (65536 / 9) : 0);
	call_begin ("image_set_filter", "status");
	r = pixman_image_set_filter (src, PIXMAN_FILTER_CONVOLUTION, conv, 11);
	call_end (RET_BOOL (r));
    }
    if (own && amap)
    {
	call_begin ("image_set_alpha_map", "void");
	pixman_image_set_alpha_map (own, amap, 0, 0);
	call_end ("void");
    }
    if (dst)
    {
	pixman_region32_init_rects (&clip, boxes, 3);
	call_begin ("image_set_clip_region32", "status");
	r = pixman_image_set_clip_region32 (dst, &clip);
	call_end (RET_BOOL (r));
	if (r)
	{
	    al = allowed; nal = 3;
	}
	pixman_region32_fini (&clip);
    }
    if (src && dst)
    {
	/* a float-evaluated operator: the general path needs 3 * 600 * 16 bytes of scanline buffers */
	draw_begin ("image_composite32", dstbits, W * H);
	pixman_image_composite32 (PIXMAN_OP_DISJOINT_OVER, src, NULL, dst, 0, 0, 0, 0, 0, 0, W, H);
	draw_end (dstbits, W, H, al, nal);

	draw_begin ("image_composite32", dstbits, W * H);
	pixman_image_composite32 (PIXMAN_OP_OVER, src, NULL, dst, 0, 0, 0, 0, 0, 0, W, H);
	draw_end (dstbits, W, H, al, nal);
    }
    if (own && dst)
    {
	draw_begin ("image_composite32", dstbits, W * H);
	pixman_image_composite32 (PIXMAN_OP_ADD, own, NULL, dst, 0, 0, 0, 0, 10, 0, 16, 1);
	draw_end (dstbits, W, H, al, nal);
    }
    if (dst)
    {
	pixman_rectangle16_t rects[8];
	for (i = 0; i < 8; i++)
	{
	    rects[i].x = 20 + 70 * i; rects[i].y = 0; rects[i].width = 30; rects[i].height = 1;
	}
	draw_begin ("image_fill_rectangles", dstbits, W * H);
	r = pixman_image_fill_rectangles (PIXMAN_OP_OVER, dst, &red, 8, rects);
	draw_end (dstbits, W, H, al, nal);
	(void)r;
    }
    call_begin ("image_unref", "void"); if (own) pixman_image_unref (own); call_end ("void");
    call_begin ("image_unref", "void"); if (amap) pixman_image_unref (amap); call_end ("void");
    call_begin ("image_unref", "void"); if (src) pixman_image_unref (src); call_end ("void");
    call_begin ("image_unref", "void"); if (dst) pixman_image_unref (dst); call_end ("void");
}

/* ---- scenario 2: gradients ---- */
static void
scenario_gradients (vrng_t *rng)
{
    enum { W = 24, H = 2 };
    static uint32_t dstbits[W * H];
    pixman_image_t *dst, *lin, *rad, *con, *sol;
    pixman_gradient_stop_t stops[3] = { { 0, { 0xffff, 0, 0, 0xffff } }, { 0x8000, { 0, 0xffff, 0, 0x8000 } },
					{ 0x10000, { 0, 0, 0xffff, 0xffff } } };
    pixman_point_fixed_t p1 = { 0, 0 }, p2 = { pixman_int_to_fixed (W), pixman_int_to_fixed (H) };
    int allowed[4] = { 0, 0, W, H };
    int i;
    (void)rng;
    for (i = 0; i < W * H; i++)
	dstbits[i] = 0xff102030;
    call_begin ("image_create_bits", "ctor");
    dst = pixman_image_create_bits (PIXMAN_a8r8g8b8, W, H, dstbits, W * 4);
    call_end (RET_PTR (dst));
    call_begin ("create_linear_gradient", "ctor");
    lin = pixman_image_create_linear_gradient (&p1, &p2, stops, 3);
    call_end (RET_PTR (lin));
    call_begin ("create_radial_gradient", "ctor");
    rad = pixman_image_create_radial_gradient (&p1, &p2, pixman_int_to_fixed (1), pixman_int_to_fixed (9), stops, 3);
    call_end (RET_PTR (rad));
    call_begin ("create_conical_gradient", "ctor");
    con = pixman_image_create_conical_gradient (&p2, pixman_int_to_fixed (30), stops, 2);
    call_end (RET_PTR (con));
    call_begin ("create_solid_fill", "ctor");
    sol = pixman_image_create_solid_fill (&red);
    call_end (RET_PTR (sol));
    if (dst)
    {
	pixman_image_t *g[4];
	g[0] = lin; g[1] = rad; g[2] = con; g[3] = sol;
	for (i = 0; i < 4; i++)
	    if (g[i])
	    {
		draw_begin ("image_composite32", dstbits, W * H); step += 200 + i;
		pixman_image_composite32 (i == 1 ? PIXMAN_OP_HSL_HUE : PIXMAN_OP_OVER, g[i], NULL, dst, 0, 0, 0, 0, 0, 0, W, H);
		draw_end (dstbits, W, H, allowed, 1);
	    }
    }
    call_begin ("image_unref", "void"); if (lin) pixman_image_unref (lin); call_end ("void");
    call_begin ("image_unref", "void"); if (rad) pixman_image_unref (rad); call_end ("void");
    call_begin ("image_unref", "void"); if (con) pixman_image_unref (con); call_end ("void");
    call_begin ("image_unref", "void"); if (sol) pixman_image_unref (sol); call_end ("void");
    call_begin ("image_unref", "void"); if (dst) pixman_image_unref (dst); call_end ("void");
}

/* ---- scenario 3: trapezoids and triangles ---- */
static void
scenario_traps (vrng_t *rng)
{
    enum { W = 20, H = 6 };
    static uint32_t dstbits[W * H];
    pixman_image_t *dst, *src, *adst;
    static uint32_t abits[4 * H];
    int aallowed[4] = { 0, 0, 4, H };
    pixman_trapezoid_t traps[2];
    pixman_triangle_t tris[2];
    int allowed[4] = { 0, 0, W, H };
    int i;
#define FX(v) ((pixman_fixed_t)((v) * 65536))
    for (i = 0; i < W * H; i++)
	dstbits[i] = 0x40302010;
    memset (abits, 0x20, sizeof abits);
    for (i = 0; i < 2; i++)
    {
	int ox = 9 * i + (int)vrng_below (rng, 2);
	traps[i].top = FX (0.5);
	traps[i].bottom = FX (5.25);
	traps[i].left.p1.x = FX (1 + ox); traps[i].left.p1.y = FX (0);
	traps[i].left.p2.x = FX (3 + ox); traps[i].left.p2.y = FX (6);
	traps[i].right.p1.x = FX (8 + ox); traps[i].right.p1.y = FX (0);
	traps[i].right.p2.x = FX (6.5 + ox); traps[i].right.p2.y = FX (6);
	tris[i].p1.x = FX (2 + ox); tris[i].p1.y = FX (0.25);
	tris[i].p2.x = FX (9 + ox); tris[i].p2.y = FX (2);
	tris[i].p3.x = FX (4 + ox); tris[i].p3.y = FX (5.5);
    }
    call_begin ("image_create_bits", "ctor");
    dst = pixman_image_create_bits (PIXMAN_a8r8g8b8, W, H, dstbits, W * 4);
    call_end (RET_PTR (dst));
    call_begin ("create_solid_fill", "ctor");
    src = pixman_image_create_solid_fill (&red);
    call_end (RET_PTR (src));
    if (dst && src)
    {
	draw_begin ("composite_trapezoids", dstbits, W * H);
	pixman_composite_trapezoids (PIXMAN_OP_OVER, src, dst, PIXMAN_a8, 0, 0, 0, 0, 2, traps);
	draw_end (dstbits, W, H, allowed, 1);
	draw_begin ("composite_triangles", dstbits, W * H);
	pixman_composite_triangles (PIXMAN_OP_OVER, src, dst, PIXMAN_a8, 0, 0, 0, 0, 2, tris);
	draw_end (dstbits, W, H, allowed, 1);
	draw_begin ("composite_trapezoids", dstbits, W * H);
	pixman_composite_trapezoids (PIXMAN_OP_ADD, src, dst, PIXMAN_a1, 0, 0, 1, 0, 2, traps);
	draw_end (dstbits, W, H, allowed, 1);
    }
    call_begin ("image_create_bits", "ctor");
    adst = pixman_image_create_bits (PIXMAN_a8, 16, H, abits, 16);
    call_end (RET_PTR (adst));
    if (adst)
    {
	/* alpha-only destination of 16 x 6 bytes, logged as 4 x 6 words */
	draw_begin ("add_trapezoids", abits, 4 * H);
	pixman_add_trapezoids (adst, 0, 0, 2, traps);
	draw_end (abits, 4, H, aallowed, 1);
	draw_begin ("add_triangles", abits, 4 * H);
	pixman_add_triangles (adst, 0, 0, 2, tris);
	draw_end (abits, 4, H, aallowed, 1);
    }
    call_begin ("image_unref", "void"); if (adst) pixman_image_unref (adst); call_end ("void");
    call_begin ("image_unref", "void"); if (src) pixman_image_unref (src); call_end ("void");
    call_begin ("image_unref", "void"); if (dst) pixman_image_unref (dst); call_end ("void");
}

/* ---- scenario 4: glyph cache ---- */
static void
scenario_glyphs (vrng_t *rng)
{
    enum { W = 24, H = 8 };
    static uint32_t dstbits[W * H];
    static uint32_t gbits[3][8 * 8];
    pixman_image_t *dst, *src, *gimg[3];
    pixman_glyph_cache_t *cache;
    const void *g[3] = { NULL, NULL, NULL };
    pixman_glyph_t glyphs[3];
    pixman_format_code_t gf[3] = { PIXMAN_a8, PIXMAN_a8r8g8b8, PIXMAN_a8 };
    int allowed[4] = { 0, 0, W, H };
    int i, n = 0;
    for (i = 0; i < W * H; i++)
	dstbits[i] = 0xff000000;
    call_begin ("image_create_bits", "ctor");
    dst = pixman_image_create_bits (PIXMAN_a8r8g8b8, W, H, dstbits, W * 4);
    call_end (RET_PTR (dst));
    call_begin ("create_solid_fill", "ctor");
    src = pixman_image_create_solid_fill (&white);
    call_end (RET_PTR (src));
    for (i = 0; i < 3; i++)
    {
	int j;
	for (j = 0; j < 64; j++)
	    gbits[i][j] = (uint32_t)vrng_next (rng);
	call_begin ("image_create_bits", "ctor");
	gimg[i] = pixman_image_create_bits (gf[i], 6, 6, gbits[i], 8 * 4 / (gf[i] == PIXMAN_a8 ? 4 : 1));
	call_end (RET_PTR (gimg[i]));
    }
    call_begin ("glyph_cache_create", "ctor");
    cache = pixman_glyph_cache_create ();
    call_end (RET_PTR (cache));
    if (cache)
    {
	call_begin ("glyph_cache_freeze", "void");
	pixman_glyph_cache_freeze (cache);
	call_end ("void");
	for (i = 0; i < 3; i++)
	    if (gimg[i])
	    {
		call_begin ("glyph_cache_insert", "ctor");
		g[i] = pixman_glyph_cache_insert (cache, (void *)0x100, (void *)(uintptr_t)(0x10 + i), 1, 2, gimg[i]);
		call_end (RET_PTR (g[i]));
		if (g[i])
		{
		    glyphs[n].x = 3 + 7 * i; glyphs[n].y = 3; glyphs[n].glyph = g[i];
		    n++;
		}
	    }
	if (dst && src && n)
	{
	    draw_begin ("composite_glyphs", dstbits, W * H);
	    pixman_composite_glyphs (PIXMAN_OP_OVER, src, dst, PIXMAN_a8, 0, 0, 0, 0, 0, 0, W, H, cache, n, glyphs);
	    draw_end (dstbits, W, H, allowed, 1);
	    draw_begin ("composite_glyphs_no_mask", dstbits, W * H);
	    pixman_composite_glyphs_no_mask (PIXMAN_OP_OVER, src, dst, 0, 0, 0, 0, cache, n, glyphs);
	    draw_end (dstbits, W, H, allowed, 1);
	}
	call_begin ("glyph_cache_thaw", "void");
	pixman_glyph_cache_thaw (cache);
	call_end ("void");
	if (g[0])
	{
	    call_begin ("glyph_cache_remove", "void");
	    pixman_glyph_cache_remove (cache, (void *)0x100, (void *)(uintptr_t)0x10);
	    call_end ("void");
	}
	call_begin ("glyph_cache_destroy", "void");
	pixman_glyph_cache_destroy (cache);
	call_end ("void");
    }
    for (i = 0; i < 3; i++)
    {
	call_begin ("image_unref", "void"); if (gimg[i]) pixman_image_unref (gimg[i]); call_end ("void");
    }
    call_begin ("image_unref", "void"); if (src) pixman_image_unref (src); call_end ("void");
    call_begin ("image_unref", "void"); if (dst) pixman_image_unref (dst); call_end ("void");
}

/* ---- scenario 5: separable convolution filter, 16-bit clip regions, fill_boxes ---- */
static void
scenario_filter (vrng_t *rng)
{
    enum { W = 16, H = 4 };
    static uint32_t dstbits[W * H], srcbits[W * H];
    pixman_image_t *dst, *src;
    pixman_fixed_t *params;
    pixman_region16_t clip16;
    pixman_box16_t b16[2] = { { 1, 0, 7, 4 }, { 9, 1, 15, 3 } };
    int allowed[8] = { 1, 0, 7, 4, 9, 1, 15, 3 };
    int full[4] = { 0, 0, W, H };
    int *al = full, nal = 1;
    pixman_box32_t fb[2] = { { 0, 0, 16, 2 }, { 3, 2, 12, 4 } };
    int i, n, r;
    for (i = 0; i < W * H; i++)
    {
	dstbits[i] = 0xff808080;
	srcbits[i] = (uint32_t)vrng_next (rng) | 0xff000000;
    }
    call_begin ("image_create_bits", "ctor");
    dst = pixman_image_create_bits (PIXMAN_a8r8g8b8, W, H, dstbits, W * 4);
    call_end (RET_PTR (dst));
    call_begin ("image_create_bits", "ctor");
    src = pixman_image_create_bits (PIXMAN_a8r8g8b8, W, H, srcbits, W * 4);
    call_end (RET_PTR (src));
    call_begin ("filter_create_separable_convolution", "ctor");
    params = pixman_filter_create_separable_convolution (&n, pixman_double_to_fixed (1.5), pixman_double_to_fixed (0.75),
							 PIXMAN_KERNEL_LINEAR, PIXMAN_KERNEL_BOX,
							 PIXMAN_KERNEL_CUBIC, PIXMAN_KERNEL_IMPULSE, 2, 1);
    call_end (RET_PTR (params));
    if (src && params)
    {
	call_begin ("image_set_filter", "status");
	r = pixman_image_set_filter (src, PIXMAN_FILTER_SEPARABLE_CONVOLUTION, params, n);
	call_end (RET_BOOL (r));
    }
    if (dst)
    {
	pixman_region_init_rects (&clip16, b16, 2);
	call_begin ("image_set_clip_region", "status");
	r = pixman_image_set_clip_region (dst, &clip16);
	call_end (RET_BOOL (r));
	if (r)
	{
	    al = allowed; nal = 2;
	}
	pixman_region_fini (&clip16);
    }
    if (src && dst)
    {
	draw_begin ("image_composite32", dstbits, W * H);
	pixman_image_composite32 (PIXMAN_OP_SRC, src, NULL, dst, 0, 0, 0, 0, 0, 0, W, H);
	draw_end (dstbits, W, H, al, nal);
    }
    if (dst)
    {
	draw_begin ("image_fill_boxes", dstbits, W * H);
	r = pixman_image_fill_boxes (PIXMAN_OP_IN_REVERSE, dst, &red, 2, fb);
	draw_end (dstbits, W, H, al, nal);
    }
    /* the block belongs to the caller, who releases it with free() */
    call_begin ("free_filter_params", "void"); free (params); call_end ("void");
    call_begin ("image_unref", "void"); if (src) pixman_image_unref (src); call_end ("void");
    call_begin ("image_unref", "void"); if (dst) pixman_image_unref (dst); call_end ("void");
}

/* ======================================================================================================== */
/* Focused cases: one target call per execution, every allocation request of that call refused in turn.     */
/* The generator (checks/alloc.py) enumerates the parameter vectors; the families below only execute them.  */

static int focus_k, focus_mode, focus_n, focus_t0;

#define call_begin_s(site, name, kind) do { step = 2000 + (site); call_begin_ (name, kind); } while (0)
#define draw_begin_s(site, name, pix, n) do { step = 2000 + (site); draw_begin_ (name, pix, n); } while (0)
#define PARAM(i) ((i) < np ? p[i] : 0)

static void
target_arm (void)
{
    if (recording)
	focus_t0 = vf_nalloc;
    else if (focus_k)
	vf_arm (focus_k, focus_mode != 0);
}

static void
target_done (void)
{
    if (recording)
	focus_n = vf_nalloc - focus_t0;
    else if (focus_mode != 2)
	vf_disarm ();
}

static const pixman_format_code_t fmt_tab[] = {
    PIXMAN_a1, PIXMAN_a8, PIXMAN_a8r8g8b8, PIXMAN_a4, PIXMAN_x8r8g8b8, PIXMAN_r5g6b5, PIXMAN_a2r10g10b10
};
#define NFMT ((int)(sizeof fmt_tab / sizeof fmt_tab[0]))
static const pixman_op_t op_tab[] = {
    PIXMAN_OP_OVER, PIXMAN_OP_ADD, PIXMAN_OP_SRC, PIXMAN_OP_DISJOINT_OVER, PIXMAN_OP_SATURATE,
    PIXMAN_OP_IN_REVERSE, PIXMAN_OP_HSL_HUE, PIXMAN_OP_OVER_REVERSE
};
#define NOP ((int)(sizeof op_tab / sizeof op_tab[0]))
#define FMT(i) (fmt_tab[((i) % NFMT + NFMT) % NFMT])
#define OP(i) (op_tab[((i) % NOP + NOP) % NOP])

static void
fill_random (pixman_image_t *img, vrng_t *rng)
{
    uint8_t *d = (uint8_t *)pixman_image_get_data (img);
    int n = pixman_image_get_stride (img) * pixman_image_get_height (img), i;
    for (i = 0; i < n; i++)
	d[i] = (uint8_t)vrng_next (rng);
}

static pixman_image_t *
traced_bits (int site, pixman_format_code_t f, int w, int h, uint32_t *bits, int stride)
{
    pixman_image_t *im;
    call_begin_s (site, "image_create_bits", "ctor");
    im = pixman_image_create_bits (f, w, h, bits, stride);
    call_end (RET_PTR (im));
    return im;
}

static void
traced_unref (int site, pixman_image_t *im)
{
    call_begin_s (site, "image_unref", "void");
    if (im)
	pixman_image_unref (im);
    call_end ("void");
}

/* ---- family "glyphs": pixman_composite_glyphs / pixman_composite_glyphs_no_mask ----
 * p: entry(0 = with mask, 1 = no mask) maskfmt op srckind W H x1 y1 x2 y2 n (fmt x y w h) * n
 * (x1,y1,x2,y2) is the rectangle of the mask variant in destination coordinates; glyph i is inserted with
 * origin (1,2), so that its box is (x-1, y-2, x-1+w, y-2+h). */
static void
glyph_draw (int site, int entry, pixman_op_t op, pixman_image_t *src, pixman_image_t *dst, uint32_t *bits, int W, int H,
	    pixman_format_code_t mfmt, const int *rect, pixman_glyph_cache_t *cache, int n, pixman_glyph_t *glyphs,
	    const int *boxes, int indep)
{
    if (entry == 0)
    {
	draw_begin_s (site, "composite_glyphs", bits, W * H);
	pixman_composite_glyphs (op, src, dst, mfmt, rect[0], rect[1], rect[0], rect[1], rect[0], rect[1],
				 rect[2] - rect[0], rect[3] - rect[1], cache, n, glyphs);
	draw_indep = indep;
	draw_end (bits, W, H, rect, 1);
    }
    else
    {
	draw_begin_s (site, "composite_glyphs_no_mask", bits, W * H);
	pixman_composite_glyphs_no_mask (op, src, dst, 0, 0, 0, 0, cache, n, glyphs);
	draw_indep = indep;
	draw_end (bits, W, H, boxes, n);
    }
}

static void
fam_glyphs (vrng_t *rng, const int *p, int np)
{
    enum { MAXG = 8 };
    static uint32_t dstbits[MAXPIX], dst2bits[MAXPIX], srcbits[MAXPIX];
    int entry = PARAM (0), srckind = PARAM (3), W = PARAM (4), H = PARAM (5), n = PARAM (10);
    pixman_format_code_t mfmt = FMT (PARAM (1));
    pixman_op_t op = OP (PARAM (2));
    pixman_image_t *dst, *dst2, *src, *gimg[MAXG];
    pixman_glyph_cache_t *cache;
    pixman_glyph_t glyphs[MAXG];
    int rect[4], full[4], boxes[4 * MAXG], i, ng = 0;
    static const pixman_color_t ink = { 0xe000, 0x3000, 0x9000, 0xf000 };

    if (n > MAXG)
	n = MAXG;
    if (W < 1 || H < 1 || W * H > MAXPIX)
	return;
    for (i = 0; i < 4; i++)
	rect[i] = PARAM (6 + i);
    full[0] = full[1] = 0; full[2] = W; full[3] = H;
    for (i = 0; i < W * H; i++)
    {
	dstbits[i] = dst2bits[i] = 0xff203040 + 0x010101 * (i % 7);
	srcbits[i] = (uint32_t)vrng_next (rng) | 0xc0000000;
    }
    dst = traced_bits (1, PIXMAN_a8r8g8b8, W, H, dstbits, W * 4);
    dst2 = traced_bits (2, PIXMAN_a8r8g8b8, W, H, dst2bits, W * 4);
    if (srckind == 0)
    {
	call_begin_s (3, "create_solid_fill", "ctor");
	src = pixman_image_create_solid_fill (&ink);
	call_end (RET_PTR (src));
    }
    else
	src = traced_bits (3, PIXMAN_a8r8g8b8, W, H, srcbits, W * 4);
    for (i = 0; i < n; i++)
    {
	gimg[i] = traced_bits (10 + i, FMT (PARAM (11 + 5 * i)), PARAM (14 + 5 * i), PARAM (15 + 5 * i), NULL, 0);
	if (gimg[i])
	    fill_random (gimg[i], rng);
    }
    call_begin_s (4, "glyph_cache_create", "ctor");
    cache = pixman_glyph_cache_create ();
    call_end (RET_PTR (cache));
    if (cache)
    {
	call_begin_s (5, "glyph_cache_freeze", "void");
	pixman_glyph_cache_freeze (cache);
	call_end ("void");
	for (i = 0; i < n; i++)
	    if (gimg[i])
	    {
		const void *g;
		call_begin_s (30 + i, "glyph_cache_insert", "ctor");
		g = pixman_glyph_cache_insert (cache, (void *)0x100, (void *)(uintptr_t)(0x10 + i), 1, 2, gimg[i]);
		call_end (RET_PTR (g));
		if (g)
		{
		    glyphs[ng].x = PARAM (12 + 5 * i); glyphs[ng].y = PARAM (13 + 5 * i); glyphs[ng].glyph = g;
		    boxes[4 * ng] = glyphs[ng].x - 1; boxes[4 * ng + 1] = glyphs[ng].y - 2;
		    boxes[4 * ng + 2] = boxes[4 * ng] + PARAM (14 + 5 * i); boxes[4 * ng + 3] = boxes[4 * ng + 1] + PARAM (15 + 5 * i);
		    ng++;
		}
	    }
	if (dst && dst2 && src)
	{
	    /* the target call */
	    target_arm ();
	    glyph_draw (50, entry, op, src, dst, dstbits, W, H, mfmt, rect, cache, ng, glyphs, boxes, 0);
	    target_done ();
	    /* everything the call used is still usable: the same request on an untouched destination ... */
	    glyph_draw (51, entry, op, src, dst2, dst2bits, W, H, mfmt, rect, cache, ng, glyphs, boxes, 1);
	    /* ... and the other entry point on the (possibly half drawn) first one */
	    if (ng)
		glyph_draw (52, !entry, op, src, dst, dstbits, W, H,
			    entry ? pixman_glyph_get_mask_format (cache, ng, glyphs) : mfmt, entry ? full : rect,
			    cache, ng, glyphs, boxes, 0);
	}
	call_begin_s (6, "glyph_cache_thaw", "void");
	pixman_glyph_cache_thaw (cache);
	call_end ("void");
	if (ng)
	{
	    call_begin_s (7, "glyph_cache_remove", "void");
	    pixman_glyph_cache_remove (cache, (void *)0x100, (void *)(uintptr_t)0x10);
	    call_end ("void");
	}
	call_begin_s (8, "glyph_cache_destroy", "void");
	pixman_glyph_cache_destroy (cache);
	call_end ("void");
    }
    for (i = 0; i < n; i++)
	traced_unref (70 + i, gimg[i]);
    traced_unref (90, src);
    traced_unref (91, dst2);
    traced_unref (92, dst);
}

/* ---- family "ctor": every constructor, with the parameters that decide how much it allocates ----
 * p: which a b c d
 *  0 create_bits (fmt a, b x c, pixman allocates, cleared)   1 create_bits_no_clear   2 create_bits on caller's pixels
 *  3 solid fill   4/5/6 linear/radial/conical gradient with a stops   7 glyph_cache_create
 *  8 glyph_cache_insert of a (fmt a, b x c) image   9 filter_create_separable_convolution (scales a/256, b/256; kernels c, d) */
static void
fam_ctor (vrng_t *rng, const int *p, int np)
{
    enum { W = 16, H = 4, MAXSTOPS = 400 };
    static uint32_t dstbits[W * H], userbits[MAXPIX];
    static pixman_gradient_stop_t stops[MAXSTOPS];
    int which = PARAM (0), a = PARAM (1), b = PARAM (2), c = PARAM (3), d = PARAM (4);
    int full[4] = { 0, 0, W, H }, box[4] = { 2, 1, 2, 1 };
    pixman_point_fixed_t p1 = { 0, 0 }, p2 = { pixman_int_to_fixed (W), pixman_int_to_fixed (H) };
    pixman_image_t *dst, *obj = NULL, *gimg = NULL;
    pixman_glyph_cache_t *cache = NULL;
    pixman_fixed_t *params = NULL;
    const void *g = NULL;
    int i, nparams = 0, r;

    for (i = 0; i < W * H; i++)
	dstbits[i] = 0xff506070;
    for (i = 0; i < MAXPIX; i++)
	userbits[i] = (uint32_t)vrng_next (rng);
    if (a > MAXSTOPS && which >= 4 && which <= 6)
	a = MAXSTOPS;
    for (i = 0; i < MAXSTOPS; i++)
    {
	stops[i].x = a > 1 ? (pixman_fixed_t)((int64_t)65536 * i / (a - 1)) : 0;
	stops[i].color.red = (uint16_t)(i * 4099); stops[i].color.green = (uint16_t)(0xffff - i * 911);
	stops[i].color.blue = (uint16_t)(i * 257); stops[i].color.alpha = (uint16_t)(0xffff - (i % 5) * 0x1000);
    }
    dst = traced_bits (1, PIXMAN_a8r8g8b8, W, H, dstbits, W * 4);
    if (which == 8)
    {
	call_begin_s (2, "glyph_cache_create", "ctor");
	cache = pixman_glyph_cache_create ();
	call_end (RET_PTR (cache));
	gimg = traced_bits (3, FMT (a), b, c, NULL, 0);
	if (gimg)
	    fill_random (gimg, rng);
	if (cache)
	{
	    call_begin_s (4, "glyph_cache_freeze", "void");
	    pixman_glyph_cache_freeze (cache);
	    call_end ("void");
	}
    }
    target_arm ();
    switch (which)
    {
    case 0: case 1: case 2:
	call_begin_s (10, which == 1 ? "image_create_bits_no_clear" : "image_create_bits", "ctor");
	if (which == 1)
	    obj = pixman_image_create_bits_no_clear (FMT (a), b, c, NULL, 0);
	else
	    obj = pixman_image_create_bits (FMT (a), b, c, which == 2 ? userbits : NULL,
					    which == 2 ? ((b * PIXMAN_FORMAT_BPP (FMT (a)) + 31) / 32) * 4 : 0);
	call_end (RET_PTR (obj));
	break;
    case 3:
	call_begin_s (11, "create_solid_fill", "ctor");
	obj = pixman_image_create_solid_fill (&red);
	call_end (RET_PTR (obj));
	break;
    case 4:
	call_begin_s (12, "create_linear_gradient", "ctor");
	obj = pixman_image_create_linear_gradient (&p1, &p2, stops, a);
	call_end (RET_PTR (obj));
	break;
    case 5:
	call_begin_s (13, "create_radial_gradient", "ctor");
	obj = pixman_image_create_radial_gradient (&p1, &p2, pixman_int_to_fixed (1), pixman_int_to_fixed (9), stops, a);
	call_end (RET_PTR (obj));
	break;
    case 6:
	call_begin_s (14, "create_conical_gradient", "ctor");
	obj = pixman_image_create_conical_gradient (&p2, pixman_int_to_fixed (30), stops, a);
	call_end (RET_PTR (obj));
	break;
    case 7:
	call_begin_s (15, "glyph_cache_create", "ctor");
	cache = pixman_glyph_cache_create ();
	call_end (RET_PTR (cache));
	break;
    case 8:
	if (cache && gimg)
	{
	    call_begin_s (16, "glyph_cache_insert", "ctor");
	    g = pixman_glyph_cache_insert (cache, (void *)0x200, (void *)0x1, 0, 0, gimg);
	    call_end (RET_PTR (g));
	}
	break;
    default:
	call_begin_s (17, "filter_create_separable_convolution", "ctor");
	params = pixman_filter_create_separable_convolution (&nparams, a * 256, b * 256,
							     (pixman_kernel_t)(c % 6), (pixman_kernel_t)(d % 6),
							     (pixman_kernel_t)((c / 6) % 6), (pixman_kernel_t)((d / 6) % 6),
							     PARAM (5), PARAM (6));
	call_end (RET_PTR (params));
	break;
    }
    target_done ();
    /* use what was built */
    if (which == 9 && params)
    {
	obj = traced_bits (20, PIXMAN_a8r8g8b8, 8, 4, userbits, 32);
	if (obj)
	{
	    call_begin_s (21, "image_set_filter", "status");
	    r = pixman_image_set_filter (obj, PIXMAN_FILTER_SEPARABLE_CONVOLUTION, params, nparams);
	    call_end (RET_BOOL (r));
	}
    }
    if (dst && obj && (which > 2 || PIXMAN_FORMAT_BPP (FMT (a)) * b * c <= 32 * MAXPIX))
    {
	if (which == 1)
	    fill_random (obj, rng);       /* no_clear: the pixels are the caller's to initialise */
	draw_begin_s (22, "image_composite32", dstbits, W * H);
	pixman_image_composite32 (PIXMAN_OP_OVER, obj, NULL, dst, 0, 0, 0, 0, 0, 0, W, H);
	draw_indep = 1;
	draw_end (dstbits, W, H, full, 1);
    }
    if (which == 7 && cache)
    {
	call_begin_s (23, "glyph_cache_freeze", "void");
	pixman_glyph_cache_freeze (cache);
	call_end ("void");
    }
    if (which == 8 && cache)
    {
	if (g && dst)
	{
	    pixman_glyph_t gl;
	    gl.x = 2; gl.y = 1; gl.glyph = g;
	    box[2] += b; box[3] += c;
	    obj = NULL;
	    call_begin_s (24, "create_solid_fill", "ctor");
	    obj = pixman_image_create_solid_fill (&red);
	    call_end (RET_PTR (obj));
	    if (obj)
	    {
		draw_begin_s (25, "composite_glyphs_no_mask", dstbits, W * H);
		pixman_composite_glyphs_no_mask (PIXMAN_OP_OVER, obj, dst, 0, 0, 0, 0, cache, 1, &gl);
		draw_indep = 1;
		draw_end (dstbits, W, H, box, 1);
	    }
	}
	/* the cache takes further glyphs after a refused one */
	if (gimg)
	{
	    const void *g2;
	    call_begin_s (26, "glyph_cache_insert", "ctor");
	    g2 = pixman_glyph_cache_insert (cache, (void *)0x200, (void *)0x2, 0, 0, gimg);
	    call_end (RET_PTR (g2));
	}
    }
    if (cache)
    {
	call_begin_s (27, "glyph_cache_thaw", "void");
	pixman_glyph_cache_thaw (cache);
	call_end ("void");
	call_begin_s (28, "glyph_cache_destroy", "void");
	pixman_glyph_cache_destroy (cache);
	call_end ("void");
    }
    call_begin_s (29, "free_filter_params", "void"); free (params); call_end ("void");
    traced_unref (30, gimg);
    traced_unref (31, obj);
    traced_unref (32, dst);
}

/* ---- family "setter": property setters that own memory, on an image with / without an earlier value ----
 * p: which prev a b
 *  0 set_transform (a: 0 identity 1 scale 2 rotation 3 projective)    1 set_filter CONVOLUTION a x b
 *  2 set_filter SEPARABLE_CONVOLUTION (block built during set-up)     3 set_clip_region32, a boxes
 *  4 set_clip_region (16 bit), a boxes: the 16 -> 32 conversion uses a heap array for more than 16
 *  5 set_filter BILINEAR (drops the earlier parameters)               6 set_clip_region32 (NULL) */
static void
fam_setter (vrng_t *rng, const int *p, int np)
{
    enum { W = 32, H = 4, SW = 8, SH = 4, MAXB = 64 };
    static uint32_t dstbits[W * H], srcbits[SW * SH];
    static pixman_fixed_t conv[2 + 81];
    static int clipboxes[4 * MAXB];
    pixman_box32_t b32[MAXB];
    pixman_box16_t b16[MAXB];
    int which = PARAM (0), prev = PARAM (1), a = PARAM (2), b = PARAM (3);
    int full[4] = { 0, 0, W, H }, *al = full, nal = 1;
    pixman_image_t *dst, *src;
    pixman_fixed_t *sep = NULL;
    pixman_transform_t t;
    pixman_region32_t r32;
    pixman_region16_t r16;
    int i, r = 0, pass, nsep = 0;

    for (i = 0; i < W * H; i++)
	dstbits[i] = 0xff283848;
    for (i = 0; i < SW * SH; i++)
	srcbits[i] = (uint32_t)vrng_next (rng) | 0xa0000000;
    if (a > MAXB && (which == 3 || which == 4))
	a = MAXB;
    for (i = 0; i < MAXB; i++)
    {
	/* box i: 1 x 1 at column 2 * (i mod 16), row i div 16: y-x banded */
	b32[i].x1 = 2 * (i % 16); b32[i].y1 = i / 16; b32[i].x2 = b32[i].x1 + 1; b32[i].y2 = b32[i].y1 + 1;
	b16[i].x1 = b32[i].x1; b16[i].y1 = b32[i].y1; b16[i].x2 = b32[i].x2; b16[i].y2 = b32[i].y2;
	clipboxes[4 * i] = b32[i].x1; clipboxes[4 * i + 1] = b32[i].y1; clipboxes[4 * i + 2] = b32[i].x2; clipboxes[4 * i + 3] = b32[i].y2;
    }
    dst = traced_bits (1, PIXMAN_a8r8g8b8, W, H, dstbits, W * 4);
    src = traced_bits (2, PIXMAN_a8r8g8b8, SW, SH, srcbits, SW * 4);
    if (which == 2)
    {
	call_begin_s (3, "filter_create_separable_convolution", "ctor");
	sep = pixman_filter_create_separable_convolution (&nsep, pixman_double_to_fixed (1.5), pixman_double_to_fixed (0.75),
							  PIXMAN_KERNEL_LINEAR, PIXMAN_KERNEL_BOX, PIXMAN_KERNEL_CUBIC,
							  PIXMAN_KERNEL_IMPULSE, 2, 1);
	call_end (RET_PTR (sep));
    }
    /* pass 0: the earlier value (only if prev), pass 1: the target, pass 2: once more without faults */
    for (pass = prev ? 0 : 1; pass < 3 && src && dst; pass++)
    {
	int site = 10 + 10 * pass;
	int aa = pass == 0 ? (which == 0 ? 1 : which == 1 ? 3 : 3) : pass == 2 && which == 0 ? 2 : a;
	int bb = pass == 0 ? 3 : b;
	if (pass == 1)
	    target_arm ();
	switch (which)
	{
	case 0:
	    if (aa == 0)
		pixman_transform_init_identity (&t);
	    else if (aa == 1)
		pixman_transform_init_scale (&t, pixman_double_to_fixed (0.25), pixman_double_to_fixed (1.0));
	    else
		pixman_transform_init_rotate (&t, pixman_double_to_fixed (0.8), pixman_double_to_fixed (0.6));
	    if (aa == 3)
		t.matrix[2][0] = 100;
	    call_begin_s (site, "image_set_transform", "status");
	    r = pixman_image_set_transform (src, &t);
	    call_end (RET_BOOL (r));
	    break;
	case 1: case 5:
	    if (aa < 1) aa = 1;
	    if (bb < 1) bb = 1;
	    if (aa > 9) aa = 9;
	    if (bb > 9) bb = 9;
	    conv[0] = pixman_int_to_fixed (aa);
	    conv[1] = pixman_int_to_fixed (bb);
	    for (i = 0; i < aa * bb; i++)
		conv[2 + i] = 65536 / (aa * bb) + (i == 0 ? 65536 - (aa * bb) * (65536 / (aa * bb)) : 0);
	    call_begin_s (site, "image_set_filter", "status");
	    if (which == 5 && pass == 1)
		r = pixman_image_set_filter (src, PIXMAN_FILTER_BILINEAR, NULL, 0);
	    else
		r = pixman_image_set_filter (src, PIXMAN_FILTER_CONVOLUTION, conv, 2 + aa * bb);
	    call_end (RET_BOOL (r));
	    break;
	case 2:
	    call_begin_s (site, "image_set_filter", "status");
	    if (pass == 0 || !sep)
	    {
		conv[0] = conv[1] = pixman_int_to_fixed (1); conv[2] = 65536;
		r = pixman_image_set_filter (src, PIXMAN_FILTER_CONVOLUTION, conv, 3);
	    }
	    else
		r = pixman_image_set_filter (src, PIXMAN_FILTER_SEPARABLE_CONVOLUTION, sep, nsep);
	    call_end (RET_BOOL (r));
	    break;
	case 3: case 6:
	    pixman_region32_init_rects (&r32, b32, aa);
	    call_begin_s (site, "image_set_clip_region32", "status");
	    r = pixman_image_set_clip_region32 (dst, which == 6 && pass == 1 ? NULL : &r32);
	    call_end (RET_BOOL (r));
	    pixman_region32_fini (&r32);
	    if (which == 6 && pass == 1) { al = full; nal = 1; }
	    else if (r) { al = clipboxes; nal = aa; }
	    else { al = full; nal = 1; }       /* a refused setter promises nothing about the clip it leaves */
	    break;
	default:
	    pixman_region_init_rects (&r16, b16, aa);
	    call_begin_s (site, "image_set_clip_region", "status");
	    r = pixman_image_set_clip_region (dst, &r16);
	    call_end (RET_BOOL (r));
	    pixman_region_fini (&r16);
	    if (r) { al = clipboxes; nal = aa; }
	    else { al = full; nal = 1; }
	    break;
	}
	if (pass == 1)
	    target_done ();
	if (pass >= 1)
	{
	    draw_begin_s (site + 1, "image_composite32", dstbits, W * H);
	    pixman_image_composite32 (PIXMAN_OP_OVER, src, NULL, dst, 0, 0, 0, 0, 0, 0, W, H);
	    draw_end (dstbits, W, H, al, nal);
	}
    }
    call_begin_s (50, "free_filter_params", "void"); free (sep); call_end ("void");
    traced_unref (51, src);
    traced_unref (52, dst);
}

/* ---- family "draw": the other drawing entry points ----
 * p: which op a b c d e
 *  0 composite_trapezoids (mask fmt a, b traps)   1 composite_triangles (mask fmt a, b triangles)
 *  2 add_trapezoids b   3 add_triangles b   4 add_traps b                      (a8 destination)
 *  5 fill_rectangles (colour alpha a ? opaque : translucent, b rects, c clip boxes on the destination)
 *  6 fill_boxes (same)
 *  7 composite32, a = width (one or two rows: wide enough for heap scanline buffers), b = source kind
 *    (0 solid 1 bits 2 bits scaled nearest 3 bits scaled bilinear 4 linear gradient 5 bits 3x3 convolution
 *     6 r5g6b5 bits 7 a2r10g10b10 bits), c = mask kind (0 none 1 a8 2 a8r8g8b8 component alpha),
 *    d = clip boxes on the destination, e = destination kind (0 a8r8g8b8, 1 x2r10g10b10, 2 a8r8g8b8 with an a8
 *    alpha map: the alpha channel is read from and written to the map, through a per-row temporary; rows are logged
 *    as the image's words followed by the map's bytes, four to a word) */
static void
fam_draw (vrng_t *rng, const int *p, int np)
{
    enum { MAXT = 12, MAXB = 64 };
    static uint32_t dstbits[MAXPIX], dst2bits[MAXPIX], srcbits[2 * MAXPIX], maskbits[MAXPIX];
    static uint32_t ambits[2][MAXPIX / 4], comb[2 * MAXPIX];
    pixman_image_t *amap[2] = { NULL, NULL };
    int which = PARAM (0), a = PARAM (2), b = PARAM (3), c = PARAM (4), d = PARAM (5), e = PARAM (6);
    pixman_op_t op = OP (PARAM (1));
    int W = 32, H = 6, full[4], i, r, pass, nclip = 0;
    static int clipboxes[4 * MAXB];
    pixman_box32_t b32[MAXB], fb[MAXB];
    pixman_rectangle16_t rects[MAXB];
    pixman_trapezoid_t traps[MAXT];
    pixman_triangle_t tris[MAXT];
    pixman_trap_t xtraps[MAXT];
    pixman_image_t *dst, *dst2, *src = NULL, *mask = NULL;
    pixman_region32_t r32;
    pixman_color_t col = red;
    pixman_format_code_t dfmt = PIXMAN_a8r8g8b8;
    int alpha_only = which >= 2 && which <= 4;

    if (which == 7)
    {
	W = a; H = W > 512 ? 1 : 2;
	if (W < 1 || W > MAXPIX)
	    return;
	nclip = d;
	if (e == 1)
	    dfmt = PIXMAN_x2r10g10b10;
	if (e == 2)
	{
	    W &= ~3;
	    nclip = 0;
	    if (W < 4 || (W + W / 4) * H > MAXPIX)
		return;
	}
    }
    if (which == 5 || which == 6)
	nclip = c;
    if (nclip > MAXB)
	nclip = MAXB;
    if (b > MAXT && which <= 4)
	b = MAXT;
    if (b > MAXB)
	b = MAXB;
    full[0] = full[1] = 0; full[2] = alpha_only ? W / 4 : W; full[3] = H;
    for (i = 0; i < W * H; i++)
    {
	dstbits[i] = dst2bits[i] = alpha_only ? 0x20202020 : 0xff304050 + 0x010101 * (i % 5);
	maskbits[i] = (uint32_t)vrng_next (rng);
    }
    for (i = 0; i < 2 * MAXPIX; i++)
	srcbits[i] = (uint32_t)vrng_next (rng) | 0x90000000;
    for (i = 0; i < MAXT; i++)
    {
	double ox = 1 + 5 * (i % 6), oy = 0;
	traps[i].top = FX (0.5 + oy);
	traps[i].bottom = FX (H - 0.75);
	traps[i].left.p1.x = FX (ox + 0.3); traps[i].left.p1.y = FX (0);
	traps[i].left.p2.x = FX (ox + 1.2); traps[i].left.p2.y = FX (H);
	traps[i].right.p1.x = FX (ox + 4.1); traps[i].right.p1.y = FX (0);
	traps[i].right.p2.x = FX (ox + 3.4); traps[i].right.p2.y = FX (H);
	tris[i].p1.x = FX (ox + 0.5); tris[i].p1.y = FX (0.25);
	tris[i].p2.x = FX (ox + 4.2); tris[i].p2.y = FX (2);
	tris[i].p3.x = FX (ox + 1.5); tris[i].p3.y = FX (H - 0.5);
	xtraps[i].top.l = FX (ox + 0.5); xtraps[i].top.r = FX (ox + 3.5); xtraps[i].top.y = FX (0.5);
	xtraps[i].bot.l = FX (ox + 1.5); xtraps[i].bot.r = FX (ox + 4.0); xtraps[i].bot.y = FX (H - 1);
    }
    for (i = 0; i < MAXB; i++)
    {
	/* clip box i: 1 x 1 at column 2 * (i mod 16) + (row odd), row i div 16: a checkerboard, y-x banded */
	int row = i / 16;
	b32[i].x1 = (2 * (i % 16) + (row & 1)) * (W / 32 ? W / 32 : 1); b32[i].y1 = row;
	b32[i].x2 = b32[i].x1 + (W / 32 ? W / 32 : 1); b32[i].y2 = row + 1;
	clipboxes[4 * i] = b32[i].x1; clipboxes[4 * i + 1] = b32[i].y1; clipboxes[4 * i + 2] = b32[i].x2; clipboxes[4 * i + 3] = b32[i].y2;
	/* fill box i: 3 x 1, four to a row: disjoint */
	fb[i].x1 = 8 * (i % 4); fb[i].y1 = (i / 4) % H; fb[i].x2 = fb[i].x1 + 3 + (i / (4 * H)) * 2; fb[i].y2 = fb[i].y1 + 1;
	rects[i].x = fb[i].x1; rects[i].y = fb[i].y1; rects[i].width = fb[i].x2 - fb[i].x1; rects[i].height = 1;
    }
    if (alpha_only)
    {
	dst = traced_bits (1, PIXMAN_a8, W, H, dstbits, W);
	dst2 = traced_bits (2, PIXMAN_a8, W, H, dst2bits, W);
    }
    else
    {
	dst = traced_bits (1, dfmt, W, H, dstbits, W * 4);
	dst2 = traced_bits (2, dfmt, W, H, dst2bits, W * 4);
    }
    if (which == 7 && e == 2 && dst && dst2)
    {
	pixman_image_t *dd[2];
	dd[0] = dst; dd[1] = dst2;
	for (i = 0; i < W * H / 4; i++)
	    ambits[0][i] = ambits[1][i] = 0x40506070 + 0x01010101 * (i % 3);
	for (i = 0; i < 2; i++)
	{
	    amap[i] = traced_bits (10 + i, PIXMAN_a8, W, H, ambits[i], W);
	    if (amap[i])
	    {
		call_begin_s (12 + i, "image_set_alpha_map", "void");
		pixman_image_set_alpha_map (dd[i], amap[i], 0, 0);
		call_end ("void");
	    }
	}
    }
    if (which == 5 || which == 6)
    {
	col.alpha = a ? 0xffff : 0x8000;
	if (!a) { col.red = 0x4000; col.green = 0x1000; col.blue = 0x0800; }
    }
    else if (which == 7 && b != 0)
    {
	if (b == 4)
	{
	    pixman_gradient_stop_t stops[3] = { { 0, { 0xffff, 0, 0, 0xffff } }, { 0x8000, { 0, 0x8000, 0, 0x8000 } },
						{ 0x10000, { 0, 0, 0xffff, 0xffff } } };
	    pixman_point_fixed_t p1 = { 0, 0 }, p2 = { pixman_int_to_fixed (W), pixman_int_to_fixed (H) };
	    call_begin_s (3, "create_linear_gradient", "ctor");
	    src = pixman_image_create_linear_gradient (&p1, &p2, stops, 3);
	    call_end (RET_PTR (src));
	}
	else if (b == 6)
	    src = traced_bits (3, PIXMAN_r5g6b5, W, H + 1, srcbits, ((W * 2 + 3) / 4) * 4);
	else if (b == 7)
	    src = traced_bits (3, PIXMAN_a2r10g10b10, W, H + 1, srcbits, W * 4);
	else
	    src = traced_bits (3, PIXMAN_a8r8g8b8, W, H + 1, srcbits, W * 4);
	if (src && (b == 2 || b == 3))
	{
	    pixman_transform_t t;
	    pixman_transform_init_scale (&t, pixman_double_to_fixed (0.5), pixman_double_to_fixed (0.5));
	    /* shifted by one pixel: every sample, bilinear neighbours included, lies inside the source */
	    t.matrix[0][2] = t.matrix[1][2] = pixman_fixed_1;
	    call_begin_s (4, "image_set_transform", "status");
	    r = pixman_image_set_transform (src, &t);
	    call_end (RET_BOOL (r));
	    call_begin_s (5, "image_set_filter", "status");
	    r = pixman_image_set_filter (src, b == 3 ? PIXMAN_FILTER_BILINEAR : PIXMAN_FILTER_NEAREST, NULL, 0);
	    call_end (RET_BOOL (r));
	}
	if (src && b == 5)
	{
	    pixman_fixed_t conv[11];
	    conv[0] = conv[1] = pixman_int_to_fixed (3);
	    for (i = 0; i < 9; i++)
		conv[2 + i] = 65536 / 9 + (i == 4 ? 65536 - 9 * (65536 / 9) : 0);
	    call_begin_s (5, "image_set_filter", "status");
	    r = pixman_image_set_filter (src, PIXMAN_FILTER_CONVOLUTION, conv, 11);
	    call_end (RET_BOOL (r));
	}
    }
    if (!src && !alpha_only && which != 5 && which != 6)
    {
	call_begin_s (3, "create_solid_fill", "ctor");
	src = pixman_image_create_solid_fill (&col);
	call_end (RET_PTR (src));
    }
    if (which == 7 && c)
    {
	if (c == 1)
	    mask = traced_bits (6, PIXMAN_a8, W, H, maskbits, ((W + 3) / 4) * 4);
	else
	{
	    mask = traced_bits (6, PIXMAN_a8r8g8b8, W, H, maskbits, W * 4);
	    if (mask)
	    {
		call_begin_s (7, "image_set_component_alpha", "void");
		pixman_image_set_component_alpha (mask, 1);
		call_end ("void");
	    }
	}
    }
    if (nclip && dst && dst2)
    {
	pixman_image_t *dd[2];
	dd[0] = dst; dd[1] = dst2;
	for (i = 0; i < 2; i++)
	{
	    pixman_region32_init_rects (&r32, b32, nclip);
	    call_begin_s (8 + i, "image_set_clip_region32", "status");
	    r = pixman_image_set_clip_region32 (dd[i], &r32);
	    call_end (RET_BOOL (r));
	    pixman_region32_fini (&r32);
	}
    }
    /* pass 0: the target on dst; pass 1: the same request, no faults, on the untouched dst2; pass 2: again on dst */
    for (pass = 0; pass < 3 && dst && dst2 && (src || alpha_only || which == 5 || which == 6); pass++)
    {
	pixman_image_t *dd = pass == 1 ? dst2 : dst;
	uint32_t *bits = pass == 1 ? dst2bits : dstbits;
	const int *al = nclip ? clipboxes : full;
	int nal = nclip ? nclip : 1, lw = full[2];
	int site = 20 + pass, with_map = which == 7 && e == 2, y;
	if (with_map)
	{
	    lw = W + W / 4;
	    for (y = 0; y < H; y++)
	    {
		memcpy (comb + y * lw, bits + y * W, 4 * W);
		memcpy (comb + y * lw + W, ambits[pass == 1] + y * W / 4, W);
	    }
	}
	if (pass == 0)
	    target_arm ();
	switch (which)
	{
	case 0:
	    draw_begin_s (site, "composite_trapezoids", bits, lw * H);
	    pixman_composite_trapezoids (op, src, dd, FMT (a), 0, 0, 0, 0, b, traps);
	    break;
	case 1:
	    draw_begin_s (site, "composite_triangles", bits, lw * H);
	    pixman_composite_triangles (op, src, dd, FMT (a), 0, 0, 0, 0, b, tris);
	    break;
	case 2:
	    draw_begin_s (site, "add_trapezoids", bits, lw * H);
	    pixman_add_trapezoids (dd, 0, 0, b, traps);
	    break;
	case 3:
	    draw_begin_s (site, "add_triangles", bits, lw * H);
	    pixman_add_triangles (dd, 0, 0, b, tris);
	    break;
	case 4:
	    draw_begin_s (site, "add_traps", bits, lw * H);
	    pixman_add_traps (dd, 0, 0, b, xtraps);
	    break;
	case 5:
	    draw_begin_s (site, "image_fill_rectangles", bits, lw * H);
	    r = pixman_image_fill_rectangles (op, dd, &col, b, rects);
	    break;
	case 6:
	    draw_begin_s (site, "image_fill_boxes", bits, lw * H);
	    r = pixman_image_fill_boxes (op, dd, &col, b, fb);
	    break;
	default:
	    draw_begin_s (site, "image_composite32", with_map ? comb : bits, lw * H);
	    pixman_image_composite32 (op, src, mask, dd, 0, 0, 0, 0, 0, 0, W, H);
	    break;
	}
	draw_indep = (pass == 1);
	if (with_map)
	{
	    int both[4];
	    both[0] = both[1] = 0; both[2] = lw; both[3] = H;
	    for (y = 0; y < H; y++)
	    {
		memcpy (comb + y * lw, bits + y * W, 4 * W);
		memcpy (comb + y * lw + W, ambits[pass == 1] + y * W / 4, W);
	    }
	    draw_end (comb, lw, H, both, 1);
	}
	else
	    draw_end (bits, lw, H, al, nal);
	if (pass == 0)
	    target_done ();
    }
    (void)r;
    traced_unref (38, amap[0]);
    traced_unref (39, amap[1]);
    traced_unref (40, mask);
    traced_unref (41, src);
    traced_unref (42, dst2);
    traced_unref (43, dst);
}

static const struct { const char *name; void (*fn) (vrng_t *, const int *, int); } families[] = {
    { "glyphs", fam_glyphs }, { "ctor", fam_ctor }, { "setter", fam_setter }, { "draw", fam_draw },
};

static void
run_case (const char *name, int fam, const int *p, int np, uint64_t seed, int k, int mode)
{
    vrng_t rng;
    char full[128];
    vrng_seed (&rng, seed);
    snprintf (full, sizeof full, "%s-k%d-m%d", name, k, mode);
    vt_reset (full);
    step = 0;
    recording = (k == 0);
    focus_k = k;
    focus_mode = mode;
    vf_disarm ();
    alarm (20);
    families[fam].fn (&rng, p, np);
    alarm (0);
    vf_disarm ();
    vt_begin ("Final");
    vt_end ();
}

static int
run_cases (const char *path, uint64_t seed, int maxk, int modes)
{
    FILE *f = fopen (path, "r");
    static char line[8192];
    if (!f)
	return 3;
    {
	/* the implementation chain is built by the first drawing call of the process: not inside a target */
	static uint32_t px[2];
	pixman_image_t *a = pixman_image_create_bits (PIXMAN_a8r8g8b8, 1, 1, &px[0], 4);
	pixman_image_t *b = pixman_image_create_bits (PIXMAN_a8r8g8b8, 1, 1, &px[1], 4);
	pixman_image_composite32 (PIXMAN_OP_OVER, a, NULL, b, 0, 0, 0, 0, 0, 0, 1, 1);
	pixman_image_unref (a);
	pixman_image_unref (b);
    }
    while (fgets (line, sizeof line, f))
    {
	char name[64], famname[32];
	int p[256], np = 0, fam = -1, off = 0, used, v, k, m;
	unsigned i;
	if (sscanf (line, "C %63s %31s%n", name, famname, &off) < 2)
	    continue;
	while (np < 256 && sscanf (line + off, "%d%n", &v, &used) == 1)
	{
	    p[np++] = v;
	    off += used;
	}
	for (i = 0; i < sizeof families / sizeof families[0]; i++)
	    if (!strcmp (families[i].name, famname))
		fam = (int)i;
	if (fam < 0)
	    return 3;
	focus_n = 0;
	run_case (name, fam, p, np, seed, 0, 0);
	printf ("%s %d\n", name, focus_n);
	for (k = 1; k <= focus_n && k <= maxk; k++)
	    for (m = 0; m < 3; m++)
		if (modes & (1 << m))
		    run_case (name, fam, p, np, seed, k, m);
    }
    fclose (f);
    return 0;
}

typedef void (*scenario_t) (vrng_t *);
static const struct { const char *name; scenario_t fn; } scenarios[] = {
    { "images", scenario_images }, { "gradients", scenario_gradients }, { "traps", scenario_traps },
    { "glyphs", scenario_glyphs }, { "filter", scenario_filter },
};

static void
run_once (int sc, uint64_t seed, int k, int mode)
{
    vrng_t rng;
    char name[64];
    vrng_seed (&rng, seed);
    snprintf (name, sizeof name, "%s-s%llu-k%d-m%d", scenarios[sc].name, (unsigned long long)seed, k, mode);
    vt_reset (name);
    step = 0;
    recording = (k == 0);
    vf_nalloc = 0;
    if (k)
	vf_arm (k, mode);
    else
	vf_disarm ();
    alarm (20);
    scenarios[sc].fn (&rng);
    alarm (0);
    vf_disarm ();
    vt_begin ("Final");
    vt_end ();
}

int
main (int argc, char **argv)
{
    int sc, k, n, maxk = 1000;
    uint64_t seed;
    unsigned i;
    if (argc < 4)
    {
	fprintf (stderr, "usage: drv_fault trace scenario seed [maxk]\n");
	return 3;
    }
    for (sc = -1, i = 0; i < sizeof scenarios / sizeof scenarios[0]; i++)
	if (!strcmp (scenarios[i].name, argv[2]))
	    sc = (int)i;
    if (sc < 0 && argv[2][0] != '@')
	return 3;
    seed = strtoull (argv[3], NULL, 10);
    if (argc > 4)
	maxk = atoi (argv[4]);
    if (argv[2][0] == '@')
    {
	int rc;
	vt_open (argv[1]);
	vf_log (1);
	rc = run_cases (argv[2] + 1, seed, maxk, argc > 5 ? atoi (argv[5]) : 3);
	vt_close ();
	return rc;
    }
    vt_open (argv[1]);
    vf_log (1);
    run_once (sc, seed, 0, 0);
    n = vf_nalloc;
    printf ("%d\n", n);
    for (k = 1; k <= n && k <= maxk; k++)
    {
	run_once (sc, seed, k, 0);
	run_once (sc, seed, k, 1);
    }
    vt_close ();
    return 0;
}
