/* Included twice by drv_region.c: once for pixman_region16 (W=16), once for pixman_region32 (W=32). */
#define CAT2(a, b) a##b
#define CAT(a, b) CAT2 (a, b)
#define FN(name) CAT (RPFX, name)
#define ME(name) CAT (CAT (me, W), name)

static REGION_T ME (pool)[3];

static void
ME (reset) (int first)
{
    int i;
    for (i = 0; i < 3; i++)
    {
	if (!first)
	    FN (_fini) (&ME (pool)[i]);
	FN (_init) (&ME (pool)[i]);
    }
}

static void
ME (log_state) (void)
{
    int i, j, n;
    for (i = 0; i < 3; i++)
    {
	REGION_T *r = &ME (pool)[i];
	BOX_T *b = FN (_rectangles) (r, &n);
	BOX_T *e = FN (_extents) (r);
	fprintf (vt_out, "%s{\"r\":[", (W == 16 && i == 0) ? "" : ",");
	for (j = 0; j < n; j++)
	    fprintf (vt_out, "%s[%d,%d,%d,%d]", j ? "," : "", b[j].x1, b[j].y1, b[j].x2, b[j].y2);
	fprintf (vt_out, "],\"x\":[%d,%d,%d,%d],\"sc\":%s,\"ne\":%s,\"n\":%d}",
		 e->x1, e->y1, e->x2, e->y2,
		 FN (_selfcheck) (r) ? "true" : "false",
		 FN (_not_empty) (r) ? "true" : "false",
		 FN (_n_rects) (r));
    }
}

/* returns ret; ints/nints = extra arguments */
static int
ME (op) (const char *op, int d, int a, int b, const int *v, int nv)
{
    REGION_T *D = &ME (pool)[(d - 1) % 3], *A = &ME (pool)[(a > 0 ? a - 1 : 0) % 3], *B = &ME (pool)[(b > 0 ? b - 1 : 0) % 3];
    BOX_T box;
    if (nv >= 4)
    {
	box.x1 = v[0]; box.y1 = v[1]; box.x2 = v[2]; box.y2 = v[3];
    }
    if (!strcmp (op, "union")) return FN (_union) (D, A, B);
    if (!strcmp (op, "intersect")) return FN (_intersect) (D, A, B);
    if (!strcmp (op, "subtract")) return FN (_subtract) (D, A, B);
    if (!strcmp (op, "inverse")) return FN (_inverse) (D, A, &box);
    if (!strcmp (op, "union_rect")) return FN (_union_rect) (D, A, v[0], v[1], (unsigned)v[2] - (unsigned)v[0], (unsigned)v[3] - (unsigned)v[1]);
    if (!strcmp (op, "intersect_rect")) return FN (_intersect_rect) (D, A, v[0], v[1], (unsigned)v[2] - (unsigned)v[0], (unsigned)v[3] - (unsigned)v[1]);
    if (!strcmp (op, "copy")) return FN (_copy) (D, A);
    if (!strcmp (op, "reset")) { FN (_reset) (D, &box); return 1; }
    if (!strcmp (op, "clear")) { FN (_clear) (D); return 1; }
    if (!strcmp (op, "init")) { FN (_fini) (D); FN (_init) (D); return 1; }
    if (!strcmp (op, "init_rect")) { FN (_fini) (D); FN (_init_rect) (D, v[0], v[1], (unsigned)v[2] - (unsigned)v[0], (unsigned)v[3] - (unsigned)v[1]); return 1; }
    if (!strcmp (op, "init_with_extents")) { FN (_fini) (D); FN (_init_with_extents) (D, &box); return 1; }
    if (!strcmp (op, "translate")) { FN (_translate) (D, v[0], v[1]); return 1; }
    if (!strcmp (op, "init_rects"))
    {
	int n = nv / 4, i, ret;
	BOX_T *bs;
	vf_pause (1);
	bs = malloc (sizeof (BOX_T) * (n ? n : 1));
	vf_pause (0);
	for (i = 0; i < n; i++)
	{
	    bs[i].x1 = v[4 * i]; bs[i].y1 = v[4 * i + 1]; bs[i].x2 = v[4 * i + 2]; bs[i].y2 = v[4 * i + 3];
	}
	FN (_fini) (D);
	ret = FN (_init_rects) (D, bs, n);
	vf_pause (1);
	free (bs);
	vf_pause (0);
	return ret;
    }
    if (!strcmp (op, "from_image"))
    {
	/* v = width height then height*width bits; the image has a padded stride and garbage in the padding */
	int w = v[0], h = v[1], x, y;
	int stride_words = (w + 31) / 32 + 1;
	uint32_t *bits;
	pixman_image_t *img;
	vf_pause (1);
	bits = malloc (4 * stride_words * h);
	/* padding bits (beyond the width, and the extra stride word) must be ignored whatever they hold:
	 * an optional trailing script value chooses their content (default: all ones) */
	memset (bits, (nv > 2 + w * h) ? v[2 + w * h] : 0xff, 4 * stride_words * h);
	if (nv > 2 + w * h && v[2 + w * h] >= 256)      /* padding that differs from line to line (a view onto a wider bitmap) */
	    for (y = 0; y < h; y++)
		memset (bits + y * stride_words, (v[2 + w * h] + 37 * y * y + 11 * y) & 0xff, 4 * stride_words);
	for (y = 0; y < h; y++)
	    for (x = 0; x < w; x++)
	    {
		uint32_t *word = bits + y * stride_words + (x >> 5);
		uint32_t m = 1u << (x & 31);          /* little endian a1 */
		if (v[2 + y * w + x]) *word |= m; else *word &= ~m;
	    }
	img = pixman_image_create_bits (PIXMAN_a1, w, h, bits, stride_words * 4);
	vf_pause (0);
	FN (_fini) (D);
	FN (_init_from_image) (D, img);
	vf_pause (1);
	pixman_image_unref (img);
	free (bits);
	vf_pause (0);
	return 1;
    }
    fprintf (stderr, "unknown op %s\n", op);
    exit (3);
}

static void
ME (query) (const char *q, int a, int b, const int *v, int nv)
{
    REGION_T *A = &ME (pool)[(a - 1) % 3], *B = &ME (pool)[(b > 0 ? b - 1 : 0) % 3];
    BOX_T box, rbox;
    if (!strcmp (q, "equal"))
    {
	fprintf (vt_out, ",\"ret\":%s", FN (_equal) (A, B) ? "true" : "false");
    }
    else if (!strcmp (q, "cpoint"))
    {
	int r;
	rbox.x1 = rbox.y1 = rbox.x2 = rbox.y2 = 0;
	r = FN (_contains_point) (A, v[0], v[1], &rbox);
	fprintf (vt_out, ",\"x\":%d,\"y\":%d,\"ret\":%s,\"rbox\":[%d,%d,%d,%d]", v[0], v[1], r ? "true" : "false",
		 rbox.x1, rbox.y1, rbox.x2, rbox.y2);
	/* NULL box must be accepted too */
	if ((!!FN (_contains_point) (A, v[0], v[1], NULL)) != !!r)
	    fprintf (vt_out, ",\"nullbox_differs\":true");
    }
    else if (!strcmp (q, "crect"))
    {
	box.x1 = v[0]; box.y1 = v[1]; box.x2 = v[2]; box.y2 = v[3];
	fprintf (vt_out, ",\"box\":[%d,%d,%d,%d],\"ret\":%d", v[0], v[1], v[2], v[3],
		 (int)FN (_contains_rectangle) (A, &box));
    }
    else
    {
	fprintf (stderr, "unknown query %s\n", q);
	exit (3);
    }
    (void)nv;
}

#undef CAT2
#undef CAT
#undef FN
#undef ME
