/* C04: no access outside the pixel storage the caller described.
 * Two observation modes per request:
 *   accessor mode   every image has read/write accessor callbacks; each access is recorded as
 *                   (image, byte offset from the start of the storage, size) and the set of accessed
 *                   bytes per image is logged as merged intervals -> judged by TLC;
 *   guard mode      no accessors (so fast paths and SIMD code run); every image's storage is placed
 *                   exactly between two large PROT_NONE regions (alternately flush against the upper or
 *                   the lower one), so that any access outside it faults: the trace then ends in a Crash
 *                   event, which no action of the trace specification matches.
 * Also logs the Dispatch hook event (flags incl. SAMPLES_COVER_CLIP_*) after the request descriptor.
 * The driver never judges.
 *
 * script lines:
 *   C mode op sfmt sw sh sneg srep sfilt m0..m8 mfmt mw mh dfmt dw dh dneg sx sy mx my dx dy w h seed
 *   T mode dfmt dw dh ntraps (top bottom l.p1.x l.p1.y l.p2.x l.p2.y r.p1.x r.p1.y r.p2.x r.p2.y)* xoff yoff seed kind
 *   mode: 0 accessor, 1 guard-high, 2 guard-low; C requests: + 4 rows contiguous (no padding words) in every image,
 *   + 8 the transform, filter and repeat of the request are set on the MASK instead of the source (the source is
 *   then an untransformed, non-repeating image): requests whose big / transformed image is the mask
 */
#include <config.h>
#include "pixman-private.h"
#include "vcommon.h"
#include <sys/mman.h>
#include <unistd.h>

#define W2(x) (unsigned)((uint32_t)(x) >> 16), (unsigned)((uint32_t)(x) & 0xffff)
#define GUARD (1 << 20)

typedef struct
{
    pixman_image_t *img;
    uint8_t *map;          /* mmap'ed region (guard + storage + guard) */
    size_t maplen;
    uint8_t *store;        /* lowest address of the storage */
    long size;             /* bytes of storage: |stride| * (height - 1) + bytes of one row rounded up to a word */
    long astride, rb;      /* |stride| and the row bytes (rounded up to 32-bit words) */
    int rows;
    int id;
    /* accessed intervals (accessor mode) */
    int niv;
    long iv[512][2];
    int overflow;
} vimg_t;

static vimg_t imgs[4];
static int nimgs;

static void
record (const void *p, int size)
{
    int i, j;
    const uint8_t *a = p;
    for (i = 0; i < nimgs; i++)
    {
	vimg_t *v = &imgs[i];
	/* attribute the access to the image whose storage (widened by the guards) contains it */
	if (a >= v->store - GUARD / 2 && a < v->store + v->size + GUARD / 2)
	{
	    long lo = a - v->store, hi = lo + size;
	    for (j = 0; j < v->niv; j++)
		if (lo <= v->iv[j][1] && hi >= v->iv[j][0] &&
		    (v->astride == v->rb || v->astride == 0 ||
		     (lo >= 0 && v->iv[j][0] >= 0 && lo / v->astride == v->iv[j][0] / v->astride)))
		{
		    if (lo < v->iv[j][0]) v->iv[j][0] = lo;
		    if (hi > v->iv[j][1]) v->iv[j][1] = hi;
		    return;
		}
	    if (v->niv < 512)
	    {
		v->iv[v->niv][0] = lo; v->iv[v->niv][1] = hi; v->niv++;
	    }
	    else
	    {
		/* table full: further accesses are checked against the outer bounds only (widening an interval
		 * could bridge row padding that was never accessed) */
		if (lo < 0 || hi > v->size)
		{
		    v->iv[0][0] = lo < v->iv[0][0] ? lo : v->iv[0][0];
		    v->iv[0][1] = hi > v->iv[0][1] ? hi : v->iv[0][1];
		}
	    }
	    return;
	}
    }
    /* an access that belongs to no image at all: report it as image 0 with absolute address halves */
    fprintf (vt_out, "{\"e\":\"Stray\",\"size\":%d}\n", size);
}

static uint32_t
reader (const void *src, int size)
{
    record (src, size);
    switch (size)
    {
    case 1: return *(const uint8_t *)src;
    case 2: return *(const uint16_t *)src;
    case 4: return *(const uint32_t *)src;
    }
    return 0;
}

static void
writer (void *dst, uint32_t value, int size)
{
    record (dst, size);
    switch (size)
    {
    case 1: *(uint8_t *)dst = (uint8_t)value; break;
    case 2: *(uint16_t *)dst = (uint16_t)value; break;
    case 4: *(uint32_t *)dst = value; break;
    }
}

static void
sink (const char *event, const void *data)
{
    if (!strcmp (event, "Dispatch"))
    {
	const pixman_verif_dispatch_t *e = data;
	int i, first;
	uint32_t fl[2];
	const char *nm[2] = { "sfl", "mfl" };
	fl[0] = e->src_flags; fl[1] = e->mask_flags;
	fprintf (vt_out, "{\"e\":\"Dispatch\",\"ext\":[%d,%d,%d,%d]", e->x1, e->y1, e->x2, e->y2);
	for (i = 0; i < 2; i++)
	{
	    int b;
	    fprintf (vt_out, ",\"%s\":[", nm[i]);
	    for (b = 0, first = 1; b < 32; b++)
		if (fl[i] & (1u << b)) { fprintf (vt_out, first ? "%d" : ",%d", b); first = 0; }
	    fputc (']', vt_out);
	}
	fputs ("}\n", vt_out);
    }
}

/* storage of exactly `size` bytes between two PROT_NONE regions; high != 0: flush against the upper guard */
static void
make_storage (vimg_t *v, long size, int high, vrng_t *rng)
{
    long page = sysconf (_SC_PAGESIZE);
    long body = ((size + page - 1) / page + 1) * page;
    long i;
    v->maplen = 2 * GUARD + body;
    v->map = mmap (NULL, v->maplen, PROT_READ | PROT_WRITE, MAP_PRIVATE | MAP_ANONYMOUS, -1, 0);
    if (v->map == MAP_FAILED) { perror ("mmap"); exit (3); }
    mprotect (v->map, GUARD, PROT_NONE);
    mprotect (v->map + GUARD + body, GUARD, PROT_NONE);
    /* pixman requires 4-byte aligned bits; sizes are multiples of 4 */
    v->store = high ? v->map + GUARD + body - size : v->map + GUARD;
    v->size = size;
    if (size < 65536)
	for (i = 0; i < size; i++)
	    v->store[i] = (uint8_t)vrng_next (rng);
    else
    {
	/* very wide / very high images: whole words of the generator (sizes are multiples of 4) */
	for (i = 0; i + 4 <= size; i += 4)
	{
	    uint32_t r = (uint32_t)(vrng_next (rng) >> 16);
	    memcpy (v->store + i, &r, 4);
	}
    }
    v->niv = 0;
    v->overflow = 0;
}

static int force_min_stride;      /* next image: no padding word (rows are contiguous) */

static pixman_image_t *
make_image (int slot, pixman_format_code_t fmt, int w, int h, int neg, int mode, vrng_t *rng)
{
    vimg_t *v = &imgs[slot];
    int bpp = PIXMAN_FORMAT_BPP (fmt);
    long rb = (((long)w * bpp + 31) / 32) * 4;
    long stride = rb + (force_min_stride ? 0 : (long)vrng_below (rng, 3)) * 4;
    /* the caller owns the pixels of each row (rounded up to whole 32-bit words), not the padding between rows
     * nor after the last row: an image may be a window onto a larger surface */
    long size = h > 0 ? stride * (h - 1) + rb : 0;
    uint32_t *bits;
    if (size == 0) size = 4;
    make_storage (v, size, mode != 2, rng);
    v->id = slot;
    v->astride = stride; v->rb = rb; v->rows = h;
    bits = (uint32_t *)v->store;
    if (neg && h > 0)
    {
	bits = (uint32_t *)(v->store + stride * (h - 1));
	stride = -stride;
    }
    v->img = pixman_image_create_bits_no_clear (fmt, w, h, bits, (int)stride);
    if (v->img && mode == 0)
	pixman_image_set_accessors (v->img, reader, writer);
    return v->img;
}

static void
free_image (vimg_t *v)
{
    if (v->img) pixman_image_unref (v->img);
    if (v->map) munmap (v->map, v->maplen);
    memset (v, 0, sizeof *v);
}

static void
log_images (void)
{
    int i, j;
    fputs (",\"imgs\":[", vt_out);
    for (i = 0; i < nimgs; i++)
    {
	vimg_t *v = &imgs[i];
	fprintf (vt_out, "%s{\"id\":%d,\"size\":%ld,\"stride\":%ld,\"rb\":%ld,\"rows\":%d,\"iv\":[", i ? "," : "", v->id, v->size,
		 v->astride, v->rb, v->rows);
	for (j = 0; j < v->niv; j++)
	    fprintf (vt_out, "%s[%ld,%ld]", j ? "," : "", v->iv[j][0], v->iv[j][1]);
	fputs ("]}", vt_out);
    }
    fputs ("]", vt_out);
}

int
main (int argc, char **argv)
{
    FILE *in;
    char kind[4];
    int reqno = 0;
    if (argc < 3)
	return 3;
    in = fopen (argv[1], "r");
    if (!in) { perror (argv[1]); return 3; }
    vt_open (argv[2]);
    vt_reset (getenv ("PIXMAN_DISABLE") ? getenv ("PIXMAN_DISABLE") : "default");
    _pixman_verif_sink = sink;
    while (fscanf (in, "%3s", kind) == 1)
    {
	long long f[128];
	int n, i, k = 0;
	vrng_t rng;
	if (fscanf (in, "%d", &n) != 1 || n > 128) return 3;
	for (i = 0; i < n; i++)
	    if (fscanf (in, "%lld", &f[i]) != 1) return 3;
	alarm (120);      /* a hang is a Crash event; generous, so that a loaded machine does not turn a slow request (a 64K x 64K temporary trapezoid mask) into one */
	if (kind[0] == 'C')
	{
	    /* mode + 4: rows contiguous (no padding words) in every image of this request */
	    int mode_raw = (int)f[k++], mode = mode_raw & 3, tm = (mode_raw & 8) != 0, op = (int)f[k++];
	    pixman_format_code_t sfmt = (pixman_format_code_t)f[k++];
	    int sw = (int)f[k++], sh = (int)f[k++], sneg = (int)f[k++], srep = (int)f[k++], sfilt = (int)f[k++];
	    pixman_transform_t tr;
	    pixman_format_code_t mfmt, dfmt;
	    int mw, mh, dw, dh, dneg, sx, sy, mx, my, dx, dy, w, h;
	    pixman_image_t *src, *mask = NULL, *dst;
	    pixman_fixed_t conv[2 + 9];
	    for (i = 0; i < 9; i++)
		tr.matrix[i / 3][i % 3] = (pixman_fixed_t)f[k++];
	    mfmt = (pixman_format_code_t)f[k++]; mw = (int)f[k++]; mh = (int)f[k++];
	    dfmt = (pixman_format_code_t)f[k++]; dw = (int)f[k++]; dh = (int)f[k++]; dneg = (int)f[k++];
	    sx = (int)f[k++]; sy = (int)f[k++]; mx = (int)f[k++]; my = (int)f[k++]; dx = (int)f[k++]; dy = (int)f[k++];
	    w = (int)f[k++]; h = (int)f[k++];
	    vrng_seed (&rng, (uint64_t)f[k++]);
	    nimgs = 0;
	    force_min_stride = (mode_raw & 4) != 0;
	    src = make_image (nimgs++, sfmt, sw, sh, sneg, mode, &rng);
	    if (mfmt)
		mask = make_image (nimgs++, mfmt, mw, mh, 0, mode, &rng);
	    dst = make_image (nimgs++, dfmt, dw, dh, dneg, mode, &rng);
	    force_min_stride = 0;
	    fprintf (vt_out, "{\"e\":\"Req\",\"n\":%d,\"kind\":\"C\",\"mode\":%d,\"op\":%d,\"sw\":%d,\"sh\":%d,\"srep\":%d,\"sfilt\":%d,"
		     "\"m\":[%d,%d,%d,%d,%d,%d,%d,%d,%d],\"sx\":%d,\"sy\":%d,\"mx\":%d,\"my\":%d,\"dx\":%d,\"dy\":%d,\"w\":%d,\"h\":%d,\"dw\":%d,\"dh\":%d,\"mw\":%d,\"mh\":%d,\"tm\":%d,\"ok\":%s}\n",
		     reqno, mode, op, sw, sh, srep, sfilt,
		     tr.matrix[0][0], tr.matrix[0][1], tr.matrix[0][2], tr.matrix[1][0], tr.matrix[1][1], tr.matrix[1][2],
		     tr.matrix[2][0], tr.matrix[2][1], tr.matrix[2][2], sx, sy, mx, my, dx, dy, w, h, dw, dh,
		     mfmt ? mw : 0, mfmt ? mh : 0, (tm && mfmt) ? 1 : 0,
		     (src && dst && (!mfmt || mask)) ? "true" : "false");
	    fflush (vt_out);
	    if (src && dst && (!mfmt || mask))
	    {
		/* the image that carries the request's geometry attributes */
		pixman_image_t *geo = (tm && mask) ? mask : src;
		pixman_image_set_repeat (geo, (pixman_repeat_t)srep);
		if (sfilt == PIXMAN_FILTER_CONVOLUTION)
		{
		    conv[0] = pixman_int_to_fixed (3); conv[1] = pixman_int_to_fixed (3);
		    for (i = 0; i < 9; i++) conv[2 + i] = 65536 / 9;
		    pixman_image_set_filter (geo, PIXMAN_FILTER_CONVOLUTION, conv, 11);
		}
		else
		    pixman_image_set_filter (geo, (pixman_filter_t)sfilt, NULL, 0);
		pixman_image_set_transform (geo, &tr);
		{
		    /* a 1x1 mask always repeats (the library then treats it as a solid mask) */
		    int mrep = vrng_below (&rng, 3) == 0;
		    if (mask && geo != mask && (mrep || (mw == 1 && mh == 1)))
			pixman_image_set_repeat (mask, PIXMAN_REPEAT_NORMAL);
		}
		pixman_image_composite32 ((pixman_op_t)op, src, mask, dst, sx, sy, mx, my, dx, dy, w, h);
	    }
	}
	else if (kind[0] == 'T')
	{
	    int mode = (int)f[k++];
	    pixman_format_code_t dfmt = (pixman_format_code_t)f[k++];
	    int dw = (int)f[k++], dh = (int)f[k++], nt = (int)f[k++], xoff, yoff, tk;
	    pixman_trapezoid_t traps[8];
	    pixman_image_t *dst;
	    for (i = 0; i < nt && i < 8; i++)
	    {
		traps[i].top = (pixman_fixed_t)f[k++]; traps[i].bottom = (pixman_fixed_t)f[k++];
		traps[i].left.p1.x = (pixman_fixed_t)f[k++]; traps[i].left.p1.y = (pixman_fixed_t)f[k++];
		traps[i].left.p2.x = (pixman_fixed_t)f[k++]; traps[i].left.p2.y = (pixman_fixed_t)f[k++];
		traps[i].right.p1.x = (pixman_fixed_t)f[k++]; traps[i].right.p1.y = (pixman_fixed_t)f[k++];
		traps[i].right.p2.x = (pixman_fixed_t)f[k++]; traps[i].right.p2.y = (pixman_fixed_t)f[k++];
	    }
	    xoff = (int)f[k++]; yoff = (int)f[k++];
	    vrng_seed (&rng, (uint64_t)f[k++]);
	    tk = (int)f[k++];
	    nimgs = 0;
	    force_min_stride = (tk & 8) != 0;
	    tk &= 7;
	    dst = make_image (nimgs++, dfmt, dw, dh, 0, mode, &rng);
	    force_min_stride = 0;
	    fprintf (vt_out, "{\"e\":\"Req\",\"n\":%d,\"kind\":\"T\",\"mode\":%d,\"dw\":%d,\"dh\":%d,\"ok\":%s}\n", reqno, mode, dw, dh, dst ? "true" : "false");
	    fflush (vt_out);
	    if (dst)
	    {
		if (tk == 0)
		    pixman_add_trapezoids (dst, xoff, yoff, nt, traps);
		else if (tk == 1)
		    for (i = 0; i < nt; i++)
			pixman_rasterize_trapezoid (dst, &traps[i], xoff, yoff);
		else
		{
		    pixman_color_t c = { 0xffff, 0x8000, 0x4000, 0xffff };
		    pixman_image_t *s = pixman_image_create_solid_fill (&c);
		    /* composite_trapezoids needs a destination with colour: use the a8 image as mask format only */
		    pixman_composite_trapezoids (tk == 2 ? PIXMAN_OP_ADD : PIXMAN_OP_OVER, s, dst, PIXMAN_a8, 0, 0, xoff, yoff, nt, traps);
		    pixman_image_unref (s);
		}
	    }
	}
	else if (kind[0] == 'B')
	{
	    /* B: mode dfmt dw dh dneg op api clipn (clip boxes x1 y1 x2 y2)* nboxes (boxes)* alpha seed
	     * pixman_image_fill_boxes (api 0) / fill_rectangles (api 1) with an optional destination clip that may
	     * reach beyond the image */
	    int mode = (int)f[k++];
	    pixman_format_code_t dfmt = (pixman_format_code_t)f[k++];
	    int dw = (int)f[k++], dh = (int)f[k++], dneg = (int)f[k++], op = (int)f[k++], api = (int)f[k++];
	    int clipn = (int)f[k++], nb, j;
	    pixman_box32_t cb[8], bx[8];
	    pixman_rectangle16_t rc[8];
	    pixman_color_t col;
	    pixman_image_t *dst;
	    for (j = 0; j < clipn && j < 8; j++)
	    {
		cb[j].x1 = (int)f[k++]; cb[j].y1 = (int)f[k++]; cb[j].x2 = (int)f[k++]; cb[j].y2 = (int)f[k++];
	    }
	    nb = (int)f[k++];
	    for (j = 0; j < nb && j < 8; j++)
	    {
		bx[j].x1 = (int)f[k++]; bx[j].y1 = (int)f[k++]; bx[j].x2 = (int)f[k++]; bx[j].y2 = (int)f[k++];
		rc[j].x = (int16_t)bx[j].x1; rc[j].y = (int16_t)bx[j].y1;
		rc[j].width = (uint16_t)(bx[j].x2 - bx[j].x1); rc[j].height = (uint16_t)(bx[j].y2 - bx[j].y1);
	    }
	    col.alpha = (uint16_t)f[k++];
	    vrng_seed (&rng, (uint64_t)f[k++]);
	    col.red = (uint16_t)vrng_next (&rng) % (col.alpha + 1); col.green = col.red / 2; col.blue = col.red / 3;
	    nimgs = 0;
	    dst = make_image (nimgs++, dfmt, dw, dh, dneg, mode, &rng);
	    fprintf (vt_out, "{\"e\":\"Req\",\"n\":%d,\"kind\":\"B\",\"mode\":%d,\"dw\":%d,\"dh\":%d,\"ok\":%s}\n", reqno, mode, dw, dh, dst ? "true" : "false");
	    fflush (vt_out);
	    if (dst)
	    {
		if (clipn)
		{
		    pixman_region32_t clip;
		    pixman_region32_init_rects (&clip, cb, clipn);
		    pixman_image_set_clip_region32 (dst, &clip);
		    pixman_region32_fini (&clip);
		}
		if (api == 0)
		    pixman_image_fill_boxes ((pixman_op_t)op, dst, &col, nb, bx);
		else
		    pixman_image_fill_rectangles ((pixman_op_t)op, dst, &col, nb, rc);
	    }
	}
	alarm (0);
	fprintf (vt_out, "{\"e\":\"Done\",\"n\":%d", reqno);
	log_images ();
	fputs ("}\n", vt_out);
	fflush (vt_out);
	for (i = 0; i < nimgs; i++)
	    free_image (&imgs[i]);
	nimgs = 0;
	reqno++;
    }
    _pixman_verif_sink = NULL;
    vt_close ();
    return 0;
}
