/* Conformance driver for C19: pixman_fill, pixman_blt, pixman_image_fill_boxes / _rectangles.
 * Executes a script against the real library and logs buffers before/after.  It never judges.
 *
 *   R name                                   new execution (everything freed)
 *   B dlen slen seed                         raw destination / source buffers (64-byte aligned) -> Setup event
 *   fill bpp stride_words boff x y w h vhi vlo           pixman_fill (bits = dst + boff)
 *   blt sbpp dbpp sstride dstride sboff dboff sx sy dx dy w h   pixman_blt (src buffer -> dst buffer)
 *   blti (same arguments)                                        pixman_blt within the dst buffer (both offsets in it)
 *   D fmt w h stride gb ga seed              destination image inside a guard buffer (+ an identical twin)
 *   C n (x1 y1 x2 y2)*                       destination clip (both twins); n = -1: none
 *   S                                        log the Setup event
 *   fillboxes op r g b a n (x1 y1 x2 y2)*    pixman_image_fill_boxes on the image;
 *   fillrects op r g b a n (x y w h)*        pixman_image_fill_rectangles
 *        on the twin: pixman_image_composite32 (op, solid (colour), NULL, twin, box) per box   ("ref");
 *        a box with a coordinate beyond +-30000: the whole image composited with the clip narrowed to the box
 * PIXMAN_DISABLE in the environment selects the implementation chain (pixman prints to stdout).
 */
#include "frame_common.h"

static fc_store_t dst, twin, rawsrc;
static pixman_region32_t twin_clip;           /* the clip given to both twins (valid if twin_has_clip) */
static int twin_has_clip;
static fc_clipstate_t dclip, none;
static int vals[4096];

static void
reset_all (void)
{
    fc_store_free (&dst);
    fc_store_free (&twin);
    if (twin_has_clip)
	pixman_region32_fini (&twin_clip);
    twin_has_clip = 0;
    fc_store_free (&rawsrc);
    memset (&dclip, 0, sizeof dclip);
}

int
main (int argc, char **argv)
{
    FILE *in;
    char cmd[32], name[128], fmt[32], opn[40];
    if (argc < 3)
    {
	fprintf (stderr, "usage: drv_fill script trace\n");
	return 3;
    }
    in = fopen (argv[1], "r");
    if (!in) { perror (argv[1]); return 3; }
    vt_open (argv[2]);
    /* pixman reports the implementations disabled through PIXMAN_DISABLE on stdout when it initialises (before main):
     * hand that to the orchestrator now, so that it is not lost should a later call crash */
    pixman_version ();
    fflush (stdout);
    while (fscanf (in, "%31s", cmd) == 1)
    {
	if (!strcmp (cmd, "R"))
	{
	    if (fscanf (in, "%127s", name) != 1) return 3;
	    reset_all ();
	    vt_reset (name);
	    fflush (stdout);
	}
	else if (!strcmp (cmd, "B"))
	{
	    int v[3];
	    fc_read_ints (in, v, 3);
	    reset_all ();
	    fc_store_alloc (&dst, v[0], (unsigned)v[2]);
	    fc_store_alloc (&rawsrc, v[1], (unsigned)v[2] + 7777);
	    snprintf (dst.fmt, sizeof dst.fmt, "raw");
	    fc_log_setup (&dst, &none, NULL, 0, 0, &none, &none, &rawsrc);
	}
	else if (!strcmp (cmd, "fill"))
	{
	    int v[9], ret;
	    fc_read_ints (in, v, 9);
	    ret = pixman_fill ((uint32_t *)(dst.mem + v[2]), v[1], v[0], v[3], v[4], v[5], v[6],
			       ((uint32_t)v[7] << 16) | (uint32_t)v[8]);
	    vt_begin ("Fill");
	    vt_int ("bpp", v[0]); vt_int ("stride", v[1] * 4); vt_int ("off", v[2]);
	    vt_int ("x", v[3]); vt_int ("y", v[4]); vt_int ("w", v[5]); vt_int ("h", v[6]);
	    fprintf (vt_out, ",\"v\":[%d,%d]", v[7], v[8]);
	    vt_bool ("ret", ret);
	    fc_log_store ("after", &dst);
	    vt_end ();
	}
	else if (!strcmp (cmd, "blt"))
	{
	    int v[12], ret;
	    fc_read_ints (in, v, 12);
	    ret = pixman_blt ((uint32_t *)(rawsrc.mem + v[4]), (uint32_t *)(dst.mem + v[5]), v[2], v[3], v[0], v[1],
			      v[6], v[7], v[8], v[9], v[10], v[11]);
	    vt_begin ("Blt");
	    vt_int ("sbpp", v[0]); vt_int ("dbpp", v[1]); vt_int ("sstride", v[2] * 4); vt_int ("dstride", v[3] * 4);
	    vt_int ("soff", v[4]); vt_int ("doff", v[5]);
	    vt_int ("sx", v[6]); vt_int ("sy", v[7]); vt_int ("dx", v[8]); vt_int ("dy", v[9]);
	    vt_int ("w", v[10]); vt_int ("h", v[11]);
	    vt_bool ("ret", ret);
	    fc_log_store ("after", &dst);
	    fc_log_store ("safter", &rawsrc);
	    vt_end ();
	}
	else if (!strcmp (cmd, "blti"))
	{
	    int v[12], ret;
	    fc_read_ints (in, v, 12);
	    ret = pixman_blt ((uint32_t *)(dst.mem + v[4]), (uint32_t *)(dst.mem + v[5]), v[2], v[3], v[0], v[1],
			      v[6], v[7], v[8], v[9], v[10], v[11]);
	    vt_begin ("BltIn");
	    vt_int ("sbpp", v[0]); vt_int ("dbpp", v[1]); vt_int ("sstride", v[2] * 4); vt_int ("dstride", v[3] * 4);
	    vt_int ("soff", v[4]); vt_int ("doff", v[5]);
	    vt_int ("sx", v[6]); vt_int ("sy", v[7]); vt_int ("dx", v[8]); vt_int ("dy", v[9]);
	    vt_int ("w", v[10]); vt_int ("h", v[11]);
	    vt_bool ("ret", ret);
	    fc_log_store ("after", &dst);
	    vt_end ();
	}
	else if (!strcmp (cmd, "D"))
	{
	    int v[6];
	    if (fscanf (in, "%31s", fmt) != 1) return 3;
	    fc_read_ints (in, v, 6);
	    reset_all ();
	    fc_store_image (&dst, fmt, v[0], v[1], v[2], v[3], v[4], (unsigned)v[5]);
	    fc_store_image (&twin, fmt, v[0], v[1], v[2], v[3], v[4], (unsigned)v[5]);
	}
	else if (!strcmp (cmd, "C"))
	{
	    int n;
	    fc_clipstate_t tmp;
	    fc_read_ints (in, &n, 1);
	    if (n > 64) return 3;
	    if (n > 0)
		fc_read_ints (in, vals, 4 * n);
	    fc_set_clip (dst.img, &dclip, n, vals);
	    fc_set_clip (twin.img, &tmp, n, vals);
	    if (twin_has_clip)
		pixman_region32_fini (&twin_clip);
	    twin_has_clip = n >= 0;
	    if (twin_has_clip)
	    {
		pixman_box32_t *b = malloc (sizeof (pixman_box32_t) * (n ? n : 1));
		int i;
		for (i = 0; i < n; i++)
		{
		    b[i].x1 = vals[4 * i]; b[i].y1 = vals[4 * i + 1]; b[i].x2 = vals[4 * i + 2]; b[i].y2 = vals[4 * i + 3];
		}
		pixman_region32_init_rects (&twin_clip, b, n);
		free (b);
	    }
	}
	else if (!strcmp (cmd, "S"))
	{
	    fc_log_setup (&dst, &dclip, NULL, 0, 0, &none, &none, NULL);
	}
	else if (!strcmp (cmd, "fillboxes") || !strcmp (cmd, "fillrects"))
	{
	    int api = !strcmp (cmd, "fillrects"), c[4], n, i, ret;
	    pixman_color_t col;
	    pixman_image_t *solid;
	    pixman_op_t op;
	    if (fscanf (in, "%39s", opn) != 1) return 3;
	    op = fc_op (opn);
	    fc_read_ints (in, c, 4);
	    fc_read_ints (in, &n, 1);
	    if (n > 1000) return 3;
	    fc_read_ints (in, vals, 4 * n);
	    col.red = (uint16_t)c[0]; col.green = (uint16_t)c[1]; col.blue = (uint16_t)c[2]; col.alpha = (uint16_t)c[3];
	    /* the twin starts from the same bytes */
	    memcpy (twin.mem, dst.mem, (size_t)dst.len);
	    ret = fc_fill_call (api, op, dst.img, &col, n, vals);
	    solid = pixman_image_create_solid_fill (&col);
	    for (i = 0; i < n; i++)
	    {
		/* the box as 64-bit corners */
		long long x1 = vals[4 * i], y1 = vals[4 * i + 1], x2, y2;
		if (api == 0) { x2 = vals[4 * i + 2]; y2 = vals[4 * i + 3]; }
		else
		{
		    x1 = (int16_t)x1; y1 = (int16_t)y1;
		    x2 = x1 + (uint16_t)vals[4 * i + 2]; y2 = y1 + (uint16_t)vals[4 * i + 3];
		}
#define NEAR(v) ((v) > -30000 && (v) < 30000)
		if (NEAR (x1) && NEAR (y1) && NEAR (x2) && NEAR (y2))
		{
		    /* an ordinary request rectangle */
		    pixman_image_composite32 (op, solid, NULL, twin.img, 0, 0, 0, 0, (int)x1, (int)y1,
					      (int)(x2 - x1), (int)(y2 - y1));
		}
		else
		{
		    /* coordinates a composite request cannot carry: "the solid composited over the box within the
		     * destination clip" = composite the whole image with the clip narrowed to the box */
		    pixman_region32_t r;
		    pixman_box32_t b;
		    b.x1 = (int)x1; b.y1 = (int)y1;
		    b.x2 = (int)(x2 > 2147483647LL ? 2147483647LL : x2); b.y2 = (int)(y2 > 2147483647LL ? 2147483647LL : y2);
		    pixman_region32_init_rects (&r, &b, 1);          /* an empty / inverted box is an empty region */
		    if (twin_has_clip)
			pixman_region32_intersect (&r, &r, &twin_clip);
		    pixman_image_set_clip_region32 (twin.img, &r);
		    pixman_image_composite32 (op, solid, NULL, twin.img, 0, 0, 0, 0, 0, 0, twin.w, twin.h);
		    pixman_image_set_clip_region32 (twin.img, twin_has_clip ? &twin_clip : NULL);
		    pixman_region32_fini (&r);
		}
	    }
	    pixman_image_unref (solid);
	    vt_begin ("FillBoxes");
	    vt_str ("api", api ? "rects" : "boxes");
	    vt_str ("op", opn);
	    fprintf (vt_out, ",\"col\":{\"r\":%d,\"g\":%d,\"b\":%d,\"a\":%d}", c[0], c[1], c[2], c[3]);
	    fc_log_quads ("boxes", vals, n, 4);
	    vt_bool ("ret", ret);
	    fc_log_store ("after", &dst);
	    fprintf (vt_out, ",\"aafter\":[]");
	    fc_log_store ("ref", &twin);
	    vt_end ();
	}
	else
	{
	    fprintf (stderr, "drv_fill: unknown command %s\n", cmd);
	    return 3;
	}
    }
    reset_all ();
    vt_close ();
    return 0;
}
