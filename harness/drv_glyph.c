/* Conformance driver for the glyph cache (C17): executes a script of cache calls and glyph drawing on
 * the real library and logs what the public API (and hook H1's table dump) shows.  It never judges.
 *
 * Script (blank separated tokens):
 *   K n  {cls font}*n      key table, ids 1..n: key i = (fonts[font], glyph pointer searched so that the
 *                          REAL hash (hash & HASH_MASK) equals cls; cls = -1: any; cls = -2-j: same
 *                          font_key+glyph_key sum as key j+1 (another font), i.e. full hash collision;
 *                          cls = -100-j: the glyph key of key j under another font
 *   KR n window            n keys, font 0, hash < window (window 0: any)
 *   R name                 new execution: fresh cache; logs Reset, Keys
 *   F | T                  freeze | thaw
 *   I k ox oy fmt w h seed insert key k with a w x h image (fmt: index into the table of fmt_code()), pixels from seed
 *   L k | D k              lookup | remove
 *   U mode n k*n           draw the n glyphs and read back: mode 0 composite_glyphs_no_mask, 1 composite_glyphs,
 *                          2 no_mask with every glyph positioned outside the destination, 3 no_mask with every
 *                          glyph clipped away by the destination's clip region (UB: mode = position & 3)
 *   IQ ... | UQ ...        as I / U, but as a client would: lookup first; insert only on a miss, draw only on hits
 *   IB from n | LB from n | DB from n step | UB from n step       batched forms (long runs, counters only)
 *   G mode op dfmt dw dh dseed nclip {x1 y1 x2 y2}*nclip skind srep sw sh sseed
 *     src_x src_y mask_x mask_y dest_x dest_y width height mfmt n {k x y}*n
 *                          glyph drawing through pixman_composite_glyphs[_no_mask] and, on an identical
 *                          destination, through the per-glyph / mask-accumulation route; logs both results
 */
#include "vcommon.h"
#include <pixman.h>
#include <unistd.h>

int _pixman_verif_glyph_dump (pixman_glyph_cache_t *cache, int max, int *kind, const void **font_keys,
			      const void **glyph_keys, int *counters, int *mru, int *n_mru);
unsigned int _pixman_verif_glyph_hash (const void *font_key, const void *glyph_key);

#define MAXKEYS 70000
#define MAXDUMP 64
#define GUARD_SECS 10

static pixman_glyph_cache_t *cache;
static int nkeys;
static void *kfont[MAXKEYS + 1], *kglyph[MAXKEYS + 1];
static pixman_image_t *refimg[MAXKEYS + 1];     /* the driver's own copy of the inserted image */
static int kox[MAXKEYS + 1], koy[MAXKEYS + 1];
static int hsize, high, low;
static void *const fonts[3] = { (void *)0x10000, (void *)0x23000, (void *)0x37000 };

/* pointer -> serial of the insert call that returned it */
#define PMAP (1 << 18)
static const void *pm_key[PMAP];
static int pm_val[PMAP];
static int serial;

static unsigned pm_slot (const void *p)
{
    unsigned h = (unsigned)(((uintptr_t)p >> 4) * 2654435761u) & (PMAP - 1);
    while (pm_key[h] && pm_key[h] != p)
	h = (h + 1) & (PMAP - 1);
    return h;
}
static void pm_set (const void *p, int v) { unsigned h = pm_slot (p); pm_key[h] = p; pm_val[h] = v; }
static int pm_get (const void *p) { unsigned h = pm_slot (p); return pm_key[h] ? pm_val[h] : 0; }
static void pm_clear (void) { memset (pm_key, 0, sizeof pm_key); serial = 0; }

static void guard (void) { alarm (GUARD_SECS); }
static void unguard (void) { alarm (0); }

static int
key_id (const void *f, const void *g)
{
    int i;
    for (i = 1; i <= nkeys; i++)
	if (kfont[i] == f && kglyph[i] == g)
	    return i;
    return -1;
}

static pixman_format_code_t
fmt_code (int f)
{
    static const pixman_format_code_t tab[] = {
	PIXMAN_a1, PIXMAN_a8, PIXMAN_a8r8g8b8, PIXMAN_x8r8g8b8, PIXMAN_r5g6b5,		/* 0..4 */
	PIXMAN_a4, PIXMAN_a8b8g8r8, PIXMAN_b8g8r8a8, PIXMAN_r8g8b8a8,			/* 5..8 */
	PIXMAN_a8r8g8b8_sRGB, PIXMAN_a2r10g10b10, PIXMAN_a1r5g5b5, PIXMAN_a4r4g4b4,	/* 9..12 */
	PIXMAN_rgba_float, PIXMAN_a2b10g10r10, PIXMAN_a2r2g2b2, PIXMAN_a1b5g5r5,	/* 13..16 */
	PIXMAN_a4b4g4r4, PIXMAN_a1r1g1b1, PIXMAN_r3g3b2, PIXMAN_x4a4			/* 17..20 */
    };
    if (f < 0 || f >= (int)(sizeof tab / sizeof tab[0]))
	return PIXMAN_a8;
    return tab[f];
}

static int
is_ca (pixman_format_code_t f)
{
    return PIXMAN_FORMAT_A (f) != 0 && PIXMAN_FORMAT_RGB (f) != 0;
}

static pixman_image_t *
make_bits (pixman_format_code_t f, int w, int h, uint64_t seed, int zero)
{
    pixman_image_t *img = pixman_image_create_bits (f, w, h, NULL, -1);
    uint32_t *d;
    int n, i;
    vrng_t r;
    if (!img) { fprintf (stderr, "drv_glyph: out of memory\n"); exit (3); }
    d = pixman_image_get_data (img);
    n = pixman_image_get_stride (img) / 4 * h;
    vrng_seed (&r, seed);
    if (PIXMAN_FORMAT_TYPE (f) == PIXMAN_TYPE_RGBA_FLOAT)
    {
	float *fd = (float *)d;
	for (i = 0; i < n; i++)
	{
	    uint32_t v = (uint32_t)vrng_next (&r);
	    fd[i] = zero ? 0.0f : ((v & 7) == 0 ? 1.0f : (v & 7) == 1 ? 0.0f : (float)(v >> 8) / 16777216.0f);
	}
	return img;
    }
    for (i = 0; i < n; i++)
    {
	uint32_t v = (uint32_t)vrng_next (&r);
	if (!zero && (v & 7) == 0) v |= 0xff000000;      /* some opaque, */
	if (!zero && (v & 7) == 1) v = 0;               /* some empty pixels */
	d[i] = zero ? 0 : v;
    }
    return img;
}

static pixman_image_t *white;

/* what drawing the image as a mask under white shows (argb words, w*h) */
static void
render_image (pixman_image_t *img, int w, int h, uint32_t *out)
{
    pixman_image_t *d = pixman_image_create_bits (PIXMAN_a8r8g8b8, w, h, NULL, -1);
    int x, y, st;
    uint32_t *p;
    memset (pixman_image_get_data (d), 0, pixman_image_get_stride (d) * h);
    pixman_image_composite32 (PIXMAN_OP_SRC, white, img, d, 0, 0, 0, 0, 0, 0, w, h);
    p = pixman_image_get_data (d);
    st = pixman_image_get_stride (d) / 4;
    for (y = 0; y < h; y++)
	for (x = 0; x < w; x++)
	    out[y * w + x] = p[y * st + x];
    pixman_image_unref (d);
}

/* ------------------------------------------------------------------------------------------ */
static void
log_state (void)
{
    int ctr[5], kind[MAXDUMP], mru[MAXDUMP], nm = 0, i, n;
    const void *fk[MAXDUMP], *gk[MAXDUMP];
    int ids[MAXDUMP], mk[MAXDUMP];
    n = _pixman_verif_glyph_dump (cache, MAXDUMP, kind, fk, gk, ctr, mru, &nm);
    vt_ints ("ctr", ctr, 3);
    if (n > MAXDUMP)
	return;
    for (i = 0; i < n; i++)
	ids[i] = kind[i] == 2 ? key_id (fk[i], gk[i]) : (kind[i] == 1 ? -1 : 0);
    vt_ints ("slots", ids, n);              /* 0 NULL, -1 tombstone, else key id (-1 never a key: unknown keys are -9) */
    for (i = 0; i < nm; i++)
	mk[i] = (mru[i] >= 0 && mru[i] < n && kind[mru[i]] == 2) ? ids[mru[i]] : -9;
    vt_ints ("mru", mk, nm);
}

static void
log_keys (void)
{
    int ctr[5], i;
    hsize = _pixman_verif_glyph_dump (cache, 0, NULL, NULL, NULL, ctr, NULL, NULL);
    high = ctr[3];
    low = ctr[4];
    vt_begin ("Keys");
    vt_int ("H", hsize); vt_int ("HIGH", high); vt_int ("LOW", low); vt_int ("n", nkeys);
    if (nkeys <= 256)
    {
	int hv[256];
	for (i = 1; i <= nkeys; i++)
	    hv[i - 1] = (int)_pixman_verif_glyph_hash (kfont[i], kglyph[i]);
	vt_ints ("hash", hv, nkeys);
    }
    vt_end ();
}

static void
drop_refs (void)
{
    int i;
    for (i = 1; i <= MAXKEYS; i++)
	if (refimg[i])
	{
	    pixman_image_unref (refimg[i]);
	    refimg[i] = NULL;
	}
}

static void
reset_cache (void)
{
    if (cache)
    {
	int ctr[5], n = 0;
	guard ();
	_pixman_verif_glyph_dump (cache, 0, NULL, NULL, NULL, ctr, NULL, NULL);
	while (ctr[2]-- > 0 && n++ < 1000)
	    pixman_glyph_cache_thaw (cache);
	pixman_glyph_cache_destroy (cache);
	unguard ();
    }
    cache = pixman_glyph_cache_create ();
    drop_refs ();
    pm_clear ();
}

/* ------------------------------------------------------------------------------------------ */
static void
glyph_origin_size (const void *g, int *o)
{
    pixman_glyph_t pg;
    pixman_box32_t e;
    pg.x = 0; pg.y = 0; pg.glyph = g;
    pixman_glyph_get_extents (cache, 1, &pg, &e);
    o[0] = -e.x1; o[1] = -e.y1; o[2] = e.x2 - e.x1; o[3] = e.y2 - e.y1;
}

static const void *
do_insert (int k, int ox, int oy, int fmt, int w, int h, uint64_t seed, uint32_t *pix)
{
    pixman_format_code_t f = fmt_code (fmt);
    pixman_image_t *img = make_bits (f, w, h, seed, 0);
    pixman_image_t *mine = make_bits (f, w, h, seed, 0);
    const void *g;
    uint32_t *d;
    int i, n;
    if (is_ca (f))
	pixman_image_set_component_alpha (mine, 1);
    render_image (mine, w, h, pix);
    guard ();
    g = pixman_glyph_cache_insert (cache, kfont[k], kglyph[k], ox, oy, img);
    unguard ();
    /* the cache must have made its own copy: scribble over the caller's image and drop it */
    d = pixman_image_get_data (img);
    n = pixman_image_get_stride (img) / 4 * h;
    for (i = 0; i < n; i++)
	d[i] = ~d[i] ^ 0x5a5a5a5a;
    pixman_image_unref (img);
    if (g)
    {
	if (refimg[k])
	    pixman_image_unref (refimg[k]);
	refimg[k] = mine;
	kox[k] = ox; koy[k] = oy;
	pm_set (g, ++serial);
    }
    else
	pixman_image_unref (mine);
    return g;
}

/* draws the glyphs into a row of cells and reads every cell back; returns 0 if some key is not live */
#define CELL 8
static int
do_use (int mode, int n, const int *ks, uint32_t *pix /* n * CELL*CELL */, int *org /* n*4 */, int *missing)
{
    pixman_glyph_t pg[64];
    pixman_image_t *d;
    uint32_t *p;
    int i, x, y, st;
    for (i = 0; i < n; i++)
    {
	const void *g;
	guard ();
	g = pixman_glyph_cache_lookup (cache, kfont[ks[i]], kglyph[ks[i]]);
	unguard ();
	if (!g)
	{
	    *missing = ks[i];
	    return 0;
	}
	glyph_origin_size (g, org + 4 * i);
	pg[i].glyph = g;
	pg[i].x = i * CELL + org[4 * i];
	pg[i].y = org[4 * i + 1];
	if (mode == 2)
	{
	    /* drawn, but entirely outside the destination (alternately left/above and right/below) */
	    pg[i].x += (i & 1) ? 1000 : -1000;
	    pg[i].y += (i & 1) ? 300 : -300;
	}
    }
    /* one spare cell at the right end: in mode 3 the destination's clip region is that cell only, so the
     * composite region is not empty but every glyph is clipped away */
    d = pixman_image_create_bits (PIXMAN_a8r8g8b8, (n + 1) * CELL, CELL, NULL, -1);
    memset (pixman_image_get_data (d), 0, pixman_image_get_stride (d) * CELL);
    if (mode == 3)
    {
	pixman_region32_t clip;
	pixman_region32_init_rect (&clip, n * CELL, 0, CELL, CELL);
	pixman_image_set_clip_region32 (d, &clip);
	pixman_region32_fini (&clip);
    }
    guard ();
    if (mode != 1)
	pixman_composite_glyphs_no_mask (PIXMAN_OP_SRC, white, d, 0, 0, 0, 0, cache, n, pg);
    else
	pixman_composite_glyphs (PIXMAN_OP_SRC, white, d, PIXMAN_a8r8g8b8, 0, 0, 0, 0, 0, 0, n * CELL, CELL, cache, n, pg);
    unguard ();
    p = pixman_image_get_data (d);
    st = pixman_image_get_stride (d) / 4;
    for (i = 0; i < n; i++)
	for (y = 0; y < CELL; y++)
	    for (x = 0; x < CELL; x++)
		pix[(i * CELL + y) * CELL + x] = p[y * st + i * CELL + x];
    pixman_image_unref (d);
    return 1;
}

/* ------------------------------------------------------------------------------------------ */
/* single traced calls                                                                        */

static const void *
ev_lookup (int k)
{
    int o[4];
    const void *g;
    guard ();
    g = pixman_glyph_cache_lookup (cache, kfont[k], kglyph[k]);
    unguard ();
    vt_begin ("Lookup");
    vt_int ("k", k);
    vt_bool ("ret", g != NULL);
    vt_int ("hd", g ? pm_get (g) : 0);
    if (g)
    {
	glyph_origin_size (g, o);
	vt_ints ("ro", o, 4);
    }
    log_state ();
    vt_end ();
    return g;
}

static void
ev_insert (int k, int ox, int oy, int fmt, int w, int h, long long seed)
{
    int o[4], a[4];
    uint32_t pix[CELL * CELL];
    const void *g = do_insert (k, ox, oy, fmt, w, h, (uint64_t)seed, pix);
    vt_begin ("Insert");
    vt_int ("k", k); vt_int ("fmt", fmt);
    a[0] = ox; a[1] = oy; a[2] = w; a[3] = h;
    vt_ints ("o", a, 4);
    vt_w32s ("pix", pix, w * h);
    vt_bool ("ret", g != NULL);
    vt_int ("hd", g ? pm_get (g) : 0);
    if (g)
    {
	glyph_origin_size (g, o);
	vt_ints ("ro", o, 4);
    }
    log_state ();
    vt_end ();
}

static void
ev_use (int mode, int n, const int *ks)
{
    int i, org[64], missing = 0, ok;
    static uint32_t pix[16 * CELL * CELL];
    ok = do_use (mode, n, ks, pix, org, &missing);
    vt_begin ("Use");
    vt_int ("mode", mode);
    vt_ints ("ks", ks, n);
    if (!ok)
	vt_int ("missing", missing);
    else
    {
	vt_key ("got");
	fputc ('[', vt_out);
	for (i = 0; i < n; i++)
	{
	    int x, y, w = org[4 * i + 2], h = org[4 * i + 3], first = 1;
	    fprintf (vt_out, "%s{\"ro\":[%d,%d,%d,%d],\"pix\":[", i ? "," : "", org[4 * i], org[4 * i + 1], w, h);
	    for (y = 0; y < h && y < CELL; y++)
		for (x = 0; x < w && x < CELL; x++)
		{
		    uint32_t v = pix[(i * CELL + y) * CELL + x];
		    fprintf (vt_out, "%s[%u,%u]", first ? "" : ",", v >> 16, v & 0xffff);
		    first = 0;
		}
	    fputs ("]}", vt_out);
	}
	fputc (']', vt_out);
    }
    log_state ();
    vt_end ();
}

/* ------------------------------------------------------------------------------------------ */
static void
find_keys (FILE *in, int n)
{
    int i;
    uintptr_t g = 0x100;
    nkeys = n;
    for (i = 1; i <= n; i++)
    {
	int cls, font;
	if (fscanf (in, "%d %d", &cls, &font) != 2) exit (3);
	kfont[i] = fonts[font % 3];
	if (cls <= -100)
	{
	    kglyph[i] = kglyph[-100 - cls];        /* the glyph key of key j under another font */
	    continue;
	}
	if (cls <= -2)
	{
	    int j = -2 - cls + 1;
	    kglyph[i] = (void *)((uintptr_t)kfont[j] + (uintptr_t)kglyph[j] - (uintptr_t)kfont[i]);
	    continue;
	}
	for (;; g += 1)
	{
	    if (cls >= 0 && (int)_pixman_verif_glyph_hash (kfont[i], (void *)g) != cls)
		continue;
	    if (key_id (kfont[i], (void *)g) > 0 && key_id (kfont[i], (void *)g) < i)
		continue;
	    kglyph[i] = (void *)g;
	    g += 1;
	    break;
	}
    }
}

static void
find_keys_window (int n, int window)
{
    int i;
    uintptr_t g = 0x1000;
    nkeys = n;
    for (i = 1; i <= n; i++)
    {
	kfont[i] = fonts[0];
	while (window > 0 && (int)_pixman_verif_glyph_hash (kfont[i], (void *)g) >= window)
	    g += 8;
	kglyph[i] = (void *)g;
	g += 8;
    }
}

/* ------------------------------------------------------------------------------------------ */
/* glyph drawing: both routes                                                                 */

static void
log_image (const char *k, pixman_image_t *img)
{
    vt_w32s (k, pixman_image_get_data (img), pixman_image_get_stride (img) / 4 * pixman_image_get_height (img));
}

static pixman_image_t *
make_source (int kind, int rep, int w, int h, uint64_t seed)
{
    pixman_image_t *s;
    if (kind == 0)
    {
	pixman_color_t c;
	vrng_t r;
	vrng_seed (&r, seed);
	c.alpha = (uint16_t)vrng_next (&r);
	if (seed % 3 == 0) c.alpha = 0xffff;
	c.red = (uint16_t)(vrng_next (&r) % (c.alpha + 1u));
	c.green = (uint16_t)(vrng_next (&r) % (c.alpha + 1u));
	c.blue = (uint16_t)(vrng_next (&r) % (c.alpha + 1u));
	return pixman_image_create_solid_fill (&c);
    }
    s = make_bits (fmt_code (kind == 1 ? 2 : kind == 2 ? 4 : kind == 3 ? 1 : 3), w, h, seed, 0);
    pixman_image_set_repeat (s, rep == 1 ? PIXMAN_REPEAT_NORMAL : rep == 2 ? PIXMAN_REPEAT_PAD :
			     rep == 3 ? PIXMAN_REPEAT_REFLECT : PIXMAN_REPEAT_NONE);
    return s;
}

static void
do_draw (FILE *in)
{
    int mode, op, dfmt, dw, dh, nclip, skind, srep, sw, sh, src_x, src_y, mask_x, mask_y, dest_x, dest_y;
    int width, height, mfmt, n, i, ok = 1, missing = 0;
    long long dseed, sseed;
    pixman_box32_t clip[16];
    pixman_glyph_t pg[64];
    int gk[64], gx[64], gy[64], steps[64 * 3];
    pixman_image_t *da, *db, *src;
    pixman_region32_t reg;

    if (fscanf (in, "%d %d %d %d %d %lld %d", &mode, &op, &dfmt, &dw, &dh, &dseed, &nclip) != 7) exit (3);
    if (nclip > 16) exit (3);
    for (i = 0; i < nclip; i++)
	if (fscanf (in, "%d %d %d %d", &clip[i].x1, &clip[i].y1, &clip[i].x2, &clip[i].y2) != 4) exit (3);
    if (fscanf (in, "%d %d %d %d %lld %d %d %d %d %d %d %d %d %d %d", &skind, &srep, &sw, &sh, &sseed, &src_x, &src_y,
		&mask_x, &mask_y, &dest_x, &dest_y, &width, &height, &mfmt, &n) != 15) exit (3);
    if (n > 64) exit (3);
    for (i = 0; i < n; i++)
	if (fscanf (in, "%d %d %d", &gk[i], &gx[i], &gy[i]) != 3) exit (3);

    for (i = 0; i < n; i++)
    {
	guard ();
	pg[i].glyph = pixman_glyph_cache_lookup (cache, kfont[gk[i]], kglyph[gk[i]]);
	unguard ();
	pg[i].x = gx[i];
	pg[i].y = gy[i];
	if (!pg[i].glyph || !refimg[gk[i]])
	{
	    ok = 0;
	    missing = gk[i];
	}
    }
    vt_begin ("Glyphs");
    vt_int ("mode", mode); vt_int ("op", op); vt_int ("dfmt", dfmt); vt_int ("mfmt", mfmt);
    vt_int ("dest_x", dest_x); vt_int ("dest_y", dest_y); vt_int ("mask_x", mask_x); vt_int ("mask_y", mask_y);
    vt_int ("nclip", nclip);
    vt_key ("list");
    fputc ('[', vt_out);
    for (i = 0; i < n; i++)
	fprintf (vt_out, "%s[%d,%d,%d]", i ? "," : "", gk[i], gx[i], gy[i]);
    fputc (']', vt_out);
    if (!ok)
    {
	vt_int ("missing", missing);
	vt_end ();
	return;
    }
    da = make_bits (fmt_code (dfmt), dw, dh, (uint64_t)dseed, 0);
    db = make_bits (fmt_code (dfmt), dw, dh, (uint64_t)dseed, 0);
    src = make_source (skind, srep, sw, sh, (uint64_t)sseed);
    if (nclip)
    {
	pixman_region32_init_rects (&reg, clip, nclip);
	pixman_image_set_clip_region32 (da, &reg);
	pixman_image_set_clip_region32 (db, &reg);
	pixman_region32_fini (&reg);
    }
    /* route A: the glyph API */
    guard ();
    if (mode == 0)
	pixman_composite_glyphs_no_mask ((pixman_op_t)op, src, da, src_x, src_y, dest_x, dest_y, cache, n, pg);
    else
	pixman_composite_glyphs ((pixman_op_t)op, src, da, fmt_code (mfmt), src_x, src_y, mask_x, mask_y,
				 dest_x, dest_y, width, height, cache, n, pg);
    unguard ();
    /* route B: what the statement says it is equal to, with the driver's own copies of the glyph images */
    if (mode == 0)
    {
	for (i = 0; i < n; i++)
	{
	    pixman_image_t *g = refimg[gk[i]];
	    int mx = gx[i] - kox[gk[i]], my = gy[i] - koy[gk[i]];
	    pixman_image_composite32 ((pixman_op_t)op, src, g, db, src_x + mx, src_y + my, 0, 0,
				      dest_x + mx, dest_y + my, pixman_image_get_width (g), pixman_image_get_height (g));
	    steps[3 * i] = gk[i]; steps[3 * i + 1] = mx; steps[3 * i + 2] = my;
	}
    }
    else
    {
	pixman_image_t *mask = pixman_image_create_bits (fmt_code (mfmt), width, height, NULL, -1);
	if (mask)
	{
	    if (is_ca (fmt_code (mfmt)))
		pixman_image_set_component_alpha (mask, 1);
	    for (i = 0; i < n; i++)
	    {
		pixman_image_t *g = refimg[gk[i]];
		int mx = gx[i] - kox[gk[i]] - mask_x, my = gy[i] - koy[gk[i]] - mask_y;
		pixman_image_composite32 (PIXMAN_OP_ADD, white, g, mask, 0, 0, 0, 0, mx, my,
					  pixman_image_get_width (g), pixman_image_get_height (g));
		steps[3 * i] = gk[i]; steps[3 * i + 1] = mx; steps[3 * i + 2] = my;
	    }
	    pixman_image_composite32 ((pixman_op_t)op, src, mask, db, src_x, src_y, 0, 0, dest_x, dest_y, width, height);
	    pixman_image_unref (mask);
	}
    }
    vt_key ("steps");
    fputc ('[', vt_out);
    for (i = 0; i < n; i++)
	fprintf (vt_out, "%s[%d,%d,%d]", i ? "," : "", steps[3 * i], steps[3 * i + 1], steps[3 * i + 2]);
    fputc (']', vt_out);
    log_image ("a", da);
    log_image ("b", db);
    vt_end ();
    pixman_image_unref (da);
    pixman_image_unref (db);
    pixman_image_unref (src);
}

/* ------------------------------------------------------------------------------------------ */
static uint32_t bigpix[MAXKEYS];
static int bigint[MAXKEYS], bigint2[MAXKEYS];

static void
batch_value (int k, int *ox, int *oy, uint64_t *seed)
{
    *ox = k % 7 - 3;
    *oy = k % 5 - 2;
    *seed = (uint64_t)k * 7919u + 13;
}

int
main (int argc, char **argv)
{
    FILE *in;
    char cmd[8], name[128];
    static const pixman_color_t wc = { 0xffff, 0xffff, 0xffff, 0xffff };

    if (argc < 3)
    {
	fprintf (stderr, "usage: drv_glyph script trace\n");
	return 3;
    }
    in = fopen (argv[1], "r");
    if (!in) { perror (argv[1]); return 3; }
    vt_open (argv[2]);
    white = pixman_image_create_solid_fill (&wc);

    while (fscanf (in, "%7s", cmd) == 1)
    {
	if (!strcmp (cmd, "K"))
	{
	    int n;
	    if (fscanf (in, "%d", &n) != 1 || n > 256) return 3;
	    if (!cache) cache = pixman_glyph_cache_create ();
	    find_keys (in, n);
	}
	else if (!strcmp (cmd, "KR"))
	{
	    int n, window;
	    if (fscanf (in, "%d %d", &n, &window) != 2 || n > MAXKEYS) return 3;
	    find_keys_window (n, window);
	}
	else if (!strcmp (cmd, "R"))
	{
	    if (fscanf (in, "%127s", name) != 1) return 3;
	    reset_cache ();
	    vt_reset (name);
	    log_keys ();
	}
	else if (!strcmp (cmd, "F") || !strcmp (cmd, "T"))
	{
	    guard ();
	    if (cmd[0] == 'F')
		pixman_glyph_cache_freeze (cache);
	    else
		pixman_glyph_cache_thaw (cache);
	    unguard ();
	    vt_begin (cmd[0] == 'F' ? "Freeze" : "Thaw");
	    log_state ();
	    vt_end ();
	}
	else if (!strcmp (cmd, "I") || !strcmp (cmd, "IQ"))
	{
	    int k, ox, oy, fmt, w, h;
	    long long seed;
	    if (fscanf (in, "%d %d %d %d %d %d %lld", &k, &ox, &oy, &fmt, &w, &h, &seed) != 7) return 3;
	    if (k < 1 || k > nkeys || w < 1 || h < 1 || w > CELL || h > CELL) return 3;
	    /* IQ: what a client does -- look the glyph up, insert it if it is not there */
	    if (cmd[1] == 'Q' && ev_lookup (k))
		continue;
	    ev_insert (k, ox, oy, fmt, w, h, seed);
	}
	else if (!strcmp (cmd, "L"))
	{
	    int k;
	    if (fscanf (in, "%d", &k) != 1 || k < 1 || k > nkeys) return 3;
	    ev_lookup (k);
	}
	else if (!strcmp (cmd, "D"))
	{
	    int k;
	    if (fscanf (in, "%d", &k) != 1 || k < 1 || k > nkeys) return 3;
	    guard ();
	    pixman_glyph_cache_remove (cache, kfont[k], kglyph[k]);
	    unguard ();
	    vt_begin ("Remove");
	    vt_int ("k", k);
	    log_state ();
	    vt_end ();
	}
	else if (!strcmp (cmd, "U") || !strcmp (cmd, "UQ"))
	{
	    int mode, n, i, ks[16], present = 1;
	    if (fscanf (in, "%d %d", &mode, &n) != 2 || n < 1 || n > 16) return 3;
	    for (i = 0; i < n; i++)
		if (fscanf (in, "%d", &ks[i]) != 1 || ks[i] < 1 || ks[i] > nkeys) return 3;
	    /* UQ: look every glyph up first, draw only if all are there */
	    if (cmd[1] == 'Q')
		for (i = 0; i < n; i++)
		    if (!ev_lookup (ks[i]))
			present = 0;
	    if (present)
		ev_use (mode, n, ks);
	}
	else if (!strcmp (cmd, "IB"))
	{
	    /* batch insert; one event per maximal run of equal return values, counters as after the run's last call */
	    int from, n, i, run0, cur = -1, cnt = 0, hd0 = 0;
	    int ctr[5], prev[5];
	    if (fscanf (in, "%d %d", &from, &n) != 2 || from < 1 || from + n - 1 > nkeys) return 3;
	    run0 = from;
	    memset (prev, 0, sizeof prev);
	    for (i = 0; i <= n; i++)
	    {
		int r = -2, k = from + i, ox = 0, oy = 0;
		uint64_t seed;
		uint32_t px[1] = { 0 };
		if (i < n)
		{
		    batch_value (k, &ox, &oy, &seed);
		    r = do_insert (k, ox, oy, 1, 1, 1, seed, px) != NULL;
		    _pixman_verif_glyph_dump (cache, 0, NULL, NULL, NULL, ctr, NULL, NULL);
		}
		if (r != cur && cnt > 0)
		{
		    vt_begin ("InsB");
		    vt_int ("from", run0); vt_int ("n", cnt); vt_bool ("ret", cur);
		    vt_int ("hd0", hd0);
		    vt_ints ("o", bigint, cur ? cnt : 0);
		    vt_w32s ("pix", bigpix, cur ? cnt : 0);
		    vt_ints ("ctr", prev, 3);
		    vt_end ();
		    cnt = 0;
		    run0 = k;
		}
		if (i < n)
		{
		    if (cnt == 0)
			hd0 = r ? serial : 0;
		    bigint[cnt] = (ox + 8) + 16 * (oy + 8);
		    bigpix[cnt] = px[0];
		    cnt++;
		    cur = r;
		    memcpy (prev, ctr, sizeof prev);
		}
	    }
	}
	else if (!strcmp (cmd, "LB"))
	{
	    int from, n, i, nh = 0;
	    static int hits[MAXKEYS];
	    if (fscanf (in, "%d %d", &from, &n) != 2 || from < 1 || from + n - 1 > nkeys) return 3;
	    alarm (60);
	    for (i = 0; i < n; i++)
	    {
		int k = from + i, o[4];
		const void *g = pixman_glyph_cache_lookup (cache, kfont[k], kglyph[k]);
		if (g)
		{
		    glyph_origin_size (g, o);
		    hits[nh] = k;
		    bigint[nh] = (o[0] + 8) + 16 * (o[1] + 8);
		    bigint2[nh] = pm_get (g);
		    nh++;
		}
	    }
	    unguard ();
	    vt_begin ("LookB");
	    vt_int ("from", from); vt_int ("n", n);
	    vt_ints ("hits", hits, nh);        /* the keys for which lookup returned non-NULL, ascending */
	    vt_ints ("o", bigint, nh);
	    vt_ints ("hd", bigint2, nh);
	    log_state ();
	    vt_end ();
	}
	else if (!strcmp (cmd, "DB"))
	{
	    int from, n, step, i;
	    if (fscanf (in, "%d %d %d", &from, &n, &step) != 3 || from < 1 || from + (n - 1) * step > nkeys) return 3;
	    alarm (60);
	    for (i = 0; i < n; i++)
		pixman_glyph_cache_remove (cache, kfont[from + i * step], kglyph[from + i * step]);
	    unguard ();
	    vt_begin ("RemB");
	    vt_int ("from", from); vt_int ("n", n); vt_int ("step", step);
	    log_state ();
	    vt_end ();
	}
	else if (!strcmp (cmd, "UB"))
	{
	    int from, n, step, i, nm = 0;
	    if (fscanf (in, "%d %d %d", &from, &n, &step) != 3 || from < 1 || from + (n - 1) * step > nkeys) return 3;
	    for (i = 0; i < n; i++)
	    {
		int k = from + i * step, org[4], missing = 0;
		static uint32_t pix[CELL * CELL];
		if (do_use (i & 3, 1, &k, pix, org, &missing))
		{
		    bigpix[i] = pix[0];
		    bigint[i] = (org[0] + 8) + 16 * (org[1] + 8);
		}
		else
		{
		    bigpix[i] = 0;
		    bigint[i] = -1;
		    nm++;
		}
	    }
	    vt_begin ("UseB");
	    vt_int ("from", from); vt_int ("n", n); vt_int ("step", step);
	    vt_int ("nmissing", nm);
	    vt_ints ("o", bigint, n);
	    vt_w32s ("pix", bigpix, n);
	    log_state ();
	    vt_end ();
	}
	else if (!strcmp (cmd, "G"))
	    do_draw (in);
	else
	{
	    fprintf (stderr, "drv_glyph: unknown command %s\n", cmd);
	    return 3;
	}
    }
    reset_cache ();
    pixman_glyph_cache_destroy (cache);
    cache = NULL;
    drop_refs ();
    pixman_image_unref (white);
    vt_close ();
    return 0;
}
