/* Conformance driver for the last sentence of C10: "images accessed through user read/write callbacks
 * behave identically to directly addressed images".  Every request of a script is executed once on
 * directly addressed images and once per accessor variant on twins that start with identical bytes and
 * are wrapped in plain read/write callbacks (bit 1: destination, 2: source, 4: mask / glyph images).
 * All buffers (whole images, row padding included) are logged after each execution.  The driver never
 * compares them: spec/trace/FormatsTrace.tla (action TEquiv: ViaAccessors(req) = Direct(req)) does.
 *
 *   R name
 *   E entry nvar v.. D fcode w h stride HEX S fcode w h stride HEX rep M fcode w h stride HEX ca P n ints..
 *       (S / M with fcode 0: absent, HEX "-")
 *   entries and their integer parameters (coordinates are 16.16 fixed point):
 *     rast_trap      xoff yoff  top bottom l.p1.x l.p1.y l.p2.x l.p2.y r.p1.x r.p1.y r.p2.x r.p2.y
 *     add_trapezoids xoff yoff n (10 per trapezoid)
 *     add_traps      xoff yoff n (top.l top.r top.y bot.l bot.r bot.y per trap)
 *     add_triangles  xoff yoff n (p1.x p1.y p2.x p2.y p3.x p3.y per triangle)
 *     comp_traps     op maskfmt xs ys xd yd n (10 per trapezoid)
 *     comp_tris      op maskfmt xs ys xd yd n (6 per triangle)
 *     composite      op sx sy mx my dx dy w h
 *     fill_boxes     op r g b a n (x1 y1 x2 y2 per box)
 *     fill_rects     op r g b a n (x y w h per rectangle)
 *     glyphs         op maskfmt sx sy mx my dx dy w h n (x y per glyph; the glyph image is M; maskfmt 0: no_mask)
 *
 *   H role hist fcode w h stride op WIN BACKA BACKB PLAINSRC PLAINDST
 *       accessor history on ONE image X of format fcode (role s: X is the source, m: the mask, d: the
 *       destination of a w x h composite with operator op; the other images are fresh a8r8g8b8 images).
 *       hist is a string of modes, one per use of X: D = no callbacks installed (set_accessors (NULL, NULL)),
 *       A / B = callback pair A / B installed.  The callbacks are not the identity: X is created over the
 *       "window" buffer WIN, and pair A (B) redirects every access to the backing buffer BACKA (BACKB) and
 *       counts calls.  After each use all three buffers, the plain destination, the call counts and the
 *       result of the same request on fresh directly addressed images holding the effective contents are
 *       logged (event Hist; judged by FormatsTrace!THist).
 */
#include "vcommon.h"
#include <pixman.h>

/* ---- redirecting, counting callbacks for the accessor-history suite ---- */
static intptr_t disp_a, disp_b;
static long n_reads, n_writes;

static uint32_t
rd_at (const uint8_t *p, int size)
{
    n_reads++;
    switch (size)
    {
    case 1: return *(const uint8_t *)p;
    case 2: return *(const uint16_t *)p;
    case 4: return *(const uint32_t *)p;
    }
    abort ();
}

static void
wr_at (uint8_t *p, uint32_t value, int size)
{
    n_writes++;
    switch (size)
    {
    case 1: *(uint8_t *)p = value; return;
    case 2: *(uint16_t *)p = value; return;
    case 4: *(uint32_t *)p = value; return;
    }
    abort ();
}

static uint32_t read_a (const void *src, int size) { return rd_at ((const uint8_t *)src + disp_a, size); }
static uint32_t read_b (const void *src, int size) { return rd_at ((const uint8_t *)src + disp_b, size); }
static void write_a (void *dst, uint32_t v, int size) { wr_at ((uint8_t *)dst + disp_a, v, size); }
static void write_b (void *dst, uint32_t v, int size) { wr_at ((uint8_t *)dst + disp_b, v, size); }

static uint32_t
acc_read (const void *src, int size)
{
    switch (size)
    {
    case 1: return *(const uint8_t *)src;
    case 2: return *(const uint16_t *)src;
    case 4: return *(const uint32_t *)src;
    }
    abort ();
}

static void
acc_write (void *dst, uint32_t value, int size)
{
    switch (size)
    {
    case 1: *(uint8_t *)dst = value; return;
    case 2: *(uint16_t *)dst = value; return;
    case 4: *(uint32_t *)dst = value; return;
    }
    abort ();
}

static int
hexval (int c)
{
    if (c >= '0' && c <= '9') return c - '0';
    if (c >= 'a' && c <= 'f') return c - 'a' + 10;
    return -1;
}

typedef struct
{
    unsigned code;
    int w, h, stride, len, flag;	/* flag: repeat (source) / component alpha (mask) */
    uint8_t *init;			/* initial bytes */
    uint8_t *work;			/* bytes of the current execution */
} img_t;

static char tok[1 << 17];

static int
read_img (FILE *in, img_t *im, int with_flag)
{
    int i;
    im->flag = 0;
    if (fscanf (in, "%u %d %d %d %131071s", &im->code, &im->w, &im->h, &im->stride, tok) != 5) return 0;
    if (with_flag && fscanf (in, "%d", &im->flag) != 1) return 0;
    im->init = im->work = NULL;
    im->len = 0;
    if (im->code == 0)
	return 1;
    im->len = (int)strlen (tok) / 2;
    if (im->len != im->h * im->stride) return 0;
    if (posix_memalign ((void **)&im->init, 16, im->len + 16)) return 0;
    if (posix_memalign ((void **)&im->work, 16, im->len + 16)) return 0;
    for (i = 0; i < im->len; i++)
	im->init[i] = (uint8_t)(hexval (tok[2 * i]) * 16 + hexval (tok[2 * i + 1]));
    return 1;
}

static pixman_image_t *
make (img_t *im, int acc)
{
    pixman_image_t *p;
    if (im->code == 0)
	return NULL;
    memcpy (im->work, im->init, im->len);
    p = pixman_image_create_bits (im->code, im->w, im->h, (uint32_t *)im->work, im->stride);
    if (!p) { fprintf (stderr, "drv_accequiv: cannot create image %x\n", im->code); exit (3); }
    if (acc)
	pixman_image_set_accessors (p, acc_read, acc_write);
    return p;
}

#define MAXP 4096
static int P[MAXP];

static void
get_trapezoid (pixman_trapezoid_t *t, const int *p)
{
    t->top = p[0]; t->bottom = p[1];
    t->left.p1.x = p[2]; t->left.p1.y = p[3]; t->left.p2.x = p[4]; t->left.p2.y = p[5];
    t->right.p1.x = p[6]; t->right.p1.y = p[7]; t->right.p2.x = p[8]; t->right.p2.y = p[9];
}

static void
get_triangle (pixman_triangle_t *t, const int *p)
{
    t->p1.x = p[0]; t->p1.y = p[1]; t->p2.x = p[2]; t->p2.y = p[3]; t->p3.x = p[4]; t->p3.y = p[5];
}

#define MAXN 64

static void
execute (const char *entry, img_t *D, img_t *S, img_t *M, int acc, int np)
{
    pixman_image_t *d = make (D, acc & 1), *s = make (S, acc & 2), *m = make (M, acc & 4);
    pixman_trapezoid_t traps[MAXN];
    pixman_triangle_t tris[MAXN];
    int i, n;
    if (s && S->flag) pixman_image_set_repeat (s, PIXMAN_REPEAT_NORMAL);
    if (m && M->flag) pixman_image_set_component_alpha (m, 1);

    if (!strcmp (entry, "rast_trap"))
    {
	get_trapezoid (&traps[0], P + 2);
	pixman_rasterize_trapezoid (d, &traps[0], P[0], P[1]);
    }
    else if (!strcmp (entry, "add_trapezoids"))
    {
	n = P[2] > MAXN ? MAXN : P[2];
	for (i = 0; i < n; i++) get_trapezoid (&traps[i], P + 3 + 10 * i);
	pixman_add_trapezoids (d, (int16_t)P[0], P[1], n, traps);
    }
    else if (!strcmp (entry, "add_traps"))
    {
	pixman_trap_t tp[MAXN];
	n = P[2] > MAXN ? MAXN : P[2];
	for (i = 0; i < n; i++)
	{
	    const int *p = P + 3 + 6 * i;
	    tp[i].top.l = p[0]; tp[i].top.r = p[1]; tp[i].top.y = p[2];
	    tp[i].bot.l = p[3]; tp[i].bot.r = p[4]; tp[i].bot.y = p[5];
	}
	pixman_add_traps (d, (int16_t)P[0], (int16_t)P[1], n, tp);
    }
    else if (!strcmp (entry, "add_triangles"))
    {
	n = P[2] > MAXN ? MAXN : P[2];
	for (i = 0; i < n; i++) get_triangle (&tris[i], P + 3 + 6 * i);
	pixman_add_triangles (d, P[0], P[1], n, tris);
    }
    else if (!strcmp (entry, "comp_traps"))
    {
	n = P[6] > MAXN ? MAXN : P[6];
	for (i = 0; i < n; i++) get_trapezoid (&traps[i], P + 7 + 10 * i);
	pixman_composite_trapezoids ((pixman_op_t)P[0], s, d, (pixman_format_code_t)P[1], P[2], P[3], P[4], P[5], n, traps);
    }
    else if (!strcmp (entry, "comp_tris"))
    {
	n = P[6] > MAXN ? MAXN : P[6];
	for (i = 0; i < n; i++) get_triangle (&tris[i], P + 7 + 6 * i);
	pixman_composite_triangles ((pixman_op_t)P[0], s, d, (pixman_format_code_t)P[1], P[2], P[3], P[4], P[5], n, tris);
    }
    else if (!strcmp (entry, "composite"))
    {
	pixman_image_composite32 ((pixman_op_t)P[0], s, m, d, P[1], P[2], P[3], P[4], P[5], P[6], P[7], P[8]);
    }
    else if (!strcmp (entry, "fill_boxes"))
    {
	pixman_color_t c;
	pixman_box32_t b[MAXN];
	c.red = (uint16_t)P[1]; c.green = (uint16_t)P[2]; c.blue = (uint16_t)P[3]; c.alpha = (uint16_t)P[4];
	n = P[5] > MAXN ? MAXN : P[5];
	for (i = 0; i < n; i++)
	{
	    b[i].x1 = P[6 + 4 * i]; b[i].y1 = P[7 + 4 * i]; b[i].x2 = P[8 + 4 * i]; b[i].y2 = P[9 + 4 * i];
	}
	pixman_image_fill_boxes ((pixman_op_t)P[0], d, &c, n, b);
    }
    else if (!strcmp (entry, "fill_rects"))
    {
	pixman_color_t c;
	pixman_rectangle16_t r[MAXN];
	c.red = (uint16_t)P[1]; c.green = (uint16_t)P[2]; c.blue = (uint16_t)P[3]; c.alpha = (uint16_t)P[4];
	n = P[5] > MAXN ? MAXN : P[5];
	for (i = 0; i < n; i++)
	{
	    r[i].x = (int16_t)P[6 + 4 * i]; r[i].y = (int16_t)P[7 + 4 * i];
	    r[i].width = (uint16_t)P[8 + 4 * i]; r[i].height = (uint16_t)P[9 + 4 * i];
	}
	pixman_image_fill_rectangles ((pixman_op_t)P[0], d, &c, n, r);
    }
    else if (!strcmp (entry, "glyphs"))
    {
	pixman_glyph_cache_t *cache = pixman_glyph_cache_create ();
	pixman_glyph_t g[MAXN];
	const void *gl;
	static int font_key;
	if (!cache) exit (3);
	n = P[10] > MAXN ? MAXN : P[10];
	pixman_glyph_cache_freeze (cache);
	gl = pixman_glyph_cache_insert (cache, &font_key, &font_key, 1, 1, m);
	if (!gl) exit (3);
	for (i = 0; i < n; i++)
	{
	    g[i].x = P[11 + 2 * i]; g[i].y = P[12 + 2 * i]; g[i].glyph = gl;
	}
	if (P[1])
	    pixman_composite_glyphs ((pixman_op_t)P[0], s, d, (pixman_format_code_t)P[1], P[2], P[3], P[4], P[5],
				     P[6], P[7], P[8], P[9], cache, n, g);
	else
	    pixman_composite_glyphs_no_mask ((pixman_op_t)P[0], s, d, P[2], P[3], P[6], P[7], cache, n, g);
	pixman_glyph_cache_thaw (cache);
	pixman_glyph_cache_destroy (cache);
    }
    else
    {
	fprintf (stderr, "drv_accequiv: unknown entry %s\n", entry);
	exit (3);
    }
    (void)np;
    if (d) pixman_image_unref (d);
    if (s) pixman_image_unref (s);
    if (m) pixman_image_unref (m);
}

static void
log_bufs (img_t *D, img_t *S, img_t *M)
{
    vt_bytes ("dst", D->work, D->len);
    vt_bytes ("src", S->work, S->len);
    vt_bytes ("msk", M->work, M->len);
}

int
main (int argc, char **argv)
{
    FILE *in;
    char kind[8], name[128], entry[32], tag[8];
    if (argc < 3)
    {
	fprintf (stderr, "usage: drv_accequiv script trace\n");
	return 3;
    }
    in = fopen (argv[1], "r");
    if (!in) { perror (argv[1]); return 3; }
    vt_open (argv[2]);
    while (fscanf (in, "%7s", kind) == 1)
    {
	if (kind[0] == 'R')
	{
	    if (fscanf (in, "%127s", name) != 1) return 3;
	    vt_reset (name);
	}
	else if (kind[0] == 'E')
	{
	    int nvar, vars[8], i, np;
	    img_t D, S, M;
	    if (fscanf (in, "%31s %d", entry, &nvar) != 2 || nvar > 8) return 3;
	    for (i = 0; i < nvar; i++)
		if (fscanf (in, "%d", &vars[i]) != 1) return 3;
	    if (fscanf (in, "%7s", tag) != 1 || tag[0] != 'D' || !read_img (in, &D, 0)) return 3;
	    if (fscanf (in, "%7s", tag) != 1 || tag[0] != 'S' || !read_img (in, &S, 1)) return 3;
	    if (fscanf (in, "%7s", tag) != 1 || tag[0] != 'M' || !read_img (in, &M, 1)) return 3;
	    if (fscanf (in, "%7s %d", tag, &np) != 2 || tag[0] != 'P' || np > MAXP) return 3;
	    for (i = 0; i < np; i++)
		if (fscanf (in, "%d", &P[i]) != 1) return 3;

	    vt_begin ("Equiv");
	    vt_str ("entry", entry);
	    vt_w32 ("df", D.code); vt_int ("dw", D.w); vt_int ("dh", D.h); vt_int ("dstride", D.stride);
	    vt_w32 ("sf", S.code); vt_w32 ("mf", M.code);
	    vt_ints ("params", P, np);
	    vt_bytes ("dinit", D.init, D.len);
	    vt_bytes ("sinit", S.init, S.len);
	    vt_bytes ("minit", M.init, M.len);
	    execute (entry, &D, &S, &M, 0, np);
	    fputs (",\"direct\":{\"acc\":0", vt_out);
	    log_bufs (&D, &S, &M);
	    fputs ("},\"wrapped\":[", vt_out);
	    for (i = 0; i < nvar; i++)
	    {
		execute (entry, &D, &S, &M, vars[i], np);
		fprintf (vt_out, "%s{\"acc\":%d", i ? "," : "", vars[i]);
		log_bufs (&D, &S, &M);
		fputs ("}", vt_out);
	    }
	    fputs ("]", vt_out);
	    vt_end ();
	    free (D.init); free (D.work); free (S.init); free (S.work); free (M.init); free (M.work);
	}
	else if (kind[0] == 'H')
	{
	    char role[8], hist[16];
	    unsigned fcode;
	    int w, h, stride, op, len, plen, k, i;
	    uint8_t *block, *win, *ba, *bb, *psrc0, *pdst0, *psrc, *pdst, *refx, *refd, *refs;
	    uint8_t *bufs[5];
	    pixman_image_t *x;
	    if (fscanf (in, "%7s %15s %u %d %d %d %d", role, hist, &fcode, &w, &h, &stride, &op) != 7) return 3;
	    len = stride * h;
	    plen = w * 4 * h;
	    for (i = 0; i < 5; i++)
	    {
		int n, j, want = i < 3 ? len : plen;
		if (fscanf (in, "%131071s", tok) != 1) return 3;
		n = (int)strlen (tok) / 2;
		if (i == 0 && n >= len) len = want = n;	/* planar formats: the buffers hold the whole allocation */
		if (n != want) return 3;
		if (posix_memalign ((void **)&bufs[i], 16, n + 16)) return 3;
		for (j = 0; j < n; j++)
		    bufs[i][j] = (uint8_t)(hexval (tok[2 * j]) * 16 + hexval (tok[2 * j + 1]));
	    }
	    /* window and the two backing stores live in one block, at fixed displacements */
	    if (posix_memalign ((void **)&block, 16, 3 * (len + 64))) return 3;
	    win = block; ba = block + len + 64; bb = block + 2 * (len + 64);
	    memcpy (win, bufs[0], len); memcpy (ba, bufs[1], len); memcpy (bb, bufs[2], len);
	    disp_a = ba - win; disp_b = bb - win;
	    psrc0 = bufs[3]; pdst0 = bufs[4];
	    psrc = malloc (plen + 16); pdst = malloc (plen + 16);
	    refx = NULL; refd = malloc (plen + 16); refs = malloc (plen + 16);
	    if (posix_memalign ((void **)&refx, 16, len + 16)) return 3;

	    x = pixman_image_create_bits (fcode, w, h, (uint32_t *)win, stride);
	    if (!x) return 3;
	    vt_begin ("Hist");
	    vt_str ("role", role); vt_str ("hist", hist);
	    vt_w32 ("f", fcode); vt_int ("w", w); vt_int ("h", h); vt_int ("stride", stride); vt_int ("op", op);
	    fputs (",\"steps\":[", vt_out);
	    for (k = 0; hist[k]; k++)
	    {
		pixman_image_t *ps, *pd, *rx, *rs, *rd2;
		uint8_t *eff = hist[k] == 'A' ? ba : hist[k] == 'B' ? bb : win;
		if (hist[k] == 'A') pixman_image_set_accessors (x, read_a, write_a);
		else if (hist[k] == 'B') pixman_image_set_accessors (x, read_b, write_b);
		else pixman_image_set_accessors (x, NULL, NULL);
		fprintf (vt_out, "%s{\"mode\":\"%c\"", k ? "," : "", hist[k]);
		vt_bytes ("win0", win, len); vt_bytes ("a0", ba, len); vt_bytes ("b0", bb, len);
		/* the reference: the same request on fresh directly addressed images holding the effective contents */
		memcpy (refx, eff, len); memcpy (refs, psrc0, plen); memcpy (refd, pdst0, plen);
		rx = pixman_image_create_bits (fcode, w, h, (uint32_t *)refx, stride);
		rs = pixman_image_create_bits (PIXMAN_a8r8g8b8, w, h, (uint32_t *)refs, w * 4);
		rd2 = pixman_image_create_bits (PIXMAN_a8r8g8b8, w, h, (uint32_t *)refd, w * 4);
		if (role[0] == 's') pixman_image_composite32 ((pixman_op_t)op, rx, NULL, rd2, 0, 0, 0, 0, 0, 0, w, h);
		else if (role[0] == 'm') pixman_image_composite32 ((pixman_op_t)op, rs, rx, rd2, 0, 0, 0, 0, 0, 0, w, h);
		else pixman_image_composite32 ((pixman_op_t)op, rs, NULL, rx, 0, 0, 0, 0, 0, 0, w, h);
		pixman_image_unref (rx); pixman_image_unref (rs); pixman_image_unref (rd2);
		/* the use of X itself */
		memcpy (psrc, psrc0, plen); memcpy (pdst, pdst0, plen);
		ps = pixman_image_create_bits (PIXMAN_a8r8g8b8, w, h, (uint32_t *)psrc, w * 4);
		pd = pixman_image_create_bits (PIXMAN_a8r8g8b8, w, h, (uint32_t *)pdst, w * 4);
		n_reads = n_writes = 0;
		if (role[0] == 's') pixman_image_composite32 ((pixman_op_t)op, x, NULL, pd, 0, 0, 0, 0, 0, 0, w, h);
		else if (role[0] == 'm') pixman_image_composite32 ((pixman_op_t)op, ps, x, pd, 0, 0, 0, 0, 0, 0, w, h);
		else pixman_image_composite32 ((pixman_op_t)op, ps, NULL, x, 0, 0, 0, 0, 0, 0, w, h);
		pixman_image_unref (ps); pixman_image_unref (pd);
		vt_int ("reads", n_reads); vt_int ("writes", n_writes);
		vt_bytes ("win1", win, len); vt_bytes ("a1", ba, len); vt_bytes ("b1", bb, len);
		vt_bytes ("out", pdst, plen);
		vt_bytes ("refx", refx, len); vt_bytes ("refout", refd, plen);
		fputs ("}", vt_out);
	    }
	    fputs ("]", vt_out);
	    vt_end ();
	    pixman_image_unref (x);
	    for (i = 0; i < 5; i++) free (bufs[i]);
	    free (block); free (psrc); free (pdst); free (refx); free (refd); free (refs);
	}
	else
	{
	    fprintf (stderr, "drv_accequiv: bad script line kind %s\n", kind);
	    return 3;
	}
    }
    vt_close ();
    return 0;
}
