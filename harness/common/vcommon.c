#include "vcommon.h"
#include <signal.h>
#include <unistd.h>

FILE *vt_out;
static int vt_first;

static void
crash_handler (int sig)
{
    char buf[96];
    int n;
    if (vt_out)
	fflush (vt_out);
    n = snprintf (buf, sizeof buf, "\n{\"e\":\"Crash\",\"sig\":%d}\n", sig);
    if (vt_out)
    {
	if (write (fileno (vt_out), buf, n) < 0) {}
    }
    _exit (0);
}

void
vt_open (const char *path)
{
    vt_out = fopen (path, "w");
    if (!vt_out)
    {
	perror (path);
	exit (3);
    }
    setvbuf (vt_out, NULL, _IOFBF, 1 << 16);
    signal (SIGSEGV, crash_handler);
    signal (SIGBUS, crash_handler);
    signal (SIGABRT, crash_handler);
    signal (SIGFPE, crash_handler);
    signal (SIGILL, crash_handler);
    signal (SIGALRM, crash_handler);
}

void vt_flush (void) { if (vt_out) fflush (vt_out); }
void vt_close (void) { if (vt_out) { fclose (vt_out); vt_out = NULL; } }

void vt_begin (const char *ev) { fprintf (vt_out, "{\"e\":\"%s\"", ev); vt_first = 0; }
void vt_end (void) { fputs ("}\n", vt_out); fflush (vt_out); }
void vt_key (const char *k) { fprintf (vt_out, ",\"%s\":", k); }
void vt_int (const char *k, long long v) { fprintf (vt_out, ",\"%s\":%lld", k, v); }
void vt_bool (const char *k, int v) { fprintf (vt_out, ",\"%s\":%s", k, v ? "true" : "false"); }
void vt_str (const char *k, const char *v) { fprintf (vt_out, ",\"%s\":\"%s\"", k, v); }

void
vt_ints (const char *k, const int *v, int n)
{
    int i;
    fprintf (vt_out, ",\"%s\":[", k);
    for (i = 0; i < n; i++)
	fprintf (vt_out, i ? ",%d" : "%d", v[i]);
    fputc (']', vt_out);
}

void
vt_bytes (const char *k, const uint8_t *v, int n)
{
    int i;
    fprintf (vt_out, ",\"%s\":[", k);
    for (i = 0; i < n; i++)
	fprintf (vt_out, i ? ",%d" : "%d", v[i]);
    fputc (']', vt_out);
}

void
vt_w32 (const char *k, uint32_t w)
{
    fprintf (vt_out, ",\"%s\":[%u,%u]", k, w >> 16, w & 0xffff);
}

void
vt_w32s (const char *k, const uint32_t *w, int n)
{
    int i;
    fprintf (vt_out, ",\"%s\":[", k);
    for (i = 0; i < n; i++)
	fprintf (vt_out, i ? ",[%u,%u]" : "[%u,%u]", w[i] >> 16, w[i] & 0xffff);
    fputc (']', vt_out);
}

void
vt_reset (const char *scenario)
{
    fprintf (vt_out, "{\"e\":\"Reset\",\"scenario\":\"%s\"}\n", scenario);
}

void vrng_seed (vrng_t *r, uint64_t seed) { r->s = seed * 0x9E3779B97F4A7C15ULL + 0x1234567; }

uint64_t
vrng_next (vrng_t *r)
{
    uint64_t z = (r->s += 0x9E3779B97F4A7C15ULL);
    z = (z ^ (z >> 30)) * 0xBF58476D1CE4E5B9ULL;
    z = (z ^ (z >> 27)) * 0x94D049BB133111EBULL;
    return z ^ (z >> 31);
}

uint32_t vrng_below (vrng_t *r, uint32_t n) { return n ? (uint32_t)(vrng_next (r) % n) : 0; }
int vrng_range (vrng_t *r, int lo, int hi) { return lo + (int)vrng_below (r, (uint32_t)(hi - lo + 1)); }

char *
v_readline (FILE *f, char *buf, size_t n)
{
    return fgets (buf, (int)n, f);
}
