/* Common helpers for the conformance drivers: NDJSON trace writer, PRNG, crash handlers. */
#ifndef VCOMMON_H
#define VCOMMON_H
#include <stdint.h>
#include <stdio.h>
#include <stdlib.h>
#include <string.h>

extern FILE *vt_out;              /* trace file */
void vt_open (const char *path);  /* opens trace, installs crash handlers */
void vt_close (void);
void vt_flush (void);
/* event building: vt_begin("Name"); vt_int("k", v); ...; vt_end(); */
void vt_begin (const char *ev);
void vt_end (void);
void vt_int (const char *k, long long v);
void vt_bool (const char *k, int v);
void vt_str (const char *k, const char *v);
void vt_key (const char *k);      /* raw: emits ,"k": and lets caller fprintf a value */
void vt_ints (const char *k, const int *v, int n);
void vt_bytes (const char *k, const uint8_t *v, int n);
void vt_w32 (const char *k, uint32_t w);            /* [hi16, lo16] */
void vt_w32s (const char *k, const uint32_t *w, int n);   /* [[hi,lo],...] */
void vt_reset (const char *scenario);

/* PRNG (splitmix64) */
typedef struct { uint64_t s; } vrng_t;
void     vrng_seed (vrng_t *r, uint64_t seed);
uint64_t vrng_next (vrng_t *r);
uint32_t vrng_below (vrng_t *r, uint32_t n);     /* uniform in [0,n) */
int      vrng_range (vrng_t *r, int lo, int hi); /* uniform in [lo,hi] */
#define  VRNG_PICK(r, arr) ((arr)[vrng_below ((r), sizeof (arr) / sizeof ((arr)[0]))])

/* scenario files: one JSON-free line-oriented format read by drivers: tokens separated by blanks */
char *v_readline (FILE *f, char *buf, size_t n);
#endif
