/* Allocation accounting and fault injection (C15, C20).  Link the driver with
 *   -Wl,--wrap=malloc,--wrap=calloc,--wrap=realloc,--wrap=free
 * pixman is linked statically, so every allocation it makes goes through these wrappers.
 * They are transparent except between vf_begin() and vf_end() (i.e. inside a traced API call).
 */
#include "vcommon.h"
#include "vfault.h"
#include <stddef.h>

void *__real_malloc (size_t);
void *__real_calloc (size_t, size_t);
void *__real_realloc (void *, size_t);
void __real_free (void *);

int vf_nfail, vf_nalloc;
static int active, logging, armed_k, armed_mode, since_arm, busy;

void vf_arm (int k, int mode) { armed_k = k; armed_mode = mode; since_arm = 0; }
void vf_disarm (void) { armed_k = 0; }
void vf_log (int on) { logging = on; }
void vf_pause (int on) { active = !on; }
void vf_begin (void) { active = 1; }
void vf_end (void) { active = 0; }

static int
should_fail (void)
{
    vf_nalloc++;
    if (!armed_k)
	return 0;
    since_arm++;
    if (since_arm == armed_k || (armed_mode == 1 && since_arm > armed_k))
    {
	vf_nfail++;
	return 1;
    }
    return 0;
}

static void
log_alloc (const char *what, void *p, void *old, size_t size, int ok)
{
    uintptr_t a = (uintptr_t)p, o = (uintptr_t)old;
    if (!logging || !vt_out || busy)
	return;
    busy = 1;
    /* addresses as three 16-bit limbs (48 bits) */
    fprintf (vt_out, "{\"e\":\"%s\",\"ok\":%s,\"size\":%u,\"addr\":[%u,%u,%u],\"old\":[%u,%u,%u]}\n",
	     what, ok ? "true" : "false", (unsigned)(size > 0x7fffffff ? 0x7fffffff : size),
	     (unsigned)((a >> 32) & 0xffff), (unsigned)((a >> 16) & 0xffff), (unsigned)(a & 0xffff),
	     (unsigned)((o >> 32) & 0xffff), (unsigned)((o >> 16) & 0xffff), (unsigned)(o & 0xffff));
    busy = 0;
}

void *
__wrap_malloc (size_t n)
{
    void *p;
    if (!active || busy)
	return __real_malloc (n);
    if (should_fail ())
    {
	log_alloc ("Malloc", NULL, NULL, n, 0);
	return NULL;
    }
    p = __real_malloc (n);
    log_alloc ("Malloc", p, NULL, n, 1);
    return p;
}

void *
__wrap_calloc (size_t a, size_t b)
{
    void *p;
    if (!active || busy)
	return __real_calloc (a, b);
    if (should_fail ())
    {
	log_alloc ("Malloc", NULL, NULL, a * b, 0);
	return NULL;
    }
    p = __real_calloc (a, b);
    log_alloc ("Malloc", p, NULL, a * b, 1);
    return p;
}

void *
__wrap_realloc (void *old, size_t n)
{
    void *p;
    if (!active || busy)
	return __real_realloc (old, n);
    if (should_fail ())
    {
	log_alloc ("Realloc", NULL, old, n, 0);
	return NULL;
    }
    p = __real_realloc (old, n);
    log_alloc ("Realloc", p, old, n, 1);
    return p;
}

void
__wrap_free (void *p)
{
    if (active && !busy && p)
	log_alloc ("Free", p, NULL, 0, 1);
    __real_free (p);
}
