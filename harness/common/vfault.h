/* Allocation-fault injection and accounting.  When the driver is linked with
 * -Wl,--wrap=malloc,--wrap=calloc,--wrap=realloc,--wrap=free (and harness/common/vfault.c), every
 * allocation made by pixman goes through the wrappers; otherwise these are inert stubs. */
#ifndef VFAULT_H
#define VFAULT_H
extern int vf_nfail;          /* number of allocations refused so far */
extern int vf_nalloc;         /* number of allocation requests seen while counting */
void vf_arm (int k, int mode);   /* the k-th allocation from now fails (k>=1); mode 0: once, 1: from then on */
void vf_disarm (void);
void vf_log (int on);            /* log Malloc/Free events to the trace */
void vf_pause (int on);          /* harness-internal allocations: not counted, never failed */
void vf_begin (void);            /* start of a traced API call: allocations are counted / may fail / are logged */
void vf_end (void);
#endif
