#include "vfault.h"
int vf_nfail, vf_nalloc;
void vf_arm (int k, int mode) { (void)k; (void)mode; }
void vf_disarm (void) {}
void vf_log (int on) { (void)on; }
void vf_pause (int on) { (void)on; }
void vf_begin (void) {}
void vf_end (void) {}
